(* C08 — compile_control_correct, part 3: the arrival relation and the try/finally dispatch. *)
From Coq Require Import List Arith ZArith Bool Lia.
Import ListNotations.
From Verif.C08 Require Import Model ProofsC ProofsC2.

Definition bal (st st' : vmstate) (tr : list event) (sc' : list bool) : Prop :=
  trys st' = trys st /\ iters st' = iters st /\ intr st' = intr st /\
  trace st' = trace st ++ tr /\ script st' = sc'.

Definition nomark (fr : list frame) : Prop := Forall (fun f => f_marker f = false) fr.

(* how the VM, started at the first instruction of a compiled statement, realises a completion *)
Definition arrives (code : list instr) (bs : list blk) (st : vmstate) (endpos : nat) (pres g : bool)
                   (c : compl) (tr : list event) (sc' : list bool) : Prop :=
  match c with
  | CNormal _ =>
      exists st', steps code st st' /\ bal st st' tr sc' /\ stk st' = stk st /\ pc st' = endpos /\
                  (pres = true -> result st' = result st)
  | CBreak l _ =>
      exists st', steps code st st' /\ bal st st' tr sc' /\ stk st' = stk st /\
                  code_at code (compile_branch bs (pc st') l true) (pc st') /\
                  (pres = true -> result st' = result st)
  | CContinue l _ =>
      exists st', steps code st st' /\ bal st st' tr sc' /\ stk st' = stk st /\
                  code_at code (compile_branch bs (pc st') l false) (pc st') /\
                  (pres = true -> result st' = result st)
  | CReturn v =>
      exists st' v', steps code st st' /\ bal st st' tr sc' /\ stk st' = v' :: stk st /\
                     code_at code (ret_code bs ++ [IRet]) (pc st') /\ (g = true -> v' = v) /\ pres = false
  | CThrow v =>
      exists st1 st2, steps code st st1 /\ vm_step code st1 = vthrow st2 v /\ bal st st2 tr sc' /\
                      (exists xs, stk st2 = xs ++ stk st) /\ (pres = true -> result st2 = result st)
  | CUnc p =>
      exists st1 st2, steps code st st1 /\ vm_step code st1 = handle_throw None p st2 (trys st2) /\
                      (exists fr, trys st2 = fr ++ trys st /\ nomark fr) /\ iters st2 = iters st /\
                      trace st2 = trace st ++ tr
  end.

Lemma arrives_update_empty : forall code bs st e pres g c v tr sc',
  arrives code bs st e pres g (update_empty c v) tr sc' <-> arrives code bs st e pres g c tr sc'.
Proof. intros. destruct c as [[?|]| ? [?|] | ? [?|] | ? | ? | ? ]; simpl; tauto. Qed.

Lemma arrives_weaken : forall code bs st e pres g pres' g' c tr sc',
  (pres' = true -> pres = true) -> (g' = true -> g = true) ->
  arrives code bs st e pres g c tr sc' -> arrives code bs st e pres' g' c tr sc'.
Proof.
  intros code bs st e pres g pres' g' c tr sc' Hp Hg H. destruct c; simpl in *.
  - destruct H as (st' & ? & ? & ? & ? & ?). exists st'. intuition auto.
  - destruct H as (st' & ? & ? & ? & ? & ?). exists st'. intuition auto.
  - destruct H as (st' & ? & ? & ? & ? & ?). exists st'. intuition auto.
  - destruct H as (st' & v' & ? & ? & ? & ? & ? & Hpf). exists st', v'. intuition auto.
    destruct pres'; auto. rewrite Hp in Hpf; auto.
  - destruct H as (s1 & s2 & ? & ? & ? & ? & ?). exists s1, s2. intuition auto.
  - exact H.
Qed.

(* prefix: first some steps that keep the context, then an arrival *)
Lemma arrives_prefix : forall code bs st st0 e pres g c tr0 sc0 tr sc',
  steps code st st0 -> bal st st0 tr0 sc0 -> stk st0 = stk st ->
  (pres = true -> result st0 = result st) ->
  arrives code bs st0 e pres g c tr sc' ->
  arrives code bs st e pres g c (tr0 ++ tr) sc'.
Proof.
  intros code bs st st0 e pres g c tr0 sc0 tr sc' Hs (Ht & Hi & Hn & Htr & Hsc) Hk Hr H.
  assert (B : forall s tr1 sc1, bal st0 s tr1 sc1 -> bal st s (tr0 ++ tr1) sc1).
  { intros s tr1 sc1 (A1 & A2 & A3 & A4 & A5). unfold bal. rewrite A1, A2, A3, A4, Ht, Hi, Hn, Htr, app_assoc. auto. }
  destruct c; simpl in *.
  - destruct H as (st' & S1 & B1 & K1 & P1 & R1). exists st'. split; [eauto using steps_trans|].
    split; [apply B; assumption|]. split; [congruence|]. split; [assumption|]. intro. rewrite R1, Hr; auto.
  - destruct H as (st' & S1 & B1 & K1 & P1 & R1). exists st'. split; [eauto using steps_trans|].
    split; [apply B; assumption|]. split; [congruence|]. split; [assumption|]. intro. rewrite R1, Hr; auto.
  - destruct H as (st' & S1 & B1 & K1 & P1 & R1). exists st'. split; [eauto using steps_trans|].
    split; [apply B; assumption|]. split; [congruence|]. split; [assumption|]. intro. rewrite R1, Hr; auto.
  - destruct H as (st' & v' & S1 & B1 & K1 & P1 & R1 & PF). exists st', v'. split; [eauto using steps_trans|].
    split; [apply B; assumption|]. split; [congruence|]. split; [assumption|]. split; assumption.
  - destruct H as (s1 & s2 & S1 & V1 & B1 & (xs & K1) & R1). exists s1, s2. split; [eauto using steps_trans|].
    split; [assumption|]. split; [apply B; assumption|]. split; [exists xs; congruence|]. intro. rewrite R1, Hr; auto.
  - destruct H as (s1 & s2 & S1 & V1 & (fr & F1 & F2) & I1 & T1). exists s1, s2. split; [eauto using steps_trans|].
    split; [assumption|]. split; [exists fr; split; [congruence|assumption]|]. split; [congruence|].
    rewrite T1, Htr, app_assoc. reflexivity.
Qed.

Lemma bal_refl : forall st, bal st st [] (script st).
Proof. intros. unfold bal. rewrite app_nil_r. auto. Qed.

(* ------------------------------------------------------------------------------------------------ *)
(* handleThrow facts *)

Lemma handle_throw_trys_irrel : forall ex p fs st t,
  handle_throw ex p (set_trys st t) fs = handle_throw ex p st fs.
Proof.
  induction fs as [|tf r IH]; intros st t; simpl.
  - destruct ex; reflexivity.
  - destruct (_ || _); [apply IH|].
    destruct (f_marker tf); destruct ex; reflexivity.
Qed.

Lemma handle_throw_skip_dead : forall v p st tf r,
  f_catch tf = None -> f_fin tf = None -> f_marker tf = false ->
  handle_throw (Some v) p st (tf :: r) = handle_throw (Some v) p st r.
Proof. intros. simpl. rewrite H, H0, H1. reflexivity. Qed.

Lemma handle_throw_unc_skip : forall p st fr r, nomark fr ->
  handle_throw None p st (fr ++ r) = handle_throw None p st r.
Proof.
  intros p st fr r H. induction H as [|f fr Hf _ IH]; simpl; auto.
  rewrite Hf. simpl. rewrite orb_true_r. exact IH.
Qed.

Lemma keep_app : forall {A} (xs s : list A), keep (length s) (xs ++ s) = s.
Proof.
  intros. unfold keep. rewrite app_length. replace (length xs + length s - length s) with (length xs) by lia.
  rewrite skipn_app, skipn_all, Nat.sub_diag. reflexivity.
Qed.

Lemma keep_same : forall {A} (s : list A), keep (length s) s = s.
Proof. intros. apply (keep_app [] s). Qed.

Lemma restore_none : forall st, restore_stacks st (length (iters st)) = add_trace st [].
Proof.
  intros. unfold restore_stacks. rewrite Nat.sub_diag. simpl.
  destruct st; reflexivity.
Qed.

(* ------------------------------------------------------------------------------------------------ *)
(* the finally phase *)

Definition tblk := mkBlk BTry None 0 0 false None.

Lemma tblk_skip : forall bs p l ib,
  compile_branch (tblk :: bs) p l ib =
  match find_break_block bs l ib with
  | None => [INil]
  | Some _ => ILeaveTry :: compile_branch bs (p + 1) l ib
  end.
Proof.
  intros. rewrite compile_branch_skip; [reflexivity|reflexivity|]. destruct l; reflexivity.
Qed.

Lemma tblk_branch : forall code bs p l ib, ~ In INil code ->
  code_at code (compile_branch (tblk :: bs) p l ib) p ->
  nth_error code p = Some ILeaveTry /\ code_at code (compile_branch bs (p + 1) l ib) (p + 1).
Proof.
  intros code bs p l ib NN H. rewrite tblk_skip in H. destruct (find_break_block bs l ib).
  - split. { eapply code_at_head; eauto. } apply code_at_tail in H. replace (S p) with (p + 1) in H by lia. exact H.
  - exfalso. apply NN. eapply code_at_in; eauto.
Qed.

Definition tbr (br : option nat) := mkBlk BTry None 0 0 false br.

Lemma tbr_branch : forall code bs br p l ib, ~ In INil code ->
  code_at code (compile_branch (tbr br :: bs) p l ib) p ->
  nth_error code p = Some ILeaveTry /\ (br = None -> code_at code (compile_branch bs (p + 1) l ib) (p + 1)).
Proof.
  intros code bs br p l ib NN H. destruct br as [j|].
  - destruct (compile_branch_breaking_head bs j p l ib) as [E|[r E]]; unfold tbr in H; rewrite E in H.
    + exfalso. apply NN. eapply code_at_in; eauto.
    + split; [eapply code_at_head; eauto|discriminate].
  - destruct (tblk_branch code bs p l ib NN H) as [A B]. split; auto.
Qed.

Definition fframe (ret : option nat) (exc : option val) (il sp : nat) : frame := mkFrame None None ret exc il sp false.

(* [based so s fr tr] : s is reached from the outer state so, with one extra try frame fr *)
Definition based (code : list instr) (so s : vmstate) (fr : frame) (tr : list event) (pres : bool) : Prop :=
  steps code so s /\ trys s = fr :: trys so /\ iters s = iters so /\ intr s = intr so /\
  trace s = trace so ++ tr /\ stk s = stk so /\ (pres = true -> result s = result so).

Section Finally.
Variables (code : list instr) (bs : list blk) (f : stmts) (pf : nat).
Let cf := compile_ss (tblk :: bs) (pf + 1) None 0 f.
Let endp := pf + 1 + length cf + 1.
Hypothesis NN : ~ In INil code.
Hypothesis Hfin : code_at code ([IEnterFinally] ++ cf ++ [ILeaveFinally]) pf.

Variables (presf gf : bool) (sc2 sc3 : list bool) (tf : list event) (F : compl).
Hypothesis HF : forall sF, pc sF = pf + 1 -> script sF = sc2 ->
  arrives code (tblk :: bs) sF (pf + 1 + length cf) presf gf F tf sc3.

Lemma leave_finally_at : nth_error code (pf + 1 + length cf) = Some ILeaveFinally.
Proof.
  apply code_at_app in Hfin. destruct Hfin as [_ H]. apply code_at_app in H. destruct H as [_ H].
  simpl in H. apply code_at_head in H. exact H.
Qed.

Lemma enter_finally_at : nth_error code pf = Some IEnterFinally.
Proof. apply code_at_app in Hfin. destruct Hfin as [H _]. apply code_at_head in H. exact H. Qed.

Lemma finally_phase : forall so sF ret exc il sp trP pres g,
  pc sF = pf + 1 -> script sF = sc2 ->
  based code so sF (fframe ret exc il sp) trP pres ->
  (pres = true -> presf = true) -> (g = true -> gf = true) ->
  (is_normal F = true /\
     exists s', steps code so s' /\ pc s' = pf + 1 + length cf /\ trys s' = fframe ret exc il sp :: trys so /\
                iters s' = iters so /\ intr s' = intr so /\ trace s' = trace so ++ trP ++ tf /\
                stk s' = stk so /\ script s' = sc3 /\ (presf = true -> result s' = result sF))
  \/ (is_normal F = false /\ arrives code bs so endp pres g F (trP ++ tf) sc3).
Proof.
  intros so sF ret exc il sp trP pres g Hpc Hsc (Bs & Bt & Bi & Bn & Btr & Bk & Br) Hp Hg.
  specialize (HF sF Hpc Hsc).
  destruct F as [v|l v|l v|v|v|p]; cbv beta iota delta [arrives] in HF.
  - left. split; [reflexivity|]. destruct HF as (s' & S1 & (A1 & A2 & A3 & A4 & A5) & K1 & P1 & R1).
    exists s'. split; [eauto using steps_trans|]. repeat split; try congruence; try assumption.
    rewrite A4, Btr, app_assoc. reflexivity.
  - right. split; [reflexivity|]. destruct HF as (s' & S1 & (A1 & A2 & A3 & A4 & A5) & K1 & P1 & R1).
    apply tblk_branch in P1; auto. destruct P1 as [HL HC].
    assert (Hstep : vm_step code s' = Running (set_trys (set_pc s' (S (pc s'))) (trys so))).
    { unfold vm_step. rewrite HL, A1, Bt. reflexivity. }
    simpl. eexists. split; [eapply steps_trans; [exact Bs|]; eapply steps_trans; [exact S1|]; apply steps_one; exact Hstep|].
    split; [unfold bal; simpl; repeat split; try congruence; rewrite A4, Btr, app_assoc; reflexivity|].
    split; [simpl; congruence|]. split; [simpl; replace (S (pc s')) with (pc s' + 1) by lia; exact HC|].
    simpl. intro. rewrite R1, Br; auto.
  - right. split; [reflexivity|]. destruct HF as (s' & S1 & (A1 & A2 & A3 & A4 & A5) & K1 & P1 & R1).
    apply tblk_branch in P1; auto. destruct P1 as [HL HC].
    assert (Hstep : vm_step code s' = Running (set_trys (set_pc s' (S (pc s'))) (trys so))).
    { unfold vm_step. rewrite HL, A1, Bt. reflexivity. }
    simpl. eexists. split; [eapply steps_trans; [exact Bs|]; eapply steps_trans; [exact S1|]; apply steps_one; exact Hstep|].
    split; [unfold bal; simpl; repeat split; try congruence; rewrite A4, Btr, app_assoc; reflexivity|].
    split; [simpl; congruence|]. split; [simpl; replace (S (pc s')) with (pc s' + 1) by lia; exact HC|].
    simpl. intro. rewrite R1, Br; auto.
  - (* return from the finally block *)
    right. split; [reflexivity|]. destruct HF as (s' & v' & S1 & (A1 & A2 & A3 & A4 & A5) & K1 & P1 & R1 & PF).
    assert (ERC : ret_code (tblk :: bs) ++ [IRet] = [ISaveResult; ILeaveTry; ILoadResult] ++ (ret_code bs ++ [IRet]))
      by reflexivity.
    rewrite ERC in P1. apply code_at_app in P1. destruct P1 as [P1 P2]. simpl in P2.
    pose proof (code_at_head _ _ _ _ P1) as I1. apply code_at_tail in P1.
    pose proof (code_at_head _ _ _ _ P1) as I2. apply code_at_tail in P1.
    pose proof (code_at_head _ _ _ _ P1) as I3.
    set (s1 := set_result (set_stk (set_pc s' (S (pc s'))) (stk sF)) v').
    assert (E1 : vm_step code s' = Running s1). { unfold vm_step. rewrite I1, K1. reflexivity. }
    set (s2 := set_trys (set_pc s1 (S (S (pc s')))) (trys so)).
    assert (E2 : vm_step code s1 = Running s2).
    { unfold vm_step. change (pc s1) with (S (pc s')). rewrite I2. change (trys s1) with (trys s'). rewrite A1, Bt. reflexivity. }
    set (s3 := set_stk (set_pc s2 (S (S (S (pc s'))))) (v' :: stk sF)).
    assert (E3 : vm_step code s2 = Running s3).
    { unfold vm_step. change (pc s2) with (S (S (pc s'))). rewrite I3. reflexivity. }
    simpl. exists s3, v'.
    split. { eapply steps_trans; [exact Bs|]. eapply steps_trans; [exact S1|].
             eapply steps_step; [exact E1|]. eapply steps_step; [exact E2|]. apply steps_one. exact E3. }
    split. { unfold bal. simpl. repeat split; try congruence. rewrite A4, Btr, app_assoc. reflexivity. }
    split. { simpl. congruence. }
    split. { simpl. replace (S (S (S (pc s')))) with (pc s' + 3) by lia. exact P2. }
    split. { intro. apply R1. auto. }
    destruct pres; auto. rewrite Hp in PF; auto.
  - (* throw from the finally block: this frame is dead, the exception goes outwards *)
    right. split; [reflexivity|]. destruct HF as (s1 & s2 & S1 & V1 & (A1 & A2 & A3 & A4 & A5) & (xs & K1) & R1).
    simpl. exists s1, (set_trys s2 (trys so)).
    split; [eapply steps_trans; [exact Bs|]; exact S1|].
    split. { rewrite V1. unfold vthrow. rewrite A1, Bt. rewrite handle_throw_skip_dead by reflexivity.
             simpl. rewrite handle_throw_trys_irrel. reflexivity. }
    split. { unfold bal. simpl. repeat split; try congruence. rewrite A4, Btr, app_assoc. reflexivity. }
    split. { exists xs. simpl. congruence. }
    simpl. intro. rewrite R1, Br; auto.
  - right. split; [reflexivity|]. destruct HF as (s1 & s2 & S1 & V1 & (fr & F1 & F2) & I1 & T1).
    simpl. exists s1, s2. split; [eapply steps_trans; [exact Bs|]; exact S1|]. split; [exact V1|].
    split. { exists (fr ++ [fframe ret exc il sp]). split.
             - rewrite F1, Bt, <- app_assoc. reflexivity.
             - apply Forall_app. split; [assumption|]. constructor; [reflexivity|constructor]. }
    split; [congruence|]. rewrite T1, Btr, app_assoc. reflexivity.
Qed.

End Finally.

(* ------------------------------------------------------------------------------------------------ *)
(* a region (try body or catch body) followed by the finally block *)

Section TryTailFin.
Variables (code : list instr) (bs : list blk) (f : stmts) (pf : nat).
Let cf := compile_ss (tblk :: bs) (pf + 1) None 0 f.
Let endp := pf + 1 + length cf + 1.
Hypothesis NN : ~ In INil code.
Hypothesis Hfin : code_at code ([IEnterFinally] ++ cf ++ [ILeaveFinally]) pf.
Variables (presf gf : bool) (sc2 sc3 : list bool) (tf : list event) (F : compl).
Hypothesis HF : forall sF, pc sF = pf + 1 -> script sF = sc2 ->
  arrives code (tblk :: bs) sF (pf + 1 + length cf) presf gf F tf sc3.
(* the try and catch blocks are compiled under a try block that may carry 'breaking' (then the finally list
   has a direct break/continue and never completes normally) *)
Variable br : option nat.
Hypothesis HBR : br <> None -> is_normal F = false.

Lemma leave_finally_step : forall s ret exc il sp T,
  pc s = pf + 1 + length cf -> trys s = fframe ret exc il sp :: T ->
  vm_step code s =
  match exc with
  | Some v => vthrow (set_trys s T) v
  | None => match ret with
            | Some q => Running (set_pc (set_trys s T) q)
            | None => Running (set_pc (set_trys s T) (S (pc s)))
            end
  end.
Proof.
  intros s ret exc il sp T Hpc Ht.
  assert (HL : nth_error code (pf + 1 + length cf) = Some ILeaveFinally) by (exact (leave_finally_at code bs f pf Hfin)).
  unfold vm_step. rewrite Hpc, HL. rewrite Ht. simpl. destruct exc; [reflexivity|]. destruct ret; reflexivity.
Qed.

Lemma try_tail_fin : forall so sR cp endR presR gR pres g C1 t1 tr0,
  based code so sR (mkFrame cp (Some (pf + 1)) None None (length (iters so)) (length (stk so)) false) tr0 pres ->
  arrives code (tbr br :: bs) sR endR presR gR C1 t1 sc2 ->
  (forall st', pc st' = endR -> steps code st' (set_pc st' pf)) ->
  (is_throw C1 = true -> cp = None) ->
  is_unc C1 = false ->
  (pres = true -> presR = true) -> (pres = true -> presf = true) ->
  (g = true -> gR = true) -> (g = true -> gf = true) -> (g = true -> presf = true) ->
  arrives code bs so endp pres g (if is_normal F then C1 else F) (tr0 ++ t1 ++ tf) sc3.
Proof.
  intros so sR cp endR presR gR pres g C1 t1 tr0 (Bs & Bt & Bi & Bn & Btr & Bk & Br) HR HN HT HU Hp1 Hp2 Hg1 Hg2 Hg3.
  set (il := length (iters so)) in *. set (sp := length (stk so)) in *.
  (* what happens once the finally block has been entered with a pending (ret, exc) *)
  assert (FIN : forall sF ret exc trP,
     pc sF = pf + 1 -> script sF = sc2 ->
     based code so sF (fframe ret exc il sp) trP (pres && match ret with Some _ => true | None => true end) ->
     is_normal F = false -> arrives code bs so endp pres g F (trP ++ tf) sc3).
  { intros sF ret exc trP H1 H2 H3 H4.
    destruct (finally_phase code bs f pf NN presf gf sc2 sc3 tf F HF so sF ret exc il sp trP pres g H1 H2) as [[X _]|[_ X]]; auto.
    - destruct H3 as (a1 & a2 & a3 & a4 & a5 & a6 & a7). repeat split; auto. intro. apply a7.
      rewrite H. destruct ret; reflexivity.
    - congruence. }
  assert (FINN : forall sF ret exc trP (prs : bool),
     pc sF = pf + 1 -> script sF = sc2 ->
     based code so sF (fframe ret exc il sp) trP prs -> (prs = true -> presf = true) ->
     is_normal F = true ->
     exists s', steps code so s' /\ pc s' = pf + 1 + length cf /\ trys s' = fframe ret exc il sp :: trys so /\
                iters s' = iters so /\ intr s' = intr so /\ trace s' = trace so ++ trP ++ tf /\
                stk s' = stk so /\ script s' = sc3 /\ (presf = true -> result s' = result sF)).
  { intros sF ret exc trP prs H1 H2 H3 H3' H4.
    destruct (finally_phase code bs f pf NN presf gf sc2 sc3 tf F HF so sF ret exc il sp trP prs false H1 H2 H3 H3') as [[_ X]|[X _]]; auto.
    - discriminate.
    - congruence. }
  destruct C1 as [v|l v|l v|v|v|p]; cbv beta iota delta [arrives] in HR; try discriminate.
  - (* region completed normally: fall into enterFinally *)
    destruct HR as (s' & S1 & (A1 & A2 & A3 & A4 & A5) & K1 & P1 & R1).
    pose proof (HN s' P1) as S2.
    set (s2 := set_pc s' pf) in *.
    set (sF := set_trys (set_pc s2 (S pf)) (fframe None None il sp :: trys so)).
    assert (E1 : vm_step code s2 = Running sF).
    { unfold vm_step. change (pc s2) with pf. rewrite (enter_finally_at code bs f pf Hfin).
      change (trys s2) with (trys s'). rewrite A1, Bt. reflexivity. }
    assert (BF : forall prs : bool, (prs = true -> pres = true) -> based code so sF (fframe None None il sp) (tr0 ++ t1) prs).
    { intros prs Hprs. unfold based. simpl.
      split. { eapply steps_trans; [exact Bs|]. eapply steps_trans; [exact S1|]. eapply steps_trans; [exact S2|]. apply steps_one. exact E1. }
      repeat split; try congruence.
      - rewrite A4, Btr, app_assoc. reflexivity.
      - intro. rewrite R1, Br; auto. }
    destruct (is_normal F) eqn:NF.
    + destruct (FINN sF None None (tr0 ++ t1) pres) as (se & X1 & X2 & X3 & X4 & X5 & X6 & X7 & X8 & X9); auto.
      { simpl. lia. }
      pose proof (leave_finally_step se None None il sp (trys so) X2 X3) as E2. simpl in E2.
      simpl. exists (set_pc (set_trys se (trys so)) (S (pc se))).
      split. { eapply steps_trans; [exact X1|]. apply steps_one. exact E2. }
      split. { unfold bal. simpl. repeat split; auto. rewrite X6, <- app_assoc. reflexivity. }
      split; [simpl; assumption|]. split; [simpl; unfold endp; lia|].
      simpl. intro. rewrite X9; auto. simpl. rewrite R1, Br; auto.
    + rewrite app_assoc. apply (FIN sF None None (tr0 ++ t1)); auto. { simpl. lia. }
      apply BF. intro H. apply andb_true_iff in H. tauto.
  - (* break out of the region: leaveTry runs the finally block, then resumes the exit sequence *)
    destruct HR as (s' & S1 & (A1 & A2 & A3 & A4 & A5) & K1 & P1 & R1).
    apply tbr_branch in P1; auto. destruct P1 as [HL HC].
    set (sF := set_trys (set_stk (set_pc s' (pf + 1)) (keep sp (stk s'))) (fframe (Some (S (pc s'))) None il sp :: trys so)).
    assert (E1 : vm_step code s' = Running sF).
    { unfold vm_step. rewrite HL, A1, Bt. reflexivity. }
    assert (KS : keep sp (stk s') = stk so). { rewrite K1, Bk. apply keep_same. }
    assert (BF : forall prs : bool, (prs = true -> pres = true) ->
                 based code so sF (fframe (Some (S (pc s'))) None il sp) (tr0 ++ t1) prs).
    { intros prs Hprs. unfold based. simpl.
      split. { eapply steps_trans; [exact Bs|]. eapply steps_trans; [exact S1|]. apply steps_one. exact E1. }
      repeat split; try congruence.
      - rewrite A4, Btr, app_assoc. reflexivity.
      - intro. rewrite R1, Br; auto. }
    destruct (is_normal F) eqn:NF.
    + destruct (FINN sF (Some (S (pc s'))) None (tr0 ++ t1) pres) as (se & X1 & X2 & X3 & X4 & X5 & X6 & X7 & X8 & X9); auto.
      pose proof (leave_finally_step se (Some (S (pc s'))) None il sp (trys so) X2 X3) as E2. simpl in E2.
      cbv beta iota delta [arrives]. exists (set_pc (set_trys se (trys so)) (S (pc s'))).
      split. { eapply steps_trans; [exact X1|]. apply steps_one. exact E2. }
      split. { unfold bal. simpl. repeat split; auto. rewrite X6, <- app_assoc. reflexivity. }
      split; [simpl; assumption|].
      split. { simpl. replace (S (pc s')) with (pc s' + 1) by lia. apply HC. destruct br as [jj|]; [exfalso; assert (X : true = false) by (apply HBR; discriminate); discriminate X|reflexivity]. }
      simpl. intro. rewrite X9; auto. simpl. rewrite R1, Br; auto.
    + rewrite app_assoc. apply (FIN sF (Some (S (pc s'))) None (tr0 ++ t1)); auto.
      apply BF. intro H. apply andb_true_iff in H. tauto.
  - (* continue: same *)
    destruct HR as (s' & S1 & (A1 & A2 & A3 & A4 & A5) & K1 & P1 & R1).
    apply tbr_branch in P1; auto. destruct P1 as [HL HC].
    set (sF := set_trys (set_stk (set_pc s' (pf + 1)) (keep sp (stk s'))) (fframe (Some (S (pc s'))) None il sp :: trys so)).
    assert (E1 : vm_step code s' = Running sF).
    { unfold vm_step. rewrite HL, A1, Bt. reflexivity. }
    assert (KS : keep sp (stk s') = stk so). { rewrite K1, Bk. apply keep_same. }
    assert (BF : forall prs : bool, (prs = true -> pres = true) ->
                 based code so sF (fframe (Some (S (pc s'))) None il sp) (tr0 ++ t1) prs).
    { intros prs Hprs. unfold based. simpl.
      split. { eapply steps_trans; [exact Bs|]. eapply steps_trans; [exact S1|]. apply steps_one. exact E1. }
      repeat split; try congruence.
      - rewrite A4, Btr, app_assoc. reflexivity.
      - intro. rewrite R1, Br; auto. }
    destruct (is_normal F) eqn:NF.
    + destruct (FINN sF (Some (S (pc s'))) None (tr0 ++ t1) pres) as (se & X1 & X2 & X3 & X4 & X5 & X6 & X7 & X8 & X9); auto.
      pose proof (leave_finally_step se (Some (S (pc s'))) None il sp (trys so) X2 X3) as E2. simpl in E2.
      cbv beta iota delta [arrives]. exists (set_pc (set_trys se (trys so)) (S (pc s'))).
      split. { eapply steps_trans; [exact X1|]. apply steps_one. exact E2. }
      split. { unfold bal. simpl. repeat split; auto. rewrite X6, <- app_assoc. reflexivity. }
      split; [simpl; assumption|].
      split. { simpl. replace (S (pc s')) with (pc s' + 1) by lia. apply HC. destruct br as [jj|]; [exfalso; assert (X : true = false) by (apply HBR; discriminate); discriminate X|reflexivity]. }
      simpl. intro. rewrite X9; auto. simpl. rewrite R1, Br; auto.
    + rewrite app_assoc. apply (FIN sF (Some (S (pc s'))) None (tr0 ++ t1)); auto.
      apply BF. intro H. apply andb_true_iff in H. tauto.
  - (* return: saveResult; leaveTry; (finally); loadResult *)
    destruct HR as (s' & v' & S1 & (A1 & A2 & A3 & A4 & A5) & K1 & P1 & R1 & PF).
    assert (PRF : pres = false). { destruct pres; auto. rewrite Hp1 in PF; auto. }
    assert (ERC : ret_code (tbr br :: bs) ++ [IRet] = [ISaveResult; ILeaveTry; ILoadResult] ++ (ret_code bs ++ [IRet]))
      by reflexivity.
    rewrite ERC in P1. apply code_at_app in P1. destruct P1 as [P1 P2]. simpl in P2.
    pose proof (code_at_head _ _ _ _ P1) as I1. apply code_at_tail in P1.
    pose proof (code_at_head _ _ _ _ P1) as I2. apply code_at_tail in P1.
    pose proof (code_at_head _ _ _ _ P1) as I3.
    set (s1 := set_result (set_stk (set_pc s' (S (pc s'))) (stk sR)) v').
    assert (E1 : vm_step code s' = Running s1). { unfold vm_step. rewrite I1, K1. reflexivity. }
    set (sF := set_trys (set_stk (set_pc s1 (pf + 1)) (keep sp (stk s1))) (fframe (Some (S (S (pc s')))) None il sp :: trys so)).
    assert (E2 : vm_step code s1 = Running sF).
    { unfold vm_step. change (pc s1) with (S (pc s')). rewrite I2. change (trys s1) with (trys s'). rewrite A1, Bt. reflexivity. }
    assert (KS : keep sp (stk s1) = stk so). { change (stk s1) with (stk sR). rewrite Bk. apply keep_same. }
    assert (BF : based code so sF (fframe (Some (S (S (pc s')))) None il sp) (tr0 ++ t1) false).
    { unfold based. simpl.
      split. { eapply steps_trans; [exact Bs|]. eapply steps_trans; [exact S1|]. eapply steps_step; [exact E1|]. apply steps_one. exact E2. }
      repeat split; try congruence; try (intro; discriminate).
      - rewrite A4, Btr, app_assoc. reflexivity.
      - exact KS. }
    destruct (is_normal F) eqn:NF.
    + destruct (FINN sF (Some (S (S (pc s')))) None (tr0 ++ t1) false) as (se & X1 & X2 & X3 & X4 & X5 & X6 & X7 & X8 & X9); auto.
      { discriminate. }
      pose proof (leave_finally_step se (Some (S (S (pc s')))) None il sp (trys so) X2 X3) as E3. simpl in E3.
      set (s3 := set_pc (set_trys se (trys so)) (S (S (pc s')))) in *.
      set (s4 := set_stk (set_pc s3 (S (S (S (pc s'))))) (result se :: stk so)).
      assert (E4 : vm_step code s3 = Running s4).
      { unfold vm_step. change (pc s3) with (S (S (pc s'))). rewrite I3. unfold s4. simpl. rewrite X7. reflexivity. }
      cbv beta iota delta [arrives]. exists s4, (result se).
      split. { eapply steps_trans; [exact X1|]. eapply steps_step; [exact E3|]. apply steps_one. exact E4. }
      split. { unfold bal. simpl. repeat split; auto. rewrite X6, <- app_assoc. reflexivity. }
      split; [reflexivity|].
      split. { simpl. replace (S (S (S (pc s')))) with (pc s' + 3) by lia. exact P2. }
      split; [|exact PRF].
      intro G. rewrite X9 by auto. simpl. auto.
    + rewrite app_assoc. apply (FIN sF (Some (S (S (pc s')))) None (tr0 ++ t1)); auto.
      destruct BF as (b1 & b2 & b3 & b4 & b5 & b6 & b7). repeat split; auto.
      rewrite PRF. simpl. intro; discriminate.
  - (* throw: the frame's finally is entered with the exception pending *)
    destruct HR as (s1 & s2 & S1 & V1 & (A1 & A2 & A3 & A4 & A5) & (xs & K1) & R1).
    rewrite (HT eq_refl) in *.
    set (st3 := restore_stacks (set_stk s2 (keep sp (stk s2))) il).
    set (sF := set_pc (set_trys st3 (fframe None (Some v) il sp :: trys so)) (pf + 1)).
    assert (E1 : vm_step code s1 = Running sF).
    { rewrite V1. unfold vthrow. rewrite A1, Bt. reflexivity. }
    assert (KS : keep sp (stk s2) = stk so). { rewrite K1, Bk. apply keep_app. }
    assert (RS : st3 = add_trace (set_stk s2 (stk so)) []).
    { unfold st3. rewrite KS. unfold il. rewrite <- Bi, <- A2.
      change (iters s2) with (iters (set_stk s2 (stk so))). apply restore_none. }
    assert (BF : forall prs : bool, (prs = true -> pres = true) -> based code so sF (fframe None (Some v) il sp) (tr0 ++ t1) prs).
    { intros prs Hprs. unfold based, sF. rewrite RS. simpl.
      split. { eapply steps_trans; [exact Bs|]. eapply steps_trans; [exact S1|]. apply steps_one. rewrite E1. unfold sF. rewrite RS. reflexivity. }
      repeat split; try congruence.
      - rewrite app_nil_r, A4, Btr, app_assoc. reflexivity.
      - intro. rewrite R1, Br; auto. }
    assert (PCF : pc sF = pf + 1) by reflexivity.
    assert (SCF : script sF = sc2). { unfold sF. rewrite RS. simpl. exact A5. }
    destruct (is_normal F) eqn:NF.
    + destruct (FINN sF None (Some v) (tr0 ++ t1) pres) as (se & X1 & X2 & X3 & X4 & X5 & X6 & X7 & X8 & X9); auto.
      pose proof (leave_finally_step se None (Some v) il sp (trys so) X2 X3) as E2. simpl in E2.
      cbv beta iota delta [arrives]. exists se, (set_trys se (trys so)).
      split; [exact X1|]. split; [exact E2|].
      split. { unfold bal. simpl. repeat split; auto. rewrite X6, <- app_assoc. reflexivity. }
      split. { exists []. simpl. assumption. }
      simpl. intro. rewrite X9; auto. unfold sF. rewrite RS. simpl. rewrite R1, Br; auto.
    + rewrite app_assoc. apply (FIN sF None (Some v) (tr0 ++ t1)); auto.
      apply BF. intro H. apply andb_true_iff in H. tauto.
Qed.

End TryTailFin.

(* ------------------------------------------------------------------------------------------------ *)
(* a region followed by plain leaveTry (no finally block) *)

Lemma try_tail_nofin : forall code bs pf so sR cp endR presR gR pres g C1 t1 tr0 sc2,
  ~ In INil code -> code_at code [ILeaveTry] pf ->
  based code so sR (mkFrame cp None None None (length (iters so)) (length (stk so)) false) tr0 pres ->
  arrives code (tblk :: bs) sR endR presR gR C1 t1 sc2 ->
  (forall st', pc st' = endR -> steps code st' (set_pc st' pf)) ->
  (is_throw C1 = true -> cp = None) ->
  is_unc C1 = false ->
  (pres = true -> presR = true) -> (g = true -> gR = true) ->
  arrives code bs so (pf + 1) pres g C1 (tr0 ++ t1) sc2.
Proof.
  intros code bs pf so sR cp endR presR gR pres g C1 t1 tr0 sc2 NN Hfin (Bs & Bt & Bi & Bn & Btr & Bk & Br) HR HN HT HU Hp1 Hg1.
  pose proof (code_at_head _ _ _ _ Hfin) as IL.
  destruct C1 as [v|l v|l v|v|v|p]; cbv beta iota delta [arrives] in HR; try discriminate.
  - destruct HR as (s' & S1 & (A1 & A2 & A3 & A4 & A5) & K1 & P1 & R1).
    pose proof (HN s' P1) as S2. set (s2 := set_pc s' pf) in *.
    assert (E1 : vm_step code s2 = Running (set_trys (set_pc s2 (S pf)) (trys so))).
    { unfold vm_step. change (pc s2) with pf. rewrite IL. change (trys s2) with (trys s'). rewrite A1, Bt. reflexivity. }
    cbv beta iota delta [arrives]. eexists.
    split. { eapply steps_trans; [exact Bs|]. eapply steps_trans; [exact S1|]. eapply steps_trans; [exact S2|]. apply steps_one. exact E1. }
    split. { unfold bal. simpl. repeat split; try congruence. rewrite A4, Btr, app_assoc. reflexivity. }
    split; [simpl; congruence|]. split; [simpl; lia|]. simpl. intro. rewrite R1, Br; auto.
  - destruct HR as (s' & S1 & (A1 & A2 & A3 & A4 & A5) & K1 & P1 & R1).
    apply tblk_branch in P1; auto. destruct P1 as [HL HC].
    assert (E1 : vm_step code s' = Running (set_trys (set_pc s' (S (pc s'))) (trys so))).
    { unfold vm_step. rewrite HL, A1, Bt. reflexivity. }
    cbv beta iota delta [arrives]. eexists.
    split. { eapply steps_trans; [exact Bs|]. eapply steps_trans; [exact S1|]. apply steps_one. exact E1. }
    split. { unfold bal. simpl. repeat split; try congruence. rewrite A4, Btr, app_assoc. reflexivity. }
    split; [simpl; congruence|].
    split. { simpl. replace (S (pc s')) with (pc s' + 1) by lia. exact HC. }
    simpl. intro. rewrite R1, Br; auto.
  - destruct HR as (s' & S1 & (A1 & A2 & A3 & A4 & A5) & K1 & P1 & R1).
    apply tblk_branch in P1; auto. destruct P1 as [HL HC].
    assert (E1 : vm_step code s' = Running (set_trys (set_pc s' (S (pc s'))) (trys so))).
    { unfold vm_step. rewrite HL, A1, Bt. reflexivity. }
    cbv beta iota delta [arrives]. eexists.
    split. { eapply steps_trans; [exact Bs|]. eapply steps_trans; [exact S1|]. apply steps_one. exact E1. }
    split. { unfold bal. simpl. repeat split; try congruence. rewrite A4, Btr, app_assoc. reflexivity. }
    split; [simpl; congruence|].
    split. { simpl. replace (S (pc s')) with (pc s' + 1) by lia. exact HC. }
    simpl. intro. rewrite R1, Br; auto.
  - destruct HR as (s' & v' & S1 & (A1 & A2 & A3 & A4 & A5) & K1 & P1 & R1 & PF).
    assert (PRF : pres = false). { destruct pres; auto. rewrite Hp1 in PF; auto. }
    assert (ERC : ret_code (tblk :: bs) ++ [IRet] = [ISaveResult; ILeaveTry; ILoadResult] ++ (ret_code bs ++ [IRet]))
      by reflexivity.
    rewrite ERC in P1. apply code_at_app in P1. destruct P1 as [P1 P2]. simpl in P2.
    pose proof (code_at_head _ _ _ _ P1) as I1. apply code_at_tail in P1.
    pose proof (code_at_head _ _ _ _ P1) as I2. apply code_at_tail in P1.
    pose proof (code_at_head _ _ _ _ P1) as I3.
    set (s1 := set_result (set_stk (set_pc s' (S (pc s'))) (stk sR)) v').
    assert (E1 : vm_step code s' = Running s1). { unfold vm_step. rewrite I1, K1. reflexivity. }
    set (s2 := set_trys (set_pc s1 (S (S (pc s')))) (trys so)).
    assert (E2 : vm_step code s1 = Running s2).
    { unfold vm_step. change (pc s1) with (S (pc s')). rewrite I2. change (trys s1) with (trys s'). rewrite A1, Bt. reflexivity. }
    set (s3 := set_stk (set_pc s2 (S (S (S (pc s'))))) (v' :: stk sR)).
    assert (E3 : vm_step code s2 = Running s3).
    { unfold vm_step. change (pc s2) with (S (S (pc s'))). rewrite I3. reflexivity. }
    cbv beta iota delta [arrives]. exists s3, v'.
    split. { eapply steps_trans; [exact Bs|]. eapply steps_trans; [exact S1|].
             eapply steps_step; [exact E1|]. eapply steps_step; [exact E2|]. apply steps_one. exact E3. }
    split. { unfold bal. simpl. repeat split; try congruence. rewrite A4, Btr, app_assoc. reflexivity. }
    split. { simpl. congruence. }
    split. { simpl. replace (S (S (S (pc s')))) with (pc s' + 3) by lia. exact P2. }
    split; [auto|exact PRF].
  - destruct HR as (s1 & s2 & S1 & V1 & (A1 & A2 & A3 & A4 & A5) & (xs & K1) & R1).
    rewrite (HT eq_refl) in *.
    cbv beta iota delta [arrives]. exists s1, (set_trys s2 (trys so)).
    split; [eapply steps_trans; [exact Bs|]; exact S1|].
    split. { rewrite V1. unfold vthrow. rewrite A1, Bt. rewrite handle_throw_skip_dead by reflexivity.
             simpl. rewrite handle_throw_trys_irrel. reflexivity. }
    split. { unfold bal. simpl. repeat split; try congruence. rewrite A4, Btr, app_assoc. reflexivity. }
    split. { exists xs. simpl. congruence. }
    simpl. intro. rewrite R1, Br; auto.
Qed.
