(* C08 — compile_control_correct, part 3: the arrival relation and the try/finally dispatch. *)
From Coq Require Import List Arith ZArith Bool Lia.
Import ListNotations.
From Verif.C08 Require Import Model ProofsC ProofsC2.

Definition bal (st st' : vmstate) (tr : list event) (sc' : list bool) : Prop :=
  trys st' = trys st /\ iters st' = iters st /\ intr st' = intr st /\
  trace st' = trace st ++ tr /\ script st' = sc'.

Definition nomark (fr : list frame) : Prop := Forall (fun f => f_marker f = false) fr.

(* how the VM, started at the first instruction of a compiled statement, realises a completion *)
Definition arrives (code : list instr) (bs : list blk) (st : vmstate) (endpos : nat) (pres g : bool)
                   (c : compl) (tr : list event) (sc' : list bool) : Prop :=
  match c with
  | CNormal _ =>
      exists st', steps code st st' /\ bal st st' tr sc' /\ stk st' = stk st /\ pc st' = endpos /\
                  (pres = true -> result st' = result st)
  | CBreak l _ =>
      exists st', steps code st st' /\ bal st st' tr sc' /\ stk st' = stk st /\
                  code_at code (compile_branch bs (pc st') l true) (pc st') /\
                  (pres = true -> result st' = result st)
  | CContinue l _ =>
      exists st', steps code st st' /\ bal st st' tr sc' /\ stk st' = stk st /\
                  code_at code (compile_branch bs (pc st') l false) (pc st') /\
                  (pres = true -> result st' = result st)
  | CReturn v =>
      exists st' v', steps code st st' /\ bal st st' tr sc' /\ stk st' = v' :: stk st /\
                     code_at code (ret_code bs ++ [IRet]) (pc st') /\ (g = true -> v' = v)
  | CThrow v =>
      exists st1 st2, steps code st st1 /\ vm_step code st1 = vthrow st2 v /\ bal st st2 tr sc' /\
                      (exists xs, stk st2 = xs ++ stk st) /\ (pres = true -> result st2 = result st)
  | CUnc p =>
      exists st1 st2, steps code st st1 /\ vm_step code st1 = handle_throw None p st2 (trys st2) /\
                      (exists fr, trys st2 = fr ++ trys st /\ nomark fr) /\ iters st2 = iters st /\
                      trace st2 = trace st ++ tr
  end.

Lemma arrives_update_empty : forall code bs st e pres g c v tr sc',
  arrives code bs st e pres g (update_empty c v) tr sc' <-> arrives code bs st e pres g c tr sc'.
Proof. intros. destruct c as [[?|]| ? [?|] | ? [?|] | ? | ? | ? ]; simpl; tauto. Qed.

Lemma arrives_weaken : forall code bs st e pres g pres' g' c tr sc',
  (pres' = true -> pres = true) -> (g' = true -> g = true) ->
  arrives code bs st e pres g c tr sc' -> arrives code bs st e pres' g' c tr sc'.
Proof.
  intros code bs st e pres g pres' g' c tr sc' Hp Hg H. destruct c; simpl in *.
  - destruct H as (st' & ? & ? & ? & ? & ?). exists st'. repeat split; auto.
  - destruct H as (st' & ? & ? & ? & ? & ?). exists st'. repeat split; auto.
  - destruct H as (st' & ? & ? & ? & ? & ?). exists st'. repeat split; auto.
  - destruct H as (st' & v' & ? & ? & ? & ? & ?). exists st', v'. repeat split; auto.
  - destruct H as (s1 & s2 & ? & ? & ? & ? & ?). exists s1, s2. repeat split; auto.
  - exact H.
Qed.

(* prefix: first some steps that keep the context, then an arrival *)
Lemma arrives_prefix : forall code bs st st0 e pres g c tr0 sc0 tr sc',
  steps code st st0 -> bal st st0 tr0 sc0 -> stk st0 = stk st ->
  (pres = true -> result st0 = result st) ->
  arrives code bs st0 e pres g c tr sc' ->
  arrives code bs st e pres g c (tr0 ++ tr) sc'.
Proof.
  intros code bs st st0 e pres g c tr0 sc0 tr sc' Hs (Ht & Hi & Hn & Htr & Hsc) Hk Hr H.
  assert (B : forall s tr1 sc1, bal st0 s tr1 sc1 -> bal st s (tr0 ++ tr1) sc1).
  { intros s tr1 sc1 (A1 & A2 & A3 & A4 & A5). unfold bal. rewrite A1, A2, A3, A4, Ht, Hi, Hn, Htr, app_assoc. auto. }
  destruct c; simpl in *.
  - destruct H as (st' & S1 & B1 & K1 & P1 & R1). exists st'. repeat split; eauto using steps_trans; try congruence.
    + apply B; assumption.
    + intro. rewrite R1, Hr; auto.
  - destruct H as (st' & S1 & B1 & K1 & P1 & R1). exists st'. split; [eauto using steps_trans|].
    split; [apply B; assumption|]. split; [congruence|]. split; [assumption|]. intro. rewrite R1, Hr; auto.
  - destruct H as (st' & S1 & B1 & K1 & P1 & R1). exists st'. split; [eauto using steps_trans|].
    split; [apply B; assumption|]. split; [congruence|]. split; [assumption|]. intro. rewrite R1, Hr; auto.
  - destruct H as (st' & v' & S1 & B1 & K1 & P1 & R1). exists st', v'. split; [eauto using steps_trans|].
    split; [apply B; assumption|]. split; [congruence|]. split; assumption.
  - destruct H as (s1 & s2 & S1 & V1 & B1 & (xs & K1) & R1). exists s1, s2. split; [eauto using steps_trans|].
    split; [assumption|]. split; [apply B; assumption|]. split; [exists xs; congruence|]. intro. rewrite R1, Hr; auto.
  - destruct H as (s1 & s2 & S1 & V1 & (fr & F1 & F2) & I1 & T1). exists s1, s2. split; [eauto using steps_trans|].
    split; [assumption|]. split; [exists fr; split; [congruence|assumption]|]. split; [congruence|].
    rewrite T1, Htr, app_assoc. reflexivity.
Qed.

Lemma bal_refl : forall st, bal st st [] (script st).
Proof. intros. unfold bal. rewrite app_nil_r. auto. Qed.

(* ------------------------------------------------------------------------------------------------ *)
(* handleThrow facts *)

Lemma handle_throw_trys_irrel : forall ex p fs st t,
  handle_throw ex p (set_trys st t) fs = handle_throw ex p st fs.
Proof.
  induction fs as [|tf r IH]; intros st t; simpl.
  - destruct ex; reflexivity.
  - destruct (_ || _); [apply IH|].
    destruct (f_marker tf); destruct ex; try reflexivity.
    destruct (f_catch tf); [reflexivity|]. destruct (f_fin tf); reflexivity.
Qed.

Lemma handle_throw_skip_dead : forall v p st tf r,
  f_catch tf = None -> f_fin tf = None -> f_marker tf = false ->
  handle_throw (Some v) p st (tf :: r) = handle_throw (Some v) p st r.
Proof. intros. simpl. rewrite H, H0, H1. reflexivity. Qed.

Lemma handle_throw_unc_skip : forall p st fr r, nomark fr ->
  handle_throw None p st (fr ++ r) = handle_throw None p st r.
Proof.
  intros p st fr r H. induction H as [|f fr Hf _ IH]; simpl; auto.
  rewrite Hf. simpl. rewrite orb_true_r. exact IH.
Qed.

Lemma keep_app : forall {A} (xs s : list A), keep (length s) (xs ++ s) = s.
Proof.
  intros. unfold keep. rewrite app_length. replace (length xs + length s - length s) with (length xs) by lia.
  rewrite skipn_app, skipn_all, Nat.sub_diag. reflexivity.
Qed.

Lemma keep_same : forall {A} (s : list A), keep (length s) s = s.
Proof. intros. apply (keep_app [] s). Qed.

Lemma restore_none : forall st, restore_stacks st (length (iters st)) = add_trace st [].
Proof.
  intros. unfold restore_stacks. rewrite Nat.sub_diag. simpl.
  destruct st; reflexivity.
Qed.
