(* C08 — compile_control_correct: the compiled code of a statement, run by vm_step, realises the completion-record
   semantics S (function-body mode).  Part 1: code layout facts. *)
From Coq Require Import List Arith ZArith Bool Lia.
Import ListNotations.
From Verif.C08 Require Import Model.

Scheme stmt_ind2 := Induction for stmt Sort Prop
  with stmts_ind2 := Induction for stmts Sort Prop.
Combined Scheme stmt_stmts_ind from stmt_ind2, stmts_ind2.

(* ------------------------------------------------------------------------------------------------ *)
(* shape of a block stack: everything but the jump targets *)

Definition shape1 (b b' : blk) : Prop :=
  b_typ b = b_typ b' /\ b_label b = b_label b' /\ b_nr b = b_nr b' /\ b_breaking b = b_breaking b'.
Definition shape_eq (bs bs' : list blk) : Prop := Forall2 shape1 bs bs'.

Lemma shape_refl : forall bs, shape_eq bs bs.
Proof. induction bs; constructor; auto. repeat split. Qed.

Lemma shape_cons : forall b b' bs bs', shape1 b b' -> shape_eq bs bs' -> shape_eq (b :: bs) (b' :: bs').
Proof. intros. constructor; auto. Qed.

Lemma fbb_nolabel_shape : forall bs bs' k, shape_eq bs bs' -> fbb_nolabel bs k = fbb_nolabel bs' k.
Proof.
  intros bs bs' k H. revert k. induction H as [|b b' r r' (Ht & Hl & Hn & Hb) _ IH]; intro k; simpl; auto.
  rewrite Hb, Ht, IH. reflexivity.
Qed.

Lemma fbb_label_shape : forall bs bs' k l ib res, shape_eq bs bs' ->
  fbb_label bs k l ib res = fbb_label bs' k l ib res.
Proof.
  intros bs bs' k l ib res H. revert k res. induction H as [|b b' r r' (Ht & Hl & Hn & Hb) _ IH]; intros k res; simpl; auto.
  rewrite Hb, Hl, Ht, IH. reflexivity.
Qed.

Lemma find_break_block_shape : forall bs bs' l ib, shape_eq bs bs' ->
  find_break_block bs l ib = find_break_block bs' l ib.
Proof.
  intros. unfold find_break_block. destruct l.
  - rewrite (fbb_label_shape bs bs'); auto.
  - apply fbb_nolabel_shape; auto.
Qed.

Lemma find_branch_block_shape : forall bs bs' s, shape_eq bs bs' -> find_branch_block bs s = find_branch_block bs' s.
Proof. intros. destruct s; simpl; auto using find_break_block_shape. Qed.

Lemma scan_shape : forall bs bs' ss i lp, shape_eq bs bs' -> scan bs ss i lp = scan bs' ss i lp.
Proof.
  intros bs bs' ss. induction ss; intros i lp H; simpl; auto.
  destruct (is_branch s). { rewrite (find_branch_block_shape bs bs'); auto. } auto.
Qed.

Lemma nth_shape : forall bs bs' k, shape_eq bs bs' -> shape1 (nth k bs dflt_blk) (nth k bs' dflt_blk).
Proof.
  intros bs bs' k H. revert k. induction H; intros [|k]; simpl; auto; repeat split.
Qed.

Lemma list_mode_shape : forall bs bs' nr ss, shape_eq bs bs' -> list_mode bs nr ss = list_mode bs' nr ss.
Proof.
  intros. unfold list_mode. rewrite (scan_shape bs bs'); auto. destruct (scan bs' ss 0 None) as [lp [k|]]; auto.
  destruct (nth_shape bs bs' k H) as (_ & _ & Hn & _). rewrite Hn. reflexivity.
Qed.

Lemma exit_code_shape : forall bs bs' k, shape_eq bs bs' -> exit_code bs k = exit_code bs' k.
Proof.
  intros bs bs' k H. revert k. induction H as [|b b' r r' (Ht & _) _ IH]; intros [|k]; simpl; auto.
  rewrite Ht, IH. reflexivity.
Qed.

Lemma ret_code_shape : forall bs bs', shape_eq bs bs' -> ret_code bs = ret_code bs'.
Proof.
  intros bs bs' H. unfold ret_code. induction H as [|b b' r r' (Ht & _) _ IH]; simpl; auto.
  rewrite Ht, IH. reflexivity.
Qed.

Lemma compile_branch_len : forall bs bs' pos pos' l ib, shape_eq bs bs' ->
  length (compile_branch bs pos l ib) = length (compile_branch bs' pos' l ib).
Proof.
  intros. unfold compile_branch. rewrite (find_break_block_shape bs bs'); auto.
  destruct (find_break_block bs' l ib) as [k|]; auto.
  rewrite (exit_code_shape bs bs'); auto.
  destruct (nth_shape bs bs' k H) as (Ht & _). rewrite Ht.
  destruct ib; [|destruct (is_loop_typ _)]; rewrite !app_length; reflexivity.
Qed.

(* explicit form of compileTryStatement *)
Definition tb0 := mkBlk BTry None 0 0 false None.
Definition try_scan (bs : list blk) (hasf : bool) (f : stmts) : option nat * option nat :=
  if hasf then scan (tb0 :: bs) f 0 None else (None, None).
Definition try_breaking (bs : list blk) (hasf : bool) (f : stmts) : option nat :=
  match snd (try_scan bs hasf f) with Some (S j) => Some j | _ => None end.
Definition try_bnr (bs : list blk) (nr hasf : bool) (f : stmts) : bool :=
  match snd (try_scan bs hasf f) with
  | Some k => match fst (try_scan bs hasf f) with None => b_nr (nth k (tb0 :: bs) dflt_blk) | Some _ => false end
  | None => nr
  end.
Definition try_fclr (bs : list blk) (nr hasf : bool) (f : stmts) : list instr :=
  match snd (try_scan bs hasf f), fst (try_scan bs hasf f) with
  | Some _, None => clr (try_bnr bs nr hasf f)
  | _, _ => []
  end.

Definition try_code (bs : list blk) (pos : nat) (nr : bool) b (hasc : bool) c (hasf : bool) f : list instr :=
  let bs' := mkBlk BTry None 0 0 false (try_breaking bs hasf f) :: bs in
  let bnr := try_bnr bs nr hasf f in
  let pre := clr nr in
  let pb := pos + 1 + length pre in
  let cb := compile_ss bs' pb (list_mode bs' bnr b) 0 b in
  let pab := pb + length cb in
  let cc := if hasc then compile_ss bs' (pab + 2) (list_mode bs' bnr c) 0 c else [] in
  let ccatch := if hasc then [IJump (Z.of_nat (length cc + 2)); IPop] ++ cc else [] in
  let coff := if hasc then pab + 1 - pos else 0 in
  let pf := pab + length ccatch in
  let fclr := try_fclr bs nr hasf f in
  let bsf := mkBlk BTry None 0 0 false None :: bs in
  let cf := if hasf then compile_ss bsf (pf + 1 + length fclr) (list_mode bsf false f) 0 f else [] in
  let foff := if hasf then pf + 1 - pos else 0 in
  [ITry coff foff] ++ pre ++ cb ++ ccatch
    ++ (if hasf then [IEnterFinally] ++ fclr ++ cf ++ [ILeaveFinally] else [ILeaveTry]).

Lemma compile_try_eq : forall bs pos nr b hasc c hasf f,
  compile bs pos nr (Try b hasc c hasf f) = try_code bs pos nr b hasc c hasf f.
Proof.
  intros. unfold try_code, try_fclr, try_breaking, try_bnr, try_scan, tb0.
  change (compile bs pos nr (Try b hasc c hasf f)) with
    (let tb0 := mkBlk BTry None 0 0 false None in
      let '(lp, fbrk) := if hasf then scan (tb0 :: bs) f 0 None else (None, None) in
      let breaking := match fbrk with Some (S j) => Some j | _ => None end in
      let body_nr := match fbrk with
                     | Some k => match lp with None => b_nr (nth k (tb0 :: bs) dflt_blk) | Some _ => false end
                     | None => nr end in
      let bs' := mkBlk BTry None 0 0 false breaking :: bs in
      let pre := clr nr in
      let pb := pos + 1 + length pre in
      let cb := compile_ss bs' pb (list_mode bs' body_nr b) 0 b in
      let pab := pb + length cb in
      let cc := if hasc then compile_ss bs' (pab + 2) (list_mode bs' body_nr c) 0 c else [] in
      let ccatch := if hasc then [IJump (Z.of_nat (length cc + 2)); IPop] ++ cc else [] in
      let coff := if hasc then pab + 1 - pos else 0 in
      let pf := pab + length ccatch in
      let fclr := match fbrk, lp with Some _, None => clr body_nr | _, _ => [] end in
      let bsf := mkBlk BTry None 0 0 false None :: bs in
      let cf := if hasf then compile_ss bsf (pf + 1 + length fclr) (list_mode bsf false f) 0 f else [] in
      let foff := if hasf then pf + 1 - pos else 0 in
      [ITry coff foff] ++ pre ++ cb ++ ccatch
        ++ (if hasf then [IEnterFinally] ++ fclr ++ cf ++ [ILeaveFinally] else [ILeaveTry])).
  cbv zeta.
  destruct (if hasf then scan (mkBlk BTry None 0 0 false None :: bs) f 0 None else (None, None)) as [lp fbrk].
  cbn [fst snd]. destruct fbrk as [k|]; [destruct lp|]; reflexivity.
Qed.

Lemma len_indep :
  (forall s bs bs' pos pos' nr, shape_eq bs bs' ->
     length (compile bs pos nr s) = length (compile bs' pos' nr s)) /\
  (forall ss bs bs' pos pos' m i, shape_eq bs bs' ->
     length (compile_ss bs pos m i ss) = length (compile_ss bs' pos' m i ss)).
Proof.
  apply stmt_stmts_ind.
  - intros; reflexivity.
  - intros; reflexivity.
  - intros; reflexivity.
  - (* Block *) intros b IH bs bs' pos pos' nr H. simpl. rewrite (list_mode_shape bs bs'); auto.
  - (* If *) intros s1 IH1 s2 IH2 bs bs' pos pos' nr H. simpl. rewrite !app_length. simpl. rewrite !app_length. simpl.
    rewrite (IH1 bs bs' _ (pos' + length (clr nr) + 1) nr H).
    rewrite (IH2 bs bs' _ (pos' + length (clr nr) + 1 + length (compile bs' (pos' + length (clr nr) + 1) nr s1) + 1) nr H).
    reflexivity.
  - (* Loop *) intros k l body IH bs bs' pos pos' nr H.
    destruct k; simpl; rewrite !app_length; simpl; rewrite ?app_length; simpl.
    + erewrite (IH (_ :: bs) (_ :: bs')); [reflexivity|]. apply shape_cons; auto. repeat split.
    + erewrite (IH (_ :: bs) (_ :: bs')); [reflexivity|]. apply shape_cons; auto. repeat split.
    + erewrite (IH (_ :: bs) (_ :: bs')); [reflexivity|]. apply shape_cons; auto. repeat split.
  - (* ForOf *) intros l it body IH bs bs' pos pos' nr H. simpl. rewrite !app_length. simpl. rewrite !app_length. simpl.
    erewrite (IH (_ :: bs) (_ :: bs')); [reflexivity|]. apply shape_cons; auto. repeat split.
  - (* Labeled *) intros l b IH bs bs' pos pos' nr H. simpl.
    assert (S1 : forall x y, shape_eq (mkBlk BLabel (Some l) x 0 nr None :: bs) (mkBlk BLabel (Some l) y 0 nr None :: bs')).
    { intros. apply shape_cons; auto. repeat split. }
    rewrite (list_mode_shape _ _ nr b (S1 (pos + length (compile_ss (mkBlk BLabel (Some l) 0 0 nr None :: bs) pos (list_mode (mkBlk BLabel (Some l) 0 0 nr None :: bs) nr b) 0 b))
                                           (pos' + length (compile_ss (mkBlk BLabel (Some l) 0 0 nr None :: bs') pos' (list_mode (mkBlk BLabel (Some l) 0 0 nr None :: bs') nr b) 0 b)))).
    apply IH. apply S1.
  - (* Try *) intros b IHb hasc c IHc hasf f IHf bs bs' pos pos' nr H. rewrite !compile_try_eq.
    assert (S0 : shape_eq (tb0 :: bs) (tb0 :: bs')) by (apply shape_cons; auto; repeat split).
    assert (Esc : try_scan bs hasf f = try_scan bs' hasf f).
    { unfold try_scan. destruct hasf; auto. apply scan_shape; auto. }
    assert (Ebr : try_breaking bs hasf f = try_breaking bs' hasf f) by (unfold try_breaking; rewrite Esc; reflexivity).
    assert (Enr : try_bnr bs nr hasf f = try_bnr bs' nr hasf f).
    { unfold try_bnr. rewrite Esc. destruct (snd (try_scan bs' hasf f)) as [k|]; auto.
      destruct (fst (try_scan bs' hasf f)); auto. destruct (nth_shape _ _ k S0) as (_ & _ & Hn & _). exact Hn. }
    assert (Efc : try_fclr bs nr hasf f = try_fclr bs' nr hasf f) by (unfold try_fclr; rewrite Esc, Enr; reflexivity).
    unfold try_code. rewrite Ebr, Enr, Efc.
    set (br := try_breaking bs' hasf f). set (bnr := try_bnr bs' nr hasf f). set (fclr := try_fclr bs' nr hasf f).
    assert (S1 : shape_eq (mkBlk BTry None 0 0 false br :: bs) (mkBlk BTry None 0 0 false br :: bs')).
    { apply shape_cons; auto. repeat split. }
    assert (S2 : shape_eq (mkBlk BTry None 0 0 false None :: bs) (mkBlk BTry None 0 0 false None :: bs')).
    { apply shape_cons; auto. repeat split. }
    rewrite !(list_mode_shape _ _ _ _ S1). rewrite !(list_mode_shape _ _ _ _ S2).
    pose (SH := fun B : blk => shape_cons B B bs bs' (conj eq_refl (conj eq_refl (conj eq_refl eq_refl))) H).
    cbv zeta.
    repeat match goal with
           | |- context [length (compile_ss (?B :: bs) ?p ?m ?i b)] => rewrite (IHb (B :: bs) (B :: bs') p 0 m i (SH B))
           | |- context [length (compile_ss (?B :: bs) ?p ?m ?i c)] => rewrite (IHc (B :: bs) (B :: bs') p 0 m i (SH B))
           | |- context [length (compile_ss (?B :: bs) ?p ?m ?i f)] => rewrite (IHf (B :: bs) (B :: bs') p 0 m i (SH B))
           end.
    repeat match goal with
           | |- context [length (compile_ss (?B :: bs') ?p ?m ?i b)] =>
               progress rewrite (IHb (B :: bs') (B :: bs') p 0 m i (shape_refl _))
           | |- context [length (compile_ss (?B :: bs') ?p ?m ?i c)] =>
               progress rewrite (IHc (B :: bs') (B :: bs') p 0 m i (shape_refl _))
           | |- context [length (compile_ss (?B :: bs') ?p ?m ?i f)] =>
               progress rewrite (IHf (B :: bs') (B :: bs') p 0 m i (shape_refl _))
           end.
    destruct hasc, hasf; cbn [app length];
      repeat (rewrite ?app_length; cbn [length];
      repeat match goal with
           | |- context [length (compile_ss (?B :: bs) ?p ?m ?i b)] => rewrite (IHb (B :: bs) (B :: bs') p 0 m i (SH B))
           | |- context [length (compile_ss (?B :: bs) ?p ?m ?i c)] => rewrite (IHc (B :: bs) (B :: bs') p 0 m i (SH B))
           | |- context [length (compile_ss (?B :: bs) ?p ?m ?i f)] => rewrite (IHf (B :: bs) (B :: bs') p 0 m i (SH B))
           end;
      repeat match goal with
           | |- context [length (compile_ss (?B :: bs') ?p ?m ?i b)] =>
               progress rewrite (IHb (B :: bs') (B :: bs') p 0 m i (shape_refl _))
           | |- context [length (compile_ss (?B :: bs') ?p ?m ?i c)] =>
               progress rewrite (IHc (B :: bs') (B :: bs') p 0 m i (shape_refl _))
           | |- context [length (compile_ss (?B :: bs') ?p ?m ?i f)] =>
               progress rewrite (IHf (B :: bs') (B :: bs') p 0 m i (shape_refl _))
           end); lia.
  - (* Break *) intros. simpl. apply compile_branch_len; auto.
  - intros. simpl. apply compile_branch_len; auto.
  - (* Return *) intros v bs bs' pos pos' nr H.
    change (compile bs pos nr (Return v)) with ([ILoad (VNum v)] ++ ret_code bs ++ [IRet]).
    change (compile bs' pos' nr (Return v)) with ([ILoad (VNum v)] ++ ret_code bs' ++ [IRet]).
    rewrite (ret_code_shape bs bs' H). reflexivity.
  - intros; reflexivity.
  - intros; reflexivity.
  - (* SCons *) intros s IHs r IHr bs bs' pos pos' m i H. cbn [compile_ss].
    set (snr := match m with Some (Some j) => Nat.eqb i j | _ => false end).
    pose proof (IHs bs bs' pos pos' snr H) as Ls.
    destruct m.
    + destruct (is_branch s); auto. rewrite !app_length. rewrite Ls. f_equal. apply IHr; auto.
    + rewrite !app_length. rewrite Ls. f_equal. apply IHr; auto.
Qed.
