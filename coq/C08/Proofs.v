(* C08 — lemmas over the spec semantics S (and, in ProofsI.v, the implementation model I). *)
From Coq Require Import List Arith ZArith Bool Lia.
Import ListNotations.
From Verif.C08 Require Import Model.

(* ------------------------------------------------------------------------------------------------ *)
(* syntactic occurrence of an event / iterator id *)

Fixpoint ev_in (e : nat) (s : stmt) : bool :=
  match s with
  | Ev x => Nat.eqb x e
  | Block b | Labeled _ b => evs_in e b
  | If s1 s2 => ev_in e s1 || ev_in e s2
  | Loop k _ body => (match k with LFor u => Nat.eqb u e | _ => false end) || ev_in e body
  | ForOf _ _ body => ev_in e body
  | Try b _ c _ f => evs_in e b || evs_in e c || evs_in e f
  | _ => false
  end
with evs_in (e : nat) (ss : stmts) : bool :=
  match ss with SNil => false | SCons s r => ev_in e s || evs_in e r end.

Fixpoint it_in (i : nat) (s : stmt) : bool :=
  match s with
  | Block b | Labeled _ b => its_in i b
  | If s1 s2 => it_in i s1 || it_in i s2
  | Loop _ _ body => it_in i body
  | ForOf _ it body => Nat.eqb (it_id it) i || it_in i body
  | Try b _ c _ f => its_in i b || its_in i c || its_in i f
  | _ => false
  end
with its_in (i : nat) (ss : stmts) : bool :=
  match ss with SNil => false | SCons s r => it_in i s || its_in i r end.

(* an event of the trace that is not syntactically present *)
Definition foreign (ev : event) (pe : nat -> bool) (pi : nat -> bool) : Prop :=
  match ev with EEv e => pe e = false | ENext i | EReturn i => pi i = false end.

Definition ok_ev (ev : event) (s : stmt) : Prop :=
  match ev with EEv e => ev_in e s = true | ENext i | EReturn i => it_in i s = true end.
Definition ok_evs (ev : event) (ss : stmts) : Prop :=
  match ev with EEv e => evs_in e ss = true | ENext i | EReturn i => its_in i ss = true end.

Ltac inv H := inversion H; subst; clear H.

Ltac bsolve := repeat (rewrite ?orb_true_r; simpl); auto.

Ltac dmatch H :=
  match type of H with
  | context [match ?x with _ => _ end] => let E := fresh "E" in destruct x eqn:E
  | context [if ?x then _ else _] => let E := fresh "E" in destruct x eqn:E
  end.

Lemma iter_close_events : forall it st tr c, iter_close it st = (tr, c) ->
  forall ev, In ev tr -> ev = EReturn (it_id it).
Proof.
  intros it st tr c H ev Hin. unfold iter_close in H.
  destruct st; destruct (it_ret it); inv H; simpl in Hin; intuition.
Qed.

(* every event of a run is syntactically present in the program *)
Lemma trace_in_syntax : forall n,
  (forall s sc t c sc', exec n s sc = Some (t, c, sc') -> forall ev, In ev t -> ok_ev ev s) /\
  (forall ss acc sc t c sc', exec_list n ss acc sc = Some (t, c, sc') -> forall ev, In ev t -> ok_evs ev ss) /\
  (forall k l body V skip sc t c sc', exec_loop n k l body V skip sc = Some (t, c, sc') ->
      forall ev, In ev t -> ok_ev ev (Loop k l body)) /\
  (forall l it body V idx sc t c sc', exec_forof n l it body V idx sc = Some (t, c, sc') ->
      forall ev, In ev t -> ok_ev ev (ForOf l it body)).
Proof.
  induction n as [|n [IHs [IHl [IHloop IHfor]]]].
  { repeat split; intros; discriminate. }
  repeat split.
  - (* stmt *)
    intros s sc t c sc' H ev Hin.
    destruct s as [e|v|p|b|s1 s2|k l body|l it body|l b|b hasc cc hasf f|l|l|v|v]; simpl in H.
    + inv H. destruct Hin as [<-|[]]. simpl. apply Nat.eqb_refl.
    + inv H. destruct Hin.
    + inv H. destruct Hin.
    + eapply IHl in H; [|eassumption]. destruct ev; simpl in *; auto.
    + destruct (cond sc) as [b sc1]. destruct (exec n (if b then s1 else s2) sc1) as [[[t0 c0] sc2]|] eqn:E; inv H.
      eapply IHs in E; [|eassumption]. destruct b; destruct ev; simpl in *; rewrite E; bsolve.
    + eapply IHloop in H; eauto.
    + eapply IHfor in H; eauto.
    + destruct (exec_list n b None sc) as [[[t0 c0] sc1]|] eqn:E; inv H.
      eapply IHl in E; [|eassumption]. destruct ev; simpl in *; auto.
    + destruct (exec_list n b None sc) as [[[tb B] sc1]|] eqn:EB; [|discriminate].
      assert (HB : forall ev, In ev tb -> ok_ev ev (Try b hasc cc hasf f)).
      { intros e He. eapply IHl in EB; [|eassumption]. destruct e; simpl in *; rewrite EB; bsolve. }
      destruct (is_unc B). { inv H. auto. }
      assert (HC : forall t1 C sc2,
          (if hasc && is_throw B then
             match exec_list n cc None sc1 with
             | Some (tc, C, sc2) => Some (tb ++ tc, C, sc2) | None => None end
           else Some (tb, B, sc1)) = Some (t1, C, sc2) ->
          forall ev, In ev t1 -> ok_ev ev (Try b hasc cc hasf f)).
      { intros t1 C sc2 H1 e He. destruct (hasc && is_throw B).
        - destruct (exec_list n cc None sc1) as [[[tc C'] sc2']|] eqn:EC; inv H1.
          apply in_app_or in He. destruct He as [He|He]; auto.
          eapply IHl in EC; [|eassumption]. destruct e; simpl in *; rewrite EC; bsolve.
        - inv H1. auto. }
      destruct (if hasc && is_throw B then _ else _) as [[[t1 C] sc2]|] eqn:ERC; [|discriminate].
      specialize (HC _ _ _ eq_refl).
      destruct (is_unc C). { inv H. auto. }
      destruct hasf.
      * destruct (exec_list n f None sc2) as [[[tf F] sc3]|] eqn:EF; inv H.
        apply in_app_or in Hin. destruct Hin as [He|He]; auto.
        eapply IHl in EF; [|eassumption]. destruct ev; simpl in *; rewrite EF; bsolve.
      * inv H. auto.
    + inv H. destruct Hin.
    + inv H. destruct Hin.
    + inv H. destruct Hin.
    + inv H. destruct Hin.
  - (* list *)
    intros ss acc sc t c sc' H ev Hin. destruct ss; simpl in H.
    + inv H. destruct Hin.
    + destruct (exec n s sc) as [[[t0 c0] sc1]|] eqn:E; [|discriminate].
      assert (H0 : forall e, In e t0 -> ok_evs e (SCons s ss)).
      { intros e He. eapply IHs in E; [|eassumption]. destruct e; simpl in *; rewrite E; bsolve. }
      destruct (update_empty c0 acc) eqn:EU; try (inv H; auto; fail).
      destruct (exec_list n ss v sc1) as [[[t2 c2] sc2]|] eqn:E2; inv H.
      apply in_app_or in Hin. destruct Hin as [He|He]; auto.
      eapply IHl in E2; [|eassumption]. destruct ev; simpl in *; rewrite E2; bsolve.
  - (* loop *)
    intros k l body V skip sc t c sc' H ev Hin. simpl in H.
    destruct (if skip then (true, sc) else cond sc) as [go sc1].
    destruct (negb go). { inv H. destruct Hin. }
    destruct (exec n body sc1) as [[[t0 c0] sc2]|] eqn:E; [|discriminate].
    assert (H0 : forall e, In e t0 -> ok_ev e (Loop k l body)).
    { intros e He. eapply IHs in E; [|eassumption]. destruct e; simpl in *; rewrite E; bsolve. }
    destruct (loop_continues c0 l).
    + destruct (exec_loop n k l body (vor (cval c0) V) false sc2) as [[[t2 c2] sc3]|] eqn:E2; inv H.
      apply in_app_or in Hin. destruct Hin as [He|He]; auto.
      apply in_app_or in He. destruct He as [He|He].
      * destruct k; simpl in He; try contradiction. destruct He as [<-|[]]. simpl. rewrite Nat.eqb_refl. reflexivity.
      * eapply IHloop in E2; eauto.
    + inv H. auto.
  - (* for-of *)
    intros l it body V idx sc t c sc' H ev Hin. simpl in H.
    assert (HN : ok_ev (ENext (it_id it)) (ForOf l it body)) by (simpl; rewrite Nat.eqb_refl; reflexivity).
    assert (HR : ok_ev (EReturn (it_id it)) (ForOf l it body)) by (simpl; rewrite Nat.eqb_refl; reflexivity).
    destruct (match it_throw it with Some (j, v) => if Nat.eqb j idx then Some v else None | None => None end).
    { inv H. destruct Hin as [<-|[]]. exact HN. }
    destruct (Nat.leb (it_len it) idx). { inv H. destruct Hin as [<-|[]]. exact HN. }
    destruct (exec n body sc) as [[[t0 c0] sc2]|] eqn:E; [|discriminate].
    assert (H0 : forall e, In e t0 -> ok_ev e (ForOf l it body)).
    { intros e He. eapply IHs in E; [|eassumption]. destruct e; simpl in *; rewrite E; bsolve. }
    destruct (loop_continues c0 l).
    + destruct (exec_forof n l it body (vor (cval c0) V) (S idx) sc2) as [[[t2 c2] sc3]|] eqn:E2; inv H.
      destruct Hin as [<-|Hin]; [exact HN|].
      apply in_app_or in Hin. destruct Hin as [He|He]; auto. eapply IHfor in E2; eauto.
    + destruct (iter_close it (update_empty c0 (Some V))) as [tr c'] eqn:EC. inv H.
      destruct Hin as [<-|Hin]; [exact HN|].
      apply in_app_or in Hin. destruct Hin as [He|He]; auto.
      eapply iter_close_events in EC; eauto. subst. exact HR.
Qed.

(* ------------------------------------------------------------------------------------------------ *)
(* finally runs exactly once, after the try/catch part, whatever its completion *)

Definition try_part (n : nat) (b : stmts) (hasc : bool) (c : stmts) (sc : list bool) : option res :=
  match exec_list n b None sc with
  | None => None
  | Some (tb, B, sc1) =>
      if is_unc B then Some (tb, B, sc1) else
      if hasc && is_throw B then
        match exec_list n c None sc1 with
        | Some (tc, C, sc2) => Some (tb ++ tc, C, sc2)
        | None => None
        end
      else Some (tb, B, sc1)
  end.

Lemma try_finally_shape : forall n b hasc c f sc t C sc',
  exec (S n) (Try b hasc c true f) sc = Some (t, C, sc') ->
  exists t1 C1 sc1, try_part n b hasc c sc = Some (t1, C1, sc1) /\
    ((is_unc C1 = true /\ t = t1 /\ C = C1 /\ sc' = sc1) \/
     (is_unc C1 = false /\ exists tf F, exec_list n f None sc1 = Some (tf, F, sc') /\ t = t1 ++ tf /\
        C = update_empty (if is_normal F then C1 else F) (Some VUndef))).
Proof.
  intros n b hasc c f sc t C sc' H. simpl in H. unfold try_part.
  destruct (exec_list n b None sc) as [[[tb B] sc1]|] eqn:EB; [|discriminate].
  destruct (is_unc B) eqn:UB.
  { inv H. do 3 eexists. split; [reflexivity|]. left. auto. }
  destruct (hasc && is_throw B).
  - destruct (exec_list n c None sc1) as [[[tc C'] sc2]|] eqn:EC; [|discriminate].
    do 3 eexists. split; [reflexivity|].
    destruct (is_unc C') eqn:UC. { inv H. left. auto. }
    right. split; [reflexivity|].
    destruct (exec_list n f None sc2) as [[[tf F] sc3]|] eqn:EF; inv H. eauto.
  - do 3 eexists. split; [reflexivity|]. rewrite UB in H.
    right. split; [assumption|].
    destruct (exec_list n f None sc1) as [[[tf F] sc3]|] eqn:EF; inv H. eauto.
Qed.

Lemma try_part_syntax : forall n b hasc c sc t1 C1 sc1 e,
  try_part n b hasc c sc = Some (t1, C1, sc1) -> In (EEv e) t1 -> evs_in e b || evs_in e c = true.
Proof.
  intros n b hasc c sc t1 C1 sc1 e H Hin. unfold try_part in H.
  destruct (exec_list n b None sc) as [[[tb B] sc2]|] eqn:EB; [|discriminate].
  assert (HB : In (EEv e) tb -> evs_in e b = true).
  { intro. destruct (trace_in_syntax n) as [_ [Hl _]]. exact (Hl _ _ _ _ _ _ EB (EEv e) H0). }
  destruct (is_unc B). { inv H. rewrite HB; auto. }
  destruct (hasc && is_throw B).
  - destruct (exec_list n c None sc2) as [[[tc C'] sc3]|] eqn:EC; inv H.
    apply in_app_or in Hin. destruct Hin as [Hi|Hi]. { rewrite HB; auto. }
    destruct (trace_in_syntax n) as [_ [Hl _]]. pose proof (Hl _ _ _ _ _ _ EC (EEv e) Hi) as Hc.
    simpl in Hc. rewrite Hc. bsolve.
  - inv H. rewrite HB; auto.
Qed.

Lemma exec_list_cons : forall n s r acc sc,
  exec_list (S n) (SCons s r) acc sc =
  match exec n s sc with
  | None => None
  | Some (t, c, sc1) =>
      match update_empty c acc with
      | CNormal v =>
          match exec_list n r v sc1 with
          | Some (t2, c2, sc2) => Some (t ++ t2, c2, sc2)
          | None => None
          end
      | c' => Some (t, c', sc1)
      end
  end.
Proof. reflexivity. Qed.

Lemma exec_list_marker : forall n id f sc t F sc',
  exec_list n (SCons (Ev id) f) None sc = Some (t, F, sc') ->
  exists m t', t = EEv id :: t' /\ exec_list m f (Some (VNum id)) sc = Some (t', F, sc').
Proof.
  intros n id f sc t F sc' H. destruct n as [|[|m]]; try discriminate.
  rewrite exec_list_cons in H. change (exec (S m) (Ev id) sc) with (Some ([EEv id], CNormal (Some (VNum id)), sc)) in H.
  cbv beta iota in H. change (update_empty (CNormal (Some (VNum id))) None) with (CNormal (Some (VNum id))) in H.
  cbv beta iota in H.
  destruct (exec_list (S m) f (Some (VNum id)) sc) as [[[t2 c2] sc2]|] eqn:E; inv H.
  exists (S m), t2. auto.
Qed.

(* finally block marked by a unique leading event [id] *)
Theorem finally_exactly_once : forall n b hasc c f id sc t C sc',
  evs_in id b = false -> evs_in id c = false -> evs_in id f = false ->
  exec (S n) (Try b hasc c true (SCons (Ev id) f)) sc = Some (t, C, sc') ->
  exists t1 C1 sc1, try_part n b hasc c sc = Some (t1, C1, sc1) /\ ~ In (EEv id) t1 /\
    ((is_unc C1 = true /\ t = t1 /\ C = C1) \/
     (is_unc C1 = false /\ exists t2, t = t1 ++ EEv id :: t2 /\ ~ In (EEv id) t2)).
Proof.
  intros n b hasc c f id sc t C sc' Hb Hc Hf H.
  apply try_finally_shape in H. destruct H as (t1 & C1 & sc1 & HP & HR).
  exists t1, C1, sc1. split; [assumption|]. split.
  { intro Hin. eapply try_part_syntax in HP; eauto. rewrite Hb, Hc in HP. discriminate. }
  destruct HR as [(U & -> & -> & _) | (U & tf & F & EF & -> & ->)].
  - left. auto.
  - right. split; [assumption|].
    apply exec_list_marker in EF. destruct EF as (m & t' & -> & EF).
    exists t'. split; [reflexivity|].
    intro Hin. destruct (trace_in_syntax m) as [_ [Hl _]].
    pose proof (Hl _ _ _ _ _ _ EF (EEv id) Hin) as X. simpl in X. rewrite Hf in X. discriminate.
Qed.

(* an abrupt completion of the finally block replaces the pending one; a normal one re-establishes it *)
Theorem finally_overrides : forall n b hasc c f sc t C sc',
  exec (S n) (Try b hasc c true f) sc = Some (t, C, sc') ->
  exists t1 C1 sc1, try_part n b hasc c sc = Some (t1, C1, sc1) /\
    (is_unc C1 = false ->
     exists tf F, exec_list n f None sc1 = Some (tf, F, sc') /\
       (is_normal F = true -> C = update_empty C1 (Some VUndef)) /\
       (is_normal F = false -> C = update_empty F (Some VUndef))).
Proof.
  intros. apply try_finally_shape in H. destruct H as (t1 & C1 & sc1 & HP & HR).
  exists t1, C1, sc1. split; [assumption|]. intro U.
  destruct HR as [(U' & _) | (_ & tf & F & EF & -> & ->)]. { congruence. }
  exists tf, F. split; [assumption|]. split; intro HN; rewrite HN; reflexivity.
Qed.

(* ------------------------------------------------------------------------------------------------ *)
(* nested finally blocks: each exactly once, innermost first *)

Fixpoint wrap (fs : list (nat * stmts)) (core : stmts) : stmts :=
  match fs with
  | [] => core
  | (id, f) :: r => SCons (Try (wrap r core) false SNil true (SCons (Ev id) f)) SNil
  end.

Definition is_marker (ids : list nat) (ev : event) : bool :=
  match ev with EEv e => existsb (Nat.eqb e) ids | _ => false end.

Definition clean (ids : list nat) (ss : stmts) : Prop := forall id, In id ids -> evs_in id ss = false.

Lemma filter_none : forall ids t, (forall e, In e ids -> ~ In (EEv e) t) -> filter (is_marker ids) t = [].
Proof.
  intros ids t H. induction t as [|ev t IH]; [reflexivity|]. simpl.
  destruct (is_marker ids ev) eqn:E.
  - destruct ev; simpl in E; try discriminate. apply existsb_exists in E. destruct E as (x & Hx & Hn).
    apply Nat.eqb_eq in Hn. subst. exfalso. apply (H x Hx). left. reflexivity.
  - apply IH. intros e He Hin. apply (H e He). right. assumption.
Qed.

Lemma filter_drop_id : forall id ids t, ~ In (EEv id) t ->
  filter (is_marker (id :: ids)) t = filter (is_marker ids) t.
Proof.
  intros id ids t H. induction t as [|ev t IH]; [reflexivity|]. simpl.
  assert (is_marker (id :: ids) ev = is_marker ids ev).
  { destruct ev; simpl; auto. destruct (Nat.eqb n id) eqn:E; auto.
    apply Nat.eqb_eq in E. subst. exfalso. apply H. left. reflexivity. }
  rewrite H0. destruct (is_marker ids ev); [f_equal|]; apply IH; intro; apply H; right; assumption.
Qed.

Lemma wrap_clean : forall fs core id,
  evs_in id core = false -> (forall i f, In (i, f) fs -> i <> id /\ evs_in id f = false) ->
  evs_in id (wrap fs core) = false.
Proof.
  induction fs as [|[i f] r IH]; intros core id Hc Hf; simpl; [assumption|].
  destruct (Hf i f (or_introl eq_refl)) as [Hne Hff].
  rewrite IH; auto.
  - simpl. destruct (Nat.eqb i id) eqn:E. { apply Nat.eqb_eq in E. contradiction. } rewrite Hff. reflexivity.
  - intros. apply Hf. right. assumption.
Qed.

Lemma exec_list_nil : forall n acc sc, exec_list (S n) SNil acc sc = Some ([], CNormal acc, sc).
Proof. reflexivity. Qed.

Lemma exec_list_single : forall n s sc t C sc',
  exec_list n (SCons s SNil) None sc = Some (t, C, sc') ->
  exists m t0 C0, exec m s sc = Some (t0, C0, sc') /\ t = t0 /\ (is_unc C = false -> is_unc C0 = false) /\ n = S m.
Proof.
  intros n s sc t C sc' H. destruct n as [|m]; [discriminate|]. rewrite exec_list_cons in H.
  destruct (exec m s sc) as [[[t0 c0] sc1]|] eqn:E; [|discriminate].
  destruct c0 as [[v|]|l [v|]|l [v|]|v|v|p]; cbn [update_empty] in H.
  all: try (destruct m; [discriminate|]; rewrite exec_list_nil in H).
  all: inv H; rewrite ?app_nil_r; eexists _, _, _; split; [exact E|]; repeat split; auto.
  all: simpl; intros; congruence.
Qed.

Lemma update_empty_unc : forall c v, is_unc (update_empty c v) = is_unc c.
Proof. intros [[?|]| ? [?|] | ? [?|] | ? | ? | ? ] w; reflexivity. Qed.

Theorem finally_exactly_once_innermost_first : forall fs core n sc t C sc',
  NoDup (map fst fs) ->
  clean (map fst fs) core ->
  (forall i f, In (i, f) fs -> clean (map fst fs) f) ->
  exec_list n (wrap fs core) None sc = Some (t, C, sc') ->
  is_unc C = false ->
  filter (is_marker (map fst fs)) t = map EEv (rev (map fst fs)).
Proof.
  induction fs as [|[id f] r IH]; intros core n sc t C sc' ND Hcore Hfs H U.
  - simpl. apply filter_none. intros e [].
  - simpl in H. apply exec_list_single in H. destruct H as (m & t0 & C0 & E & -> & HU & ->).
    specialize (HU U). destruct m as [|m]; [discriminate|].
    inversion ND as [|? ? Hnotin ND']; subst.
    assert (Hcl : evs_in id (wrap r core) = false).
    { apply wrap_clean. { apply Hcore. left. reflexivity. }
      intros i f' Hin. split.
      - intro Heq. apply Hnotin. rewrite <- Heq. change i with (fst (i, f')). apply in_map. assumption.
      - apply (Hfs i f'); [right; assumption|left; reflexivity]. }
    assert (Hf : evs_in id f = false). { apply (Hfs id f); left; reflexivity. }
    pose proof (finally_exactly_once m (wrap r core) false SNil f id sc t0 C0 sc' Hcl eq_refl Hf E) as
      (t1 & C1 & sc1 & HP & Hno1 & HR).
    destruct HR as [(U1 & -> & ->) | (U1 & t2 & -> & Hno2)]. { congruence. }
    unfold try_part in HP.
    destruct (exec_list m (wrap r core) None sc) as [[[tb B] sc2]|] eqn:EB; [|discriminate].
    assert (HB : tb = t1 /\ B = C1).
    { destruct (is_unc B); simpl in HP; inv HP; auto. }
    destruct HB as [-> ->].
    (* the finally block's own trace *)
    apply try_finally_shape in E. destruct E as (t1' & C1' & sc1' & HP' & HR').
    unfold try_part in HP'. rewrite EB in HP'.
    assert (t1' = t1 /\ C1' = C1 /\ sc1' = sc2) by (destruct (is_unc C1); simpl in HP'; inv HP'; auto).
    destruct H as (-> & -> & ->).
    destruct HR' as [(X & _) | (_ & tf & F & EF & Heq & _)]. { congruence. }
    apply app_inv_head in Heq. subst tf.
    apply exec_list_marker in EF. destruct EF as (m' & t' & Heq & EF). inv Heq.
    rewrite filter_app. simpl.
    rewrite Nat.eqb_refl. cbn [orb].
    rewrite (filter_none (id :: map fst r) t').
    2:{ intros e He Hin. destruct (trace_in_syntax m') as [_ [Hl _]].
        pose proof (Hl _ _ _ _ _ _ EF (EEv e) Hin) as X. simpl in X.
        rewrite (Hfs id f (or_introl eq_refl) e He) in X. discriminate. }
    rewrite filter_drop_id by assumption.
    rewrite (IH core m sc t1 C1 sc2); auto.
    + rewrite map_app. reflexivity.
    + intros i Hi. apply Hcore. right. assumption.
    + intros i f' Hin i' Hi'. apply (Hfs i f'); right; assumption.
Qed.

(* ------------------------------------------------------------------------------------------------ *)
(* for-of: return() exactly once iff the loop is left abruptly by its body *)

Definition cnt_ret (id : nat) (t : list event) : nat :=
  length (filter (fun e => event_eqb e (EReturn id)) t).

Lemma cnt_ret_app : forall id a b, cnt_ret id (a ++ b) = cnt_ret id a + cnt_ret id b.
Proof. intros. unfold cnt_ret. rewrite filter_app, app_length. reflexivity. Qed.

Lemma cnt_ret_none : forall id t, ~ In (EReturn id) t -> cnt_ret id t = 0.
Proof.
  intros id t H. unfold cnt_ret. induction t as [|e t IH]; [reflexivity|]. simpl.
  destruct (event_eqb e (EReturn id)) eqn:E.
  - destruct e; simpl in E; try discriminate. apply Nat.eqb_eq in E. subst. exfalso. apply H. left. reflexivity.
  - apply IH. intro. apply H. right. assumption.
Qed.

Lemma iter_close_cnt : forall it st,
  cnt_ret (it_id it) (fst (iter_close it st)) =
  if is_unc st then 0 else match it_ret it with RetMissing => 0 | _ => 1 end.
Proof.
  intros it st. unfold iter_close, cnt_ret.
  destruct st; destruct (it_ret it); simpl; rewrite ?Nat.eqb_refl; reflexivity.
Qed.

Theorem iterator_closed_once : forall n l it body V idx sc t c sc',
  exec_forof n l it body V idx sc = Some (t, c, sc') -> it_in (it_id it) body = false ->
  (exists t0, t = t0 ++ [ENext (it_id it)] /\ cnt_ret (it_id it) t = 0 /\
              exists v, c = CNormal (Some v) \/ c = CThrow v)
  \/
  (exists t0 tb cb m scb V',
      t = t0 ++ ENext (it_id it) :: tb ++ fst (iter_close it (update_empty cb (Some V'))) /\
      exec m body scb = Some (tb, cb, sc') /\ loop_continues cb l = false /\
      c = loop_exit l (snd (iter_close it (update_empty cb (Some V')))) /\
      cnt_ret (it_id it) t =
        if is_unc cb then 0 else match it_ret it with RetMissing => 0 | _ => 1 end).
Proof.
  induction n as [|n IH]; intros l it body V idx sc t c sc' H Hnot; [discriminate|].
  simpl in H.
  destruct (match it_throw it with Some (j, v) => if Nat.eqb j idx then Some v else None | None => None end) eqn:ET.
  { inv H. left. exists []. split; [reflexivity|]. split; [reflexivity|]. exists (VNum n0). right. reflexivity. }
  destruct (Nat.leb (it_len it) idx).
  { inv H. left. exists []. split; [reflexivity|]. split; [reflexivity|]. exists V. left. reflexivity. }
  destruct (exec n body sc) as [[[tb cb] sc2]|] eqn:EB; [|discriminate].
  assert (Hb : cnt_ret (it_id it) tb = 0).
  { apply cnt_ret_none. intro Hin. destruct (trace_in_syntax n) as [Hs _].
    pose proof (Hs _ _ _ _ _ EB _ Hin) as X. simpl in X. congruence. }
  destruct (loop_continues cb l) eqn:LC.
  - destruct (exec_forof n l it body (vor (cval cb) V) (S idx) sc2) as [[[t2 c2] sc3]|] eqn:E2; inv H.
    apply IH in E2; auto. destruct E2 as [(t0 & -> & Hc & Hv) | (t0 & tb' & cb' & m & scb & V' & -> & Eb & Lc & -> & Hc)].
    + left. exists (ENext (it_id it) :: tb ++ t0). split. { simpl. rewrite app_assoc. reflexivity. }
      split; [|assumption].
      change (ENext (it_id it) :: tb ++ t0 ++ [ENext (it_id it)]) with ([ENext (it_id it)] ++ tb ++ t0 ++ [ENext (it_id it)]).
      rewrite !cnt_ret_app in *. rewrite Hb. simpl in *. lia.
    + right. exists (ENext (it_id it) :: tb ++ t0), tb', cb', m, scb, V'.
      split. { simpl. rewrite <- app_assoc. reflexivity. }
      repeat split; auto.
      rewrite <- Hc.
      change (ENext (it_id it) :: tb ++ ?x) with ([ENext (it_id it)] ++ tb ++ x).
      rewrite !cnt_ret_app. rewrite Hb. simpl. reflexivity.
  - destruct (iter_close it (update_empty cb (Some V))) as [tr c'] eqn:EC. inv H.
    right. exists [], tb, cb, n, sc, V. rewrite EC. simpl.
    repeat split; auto.
    change (ENext (it_id it) :: tb ++ tr) with ([ENext (it_id it)] ++ tb ++ tr).
    rewrite !cnt_ret_app, Hb.
    pose proof (iter_close_cnt it (update_empty cb (Some V))) as X. rewrite EC in X. simpl in X.
    rewrite X, update_empty_unc. reflexivity.
Qed.

(* ------------------------------------------------------------------------------------------------ *)
(* completion values (UpdateEmpty) *)

Theorem completion_value_rules :
  (* statement lists: the value of the last value-producing item, carried by abrupt completions too *)
  (forall n s r acc sc,
     exec_list (S n) (SCons s r) acc sc =
     match exec n s sc with
     | None => None
     | Some (t, c, sc1) =>
         match update_empty c acc with
         | CNormal v => match exec_list n r v sc1 with
                        | Some (t2, c2, sc2) => Some (t ++ t2, c2, sc2) | None => None end
         | c' => Some (t, c', sc1)
         end
     end) /\
  (* if and try never complete with an empty value *)
  (forall n s1 s2 sc t c sc', exec n (If s1 s2) sc = Some (t, c, sc') ->
     match c with CNormal None | CBreak _ None | CContinue _ None => False | _ => True end) /\
  (forall n b hasc cc hasf f sc t c sc', exec n (Try b hasc cc hasf f) sc = Some (t, c, sc') ->
     is_unc c = false ->
     match c with CNormal None | CBreak _ None | CContinue _ None => False | _ => True end) /\
  (* a loop that terminates normally yields a value (undefined if no iteration produced one) *)
  (forall n k l body V skip sc t c sc', exec_loop n k l body V skip sc = Some (t, c, sc') ->
     match c with CNormal None | CBreak _ None | CContinue _ None => False | _ => True end).
Proof.
  assert (UE : forall c v, match update_empty c (Some v) with
                           | CNormal None | CBreak _ None | CContinue _ None => False | _ => True end).
  { intros [[?|]| ? [?|] | ? [?|] | ? | ? | ? ] w; simpl; exact I. }
  split; [reflexivity|]. split; [|split].
  - intros n s1 s2 sc t c sc' H. destruct n; [discriminate|]. simpl in H.
    destruct (cond sc) as [b sc1]. destruct (exec n (if b then s1 else s2) sc1) as [[[t0 c0] sc2]|]; inv H. apply UE.
  - intros n b hasc cc hasf f sc t c sc' H U. destruct n; [discriminate|]. simpl in H.
    destruct (exec_list n b None sc) as [[[tb B] sc1]|]; [|discriminate].
    destruct (is_unc B) eqn:UB. { inv H. congruence. }
    destruct (if hasc && is_throw B then _ else _) as [[[t1 C] sc2]|]; [|discriminate].
    destruct (is_unc C) eqn:UC. { inv H. congruence. }
    destruct hasf.
    + destruct (exec_list n f None sc2) as [[[tf F] sc3]|]; inv H. apply UE.
    + inv H. apply UE.
  - induction n as [|n IH]; intros k l body V skip sc t c sc' H; [discriminate|]. simpl in H.
    destruct (if skip then (true, sc) else cond sc) as [go sc1].
    destruct (negb go). { inv H. exact I. }
    destruct (exec n body sc1) as [[[t0 c0] sc2]|]; [|discriminate].
    destruct (loop_continues c0 l).
    + destruct (exec_loop n k l body (vor (cval c0) V) false sc2) as [[[t2 c2] sc3]|] eqn:E2; inv H.
      eapply IH; eauto.
    + inv H. specialize (UE c0 V). destruct (update_empty c0 (Some V)) as [[?|]| [?|] [?|] | ? [?|] | ? | ? | ? ];
        simpl; try exact I; try contradiction; destruct l; simpl; try exact I; destruct (Nat.eqb _ _); exact I.
Qed.

(* ------------------------------------------------------------------------------------------------ *)
(* S: after an uncatchable payload nothing of the script runs *)

Theorem uncatchable_runs_nothing_S :
  (forall n s r acc sc t p sc1, exec n s sc = Some (t, CUnc p, sc1) ->
     exec_list (S n) (SCons s r) acc sc = Some (t, CUnc p, sc1)) /\
  (forall n b hasc c hasf f sc t p sc1, exec_list n b None sc = Some (t, CUnc p, sc1) ->
     exec (S n) (Try b hasc c hasf f) sc = Some (t, CUnc p, sc1)) /\
  (forall n l it body V idx sc t p sc1,
     (match it_throw it with Some (j, _) => Nat.eqb j idx | None => false end) = false ->
     Nat.leb (it_len it) idx = false ->
     exec n body sc = Some (t, CUnc p, sc1) ->
     exec_forof (S n) l it body V idx sc = Some (ENext (it_id it) :: t, CUnc p, sc1)).
Proof.
  split; [|split].
  - intros. rewrite exec_list_cons, H. reflexivity.
  - intros. simpl. rewrite H. reflexivity.
  - intros n l it body V idx sc t p sc1 HT HL H. simpl.
    replace (match it_throw it with Some (j, v) => if Nat.eqb j idx then Some v else None | None => None end)
      with (@None nat).
    2:{ destruct (it_throw it) as [[j v]|]; auto. rewrite HT. reflexivity. }
    rewrite HL, H. simpl. rewrite app_nil_r. reflexivity.
Qed.
