(* Base/F64 — IEEE-754 binary64 (and binary32) on the standard library's SpecFloat.
   Executable definitions only; shared by C05, C12, C17, ... No primitive floats, no native_compute. *)
From Coq Require Import ZArith Bool SpecFloat.
Local Open Scope Z_scope.

Definition f64 := spec_float.

Definition prec64 := 53.  Definition emax64 := 1024.
Definition prec32 := 24.  Definition emax32 := 128.

Definition fadd := SFadd prec64 emax64.
Definition fsub := SFsub prec64 emax64.
Definition fmul := SFmul prec64 emax64.
Definition fdiv := SFdiv prec64 emax64.
Definition fsqrt := SFsqrt prec64 emax64.
Definition fneg := SFopp.
Definition fabs := SFabs.
Definition feqb := SFeqb.     (* IEEE equality: NaN <> NaN, +0 = -0 *)
Definition fltb := SFltb.
Definition fleb := SFleb.

Definition fzero : f64 := S754_zero false.
Definition fnegzero : f64 := S754_zero true.
Definition fnan : f64 := S754_nan.
Definition finf (s : bool) : f64 := S754_infinity s.

Definition is_nan (x : f64) : bool := match x with S754_nan => true | _ => false end.
Definition is_inf (x : f64) : bool := match x with S754_infinity _ => true | _ => false end.
Definition is_zero (x : f64) : bool := match x with S754_zero _ => true | _ => false end.
Definition is_finite (x : f64) : bool :=
  match x with S754_zero _ | S754_finite _ _ _ => true | _ => false end.
Definition sign_bit (x : f64) : bool :=
  match x with S754_zero s | S754_infinity s | S754_finite s _ _ => s | S754_nan => false end.

(* correctly rounded (nearest-even) conversion of the integer m * 2^e *)
Definition of_Z_scaled (m e : Z) : f64 := binary_normalize prec64 emax64 m e false.
Definition of_Z (z : Z) : f64 := of_Z_scaled z 0.
Definition of_Z32 (z : Z) : spec_float := binary_normalize prec32 emax32 z 0 false.

(* truncation toward zero of a finite float; None for NaN / infinities *)
Definition trunc_Z (x : f64) : option Z :=
  match x with
  | S754_zero _ => Some 0
  | S754_finite s m e =>
      let a := if 0 <=? e then Z.pos m * 2 ^ e else Z.pos m / 2 ^ (- e) in
      Some (if s then - a else a)
  | _ => None
  end.

(* floor / ceil to Z for finite floats *)
Definition floor_Z (x : f64) : option Z :=
  match x with
  | S754_zero _ => Some 0
  | S754_finite s m e =>
      if 0 <=? e then Some ((if s then -1 else 1) * (Z.pos m * 2 ^ e))
      else let q := Z.pos m / 2 ^ (- e) in
           let r := Z.pos m mod 2 ^ (- e) in
           Some (if s then (if r =? 0 then - q else - q - 1) else q)
  | _ => None
  end.

(* is the finite float an integer? *)
Definition is_integral (x : f64) : bool :=
  match x with
  | S754_zero _ => true
  | S754_finite _ m e => if 0 <=? e then true else Z.pos m mod 2 ^ (- e) =? 0
  | _ => false
  end.

(* exact value of a finite float as a pair (numerator, log2 of denominator) *)
Definition exact (x : f64) : option (Z * Z) :=
  match x with
  | S754_zero _ => Some (0, 0)
  | S754_finite s m e => Some ((if s then - Z.pos m else Z.pos m), e)
  | _ => None
  end.

(* ---- bit patterns ---- *)
Section Bits.
Variables (prec ebits : Z).    (* 53/11 or 24/8 *)
Let mbits := prec - 1.
Let bias := 2 ^ (ebits - 1) - 1.
Let emin := 3 - 2 ^ (ebits - 1) - prec.       (* exponent of subnormals *)

Definition to_bits_gen (x : spec_float) : Z :=
  let sgn (s : bool) := if s then 2 ^ (mbits + ebits) else 0 in
  match x with
  | S754_zero s => sgn s
  | S754_infinity s => sgn s + (2 ^ ebits - 1) * 2 ^ mbits
  | S754_nan => (2 ^ ebits - 1) * 2 ^ mbits + 2 ^ (mbits - 1)
  | S754_finite s m e =>
      if Z.pos m <? 2 ^ mbits then sgn s + Z.pos m     (* subnormal: e = emin *)
      else sgn s + (e - emin + 1) * 2 ^ mbits + (Z.pos m - 2 ^ mbits)
  end.

Definition of_bits_gen (b : Z) : spec_float :=
  let b := b mod 2 ^ (mbits + ebits + 1) in
  let s := 2 ^ (mbits + ebits) <=? b in
  let ex := (b / 2 ^ mbits) mod 2 ^ ebits in
  let mant := b mod 2 ^ mbits in
  if ex =? 2 ^ ebits - 1 then (if mant =? 0 then S754_infinity s else S754_nan)
  else if ex =? 0 then
    match mant with Zpos p => S754_finite s p emin | _ => S754_zero s end
  else
    match mant + 2 ^ mbits with Zpos p => S754_finite s p (ex - 1 + emin) | _ => S754_zero s end.
End Bits.

Definition to_bits : f64 -> Z := to_bits_gen 53 11.
Definition of_bits : Z -> f64 := of_bits_gen 53 11.
Definition to_bits32 : spec_float -> Z := to_bits_gen 24 8.
Definition of_bits32 : Z -> spec_float := of_bits_gen 24 8.

(* binary64 -> binary32 (round to nearest even) and back (exact) *)
Definition to_f32 (x : f64) : spec_float :=
  match x with
  | S754_finite s m e => binary_normalize prec32 emax32 (if s then Z.neg m else Z.pos m) e s
  | _ => x
  end.
Definition of_f32 (x : spec_float) : f64 :=
  match x with
  | S754_finite s m e => binary_normalize prec64 emax64 (if s then Z.neg m else Z.pos m) e s
  | _ => x
  end.

(* bitwise identity used when comparing observations (all NaNs are one value) *)
Definition same_bits (a b : f64) : bool := to_bits a =? to_bits b.
