(* C17 — bytes_eq_spec: goja's arithmetic (MI) and the specification (MS) give the same state, result
   and touched ranges, for every state satisfying the view invariant and every operation inside the
   explicit guard [eq_guard] (which carves out one region whose equality is not proved). *)
From Coq Require Import ZArith List Bool NArith SpecFloat Lia ZifyBool.
From Verif.Base Require Import F64.
From Verif.C17 Require Import Model Proofs ProofsTouch.
Import ListNotations.
Local Open Scope Z_scope.

(* ------------------------------------------------------------------ conversions *)
Lemma rem_mod_pow : forall t k c, 0 < k -> 4294967296 = c * k -> (Z.rem t 4294967296) mod k = t mod k.
Proof.
  intros t k c Hk Hc.
  pose proof (Z.quot_rem' t 4294967296) as E.
  rewrite E at 2. rewrite Hc.
  replace (c * k * (t ÷ (c * k)) + Z.rem t (c * k)) with (Z.rem t (c * k) + (c * (t ÷ (c * k))) * k) by ring.
  rewrite Z.mod_add by lia. reflexivity.
Qed.

Lemma int_of_float_mod : forall f k c, 0 < k -> 4294967296 = c * k ->
  int_of_float MI f mod k = int_of_float MS f mod k.
Proof.
  intros f k c Hk Hc. unfold int_of_float. destruct (trunc_Z f) as [t|]; [|reflexivity].
  destruct (_ && _); [reflexivity|].
  change (2 ^ 32) with 4294967296. eapply rem_mod_pow; eauto.
Qed.

Lemma wrap_u_MI : forall f, wrap_u 8 (int_of_float MI f) = wrap_u 8 (int_of_float MS f) /\
                            wrap_u 16 (int_of_float MI f) = wrap_u 16 (int_of_float MS f) /\
                            wrap_u 32 (int_of_float MI f) = wrap_u 32 (int_of_float MS f).
Proof.
  intros f. unfold wrap_u. repeat split.
  - apply (int_of_float_mod f (2 ^ 8) 16777216); reflexivity.
  - apply (int_of_float_mod f (2 ^ 16) 65536); reflexivity.
  - apply (int_of_float_mod f (2 ^ 32) 1); reflexivity.
Qed.

Lemma wrap_s_MI : forall f, wrap_s 8 (int_of_float MI f) = wrap_s 8 (int_of_float MS f) /\
                            wrap_s 16 (int_of_float MI f) = wrap_s 16 (int_of_float MS f) /\
                            wrap_s 32 (int_of_float MI f) = wrap_s 32 (int_of_float MS f).
Proof.
  intros f. destruct (wrap_u_MI f) as (H8 & H16 & H32). unfold wrap_u in *. unfold wrap_s.
  rewrite H8, H16, H32. auto.
Qed.

Lemma raw_bits_eq : forall k p, raw_bits MI k p = raw_bits MS k p.
Proof.
  intros k p. destruct p as [f|z]; destruct k; simpl; try reflexivity;
    destruct (wrap_u_MI f) as (H8 & H16 & H32); congruence.
Qed.

Lemma to_type_eq : forall k p, to_type MI k p = to_type MS k p.
Proof.
  intros k p. destruct p as [f|z]; destruct k; simpl; try reflexivity;
    destruct (wrap_u_MI f) as (H8 & H16 & H32); destruct (wrap_s_MI f) as (S8 & S16 & S32); congruence.
Qed.

Lemma num_to_raw_eq : forall k le p, num_to_raw MI k le p = num_to_raw MS k le p.
Proof. intros. unfold num_to_raw. rewrite raw_bits_eq. reflexivity. Qed.

(* ------------------------------------------------------------------ element access *)
Definition aligned (vw : view) : Prop := v_off vw mod esize (v_kind vw) = 0.

Lemma get_elt_eq : forall st vw i, aligned vw -> get_elt MI st vw i = get_elt MS st vw i.
Proof. intros. unfold get_elt. rewrite addr_MI_MS by assumption. reflexivity. Qed.
Lemma put_raw_eq : forall st vw i bs, aligned vw -> put_raw MI st vw i bs = put_raw MS st vw i bs.
Proof. intros. unfold put_raw. rewrite addr_MI_MS by assumption. reflexivity. Qed.

Lemma setarr_loop_eq : forall vw src st i acc, aligned vw ->
  setarr_loop MI st vw i src acc = setarr_loop MS st vw i src acc.
Proof.
  intros vw src. induction src as [|a r IH]; intros st i acc Hal; cbn [setarr_loop]; [reflexivity|].
  destruct (co_val st a) as [st1 p]. rewrite num_to_raw_eq.
  destruct (num_to_raw MS (v_kind vw) true p); [|reflexivity].
  rewrite put_raw_eq by assumption.
  destruct (valid_idx st1 vw i); [|apply IH; assumption].
  destruct (put_raw MS st1 vw i l). apply IH; assumption.
Qed.

(* ------------------------------------------------------------------ detaches commute *)
Lemma upd_nth_comm : forall {A} (f : A -> A) i j (l : list A),
  upd_nth i f (upd_nth j f l) = upd_nth j f (upd_nth i f l).
Proof.
  intros A f i j l. revert i j. induction l as [|x r IH]; intros i j; destruct i, j; simpl; auto.
  f_equal. apply IH.
Qed.

Lemma eff_comm : forall st a b, eff (eff st a) b = eff (eff st b) a.
Proof.
  intros st [i|] [j|]; simpl; auto.
  unfold detach, set_bufs. simpl. f_equal. apply upd_nth_comm.
Qed.

(* ------------------------------------------------------------------ the guard *)
Definition eq_guard (st : state) (o : op) : bool :=
  match o with
  | OSetTyped v sv _ =>
      (* different element types: goja copies in place in an order chosen from the addresses, the
         specification copies from a clone of the source; their equality is proved for distinct
         buffers only (the overlapping same-buffer case is covered by the correspondence runs) *)
      match nth_error (views st) v, nth_error (views st) sv with
      | Some dst, Some src => kind_eqb (v_kind src) (v_kind dst) || negb (Nat.eqb (v_buf dst) (v_buf src))
      | _, _ => true
      end
  | _ => true
  end.

(* ------------------------------------------------------------------ distinct buffers: in place = clone *)
Lemma getb_wr_buf_other : forall st b b' i bs, b <> b' -> getb (wr_buf st b i bs) b' = getb st b'.
Proof.
  intros st b b' i bs Hne. unfold getb, wr_buf, set_bufs. simpl.
  revert b b' Hne. induction (bufs st) as [|x r IH]; intros b b' Hne; destruct b, b'; simpl; auto.
  - congruence.
Qed.

Lemma get_elt_agree : forall st st' vw i,
  getb st (v_buf vw) = getb st' (v_buf vw) -> get_elt MS st vw i = get_elt MS st' vw i.
Proof.
  intros st st' vw i H. unfold get_elt, rd_buf, tch, is_det. rewrite H. reflexivity.
Qed.

Lemma copy_inplace_eq : forall dst src toff n lo st0 st acc,
  aligned dst -> aligned src -> v_buf dst <> v_buf src ->
  getb st (v_buf src) = getb st0 (v_buf src) ->
  copy_inplace st dst src toff (seqZ lo n) acc =
  write_all st dst (toff + lo) (read_all st0 src (seqZ lo n)) acc.
Proof.
  intros dst src toff n. induction n as [|n IH]; intros lo st0 st acc Hd Hs Hne Hag; cbn [seqZ copy_inplace read_all write_all].
  - reflexivity.
  - rewrite get_elt_eq by assumption.
    rewrite (get_elt_agree st st0 src lo Hag).
    destruct (get_elt MS st0 src lo) as [e t0].
    rewrite num_to_raw_eq.
    destruct (num_to_raw MS (v_kind dst) true (pv_of_elt e)); [|reflexivity].
    rewrite put_raw_eq by assumption.
    unfold put_raw at 1 2.
    replace (toff + lo + 1) with (toff + (lo + 1)) by lia.
    apply IH; auto.
    rewrite getb_wr_buf_other by assumption. exact Hag.
Qed.

(* ------------------------------------------------------------------ bytes_eq_spec *)
Definition odet (s : option iarg) : option nat := match s with Some x => i_det x | None => None end.
Definition oval (s : option iarg) (d : Z) : Z := match s with Some x => to_integer (i_bits x) | None => d end.
Lemma co_opt_eff : forall st s d, co_opt st s d = (eff st (odet s), oval s d).
Proof. intros st [x|] d; reflexivity. Qed.

Lemma scan_eq : forall st vw eq x idxs, aligned vw -> scan MI st vw eq x idxs = scan MS st vw eq x idxs.
Proof.
  intros st vw eq x idxs Hal. unfold scan. induction idxs as [|i r IH]; cbn [find_idx]; [reflexivity|].
  rewrite get_elt_eq by assumption. rewrite IH. reflexivity.
Qed.

Lemma conv_chunk_eq : forall k e, conv_chunk MI k e = conv_chunk MS k e.
Proof. intros. unfold conv_chunk. rewrite num_to_raw_eq. reflexivity. Qed.

Lemma conv_map_eq : forall st src k idxs, aligned src ->
  map (fun i => conv_chunk MI k (fst (get_elt MI st src i))) idxs =
  map (fun i => conv_chunk MS k (fst (get_elt MS st src i))) idxs.
Proof.
  intros. apply map_ext. intros i. rewrite get_elt_eq by assumption. apply conv_chunk_eq.
Qed.

Lemma fill_tail_eq : forall st vw bs rs re, aligned vw -> fill_tail MI st vw bs rs re = fill_tail MS st vw bs rs re.
Proof. intros. unfold fill_tail. rewrite addr_MI_MS by assumption. reflexivity. Qed.

Theorem bytes_eq_spec : forall st o,
  ViewInv st -> eq_guard st o = true -> step MI st o = step MS st o.
Proof.
  intros st o [Iv Id] G. destruct o; simpl step; try reflexivity.
  - (* get *)
    unfold op_get, with_view. destruct (nth_error (views st) v) as [vw|] eqn:Hv; [|reflexivity].
    destruct (Iv v vw Hv) as (_ & _ & Hal & _).
    destruct k; [|reflexivity]. rewrite get_elt_eq by assumption. reflexivity.
  - (* set *)
    unfold op_set, with_view. destruct (nth_error (views st) v) as [vw|] eqn:Hv; [|reflexivity].
    destruct (Iv v vw Hv) as (_ & _ & Hal & _).
    destruct (co_val st a) as [st1 p]. rewrite num_to_raw_eq.
    destruct (num_to_raw MS (v_kind vw) true p); [|reflexivity].
    destruct k; [|reflexivity]. rewrite put_raw_eq by assumption. reflexivity.
  - (* set(array) *)
    unfold op_setarr, with_view. destruct (nth_error (views st) v) as [vw|] eqn:Hv; [|reflexivity].
    destruct (Iv v vw Hv) as (_ & _ & Hal & _).
    destruct (co_int st off) as [st1 toff]. rewrite setarr_loop_eq by assumption. reflexivity.
  - (* set(typed array) *)
    unfold op_settyped, with_view. cbn [eq_guard] in G. revert G.
    destruct (nth_error (views st) v) as [dst|] eqn:Hv; [|reflexivity].
    destruct (nth_error (views st) src) as [sv|] eqn:Hsv; [|reflexivity]. intros G.
    destruct (Iv v dst Hv) as (_ & _ & Hald & _). destruct (Iv src sv Hsv) as (_ & Hlen & Hals & _).
    destruct (co_int st off) as [st1 toff].
    destruct (toff <? 0); [reflexivity|].
    destruct (is_det st1 (v_buf dst)); [reflexivity|].
    destruct (is_det st1 (v_buf sv)); [reflexivity|].
    destruct (_ >? _); [reflexivity|].
    destruct (negb (Bool.eqb _ _)); [reflexivity|].
    destruct (kind_eqb (v_kind sv) (v_kind dst)) eqn:Ek.
    + rewrite !addr_MI_MS by assumption. reflexivity.
    + try rewrite Ek in G. cbn [orb] in G. apply negb_true_iff in G.
      assert (Hne : v_buf dst <> v_buf sv) by (apply Nat.eqb_neq; exact G).
      unfold goja_order. rewrite G. cbn [negb].
      destruct (v_len sv =? 0) eqn:E0.
      * apply Z.eqb_eq in E0. rewrite E0. reflexivity.
      * rewrite copy_inplace_eq with (st0 := st1); auto.
        replace (toff + 0) with toff by lia. reflexivity.
  - (* copyWithin *)
    unfold op_copywithin, with_view. destruct (nth_error (views st) v) as [vw|] eqn:Hv; [|reflexivity].
    destruct (Iv v vw Hv) as (_ & _ & Hal & _).
    destruct (co_int st t) as [st1 rt]. destruct (co_int st1 f) as [st2 rf]. destruct (co_opt st2 e (v_len vw)) as [st3 re].
    rewrite !addr_MI_MS by assumption. reflexivity.
  - (* fill *)
    unfold op_fill, with_view. destruct (nth_error (views st) v) as [vw|] eqn:Hv; [|reflexivity].
    destruct (Iv v vw Hv) as (_ & _ & Hal & _).
    destruct (co_val st a) as [s1 p]. rewrite num_to_raw_eq.
    destruct (num_to_raw MS (v_kind vw) true p); [|reflexivity].
    destruct (co_opt s1 s 0) as [s2 rs]. destruct (co_opt s2 e (v_len vw)) as [s3 re].
    rewrite fill_tail_eq by assumption. reflexivity.
  - (* slice *)
    unfold op_slice, with_view. destruct (nth_error (views st) v) as [vw|] eqn:Hv; [|reflexivity].
    destruct (Iv v vw Hv) as (_ & _ & Hal & _).
    destruct (co_opt st s 0) as [st1 rs]. destruct (co_opt st1 e (v_len vw)) as [st2 re].
    rewrite !addr_MI_MS by assumption. reflexivity.
  - (* subarray *)
    unfold op_subarray, with_view. destruct (nth_error (views st) v) as [vw|] eqn:Hv; [|reflexivity].
    destruct (Iv v vw Hv) as (_ & _ & Hal & _).
    destruct (co_opt st s 0) as [st1 rs]. destruct (co_opt st1 e (v_len vw)) as [st2 re].
    rewrite !addr_MI_MS by assumption. reflexivity.
  - (* reverse *)
    unfold op_reverse, with_view. destruct (nth_error (views st) v) as [vw|] eqn:Hv; [|reflexivity].
    destruct (Iv v vw Hv) as (_ & _ & Hal & _).
    rewrite !addr_MI_MS by assumption. reflexivity.
  - (* sort *)
    unfold op_sort, with_view. destruct (nth_error (views st) v) as [vw|] eqn:Hv; [|reflexivity].
    destruct (Iv v vw Hv) as (_ & _ & Hal & _).
    rewrite !addr_MI_MS by assumption. reflexivity.
  - (* DataView set *)
    unfold op_dvset. destruct (nth_error (dviews st) d) as [dv|]; [|reflexivity].
    destruct (co_int st i) as [st1 ri]. destruct (to_index ri); [|reflexivity].
    destruct (co_val st1 a) as [st2 p]. rewrite num_to_raw_eq. reflexivity.
  - (* includes *)
    unfold op_search_fwd, with_view. destruct (nth_error (views st) v) as [vw|] eqn:Hv; [|reflexivity].
    destruct (Iv v vw Hv) as (_ & _ & Hal & _).
    destruct (co_opt st from 0) as [st1 n]. rewrite scan_eq by assumption.
    rewrite !addr_MI_MS by assumption. reflexivity.
  - (* indexOf *)
    unfold op_search_fwd, with_view. destruct (nth_error (views st) v) as [vw|] eqn:Hv; [|reflexivity].
    destruct (Iv v vw Hv) as (_ & _ & Hal & _).
    destruct (co_opt st from 0) as [st1 n]. rewrite scan_eq by assumption.
    rewrite !addr_MI_MS by assumption. reflexivity.
  - (* lastIndexOf *)
    unfold op_lastindexof, with_view. destruct (nth_error (views st) v) as [vw|] eqn:Hv; [|reflexivity].
    destruct (Iv v vw Hv) as (_ & _ & Hal & _).
    destruct (co_opt st from (v_len vw - 1)) as [st1 n]. rewrite scan_eq by assumption.
    destruct (scan MS st1 vw strict_eq x _) as [i|]; rewrite !addr_MI_MS by assumption; reflexivity.
  - (* new T(typedArray) *)
    unfold op_ctorfrom, with_view. destruct (nth_error (views st) sv) as [src|] eqn:Hv; [|reflexivity].
    destruct (Iv sv src Hv) as (_ & _ & Hal & _).
    rewrite conv_map_eq by assumption. rewrite !addr_MI_MS by assumption. reflexivity.
  - (* Go export *)
    unfold op_goexport, with_view. destruct (nth_error (views st) v) as [vw|] eqn:Hv; [|reflexivity].
    destruct (Iv v vw Hv) as (_ & _ & Hal & _).
    rewrite !addr_MI_MS by assumption. reflexivity.
  - (* write through the exported slice *)
    unfold op_goexportwrite, with_view. destruct (nth_error (views st) v) as [vw|] eqn:Hv; [|reflexivity].
    destruct (Iv v vw Hv) as (_ & _ & Hal & _).
    rewrite put_raw_eq by assumption. reflexivity.
Qed.

(* the guard only excludes set(typedArray) between different kinds on one buffer *)
Definition st_ov : state := mkSt [mkBuf b16 false; mkBuf b16 false] [mkView 0 0 4 Int16; mkView 0 2 4 Uint8; mkView 1 0 4 Uint8] [].
Example guard_examples :
  eq_guard st_ov (OSetTyped 0 1 (num 0 None)) = false /\ eq_guard st_ov (OSetTyped 0 2 (num 0 None)) = true /\
  eq_guard st_ov (OSetTyped 1 2 (num 0 None)) = true /\ eq_guard st_n8 (OFill 0 (vnum 1 None) (Some (num 0 (Some 0%nat))) None) = true /\
  (* outside the guard the bytes still agree on this instance; the ORDER of the touches differs *)
  fst (fst (step MI st_ov (OSetTyped 0 1 (num 0 None)))) = fst (fst (step MS st_ov (OSetTyped 0 1 (num 0 None)))) /\
  step MI st_ov (OSetTyped 0 1 (num 0 None)) <> step MS st_ov (OSetTyped 0 1 (num 0 None)).
Proof. vm_compute. repeat split; try reflexivity. discriminate. Qed.
