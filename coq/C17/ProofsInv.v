(* C17 — the view invariant holds initially and is preserved by every operation of both readings,
   so that touched_in_view / bytes_eq_spec apply along every history. *)
From Coq Require Import ZArith List Bool NArith SpecFloat Lia ZifyBool.
From Verif.Base Require Import F64.
From Verif.C17 Require Import Model Proofs ProofsTouch.
Import ListNotations.
Local Open Scope Z_scope.

(* st' extends st: same views, no buffer memory shrank *)
Definition ext (st st' : state) : Prop :=
  (forall b, mlen st b <= mlen st' b) /\ views st' = views st /\ dviews st' = dviews st.

Lemma ext_refl : forall st, ext st st.
Proof. intros. repeat split; auto. intros; lia. Qed.
Lemma ext_trans : forall a b c, ext a b -> ext b c -> ext a c.
Proof.
  intros a b c (H1 & H2 & H3) (H4 & H5 & H6). repeat split; try congruence.
  intros x. specialize (H1 x). specialize (H4 x). lia.
Qed.

Lemma wr_nat_length : forall l i bs, length (wr_nat l i bs) = length l.
Proof.
  induction l as [|x r IH]; intros i bs; simpl; auto.
  destruct i; simpl; [|rewrite IH; reflexivity].
  destruct bs; simpl; auto.
Qed.
Lemma wr_length : forall l i bs, length (wr l i bs) = length l.
Proof. intros. unfold wr. destruct (i <? 0); auto using wr_nat_length. Qed.

Lemma mlen_wr_buf : forall st b i bs b', mlen (wr_buf st b i bs) b' = mlen st b'.
Proof.
  intros. unfold mlen, getb, wr_buf, set_bufs. simpl.
  revert b b'. induction (bufs st) as [|x r IH]; intros b b'; destruct b, b'; simpl; auto.
  unfold blen. simpl. rewrite wr_length. reflexivity.
Qed.

Lemma ext_wr_r : forall st s b i bs, ext st s -> ext st (wr_buf s b i bs).
Proof.
  intros st s b i bs H. eapply ext_trans; [exact H|].
  repeat split; auto. intros x. rewrite mlen_wr_buf. lia.
Qed.
Lemma ext_eff_r : forall st s d, ext st s -> ext st (eff s d).
Proof.
  intros st s d H. eapply ext_trans; [exact H|].
  repeat split; try (destruct d; reflexivity). intros x. rewrite mlen_eff. lia.
Qed.
Lemma ext_detach_r : forall st s b, ext st s -> ext st (detach s b).
Proof. intros st s b H. apply (ext_eff_r st s (Some b) H). Qed.

Lemma view_ok_ext : forall st st' vw, ext st st' -> view_ok st vw -> view_ok st' vw.
Proof.
  intros st st' vw (Hm & _ & _) (H1 & H2 & H3 & H4). repeat split; auto.
  specialize (Hm (v_buf vw)). lia.
Qed.
Lemma dview_ok_ext : forall st st' dv, ext st st' -> dview_ok st dv -> dview_ok st' dv.
Proof.
  intros st st' dv (Hm & _ & _) (H1 & H2 & H3). repeat split; auto.
  specialize (Hm (d_buf dv)). lia.
Qed.

Lemma inv_ext : forall st st', ext st st' -> ViewInv st -> ViewInv st'.
Proof.
  intros st st' E [Iv Id]. pose proof E as (Hm & Hv & Hd). split.
  - intros v vw H. rewrite Hv in H. eauto using view_ok_ext.
  - intros d dv H. rewrite Hd in H. eauto using dview_ok_ext.
Qed.

Lemma inv_add_view : forall st vw, ViewInv st -> view_ok st vw -> ViewInv (add_view st vw).
Proof.
  intros st vw [Iv Id] Hok. split.
  - intros v x H. unfold add_view in H. simpl in H.
    assert (E : view_ok st x).
    { destruct (Nat.lt_ge_cases v (length (views st))) as [Hlt|Hge].
      - rewrite nth_error_app1 in H by assumption. eauto.
      - rewrite nth_error_app2 in H by assumption.
        destruct (v - length (views st))%nat; simpl in H; [inversion H; subst; assumption|].
        destruct n; discriminate H. }
    exact E.
  - intros d dv H. apply (Id d dv H).
Qed.

Lemma inv_add_dview : forall st dv, ViewInv st -> dview_ok st dv -> ViewInv (add_dview st dv).
Proof.
  intros st dv [Iv Id] Hok. split.
  - intros v x H. apply (Iv v x H).
  - intros d x H. unfold add_dview in H. simpl in H.
    destruct (Nat.lt_ge_cases d (length (dviews st))) as [Hlt|Hge].
    + rewrite nth_error_app1 in H by assumption. eauto.
    + rewrite nth_error_app2 in H by assumption.
      destruct (d - length (dviews st))%nat; simpl in H; [inversion H; subst; assumption|].
      destruct n; discriminate H.
Qed.

(* appending a buffer *)
Definition add_buf (st : state) (x : buffer) : state := mkSt (bufs st ++ [x]) (views st) (dviews st).
Lemma ext_add_buf : forall st x, ext st (add_buf st x).
Proof.
  intros st x. repeat split; auto. intros b. unfold mlen, getb, add_buf. simpl.
  destruct (Nat.lt_ge_cases b (length (bufs st))) as [Hlt|Hge].
  - rewrite nth_error_app1 by assumption. lia.
  - assert (nth_error (bufs st) b = None) by (apply nth_error_None; assumption). rewrite H.
    destruct (nth_error (bufs st ++ [x]) b); unfold blen; lia.
Qed.
Lemma mlen_add_buf_new : forall st x, mlen (add_buf st x) (length (bufs st)) = blen x.
Proof.
  intros. unfold mlen, getb, add_buf. simpl. rewrite nth_error_app2 by lia.
  rewrite Nat.sub_diag. reflexivity.
Qed.

(* ------------------------------------------------------------------ the loops only write *)
Lemma setarr_loop_ext : forall m st0 vw src st i acc,
  ext st0 st -> ext st0 (fst (fst (setarr_loop m st vw i src acc))).
Proof.
  intros m st0 vw src. induction src as [|a r IH]; intros st i acc H; cbn [setarr_loop]; [exact H|].
  unfold co_val. cbv iota beta.
  destruct (num_to_raw _ _ _ _); [|apply ext_eff_r; exact H].
  destruct (valid_idx _ _ _).
  - unfold put_raw. apply IH. apply ext_wr_r, ext_eff_r, H.
  - apply IH. apply ext_eff_r, H.
Qed.

Lemma write_all_ext : forall st0 vw es st i acc,
  ext st0 st -> ext st0 (fst (fst (write_all st vw i es acc))).
Proof.
  intros st0 vw es. induction es as [|[e t0] r IH]; intros st i acc H; cbn [write_all]; [exact H|].
  destruct (num_to_raw _ _ _ _); [|exact H].
  unfold put_raw. apply IH. apply ext_wr_r, H.
Qed.

Lemma copy_inplace_ext : forall st0 dst src toff idxs st acc,
  ext st0 st -> ext st0 (fst (fst (copy_inplace st dst src toff idxs acc))).
Proof.
  intros st0 dst src toff idxs. induction idxs as [|i r IH]; intros st acc H; cbn [copy_inplace]; [exact H|].
  unfold get_elt. destruct (num_to_raw _ _ _ _); [|exact H].
  unfold put_raw. apply IH. apply ext_wr_r, H.
Qed.

(* ------------------------------------------------------------------ operations that create nothing *)
Ltac brk :=
  cbv beta iota;
  repeat (match goal with
          | |- context [match ?e with _ => _ end] =>
              lazymatch e with
              | context [match _ with _ => _ end] => fail
              | _ => destruct e eqn:?
              end
          end; cbv beta iota).
Ltac ext_solve :=
  cbn [fst]; repeat first [apply ext_refl | apply ext_wr_r | apply ext_eff_r | apply ext_detach_r].

Lemma rd_length : forall l i n, 0 <= i -> 0 <= n -> i + n <= Z.of_nat (length l) -> Z.of_nat (length (rd l i n)) = n.
Proof.
  intros l i n Hi Hn H. unfold rd. rewrite firstn_length, skipn_length. lia.
Qed.

Section Step.
Variable m : mode.
Variable st : state.
Hypothesis Inv : ViewInv st.

Lemma ext_simple : forall o,
  match o with
  | OCtor _ _ _ _ | ODvCtor _ _ _ | OSlice _ _ _ | OSubarray _ _ _ | OBufSlice _ _ _ | OCtorFrom _ _ => True
  | _ => ext st (fst (fst (step m st o)))
  end.
Proof.
  destruct o; auto; simpl step.
  - unfold op_get, with_view, fail, get_elt. brk; ext_solve.
  - unfold op_set, with_view, fail, put_raw, co_val. brk; ext_solve.
  - unfold op_setarr, with_view, fail, co_int. destruct (nth_error (views st) v); [|ext_solve].
    cbv iota beta. destruct (_ <? 0); [ext_solve|]. destruct (is_det _ _); [ext_solve|]. destruct (_ >? _); [ext_solve|].
    apply setarr_loop_ext. ext_solve.
  - unfold op_settyped, with_view, fail, co_int. destruct (nth_error (views st) v) as [dst|]; [|ext_solve].
    destruct (nth_error (views st) src) as [sv|]; [|ext_solve]. cbv iota beta.
    destruct (_ <? 0); [ext_solve|]. destruct (is_det _ (v_buf dst)); [ext_solve|]. destruct (is_det _ (v_buf sv)); [ext_solve|].
    destruct (_ >? _); [ext_solve|]. destruct (negb _); [ext_solve|].
    destruct (kind_eqb _ _); [ext_solve|].
    destruct m.
    + apply write_all_ext. ext_solve.
    + destruct (_ =? 0); [ext_solve|]. apply copy_inplace_ext. ext_solve.
  - unfold op_copywithin, with_view, fail, co_int, co_opt, co_int. brk; ext_solve.
  - unfold op_fill, with_view, fail, fill_tail, co_val, co_opt, co_int. brk; ext_solve.
  - unfold op_reverse, with_view, fail. brk; ext_solve.
  - unfold op_sort, with_view, fail. brk; ext_solve.
  - unfold op_dvget, fail, co_int. brk; ext_solve.
  - unfold op_dvset, fail, co_int, co_val. brk; ext_solve.
  - ext_solve.
  - ext_solve.
  - unfold op_lens, with_view, fail. brk; ext_solve.
  - unfold op_search_fwd, with_view, fail, co_opt, co_int. brk; ext_solve.
  - unfold op_search_fwd, with_view, fail, co_opt, co_int. brk; ext_solve.
  - unfold op_lastindexof, with_view, fail, co_opt, co_int. brk; ext_solve.
  - unfold op_goexport, with_view, fail. brk; ext_solve.
  - unfold op_goexportwrite, with_view, fail, put_raw. brk; ext_solve.
Qed.

Lemma jlen_nonneg : forall s0 b, 0 <= jlen s0 b.
Proof. intros. unfold jlen. destruct (getb s0 b) as [x|]; [|lia]. destruct (b_det x); unfold blen; lia. Qed.

Lemma to_index_nonneg : forall z i, to_index z = Some i -> 0 <= i.
Proof. unfold to_index. intros z i. destruct (_ && _) eqn:E; intros H; inversion H; subst. lia. Qed.

Lemma ctor_inv : forall k b off len, ViewInv (fst (fst (op_ctor st k b off len))).
Proof.
  intros k b off len. unfold op_ctor, fail.
  assert (E1 : ext st (fst (co_opt st off 0))).
  { destruct off; simpl; [apply ext_eff_r|]; apply ext_refl. }
  destruct (co_opt st off 0) as [st1 o]. simpl in E1.
  destruct (to_index o) as [offset|] eqn:Ho; [|eauto using inv_ext].
  apply to_index_nonneg in Ho.
  destruct (negb (offset mod esize k =? 0)) eqn:Hal; [eauto using inv_ext|].
  pose proof (esize_pos k) as Hp.
  destruct len as [la|].
  - assert (E2 : ext st (fst (co_int st1 la))) by (simpl; apply ext_eff_r; exact E1).
    destruct (co_int st1 la) as [st2 l]. simpl in E2.
    destruct (to_index l) as [n|] eqn:Hn; [|eauto using inv_ext]. apply to_index_nonneg in Hn.
    destruct (is_det st2 b); [eauto using inv_ext|].
    destruct (_ >? _) eqn:Hr; [eauto using inv_ext|].
    cbn [fst]. apply inv_add_view; [eauto using inv_ext|].
    pose proof (jlen_le_mlen st2 b). unfold view_ok. simpl. repeat split; try lia.
  - destruct (is_det st1 b); [eauto using inv_ext|].
    destruct (negb (jlen st1 b mod esize k =? 0)); [eauto using inv_ext|].
    destruct (_ <? 0) eqn:Hlt; [eauto using inv_ext|].
    cbn [fst]. apply inv_add_view; [eauto using inv_ext|].
    pose proof (jlen_le_mlen st1 b). unfold view_ok. simpl.
    assert (Hx : 0 <= jlen st1 b - offset) by lia.
    pose proof (Z.mul_div_le (jlen st1 b - offset) (esize k) Hp).
    pose proof (Z.div_pos (jlen st1 b - offset) (esize k) Hx Hp).
    repeat split; try lia.
Qed.

Lemma dvctor_inv : forall b off len, ViewInv (fst (fst (op_dvctor st b off len))).
Proof.
  intros b off len. unfold op_dvctor, fail.
  assert (E1 : ext st (fst (co_opt st off 0))).
  { destruct off; simpl; [apply ext_eff_r|]; apply ext_refl. }
  destruct (co_opt st off 0) as [st1 o]. simpl in E1.
  destruct (to_index o) as [offset|] eqn:Ho; [|eauto using inv_ext].
  apply to_index_nonneg in Ho.
  destruct (is_det st1 b); [eauto using inv_ext|].
  destruct (offset >? jlen st1 b) eqn:Hr; [eauto using inv_ext|].
  pose proof (jlen_le_mlen st1 b).
  destruct len as [la|].
  - assert (E2 : ext st1 (fst (co_int st1 la))) by (simpl; apply ext_eff_r, ext_refl).
    destruct (co_int st1 la) as [st2 l]. simpl in E2.
    destruct (to_index l) as [n|] eqn:Hn; [|eauto using inv_ext, ext_trans]. apply to_index_nonneg in Hn.
    destruct (offset + n >? jlen st1 b) eqn:Hr2; [eauto using inv_ext, ext_trans|].
    destruct (is_det st2 b); [eauto using inv_ext, ext_trans|].
    cbn [fst]. apply inv_add_dview; [eauto using inv_ext, ext_trans|].
    destruct E2 as (Hm & _ & _). specialize (Hm b).
    unfold dview_ok. simpl. repeat split; lia.
  - cbn [fst]. apply inv_add_dview; [eauto using inv_ext|].
    unfold dview_ok. simpl. repeat split; lia.
Qed.

Lemma co_opt_ext : forall s0 a d, ext s0 (fst (co_opt s0 a d)).
Proof. intros s0 [a|] d; simpl; [apply ext_eff_r|]; apply ext_refl. Qed.

Lemma subarray_inv : forall v s e, ViewInv (fst (fst (op_subarray m st v s e))).
Proof.
  intros v s e. unfold op_subarray, with_view, fail.
  destruct (nth_error (views st) v) as [vw|] eqn:Hv; [|exact Inv].
  pose proof (proj1 Inv v vw Hv) as Hok.
  pose proof (co_opt_ext st s 0) as E1. destruct (co_opt st s 0) as [st1 rs]. simpl in E1.
  pose proof (co_opt_ext st1 e (v_len vw)) as E2. destruct (co_opt st1 e (v_len vw)) as [st2 re]. simpl in E2.
  assert (E : ext st st2) by eauto using ext_trans.
  destruct (is_det st2 (v_buf vw)); [eauto using inv_ext|].
  destruct (_ >? _) eqn:Hr; [eauto using inv_ext|].
  cbn [fst]. apply inv_add_view; [eauto using inv_ext|].
  destruct Hok as (Ho & Hl & Hal & Hb).
  pose proof (rel_idx_range rs _ Hl). pose proof (rel_idx_range re _ Hl).
  pose proof (esize_pos (v_kind vw)) as Hp.
  pose proof (jlen_le_mlen st2 (v_buf vw)).
  rewrite (addr_val m st vw _ (conj Ho (conj Hl (conj Hal Hb)))) in *.
  unfold view_ok. simpl.
  assert (Ha : 0 <= rel_idx rs (v_len vw) * esize (v_kind vw)) by nia.
  assert (Hc : 0 <= Z.max (rel_idx re (v_len vw) - rel_idx rs (v_len vw)) 0 * esize (v_kind vw)) by nia.
  split; [lia|]. split; [lia|]. split.
  - rewrite Z.mod_add by lia. exact Hal.
  - set (a := rel_idx rs (v_len vw) * esize (v_kind vw)) in *.
    set (c := Z.max (rel_idx re (v_len vw) - rel_idx rs (v_len vw)) 0 * esize (v_kind vw)) in *.
    apply Z.gtb_ltb in Hr || idtac. lia.
Qed.

Lemma mlen_getb : forall s0 b, mlen s0 b = match getb s0 b with Some x => Z.of_nat (length (b_bytes x)) | None => 0 end.
Proof. reflexivity. Qed.

Lemma slice_inv : forall v s e, ViewInv (fst (fst (op_slice m st v s e))).
Proof.
  intros v s e. unfold op_slice, with_view, fail.
  destruct (nth_error (views st) v) as [vw|] eqn:Hv; [|exact Inv].
  pose proof (proj1 Inv v vw Hv) as Hok.
  destruct (is_det st (v_buf vw)); [exact Inv|].
  pose proof (co_opt_ext st s 0) as E1. destruct (co_opt st s 0) as [st1 rs]. simpl in E1.
  pose proof (co_opt_ext st1 e (v_len vw)) as E2. destruct (co_opt st1 e (v_len vw)) as [st2 re]. simpl in E2.
  assert (E : ext st st2) by eauto using ext_trans.
  pose proof (inv_ext _ _ E Inv) as Inv2.
  destruct (_ >? 0) eqn:Hc.
  - destruct (is_det st2 (v_buf vw)); [exact Inv2|].
    cbn [fst].
    set (bs := rd_buf st2 (v_buf vw) _ _).
    change (mkSt (bufs st2 ++ [mkBuf bs false]) (views st2 ++ [mkView (length (bufs st2)) 0 (Z.max (rel_idx re (v_len vw) - rel_idx rs (v_len vw)) 0) (v_kind vw)]) (dviews st2))
      with (add_view (add_buf st2 (mkBuf bs false)) (mkView (length (bufs st2)) 0 (Z.max (rel_idx re (v_len vw) - rel_idx rs (v_len vw)) 0) (v_kind vw))).
    apply inv_add_view; [eapply inv_ext; [apply ext_add_buf|exact Inv2]|].
    unfold view_ok. cbn [v_off v_len v_kind v_buf]. rewrite mlen_add_buf_new. unfold blen. cbn [b_bytes].
    pose proof (esize_pos (v_kind vw)) as Hp.
    destruct Hok as (Ho & Hl & Hal & Hb).
    pose proof (rel_idx_range rs _ Hl). pose proof (rel_idx_range re _ Hl).
    assert (Hlen : Z.of_nat (length bs) = Z.max (rel_idx re (v_len vw) - rel_idx rs (v_len vw)) 0 * esize (v_kind vw)).
    { unfold bs, rd_buf. destruct E as (Hm & _ & _). specialize (Hm (v_buf vw)).
      rewrite (addr_val m st vw _ (conj Ho (conj Hl (conj Hal Hb)))).
      set (r := rel_idx rs (v_len vw)) in *. set (f := rel_idx re (v_len vw)) in *.
      assert (Hc0 : 0 <= Z.max (f - r) 0) by lia.
      assert (Hc1 : r + Z.max (f - r) 0 <= v_len vw) by lia.
      set (c := Z.max (f - r) 0) in *.
      assert (Hrc : (r + c) * esize (v_kind vw) <= v_len vw * esize (v_kind vw)) by nia.
      assert (Hr0 : 0 <= r * esize (v_kind vw)) by nia.
      assert (Hcc : 0 <= c * esize (v_kind vw)) by nia.
      destruct (getb st2 (v_buf vw)) as [x|] eqn:Eg.
      - assert (mlen st2 (v_buf vw) = Z.of_nat (length (b_bytes x))) by (unfold mlen; rewrite Eg; reflexivity).
        apply rd_length; lia.
      - assert (mlen st2 (v_buf vw) = 0) by (unfold mlen; rewrite Eg; reflexivity).
        assert (v_len vw * esize (v_kind vw) <= 0) by lia.
        assert (v_len vw = 0) by nia. lia. }
    repeat split; try lia.
  - cbn [fst].
    change (mkSt (bufs st2 ++ [mkBuf [] false]) (views st2 ++ [mkView (length (bufs st2)) 0 0 (v_kind vw)]) (dviews st2))
      with (add_view (add_buf st2 (mkBuf [] false)) (mkView (length (bufs st2)) 0 0 (v_kind vw))).
    apply inv_add_view; [eapply inv_ext; [apply ext_add_buf|exact Inv2]|].
    unfold view_ok. cbn [v_off v_len v_kind v_buf]. rewrite mlen_add_buf_new. unfold blen. simpl.
    pose proof (esize_pos (v_kind vw)). repeat split; try lia.
Qed.

Lemma bufslice_inv : forall b s e, ViewInv (fst (fst (op_bufslice st b s e))).
Proof.
  intros b s e. unfold op_bufslice, fail.
  destruct (is_det st b); [exact Inv|].
  pose proof (co_opt_ext st s 0) as E1. destruct (co_opt st s 0) as [st1 rs]. simpl in E1.
  pose proof (co_opt_ext st1 e (jlen st b)) as E2. destruct (co_opt st1 e (jlen st b)) as [st2 re]. simpl in E2.
  assert (E : ext st st2) by eauto using ext_trans.
  destruct (is_det st2 b); [eauto using inv_ext|].
  cbn [fst]. eapply inv_ext; [|exact Inv].
  eapply ext_trans; [exact E|]. apply (ext_add_buf st2).
Qed.

Lemma le_bytes_length : forall n z, length (le_bytes n z) = n.
Proof. induction n; intros; simpl; auto. Qed.

Lemma conv_chunk_length : forall k e, length (conv_chunk m k e) = nbytes k.
Proof.
  intros k e. unfold conv_chunk, num_to_raw.
  destruct (raw_bits m k (pv_of_elt e)); simpl.
  - unfold order. destruct true; rewrite ?rev_length; apply le_bytes_length.
  - apply repeat_length.
Qed.

Lemma concat_chunks_length : forall k (f : Z -> elt) idxs,
  Z.of_nat (length (concat (map (fun i => conv_chunk m k (f i)) idxs))) = Z.of_nat (length idxs) * esize k.
Proof.
  intros k f idxs. induction idxs as [|i r IH]; cbn [map concat length]; [reflexivity|].
  rewrite app_length, conv_chunk_length. unfold nbytes. pose proof (esize_pos k).
  rewrite Nat2Z.inj_add, Nat2Z.inj_succ, IH, Z2Nat.id by lia. ring.
Qed.

Lemma seqZ_length : forall n lo, length (seqZ lo n) = n.
Proof. induction n; intros; simpl; auto. Qed.

Lemma kind_eqb_eq : forall a b, kind_eqb a b = true -> a = b.
Proof. destruct a, b; simpl; intros H; try discriminate H; reflexivity. Qed.

Lemma ctorfrom_inv : forall k sv, ViewInv (fst (fst (op_ctorfrom m st k sv))).
Proof.
  intros k sv. unfold op_ctorfrom, with_view, fail.
  destruct (nth_error (views st) sv) as [src|] eqn:Hv; [|exact Inv].
  pose proof (proj1 Inv sv src Hv) as Hok.
  destruct (is_det st (v_buf src)); [exact Inv|].
  destruct (negb _); [exact Inv|].
  cbn [fst].
  set (bs := if kind_eqb (v_kind src) k then _ else _).
  change (mkSt (bufs st ++ [mkBuf bs false]) (views st ++ [mkView (length (bufs st)) 0 (v_len src) k]) (dviews st))
    with (add_view (add_buf st (mkBuf bs false)) (mkView (length (bufs st)) 0 (v_len src) k)).
  apply inv_add_view; [eapply inv_ext; [apply ext_add_buf|exact Inv]|].
  unfold view_ok. cbn [v_off v_len v_kind v_buf]. rewrite mlen_add_buf_new. unfold blen. cbn [b_bytes].
  destruct Hok as (Ho & Hl & Hal & Hb).
  pose proof (esize_pos k) as Hp.
  assert (Hlen : Z.of_nat (length bs) = v_len src * esize k).
  { unfold bs. destruct (kind_eqb (v_kind src) k) eqn:Ek.
    - apply kind_eqb_eq in Ek. subst k.
      unfold rd_buf. rewrite (addr_val m st src _ (conj Ho (conj Hl (conj Hal Hb)))).
      rewrite mlen_getb in Hb.
      assert (0 <= v_len src * esize (v_kind src)) by nia.
      destruct (getb st (v_buf src)) as [x|].
      + apply rd_length; lia.
      + assert (v_len src = 0) by nia. simpl. nia.
    - rewrite concat_chunks_length, seqZ_length. lia. }
  repeat split; try lia.
Qed.

Theorem inv_step_here : forall o, ViewInv (fst (fst (step m st o))).
Proof.
  intros o. pose proof (ext_simple o) as H.
  destruct o; try (eapply inv_ext; [exact H|exact Inv]); simpl step.
  - apply ctor_inv.
  - apply dvctor_inv.
  - apply slice_inv.
  - apply subarray_inv.
  - apply bufslice_inv.
  - apply ctorfrom_inv.
Qed.

End Step.

(* ------------------------------------------------------------------ along histories *)
Theorem inv_step : forall m st o, ViewInv st -> ViewInv (fst (fst (step m st o))).
Proof. intros. apply inv_step_here. assumption. Qed.

Definition no_views (st : state) : Prop := views st = [] /\ dviews st = [].
Theorem inv_init : forall st, no_views st -> ViewInv st.
Proof.
  intros st [Hv Hd]. split; intros i x H; [rewrite Hv in H|rewrite Hd in H]; destruct i; discriminate H.
Qed.

Fixpoint run (m : mode) (st : state) (ops : list op) : state :=
  match ops with [] => st | o :: r => run m (fst (fst (step m st o))) r end.

Theorem inv_run : forall m ops st, ViewInv st -> ViewInv (run m st ops).
Proof. intros m ops. induction ops as [|o r IH]; intros st H; simpl; auto using inv_step. Qed.

(* hence: along every history from a state without views, every touched range of every step is
   inside its view and live (touched_in_view), for both readings *)
Theorem touched_in_view_history : forall m st ops o,
  no_views st ->
  Forall (fun t => touch_ok (allowed (run m st ops) o) t = true) (snd (step m (run m st ops) o)).
Proof. intros. apply touched_in_view. apply inv_run. apply inv_init. assumption. Qed.
