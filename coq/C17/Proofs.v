(* C17 — lemmas about the model of Model.v *)
From Coq Require Import ZArith List Bool NArith SpecFloat Lia.
From Verif.Base Require Import F64.
From Verif.C17 Require Import Model.
Import ListNotations.
Local Open Scope Z_scope.

(* ------------------------------------------------------------------ example states used by Properties *)
Definition b16 : list N := map N.of_nat (seq 16 16).
Definition num (z : Z) (d : option nat) : iarg := mkI (to_bits (of_Z z)) d.
Definition vnum (z : Z) (d : option nat) : varg := mkV false (to_bits (of_Z z)) d.

Definition st_n8 : state := mkSt [mkBuf b16 false] [mkView 0 0 2 BigInt64] [].

(* ------------------------------------------------------------------ little-endian codec *)
Lemma le_val_le_bytes : forall n z, le_val (le_bytes n z) = z mod 2 ^ (8 * Z.of_nat n).
Proof.
  induction n; intros z.
  - simpl. rewrite Z.mod_1_r. reflexivity.
  - cbn [le_bytes le_val]. rewrite IHn.
    rewrite Z2N.id by (apply Z.mod_pos_bound; lia).
    replace (8 * Z.of_nat (S n)) with (8 + 8 * Z.of_nat n) by lia.
    rewrite Z.pow_add_r by lia.
    change (2 ^ 8) with 256.
    rewrite Z.rem_mul_r by (try lia; apply Z.pow_pos_nonneg; lia).
    reflexivity.
Qed.

Lemma order_order : forall le l, order le (order le l) = l.
Proof. intros [] l; simpl; auto using rev_involutive. Qed.

Lemma wrap_s_mod8 : forall x, wrap_s 8 (x mod 2 ^ 8) = wrap_s 8 x.
Proof. intros. unfold wrap_s. rewrite Z.mod_mod by (compute; discriminate). reflexivity. Qed.
Lemma wrap_s_mod16 : forall x, wrap_s 16 (x mod 2 ^ 16) = wrap_s 16 x.
Proof. intros. unfold wrap_s. rewrite Z.mod_mod by (compute; discriminate). reflexivity. Qed.
Lemma wrap_s_mod32 : forall x, wrap_s 32 (x mod 2 ^ 32) = wrap_s 32 x.
Proof. intros. unfold wrap_s. rewrite Z.mod_mod by (compute; discriminate). reflexivity. Qed.
Lemma wrap_s_mod64 : forall x, wrap_s 64 (x mod 2 ^ 64) = wrap_s 64 x.
Proof. intros. unfold wrap_s. rewrite Z.mod_mod by (compute; discriminate). reflexivity. Qed.

(* ToUint8Clamp stays in 0..255 *)
Lemma clamp8_range : forall f, 0 <= clamp8 f <= 255.
Proof.
  intros f. destruct f as [s| s | | s m e]; unfold clamp8; try lia.
  - destruct s; lia.
  - destruct s; try lia.
    destruct (0 <=? e) eqn:He.
    + apply Z.leb_le in He. assert (0 < 2 ^ e) by (apply Z.pow_pos_nonneg; lia).
      assert (0 < Z.pos m * 2 ^ e) by (apply Z.mul_pos_pos; lia). lia.
    + apply Z.leb_gt in He. assert (Hd : 0 < 2 ^ (- e)) by (apply Z.pow_pos_nonneg; lia).
      pose proof (Z.div_pos (Z.pos m) (2 ^ (- e)) ltac:(lia) Hd).
      destruct (255 <=? Z.pos m / 2 ^ (- e)) eqn:Hq; try lia.
      apply Z.leb_gt in Hq.
      destruct (2 * (Z.pos m mod 2 ^ (- e)) ?= 2 ^ (- e)); try lia.
      destruct (Z.even (Z.pos m / 2 ^ (- e))); lia.
Qed.

(* round half to even, stated exactly on the dyadic m * 2^e with e < 0 (d = 2^-e):
   the result r satisfies |r*d - m| <= d/2 when the value is below 255, and is even on a tie *)
Lemma clamp8_nearest_even : forall m e,
  e < 0 -> Z.pos m / 2 ^ (- e) < 255 ->
  let d := 2 ^ (- e) in
  let r := clamp8 (S754_finite false m e) in
  2 * Z.abs (r * d - Z.pos m) <= d /\
  (2 * Z.abs (r * d - Z.pos m) = d -> Z.even r = true).
Proof.
  intros m e He Hq d r. subst r. unfold clamp8.
  destruct (0 <=? e) eqn:H0; [apply Z.leb_le in H0; lia|].
  fold d.
  assert (Hd : 0 < d) by (apply Z.pow_pos_nonneg; lia).
  destruct (255 <=? Z.pos m / d) eqn:H255; [apply Z.leb_le in H255; unfold d in *; lia|].
  pose proof (Z.div_mod (Z.pos m) d ltac:(lia)) as Hdm.
  pose proof (Z.mod_pos_bound (Z.pos m) d Hd) as Hr.
  set (q := Z.pos m / d) in *. set (rr := Z.pos m mod d) in *.
  assert (E0 : q * d - Z.pos m = - rr) by lia.
  assert (E1 : (q + 1) * d - Z.pos m = d - rr) by lia.
  destruct (Z.compare_spec (2 * rr) d) as [Hc|Hc|Hc].
  - idtac.
    destruct (Z.even q) eqn:Hev.
    + rewrite E0. split; [lia|]. intros _. exact Hev.
    + rewrite E1. split; [lia|]. intros _. rewrite Z.even_add. rewrite Hev. reflexivity.
  - rewrite E0. split; [lia|]. intros Ht. lia.
  - rewrite E1. split; [lia|]. intros Ht. lia.
Qed.

(* integers and out-of-range values *)
Lemma clamp8_int : forall m e, 0 <= e -> clamp8 (S754_finite false m e) = Z.min 255 (Z.pos m * 2 ^ e).
Proof. intros. unfold clamp8. destruct (0 <=? e) eqn:H0; auto. apply Z.leb_gt in H0. lia. Qed.
Lemma clamp8_neg : forall m e, clamp8 (S754_finite true m e) = 0.
Proof. reflexivity. Qed.

(* ------------------------------------------------------------------ touched ranges *)
Lemma touch_ok_empty : forall al t, t_n t <= 0 -> touch_ok al t = true.
Proof. intros. unfold touch_ok. apply Z.leb_le in H. rewrite H. reflexivity. Qed.

Lemma touch_ok_in : forall al b lo hi t,
  In (b, lo, hi) al -> t_buf t = b -> t_live t = true -> lo <= t_lo t -> t_lo t + t_n t <= hi ->
  touch_ok al t = true.
Proof.
  intros al b lo hi t Hin Hb Hl H1 H2. unfold touch_ok. rewrite Hl. simpl.
  apply orb_true_iff. right. apply existsb_exists. exists (b, lo, hi). split; auto.
  rewrite Hb, Nat.eqb_refl. simpl.
  apply andb_true_iff. split; apply Z.leb_le; auto.
Qed.

Lemma esize_pos : forall k, 0 < esize k.
Proof. destruct k; simpl; lia. Qed.

Lemma is_det_wr_buf : forall st b i bs b', is_det (wr_buf st b i bs) b' = is_det st b'.
Proof.
  intros. unfold is_det, getb, wr_buf, set_bufs. simpl.
  revert b b'. induction (bufs st) as [|x r IH]; intros b b'; simpl.
  - destruct b; reflexivity.
  - destruct b, b'; simpl; auto.
Qed.

(* ------------------------------------------------------------------ RawBytesToNumeric o NumericToRawBytes *)
Definition is_float_kind (k : kind) : bool := match k with Float32 | Float64 => true | _ => false end.

Lemma uclamp_mod : forall f, clamp8 f mod 2 ^ 8 = clamp8 f.
Proof. intros. apply Z.mod_small. pose proof (clamp8_range f). change (2 ^ 8) with 256. lia. Qed.

(* a value of the wrong type is rejected by both, consistently *)
Lemma raw_none_iff : forall m k le p, num_to_raw m k le p = None <-> to_type m k p = None.
Proof. intros m k le p. unfold num_to_raw. destruct k, p; simpl; split; intro H; try discriminate H; reflexivity. Qed.
