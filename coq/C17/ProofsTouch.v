(* C17 — touched_in_view: every byte range an operation of the model touches lies inside the view
   (or DataView, or source buffer, or freshly created buffer) it is entitled to, on a buffer that is
   not detached at the moment of the access.  For both readings of the model. *)
From Coq Require Import ZArith List Bool NArith SpecFloat Lia ZifyBool.
From Verif.Base Require Import F64.
From Verif.C17 Require Import Model Proofs.
Import ListNotations.
Local Open Scope Z_scope.

(* ------------------------------------------------------------------ the view invariant *)
Definition view_ok (st : state) (vw : view) : Prop :=
  0 <= v_off vw /\ 0 <= v_len vw /\ v_off vw mod esize (v_kind vw) = 0 /\
  v_off vw + v_len vw * esize (v_kind vw) <= mlen st (v_buf vw).
Definition dview_ok (st : state) (dv : dview) : Prop :=
  0 <= d_off dv /\ 0 <= d_len dv /\ d_off dv + d_len dv <= mlen st (d_buf dv).
Definition ViewInv (st : state) : Prop :=
  (forall v vw, nth_error (views st) v = Some vw -> view_ok st vw) /\
  (forall d dv, nth_error (dviews st) d = Some dv -> dview_ok st dv).

Lemma addr_MI_MS : forall vw i, v_off vw mod esize (v_kind vw) = 0 -> addr MI vw i = addr MS vw i.
Proof.
  intros vw i H. unfold addr.
  pose proof (esize_pos (v_kind vw)) as Hp.
  rewrite Z.mul_add_distr_r. f_equal.
  rewrite Z.mul_comm. symmetry. apply Z_div_exact_full_2; lia.
Qed.

Lemma addr_val : forall m st vw i, view_ok st vw -> addr m vw i = v_off vw + i * esize (v_kind vw).
Proof.
  intros m st vw i (_ & _ & Hal & _). destruct m; [reflexivity|].
  rewrite addr_MI_MS by assumption. reflexivity.
Qed.

(* ------------------------------------------------------------------ single touches *)
Definition tok (al : list (nat * Z * Z)) (t : touch) : Prop := touch_ok al t = true.

Lemma tch_ok : forall al st b lo n rlo rhi,
  In (b, rlo, rhi) al -> is_det st b = false -> rlo <= lo -> lo + n <= rhi -> tok al (tch st b lo n).
Proof.
  intros. unfold tok. eapply touch_ok_in; eauto; simpl; auto. rewrite H0. reflexivity.
Qed.

Lemma view_region_in : forall st v vw,
  nth_error (views st) v = Some vw ->
  In (v_buf vw, v_off vw, v_off vw + v_len vw * esize (v_kind vw)) (view_region st v).
Proof. intros. unfold view_region. rewrite H. left. reflexivity. Qed.

Lemma view_tch_ok : forall m st0 st v vw al i cnt n,
  nth_error (views st0) v = Some vw -> view_ok st0 vw -> incl (view_region st0 v) al ->
  is_det st (v_buf vw) = false -> 0 <= i -> 0 <= cnt -> i + cnt <= v_len vw ->
  n = cnt * esize (v_kind vw) ->
  tok al (tch st (v_buf vw) (addr m vw i) n).
Proof.
  intros m st0 st v vw al i cnt n Hv Hok Hincl Hdet Hi Hc Hle Hn.
  eapply tch_ok.
  - apply Hincl. apply view_region_in. exact Hv.
  - exact Hdet.
  - rewrite (addr_val m st0 vw i Hok). pose proof (esize_pos (v_kind vw)). nia.
  - rewrite (addr_val m st0 vw i Hok). subst n. pose proof (esize_pos (v_kind vw)). nia.
Qed.

Lemma view_tch_ok' : forall m st0 st v vw al i cnt,
  nth_error (views st0) v = Some vw -> view_ok st0 vw -> incl (view_region st0 v) al ->
  is_det st (v_buf vw) = false -> 0 <= i -> 0 <= cnt -> i + cnt <= v_len vw ->
  tok al (tch st (v_buf vw) (addr m vw i) (cnt * esize (v_kind vw))).
Proof. intros. eapply view_tch_ok; eauto. Qed.

Lemma valid_idx_true : forall st vw z,
  valid_idx st vw z = true -> is_det st (v_buf vw) = false /\ 0 <= z < v_len vw.
Proof.
  unfold valid_idx. intros st vw z H.
  apply andb_true_iff in H. destruct H as [H H2].
  apply andb_true_iff in H. destruct H as [H0 H1].
  apply negb_true_iff in H0. split; [assumption|lia].
Qed.

Lemma rel_idx_range : forall r l, 0 <= l -> 0 <= rel_idx r l <= l.
Proof. intros r l Hl. unfold rel_idx. destruct (0 <=? r) eqn:E; lia. Qed.

Lemma Forall_app2 : forall (P : touch -> Prop) a b, Forall P a -> Forall P b -> Forall P (a ++ b).
Proof. intros. apply Forall_app. split; assumption. Qed.

(* one element touch (get_elt / put_raw) *)
Lemma elt_tch_ok : forall m st0 st v vw al i,
  nth_error (views st0) v = Some vw -> view_ok st0 vw -> incl (view_region st0 v) al ->
  is_det st (v_buf vw) = false -> 0 <= i < v_len vw ->
  tok al (tch st (v_buf vw) (addr m vw i) (esize (v_kind vw))).
Proof. intros. eapply view_tch_ok with (cnt := 1); eauto; lia. Qed.

(* ------------------------------------------------------------------ loops *)
Lemma setarr_loop_ok : forall m st0 v vw al src st i acc,
  nth_error (views st0) v = Some vw -> view_ok st0 vw -> incl (view_region st0 v) al ->
  Forall (tok al) acc ->
  Forall (tok al) (snd (setarr_loop m st vw i src acc)).
Proof.
  intros m st0 v vw al src. induction src as [|a r IH]; intros st i acc Hv Hok Hincl Hacc; cbn [setarr_loop].
  - exact Hacc.
  - destruct (co_val st a) as [st1 p].
    destruct (num_to_raw m (v_kind vw) true p); [|exact Hacc].
    destruct (valid_idx st1 vw i) eqn:Hvi.
    + apply valid_idx_true in Hvi. destruct Hvi as [Hd Hr].
      unfold put_raw. apply IH; auto.
      apply Forall_app2; auto. constructor; [|constructor].
      eapply elt_tch_ok; eauto.
    + apply IH; auto.
Qed.

Lemma In_seqZ : forall n lo i, In i (seqZ lo n) -> lo <= i < lo + Z.of_nat n.
Proof.
  induction n; intros lo i H; simpl in H; [contradiction|].
  destruct H as [H|H]; [lia|]. apply IHn in H. lia.
Qed.

Lemma read_all_ok : forall st0 st v vw al idxs,
  nth_error (views st0) v = Some vw -> view_ok st0 vw -> incl (view_region st0 v) al ->
  is_det st (v_buf vw) = false ->
  (forall i, In i idxs -> 0 <= i < v_len vw) ->
  Forall (fun et => tok al (snd et)) (read_all st vw idxs).
Proof.
  intros st0 st v vw al idxs Hv Hok Hincl Hd. induction idxs as [|i r IH]; intros Hr; cbn [read_all].
  - constructor.
  - constructor.
    + unfold get_elt. cbn [snd]. eapply elt_tch_ok; eauto. apply Hr. left. reflexivity.
    + apply IH. intros j Hj. apply Hr. right. exact Hj.
Qed.

Lemma write_all_ok : forall st0 v vw al es st i acc,
  nth_error (views st0) v = Some vw -> view_ok st0 vw -> incl (view_region st0 v) al ->
  is_det st (v_buf vw) = false ->
  0 <= i -> i + Z.of_nat (length es) <= v_len vw ->
  Forall (fun et => tok al (snd et)) es ->
  Forall (tok al) acc ->
  Forall (tok al) (snd (write_all st vw i es acc)).
Proof.
  intros st0 v vw al es. induction es as [|[e t0] r IH]; intros st i acc Hv Hok Hincl Hd Hi Hlen Hes Hacc; cbn [write_all].
  - exact Hacc.
  - destruct (num_to_raw MS (v_kind vw) true (pv_of_elt e)); [|exact Hacc].
    unfold put_raw. inversion Hes; subst. cbn [length] in Hlen. cbn [snd] in *.
    apply IH; auto.
    + rewrite is_det_wr_buf. exact Hd.
    + lia.
    + lia.
    + apply Forall_app2; auto. constructor; [assumption|]. constructor; [|constructor].
      eapply elt_tch_ok; eauto. lia.
Qed.

Lemma copy_inplace_ok : forall st0 v sv dst src al toff idxs st acc,
  nth_error (views st0) v = Some dst -> view_ok st0 dst ->
  nth_error (views st0) sv = Some src -> view_ok st0 src ->
  incl (view_region st0 v) al -> incl (view_region st0 sv) al ->
  is_det st (v_buf dst) = false -> is_det st (v_buf src) = false ->
  0 <= toff -> toff + v_len src <= v_len dst ->
  (forall i, In i idxs -> 0 <= i < v_len src) ->
  Forall (tok al) acc ->
  Forall (tok al) (snd (copy_inplace st dst src toff idxs acc)).
Proof.
  intros st0 v sv dst src al toff idxs.
  induction idxs as [|i r IH]; intros st acc Hv Hok Hsv Hsok Hi1 Hi2 Hd Hs Ht Hlen Hr Hacc; cbn [copy_inplace].
  - exact Hacc.
  - unfold get_elt.
    destruct (num_to_raw MI (v_kind dst) true _); [|exact Hacc].
    unfold put_raw.
    assert (Hri : 0 <= i < v_len src) by (apply Hr; left; reflexivity).
    apply IH; auto.
    + rewrite is_det_wr_buf. exact Hd.
    + rewrite is_det_wr_buf. exact Hs.
    + intros j Hj. apply Hr. right. exact Hj.
    + apply Forall_app2; auto. apply Forall_cons; [|apply Forall_cons; [|apply Forall_nil]].
      * eapply elt_tch_ok with (v := sv); eauto.
      * eapply elt_tch_ok with (v := v); eauto. lia.
Qed.

Lemma In_goja_order : forall dst src toff i,
  0 <= v_len src -> In i (goja_order dst src toff) -> 0 <= i < v_len src.
Proof.
  intros dst src toff i Hl. unfold goja_order.
  set (n := Z.to_nat (v_len src)).
  assert (Hn : Z.of_nat n = v_len src) by (unfold n; lia).
  destruct (negb (Nat.eqb (v_buf dst) (v_buf src))).
  { intros H. apply In_seqZ in H. lia. }
  destruct (esize (v_kind src) =? esize (v_kind dst)).
  { destruct (_ || _); intros H; [|rewrite <- in_rev in H]; apply In_seqZ in H; lia. }
  set (x0 := Z.quot _ _).
  set (x := if x0 <? 0 then 0 else if x0 >? v_len src then v_len src else x0).
  assert (Hx : 0 <= x <= v_len src).
  { unfold x. destruct (x0 <? 0) eqn:E1; [lia|]. destruct (x0 >? v_len src) eqn:E2; lia. }
  destruct (esize (v_kind dst) <? esize (v_kind src)); intros H; apply in_app_or in H;
    destruct H as [H|H]; try rewrite <- in_rev in H; apply In_seqZ in H; lia.
Qed.

(* ------------------------------------------------------------------ the operations *)
Lemma co_opt_nbufs : forall s0 a d, length (bufs (fst (co_opt s0 a d))) = length (bufs s0).
Proof.
  intros s0 [a0|] d; simpl; auto. destruct (i_det a0) as [n|]; simpl; auto.
  revert n. induction (bufs s0) as [|x r IH]; intros n; destruct n; simpl; auto.
Qed.

Section Ops.
Variable m : mode.
Variable st : state.
Hypothesis Inv : ViewInv st.

Lemma get_ok : forall v k, Forall (tok (allowed st (OGet v k))) (snd (op_get m st v k)).
Proof.
  intros v k. unfold op_get, with_view, fail. destruct (nth_error (views st) v) as [vw|] eqn:Hv; [|constructor].
  destruct k as [z|]; [|constructor].
  destruct (valid_idx st vw z) eqn:Hvi; [|constructor].
  apply valid_idx_true in Hvi. destruct Hvi. unfold get_elt. simpl.
  constructor; [|constructor]. eapply elt_tch_ok; eauto using incl_refl. apply (proj1 Inv v vw Hv).
Qed.

Lemma set_ok : forall v k a, Forall (tok (allowed st (OSet v k a))) (snd (op_set m st v k a)).
Proof.
  intros v k a. unfold op_set, with_view, fail. destruct (nth_error (views st) v) as [vw|] eqn:Hv; [|constructor].
  destruct (co_val st a) as [st1 p].
  destruct (num_to_raw m (v_kind vw) true p); [|constructor].
  destruct k as [z|]; [|constructor].
  destruct (valid_idx st1 vw z) eqn:Hvi; [|constructor].
  apply valid_idx_true in Hvi. destruct Hvi. unfold put_raw. simpl.
  constructor; [|constructor]. eapply elt_tch_ok; eauto using incl_refl. apply (proj1 Inv v vw Hv).
Qed.

Lemma setarr_ok : forall v src off, Forall (tok (allowed st (OSetArr v src off))) (snd (op_setarr m st v src off)).
Proof.
  intros v src off. unfold op_setarr, with_view, fail. destruct (nth_error (views st) v) as [vw|] eqn:Hv; [|constructor].
  destruct (co_int st off) as [st1 toff].
  destruct (toff <? 0); [constructor|].
  destruct (is_det st1 (v_buf vw)); [constructor|].
  destruct (_ >? _); [constructor|].
  eapply setarr_loop_ok; eauto using incl_refl. apply (proj1 Inv v vw Hv).
Qed.

Lemma settyped_ok : forall v sv off, Forall (tok (allowed st (OSetTyped v sv off))) (snd (op_settyped m st v sv off)).
Proof.
  intros v sv off. unfold op_settyped, with_view, fail.
  destruct (nth_error (views st) v) as [dst|] eqn:Hv; [|constructor].
  destruct (nth_error (views st) sv) as [src|] eqn:Hsv; [|constructor].
  pose proof (proj1 Inv v dst Hv) as Hdok. pose proof (proj1 Inv sv src Hsv) as Hsok.
  assert (Hi1 : incl (view_region st v) (allowed st (OSetTyped v sv off))) by (simpl; apply incl_appl, incl_refl).
  assert (Hi2 : incl (view_region st sv) (allowed st (OSetTyped v sv off))) by (simpl; apply incl_appr, incl_refl).
  destruct (co_int st off) as [st1 toff].
  destruct (toff <? 0) eqn:Ht; [constructor|].
  destruct (is_det st1 (v_buf dst)) eqn:Hd; [constructor|].
  destruct (is_det st1 (v_buf src)) eqn:Hs; [constructor|].
  destruct (v_len src + toff >? v_len dst) eqn:Hl; [constructor|].
  destruct (negb _); [constructor|].
  assert (Hsl : 0 <= v_len src) by (destruct Hsok as (_ & ? & _); assumption).
  destruct (kind_eqb (v_kind src) (v_kind dst)) eqn:Heqb.
  - cbn [snd]. destruct (_ >? 0) eqn:Hn; [|constructor].
    apply Forall_cons; [|apply Forall_cons; [|apply Forall_nil]].
    + eapply view_tch_ok with (v := sv) (cnt := v_len src); eauto; lia.
    + assert (Hk : esize (v_kind src) = esize (v_kind dst)).
      { revert Heqb. destruct (v_kind src), (v_kind dst); simpl; intros; try discriminate; reflexivity. }
      eapply view_tch_ok with (v := v) (cnt := v_len src); eauto; lia.
  - destruct m.
    + eapply write_all_ok; eauto; try lia.
      * assert (length (read_all st1 src (seqZ 0 (Z.to_nat (v_len src)))) = Z.to_nat (v_len src)).
        { generalize 0. induction (Z.to_nat (v_len src)); intros; simpl; auto. }
        lia.
      * eapply read_all_ok; eauto. intros i Hi. apply In_seqZ in Hi. lia.
    + destruct (v_len src =? 0); [constructor|].
      eapply copy_inplace_ok; eauto; try lia.
      intros i Hi. eapply In_goja_order; eauto.
Qed.

Lemma copywithin_ok : forall v t f e, Forall (tok (allowed st (OCopyWithin v t f e))) (snd (op_copywithin m st v t f e)).
Proof.
  intros v t f e. unfold op_copywithin, with_view, fail.
  destruct (nth_error (views st) v) as [vw|] eqn:Hv; [|constructor].
  pose proof (proj1 Inv v vw Hv) as Hok.
  assert (Hl : 0 <= v_len vw) by (destruct Hok as (_ & ? & _); assumption).
  destruct (is_det st (v_buf vw)); [constructor|].
  destruct (co_int st t) as [st1 rt]. destruct (co_int st1 f) as [st2 rf]. destruct (co_opt st2 e (v_len vw)) as [st3 re].
  pose proof (rel_idx_range rt _ Hl). pose proof (rel_idx_range rf _ Hl). pose proof (rel_idx_range re _ Hl).
  destruct (_ >? 0) eqn:Hc; [|constructor].
  destruct (is_det st3 (v_buf vw)) eqn:Hd; [constructor|].
  simpl. apply Forall_cons; [|apply Forall_cons; [|apply Forall_nil]];
    eapply view_tch_ok' with (v := v); eauto using incl_refl; lia.
Qed.

Lemma fill_tail_ok : forall m' al v vw st' bs rs re,
  nth_error (views st) v = Some vw -> incl (view_region st v) al ->
  Forall (tok al) (snd (fill_tail m' st' vw bs rs re)).
Proof.
  intros m' al v vw st' bs rs re Hv Hincl. unfold fill_tail, fail.
  pose proof (proj1 Inv v vw Hv) as Hok.
  assert (Hl : 0 <= v_len vw) by (destruct Hok as (_ & ? & _); assumption).
  pose proof (rel_idx_range rs _ Hl). pose proof (rel_idx_range re _ Hl).
  destruct (is_det st' (v_buf vw)) eqn:Hd; [constructor|].
  destruct (_ >? _) eqn:Hc; [|constructor].
  simpl. constructor; [|constructor].
  eapply view_tch_ok' with (v := v); eauto; lia.
Qed.

Lemma fill_ok : forall v a s e, Forall (tok (allowed st (OFill v a s e))) (snd (op_fill m st v a s e)).
Proof.
  intros v a s e. unfold op_fill, with_view, fail.
  destruct (nth_error (views st) v) as [vw|] eqn:Hv; [|constructor].
  destruct (is_det st (v_buf vw)); [constructor|].
  destruct (co_val st a) as [s1 p]. destruct (num_to_raw m _ _ _); [|constructor].
  destruct (co_opt s1 s 0) as [s2 rs]. destruct (co_opt s2 e (v_len vw)) as [s3 re].
  eapply fill_tail_ok; eauto using incl_refl.
Qed.

Lemma slice_ok : forall v s e, Forall (tok (allowed st (OSlice v s e))) (snd (op_slice m st v s e)).
Proof.
  intros v s e. unfold op_slice, with_view, fail.
  destruct (nth_error (views st) v) as [vw|] eqn:Hv; [|constructor].
  pose proof (proj1 Inv v vw Hv) as Hok.
  assert (Hl : 0 <= v_len vw) by (destruct Hok as (_ & ? & _); assumption).
  destruct (is_det st (v_buf vw)); [constructor|].
  destruct (co_opt st s 0) as [st1 rs] eqn:E1. destruct (co_opt st1 e (v_len vw)) as [st2 re] eqn:E2.
  pose proof (rel_idx_range rs _ Hl). pose proof (rel_idx_range re _ Hl).
  destruct (_ >? 0) eqn:Hc; [|constructor].
  destruct (is_det st2 (v_buf vw)) eqn:Hd; [constructor|].
  assert (Hlen : length (bufs st2) = length (bufs st)).
  { pose proof (co_opt_nbufs st s 0) as H1'. rewrite E1 in H1'. simpl in H1'.
    pose proof (co_opt_nbufs st1 e (v_len vw)) as H2'. rewrite E2 in H2'. simpl in H2'. congruence. }
  simpl. apply Forall_cons; [|apply Forall_cons; [|apply Forall_nil]].
  - eapply view_tch_ok' with (v := v); eauto; try lia. apply incl_appl, incl_refl.
  - unfold tok. eapply touch_ok_in with (b := length (bufs st)) (lo := 0) (hi := v_len vw * esize (v_kind vw)); simpl; auto.
    + apply in_or_app. right. unfold new_region. rewrite Hv. left. reflexivity.
    + lia.
    + pose proof (esize_pos (v_kind vw)). nia.
Qed.

Lemma whole_view_ok : forall v vw al st',
  nth_error (views st) v = Some vw -> incl (view_region st v) al -> is_det st' (v_buf vw) = false ->
  tok al (tch st' (v_buf vw) (addr m vw 0) (v_len vw * esize (v_kind vw))).
Proof.
  intros v vw al st' Hv Hincl Hd.
  pose proof (proj1 Inv v vw Hv) as Hok.
  assert (Hl : 0 <= v_len vw) by (destruct Hok as (_ & ? & _); assumption).
  eapply view_tch_ok with (v := v) (cnt := v_len vw); eauto; lia.
Qed.

Lemma reverse_ok : forall v, Forall (tok (allowed st (OReverse v))) (snd (op_reverse m st v)).
Proof.
  intros v. unfold op_reverse, with_view, fail.
  destruct (nth_error (views st) v) as [vw|] eqn:Hv; [|constructor].
  destruct (is_det st (v_buf vw)) eqn:Hd; [constructor|].
  destruct (_ >=? 2); [|constructor].
  simpl. constructor; [|constructor]. eapply whole_view_ok; eauto using incl_refl.
Qed.

Lemma sort_ok : forall v, Forall (tok (allowed st (OSort v))) (snd (op_sort m st v)).
Proof.
  intros v. unfold op_sort, with_view, fail.
  destruct (nth_error (views st) v) as [vw|] eqn:Hv; [|constructor].
  destruct (is_det st (v_buf vw)) eqn:Hd; [constructor|].
  destruct (_ >=? 2); [|constructor].
  simpl. constructor; [|constructor]. eapply whole_view_ok; eauto using incl_refl.
Qed.

Lemma subarray_ok : forall v s e, Forall (tok (allowed st (OSubarray v s e))) (snd (op_subarray m st v s e)).
Proof.
  intros v s e. unfold op_subarray, with_view, fail.
  destruct (nth_error (views st) v) as [vw|]; [|constructor].
  destruct (co_opt st s 0) as [st1 rs]. destruct (co_opt st1 e (v_len vw)) as [st2 re].
  destruct (is_det st2 (v_buf vw)); [constructor|].
  destruct (_ >? _); constructor.
Qed.

Lemma dview_tch_ok : forall d dv st' idx n al,
  nth_error (dviews st) d = Some dv -> incl (dview_region st d) al ->
  is_det st' (d_buf dv) = false -> 0 <= idx -> idx + n <= d_len dv ->
  tok al (tch st' (d_buf dv) (d_off dv + idx) n).
Proof.
  intros d dv st' idx n al Hd Hincl Hdet Hi Hn.
  eapply tch_ok with (rlo := d_off dv) (rhi := d_off dv + d_len dv); [|exact Hdet|lia|lia].
  apply Hincl. unfold dview_region. rewrite Hd. left. reflexivity.
Qed.

Lemma to_index_some : forall z i, to_index z = Some i -> 0 <= i.
Proof. unfold to_index. intros z i. destruct (_ && _) eqn:E; intros H; inversion H; subst. lia. Qed.

Lemma dvget_ok : forall d k i le, Forall (tok (allowed st (ODvGet d k i le))) (snd (op_dvget m st d k i le)).
Proof.
  intros d k i le. unfold op_dvget, fail.
  destruct (nth_error (dviews st) d) as [dv|] eqn:Hd; [|constructor].
  destruct (co_int st i) as [st1 ri].
  destruct (to_index ri) as [idx|] eqn:Hi; [|constructor].
  apply to_index_some in Hi.
  destruct (is_det st1 (d_buf dv)) eqn:Hdet; [constructor|].
  destruct (_ >? _) eqn:Hr; [constructor|].
  simpl. constructor; [|constructor]. eapply dview_tch_ok; eauto using incl_refl. lia.
Qed.

Lemma dvset_ok : forall d k i a le, Forall (tok (allowed st (ODvSet d k i a le))) (snd (op_dvset m st d k i a le)).
Proof.
  intros d k i a le. unfold op_dvset, fail.
  destruct (nth_error (dviews st) d) as [dv|] eqn:Hd; [|constructor].
  destruct (co_int st i) as [st1 ri].
  destruct (to_index ri) as [idx|] eqn:Hi; [|constructor].
  apply to_index_some in Hi.
  destruct (co_val st1 a) as [st2 p].
  destruct (num_to_raw m k (le_of le) p); [|constructor].
  destruct (is_det st2 (d_buf dv)) eqn:Hdet; [constructor|].
  destruct (_ >? _) eqn:Hr; [constructor|].
  simpl. constructor; [|constructor]. eapply dview_tch_ok; eauto using incl_refl. lia.
Qed.

Lemma find_idx_in : forall p l i, find_idx p l = Some i -> In i l.
Proof.
  intros p l. induction l as [|x r IH]; intros i H; simpl in H; [discriminate|].
  destruct (p x); [inversion H; left; reflexivity|right; auto].
Qed.

Lemma search_fwd_ok : forall inc v x from o,
  incl (view_region st v) (allowed st o) ->
  Forall (tok (allowed st o)) (snd (op_search_fwd inc m st v x from)).
Proof.
  intros inc v x from o Hincl. unfold op_search_fwd, with_view, fail.
  destruct (nth_error (views st) v) as [vw|] eqn:Hv; [|constructor].
  pose proof (proj1 Inv v vw Hv) as Hok.
  assert (Hl : 0 <= v_len vw) by (destruct Hok as (_ & ? & _); assumption).
  destruct (is_det st (v_buf vw)); [constructor|].
  destruct (v_len vw =? 0); [constructor|].
  destruct (co_opt st from 0) as [st1 n].
  destruct (n >=? v_len vw) eqn:Hn; [constructor|].
  set (k := if n <? 0 then Z.max (v_len vw + n) 0 else n).
  assert (Hk : 0 <= k <= v_len vw) by (unfold k; destruct (n <? 0) eqn:E; lia).
  destruct (is_det st1 (v_buf vw)) eqn:Hd; [constructor|].
  unfold scan. destruct (find_idx _ _) as [i|] eqn:Hf; cbn [snd]; constructor; try constructor.
  - apply find_idx_in, In_seqZ in Hf. eapply view_tch_ok' with (v := v); eauto; lia.
  - eapply view_tch_ok' with (v := v); eauto; lia.
Qed.

Lemma lastindexof_ok : forall v x from,
  Forall (tok (allowed st (OLastIndexOf v x from))) (snd (op_lastindexof m st v x from)).
Proof.
  intros v x from. unfold op_lastindexof, with_view, fail.
  destruct (nth_error (views st) v) as [vw|] eqn:Hv; [|constructor].
  pose proof (proj1 Inv v vw Hv) as Hok.
  assert (Hl : 0 <= v_len vw) by (destruct Hok as (_ & ? & _); assumption).
  destruct (is_det st (v_buf vw)); [constructor|].
  destruct (v_len vw =? 0) eqn:H0; [constructor|].
  destruct (co_opt st from (v_len vw - 1)) as [st1 n].
  set (k := if 0 <=? n then Z.min n (v_len vw - 1) else v_len vw + n).
  assert (Hk : k <= v_len vw - 1) by (unfold k; destruct (0 <=? n) eqn:E; lia).
  destruct (k <? 0) eqn:Hk0; [constructor|].
  destruct (is_det st1 (v_buf vw)) eqn:Hd; [constructor|].
  unfold scan. destruct (find_idx _ _) as [i|] eqn:Hf; cbn [snd]; constructor; try constructor.
  - apply find_idx_in in Hf. rewrite <- in_rev in Hf. apply In_seqZ in Hf.
    eapply view_tch_ok' with (v := v); eauto using incl_refl; lia.
  - eapply view_tch_ok' with (v := v); eauto using incl_refl; lia.
Qed.

Lemma ctorfrom_ok : forall k sv, Forall (tok (allowed st (OCtorFrom k sv))) (snd (op_ctorfrom m st k sv)).
Proof.
  intros k sv. unfold op_ctorfrom, with_view, fail.
  destruct (nth_error (views st) sv) as [src|] eqn:Hv; [|constructor].
  pose proof (proj1 Inv sv src Hv) as Hok.
  assert (Hl : 0 <= v_len src) by (destruct Hok as (_ & ? & _); assumption).
  destruct (is_det st (v_buf src)) eqn:Hd; [constructor|].
  destruct (negb _); [constructor|].
  cbn [snd]. destruct (v_len src >? 0) eqn:Hn; [|constructor].
  apply Forall_cons; [|apply Forall_cons; [|apply Forall_nil]].
  - eapply view_tch_ok' with (v := sv); eauto; try lia. cbn [allowed]. apply incl_appl, incl_refl.
  - unfold tok. eapply touch_ok_in with (b := length (bufs st)) (lo := 0) (hi := v_len src * esize k);
      [|reflexivity|reflexivity|simpl; lia|simpl; lia].
    cbn [allowed]. apply in_or_app. right. unfold new_region_k. rewrite Hv. left. reflexivity.
Qed.

Lemma goexport_ok : forall v, Forall (tok (allowed st (OGoExport v))) (snd (op_goexport m st v)).
Proof.
  intros v. unfold op_goexport, with_view, fail.
  destruct (nth_error (views st) v) as [vw|] eqn:Hv; [|constructor].
  destruct (is_det st (v_buf vw)) eqn:Hd.
  - constructor.
  - cbn [snd]. destruct (_ >? 0); [|constructor].
    constructor; [|constructor]. eapply whole_view_ok; eauto using incl_refl.
Qed.

Lemma goexportwrite_ok : forall v j raw,
  Forall (tok (allowed st (OGoExportWrite v j raw))) (snd (op_goexportwrite m st v j raw)).
Proof.
  intros v j raw. unfold op_goexportwrite, with_view, fail.
  destruct (nth_error (views st) v) as [vw|] eqn:Hv; [|constructor].
  destruct (valid_idx st vw j) eqn:Hvi; [|constructor].
  apply valid_idx_true in Hvi. destruct Hvi. unfold put_raw. cbn [snd].
  constructor; [|constructor]. eapply elt_tch_ok; eauto using incl_refl. apply (proj1 Inv v vw Hv).
Qed.

Lemma jlen_le_mlen : forall s0 b, jlen s0 b <= mlen s0 b.
Proof. intros. unfold jlen, mlen. destruct (getb s0 b) as [x|]; [|lia]. destruct (b_det x); unfold blen; lia. Qed.

Lemma mlen_eff : forall s0 d b, mlen (eff s0 d) b = mlen s0 b.
Proof.
  intros s0 [n|] b; simpl; auto. unfold mlen, getb, detach, set_bufs. simpl.
  revert n b. induction (bufs s0) as [|x r IH]; intros n b; destruct n, b; simpl; auto.
Qed.
Lemma mlen_co_opt : forall s0 a d b, mlen (fst (co_opt s0 a d)) b = mlen s0 b.
Proof. intros s0 [a|] d b; simpl; auto using mlen_eff. Qed.

Lemma bufslice_ok : forall b s e, Forall (tok (allowed st (OBufSlice b s e))) (snd (op_bufslice st b s e)).
Proof.
  intros b s e. unfold op_bufslice, fail.
  destruct (is_det st b); [constructor|].
  destruct (co_opt st s 0) as [st1 rs] eqn:E1. destruct (co_opt st1 e (jlen st b)) as [st2 re] eqn:E2.
  destruct (is_det st2 b) eqn:Hd; [constructor|].
  assert (Hj : 0 <= jlen st b).
  { unfold jlen. destruct (getb st b) as [x|]; [|lia]. destruct (b_det x); unfold blen; lia. }
  pose proof (jlen_le_mlen st b).
  pose proof (rel_idx_range rs _ Hj). pose proof (rel_idx_range re _ Hj).
  assert (Hlen : length (bufs st2) = length (bufs st)).
  { pose proof (co_opt_nbufs st s 0) as H1'. rewrite E1 in H1'. simpl in H1'.
    pose proof (co_opt_nbufs st1 e (jlen st b)) as H2'. rewrite E2 in H2'. simpl in H2'. congruence. }
  simpl. destruct (_ >? 0) eqn:Hn; [|constructor].
  apply Forall_cons; [|apply Forall_cons; [|apply Forall_nil]].
  - eapply tch_ok with (rlo := 0) (rhi := mlen st b); [left; reflexivity|exact Hd|lia|lia].
  - unfold tok. eapply touch_ok_in with (b := length (bufs st)) (lo := 0) (hi := mlen st b);
      [right; left; reflexivity | simpl; auto | reflexivity | simpl; lia | simpl; lia].
Qed.

End Ops.

(* ------------------------------------------------------------------ touched_in_view *)
Theorem touched_in_view : forall m st o,
  ViewInv st -> Forall (fun t => touch_ok (allowed st o) t = true) (snd (step m st o)).
Proof.
  intros m st o Inv. destruct o; simpl step.
  - unfold op_ctor, fail. destruct (co_opt st off 0) as [st1 o]. destruct (to_index o); [|constructor].
    destruct (negb _); [constructor|]. destruct len as [la|].
    + destruct (co_int st1 la) as [st2 l]. destruct (to_index l); [|constructor].
      destruct (is_det st2 b); [constructor|]. destruct (_ >? _); constructor.
    + destruct (is_det st1 b); [constructor|]. destruct (negb _); [constructor|]. destruct (_ <? 0); constructor.
  - unfold op_dvctor, fail. destruct (co_opt st off 0) as [st1 o]. destruct (to_index o); [|constructor].
    destruct (is_det st1 b); [constructor|]. destruct (_ >? _); [constructor|]. destruct len as [la|]; [|constructor].
    destruct (co_int st1 la) as [st2 l]. destruct (to_index l); [|constructor].
    destruct (_ >? _); [constructor|]. destruct (is_det st2 b); constructor.
  - apply get_ok; auto.
  - apply set_ok; auto.
  - apply setarr_ok; auto.
  - apply settyped_ok; auto.
  - apply copywithin_ok; auto.
  - apply fill_ok; auto.
  - apply slice_ok; auto.
  - apply subarray_ok; auto.
  - apply reverse_ok; auto.
  - apply sort_ok; auto.
  - apply dvget_ok; auto.
  - apply dvset_ok; auto.
  - apply bufslice_ok; auto.
  - constructor.
  - constructor.
  - unfold op_lens, with_view, fail. destruct (nth_error (views st) v); [|constructor]. destruct (is_det _ _); constructor.
  - apply search_fwd_ok; auto. apply incl_refl.
  - apply search_fwd_ok; auto. apply incl_refl.
  - apply lastindexof_ok; auto.
  - apply ctorfrom_ok; auto.
  - apply goexport_ok; auto.
  - apply goexportwrite_ok; auto.
Qed.

(* the regions themselves lie inside the current memory of their buffer: "inside the view" implies
   "inside the buffer" *)
Theorem allowed_in_buffer : forall st o b lo hi,
  ViewInv st -> In (b, lo, hi) (allowed st o) -> (b < length (bufs st))%nat -> 0 <= lo /\ hi <= mlen st b.
Proof.
  intros st o b lo hi [Iv Id] Hin Hb.
  assert (Hv : forall v, In (b, lo, hi) (view_region st v) -> 0 <= lo /\ hi <= mlen st b).
  { intros v H. unfold view_region in H. destruct (nth_error (views st) v) as [vw|] eqn:E; [|contradiction].
    destruct H as [H|[]]. inversion H; subst. destruct (Iv v vw E) as (? & ? & ? & ?). split; lia. }
  assert (Hd : forall d, In (b, lo, hi) (dview_region st d) -> 0 <= lo /\ hi <= mlen st b).
  { intros d H. unfold dview_region in H. destruct (nth_error (dviews st) d) as [dv|] eqn:E; [|contradiction].
    destruct H as [H|[]]. inversion H; subst. destruct (Id d dv E) as (? & ? & ?). split; lia. }
  assert (Hn : forall v, In (b, lo, hi) (new_region st v) -> False).
  { intros v H. unfold new_region in H. destruct (nth_error (views st) v); [|contradiction].
    destruct H as [H|[]]. inversion H; subst. lia. }
  assert (Hnk : forall k v, In (b, lo, hi) (new_region_k st k v) -> False).
  { intros k v H. unfold new_region_k in H. destruct (nth_error (views st) v); [|contradiction].
    destruct H as [H|[]]. inversion H; subst. lia. }
  destruct o; simpl in Hin; eauto; try contradiction.
  - apply in_app_or in Hin. destruct Hin; eauto.
  - apply in_app_or in Hin. destruct Hin as [H|H]; eauto. exfalso; eauto.
  - destruct Hin as [H|[H|[]]]; inversion H; subst; [split; lia|lia].
  - apply in_app_or in Hin. destruct Hin as [H|H]; eauto. exfalso; eauto.
Qed.
