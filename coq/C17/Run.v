(* C17 — executable instantiation used by the correspondence check (depends on Model.v only). *)
From Coq Require Import ZArith List Bool NArith SpecFloat.
From Verif.Base Require Import F64.
From Verif.C17 Require Export Model.
Import ListNotations.
Local Open Scope Z_scope.

(* what the harness saw.  Numbers travel as dyadics m * 2^e (e = 9999: m = 0 NaN, 1 +inf, -1 -inf, 2 -0)
   because numerals are what costs time when coqc reads the cases. *)
Definition dec (m e : Z) : spec_float :=
  if e =? 9999 then
    (if m =? 0 then S754_nan else if m =? 1 then S754_infinity false
     else if m =? -1 then S754_infinity true else S754_zero true)
  else of_Z_scaled m e.
Definition dopt (d : Z) : option nat := if d =? 0 then None else Some (Z.to_nat (d - 1)).
Definition cI (m e d : Z) : iarg := mkI (to_bits (dec m e)) (dopt d).
Definition cV (m e d : Z) : varg := mkV false (to_bits (dec m e)) (dopt d).
Definition cB (z d : Z) : varg := mkV true z (dopt d).

Definition n_ := Z.to_nat.
Definition wCtor k b (o l : option iarg) := OCtor k (n_ b) o l.
Definition wDvCtor b o l := ODvCtor (n_ b) o l.
Definition wGet v k := OGet (n_ v) k.
Definition wSet v k a := OSet (n_ v) k a.
Definition wSetArr v s o := OSetArr (n_ v) s o.
Definition wSetTyped v s o := OSetTyped (n_ v) (n_ s) o.
Definition wCopyWithin v t f e := OCopyWithin (n_ v) t f e.
Definition wFill v a s e := OFill (n_ v) a s e.
Definition wSlice v s e := OSlice (n_ v) s e.
Definition wSubarray v s e := OSubarray (n_ v) s e.
Definition wReverse v := OReverse (n_ v).
Definition wSort v := OSort (n_ v).
Definition wDvGet d k i le := ODvGet (n_ d) k i le.
Definition wDvSet d k i a le := ODvSet (n_ d) k i a le.
Definition wBufSlice b s e := OBufSlice (n_ b) s e.
Definition wGoWrite b i x := OGoWrite (n_ b) i (Z.to_N x).
Definition wDetach b := ODetach (n_ b).
Definition wLens v := OLens (n_ v).
Definition wGoExport v := OGoExport (n_ v).
Definition wGoExportWrite v j raw := OGoExportWrite (n_ v) j raw.
Definition wCtorFrom k sv := OCtorFrom k (n_ sv).
Definition sN (m e : Z) : sval := SNum (to_bits (dec m e)).
Definition wIncludes v x (f : option iarg) := OIncludes (n_ v) x f.
Definition wIndexOf v x (f : option iarg) := OIndexOf (n_ v) x f.
Definition wLastIndexOf v x (f : option iarg) := OLastIndexOf (n_ v) x f.

Inductive ores :=
| XUndef | XNum (m e : Z) | XBig (z : Z) | XErr (e : err) | XPanic | XOther
| XNew (len : Z) | XLens (a b c : Z) | XBool (b : bool) | XExp (off len hash : Z).

(* one step: result, "all canary bytes around every Go-supplied buffer are intact", a 32-bit
   polynomial hash of the memory of all buffers (-1: same as at the previous step), and the bit mask
   of the buffers that ArrayBuffer.Detached() reports as detached *)
Record sobs := mkO { o_res : ores; o_canary : bool; o_hash : Z; o_det : Z }.

Fixpoint det_mask (bs : list buffer) (w : Z) : Z :=
  match bs with
  | [] => 0
  | b :: r => (if b_det b then w else 0) + det_mask r (2 * w)
  end.

(* initial buffers are (length, seed) pairs expanded by the same generator on both sides;
   c_final is a 61-bit hash of all memory at the end of the history *)
Record tcase := mkCase { c_init : list (Z * Z); c_ops : list op; c_obs : list sobs; c_final : Z }.

Fixpoint lcg_bytes (n : nat) (x : Z) : list N :=
  match n with
  | O => []
  | S n' => let x' := (x * 1103515245 + 12345) mod 2147483648 in
            Z.to_N ((x' / 65536) mod 256) :: lcg_bytes n' x'
  end.
Definition init_buf (ns : Z * Z) : buffer :=
  mkBuf (lcg_bytes (Z.to_nat (fst ns)) (snd ns mod 2147483648)) false.
Definition init_state (c : tcase) : state := mkSt (map init_buf (c_init c)) [] [].

Definition hash_gen (mul mask : Z) (st : state) : Z :=
  fold_left (fun h b => Z.land (fold_left (fun h x => Z.land (h * mul + Z.of_N x + 1) mask) (b_bytes b) h * mul + 300) mask)
            (bufs st) 7.
Definition hash32 := hash_gen 257 4294967295.                 (* mod 2^32 *)
Definition hash61 := hash_gen 1000003 2305843009213693951.    (* mod 2^61 *)

Definition res_match (o : ores) (r : res) : bool :=
  match o, r with
  | XUndef, RUndef => true
  | XNum m e, RElt (EInt z) => to_bits (of_Z z) =? to_bits (dec m e)
  | XNum m e, RElt (EFlt f) => to_bits f =? to_bits (dec m e)
  | XBig a, RElt (EBig z) => a =? z
  | XErr TypeError, RErr TypeError => true
  | XErr RangeError, RErr RangeError => true
  | XPanic, RPanic => true
  | XNew a, RNewView n => a =? n
  | XNew a, RNewBuf n => a =? n
  | XLens a b c, RLens x y z => (a =? x) && (b =? y) && (c =? z)
  | XBool a, RBool b => Bool.eqb a b
  | XExp a b c, RExp x y z => (a =? x) && (b =? y) && (c =? z)
  | _, _ => false
  end.

(* index of the first step at which the implementation's observation differs from the model *)
Fixpoint first_bad (m : mode) (st : state) (cur : Z) (i : nat) (ops : list op) (obs : list sobs) (fin : Z) : option nat :=
  match ops, obs with
  | [], [] => if hash61 st =? fin then None else Some i
  | o :: ops', s :: obs' =>
      let '(st', r, _) := step m st o in
      let cur' := if o_hash s <? 0 then cur else o_hash s in
      if res_match (o_res s) r && o_canary s && (hash32 st' =? cur') && (det_mask (bufs st') 1 =? o_det s)
      then first_bad m st' cur' (S i) ops' obs' fin
      else Some i
  | _, _ => Some i
  end.

Definition bad (m : mode) (c : tcase) : option nat :=
  first_bad m (init_state c) (hash32 (init_state c)) 0 (c_ops c) (c_obs c) (c_final c).

(* the model's own safety: every range touched by reading m of the model is live and inside the
   regions the operation is entitled to *)
Fixpoint touches_ok (m : mode) (st : state) (ops : list op) : bool :=
  match ops with
  | [] => true
  | o :: r => let '(st', _, t) := step m st o in forallb (touch_ok (allowed st o)) t && touches_ok m st' r
  end.

(* the oracle is S; in addition the transcription of goja's arithmetic (MI) and S itself must stay
   inside the view on this very history *)
Definition check_case (c : tcase) : bool :=
  match bad MS c with None => true | Some _ => false end
  && touches_ok MI (init_state c) (c_ops c) && touches_ok MS (init_state c) (c_ops c).

Fixpoint mismatch_from (i : N) (cs : list tcase) : list N :=
  match cs with
  | [] => []
  | c :: r => if check_case c then mismatch_from (N.succ i) r else i :: mismatch_from (N.succ i) r
  end.
Definition mismatch_ids := mismatch_from 0%N.

(* the model's own run: per step the result, the buffers' bytes, and whether every touched range
   was live and inside the regions the operation is entitled to *)
Fixpoint trace (m : mode) (st : state) (ops : list op) : list (res * list (list N) * bool) :=
  match ops with
  | [] => []
  | o :: r =>
      let '(st', x, t) := step m st o in
      (x, map b_bytes (bufs st'), forallb (touch_ok (allowed st o)) t) :: trace m st' r
  end.

Record expect := mkX { first_bad_S : option nat; first_bad_I : option nat;
                       touches_ok_I : bool; touches_ok_S : bool;
                       step_S : option (res * list (list N) * bool); step_I : option (res * list (list N) * bool) }.

Definition expected (c : tcase) : expect :=
  let bs := bad MS c in
  let bi := bad MI c in
  let at_ (m : mode) := match bs with
                        | Some i => nth_error (trace m (init_state c) (c_ops c)) i
                        | None => None
                        end in
  mkX bs bi (touches_ok MI (init_state c) (c_ops c)) (touches_ok MS (init_state c) (c_ops c)) (at_ MS) (at_ MI).
