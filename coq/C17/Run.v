(* C17 — executable instantiation used by the correspondence check (depends on Model.v only). *)
From Coq Require Import ZArith List Bool NArith SpecFloat.
From Verif.Base Require Import F64.
From Verif.C17 Require Export Model.
Import ListNotations.
Local Open Scope Z_scope.

(* what the harness saw *)
Inductive ores :=
| XUndef | XNum (bits : Z) | XBig (z : Z) | XErr (e : err) | XPanic | XOther
| XNew (len : Z) | XLens (a b c : Z).

(* one step: result, "all canary bytes around every Go-supplied buffer are intact", and the packed
   contents (sentinel 1, then the bytes, base 256, first byte most significant) of every buffer whose
   memory differs from the previous step (new buffers are appended with the next id) *)
Record sobs := mkO { o_res : ores; o_canary : bool; o_delta : list (nat * N) }.

Record tcase := mkCase { c_init : list N; c_ops : list op; c_obs : list sobs }.

Definition pack (l : list N) : N := fold_left (fun acc b => (acc * 256 + b)%N) l 1%N.
Fixpoint unpack (fuel : nat) (x : N) (acc : list N) : list N :=
  match fuel with
  | O => acc
  | S f => if (x <=? 1)%N then acc else unpack f (x / 256)%N ((x mod 256)%N :: acc)
  end.

Definition init_state (c : tcase) : state :=
  mkSt (map (fun x => mkBuf (unpack 4096 x []) false) (c_init c)) [] [].

Definition res_match (o : ores) (r : res) : bool :=
  match o, r with
  | XUndef, RUndef => true
  | XNum b, RElt (EInt z) => to_bits (of_Z z) =? b
  | XNum b, RElt (EFlt f) => to_bits f =? b
  | XBig a, RElt (EBig z) => a =? z
  | XErr TypeError, RErr TypeError => true
  | XErr RangeError, RErr RangeError => true
  | XPanic, RPanic => true
  | XNew a, RNewView n => a =? n
  | XNew a, RNewBuf n => a =? n
  | XLens a b c, RLens x y z => (a =? x) && (b =? y) && (c =? z)
  | _, _ => false
  end.

Fixpoint set_nth (i : nat) (x : N) (l : list N) : list N :=
  match l, i with
  | [], _ => [x]                       (* id = current length: a new buffer *)
  | _ :: r, O => x :: r
  | y :: r, S j => y :: set_nth j x r
  end.
Definition apply_delta (cur : list N) (d : list (nat * N)) : list N :=
  fold_left (fun c '(i, x) => set_nth i x c) d cur.

Fixpoint list_eqb (a b : list N) : bool :=
  match a, b with
  | [], [] => true
  | x :: a', y :: b' => N.eqb x y && list_eqb a' b'
  | _, _ => false
  end.

Definition packed (st : state) : list N := map (fun b => pack (b_bytes b)) (bufs st).

(* index of the first step at which the implementation's observation differs from the model *)
Fixpoint first_bad (m : mode) (st : state) (cur : list N) (i : nat) (ops : list op) (obs : list sobs) : option nat :=
  match ops, obs with
  | [], [] => None
  | o :: ops', s :: obs' =>
      let '(st', r, _) := step m st o in
      let cur' := apply_delta cur (o_delta s) in
      if res_match (o_res s) r && o_canary s && list_eqb (packed st') cur'
      then first_bad m st' cur' (S i) ops' obs'
      else Some i
  | _, _ => Some i
  end.

Definition bad (m : mode) (c : tcase) : option nat :=
  first_bad m (init_state c) (c_init c) 0 (c_ops c) (c_obs c).

(* the oracle is S *)
Definition check_case (c : tcase) : bool := match bad MS c with None => true | Some _ => false end.

Fixpoint mismatch_from (i : N) (cs : list tcase) : list N :=
  match cs with
  | [] => []
  | c :: r => if check_case c then mismatch_from (N.succ i) r else i :: mismatch_from (N.succ i) r
  end.
Definition mismatch_ids := mismatch_from 0%N.

(* the model's own run: per step the result, the packed buffers, and whether every touched range
   was live and inside the regions the operation is entitled to *)
Fixpoint trace (m : mode) (st : state) (ops : list op) : list (res * list N * bool) :=
  match ops with
  | [] => []
  | o :: r =>
      let '(st', x, t) := step m st o in
      (x, packed st', forallb (touch_ok (allowed st o)) t) :: trace m st' r
  end.

Record expect := mkX { first_bad_S : option nat; first_bad_I : option nat;
                       step_S : option (res * list N * bool); step_I : option (res * list N * bool) }.

Definition expected (c : tcase) : expect :=
  let bs := bad MS c in
  let bi := bad MI c in
  let at_ (m : mode) := match bs with
                        | Some i => nth_error (trace m (init_state c) (c_ops c)) i
                        | None => None
                        end in
  mkX bs bi (at_ MS) (at_ MI).
