(* C17 — typed arrays / DataViews / ArrayBuffers over byte lists.
   Executable definitions only; no proofs in this file.

   Two readings of every operation, selected by [mode]:
     MS = ECMA-262 (10.4.5, 23.2, 25.1-25.3) written plainly;
     MI = goja's arithmetic as written in typedarrays.go / builtin_typedarrays.go / runtime.go
          (after the round-1 repairs: copyWithin clamp, set(array) through _putIdx, modular
          integer conversions, BigInt64 raw sign, DataView/ArrayBuffer.slice detach checks; and the
          round-3 repairs: fill converts the value first, [[Set]] always converts the value).
   The two share the skeleton of an operation (coercions in argument order, validation, byte
   access); every place where goja's code differs from the specification is an explicit
   [match m with MS => .. | MI => .. end].
   Every operation returns the new state, the result, and the list of byte ranges it touched
   together with the liveness (not detached) of the buffer at the moment of the access.
   A detached buffer keeps its bytes in the model: they are the Go owner's memory (the slab the
   harness supplied), which nothing may touch after the detach.
   ToIntegerOrInfinity is represented with +-infinity saturated at the int64 limits (what goja's
   floatToIntClip does); every consumer compares against lengths below 2^53, so the two agree. *)
From Coq Require Import ZArith List Bool NArith SpecFloat.
From Verif.Base Require Import F64.
Import ListNotations.
Local Open Scope Z_scope.

Inductive kind := Int8 | Uint8 | Uint8C | Int16 | Uint16 | Int32 | Uint32
                | Float32 | Float64 | BigInt64 | BigUint64.

Definition esize (k : kind) : Z :=
  match k with
  | Int8 | Uint8 | Uint8C => 1
  | Int16 | Uint16 => 2
  | Int32 | Uint32 | Float32 => 4
  | Float64 | BigInt64 | BigUint64 => 8
  end.
Definition is_big (k : kind) : bool := match k with BigInt64 | BigUint64 => true | _ => false end.
Definition kind_eqb (a b : kind) : bool :=
  match a, b with
  | Int8, Int8 | Uint8, Uint8 | Uint8C, Uint8C | Int16, Int16 | Uint16, Uint16 | Int32, Int32
  | Uint32, Uint32 | Float32, Float32 | Float64, Float64 | BigInt64, BigInt64
  | BigUint64, BigUint64 => true
  | _, _ => false
  end.

Inductive mode := MS | MI.

(* ------------------------------------------------------------------ bytes *)
Fixpoint le_bytes (n : nat) (z : Z) : list N :=
  match n with O => [] | S n' => Z.to_N (z mod 256) :: le_bytes n' (z / 256) end.
Fixpoint le_val (l : list N) : Z :=
  match l with [] => 0 | b :: r => Z.of_N b + 256 * le_val r end.
Definition nbytes (k : kind) : nat := Z.to_nat (esize k).
Definition order (le : bool) (l : list N) : list N := if le then l else rev l.

(* ------------------------------------------------------------------ element conversions *)
Inductive elt := EInt (z : Z) | EFlt (f : spec_float) | EBig (z : Z).   (* a typed element value *)
Inductive pv := PNum (f : spec_float) | PBig (z : Z).                   (* a Number or a BigInt *)

Definition wrap_u (bits z : Z) : Z := z mod 2 ^ bits.
Definition wrap_s (bits z : Z) : Z :=
  let u := z mod 2 ^ bits in if u <? 2 ^ (bits - 1) then u else u - 2 ^ bits.

(* truncate(ToNumber) feeding the modular conversions; NaN, +-inf -> 0.
   MI: floatToInt64Mod32: int64(f) inside [-2^63, 2^63), else int64(math.Mod(f, 2^32)) (Go's Mod has
   the sign of the dividend: Z.rem) *)
Definition int_of_float (m : mode) (f : spec_float) : Z :=
  match trunc_Z f with
  | None => 0
  | Some t =>
      match m with
      | MS => t
      | MI => if (- 2 ^ 63 <=? t) && (t <? 2 ^ 63) then t else Z.rem t (2 ^ 32)
      end
  end.

(* ToUint8Clamp: clamp to 0..255, round half to even; exact arithmetic on m * 2^e *)
Definition clamp8 (f : spec_float) : Z :=
  match f with
  | S754_nan => 0
  | S754_zero _ => 0
  | S754_infinity s => if s then 0 else 255
  | S754_finite true _ _ => 0
  | S754_finite false m e =>
      if 0 <=? e then Z.min 255 (Z.pos m * 2 ^ e)
      else
        let d := 2 ^ (- e) in
        let q := Z.pos m / d in
        let r := Z.pos m mod d in
        if 255 <=? q then 255
        else match 2 * r ?= d with
             | Lt => q
             | Gt => q + 1
             | Eq => if Z.even q then q else q + 1
             end
  end.

(* well-formed (canonical, bounded) floats of a format *)
Definition wfb (prec emax : Z) (x : spec_float) : bool :=
  match x with
  | S754_finite _ m e =>
      let emin := 3 - emax - prec in
      ((2 ^ (prec - 1) <=? Z.pos m) && (Z.pos m <? 2 ^ prec) && (emin <=? e) && (e <=? emax - prec))
      || ((Z.pos m <? 2 ^ (prec - 1)) && (e =? emin))
  | _ => true
  end.
(* binary64 -> binary32, round to nearest even; self-checked so that every result is a binary32 *)
Definition to_f32c (f : spec_float) : spec_float :=
  let y := to_f32 f in if wfb 24 128 y then y else S754_nan.

(* the unsigned bit pattern stored for value p in an element of kind k; None = TypeError
   (the bit pattern of a stored NaN is implementation-defined in ECMA-262; goja stores Go's
   math.NaN() = 0x7FF8000000000001, and 0x7FC00000 in a Float32 element)
   (a BigInt given to a Number kind or the reverse) *)
Definition raw_bits (m : mode) (k : kind) (p : pv) : option Z :=
  match k, p with
  | Int8, PNum f | Uint8, PNum f => Some (wrap_u 8 (int_of_float m f))
  | Uint8C, PNum f => Some (clamp8 f)
  | Int16, PNum f | Uint16, PNum f => Some (wrap_u 16 (int_of_float m f))
  | Int32, PNum f | Uint32, PNum f => Some (wrap_u 32 (int_of_float m f))
  | Float32, PNum f => Some (to_bits32 (to_f32c f))
  | Float64, PNum f => Some (if is_nan f then 9221120237041090561 else to_bits f)
  | BigInt64, PBig z | BigUint64, PBig z => Some (wrap_u 64 z)
  | _, _ => None
  end.

(* ToInt8 ... ToBigUint64 / the value an element of kind k holds after storing p *)
Definition to_type (m : mode) (k : kind) (p : pv) : option elt :=
  match k, p with
  | Int8, PNum f => Some (EInt (wrap_s 8 (int_of_float m f)))
  | Uint8, PNum f => Some (EInt (wrap_u 8 (int_of_float m f)))
  | Uint8C, PNum f => Some (EInt (clamp8 f))
  | Int16, PNum f => Some (EInt (wrap_s 16 (int_of_float m f)))
  | Uint16, PNum f => Some (EInt (wrap_u 16 (int_of_float m f)))
  | Int32, PNum f => Some (EInt (wrap_s 32 (int_of_float m f)))
  | Uint32, PNum f => Some (EInt (wrap_u 32 (int_of_float m f)))
  | Float32, PNum f => Some (EFlt (of_f32 (to_f32c f)))
  | Float64, PNum f => Some (EFlt f)
  | BigInt64, PBig z => Some (EBig (wrap_s 64 z))
  | BigUint64, PBig z => Some (EBig (wrap_u 64 z))
  | _, _ => None
  end.

(* NumericToRawBytes / RawBytesToNumeric *)
Definition num_to_raw (m : mode) (k : kind) (le : bool) (p : pv) : option (list N) :=
  option_map (fun z => order le (le_bytes (nbytes k) z)) (raw_bits m k p).

Definition raw_to_num (k : kind) (le : bool) (bs : list N) : elt :=
  let z := le_val (order le bs) in
  match k with
  | Int8 => EInt (wrap_s 8 z)
  | Int16 => EInt (wrap_s 16 z)
  | Int32 => EInt (wrap_s 32 z)
  | Uint8 | Uint8C | Uint16 | Uint32 => EInt z
  | Float32 => EFlt (of_f32 (of_bits32 z))
  | Float64 => EFlt (of_bits z)
  | BigInt64 => EBig (wrap_s 64 z)
  | BigUint64 => EBig z
  end.

Definition pv_of_elt (e : elt) : pv :=
  match e with EInt z => PNum (of_Z z) | EFlt f => PNum f | EBig z => PBig z end.

(* ------------------------------------------------------------------ state *)
Record buffer := mkBuf { b_bytes : list N; b_det : bool }.
Record view := mkView { v_buf : nat; v_off : Z; v_len : Z; v_kind : kind }.   (* byteOffset, length *)
Record dview := mkDv { d_buf : nat; d_off : Z; d_len : Z }.
Record state := mkSt { bufs : list buffer; views : list view; dviews : list dview }.

(* a touched byte range [t_lo, t_lo + t_n) of buffer t_buf; t_live = the buffer was not detached
   at the moment of the access *)
Record touch := mkT { t_buf : nat; t_lo : Z; t_n : Z; t_live : bool }.

Inductive err := TypeError | RangeError.
Inductive res :=
| RUndef | RElt (e : elt) | RErr (e : err) | RPanic
| RNewView (len : Z) | RNewBuf (len : Z) | RLens (len bytelen byteoff : Z) | RBool (b : bool)
| RExp (off len hash : Z).       (* window of an exported native slice (offset from the buffer start, elements) and a hash of its bytes *)

Definition blen (b : buffer) : Z := Z.of_nat (length (b_bytes b)).
Definition getb (st : state) (b : nat) : option buffer := nth_error (bufs st) b.
Definition is_det (st : state) (b : nat) : bool :=
  match getb st b with Some x => b_det x | None => true end.
(* len(buf.data): 0 once detached *)
Definition jlen (st : state) (b : nat) : Z :=
  match getb st b with Some x => if b_det x then 0 else blen x | None => 0 end.
(* the length of the memory itself *)
Definition mlen (st : state) (b : nat) : Z :=
  match getb st b with Some x => blen x | None => 0 end.

Fixpoint upd_nth {A} (i : nat) (f : A -> A) (l : list A) : list A :=
  match l, i with
  | [], _ => []
  | x :: r, O => f x :: r
  | x :: r, S j => x :: upd_nth j f r
  end.

Definition set_bufs (st : state) (bs : list buffer) : state := mkSt bs (views st) (dviews st).
Definition detach (st : state) (b : nat) : state :=
  set_bufs st (upd_nth b (fun x => mkBuf (b_bytes x) true) (bufs st)).

Definition rd (l : list N) (i n : Z) : list N := firstn (Z.to_nat n) (skipn (Z.to_nat i) l).
Fixpoint wr_nat (l : list N) (i : nat) (bs : list N) : list N :=
  match l with
  | [] => []
  | x :: r =>
      match i with
      | S j => x :: wr_nat r j bs
      | O => match bs with [] => l | b :: bs' => b :: wr_nat r O bs' end
      end
  end.
Definition wr (l : list N) (i : Z) (bs : list N) : list N :=
  if i <? 0 then l else wr_nat l (Z.to_nat i) bs.

Definition rd_buf (st : state) (b : nat) (i n : Z) : list N :=
  match getb st b with Some x => rd (b_bytes x) i n | None => [] end.
Definition wr_buf (st : state) (b : nat) (i : Z) (bs : list N) : state :=
  set_bufs st (upd_nth b (fun x => mkBuf (wr (b_bytes x) i bs) (b_det x)) (bufs st)).
Definition tch (st : state) (b : nat) (lo n : Z) : touch := mkT b lo n (negb (is_det st b)).

(* ------------------------------------------------------------------ arguments and coercion *)
(* an index-like argument: the Number with bit pattern i_bits, or an object whose valueOf detaches
   buffer i_det and then returns that Number *)
Record iarg := mkI { i_bits : Z; i_det : option nat }.
(* an element value: Number (bits) or BigInt (integer), optionally wrapped the same way *)
Record varg := mkV { va_big : bool; va_z : Z; va_det : option nat }.

Definition eff (st : state) (d : option nat) : state :=
  match d with Some b => detach st b | None => st end.

Definition to_integer (bits : Z) : Z :=
  match of_bits bits with
  | S754_nan => 0
  | S754_infinity s => if s then - 2 ^ 63 else 2 ^ 63 - 1
  | f => match trunc_Z f with
         | Some t => Z.max (- 2 ^ 63) (Z.min (2 ^ 63 - 1) t)
         | None => 0
         end
  end.
Definition co_int (st : state) (a : iarg) : state * Z := (eff st (i_det a), to_integer (i_bits a)).
Definition co_opt (st : state) (a : option iarg) (dflt : Z) : state * Z :=
  match a with None => (st, dflt) | Some a => co_int st a end.
Definition co_val (st : state) (a : varg) : state * pv :=
  (eff st (va_det a), if va_big a then PBig (va_z a) else PNum (of_bits (va_z a))).

Definition rel_idx (rel l : Z) : Z := if 0 <=? rel then Z.min rel l else Z.max (l + rel) 0.
Definition to_index (z : Z) : option Z := if (0 <=? z) && (z <? 2 ^ 53) then Some z else None.

(* ------------------------------------------------------------------ element access *)
(* byte address of element idx: spec byteOffset + idx*size; goja (offset_in_elements + idx)*size *)
Definition addr (m : mode) (vw : view) (idx : Z) : Z :=
  let sz := esize (v_kind vw) in
  match m with MS => v_off vw + idx * sz | MI => (v_off vw / sz + idx) * sz end.

(* IsValidIntegerIndex for an integral, non -0 index z *)
Definition valid_idx (st : state) (vw : view) (z : Z) : bool :=
  negb (is_det st (v_buf vw)) && (0 <=? z) && (z <? v_len vw).

Definition get_elt (m : mode) (st : state) (vw : view) (idx : Z) : elt * touch :=
  let a := addr m vw idx in
  let k := v_kind vw in
  (raw_to_num k true (rd_buf st (v_buf vw) a (esize k)), tch st (v_buf vw) a (esize k)).

Definition put_raw (m : mode) (st : state) (vw : view) (idx : Z) (bs : list N) : state * touch :=
  let a := addr m vw idx in
  (wr_buf st (v_buf vw) a bs, tch st (v_buf vw) a (esize (v_kind vw))).

(* a canonical numeric property key: an integer (any size, any sign), or something that is numeric
   but no integer index ("-0", "1.5", "NaN", "Infinity", "1e-7") *)
Inductive key := KIdx (z : Z) | KNonInt.

(* a search element: it is compared, never converted *)
Inductive sval := SNum (bits : Z) | SBig (z : Z) | SUndef.

Inductive op :=
| OCtor (k : kind) (b : nat) (off len : option iarg)          (* new T(B[b], off, len) *)
| ODvCtor (b : nat) (off len : option iarg)                   (* new DataView(B[b], off, len) *)
| OGet (v : nat) (k : key)
| OSet (v : nat) (k : key) (a : varg)
| OSetArr (v : nat) (src : list varg) (off : iarg)            (* V[v].set([...], off) *)
| OSetTyped (v : nat) (src : nat) (off : iarg)                (* V[v].set(V[src], off) *)
| OCopyWithin (v : nat) (t f : iarg) (e : option iarg)
| OFill (v : nat) (a : varg) (s e : option iarg)
| OSlice (v : nat) (s e : option iarg)
| OSubarray (v : nat) (s e : option iarg)
| OReverse (v : nat)
| OSort (v : nat)                                             (* V[v].sort() without comparator *)
| ODvGet (d : nat) (k : kind) (i : iarg) (le : option bool)   (* None: littleEndian argument omitted *)
| ODvSet (d : nat) (k : kind) (i : iarg) (a : varg) (le : option bool)
| OBufSlice (b : nat) (s e : option iarg)
| OGoWrite (b : nat) (i : Z) (x : N)                          (* the Go owner writes its slice *)
| ODetach (b : nat)                                           (* ArrayBuffer.Detach() from Go *)
| OLens (v : nat)                                             (* length, byteLength, byteOffset *)
| OIncludes (v : nat) (x : sval) (from : option iarg)         (* V[v].includes(x, from) *)
| OIndexOf (v : nat) (x : sval) (from : option iarg)
| OLastIndexOf (v : nat) (x : sval) (from : option iarg)
| OCtorFrom (k : kind) (sv : nat)                             (* new T(V[sv]): a new array on a new buffer *)
| OGoExport (v : nat)                                         (* Go: V[v].Export() / ExportTo(&[]T): the native slice *)
| OGoExportWrite (v : nat) (j : Z) (raw : Z).                 (* Go writes element j through that slice *)

Definition out := (state * res * list touch)%type.
Definition fail (st : state) (e : err) (t : list touch) : out := (st, RErr e, t).

Definition add_view (st : state) (vw : view) : state := mkSt (bufs st) (views st ++ [vw]) (dviews st).
Definition add_dview (st : state) (dv : dview) : state := mkSt (bufs st) (views st) (dviews st ++ [dv]).

(* --- new T(buffer, byteOffset, length): InitializeTypedArrayFromArrayBuffer /
       _newTypedArrayFromArrayBuffer (same order of checks in both) *)
Definition op_ctor (st : state) (k : kind) (b : nat) (off len : option iarg) : out :=
  let sz := esize k in
  let '(st1, o) := co_opt st off 0 in
  match to_index o with
  | None => fail st1 RangeError []
  | Some offset =>
      if negb (offset mod sz =? 0) then fail st1 RangeError [] else
      match len with
      | Some la =>
          let '(st2, l) := co_int st1 la in
          match to_index l with
          | None => fail st2 RangeError []
          | Some n =>
              if is_det st2 b then fail st2 TypeError [] else
              if offset + n * sz >? jlen st2 b then fail st2 RangeError [] else
              (add_view st2 (mkView b offset n k), RNewView n, [])
          end
      | None =>
          if is_det st1 b then fail st1 TypeError [] else
          let bl := jlen st1 b in
          if negb (bl mod sz =? 0) then fail st1 RangeError [] else
          if bl - offset <? 0 then fail st1 RangeError [] else
          (add_view st1 (mkView b offset ((bl - offset) / sz) k), RNewView ((bl - offset) / sz), [])
      end
  end.

(* --- new DataView(buffer, byteOffset, byteLength): the length is checked against the buffer length
       read before ToIndex(byteLength); detachment is tested again afterwards *)
Definition op_dvctor (st : state) (b : nat) (off len : option iarg) : out :=
  let '(st1, o) := co_opt st off 0 in
  match to_index o with
  | None => fail st1 RangeError []
  | Some offset =>
      if is_det st1 b then fail st1 TypeError [] else
      let bl := jlen st1 b in
      if offset >? bl then fail st1 RangeError [] else
      match len with
      | None => (add_dview st1 (mkDv b offset (bl - offset)), RNewView (bl - offset), [])
      | Some la =>
          let '(st2, l) := co_int st1 la in
          match to_index l with
          | None => fail st2 RangeError []
          | Some n =>
              if offset + n >? bl then fail st2 RangeError [] else
              if is_det st2 b then fail st2 TypeError [] else
              (add_dview st2 (mkDv b offset n), RNewView n, [])
          end
      end
  end.

Definition with_view (st : state) (v : nat) (f : view -> out) : out :=
  match nth_error (views st) v with Some vw => f vw | None => fail st TypeError [] end.

(* --- V[v][key] *)
Definition op_get (m : mode) (st : state) (v : nat) (k : key) : out :=
  with_view st v (fun vw =>
    match k with
    | KNonInt => (st, RUndef, [])
    | KIdx z =>
        if valid_idx st vw z then let '(e, t) := get_elt m st vw z in (st, RElt e, [t])
        else (st, RUndef, [])
    end).

(* --- V[v][key] = a   (TypedArraySetElement: convert -- also for a numeric key that is no integer
       index --, then test the index, then store) *)
Definition op_set (m : mode) (st : state) (v : nat) (k : key) (a : varg) : out :=
  with_view st v (fun vw =>
    let '(st1, p) := co_val st a in
    match num_to_raw m (v_kind vw) true p with
    | None => fail st1 TypeError []
    | Some bs =>
        match k with
        | KNonInt => (st1, RUndef, [])
        | KIdx z =>
            if valid_idx st1 vw z then let '(st2, t) := put_raw m st1 vw z bs in (st2, RUndef, [t])
            else (st1, RUndef, [])
        end
    end).

(* --- V[v].set(array, off): every element through TypedArraySetElement / _putIdx:
       ToNumber/ToBigInt first (may detach), then IsValidIntegerIndex, then the store *)
Fixpoint setarr_loop (m : mode) (st : state) (vw : view) (i : Z) (src : list varg) (acc : list touch) : out :=
  match src with
  | [] => (st, RUndef, acc)
  | a :: r =>
      let '(st1, p) := co_val st a in
      match num_to_raw m (v_kind vw) true p with
      | None => fail st1 TypeError acc
      | Some bs =>
          if valid_idx st1 vw i then
            let '(st2, t) := put_raw m st1 vw i bs in setarr_loop m st2 vw (i + 1) r (acc ++ [t])
          else setarr_loop m st1 vw (i + 1) r acc
      end
  end.

Definition op_setarr (m : mode) (st : state) (v : nat) (src : list varg) (off : iarg) : out :=
  with_view st v (fun vw =>
    let '(st1, toff) := co_int st off in
    if toff <? 0 then fail st1 RangeError [] else
    if is_det st1 (v_buf vw) then fail st1 TypeError [] else
    if Z.of_nat (length src) + toff >? v_len vw then fail st1 RangeError [] else
    setarr_loop m st1 vw toff src []).

(* --- V[v].set(V[src], off) *)
Fixpoint seqZ (lo : Z) (n : nat) : list Z := match n with O => [] | S n' => lo :: seqZ (lo + 1) n' end.

(* S: the source elements are read first (the spec clones the source when the buffers coincide) *)
Fixpoint read_all (st : state) (src : view) (idxs : list Z) : list (elt * touch) :=
  match idxs with [] => [] | i :: r => get_elt MS st src i :: read_all st src r end.
Fixpoint write_all (st : state) (dst : view) (i : Z) (es : list (elt * touch)) (acc : list touch) : out :=
  match es with
  | [] => (st, RUndef, acc)
  | (e, t0) :: r =>
      match num_to_raw MS (v_kind dst) true (pv_of_elt e) with
      | None => fail st TypeError acc
      | Some bs => let '(st1, t) := put_raw MS st dst i bs in write_all st1 dst (i + 1) r (acc ++ [t0; t])
      end
  end.
(* I: element by element, in place, in goja's order *)
Fixpoint copy_inplace (st : state) (dst src : view) (toff : Z) (idxs : list Z) (acc : list touch) : out :=
  match idxs with
  | [] => (st, RUndef, acc)
  | i :: r =>
      let '(e, t0) := get_elt MI st src i in
      match num_to_raw MI (v_kind dst) true (pv_of_elt e) with
      | None => fail st TypeError acc
      | Some bs => let '(st1, t) := put_raw MI st dst (toff + i) bs in copy_inplace st1 dst src toff r (acc ++ [t0; t])
      end
  end.

Definition goja_order (dst src : view) (toff : Z) : list Z :=
  let n := Z.to_nat (v_len src) in
  let up := seqZ 0 n in
  if negb (Nat.eqb (v_buf dst) (v_buf src)) then up else
  let ss := esize (v_kind src) in
  let ds := esize (v_kind dst) in
  let d := addr MI dst toff - addr MI src 0 in
  if ss =? ds then
    if (d <=? 0) || (d >=? v_len src * ss) then up else rev up
  else
    let x0 := Z.quot d (ss - ds) in
    let x := if x0 <? 0 then 0 else if x0 >? v_len src then v_len src else x0 in
    let xn := Z.to_nat x in
    if ds <? ss then seqZ x (n - xn) ++ rev (seqZ 0 xn)
    else seqZ 0 xn ++ rev (seqZ x (n - xn)).

Definition op_settyped (m : mode) (st : state) (v sv : nat) (off : iarg) : out :=
  with_view st v (fun dst =>
  with_view st sv (fun src =>
    let '(st1, toff) := co_int st off in
    if toff <? 0 then fail st1 RangeError [] else
    if is_det st1 (v_buf dst) then fail st1 TypeError [] else
    if is_det st1 (v_buf src) then fail st1 TypeError [] else
    (* SetTypedArrayFromTypedArray: the size test (RangeError) precedes the content-type test *)
    if v_len src + toff >? v_len dst then fail st1 RangeError [] else
    if negb (Bool.eqb (is_big (v_kind src)) (is_big (v_kind dst))) then fail st1 TypeError [] else
    let ss := esize (v_kind src) in
    if kind_eqb (v_kind src) (v_kind dst) then
      (* same element type: one block move of the bytes (memmove semantics) *)
      let sa := addr m src 0 in
      let da := addr m dst toff in
      let n := v_len src * ss in
      let bs := rd_buf st1 (v_buf src) sa n in
      (wr_buf st1 (v_buf dst) da bs, RUndef,
       if n >? 0 then [tch st1 (v_buf src) sa n; tch st1 (v_buf dst) da n] else [])
    else
      match m with
      | MS => write_all st1 dst toff (read_all st1 src (seqZ 0 (Z.to_nat (v_len src)))) []
      | MI => if v_len src =? 0 then (st1, RUndef, [])
              else copy_inplace st1 dst src toff (goja_order dst src toff) []
      end)).

(* --- V[v].copyWithin(target, start, end): count = min(final - from, len - to); the buffer is tested
       for detachment again only when count > 0 *)
Definition op_copywithin (m : mode) (st : state) (v : nat) (t f : iarg) (e : option iarg) : out :=
  with_view st v (fun vw =>
    if is_det st (v_buf vw) then fail st TypeError [] else
    let l := v_len vw in
    let sz := esize (v_kind vw) in
    let '(st1, rt) := co_int st t in
    let '(st2, rf) := co_int st1 f in
    let '(st3, re) := co_opt st2 e l in
    let to := rel_idx rt l in
    let from := rel_idx rf l in
    let final := rel_idx re l in
    let count := Z.min (final - from) (l - to) in
    if count >? 0 then
      if is_det st3 (v_buf vw) then fail st3 TypeError [] else
      let bs := rd_buf st3 (v_buf vw) (addr m vw from) (count * sz) in
      (wr_buf st3 (v_buf vw) (addr m vw to) bs, RUndef,
       [tch st3 (v_buf vw) (addr m vw from) (count * sz); tch st3 (v_buf vw) (addr m vw to) (count * sz)])
    else (st3, RUndef, [])).

(* --- V[v].fill(value, start, end) *)
Definition repeat_bytes (bs : list N) (n : Z) : list N := concat (repeat bs (Z.to_nat n)).

Definition fill_tail (m : mode) (st : state) (vw : view) (bs : list N) (rs re : Z) : out :=
  let l := v_len vw in
  let k := rel_idx rs l in
  let final := rel_idx re l in
  if is_det st (v_buf vw) then fail st TypeError [] else
  if final >? k then
    (wr_buf st (v_buf vw) (addr m vw k) (repeat_bytes bs (final - k)), RUndef,
     [tch st (v_buf vw) (addr m vw k) ((final - k) * esize (v_kind vw))])
  else (st, RUndef, []).

(* order of the coercions: value, start, end *)
Definition op_fill (m : mode) (st : state) (v : nat) (a : varg) (s e : option iarg) : out :=
  with_view st v (fun vw =>
    if is_det st (v_buf vw) then fail st TypeError [] else
    let l := v_len vw in
    let '(s1, p) := co_val st a in
    match num_to_raw m (v_kind vw) true p with
    | None => fail s1 TypeError []
    | Some bs =>
        let '(s2, rs) := co_opt s1 s 0 in
        let '(s3, re) := co_opt s2 e l in
        fill_tail m s3 vw bs rs re
    end).

(* --- V[v].slice(start, end)  (default species: a new array on a new buffer) *)
Definition op_slice (m : mode) (st : state) (v : nat) (s e : option iarg) : out :=
  with_view st v (fun vw =>
    if is_det st (v_buf vw) then fail st TypeError [] else
    let l := v_len vw in
    let sz := esize (v_kind vw) in
    let '(st1, rs) := co_opt st s 0 in
    let '(st2, re) := co_opt st1 e l in
    let start := rel_idx rs l in
    let final := rel_idx re l in
    let count := Z.max (final - start) 0 in
    let nb := length (bufs st2) in
    if count >? 0 then
      if is_det st2 (v_buf vw) then fail st2 TypeError [] else
      let bs := rd_buf st2 (v_buf vw) (addr m vw start) (count * sz) in
      (mkSt (bufs st2 ++ [mkBuf bs false]) (views st2 ++ [mkView nb 0 count (v_kind vw)]) (dviews st2),
       RNewView count,
       [tch st2 (v_buf vw) (addr m vw start) (count * sz); mkT nb 0 (count * sz) true])
    else
      (mkSt (bufs st2 ++ [mkBuf [] false]) (views st2 ++ [mkView nb 0 0 (v_kind vw)]) (dviews st2),
       RNewView 0, [])).

(* --- V[v].subarray(begin, end): a new view on the same buffer, made by the constructor *)
Definition op_subarray (m : mode) (st : state) (v : nat) (s e : option iarg) : out :=
  with_view st v (fun vw =>
    let l := v_len vw in
    let sz := esize (v_kind vw) in
    let '(st1, rs) := co_opt st s 0 in
    let '(st2, re) := co_opt st1 e l in
    let b := rel_idx rs l in
    let final := rel_idx re l in
    let n := Z.max (final - b) 0 in
    let boff := addr m vw b in
    if is_det st2 (v_buf vw) then fail st2 TypeError [] else
    if boff + n * sz >? jlen st2 (v_buf vw) then fail st2 RangeError [] else
    (add_view st2 (mkView (v_buf vw) boff n (v_kind vw)), RNewView n, [])).

(* --- V[v].reverse() *)
Fixpoint chunks (n : nat) (fuel : nat) (l : list N) : list (list N) :=
  match fuel with
  | O => []
  | S f => match l with [] => [] | _ => firstn n l :: chunks n f (skipn n l) end
  end.
Definition op_reverse (m : mode) (st : state) (v : nat) : out :=
  with_view st v (fun vw =>
    if is_det st (v_buf vw) then fail st TypeError [] else
    let sz := esize (v_kind vw) in
    let n := v_len vw * sz in
    let a := addr m vw 0 in
    if v_len vw >=? 2 then
      let bs := rd_buf st (v_buf vw) a n in
      let rv := concat (rev (chunks (Z.to_nat sz) (length bs) bs)) in
      (wr_buf st (v_buf vw) a rv, RUndef, [tch st (v_buf vw) a n])
    else (st, RUndef, [])).

(* --- V[v].sort(): numeric order, -0 before +0, NaN last, stable (23.2.3.29 / typedFloatLess) *)
Definition elt_lt (x y : elt) : bool :=
  match x, y with
  | EInt a, EInt b | EBig a, EBig b => a <? b
  | EFlt a, EFlt b =>
      if is_nan b then negb (is_nan a)
      else if is_nan a then false
      else if is_zero a && is_zero b then sign_bit a && negb (sign_bit b)
      else SFltb a b
  | _, _ => false
  end.
Fixpoint sort_insert (k : kind) (x : list N) (l : list (list N)) : list (list N) :=
  match l with
  | [] => [x]
  | y :: r => if elt_lt (raw_to_num k true y) (raw_to_num k true x) then y :: sort_insert k x r
              else x :: y :: r
  end.
Definition sort_chunks (k : kind) (l : list (list N)) : list (list N) := fold_right (sort_insert k) [] l.

Definition op_sort (m : mode) (st : state) (v : nat) : out :=
  with_view st v (fun vw =>
    if is_det st (v_buf vw) then fail st TypeError [] else
    let sz := esize (v_kind vw) in
    let n := v_len vw * sz in
    let a := addr m vw 0 in
    if v_len vw >=? 2 then
      let bs := rd_buf st (v_buf vw) a n in
      let sv := concat (sort_chunks (v_kind vw) (chunks (Z.to_nat sz) (length bs) bs)) in
      (wr_buf st (v_buf vw) a sv, RUndef, [tch st (v_buf vw) a n])
    else (st, RUndef, [])).

(* --- DataView get/set: GetViewValue / SetViewValue ; getIdxAndByteOrder.
       An omitted littleEndian argument means big-endian. *)
Definition le_of (le : option bool) : bool := match le with Some b => b | None => false end.

Definition op_dvget (m : mode) (st : state) (d : nat) (k : kind) (i : iarg) (le : option bool) : out :=
  match nth_error (dviews st) d with
  | None => fail st TypeError []
  | Some dv =>
      let '(st1, ri) := co_int st i in
      match to_index ri with
      | None => fail st1 RangeError []
      | Some idx =>
          if is_det st1 (d_buf dv) then fail st1 TypeError [] else
          if idx + esize k >? d_len dv then fail st1 RangeError [] else
          let a := d_off dv + idx in
          (st1, RElt (raw_to_num k (le_of le) (rd_buf st1 (d_buf dv) a (esize k))), [tch st1 (d_buf dv) a (esize k)])
      end
  end.

Definition op_dvset (m : mode) (st : state) (d : nat) (k : kind) (i : iarg) (a : varg) (le : option bool) : out :=
  match nth_error (dviews st) d with
  | None => fail st TypeError []
  | Some dv =>
      let '(st1, ri) := co_int st i in
      match to_index ri with
      | None => fail st1 RangeError []
      | Some idx =>
          let '(st2, p) := co_val st1 a in
          match num_to_raw m k (le_of le) p with
          | None => fail st2 TypeError []
          | Some bs =>
              if is_det st2 (d_buf dv) then fail st2 TypeError [] else
              if idx + esize k >? d_len dv then fail st2 RangeError [] else
              let ad := d_off dv + idx in
              (wr_buf st2 (d_buf dv) ad bs, RUndef, [tch st2 (d_buf dv) ad (esize k)])
          end
      end
  end.

(* --- B[b].slice(start, end): TypeError for a detached receiver, before the coercions and again
       after the result was constructed, whatever its length *)
Definition op_bufslice (st : state) (b : nat) (s e : option iarg) : out :=
  if is_det st b then fail st TypeError [] else
  let l := jlen st b in
  let '(st1, rs) := co_opt st s 0 in
  let '(st2, re) := co_opt st1 e l in
  let first := rel_idx rs l in
  let final := rel_idx re l in
  let n := Z.max (final - first) 0 in
  let nb := length (bufs st2) in
  if is_det st2 b then fail st2 TypeError [] else
  let bs := rd_buf st2 b first n in
  (mkSt (bufs st2 ++ [mkBuf bs false]) (views st2) (dviews st2), RNewBuf n,
   if n >? 0 then [tch st2 b first n; mkT nb 0 n true] else []).

(* --- V[v].includes / indexOf / lastIndexOf: read-only scans.  The search element is compared with
       the element values (SameValueZero for includes, strict equality for the other two); only
       fromIndex is converted.  After a detach during that conversion the elements read as undefined. *)
Definition elt_float (e : elt) : option spec_float :=
  match e with EInt z => Some (of_Z z) | EFlt f => Some f | EBig _ => None end.
Definition strict_eq (x : sval) (e : elt) : bool :=
  match x, e with
  | SNum b, EBig _ => false
  | SNum b, _ => match elt_float e with Some f => feqb (of_bits b) f | None => false end
  | SBig a, EBig z => a =? z
  | _, _ => false
  end.
Definition svz_eq (x : sval) (e : elt) : bool :=
  match x, e with
  | SNum b, EFlt f => (is_nan (of_bits b) && is_nan f) || feqb (of_bits b) f
  | _, _ => strict_eq x e
  end.
Fixpoint find_idx (p : Z -> bool) (l : list Z) : option Z :=
  match l with [] => None | i :: r => if p i then Some i else find_idx p r end.
Definition scan (m : mode) (st : state) (vw : view) (eq : sval -> elt -> bool) (x : sval) (idxs : list Z) : option Z :=
  find_idx (fun i => eq x (fst (get_elt m st vw i))) idxs.
Definition is_undef (x : sval) : bool := match x with SUndef => true | _ => false end.
Definition ridx (z : Z) : res := RElt (EInt z).

Definition op_search_fwd (incl : bool) (m : mode) (st : state) (v : nat) (x : sval) (from : option iarg) : out :=
  with_view st v (fun vw =>
    let none := if incl then RBool false else ridx (-1) in
    if is_det st (v_buf vw) then fail st TypeError [] else
    let l := v_len vw in
    if l =? 0 then (st, none, []) else
    let '(st1, n) := co_opt st from 0 in
    if n >=? l then (st1, none, []) else
    let k := if n <? 0 then Z.max (l + n) 0 else n in
    if is_det st1 (v_buf vw) then (st1, if incl then RBool (is_undef x) else none, []) else
    match scan m st1 vw (if incl then svz_eq else strict_eq) x (seqZ k (Z.to_nat (l - k))) with
    | Some i => (st1, if incl then RBool true else ridx i,
                 [tch st1 (v_buf vw) (addr m vw k) ((i + 1 - k) * esize (v_kind vw))])
    | None => (st1, none, [tch st1 (v_buf vw) (addr m vw k) ((l - k) * esize (v_kind vw))])
    end).

Definition op_lastindexof (m : mode) (st : state) (v : nat) (x : sval) (from : option iarg) : out :=
  with_view st v (fun vw =>
    if is_det st (v_buf vw) then fail st TypeError [] else
    let l := v_len vw in
    if l =? 0 then (st, ridx (-1), []) else
    let '(st1, n) := co_opt st from (l - 1) in
    let k := if 0 <=? n then Z.min n (l - 1) else l + n in
    if k <? 0 then (st1, ridx (-1), []) else
    if is_det st1 (v_buf vw) then (st1, ridx (-1), []) else
    match scan m st1 vw strict_eq x (rev (seqZ 0 (Z.to_nat (k + 1)))) with
    | Some i => (st1, ridx i, [tch st1 (v_buf vw) (addr m vw i) ((k + 1 - i) * esize (v_kind vw))])
    | None => (st1, ridx (-1), [tch st1 (v_buf vw) (addr m vw 0) ((k + 1) * esize (v_kind vw))])
    end).

(* --- new T(typedArray): InitializeTypedArrayFromTypedArray / _newTypedArrayFromTypedArray.
       Same element type: the bytes are cloned; otherwise every element is converted (the content
       types must agree).  The result lives on a fresh buffer, so there is no overlap. *)
Definition conv_chunk (m : mode) (k : kind) (e : elt) : list N :=
  match num_to_raw m k true (pv_of_elt e) with
  | Some bs => bs
  | None => repeat 0%N (nbytes k)
  end.
Definition op_ctorfrom (m : mode) (st : state) (k : kind) (sv : nat) : out :=
  with_view st sv (fun src =>
    if is_det st (v_buf src) then fail st TypeError [] else
    if negb (Bool.eqb (is_big (v_kind src)) (is_big k)) then fail st TypeError [] else
    let n := v_len src in
    let ss := esize (v_kind src) in
    let nb := length (bufs st) in
    let bs := if kind_eqb (v_kind src) k then rd_buf st (v_buf src) (addr m src 0) (n * ss)
              else concat (map (fun i => conv_chunk m k (fst (get_elt m st src i))) (seqZ 0 (Z.to_nat n))) in
    (mkSt (bufs st ++ [mkBuf bs false]) (views st ++ [mkView nb 0 n k]) (dviews st), RNewView n,
     if n >? 0 then [tch st (v_buf src) (addr m src 0) (n * ss); mkT nb 0 (n * esize k) true] else [])).

(* --- Go side: Value.Export() of a typed-array VIEW gives a native slice ([]int8 ... []float64) that must
       alias exactly the bytes of the view: it starts at byteOffset and has length elements.
       After a detach the slice is empty (like ArrayBuffer.Bytes()). *)
Definition bytes_hash (l : list N) : Z :=
  fold_left (fun h x => Z.land (h * 257 + Z.of_N x + 1) 4294967295) l 7.

Definition op_goexport (m : mode) (st : state) (v : nat) : out :=
  with_view st v (fun vw =>
    let n := v_len vw * esize (v_kind vw) in
    if is_det st (v_buf vw) then (st, RExp 0 0 (bytes_hash []), [])
    else
      (st, RExp (addr m vw 0) (v_len vw) (bytes_hash (rd_buf st (v_buf vw) (addr m vw 0) n)),
       if n >? 0 then [tch st (v_buf vw) (addr m vw 0) n] else [])).

Definition op_goexportwrite (m : mode) (st : state) (v : nat) (j raw : Z) : out :=
  with_view st v (fun vw =>
    if valid_idx st vw j then
      let '(st1, t) := put_raw m st vw j (le_bytes (nbytes (v_kind vw)) raw) in (st1, RUndef, [t])
    else (st, RUndef, [])).

Definition op_lens (st : state) (v : nat) : out :=
  with_view st v (fun vw =>
    if is_det st (v_buf vw) then (st, RLens 0 0 0, [])
    else (st, RLens (v_len vw) (v_len vw * esize (v_kind vw)) (v_off vw), [])).

Definition step (m : mode) (st : state) (o : op) : out :=
  match o with
  | OCtor k b off len => op_ctor st k b off len
  | ODvCtor b off len => op_dvctor st b off len
  | OGet v k => op_get m st v k
  | OSet v k a => op_set m st v k a
  | OSetArr v src off => op_setarr m st v src off
  | OSetTyped v sv off => op_settyped m st v sv off
  | OCopyWithin v t f e => op_copywithin m st v t f e
  | OFill v a s e => op_fill m st v a s e
  | OSlice v s e => op_slice m st v s e
  | OSubarray v s e => op_subarray m st v s e
  | OReverse v => op_reverse m st v
  | OSort v => op_sort m st v
  | ODvGet d k i le => op_dvget m st d k i le
  | ODvSet d k i a le => op_dvset m st d k i a le
  | OBufSlice b s e => op_bufslice st b s e
  | OGoWrite b i x => (wr_buf st b i [x], RUndef, [])
  | ODetach b => (detach st b, RUndef, [])
  | OLens v => op_lens st v
  | OIncludes v x from => op_search_fwd true m st v x from
  | OIndexOf v x from => op_search_fwd false m st v x from
  | OLastIndexOf v x from => op_lastindexof m st v x from
  | OCtorFrom k sv => op_ctorfrom m st k sv
  | OGoExport v => op_goexport m st v
  | OGoExportWrite v j raw => op_goexportwrite m st v j raw
  end.

(* the byte regions an operation is entitled to touch, as (buffer, lo, hi):
   the views / DataViews it names, the whole source buffer for ArrayBuffer.prototype.slice,
   and any buffer created by the operation itself *)
Definition view_region (st : state) (v : nat) : list (nat * Z * Z) :=
  match nth_error (views st) v with
  | Some vw => [(v_buf vw, v_off vw, v_off vw + v_len vw * esize (v_kind vw))]
  | None => []
  end.
Definition dview_region (st : state) (d : nat) : list (nat * Z * Z) :=
  match nth_error (dviews st) d with
  | Some dv => [(d_buf dv, d_off dv, d_off dv + d_len dv)]
  | None => []
  end.
(* a buffer created by slice: never larger than the source view *)
Definition new_region (st : state) (v : nat) : list (nat * Z * Z) :=
  match nth_error (views st) v with
  | Some vw => [(length (bufs st), 0, v_len vw * esize (v_kind vw))]
  | None => []
  end.
(* a buffer created by new T(typedArray): length(source) elements of kind k *)
Definition new_region_k (st : state) (k : kind) (v : nat) : list (nat * Z * Z) :=
  match nth_error (views st) v with
  | Some vw => [(length (bufs st), 0, v_len vw * esize k)]
  | None => []
  end.
Definition allowed (st : state) (o : op) : list (nat * Z * Z) :=
  match o with
  | OGet v _ | OSet v _ _ | OSetArr v _ _ | OCopyWithin v _ _ _ | OFill v _ _ _ | OReverse v | OSort v
  | OLens v | OSubarray v _ _ | OIncludes v _ _ | OIndexOf v _ _ | OLastIndexOf v _ _
  | OGoExport v | OGoExportWrite v _ _ => view_region st v
  | OSetTyped v sv _ => view_region st v ++ view_region st sv
  | OSlice v _ _ => view_region st v ++ new_region st v
  | OCtorFrom k sv => view_region st sv ++ new_region_k st k sv
  | ODvGet d _ _ _ | ODvSet d _ _ _ _ => dview_region st d
  | OBufSlice b _ _ => [(b, 0, mlen st b); (length (bufs st), 0, mlen st b)]
  | OCtor _ _ _ _ | ODvCtor _ _ _ | OGoWrite _ _ _ | ODetach _ => []
  end.

Definition touch_ok (al : list (nat * Z * Z)) (t : touch) : bool :=
  (t_n t <=? 0) ||
  (t_live t && existsb (fun '(b, lo, hi) => Nat.eqb b (t_buf t) && (lo <=? t_lo t) && (t_lo t + t_n t <=? hi)) al).
