(* C17 — RawBytesToNumeric (NumericToRawBytes v) = ToType v for all 11 kinds and both byte orders.
   Integers: the little-endian codec + modular arithmetic.  Floats: the bit-pattern codec of Base/F64
   (to_bits / of_bits on SpecFloat) is inverted on every well-formed float of the format. *)
From Coq Require Import ZArith List Bool NArith SpecFloat Lia ZifyBool.
From Verif.Base Require Import F64.
From Verif.C17 Require Import Model Proofs.
Import ListNotations.
Local Open Scope Z_scope.

(* ------------------------------------------------------------------ binary32 *)
Lemma to_bits32_fin : forall s m e, to_bits32 (S754_finite s m e) =
  if Z.pos m <? 8388608 then (if s then 2147483648 else 0) + Z.pos m
  else (if s then 2147483648 else 0) + (e + 150) * 8388608 + (Z.pos m - 8388608).
Proof. intros. unfold to_bits32, to_bits_gen. cbv zeta.
  change (2 ^ (24 - 1)) with 8388608. change (2 ^ (24 - 1 + 8)) with 2147483648.
  change (3 - 2 ^ (8 - 1) - 24) with (-149).
  destruct (Z.pos m <? 8388608); [reflexivity|]. f_equal. f_equal. lia.
Qed.

Lemma of_bits32_eq : forall b, of_bits32 b =
  let b := b mod 4294967296 in
  let s := 2147483648 <=? b in
  let ex := (b / 8388608) mod 256 in
  let mant := b mod 8388608 in
  if ex =? 255 then (if mant =? 0 then S754_infinity s else S754_nan)
  else if ex =? 0 then match mant with Zpos p => S754_finite s p (-149) | _ => S754_zero s end
  else match mant + 8388608 with Zpos p => S754_finite s p (ex - 1 + -149) | _ => S754_zero s end.
Proof. intros. reflexivity. Qed.

Lemma bits32_roundtrip : forall x, wfb 24 128 x = true -> of_bits32 (to_bits32 x mod 2 ^ 32) = x.
Proof.
  intros x H. destruct x as [s|s| |s m e].
  - destruct s; vm_compute; reflexivity.
  - destruct s; vm_compute; reflexivity.
  - vm_compute; reflexivity.
  - unfold wfb in H. change (2 ^ (24 - 1)) with 8388608 in H. change (2 ^ 24) with 16777216 in H.
    change (3 - 128 - 24) with (-149) in H. change (128 - 24) with 104 in H.
    rewrite to_bits32_fin, of_bits32_eq. change (2 ^ 32) with 4294967296. cbv zeta.
    destruct (Z.pos m <? 8388608) eqn:Hsub.
    + assert (He : e = -149) by lia. subst e.
      set (sg := if s then 2147483648 else 0).
      assert (Hsg : sg = 0 \/ sg = 2147483648) by (unfold sg; destruct s; auto).
      rewrite Z.mod_mod by lia.
      assert (Hb : (sg + Z.pos m) mod 4294967296 = sg + Z.pos m) by (apply Z.mod_small; lia). rewrite Hb.
      assert (Hs : (2147483648 <=? sg + Z.pos m) = s) by (unfold sg; destruct s; lia). rewrite Hs.
      assert (Hex : ((sg + Z.pos m) / 8388608) mod 256 = 0).
      { destruct Hsg as [-> | ->].
        - rewrite Z.div_small by lia. reflexivity.
        - replace (2147483648 + Z.pos m) with (Z.pos m + 256 * 8388608) by lia.
          rewrite Z.div_add by lia. rewrite Z.div_small by lia. reflexivity. }
      rewrite Hex.
      assert (Hm : (sg + Z.pos m) mod 8388608 = Z.pos m).
      { destruct Hsg as [-> | ->].
        - apply Z.mod_small; lia.
        - replace (2147483648 + Z.pos m) with (Z.pos m + 256 * 8388608) by lia.
          rewrite Z.mod_add by lia. apply Z.mod_small; lia. }
      rewrite Hm. reflexivity.
    + assert (Hr : 8388608 <= Z.pos m < 16777216 /\ -149 <= e <= 104) by lia.
      set (sg := if s then 2147483648 else 0).
      assert (Hsg : sg = 0 \/ sg = 2147483648) by (unfold sg; destruct s; auto).
      set (b := sg + (e + 150) * 8388608 + (Z.pos m - 8388608)).
      rewrite Z.mod_mod by lia.
      assert (Hb : b mod 4294967296 = b) by (apply Z.mod_small; unfold b; lia). rewrite Hb.
      assert (Hs : (2147483648 <=? b) = s) by (unfold b, sg; destruct s; lia). rewrite Hs.
      assert (Hd : b / 8388608 = sg / 8388608 + (e + 150)).
      { unfold b. destruct Hsg as [-> | ->].
        - replace (0 + (e + 150) * 8388608 + (Z.pos m - 8388608)) with ((Z.pos m - 8388608) + (e + 150) * 8388608) by lia.
          rewrite Z.div_add by lia. rewrite Z.div_small by lia. reflexivity.
        - replace (2147483648 + (e + 150) * 8388608 + (Z.pos m - 8388608)) with ((Z.pos m - 8388608) + (256 + (e + 150)) * 8388608) by lia.
          rewrite Z.div_add by lia. rewrite Z.div_small by lia. reflexivity. }
      assert (Hex : (b / 8388608) mod 256 = e + 150).
      { rewrite Hd. destruct Hsg as [-> | ->].
        - apply Z.mod_small; simpl; lia.
        - change (2147483648 / 8388608) with (1 * 256). rewrite Z.add_comm, Z.mod_add by lia. apply Z.mod_small; lia. }
      rewrite Hex.
      assert (Hm : b mod 8388608 = Z.pos m - 8388608).
      { unfold b. destruct Hsg as [-> | ->].
        - replace (0 + (e + 150) * 8388608 + (Z.pos m - 8388608)) with ((Z.pos m - 8388608) + (e + 150) * 8388608) by lia.
          rewrite Z.mod_add by lia. apply Z.mod_small; lia.
        - replace (2147483648 + (e + 150) * 8388608 + (Z.pos m - 8388608)) with ((Z.pos m - 8388608) + (256 + (e + 150)) * 8388608) by lia.
          rewrite Z.mod_add by lia. apply Z.mod_small; lia. }
      rewrite Hm.
      destruct (e + 150 =? 255) eqn:E1; [lia|]. destruct (e + 150 =? 0) eqn:E2; [lia|].
      replace (Z.pos m - 8388608 + 8388608) with (Z.pos m) by lia.
      f_equal. lia.
Qed.

(* ------------------------------------------------------------------ binary64 *)
Lemma to_bits64_fin : forall s m e, to_bits (S754_finite s m e) =
  if Z.pos m <? 4503599627370496 then (if s then 9223372036854775808 else 0) + Z.pos m
  else (if s then 9223372036854775808 else 0) + (e + 1075) * 4503599627370496 + (Z.pos m - 4503599627370496).
Proof. intros. unfold to_bits, to_bits_gen. cbv zeta.
  change (2 ^ (53 - 1)) with 4503599627370496. change (2 ^ (53 - 1 + 11)) with 9223372036854775808.
  change (3 - 2 ^ (11 - 1) - 53) with (-1074).
  destruct (Z.pos m <? 4503599627370496); [reflexivity|]. f_equal. f_equal. lia.
Qed.

Lemma of_bits64_eq : forall b, of_bits b =
  let b := b mod 18446744073709551616 in
  let s := 9223372036854775808 <=? b in
  let ex := (b / 4503599627370496) mod 2048 in
  let mant := b mod 4503599627370496 in
  if ex =? 2047 then (if mant =? 0 then S754_infinity s else S754_nan)
  else if ex =? 0 then match mant with Zpos p => S754_finite s p (-1074) | _ => S754_zero s end
  else match mant + 4503599627370496 with Zpos p => S754_finite s p (ex - 1 + -1074) | _ => S754_zero s end.
Proof. intros. reflexivity. Qed.

Lemma bits64_roundtrip : forall x, wfb 53 1024 x = true -> of_bits (to_bits x mod 2 ^ 64) = x.
Proof.
  intros x H. destruct x as [s|s| |s m e].
  - destruct s; vm_compute; reflexivity.
  - destruct s; vm_compute; reflexivity.
  - vm_compute; reflexivity.
  - unfold wfb in H. change (2 ^ (53 - 1)) with 4503599627370496 in H. change (2 ^ 53) with 9007199254740992 in H.
    change (3 - 1024 - 53) with (-1074) in H. change (1024 - 53) with 971 in H.
    rewrite to_bits64_fin, of_bits64_eq. change (2 ^ 64) with 18446744073709551616. cbv zeta.
    destruct (Z.pos m <? 4503599627370496) eqn:Hsub.
    + assert (He : e = -1074) by lia. subst e.
      set (sg := if s then 9223372036854775808 else 0).
      assert (Hsg : sg = 0 \/ sg = 9223372036854775808) by (unfold sg; destruct s; auto).
      rewrite Z.mod_mod by lia.
      assert (Hb : (sg + Z.pos m) mod 18446744073709551616 = sg + Z.pos m) by (apply Z.mod_small; lia). rewrite Hb.
      assert (Hs : (9223372036854775808 <=? sg + Z.pos m) = s) by (unfold sg; destruct s; lia). rewrite Hs.
      assert (Hex : ((sg + Z.pos m) / 4503599627370496) mod 2048 = 0).
      { destruct Hsg as [-> | ->].
        - rewrite Z.div_small by lia. reflexivity.
        - replace (9223372036854775808 + Z.pos m) with (Z.pos m + 2048 * 4503599627370496) by lia.
          rewrite Z.div_add by lia. rewrite Z.div_small by lia. reflexivity. }
      rewrite Hex.
      assert (Hm : (sg + Z.pos m) mod 4503599627370496 = Z.pos m).
      { destruct Hsg as [-> | ->].
        - apply Z.mod_small; lia.
        - replace (9223372036854775808 + Z.pos m) with (Z.pos m + 2048 * 4503599627370496) by lia.
          rewrite Z.mod_add by lia. apply Z.mod_small; lia. }
      rewrite Hm. reflexivity.
    + assert (Hr : 4503599627370496 <= Z.pos m < 9007199254740992 /\ -1074 <= e <= 971) by lia.
      set (sg := if s then 9223372036854775808 else 0).
      assert (Hsg : sg = 0 \/ sg = 9223372036854775808) by (unfold sg; destruct s; auto).
      set (b := sg + (e + 1075) * 4503599627370496 + (Z.pos m - 4503599627370496)).
      rewrite Z.mod_mod by lia.
      assert (Hb : b mod 18446744073709551616 = b) by (apply Z.mod_small; unfold b; lia). rewrite Hb.
      assert (Hs : (9223372036854775808 <=? b) = s) by (unfold b, sg; destruct s; lia). rewrite Hs.
      assert (Hd : b / 4503599627370496 = sg / 4503599627370496 + (e + 1075)).
      { unfold b. destruct Hsg as [-> | ->].
        - replace (0 + (e + 1075) * 4503599627370496 + (Z.pos m - 4503599627370496)) with ((Z.pos m - 4503599627370496) + (e + 1075) * 4503599627370496) by lia.
          rewrite Z.div_add by lia. rewrite Z.div_small by lia. reflexivity.
        - replace (9223372036854775808 + (e + 1075) * 4503599627370496 + (Z.pos m - 4503599627370496)) with ((Z.pos m - 4503599627370496) + (2048 + (e + 1075)) * 4503599627370496) by lia.
          rewrite Z.div_add by lia. rewrite Z.div_small by lia. reflexivity. }
      assert (Hex : (b / 4503599627370496) mod 2048 = e + 1075).
      { rewrite Hd. destruct Hsg as [-> | ->].
        - apply Z.mod_small; simpl; lia.
        - change (9223372036854775808 / 4503599627370496) with (1 * 2048). rewrite Z.add_comm, Z.mod_add by lia. apply Z.mod_small; lia. }
      rewrite Hex.
      assert (Hm : b mod 4503599627370496 = Z.pos m - 4503599627370496).
      { unfold b. destruct Hsg as [-> | ->].
        - replace (0 + (e + 1075) * 4503599627370496 + (Z.pos m - 4503599627370496)) with ((Z.pos m - 4503599627370496) + (e + 1075) * 4503599627370496) by lia.
          rewrite Z.mod_add by lia. apply Z.mod_small; lia.
        - replace (9223372036854775808 + (e + 1075) * 4503599627370496 + (Z.pos m - 4503599627370496)) with ((Z.pos m - 4503599627370496) + (2048 + (e + 1075)) * 4503599627370496) by lia.
          rewrite Z.mod_add by lia. apply Z.mod_small; lia. }
      rewrite Hm.
      destruct (e + 1075 =? 2047) eqn:E1; [lia|]. destruct (e + 1075 =? 0) eqn:E2; [lia|].
      replace (Z.pos m - 4503599627370496 + 4503599627370496) with (Z.pos m) by lia.
      f_equal. lia.
Qed.

(* every 64-bit pattern decodes to a well-formed binary64 *)
Lemma of_bits_wf : forall b, wfb 53 1024 (of_bits b) = true.
Proof.
  intros b. rewrite of_bits64_eq. cbv zeta.
  set (b' := b mod 18446744073709551616).
  assert (Hb : 0 <= b' < 18446744073709551616) by (apply Z.mod_pos_bound; lia).
  assert (Hex : 0 <= (b' / 4503599627370496) mod 2048 < 2048) by (apply Z.mod_pos_bound; lia).
  assert (Hm : 0 <= b' mod 4503599627370496 < 4503599627370496) by (apply Z.mod_pos_bound; lia).
  set (ex := (b' / 4503599627370496) mod 2048) in *. set (mant := b' mod 4503599627370496) in *.
  destruct (ex =? 2047) eqn:E1.
  { destruct (mant =? 0); reflexivity. }
  destruct (ex =? 0) eqn:E2.
  { destruct mant as [|p|p] eqn:Em; try reflexivity.
    unfold wfb. change (2 ^ (53 - 1)) with 4503599627370496. change (3 - 1024 - 53) with (-1074).
    apply orb_true_iff. right. lia. }
  destruct (mant + 4503599627370496) as [|p|p] eqn:Em; try reflexivity.
  unfold wfb. change (2 ^ (53 - 1)) with 4503599627370496. change (2 ^ 53) with 9007199254740992.
  change (3 - 1024 - 53) with (-1074). change (1024 - 53) with 971.
  apply orb_true_iff. left. lia.
Qed.

Lemma to_f32c_wf : forall f, wfb 24 128 (to_f32c f) = true.
Proof. intros f. unfold to_f32c. destruct (wfb 24 128 (to_f32 f)) eqn:E; [exact E|reflexivity]. Qed.

(* ------------------------------------------------------------------ the round trip *)
Definition pv_wf (p : pv) : Prop := match p with PNum f => wfb 53 1024 f = true | PBig _ => True end.

Theorem raw_roundtrip : forall m k le p,
  pv_wf p -> option_map (raw_to_num k le) (num_to_raw m k le p) = to_type m k p.
Proof.
  intros m k le p Hwf. unfold num_to_raw.
  destruct k, p; cbn [raw_bits option_map to_type]; try reflexivity;
    unfold raw_to_num; cbv zeta; rewrite order_order, le_val_le_bytes; apply f_equal; apply f_equal.
  - change (8 * Z.of_nat (nbytes Int8)) with 8. unfold wrap_u. rewrite !wrap_s_mod8. reflexivity.
  - change (8 * Z.of_nat (nbytes Uint8)) with 8. unfold wrap_u. rewrite Z.mod_mod by (compute; discriminate). reflexivity.
  - change (8 * Z.of_nat (nbytes Uint8C)) with 8. apply Z.mod_small. pose proof (clamp8_range f). change (2 ^ 8) with 256. lia.
  - change (8 * Z.of_nat (nbytes Int16)) with 16. unfold wrap_u. rewrite !wrap_s_mod16. reflexivity.
  - change (8 * Z.of_nat (nbytes Uint16)) with 16. unfold wrap_u. rewrite Z.mod_mod by (compute; discriminate). reflexivity.
  - change (8 * Z.of_nat (nbytes Int32)) with 32. unfold wrap_u. rewrite !wrap_s_mod32. reflexivity.
  - change (8 * Z.of_nat (nbytes Uint32)) with 32. unfold wrap_u. rewrite Z.mod_mod by (compute; discriminate). reflexivity.
  - change (8 * Z.of_nat (nbytes Float32)) with 32. apply f_equal. apply bits32_roundtrip. apply to_f32c_wf.
  - change (8 * Z.of_nat (nbytes Float64)) with 64. simpl in Hwf.
    destruct (is_nan f) eqn:En.
    + destruct f; try discriminate En. vm_compute. reflexivity.
    + apply bits64_roundtrip. exact Hwf.
  - change (8 * Z.of_nat (nbytes BigInt64)) with 64. unfold wrap_u. rewrite !wrap_s_mod64. reflexivity.
  - change (8 * Z.of_nat (nbytes BigUint64)) with 64. unfold wrap_u. rewrite Z.mod_mod by (compute; discriminate). reflexivity.
Qed.

(* the Numbers the harness (and any script) can supply are bit patterns: no side condition *)
Corollary raw_roundtrip_bits : forall m k le z,
  option_map (raw_to_num k le) (num_to_raw m k le (PNum (of_bits z))) = to_type m k (PNum (of_bits z)).
Proof. intros. apply raw_roundtrip. simpl. apply of_bits_wf. Qed.
Corollary raw_roundtrip_big : forall m k le z,
  option_map (raw_to_num k le) (num_to_raw m k le (PBig z)) = to_type m k (PBig z).
Proof. intros. apply raw_roundtrip. exact I. Qed.
