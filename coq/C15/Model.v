(* C15 — An interrupt from any goroutine at any moment stops the script promptly, cleanly.
   Executable definitions only.

   Part 1  the run loop of vm.run() as a step function over an arbitrary instruction semantics
           (poll of the flag BEFORE the next instruction is executed, vm.go:628-635).
   Part 2  handleThrow on an explicit try stack (vm.go:800-844), catchable and uncatchable payloads.
   Part 3  the control skeleton: an execution-tree semantics with explicit callStack length, tryStack,
           iterStack, jobQueue, flag and value; every push/pop of vm.go / func.go / runtime.go that moves
           these is transcribed, including which pops are deferred (run on the panic path).  After the repairs
           22853aa (dropStacks) and 195c9cc (leaveOnPanic) goja's frame discipline IS the specification: every
           frame is popped on every path, so there is one model.
   Part 4  the interleaving model of the flag protocol (Interrupt / poll+read) with happens-before. *)
From Coq Require Import List Arith NArith Bool Lia.
Import ListNotations.

(* ------------------------------------------------------------------------------------------- *)
(* Part 1: the run loop                                                                         *)

Section RunLoop.
  Variable S : Type.
  Variable flag : S -> bool.            (* atomic.LoadUint32(&vm.interrupted) != 0 *)
  Variable halted : S -> bool.          (* pc < 0 || pc >= len(code) *)
  Variable exec : S -> S.               (* vm.prg.code[pc].exec(vm): arbitrary, may set or clear the flag *)
  (* the environment: another goroutine may store the flag between the poll and the exec of iteration n
     ([env_mid n]) or during/after the exec, before the next poll ([env_end n]) *)
  Variable env_mid env_end : nat -> S -> S.

  Inductive lres := LInterrupted (s : S) (executed : nat) | LHalted (s : S) (executed : nat) | LFuel.

  (* iteration [it] of the for-loop of vm.run(); [n] counts executed instructions *)
  Fixpoint loop (fuel it n : nat) (s : S) : lres :=
    match fuel with
    | 0 => LFuel
    | Datatypes.S fuel' =>
        if flag s then LInterrupted s n
        else if halted s then LHalted s n
        else loop fuel' (Datatypes.S it) (Datatypes.S n) (env_end it (exec (env_mid it s)))
    end.
End RunLoop.
Arguments LInterrupted {S}. Arguments LHalted {S}. Arguments LFuel {S}.

(* ------------------------------------------------------------------------------------------- *)
(* Part 2: handleThrow on an explicit try stack                                                 *)

Inductive fkind := FMarker | FHandler (hasCatch hasFinally : bool).
(* FHandler false false = a frame whose catchPos and finallyPos were both consumed (-1,-1) *)
Record frame := mkFrame { f_cs : nat; f_it : nat; f_kind : fkind }.

Definition is_marker (f : frame) : bool := match f_kind f with FMarker => true | _ => false end.

Inductive hres :=
| HCatch (f : frame)            (* control goes to the catch block of f *)
| HFinally (f : frame)          (* control goes to the finally block of f *)
| HReturnEx                     (* stopped at a tryPanicMarker frame (or empty stack): ex returned to Go *)
| HRepanic.                     (* uncatchable: panic(arg) again *)

(* returns the remaining try stack (top = head) and where control goes; [catchable = false] is ex == nil *)
Fixpoint handle_throw (catchable : bool) (ts : list frame) : list frame * hres :=
  match ts with
  | [] => ([], if catchable then HReturnEx else HRepanic)
  | f :: r =>
      match f_kind f with
      | FMarker => (ts, if catchable then HReturnEx else HRepanic)
      | FHandler c fi =>
          if negb catchable then handle_throw catchable r          (* ex == nil && catchPos != marker: pop *)
          else if c then (mkFrame (f_cs f) (f_it f) (FHandler false fi) :: r, HCatch f)
          else if fi then (mkFrame (f_cs f) (f_it f) (FHandler false false) :: r, HFinally f)
          else handle_throw catchable r                             (* both -1: pop *)
      end
  end.

(* ------------------------------------------------------------------------------------------- *)
(* Part 3: the control skeleton                                                                 *)

Inductive nkind :=
| NCb                       (* builtin calling back through baseJsFuncObject.__call: sort comparator, forEach *)
| NGet                      (* accessor called straight from an instruction (no native context; vm.prg != nil, so
                               __call pushes a context and the extra halting frame, func.go:418-421) *)
| NGo (swallow : bool)      (* Go function calling a Callable from AssertFunction (runWrapped + vm.try + __call) *)
| NRun (swallow : bool).    (* Go function calling Runtime.RunString (recursive RunProgram) *)
(* swallow = the Go function ignores the returned error and returns normally; otherwise it panics with it *)

Inductive instr :=
| IEv (e : N)                                         (* log(e) *)
| IProbe                                              (* probe(): logs 7; the k-th call interrupts *)
| IProbeThrow                                         (* pthrow(): a probe that then panics with a catchable error:
                                                         a catchable exception unwinds while the interrupt is pending *)
| IThrow                                              (* throw (catchable) *)
| ITry (b : code) (hc : bool) (c : code) (hf : bool) (f : code)
| ICall (b : code)                                    (* JS -> JS call, same run loop *)
| INat (k : nkind) (cbs : codes)                      (* native function re-entering JS once per element *)
| IForOf (ret : option N) (bodies : codes)            (* for-of over a script iterator; one body per iteration;
                                                         ret = Some e: the iterator has a return() logging e *)
| IGen (segs : codes)                                 (* g.next() once per segment of a generator body *)
| IGenRet (pre fin : code)                            (* function*(){ try { pre; yield } finally { fin } }: g.next(); g.return() *)
| IAsyncN (pres posts : codes)                        (* a chain of async functions, each awaiting the next one's promise:
                                                         pres = bodies before the await, outermost first (the innermost
                                                         awaits a plain value); posts = bodies after the await,
                                                         innermost first (the order in which they are resumed) *)
| IJob (b : code)                                     (* Promise.resolve().then(function(){ b }) *)
with code := CNil | CCons (i : instr) (c : code)
with codes := SNil | SCons (c : code) (s : codes).

(* JChain posts: resume the async function whose continuation is the head; when it completes normally its promise
   is fulfilled, which schedules the continuation of the function awaiting it (the tail) *)
Inductive job := JPlain (b : code) | JChain (posts : codes).

Inductive outcome := ONorm | OThrow | OIntr (tok : N).

Record st := mkSt {
  cs : nat;                    (* len(vm.callStack) *)
  ts : list frame;             (* vm.tryStack, top = head *)
  its : list (option N);       (* vm.iterStack, top = head; Some e = iterator with a script return() logging e;
                                  None = no return method / zeroed item *)
  jq : list job;               (* r.jobQueue *)
  flag : bool;                 (* vm.interrupted *)
  ival : N;                    (* vm.interruptVal *)
  log : list N;                (* event log, newest first *)
  pcnt : nat;                  (* probe() calls so far *)
  clock : nat;                 (* micro-steps: one per poll, one per instruction start *)
  late : nat                   (* instructions started while the flag was set *)
}.

Definition idle0 : st := mkSt 0 [] [] [] false 0%N [] 0 0 0.

(* the configuration of a case *)
Record cfg := mkCfg {
  kth : nat;                   (* the probe call that interrupts (1-based; 0: none) *)
  clr : bool;                  (* the probe calls ClearInterrupt right after Interrupt *)
  fire : option (nat * N)      (* another goroutine calls Interrupt(tok) at micro-step t *)
}.

Definition set_cs n s := mkSt n (ts s) (its s) (jq s) (flag s) (ival s) (log s) (pcnt s) (clock s) (late s).
Definition set_ts t s := mkSt (cs s) t (its s) (jq s) (flag s) (ival s) (log s) (pcnt s) (clock s) (late s).
Definition set_its t s := mkSt (cs s) (ts s) t (jq s) (flag s) (ival s) (log s) (pcnt s) (clock s) (late s).
Definition set_jq q s := mkSt (cs s) (ts s) (its s) q (flag s) (ival s) (log s) (pcnt s) (clock s) (late s).
Definition add_log e s := mkSt (cs s) (ts s) (its s) (jq s) (flag s) (ival s) (e :: log s) (pcnt s) (clock s) (late s).

(* Interrupt(v): lock; interruptVal = v; atomic store flag = 1; unlock (vm.go:685) *)
Definition interrupt (v : N) s := mkSt (cs s) (ts s) (its s) (jq s) true v (log s) (pcnt s) (clock s) (late s).
(* ClearInterrupt(): atomic store flag = 0 (vm.go:692) *)
Definition clear_interrupt s := mkSt (cs s) (ts s) (its s) (jq s) false (ival s) (log s) (pcnt s) (clock s) (late s).
(* leaveAbrupt (runtime.go:2849) *)
Definition leave_abrupt s := clear_interrupt (set_jq [] s).

Definition push_ctx s := set_cs (Datatypes.S (cs s)) s.
Definition pop_ctx s := set_cs (pred (cs s)) s.
Definition push_frame k s := set_ts (mkFrame (cs s) (length (its s)) k :: ts s) s.
Definition pop_frame s := set_ts (tl (ts s)) s.

(* one micro-step of time: the interrupting goroutine may fire here *)
Definition tick (c : cfg) s :=
  let s' := mkSt (cs s) (ts s) (its s) (jq s) (flag s) (ival s) (log s) (pcnt s) (Datatypes.S (clock s)) (late s) in
  match fire c with
  | Some (t, v) => if Nat.eqb t (clock s) then interrupt v s' else s'
  | None => s'
  end.

Definition bump_late s :=
  if flag s then mkSt (cs s) (ts s) (its s) (jq s) (flag s) (ival s) (log s) (pcnt s) (clock s) (Datatypes.S (late s)) else s.

Definition tok_of (k : nat) : N := (1000 + N.of_nat k)%N.

Definition do_probe (c : cfg) s :=
  let n := Datatypes.S (pcnt s) in
  let s1 := mkSt (cs s) (ts s) (its s) (jq s) (flag s) (ival s) (7%N :: log s) n (clock s) (late s) in
  if Nat.eqb n (kth c) then (if clr c then clear_interrupt (interrupt (tok_of n) s1) else interrupt (tok_of n) s1) else s1.

(* vm.restoreStacks(iterLen, _): close the iterators above iterLen, top first.  Closing an iterator with a
   script return() is a nested call whose run loop polls the flag first: if it is set the call panics with a
   new InterruptedError, which escapes restoreStacks before the truncation (aborted = true). *)
Fixpoint close_iters (n : nat) (l : list (option N)) (fl : bool) (lg : list N) : bool * list (option N) * list N :=
  match n with
  | 0 => (false, l, lg)
  | Datatypes.S n' =>
      match l with
      | [] => (false, [], lg)
      | None :: r => let '(a, r', lg') := close_iters n' r fl lg in
                     if a then (true, None :: r', lg') else (false, r', lg')
      | Some e :: r =>
          if fl then (true, l, lg)
          else let '(a, r', lg') := close_iters n' r fl (e :: lg) in
               if a then (true, None :: r', lg') else (false, r', lg')
      end
  end.

(* returns (aborted, state): when the interrupted return() call escapes, the panic goes past handleThrow;
   the truncation still happens (deferred dropStacks, bf68b95), and the recover point that was running
   handleThrow re-runs it for the escaping uncatchable payload (handleRecovered, bd17f67): the owner of the run
   loop unwinds to its marker frame exactly as for an interrupt seen by the loop itself *)
Definition restore_stacks (c : cfg) (itlen : nat) s : bool * st :=
  let n := length (its s) - itlen in
  let '(a, l', lg') := close_iters n (its s) (flag s) (log s) in
  (a, mkSt (cs s) (ts s) (if a then skipn n (its s) else l') (jq s) (flag s) (ival s) lg' (pcnt s) (clock s) (late s)).

(* vm.dropStacks(iterLen, _) (fix 22853aa): truncate WITHOUT closing the iterators *)
Definition drop_stacks (itlen : nat) s : st := set_its (skipn (length (its s) - itlen) (its s)) s.

(* handleThrow(uncatchable) at a recover point: pop non-marker frames; at the first marker frame restore the
   call stack to its callStackLen and drop the iterator/reference stacks (no iterator.return(): no script
   code runs for an uncatchable payload); then panic(arg) again *)
Definition unwind_u (c : cfg) s : st :=
  let (t', _) := handle_throw false (ts s) in
  let s1 := set_ts t' s in
  match t' with
  | [] => s1
  | f :: _ => drop_stacks (f_it f) (set_cs (Nat.min (cs s1) (f_cs f)) s1)
  end.

(* handleThrow(catchable) arriving at the frame that was pushed when the try stack had depth d-1
   (a handler frame reached structurally, or a marker): frames above are dropped, registers restored. *)
Definition restore_to (c : cfg) (d : nat) s : outcome * st :=
  let t' := skipn (length (ts s) - d) (ts s) in
  let s1 := set_ts t' s in
  match t' with
  | [] => (OThrow, s1)
  | f :: _ => let '(a, s2) := restore_stacks c (f_it f) (set_cs (Nat.min (cs s1) (f_cs f)) s1) in
              ((if a then OIntr (ival s2) else OThrow), s2)
  end.

Definition enqueue j s := set_jq (jq s ++ [j]) s.

(* generator entered by next()/return(): how control leaves it *)
(* yield / ret, popTryFrame, popCtx, the native call's popCtx *)
Definition leave_gen (s : st) : st := pop_ctx (pop_ctx (pop_frame (pop_ctx s))).
(* return() on a generator suspended inside a try block: native context, enterNext (context, marker, extra
   context), the saved try frame restored with its finally armed by enterNextFinallyFrame *)
Definition gen_reenter (s : st) : st :=
  push_frame (FHandler false false) (push_ctx (push_frame FMarker (push_ctx (push_ctx s)))).
(* uncatchable: handleThrow at the marker, then the deferred leaveOnPanic (195c9cc, c7e0548) *)
Definition gen_intr (c : cfg) (o : outcome) (s : st) : outcome * st := (o, pop_ctx (pop_frame (unwind_u c s))).
(* a catchable exception leaves the generator: handleThrow at the marker; next()/return() panic with it *)
Definition gen_throw (c : cfg) (dm : nat) (s : st) : outcome * st :=
  let '(o', s') := restore_to c dm s in
  match o' with
  | OThrow => (OThrow, pop_ctx (pop_frame s'))
  | _ => (o', pop_ctx (pop_frame (unwind_u c s')))
  end.
(* after the finally block of the generator body ran (pend: it ran for a pending exception) *)
Definition gen_after_fin (c : cfg) (dm : nat) (pend : bool) (r : outcome * st) : outcome * st :=
  match r with
  | (ONorm, s) => if pend then gen_throw c dm (pop_frame s) else (ONorm, leave_gen (pop_frame s))
  | (OThrow, s) => gen_throw c dm s
  | (OIntr t, s) => gen_intr c (OIntr t) s
  end.

Section Exec.
  Variable c : cfg.

  (* after an interrupt reached a recover point whose popTryFrame is deferred *)
  Definition recover_deferred s := pop_frame (unwind_u c s).

  Fixpoint exec_i (i : instr) (s : st) {struct i} : outcome * st :=
    match i with
    | IEv e => (ONorm, add_log e s)
    | IProbe => (ONorm, do_probe c s)
    | IProbeThrow => (OThrow, do_probe c s)
    | IThrow => (OThrow, s)
    | ITry b hc cb hf fb =>
        let s0 := push_frame (FHandler hc hf) s in
        let d := length (ts s0) in
        let fin (pend : outcome) (s1 : st) : outcome * st :=
          if hf then
            let '(o3, s3) := exec_c fb s1 in
            match o3 with
            | ONorm => (pend, pop_frame s3)                     (* leaveFinally *)
            | OThrow => let '(o4, s4) := restore_to c d s3 in
                        match o4 with OThrow => (OThrow, pop_frame s4) | _ => (o4, s4) end
            | OIntr _ => (o3, s3)
            end
          else (pend, pop_frame s1)                             (* leaveTry *)
        in
        let '(o1, s1) := exec_c b s0 in
        match o1 with
        | ONorm => fin ONorm s1
        | OThrow =>
            let '(o2, s2) := restore_to c d s1 in
            match o2 with
            | OThrow =>
                if hc then
                  let '(o5, s5) := exec_c cb s2 in
                  match o5 with
                  | ONorm => fin ONorm s5
                  | OThrow => let '(o6, s6) := restore_to c d s5 in
                              match o6 with OThrow => fin OThrow s6 | _ => (o6, s6) end
                  | OIntr _ => (o5, s5)
                  end
                else fin OThrow s2
            | _ => (o2, s2)
            end
        | OIntr _ => (o1, s1)
        end
    | ICall b =>
        let '(o, s1) := exec_c b (push_ctx s) in
        match o with ONorm => (ONorm, pop_ctx s1) | _ => (o, s1) end
    | INat k cbs =>
        (* nativeFuncObject.vmCall: pushCtx; vm.prg = nil; f(); popCtx (func.go:566) *)
        let s0 := match k with NGet => s | _ => push_ctx s end in
        let '(o, s1) := exec_cbs k cbs s0 in
        match o with ONorm => (ONorm, match k with NGet => s1 | _ => pop_ctx s1 end) | _ => (o, s1) end
    | IForOf ret bodies =>
        let s0 := set_its (ret :: its s) s in
        let '(o, s1) := exec_seq bodies s0 in
        match o with ONorm => (ONorm, set_its (tl (its s1)) s1) | _ => (o, s1) end
    | IGen segs => exec_gen segs s
    | IGenRet pre fin =>
        (* g.next(): native context; enterNext = context, marker frame, extra context; then the body's try frame *)
        let s1 := push_frame FMarker (push_ctx (push_ctx s)) in
        let dm := length (ts s1) in
        let s2 := push_frame (FHandler false true) (push_ctx s1) in
        let dh := length (ts s2) in
        let '(o1, s3) := exec_c pre s2 in
        match o1 with
        | ONorm =>
            (* yield inside the try block: its frame is saved with the generator.  g.return(): same entry, the
               frame is restored and its finally block runs (enterNextFinallyFrame) *)
            gen_after_fin c dm false (exec_c fin (gen_reenter (leave_gen (pop_frame s3))))
        | OThrow =>
            (* the finally block runs for the exception, then it is rethrown out of next() *)
            let '(o', s4) := restore_to c dh s3 in
            match o' with
            | OThrow => gen_after_fin c dm true (exec_c fin s4)
            | _ => gen_intr c o' s4
            end
        | OIntr _ => gen_intr c o1 s3
        end
    | IAsyncN pres posts =>
        let '(o, s1) := exec_async pres s in
        match o with
        | ONorm => (ONorm, enqueue (JChain posts) s1)      (* the innermost function reached its await *)
        | OThrow => (ONorm, s1)                            (* a body threw: its promise is rejected, the rejection
                                                              passes through the awaiting functions without running code *)
        | OIntr _ => (o, s1)
        end
    | IJob b => (ONorm, enqueue (JPlain b) s)
    end

  (* the run loop over a straight-line instruction stream: poll, then execute (vm.go:628-635) *)
  with exec_c (p : code) (s : st) {struct p} : outcome * st :=
    match p with
    | CNil =>
        (* every block ends with a control instruction (ret / halt / jump / leaveTry / leaveFinally /
           the back edge of a loop): it is polled like any other *)
        let s1 := tick c s in
        if flag s1 then (OIntr (ival s1), s1) else (ONorm, bump_late (tick c s1))
    | CCons i p' =>
        let s1 := tick c s in
        if flag s1 then (OIntr (ival s1), s1)                    (* lock; read interruptVal; unlock; panic *)
        else
          let s2 := bump_late (tick c s1) in
          let '(o, s3) := exec_i i s2 in
          match o with ONorm => exec_c p' s3 | _ => (o, s3) end
    end

  (* bodies executed one after the other in the SAME run loop (for-of iterations) *)
  with exec_seq (l : codes) (s : st) {struct l} : outcome * st :=
    match l with
    | SNil => (ONorm, s)
    | SCons b l' =>
        let '(o, s1) := exec_c b s in
        match o with ONorm => exec_seq l' s1 | _ => (o, s1) end
    end

  (* a native function calling back once per element, each in a NEW run loop *)
  with exec_cbs (k : nkind) (l : codes) (s : st) {struct l} : outcome * st :=
    match l with
    | SNil => (ONorm, s)
    | SCons b l' =>
        match k with
        | NCb =>
            (* __call: pushTryFrame(marker), deferred pop; vm.prg == nil inside a native: pushCtx *)
            let s0 := push_frame FMarker s in
            let d := length (ts s0) in
            let '(o, s1) := exec_c b (push_ctx s0) in
            match o with
            | ONorm => exec_cbs k l' (pop_frame (pop_ctx s1))
            | OThrow => let '(o', s2) := restore_to c d s1 in
                        match o' with OThrow => (OThrow, pop_frame s2) | _ => (o', recover_deferred s2) end
            | OIntr _ => (o, recover_deferred s1)
            end
        | NGet =>
            (* __call with vm.prg != nil: context + extra frame; ret pops one, popCtx the other *)
            let s0 := push_frame FMarker s in
            let d := length (ts s0) in
            let '(o, s1) := exec_c b (push_ctx (push_ctx s0)) in
            match o with
            | ONorm => exec_cbs k l' (pop_frame (pop_ctx (pop_ctx s1)))
            | OThrow => let '(o', s2) := restore_to c d s1 in
                        match o' with OThrow => (OThrow, pop_frame s2) | _ => (o', recover_deferred s2) end
            | OIntr _ => (o, recover_deferred s1)
            end
        | NGo sw =>
            (* runWrapped: vm.try (marker, deferred pop) around __call (marker, deferred pop) *)
            let s0 := push_frame FMarker (push_frame FMarker s) in
            let d := length (ts s0) in
            let '(o, s1) := exec_c b (push_ctx s0) in
            let after_err (o : outcome) (s : st) : outcome * st :=
              if sw then exec_cbs k l' s else (o, s) in
            match o with
            | ONorm => exec_cbs k l' (pop_frame (pop_frame (pop_ctx s1)))
            | OThrow => let '(o', s2) := restore_to c d s1 in
                        match o' with
                        | OThrow => after_err OThrow (pop_frame (pop_frame s2))
                        | _ => let s3 := recover_deferred (recover_deferred s2) in
                               after_err o' (if Nat.eqb (cs s3) 0 then leave_abrupt s3 else s3)
                        end
            | OIntr _ => let s3 := recover_deferred (recover_deferred s1) in
                         after_err o (if Nat.eqb (cs s3) 0 then leave_abrupt s3 else s3)
            end
        | NRun sw =>
            (* recursive RunProgram: pushCtx (popCtx deferred); runTry (marker, deferred pop) *)
            let s0 := push_frame FMarker (push_ctx s) in
            let d := length (ts s0) in
            let '(o, s1) := exec_c b s0 in
            let after_err (o : outcome) (s : st) : outcome * st :=
              if sw then exec_cbs k l' s else (o, s) in
            match o with
            | ONorm => exec_cbs k l' (pop_ctx (pop_frame s1))
            | OThrow => let '(o', s2) := restore_to c d s1 in
                        match o' with
                        | OThrow => after_err OThrow (pop_ctx (pop_frame s2))
                        | _ => let s3 := pop_ctx (recover_deferred s2) in
                               after_err o' (if Nat.eqb (cs s3) 0 then leave_abrupt s3 else s3)
                        end
            | OIntr _ => let s3 := pop_ctx (recover_deferred s1) in
                         after_err o (if Nat.eqb (cs s3) 0 then leave_abrupt s3 else s3)
            end
        end
    end

  (* the synchronous part of a chain of async functions.  asyncRunner.start: gen.enter() = pushCtx;
     pushTryFrame(marker); the function's own frame; the body runs up to its await, where the awaited expression is
     the call of the next function (an instruction of this body).  Result ONorm: every body reached its await;
     OThrow: some body threw (nothing of the chain will run any more); pops deferred (leaveOnPanic). *)
  with exec_async (l : codes) (s : st) {struct l} : outcome * st :=
    match l with
    | SNil => (ONorm, s)
    | SCons b l' =>
        let s1 := push_frame FMarker (push_ctx s) in
        let d := length (ts s1) in
        let '(o, s2) := exec_c b (push_ctx s1) in
        match o with
        | ONorm =>
            let '(o2, s3) := exec_async l' s2 in
            match o2 with
            | OIntr _ => (o2, pop_ctx (pop_frame (unwind_u c s3)))
            | _ => (o2, pop_ctx (pop_frame (pop_ctx s3)))          (* await: suspend *)
            end
        | OThrow => let '(o', s3) := restore_to c d s2 in
                    match o' with
                    | OThrow => (OThrow, pop_ctx (pop_frame s3))   (* promise rejected *)
                    | _ => (o', pop_ctx (pop_frame (unwind_u c s3)))
                    end
        | OIntr _ => (o, pop_ctx (pop_frame (unwind_u c s2)))
        end
    end

  (* generatorObject.next -> generator.next: native context; enterNext = pushCtx; pushTryFrame(marker);
     extra frame; step(); popTryFrame; popCtx — since 195c9cc the two pops also run on the panic path
     (deferred leaveOnPanic, func.go) *)
  with exec_gen (l : codes) (s : st) {struct l} : outcome * st :=
    match l with
    | SNil => (ONorm, s)
    | SCons b l' =>
        let s0 := push_ctx (push_ctx s) in
        let s1 := push_frame FMarker s0 in
        let d := length (ts s1) in
        let '(o, s2) := exec_c b (push_ctx s1) in
        match o with
        | ONorm => exec_gen l' (pop_ctx (pop_ctx (pop_frame (pop_ctx s2))))
        | OThrow => let '(o', s3) := restore_to c d s2 in
                    match o' with
                    | OThrow => (OThrow, pop_ctx (pop_frame s3))
                    | _ => (o', pop_ctx (pop_frame (unwind_u c s3)))
                    end
        | OIntr _ => (o, pop_ctx (pop_frame (unwind_u c s2)))
        end
    end.

  (* one promise job, run from leave(): newPromiseReactionJob wraps the handler call in vm.try
     (marker, deferred pop; builtin_promise.go:212) *)
  Definition run_job (j : job) (s : st) : outcome * st :=
    match j with
    | JPlain b =>
        let s0 := push_frame FMarker (push_frame FMarker s) in       (* vm.try, then __call *)
        let d := length (ts s0) in
        let '(o, s1) := exec_c b (push_ctx s0) in
        match o with
        | ONorm => (ONorm, pop_frame (pop_frame (pop_ctx s1)))
        | OThrow => let '(o', s2) := restore_to c d s1 in
                    match o' with
                    | OThrow => (ONorm, pop_frame (pop_frame s2))
                    | _ => (o', recover_deferred (recover_deferred s2))
                    end
        | OIntr _ => (o, recover_deferred (recover_deferred s1))
        end
    | JChain SNil => (ONorm, s)
    | JChain (SCons b rest) =>
        (* asyncRunner.onFulfilled (under the job's vm.try) -> generator.next: context, marker, extra context *)
        let s0 := push_ctx (push_frame FMarker s) in
        let s1 := push_frame FMarker s0 in
        let d := length (ts s1) in
        let '(o, s2) := exec_c b (push_ctx s1) in
        match o with
        | ONorm => (ONorm, enqueue (JChain rest) (pop_frame (pop_ctx (pop_frame (pop_ctx s2)))))
        | OThrow => let '(o', s3) := restore_to c d s2 in
                    match o' with
                    | OThrow => (ONorm, pop_frame (pop_ctx (pop_frame s3)))
                    | _ => (o', recover_deferred (pop_ctx (pop_frame (unwind_u c s3))))
                    end
        | OIntr _ => (o, recover_deferred (pop_ctx (pop_frame (unwind_u c s2))))
        end
    end.

  (* Runtime.leave(): drain the queue, double-buffered (runtime.go:2836).  [fuel] bounds the number of
     rounds (jobs may enqueue jobs); the programs of the correspondence need at most their size. *)
  Fixpoint run_jobs (js : list job) (s : st) : outcome * st :=
    match js with
    | [] => (ONorm, s)
    | j :: r => let '(o, s1) := run_job j s in
                match o with ONorm => run_jobs r s1 | _ => (o, s1) end
    end.

  Fixpoint leave (fuel : nat) (s : st) : outcome * st :=
    match fuel with
    | 0 => (ONorm, s)
    | Datatypes.S fuel' =>
        match jq s with
        | [] => (ONorm, s)
        | js => let '(o, s1) := run_jobs js (set_jq [] s) in
                match o with ONorm => leave fuel' s1 | _ => (o, s1) end
        end
    end.

  Inductive entry := ERun | ECall.

  (* the epilogue of RunProgram / runWrapped on the uncatchable path *)
  Definition abrupt_epilogue (s : st) : st := if Nat.eqb (cs s) 0 then leave_abrupt s else s.

  Definition result := (outcome * st)%type.

  (* one API call: Runtime.RunProgram (runtime.go:1434) or a Callable from AssertFunction (runWrapped) *)
  Definition run_top (fuel : nat) (e : entry) (p : code) (s : st) : result :=
    match e with
    | ERun =>
        if Nat.eqb (cs s) 0 then
          (* not recursive: dummy context; runTry; leave(); the context is dropped in the deferred function *)
          let s0 := push_frame FMarker (push_ctx s) in
          let d := length (ts s0) in
          let '(o, s1) := exec_c p s0 in
          let finish (o : outcome) (s : st) : result :=
            let '(o', s') := leave fuel s in
            match o' with
            | ONorm => (o, pop_ctx s')
            | _ => (o', abrupt_epilogue (pop_ctx s'))
            end in
          match o with
          | ONorm => finish ONorm (pop_frame s1)
          | OThrow => let '(o', s2) := restore_to c d s1 in
                      match o' with
                      | OThrow => finish OThrow (pop_frame s2)
                      | _ => (o', abrupt_epilogue (pop_ctx (recover_deferred s2)))
                      end
          | OIntr _ => (o, abrupt_epilogue (pop_ctx (recover_deferred s1)))
          end
        else
          (* recursive (a leaked frame makes every later call recursive): no leave() *)
          let s0 := push_frame FMarker (push_ctx s) in
          let d := length (ts s0) in
          let '(o, s1) := exec_c p s0 in
          match o with
          | ONorm => (ONorm, pop_ctx (pop_frame s1))
          | OThrow => let '(o', s2) := restore_to c d s1 in
                      match o' with
                      | OThrow => (OThrow, pop_ctx (pop_frame s2))
                      | _ => (o', abrupt_epilogue (pop_ctx (recover_deferred s2)))
                      end
          | OIntr _ => (o, abrupt_epilogue (pop_ctx (recover_deferred s1)))
          end
    | ECall =>
        let s0 := push_frame FMarker (push_frame FMarker s) in
        let d := length (ts s0) in
        let '(o, s1) := exec_c p (push_ctx s0) in
        let finish (o : outcome) (s : st) : result :=
          if Nat.eqb (cs s) 0 then
            let '(o', s') := leave fuel s in
            match o' with ONorm => (o, s') | _ => (o', abrupt_epilogue s') end
          else (o, s) in
        match o with
        | ONorm => finish ONorm (pop_frame (pop_frame (pop_ctx s1)))
        | OThrow => let '(o', s2) := restore_to c d s1 in
                    match o' with
                    | OThrow => finish OThrow (pop_frame (pop_frame s2))
                    | _ => (o', abrupt_epilogue (recover_deferred (recover_deferred s2)))
                    end
        | OIntr _ => (o, abrupt_epilogue (recover_deferred (recover_deferred s1)))
        end
    end.
End Exec.

(* the idle vector compared with VerifIdle: callStack, tryStack, iterStack, jobQueue, interrupted, and whether
   vm.curAsyncRunner is set: it is set only while a promise job resumes an async function and reset by a deferred
   function, so it is nil whenever control is outside the runtime *)
Definition idle_vec (s : st) : list nat :=
  [cs s; length (ts s); length (its s); length (jq s); (if flag s then 1 else 0); 0].

Definition is_idle (s : st) : bool :=
  Nat.eqb (cs s) 0 && Nat.eqb (length (ts s)) 0 && Nat.eqb (length (its s)) 0 && Nat.eqb (length (jq s)) 0 && negb (flag s).

(* ------------------------------------------------------------------------------------------- *)
(* Part 4: the interleaving model of the flag protocol                                          *)

Inductive event :=
| Lock | Unlock
| Wr (v : N)            (* plain write of interruptVal *)
| Rd (v : N)            (* plain read of interruptVal *)
| AWr (b : bool)        (* atomic store of the flag *)
| ARd (b : bool).       (* atomic load of the flag *)

(* a global trace: (thread id, event) in the order of one sequentially consistent execution *)
Definition trace := list (nat * event).

(* Interrupt(v): vm.go:685-690 *)
Definition interrupter (v : N) : list event := [Lock; Wr v; AWr true; Unlock].
(* one poll of the run loop that sees the flag and builds the InterruptedError: vm.go:628,638-645 *)
Definition runner_hit (v : N) : list event := [ARd true; Lock; Rd v; Unlock].
Definition runner_miss : list event := [ARd false].

Definition is_val_access (e : event) : bool := match e with Wr _ | Rd _ => true | _ => false end.
Definition is_write (e : event) : bool := match e with Wr _ => true | _ => false end.
Definition conflicting (a b : event) : bool := is_val_access a && is_val_access b && (is_write a || is_write b).

(* lock semantics: the trace is well formed if every Lock happens while the mutex is free and every Unlock
   is by the holder *)
Fixpoint lock_ok (holder : option nat) (tr : trace) : bool :=
  match tr with
  | [] => true
  | (t, Lock) :: r => match holder with None => lock_ok (Some t) r | Some _ => false end
  | (t, Unlock) :: r => match holder with Some h => Nat.eqb h t && lock_ok None r | None => false end
  | _ :: r => lock_ok holder r
  end.

(* does thread t hold the mutex after the prefix? *)
Fixpoint holder_after (holder : option nat) (tr : trace) : option nat :=
  match tr with
  | [] => holder
  | (t, Lock) :: r => holder_after (Some t) r
  | (_, Unlock) :: r => holder_after None r
  | _ :: r => holder_after holder r
  end.

(* events of thread t, in order *)
Fixpoint proj (t : nat) (tr : trace) : list event :=
  match tr with
  | [] => []
  | (t', e) :: r => if Nat.eqb t' t then e :: proj t r else proj t r
  end.

(* the shape of a thread's code: interruptVal is touched only between its own Lock and Unlock *)
Fixpoint bracketed_from (held : bool) (l : list event) : bool :=
  match l with
  | [] => true
  | Lock :: r => negb held && bracketed_from true r
  | Unlock :: r => held && bracketed_from false r
  | Wr _ :: r | Rd _ :: r => held && bracketed_from held r
  | _ :: r => bracketed_from held r
  end.

Definition is_awr (e : event) : bool := match e with AWr _ => true | _ => false end.

Definition ev_at (tr : trace) (i : nat) : nat * event := nth i tr (0, ARd false).

(* direct happens-before edges between positions i < j of the trace:
   program order; lock order (an Unlock before a later Lock); release/acquire: an atomic load
   synchronises with the atomic store it reads from = the last store before it in the trace *)
Definition hb1 (tr : trace) (i j : nat) : bool :=
  Nat.ltb i j && Nat.ltb j (length tr) &&
  (Nat.eqb (fst (ev_at tr i)) (fst (ev_at tr j))
   || (match snd (ev_at tr i), snd (ev_at tr j) with Unlock, Lock => true | _, _ => false end)
   || (match snd (ev_at tr i), snd (ev_at tr j) with
       | AWr _, ARd _ => forallb (fun k => negb (is_awr (snd (ev_at tr k)))) (seq (Datatypes.S i) (j - Datatypes.S i))
       | _, _ => false end)).

(* the edges that do not rely on the atomic *)
Definition hb1_lock (tr : trace) (i j : nat) : bool :=
  Nat.ltb i j && Nat.ltb j (length tr) &&
  (Nat.eqb (fst (ev_at tr i)) (fst (ev_at tr j))
   || (match snd (ev_at tr i), snd (ev_at tr j) with Unlock, Lock => true | _, _ => false end)).
