(* C15 — interrupt_clean: the idle state is restored after every API call, for every program and every
   interrupt position, outside the region of the open finding F16 (generator / async resumptions). *)
From Coq Require Import List Arith NArith Bool Lia.
Import ListNotations.
From Verif.C15 Require Import Model Proofs.

Definition nonmarker (hs : list frame) : Prop := forallb (fun f => negb (is_marker f)) hs = true.

(* the three stacks are exactly (a, r, base) *)
Definition at_base (a : nat) (r : list frame) (base : list (option N)) (s : st) : Prop :=
  cs s = a /\ ts s = r /\ its s = base.
(* the stacks extend (a, r, base): more contexts, handler frames and iterators on top *)
Definition above (a : nat) (r : list frame) (base : list (option N)) (s : st) : Prop :=
  a <= cs s /\ (exists hs, ts s = hs ++ r /\ nonmarker hs) /\ (exists ex, its s = ex ++ base).

Definition res (o : outcome) a r base s := match o with ONorm => at_base a r base s | _ => above a r base s end.
(* for the synchronous part of an async chain: "some body threw" is an ordinary return *)
Definition res2 (o : outcome) a r base s := match o with OIntr _ => above a r base s | _ => at_base a r base s end.

(* ---- list facts ---- *)
Lemma skipn_app_exact : forall {A} (h r : list A), skipn (length h) (h ++ r) = r.
Proof. induction h; simpl; auto. Qed.

Lemma handle_throw_skip : forall hs M r, nonmarker hs -> is_marker M = true ->
  handle_throw false (hs ++ M :: r) = (M :: r, HRepanic).
Proof.
  induction hs as [| f hs IH]; intros M r Hn Hm; simpl.
  - unfold is_marker in Hm. destruct (f_kind M); [reflexivity | discriminate].
  - unfold nonmarker in Hn. simpl in Hn. apply andb_true_iff in Hn. destruct Hn as [Hf Hn].
    unfold is_marker in Hf. destruct (f_kind f); [discriminate |]. simpl. apply IH; assumption.
Qed.

Lemma close_iters_app : forall ex base fl lg,
  exists a l' lg', close_iters (length ex) (ex ++ base) fl lg = (a, l', lg') /\
                   (if a then exists ex', l' = ex' ++ base else l' = base).
Proof.
  induction ex as [| x ex IH]; intros base fl lg; simpl.
  - exists false, base, lg. auto.
  - destruct x as [e |].
    + destruct fl.
      * exists true, (Some e :: ex ++ base), lg. split; [reflexivity |]. exists (Some e :: ex). reflexivity.
      * destruct (IH base false (e :: lg)) as (a & l' & lg' & E & P). rewrite E. destruct a.
        -- exists true, (None :: l'), lg'. split; [reflexivity |]. destruct P as [ex' P]. exists (None :: ex'). rewrite P. reflexivity.
        -- exists false, l', lg'. auto.
    + destruct (IH base fl lg) as (a & l' & lg' & E & P). rewrite E. destruct a.
      * exists true, (None :: l'), lg'. split; [reflexivity |]. destruct P as [ex' P]. exists (None :: ex'). rewrite P. reflexivity.
      * exists false, l', lg'. auto.
Qed.

(* ---- at_base / above under the helpers ---- *)
Lemma at_refl : forall s, at_base (cs s) (ts s) (its s) s. Proof. repeat split. Qed.
Lemma at_above : forall a r b s, at_base a r b s -> above a r b s.
Proof. intros a r b s (A & B & C). repeat split; [lia | exists []; split; [assumption | reflexivity] | exists []; assumption]. Qed.
Lemma at_push_ctx : forall a r b s, at_base a r b s -> at_base (S a) r b (push_ctx s).
Proof. intros a r b s (A & B & C). repeat split; simpl; congruence. Qed.
Lemma at_pop_ctx : forall a r b s, at_base (S a) r b s -> at_base a r b (pop_ctx s).
Proof. intros a r b s (A & B & C). repeat split; simpl; try assumption. rewrite A. reflexivity. Qed.
Lemma at_push_frame : forall a r b s k, at_base a r b s -> at_base a (mkFrame a (length b) k :: r) b (push_frame k s).
Proof. intros a r b s k (A & B & C). repeat split; simpl; congruence. Qed.
Lemma at_pop_frame : forall a f r b s, at_base a (f :: r) b s -> at_base a r b (pop_frame s).
Proof. intros a f r b s (A & B & C). repeat split; simpl; try assumption. rewrite B. reflexivity. Qed.
Lemma at_add_log : forall a r b s e, at_base a r b s -> at_base a r b (add_log e s).
Proof. intros a r b s e (A & B & C). repeat split; assumption. Qed.
Lemma at_do_probe : forall c a r b s, at_base a r b s -> at_base a r b (do_probe c s).
Proof.
  intros c a r b s (A & B & C). unfold do_probe.
  destruct (Nat.eqb (S (pcnt s)) (kth c)); [destruct (clr c) |]; repeat split; assumption.
Qed.
Lemma at_enqueue : forall a r b s j, at_base a r b s -> at_base a r b (enqueue j s).
Proof. intros a r b s j (A & B & C). repeat split; assumption. Qed.
Lemma at_set_jq : forall a r b s q, at_base a r b s -> at_base a r b (set_jq q s).
Proof. intros a r b s q (A & B & C). repeat split; assumption. Qed.
Lemma at_leave_abrupt : forall a r b s, at_base a r b s -> at_base a r b (leave_abrupt s).
Proof. intros a r b s (A & B & C). repeat split; assumption. Qed.
Lemma at_push_iter : forall a r b s x, at_base a r b s -> at_base a r (x :: b) (set_its (x :: its s) s).
Proof. intros a r b s x (A & B & C). repeat split; simpl; congruence. Qed.
Lemma at_pop_iter : forall a r b s x, at_base a r (x :: b) s -> at_base a r b (set_its (tl (its s)) s).
Proof. intros a r b s x (A & B & C). repeat split; simpl; try assumption. rewrite C. reflexivity. Qed.
Lemma at_abrupt_epilogue : forall a r b s, at_base a r b s -> at_base a r b (abrupt_epilogue s).
Proof. intros. unfold abrupt_epilogue. destruct (Nat.eqb (cs s) 0); auto using at_leave_abrupt. Qed.
Lemma at_tick : forall c a r b s, at_base a r b s -> at_base a r b (tick c s).
Proof. intros c a r b s (A & B & C). repeat split; [rewrite tick_cs | rewrite tick_ts | rewrite tick_its]; assumption. Qed.
Lemma at_bump : forall a r b s, at_base a r b s -> at_base a r b (bump_late s).
Proof. intros a r b s (A & B & C). unfold bump_late. destruct (flag s); repeat split; assumption. Qed.

Lemma above_ctx : forall a r b s, above (S a) r b s -> above a r b s.
Proof. intros a r b s (A & B & C). repeat split; [lia | assumption | assumption]. Qed.
Lemma above_handler : forall a f r b s, above a (f :: r) b s -> is_marker f = false -> above a r b s.
Proof.
  intros a f r b s (A & (hs & B & N) & C) Hf. repeat split; [assumption | | assumption].
  exists (hs ++ [f]). split; [rewrite <- app_assoc; assumption |].
  unfold nonmarker in *. rewrite forallb_app, N. simpl. rewrite Hf. reflexivity.
Qed.
Lemma above_iter : forall a r x b s, above a r (x :: b) s -> above a r b s.
Proof.
  intros a r x b s (A & B & (ex & C)). repeat split; [assumption | assumption |].
  exists (ex ++ [x]). rewrite <- app_assoc. assumption.
Qed.
Lemma res_above : forall o a r b s, res o a r b s -> above a r b s.
Proof. intros. destruct o; simpl in *; auto using at_above. Qed.

(* handleThrow(uncatchable) arriving at a marker frame *)
Lemma unwind_marker : forall c a M r b s,
  above a (M :: r) b s -> is_marker M = true -> f_cs M <= a -> f_it M = length b ->
  at_base (f_cs M) (M :: r) b (unwind_u c s) /\ jq (unwind_u c s) = jq s.
Proof.
  intros c a M r b s (A & (hs & B & N) & (ex & C)) Hm Hc Hi.
  unfold unwind_u. rewrite B, (handle_throw_skip hs M r N Hm). simpl.
  unfold drop_stacks, at_base. simpl. split; [| reflexivity]. split; [lia |]. split; [reflexivity |].
  rewrite C, Hi, app_length. replace (length ex + length b - length b) with (length ex) by lia.
  apply skipn_app_exact.
Qed.

Lemma recover_marker : forall c a M r b s,
  above a (M :: r) b s -> is_marker M = true -> f_cs M <= a -> f_it M = length b ->
  at_base (f_cs M) r b (recover_deferred c s) /\ jq (recover_deferred c s) = jq s.
Proof.
  intros. destruct (unwind_marker c a M r b s) as [P Q]; auto. unfold recover_deferred.
  split; [eapply at_pop_frame; eassumption | exact Q].
Qed.

(* handleThrow(catchable) arriving at the frame F that was pushed when the try stack was r *)
Lemma restore_frame : forall c a F r b s o s2,
  above a (F :: r) b s -> f_cs F <= a -> f_it F = length b ->
  restore_to c (S (length r)) s = (o, s2) ->
  jq s2 = jq s /\
  ((o = OThrow /\ at_base (f_cs F) (F :: r) b s2) \/ (exists t, o = OIntr t /\ above (f_cs F) (F :: r) b s2)).
Proof.
  intros c a F r b s o s2 (A & (hs & B & N) & (ex & C)) Hc Hi E.
  unfold restore_to in E. rewrite B in E. rewrite app_length in E. simpl length in E.
  replace (length hs + S (length r) - S (length r)) with (length hs) in E by lia.
  rewrite skipn_app_exact in E. unfold restore_stacks in E. simpl in E.
  rewrite C, Hi, app_length in E. replace (length ex + length b - length b) with (length ex) in E by lia.
  destruct (close_iters_app ex b (flag s) (log s)) as (x & l' & lg' & Ec & P). rewrite Ec in E.
  inversion E; subst o s2; clear E. simpl. split; [reflexivity |]. destruct x.
  - right. eexists. split; [reflexivity |]. unfold above. simpl. split; [lia |]. split; [exists []; split; reflexivity |].
    exists []. simpl. apply skipn_app_exact.
  - left. split; [reflexivity |]. unfold at_base. simpl. subst l'. repeat split. lia.
Qed.

(* ---- the job queue only ever holds jobs outside the F16 region ---- *)
Section Clean.
  Variable c : cfg.

  Definition okjob (j : job) := True.
  Definition J (s : st) := Forall okjob (jq s).

  Lemma J_same : forall s s', jq s' = jq s -> J s -> J s'. Proof. unfold J. intros. rewrite H. assumption. Qed.
  Lemma J_enqueue : forall j s, J s -> okjob j -> J (enqueue j s).
  Proof. unfold J, enqueue. simpl. intros. apply Forall_app. auto. Qed.
  Lemma J_leave_abrupt : forall s, J (leave_abrupt s). Proof. intros. constructor. Qed.
  Lemma J_tick : forall s, J s -> J (tick c s). Proof. intros. eapply J_same; [apply tick_jq | assumption]. Qed.
  Lemma J_probe : forall s, J s -> J (do_probe c s).
  Proof. intros. eapply J_same; [| eassumption]. unfold do_probe. destruct (Nat.eqb _ _); [destruct (clr c) |]; reflexivity. Qed.
  Lemma J_bump : forall s, J s -> J (bump_late s).
  Proof. intros. eapply J_same; [| eassumption]. unfold bump_late. destruct (flag s); reflexivity. Qed.
  Lemma J_abrupt : forall s, J s -> J (abrupt_epilogue s).
  Proof. intros. unfold abrupt_epilogue. destruct (Nat.eqb _ _); auto using J_leave_abrupt. Qed.

  Definition Pc (p : code) := forall s o s' a r b,
    exec_c c p s = (o, s') -> at_base a r b s -> J s -> J s' /\ res o a r b s'.
  Definition Pi (i : instr) := forall s o s' a r b,
    exec_i c i s = (o, s') -> at_base a r b s -> J s -> J s' /\ res o a r b s'.
  Definition Ps (l : codes) :=
    (forall s o s' a r b, exec_seq c l s = (o, s') -> at_base a r b s -> J s -> J s' /\ res o a r b s') /\
    (forall k s o s' a r b, exec_cbs c k l s = (o, s') -> at_base a r b s -> J s -> J s' /\ res o a r b s') /\
    (forall s o s' a r b, exec_gen c l s = (o, s') -> at_base a r b s -> J s -> J s' /\ res o a r b s') /\
    (forall s o s' a r b, exec_async c l s = (o, s') -> at_base a r b s -> J s -> J s' /\ res2 o a r b s').

  Lemma J_push_ctx : forall s, J s -> J (push_ctx s). Proof. auto. Qed.
  Lemma J_pop_ctx : forall s, J s -> J (pop_ctx s). Proof. auto. Qed.
  Lemma J_push_frame : forall k s, J s -> J (push_frame k s). Proof. auto. Qed.
  Lemma J_pop_frame : forall s, J s -> J (pop_frame s). Proof. auto. Qed.
  Lemma J_add_log : forall e s, J s -> J (add_log e s). Proof. auto. Qed.
  Lemma J_set_its : forall l s, J s -> J (set_its l s). Proof. auto. Qed.
  Lemma J_set_jq_nil : forall s, J (set_jq [] s). Proof. intros. constructor. Qed.

  (* a body that ran under a frame pushed at (a, r, b): whatever way it ended, the recover point brings
     the stacks back to (a, r, b) *)
  Lemma under_marker_intr : forall a r b s1 a',
    above a' (mkFrame a (length b) FMarker :: r) b s1 -> a <= a' -> J s1 ->
    J (recover_deferred c s1) /\ at_base a r b (recover_deferred c s1).
  Proof.
    intros a r b s1 a' Ha Hle Hj.
    destruct (recover_marker c a' (mkFrame a (length b) FMarker) r b s1) as [P Q]; auto.
    split; [eapply J_same; eassumption | exact P].
  Qed.

  Lemma under_frame_throw : forall a r b s1 a' k d o' s2,
    restore_to c d s1 = (o', s2) ->
    above a' (mkFrame a (length b) k :: r) b s1 -> d = S (length r) -> a <= a' -> J s1 ->
    J s2 /\ ((o' = OThrow /\ at_base a (mkFrame a (length b) k :: r) b s2)
             \/ (exists t, o' = OIntr t /\ above a (mkFrame a (length b) k :: r) b s2)).
  Proof.
    intros a r b s1 a' k d o' s2 E Ha Hd Hle Hj. subst d.
    destruct (restore_frame c a' (mkFrame a (length b) k) r b s1 o' s2) as [Q P]; auto.
    split; [eapply J_same; eassumption | exact P].
  Qed.

  Lemma at_if : forall (t : bool) a r b s, at_base a r b s -> at_base a r b (if t then leave_abrupt s else s).
  Proof. intros. destruct t; auto using at_leave_abrupt. Qed.
  Lemma J_if : forall (t : bool) s, J s -> J (if t then leave_abrupt s else s).
  Proof. intros. destruct t; auto using J_leave_abrupt. Qed.

  Hint Resolve at_if at_push_ctx at_pop_ctx at_push_frame at_pop_frame at_add_log at_do_probe at_enqueue
       at_set_jq at_leave_abrupt at_push_iter at_pop_iter at_abrupt_epilogue at_tick at_bump : atdb.
  Hint Resolve J_if J_enqueue J_leave_abrupt J_tick J_probe J_bump J_abrupt J_push_ctx J_pop_ctx
       J_push_frame J_pop_frame J_add_log J_set_its J_set_jq_nil : jdb.

  Ltac brk :=
    match goal with
    | H : (let '(_, _) := ?e in _) = _ |- _ => destruct e as [? ?] eqn:?
    | H : match ?o with ONorm => _ | OThrow => _ | OIntr _ => _ end = _ |- _ => destruct o
    | H : (if ?b then _ else _) = (_, _) |- _ => destruct b eqn:?
    | H : (_, _) = (_, _) |- _ => inversion H; subst; clear H
    end.

  Ltac fold_ep :=
    repeat match goal with
    | |- context [if Nat.eqb (cs ?x) 0 then leave_abrupt ?x else ?x] =>
        change (if Nat.eqb (cs x) 0 then leave_abrupt x else x) with (abrupt_epilogue x) in *
    | H : context [if Nat.eqb (cs ?x) 0 then leave_abrupt ?x else ?x] |- _ =>
        change (if Nat.eqb (cs x) 0 then leave_abrupt x else x) with (abrupt_epilogue x) in *
    | |- context [pop_frame (unwind_u c ?x)] => change (pop_frame (unwind_u c x)) with (recover_deferred c x) in *
    | H : context [pop_frame (unwind_u c ?x)] |- _ => change (pop_frame (unwind_u c x)) with (recover_deferred c x) in *
    end.

  Ltac sJ := solve [eauto 14 with jdb].
  Ltac sAt := solve [eauto 10 with atdb].
  (* an [above] premise of a restore / recover lemma: literally in the context, or from an [at_base] fact *)
  Ltac sAbP := solve [eassumption | apply at_above; sAt | apply above_ctx; apply at_above; sAt
                      | apply above_ctx; apply above_ctx; apply at_above; sAt].
  (* the final [above] goal: strip handler frames, iterators and contexts from what is known *)
  Ltac sat_above :=
    repeat match goal with
    | H : above _ (mkFrame _ _ (FHandler _ _) :: _) _ _ |- _ => apply above_handler in H; [ | reflexivity ]
    | H : above _ _ (_ :: _) _ |- _ => apply above_iter in H
    | H : above (S _) _ _ _ |- _ => apply above_ctx in H
    end.
  Ltac sRes :=
    simpl;
    lazymatch goal with
    | |- at_base _ _ _ _ => sAt
    | |- above _ _ _ _ => first [ sAbP | sat_above; sAbP ]
    end.

  (* one step of forward reasoning: an execution whose start state is understood, a restore, a recover *)
  Ltac fwd :=
    match goal with
    | IH : (forall s o s' a r b, exec_c c ?p s = (o, s') -> _), E : exec_c c ?p ?s = (_, _) |- _ =>
        eapply IH in E; [ | sAt | sJ ]; destruct E as [? ?]
    | IH : (forall s o s' a r b, exec_i c ?p s = (o, s') -> _), E : exec_i c ?p ?s = (_, _) |- _ =>
        eapply IH in E; [ | sAt | sJ ]; destruct E as [? ?]
    | IH : (forall s o s' a r b, exec_seq c ?p s = (o, s') -> _), E : exec_seq c ?p ?s = (_, _) |- _ =>
        eapply IH in E; [ | sAt | sJ ]; destruct E as [? ?]
    | IH : (forall k s o s' a r b, exec_cbs c k ?p s = (o, s') -> _), E : exec_cbs c _ ?p ?s = (_, _) |- _ =>
        eapply IH in E; [ | sAt | sJ ]; destruct E as [? ?]
    | IH : (forall s o s' a r b, exec_gen c ?p s = (o, s') -> _), E : exec_gen c ?p ?s = (_, _) |- _ =>
        eapply IH in E; [ | sAt | sJ ]; destruct E as [? ?]
    | IH : (forall s o s' a r b, exec_async c ?p s = (o, s') -> _), E : exec_async c ?p ?s = (_, _) |- _ =>
        eapply IH in E; [ | sAt | sJ ]; destruct E as [? ?]
    | E : restore_to c _ _ = (_, _) |- _ =>
        eapply under_frame_throw in E; [ | sAbP | (simpl; reflexivity) | lia | sJ ];
        let t := fresh "t" in let Eo := fresh "Eo" in
        destruct E as [? [[Eo ?] | [t [Eo ?]]]]; try discriminate Eo
    | |- context [recover_deferred c ?x] =>
        lazymatch x with context [recover_deferred] => fail | _ => idtac end;
        let L := fresh "L" in let u := fresh "u" in
        pose proof under_marker_intr as L; edestruct L with (s1 := x) as [? ?]; [ sAbP | lia | sJ | ]; clear L;
        set (u := recover_deferred c x) in *; clearbody u
    | H : context [recover_deferred c ?x] |- _ =>
        lazymatch x with context [recover_deferred] => fail | _ => idtac end;
        let L := fresh "L" in let u := fresh "u" in
        pose proof under_marker_intr as L; edestruct L with (s1 := x) as [? ?]; [ sAbP | lia | sJ | ]; clear L;
        set (u := recover_deferred c x) in *; clearbody u
    end.

  Ltac finish := first [ (split; assumption) | split; [ sJ | sRes ] ].
  Ltac go := repeat brk; fold_ep; simpl res in *; simpl res2 in *; repeat (fwd; simpl res in *; simpl res2 in * ); try finish.
  Ltac start s Hat := destruct Hat as (? & ? & ?); subst; pose proof (at_refl s).

  Lemma at_leave_gen : forall a f r b s, at_base (S (S (S a))) (f :: r) b s -> at_base a r b (leave_gen s).
  Proof. intros. unfold leave_gen. eauto 8 with atdb. Qed.
  Lemma at_gen_reenter : forall a r b s, at_base a r b s ->
    at_base (S (S (S a))) (mkFrame (S (S (S a))) (length b) (FHandler false false) :: mkFrame (S (S a)) (length b) FMarker :: r) b
            (gen_reenter s).
  Proof. intros. unfold gen_reenter. eauto 8 with atdb. Qed.
  Lemma J_leave_gen : forall s, J s -> J (leave_gen s). Proof. auto. Qed.
  Lemma J_gen_reenter : forall s, J s -> J (gen_reenter s). Proof. auto. Qed.

  Lemma gen_intr_ok : forall a0 r b x a' o o' s',
    above a' (mkFrame (S (S a0)) (length b) FMarker :: r) b x -> S (S a0) <= a' -> J x ->
    gen_intr c o x = (o', s') -> J s' /\ above a0 r b s' /\ o' = o.
  Proof.
    intros a0 r b x a' o o' s' Ha Hle Hj H. unfold gen_intr in H. inversion H; subst; clear H.
    change (pop_frame (unwind_u c x)) with (recover_deferred c x).
    destruct (under_marker_intr (S (S a0)) r b x a' Ha Hle Hj) as [Q P].
    split; [apply J_pop_ctx; exact Q |]. split; [| reflexivity].
    apply above_ctx, at_above, at_pop_ctx. exact P.
  Qed.

  Lemma gen_throw_ok : forall a0 r b x a' o' s',
    above a' (mkFrame (S (S a0)) (length b) FMarker :: r) b x -> S (S a0) <= a' -> J x ->
    gen_throw c (S (length r)) x = (o', s') -> J s' /\ above a0 r b s' /\ o' <> ONorm.
  Proof.
    intros a0 r b x a' o' s' Ha Hle Hj H. unfold gen_throw in H.
    destruct (restore_to c (S (length r)) x) as [o1 s1] eqn:E.
    eapply under_frame_throw in E; [ | exact Ha | reflexivity | exact Hle | exact Hj ].
    destruct E as [Hj1 [[Eo Hat] | [t [Eo Hab]]]]; subst o1.
    - inversion H; subst. split; [auto with jdb |]. split; [| discriminate].
      apply above_ctx, at_above. eauto with atdb.
    - inversion H; subst. change (pop_frame (unwind_u c s1)) with (recover_deferred c s1).
      destruct (under_marker_intr (S (S a0)) r b s1 (S (S a0)) Hab (le_n _) Hj1) as [Q P].
      split; [apply J_pop_ctx; exact Q |]. split; [| discriminate].
      apply above_ctx, at_above, at_pop_ctx. exact P.
  Qed.

  Lemma gen_after_fin_ok : forall a0 r b k pend o2 s6 o s',
    res o2 (S (S (S a0))) (mkFrame (S (S (S a0))) (length b) (FHandler false k) :: mkFrame (S (S a0)) (length b) FMarker :: r) b s6 ->
    J s6 ->
    gen_after_fin c (S (length r)) pend (o2, s6) = (o, s') -> J s' /\ res o a0 r b s'.
  Proof.
    intros a0 r b k pend o2 s6 o s' Hr Hj H. unfold gen_after_fin in H. destruct o2; simpl in Hr.
    - destruct pend.
      + eapply gen_throw_ok in H; [ | apply at_above; eapply at_pop_frame; exact Hr | lia | auto with jdb ].
        destruct H as (A & B & C). split; [exact A |]. destruct o; [congruence | exact B | exact B].
      + inversion H; subst. split; [auto with jdb |]. simpl. eapply at_leave_gen. eapply at_pop_frame. exact Hr.
    - eapply gen_throw_ok in H; [ | eapply above_handler; [exact Hr | reflexivity] | lia | exact Hj ].
      destruct H as (A & B & C). split; [exact A |]. destruct o; [congruence | exact B | exact B].
    - eapply gen_intr_ok in H; [ | eapply above_handler; [exact Hr | reflexivity] | lia | exact Hj ].
      destruct H as (A & B & C). subst o. split; [exact A | exact B].
  Qed.

  Lemma clean_all : (forall i, Pi i) /\ (forall p, Pc p) /\ (forall l, Ps l).
  Proof.
    apply tree_mutind; unfold Pi, Pc, Ps.
    - (* IEv *) intros e s o s' a r b H Hat Hj. simpl in H. go.
    - (* IProbe *) intros s o s' a r b H Hat Hj. simpl in H. go.
    - (* IProbeThrow *) intros s o s' a r b H Hat Hj. simpl in H. inversion H; subst.
      split; [apply J_probe; assumption | apply at_above, at_do_probe; assumption].
    - (* IThrow *) intros s o s' a r b H Hat Hj. simpl in H. inversion H; subst. split; [assumption | apply at_above; assumption].
    - (* ITry *) intros bd IHb hc cb IHc hf fb IHf s o s' a r b H Hat Hj. start s Hat. simpl in H. go.
    - (* ICall *) intros bd IHb s o s' a r b H Hat Hj. start s Hat. simpl in H. go.
    - (* INat *) intros k l [_ [IH _]] s o s' a r b H Hat Hj. start s Hat. simpl in H. destruct k; go.
    - (* IForOf *) intros ret l [IH _] s o s' a r b H Hat Hj. start s Hat. simpl in H. go.
    - (* IGen *) intros l [_ [_ [IH _]]] s o s' a r b H Hat Hj. simpl in H. eapply IH; eauto.
    - (* IGenRet *) intros pre IHp fin IHf s o s' a r b H Hat Hj. simpl in H.
      assert (Ht : ts s = r) by (destruct Hat as (_ & T & _); exact T). rewrite Ht in H.
      destruct (exec_c c pre _) as [o1 s3] eqn:E1.
      eapply IHp in E1; [ | apply at_push_frame, at_push_ctx, at_push_frame, at_push_ctx, at_push_ctx; exact Hat | auto 8 with jdb ].
      destruct E1 as [Hj3 Hr3]. destruct o1; simpl in Hr3.
      + destruct (exec_c c fin _) as [o2 s6] eqn:E2.
        eapply IHf in E2; [ | apply at_gen_reenter; eapply at_leave_gen; eapply at_pop_frame; exact Hr3
                            | apply J_gen_reenter, J_leave_gen, J_pop_frame; exact Hj3 ].
        destruct E2 as [Hj6 Hr6]. eapply gen_after_fin_ok; eassumption.
      + destruct (restore_to c _ s3) as [o' s4] eqn:E3.
        eapply under_frame_throw in E3; [ | exact Hr3 | reflexivity | lia | exact Hj3 ].
        destruct E3 as [Hj4 [[Eo Hat4] | [t [Eo Hab4]]]]; subst o'.
        * destruct (exec_c c fin s4) as [o2 s5] eqn:E2.
          eapply IHf in E2; [ | exact Hat4 | exact Hj4 ]. destruct E2 as [Hj5 Hr5].
          eapply gen_after_fin_ok; eassumption.
        * eapply gen_intr_ok in H; [ | eapply above_handler; [exact Hab4 | reflexivity] | lia | exact Hj4 ].
          destruct H as (A & B & C). subst o. split; [exact A | exact B].
      + eapply gen_intr_ok in H; [ | eapply above_handler; [exact Hr3 | reflexivity] | lia | exact Hj3 ].
        destruct H as (A & B & C). subst o. split; [exact A | exact B].
    - (* IAsyncN *) intros pres [_ [_ [_ IH]]] posts _ s o s' a r b H Hat Hj.
      assert (okjob (JChain posts)) by exact I. start s Hat. simpl in H. go.
    - (* IJob *) intros bd _ s o s' a r b H Hat Hj. assert (okjob (JPlain bd)) by exact I. simpl in H. go.
    - (* CNil *) intros s o s' a r b H Hat Hj. simpl in H. go.
    - (* CCons *) intros i IHi p IHp s o s' a r b H Hat Hj. simpl in H. go.
    - (* SNil *) split; [| split; [| split]]; intros; simpl in *; go.
    - (* SCons *) intros bd IHb l [IH1 [IH2 [IH3 IH4]]]. split; [| split; [| split]].
      + intros s o s' a r b H Hat Hj. start s Hat. simpl in H. go.
      + intros k s o s' a r b H Hat Hj. start s Hat. simpl in H. destruct k; go.
      + intros s o s' a r b H Hat Hj. start s Hat. simpl in H. go.
      + intros s o s' a r b H Hat Hj. start s Hat. simpl in H. go.
  Qed.

  Let IHc := proj1 (proj2 clean_all).

  Lemma run_job_ok : forall j s o s' a r b,
    run_job c j s = (o, s') -> at_base a r b s -> J s -> J s' /\ at_base a r b s'.
  Proof.
    intros j s o s' a r b H Hat Hj. destruct j as [bd | [| bd rest]].
    - pose proof (IHc bd) as IH; unfold Pc in IH; start s Hat; simpl in H; go.
    - simpl in H. inversion H; subst. auto.
    - assert (okjob (JChain rest)) by exact I.
      pose proof (IHc bd) as IH; unfold Pc in IH; start s Hat; simpl in H; go.
  Qed.

  Lemma run_jobs_ok : forall js s o s' a r b,
    run_jobs c js s = (o, s') -> at_base a r b s -> J s -> J s' /\ at_base a r b s'.
  Proof.
    induction js as [| j js IH]; intros s o s' a r b H Hat Hj; simpl in H.
    - inversion H; subst. auto.
    - destruct (run_job c j s) as [o1 s1] eqn:E.
      eapply run_job_ok in E; eauto. destruct E as [? ?].
      destruct o1; try (inversion H; subst; auto; fail). eapply IH; eauto.
  Qed.

  Lemma leave_ok : forall fuel s o s' a r b,
    leave c fuel s = (o, s') -> at_base a r b s -> J s -> J s' /\ at_base a r b s'.
  Proof.
    induction fuel as [| n IH]; intros s o s' a r b H Hat Hj.
    - simpl in H. inversion H; subst. auto.
    - cbn [leave] in H. destruct (jq s) as [| j q] eqn:Q.
      + inversion H; subst. auto.
      + remember (j :: q) as js. destruct (run_jobs c js (set_jq [] s)) as [o1 s1] eqn:E.
        eapply run_jobs_ok in E; [ | apply at_set_jq; eassumption | apply J_set_jq_nil ].
        destruct E as [? ?]. destruct o1; try (inversion H; subst; auto; fail). eapply IH; eauto.
  Qed.

  Lemma idle_epilogue : forall a r b x, at_base a r b x -> a = 0 -> r = [] -> b = [] -> is_idle (abrupt_epilogue x) = true.
  Proof.
    intros a r b x (A & B & C) -> -> ->. unfold abrupt_epilogue. rewrite A. simpl. unfold is_idle. simpl. rewrite A, B, C. reflexivity.
  Qed.

  Ltac fwdL :=
    match goal with
    | E : leave c _ _ = (_, _) |- _ => eapply leave_ok in E; [ | sAt | sJ ]; destruct E as [? ?]
    end.

  Lemma J_any : forall s, J s.
  Proof. intros. unfold J. apply Forall_forall. intros. exact I. Qed.

  Lemma run_top_clean_gen : forall fuel e p s o s' a r b,
    at_base a r b s -> a = 0 ->
    run_top c fuel e p s = (o, s') ->
    at_base a r b s' /\ (forall t, o = OIntr t -> r = [] -> b = [] -> is_idle s' = true).
  Proof.
    intros fuel e p s o s' a r b Hat Ha H. pose proof (IHc p) as IH. unfold Pc in IH. pose proof (J_any s) as Hj.
    start s Hat.
    destruct e; simpl in H;
      repeat brk; fold_ep; repeat (first [fwd | fwdL]; simpl res in * );
      (split; [ sAt | let t := fresh in let Et := fresh in intros t Et ? ?;
                      first [ discriminate Et | eapply idle_epilogue; [ sAt | assumption | assumption | assumption ] ] ]).
  Qed.
End Clean.

(* interrupt_clean: for EVERY program, every entry point, every interrupt position / firing time /
   ClearInterrupt variant, from any state whose three stacks are idle (whatever is queued):
   the stacks are back at their idle values whatever the outcome, and if the call returned the
   InterruptedError the job queue is empty and the flag is cleared. *)
Lemma interrupt_clean_from : forall c fuel e p s o s',
  cs s = 0 -> ts s = [] -> its s = [] ->
  run_top c fuel e p s = (o, s') ->
  cs s' = 0 /\ ts s' = [] /\ its s' = [] /\ (forall t, o = OIntr t -> is_idle s' = true).
Proof.
  intros c fuel e p s o s' A B C H.
  destruct (run_top_clean_gen c fuel e p s o s' 0 [] []) as [(X & Y & Z) W]; auto.
  - repeat split; assumption.
  - repeat split; try assumption. intros t E. eapply W; eauto.
Qed.
