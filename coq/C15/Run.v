(* C15 — executable instantiation used by the correspondence check (depends on Model.v only). *)
From Coq Require Import List Arith NArith Bool.
Import ListNotations.
From Verif.C15 Require Export Model.

(* helpers so that the harness can print programs compactly *)
Fixpoint mk (l : list instr) : code := match l with [] => CNil | i :: r => CCons i (mk r) end.
Fixpoint mks (l : list code) : codes := match l with [] => SNil | b :: r => SCons b (mks r) end.
Fixpoint rep (n : nat) (b : code) : list code := match n with 0 => [] | S n' => b :: rep n' b end.
Fixpoint capp (a b : code) : code := match a with CNil => b | CCons i r => CCons i (capp r b) end.
Fixpoint crep (n : nat) (b : code) : code := match n with 0 => CNil | S n' => capp b (crep n' b) end.

Record tcase := mkCase {
  c_entry : entry;
  c_mode : nat;             (* 0: interrupt from the k-th probe; 1: Interrupt(999) while idle, then the call;
                               2: Interrupt(999); ClearInterrupt(); then the call *)
  c_k : nat;
  c_clr : bool;
  c_strict : bool;          (* compare with the specification only (stored replays of known findings) *)
  c_prog : code;
  (* what the implementation did *)
  o_kind : nat;             (* 0 returned normally, 1 *InterruptedError, 2 *Exception, 3 other *)
  o_tok : N;                (* InterruptedError.Value() *)
  o_log : list N;           (* events of the call, oldest first *)
  o_idle : list nat;        (* VerifIdle: callStack tryStack iterStack jobQueue interrupted *)
  o_sp0 : bool;             (* VerifIdle: sp = 0 *)
  o_fkind : nat; o_ftok : N; o_flog : list N; o_fidle : list nat;  (* the follow-up RunString *)
  o_fdepth : nat            (* frames of new Error().stack taken in a function called by the follow-up program *)
}.

Definition okind (o : outcome) : nat := match o with ONorm => 0 | OIntr _ => 1 | OThrow => 2 end.
Definition otok (o : outcome) : N := match o with OIntr t => t | _ => 0%N end.

Definition clear_log (s : st) : st :=
  mkSt (cs s) (ts s) (its s) (jq s) (flag s) (ival s) [] (pcnt s) (clock s) (late s).

Definition followup : code := CCons (IEv 776%N) CNil.

Record pred := mkPred { p_kind : nat; p_tok : N; p_log : list N; p_idle : list nat;
                        p_fkind : nat; p_ftok : N; p_flog : list N; p_fidle : list nat }.

Definition run_case (c : tcase) : pred :=
  let cf := mkCfg (c_k c) (c_clr c) None in
  let s0 := match c_mode c with
            | 0 => idle0
            | 1 => interrupt 999%N idle0
            | _ => clear_interrupt (interrupt 999%N idle0)
            end in
  let '(o, s1) := run_top cf 64 (c_entry c) (c_prog c) s0 in
  let '(o2, s2) := run_top cf 64 ERun followup (clear_log s1) in
  mkPred (okind o) (otok o) (rev (log s1)) (idle_vec s1) (okind o2) (otok o2) (rev (log s2)) (idle_vec s2).

Definition leqb {A} (eqb : A -> A -> bool) :=
  fix go (a b : list A) : bool :=
    match a, b with
    | [], [] => true
    | x :: a', y :: b' => eqb x y && go a' b'
    | _, _ => false
    end.

Definition matches (c : tcase) (p : pred) : bool :=
  Nat.eqb (o_kind c) (p_kind p) && N.eqb (o_tok c) (p_tok p) && leqb N.eqb (o_log c) (p_log p)
  && leqb Nat.eqb (o_idle c) (p_idle p)
  && Nat.eqb (o_fkind c) (p_fkind p) && N.eqb (o_ftok c) (p_ftok p) && leqb N.eqb (o_flog c) (p_flog p)
  && leqb Nat.eqb (o_fidle c) (p_fidle p).

(* goja's frame discipline now is the specification (F16, F20 repaired): one model, one verdict.  Behaviour that
   still deviates (open findings) shows up as a mismatch and is classified by the narrow predicates. *)
(* a stack captured by an unrelated later run at top level sees exactly its own two frames (the function and the
   program): nothing of the interrupted run is left *)
Definition followup_depth : nat := 2.
Definition check_case (c : tcase) : bool := matches c (run_case c) && o_sp0 c && Nat.eqb (o_fdepth c) followup_depth.

Fixpoint mismatch_from (i : N) (cs : list tcase) : list N :=
  match cs with
  | [] => []
  | c :: r => if check_case c then mismatch_from (N.succ i) r else i :: mismatch_from (N.succ i) r
  end.
Definition mismatch_ids := mismatch_from 0%N.

Definition expected (c : tcase) := run_case c.
