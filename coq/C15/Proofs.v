(* C15 — lemmas. *)
From Coq Require Import List Arith NArith Bool Lia.
Import ListNotations.
From Verif.C15 Require Import Model.

(* =========================================================================================== *)
(* 1. The run loop: the poll comes before the instruction                                       *)

Section RunLoopFacts.
  Variable S : Type.
  Variable flag halted : S -> bool.
  Variable exec : S -> S.
  Variable env_mid env_end : nat -> S -> S.
  Let loop := loop S flag halted exec env_mid env_end.

  (* flag already set when iteration [it] polls: no instruction executes any more, whatever the program *)
  Lemma loop_set_at_poll : forall fuel it n s, flag s = true ->
    loop (Datatypes.S fuel) it n s = LInterrupted s n.
  Proof. intros. unfold loop. simpl. rewrite H. reflexivity. Qed.

  (* The flag is set by another goroutine after the poll of iteration [it] and before (or while) its
     instruction executes; nobody clears it.  Exactly that one instruction executes. *)
  Lemma loop_set_after_poll : forall fuel it n s,
    flag s = false -> halted s = false ->
    flag (env_end it (exec (env_mid it s))) = true ->
    loop (Datatypes.S (Datatypes.S fuel)) it n s
      = LInterrupted (env_end it (exec (env_mid it s))) (Datatypes.S n).
  Proof.
    intros. unfold loop. cbn [Model.loop]. rewrite H, H0.
    change (Model.loop S flag halted exec env_mid env_end (Datatypes.S fuel) (Datatypes.S it) (Datatypes.S n)
              (env_end it (exec (env_mid it s)))) with
      (loop (Datatypes.S fuel) (Datatypes.S it) (Datatypes.S n) (env_end it (exec (env_mid it s)))).
    apply loop_set_at_poll. assumption.
  Qed.

  (* the bound, in one statement: if the flag is set at some moment of iteration [it] (before its poll, or
     between its poll and the next one) and stays set, at most one more instruction executes in this loop *)
  Lemma loop_prompt : forall fuel it n s,
    (flag s = true \/ flag (env_end it (exec (env_mid it s))) = true) ->
    (exists s' n', loop (Datatypes.S (Datatypes.S fuel)) it n s = LInterrupted s' n' /\ n' <= Datatypes.S n)
    \/ (exists s' n', loop (Datatypes.S (Datatypes.S fuel)) it n s = LHalted s' n' /\ n' = n).
  Proof.
    intros fuel it n s [H | H].
    - left. exists s, n. split; [apply loop_set_at_poll; assumption | lia].
    - destruct (flag s) eqn:F.
      + left. exists s, n. split; [apply loop_set_at_poll; assumption | lia].
      + destruct (halted s) eqn:Hh.
        * right. exists s, n. unfold loop. cbn [Model.loop]. rewrite F, Hh. auto.
        * left. eexists _, _. split; [apply loop_set_after_poll; assumption | lia].
  Qed.
End RunLoopFacts.

(* =========================================================================================== *)
(* 2. handleThrow with an uncatchable payload hands control to no handler, for every try stack  *)

Lemma handle_throw_uncatchable : forall ts,
  snd (handle_throw false ts) = HRepanic /\
  (forall f, In f (fst (handle_throw false ts)) -> In f ts) /\
  match fst (handle_throw false ts) with
  | [] => forallb (fun f => negb (is_marker f)) ts = true          (* no marker at all *)
  | f :: _ => is_marker f = true                                   (* stopped at the first marker *)
  end.
Proof.
  induction ts as [| f r IH]; simpl.
  - auto.
  - destruct (f_kind f) eqn:K; simpl.
    + split; [reflexivity |]. split; [auto |]. unfold is_marker. rewrite K. reflexivity.
    + destruct IH as (A & B & C). split; [exact A |]. split; [intros; right; auto |].
      destruct (fst (handle_throw false r)) eqn:E; simpl.
      * unfold is_marker at 1. rewrite K. simpl. exact C.
      * exact C.
Qed.

(* the frames skipped are exactly the handler frames above the first marker *)
Lemma handle_throw_uncatchable_split : forall ts,
  exists hs, ts = hs ++ fst (handle_throw false ts) /\ forallb (fun f => negb (is_marker f)) hs = true.
Proof.
  induction ts as [| f r IH]; simpl.
  - exists []. auto.
  - destruct (f_kind f) eqn:K; simpl.
    + exists []. auto.
    + destruct IH as (hs & E & A). exists (f :: hs). simpl. split; [f_equal; exact E |].
      unfold is_marker at 1. rewrite K. simpl. exact A.
Qed.

(* for comparison: a catchable payload is delivered to the innermost armed handler *)
Lemma handle_throw_catchable_first : forall hc hf cs it r,
  hc || hf = true ->
  snd (handle_throw true (mkFrame cs it (FHandler hc hf) :: r))
    = if hc then HCatch (mkFrame cs it (FHandler hc hf)) else HFinally (mkFrame cs it (FHandler hc hf)).
Proof. intros. simpl. destruct hc, hf; simpl in *; try reflexivity; discriminate. Qed.

(* =========================================================================================== *)
(* 3. The control skeleton: a loop that is entered or resumed with the flag set executes nothing *)

Lemma tick_flag : forall c s, flag s = true -> flag (tick c s) = true.
Proof. intros. unfold tick. destruct (fire c) as [[t v]|]; simpl; auto. destruct (Nat.eqb t (clock s)); simpl; auto. Qed.

Lemma tick_log : forall c s, log (tick c s) = log s.
Proof. intros. unfold tick. destruct (fire c) as [[t v]|]; simpl; auto. destruct (Nat.eqb t (clock s)); simpl; auto. Qed.
Lemma tick_late : forall c s, late (tick c s) = late s.
Proof. intros. unfold tick. destruct (fire c) as [[t v]|]; simpl; auto. destruct (Nat.eqb t (clock s)); simpl; auto. Qed.
Lemma tick_pcnt : forall c s, pcnt (tick c s) = pcnt s.
Proof. intros. unfold tick. destruct (fire c) as [[t v]|]; simpl; auto. destruct (Nat.eqb t (clock s)); simpl; auto. Qed.
Lemma tick_cs : forall c s, cs (tick c s) = cs s.
Proof. intros. unfold tick. destruct (fire c) as [[t v]|]; simpl; auto. destruct (Nat.eqb t (clock s)); simpl; auto. Qed.
Lemma tick_ts : forall c s, ts (tick c s) = ts s.
Proof. intros. unfold tick. destruct (fire c) as [[t v]|]; simpl; auto. destruct (Nat.eqb t (clock s)); simpl; auto. Qed.
Lemma tick_its : forall c s, its (tick c s) = its s.
Proof. intros. unfold tick. destruct (fire c) as [[t v]|]; simpl; auto. destruct (Nat.eqb t (clock s)); simpl; auto. Qed.
Lemma tick_jq : forall c s, jq (tick c s) = jq s.
Proof. intros. unfold tick. destruct (fire c) as [[t v]|]; simpl; auto. destruct (Nat.eqb t (clock s)); simpl; auto. Qed.
Lemma tick_clock : forall c s, clock (tick c s) = Datatypes.S (clock s).
Proof. intros. unfold tick. destruct (fire c) as [[t v]|]; simpl; auto. destruct (Nat.eqb t (clock s)); simpl; auto. Qed.
Lemma tick_ival_nofire : forall c s, fire c = None -> ival (tick c s) = ival s.
Proof. intros. unfold tick. rewrite H. reflexivity. Qed.

(* for EVERY instruction stream and EVERY state (any nesting, any stacks): flag set => the loop unwinds at once *)
Lemma exec_c_flag_set : forall c p s, flag s = true ->
  exec_c c p s = (OIntr (ival (tick c s)), tick c s).
Proof. intros. destruct p; simpl; rewrite (tick_flag c s H); reflexivity. Qed.

(* =========================================================================================== *)
(* 4. The interleaving model: no race on interruptVal                                           *)

Definition holds (h : option nat) (t : nat) : bool := match h with Some x => Nat.eqb x t | None => false end.

(* transitive closure of the direct edges *)
Inductive hb (e : trace -> nat -> nat -> bool) (tr : trace) : nat -> nat -> Prop :=
| hb_step : forall i j, e tr i j = true -> hb e tr i j
| hb_trans : forall i j k, hb e tr i j -> hb e tr j k -> hb e tr i k.

Lemma hb_mono : forall tr i j, hb hb1_lock tr i j -> hb hb1 tr i j.
Proof.
  induction 1.
  - apply hb_step. unfold hb1, hb1_lock in *.
    apply andb_true_iff in H. destruct H as [A B]. rewrite A. simpl.
    rewrite B. reflexivity.
  - eapply hb_trans; eauto.
Qed.

(* a val access by thread t at the head of the remaining trace means t holds the mutex *)
Lemma access_holds : forall tr h,
  lock_ok h tr = true ->
  (forall t, bracketed_from (holds h t) (proj t tr) = true) ->
  forall pre a rest, tr = pre ++ a :: rest -> is_val_access (snd a) = true ->
  holder_after h pre = Some (fst a).
Proof.
  induction tr as [| [t0 e] r IH]; intros h Hl Hb pre a rest E Ha.
  - destruct pre; discriminate.
  - destruct pre as [| x pre'].
    + simpl in E. inversion E; subst a rest. simpl in *.
      specialize (Hb t0). simpl in Hb. rewrite Nat.eqb_refl in Hb.
      destruct e; simpl in Ha; try discriminate;
        simpl in Hb; apply andb_true_iff in Hb; destruct Hb as [Hh _];
        unfold holds in Hh; destruct h; try discriminate; apply Nat.eqb_eq in Hh; subst; reflexivity.
    + simpl in E. inversion E; subst x. clear E.
      assert (Hstep : exists h', lock_ok h' r = true /\ (forall t, bracketed_from (holds h' t) (proj t r) = true)
                                 /\ holder_after h ((t0, e) :: pre') = holder_after h' pre').
      { destruct e; simpl in Hl.
        - (* Lock *) destruct h; try discriminate. exists (Some t0). split; [assumption|]. split; [| reflexivity].
          intro t. specialize (Hb t). simpl in Hb. destruct (Nat.eqb t0 t) eqn:Et.
          + simpl in Hb. simpl. rewrite Et. exact Hb.
          + simpl. rewrite Et. exact Hb.
        - (* Unlock *) destruct h as [h0|]; try discriminate. apply andb_true_iff in Hl. destruct Hl as [Hh Hl].
          apply Nat.eqb_eq in Hh. subst h0. exists None. split; [assumption|]. split; [| reflexivity].
          intro t. specialize (Hb t). simpl in Hb. destruct (Nat.eqb t0 t) eqn:Et.
          + simpl in Hb. try (apply andb_true_iff in Hb; destruct Hb as [_ Hb]). simpl. exact Hb.
          + simpl. exact Hb.
        - exists h. split; [assumption|]. split; [| reflexivity].
          intro t. specialize (Hb t). simpl in Hb. destruct (Nat.eqb t0 t) eqn:Et.
          + simpl in Hb. try (apply andb_true_iff in Hb; destruct Hb as [_ Hb]). simpl. exact Hb.
          + exact Hb.
        - exists h. split; [assumption|]. split; [| reflexivity].
          intro t. specialize (Hb t). simpl in Hb. destruct (Nat.eqb t0 t) eqn:Et.
          + simpl in Hb. try (apply andb_true_iff in Hb; destruct Hb as [_ Hb]). simpl. exact Hb.
          + exact Hb.
        - exists h. split; [assumption|]. split; [| reflexivity].
          intro t. specialize (Hb t). simpl in Hb. destruct (Nat.eqb t0 t) eqn:Et; exact Hb.
        - exists h. split; [assumption|]. split; [| reflexivity].
          intro t. specialize (Hb t). simpl in Hb. destruct (Nat.eqb t0 t) eqn:Et; exact Hb. }
      destruct Hstep as (h' & Hl' & Hb' & Eh). rewrite Eh.
      eapply IH; eauto.
Qed.

Lemma lock_ok_app : forall a b h, lock_ok h (a ++ b) = true ->
  lock_ok h a = true /\ lock_ok (holder_after h a) b = true.
Proof.
  induction a as [| [t e] a IH]; intros b h H; simpl in *.
  - auto.
  - destruct e; try (apply IH; assumption).
    + destruct h; try discriminate. apply IH. assumption.
    + destruct h; try discriminate. apply andb_true_iff in H. destruct H as [H1 H2].
      rewrite H1. simpl. apply IH. assumption.
Qed.

Lemma holder_after_app : forall a b h, holder_after h (a ++ b) = holder_after (holder_after h a) b.
Proof. induction a as [| [t e] a IH]; intros; simpl; auto. destruct e; auto. Qed.

(* the mutex changes hands only through a Lock by the new holder *)
Lemma holder_change_lock : forall l h t, holder_after h l = Some t -> h = Some t \/ In (t, Lock) l.
Proof.
  induction l as [| [t0 e] l IH]; intros h t H; simpl in *.
  - auto.
  - destruct e; try (destruct (IH _ _ H); auto; fail).
    + destruct (IH _ _ H) as [E | E]; auto. inversion E; subst. auto.
    + destruct (IH _ _ H) as [E | E]; auto. discriminate.
Qed.

(* while ta holds the mutex, a Lock by anybody is preceded by ta's Unlock *)
Lemma unlock_before_lock : forall l ta tb, lock_ok (Some ta) l = true -> In (tb, Lock) l ->
  exists m1 m2 m3, l = m1 ++ (ta, Unlock) :: m2 ++ (tb, Lock) :: m3.
Proof.
  induction l as [| [t0 e] l IH]; intros ta tb Hl Hin; simpl in *.
  - contradiction.
  - destruct e.
    + discriminate.
    + apply andb_true_iff in Hl. destruct Hl as [E _]. apply Nat.eqb_eq in E. subst t0.
      destruct Hin as [Hin | Hin]; [discriminate |].
      apply in_split in Hin. destruct Hin as (m2 & m3 & E). exists [], m2, m3. simpl. rewrite E. reflexivity.
    + destruct Hin as [Hin | Hin]; [discriminate |]. destruct (IH _ _ Hl Hin) as (m1 & m2 & m3 & E).
      exists ((t0, Wr v) :: m1), m2, m3. simpl. rewrite E. reflexivity.
    + destruct Hin as [Hin | Hin]; [discriminate |]. destruct (IH _ _ Hl Hin) as (m1 & m2 & m3 & E).
      exists ((t0, Rd v) :: m1), m2, m3. simpl. rewrite E. reflexivity.
    + destruct Hin as [Hin | Hin]; [discriminate |]. destruct (IH _ _ Hl Hin) as (m1 & m2 & m3 & E).
      exists ((t0, AWr b) :: m1), m2, m3. simpl. rewrite E. reflexivity.
    + destruct Hin as [Hin | Hin]; [discriminate |]. destruct (IH _ _ Hl Hin) as (m1 & m2 & m3 & E).
      exists ((t0, ARd b) :: m1), m2, m3. simpl. rewrite E. reflexivity.
Qed.

Lemma ev_at_app_mid : forall (a : trace) x b, ev_at (a ++ x :: b) (length a) = x.
Proof. intros. unfold ev_at. rewrite app_nth2; [| lia]. rewrite Nat.sub_diag. reflexivity. Qed.

Lemma holder_after_access : forall h a pre, is_val_access (snd a) = true ->
  holder_after h (pre ++ [a]) = holder_after h pre.
Proof.
  intros. rewrite holder_after_app. simpl. destruct a as [t e]. destruct e; simpl in *; try discriminate; reflexivity.
Qed.

(* MAIN: in every well-locked trace whose threads touch interruptVal only inside their own critical
   sections, any two conflicting accesses by different threads are ordered by program order and lock order. *)
Lemma no_race_lock : forall tr,
  lock_ok None tr = true ->
  (forall t, bracketed_from false (proj t tr) = true) ->
  forall i j, i < j -> j < length tr ->
  fst (ev_at tr i) <> fst (ev_at tr j) ->
  conflicting (snd (ev_at tr i)) (snd (ev_at tr j)) = true ->
  hb hb1_lock tr i j.
Proof.
  intros tr Hl Hb i j Hij Hj Hne Hc.
  unfold conflicting in Hc. apply andb_true_iff in Hc. destruct Hc as [Hc _].
  apply andb_true_iff in Hc. destruct Hc as [Hai Haj].
  (* split the trace at i and j *)
  assert (Hi : i < length tr) by lia.
  destruct (nth_split tr (0, ARd false) Hi) as (pre & rest & E1 & Lpre).
  fold (ev_at tr i) in E1. set (a := ev_at tr i) in *.
  assert (Hj' : j - Datatypes.S i < length rest).
  { rewrite E1 in Hj. rewrite app_length in Hj. simpl in Hj. lia. }
  destruct (nth_split rest (0, ARd false) Hj') as (mid & post & E2 & Lmid).
  assert (Eb : ev_at tr j = nth (j - Datatypes.S i) rest (0, ARd false)).
  { unfold ev_at. rewrite E1 at 1. rewrite app_nth2; [| lia]. rewrite Lpre.
    replace (j - i) with (Datatypes.S (j - Datatypes.S i)) by lia. reflexivity. }
  rewrite <- Eb in E2. set (b := ev_at tr j) in *.
  assert (Etr : tr = (pre ++ a :: mid) ++ b :: post).
  { rewrite E1 at 1. rewrite E2. rewrite <- app_assoc. reflexivity. }
  assert (Hb0 : forall t, bracketed_from (holds None t) (proj t tr) = true) by (intro; apply Hb).
  pose proof (access_holds tr None Hl Hb0 pre a rest E1 Hai) as Ha.
  pose proof (access_holds tr None Hl Hb0 (pre ++ a :: mid) b post Etr Haj) as Hbh.
  rewrite holder_after_app in Hbh.
  assert (Hskip : holder_after (holder_after None pre) (a :: mid) = holder_after (Some (fst a)) mid).
  { simpl. destruct a as [ta ea]. simpl in *. destruct ea; simpl in Hai; try discriminate; rewrite Ha; reflexivity. }
  rewrite Hskip in Hbh.
  destruct (holder_change_lock _ _ _ Hbh) as [Eq | Hin].
  { inversion Eq. contradiction. }
  (* lock_ok on mid with ta holding *)
  assert (Hlm : lock_ok (Some (fst a)) mid = true).
  { rewrite E1 in Hl. apply lock_ok_app in Hl. destruct Hl as [_ Hl]. rewrite Ha in Hl.
    rewrite E2 in Hl. destruct a as [ta ea]. simpl in Hai. simpl in Hl.
    destruct ea; try discriminate; apply lock_ok_app in Hl; destruct Hl as [Hl _]; exact Hl. }
  destruct (unlock_before_lock _ _ _ Hlm Hin) as (m1 & m2 & m3 & Em).
  (* positions of the Unlock and the Lock *)
  set (u := length pre + 1 + length m1).
  set (l := u + 1 + length m2).
  assert (Etr2 : tr = (pre ++ a :: m1) ++ (fst a, Unlock) :: (m2 ++ (fst b, Lock) :: m3 ++ b :: post)).
  { rewrite Etr. rewrite Em. repeat (rewrite <- app_assoc; simpl). reflexivity. }
  assert (Etr3 : tr = (pre ++ a :: m1 ++ (fst a, Unlock) :: m2) ++ (fst b, Lock) :: (m3 ++ b :: post)).
  { rewrite Etr. rewrite Em. repeat (rewrite <- app_assoc; simpl). reflexivity. }
  assert (Lu : length (pre ++ a :: m1) = u) by (rewrite app_length; simpl; unfold u; lia).
  assert (Ll : length (pre ++ a :: m1 ++ (fst a, Unlock) :: m2) = l).
  { rewrite app_length. simpl. rewrite app_length. simpl. unfold l, u. lia. }
  assert (Eu : ev_at tr u = (fst a, Unlock)).
  { rewrite Etr2 at 1. rewrite <- Lu. apply ev_at_app_mid. }
  assert (El : ev_at tr l = (fst b, Lock)).
  { rewrite Etr3 at 1. rewrite <- Ll. apply ev_at_app_mid. }
  assert (Lmid2 : length mid = length m1 + 1 + length m2 + 1 + length m3).
  { rewrite Em. rewrite app_length. simpl. rewrite app_length. simpl. lia. }
  assert (Hiu : i < u) by (unfold u; lia).
  assert (Hul : u < l) by (unfold l; lia).
  assert (Hlj : l < j) by (unfold l, u; lia).
  apply hb_trans with u.
  { apply hb_step. unfold hb1_lock. rewrite Eu. fold a. simpl.
    rewrite Nat.eqb_refl. simpl.
    apply andb_true_iff. split; [apply andb_true_iff; split; apply Nat.ltb_lt; lia | reflexivity]. }
  apply hb_trans with l.
  { apply hb_step. unfold hb1_lock. rewrite Eu, El. simpl.
    apply andb_true_iff. split; [apply andb_true_iff; split; apply Nat.ltb_lt; lia | apply orb_true_r]. }
  apply hb_step. unfold hb1_lock. rewrite El. fold b. simpl. rewrite Nat.eqb_refl. simpl.
  apply andb_true_iff. split; [apply andb_true_iff; split; apply Nat.ltb_lt; lia | reflexivity].
Qed.

(* the thread programs of the protocol are bracketed, for any number of calls / polls *)
Fixpoint interrupter_calls (vs : list N) : list event :=
  match vs with [] => [] | v :: r => interrupter v ++ interrupter_calls r end.

(* one element per poll: Some v = the poll saw the flag and read v; None = flag clear *)
Fixpoint runner_polls (ps : list (option N)) : list event :=
  match ps with
  | [] => []
  | Some v :: r => runner_hit v ++ runner_polls r
  | None :: r => runner_miss ++ runner_polls r
  end.

Lemma interrupter_bracketed : forall vs, bracketed_from false (interrupter_calls vs) = true.
Proof. induction vs; simpl; auto. Qed.

Lemma runner_bracketed : forall ps, bracketed_from false (runner_polls ps) = true.
Proof. induction ps as [| [v|] r IH]; simpl; auto. Qed.

(* bracketing is prefix closed: a thread that has not finished yet is fine too *)
Lemma bracketed_prefix : forall a b h, bracketed_from h (a ++ b) = true -> bracketed_from h a = true.
Proof.
  induction a as [| e a IH]; intros b h H; simpl in *; auto.
  destruct e, h; simpl in *; try discriminate; eapply IH; eassumption.
Qed.

(* =========================================================================================== *)
(* 5. Global promptness: in the whole execution tree at most ONE instruction is started while    *)
(*    the flag is set — by a potential argument on the clock                                      *)

(* 1 while the asynchronous Interrupt is still to come, 0 afterwards *)
Definition ind (c : cfg) (clk : nat) : nat :=
  match fire c with Some (t, _) => if Nat.leb clk t then 1 else 0 | None => 0 end.

Definition R (c : cfg) (s s' : st) : Prop :=
  clock s <= clock s' /\ late s' + ind c (clock s') <= late s + ind c (clock s).

Lemma R_refl : forall c s, R c s s. Proof. unfold R; intros; lia. Qed.
Lemma R_trans : forall c a b d, R c a b -> R c b d -> R c a d. Proof. unfold R; intros; lia. Qed.

Lemma ind_S : forall c n, ind c (Datatypes.S n) <= ind c n.
Proof.
  intros. unfold ind. destruct (fire c) as [[t v]|]; auto.
  destruct (Nat.leb_spec (Datatypes.S n) t); destruct (Nat.leb_spec n t); lia.
Qed.

Lemma R_tick : forall c s, R c s (tick c s).
Proof. intros. unfold R. rewrite tick_clock, tick_late. pose proof (ind_S c (clock s)). lia. Qed.

Lemma R_bump_tick : forall c s, flag s = false -> R c s (bump_late (tick c s)).
Proof.
  intros c s F. unfold R.
  assert (C : clock (bump_late (tick c s)) = Datatypes.S (clock s)).
  { unfold bump_late. destruct (flag (tick c s)); simpl; apply tick_clock. }
  assert (L : late (bump_late (tick c s)) = late s + (if flag (tick c s) then 1 else 0)).
  { unfold bump_late. destruct (flag (tick c s)); simpl; rewrite tick_late; lia. }
  rewrite C, L. pose proof (ind_S c (clock s)) as M.
  destruct (flag (tick c s)) eqn:Ft; [| lia].
  assert (exists v, fire c = Some (clock s, v)) as [v Ef].
  { unfold tick in Ft. destruct (fire c) as [[t v]|]; simpl in Ft; [| congruence].
    destruct (Nat.eqb_spec t (clock s)); simpl in Ft; [subst; eauto | congruence]. }
  unfold ind. rewrite Ef.
  destruct (Nat.leb_spec (Datatypes.S (clock s)) (clock s)); destruct (Nat.leb_spec (clock s) (clock s)); lia.
Qed.

(* helpers that do not touch the clock and the late counter *)
Definition same (s s' : st) : Prop := clock s' = clock s /\ late s' = late s.
Lemma same_R : forall c s s', same s s' -> R c s s'. Proof. unfold same, R. intros c s s' [A B]. rewrite A, B. lia. Qed.


Lemma restore_stacks_same : forall c n s, same s (snd (restore_stacks c n s)).
Proof.
  intros. unfold restore_stacks.
  destruct (close_iters (length (its s) - n) (its s) (flag s) (log s)) as [[a l'] lg']. simpl. split; reflexivity.
Qed.

Lemma unwind_u_same : forall c s, same s (unwind_u c s).
Proof.
  intros. unfold unwind_u. destruct (handle_throw false (ts s)) as [t' h]. destruct t' as [| f r]; simpl; split; reflexivity.
Qed.

Lemma restore_to_same : forall c d s, same s (snd (restore_to c d s)).
Proof.
  intros. unfold restore_to. destruct (skipn (length (ts s) - d) (ts s)) as [| f r] eqn:E; simpl.
  - split; reflexivity.
  - match goal with |- context [restore_stacks c ?n ?x] =>
      pose proof (restore_stacks_same c n x) as [A B]; destruct (restore_stacks c n x) as [a s2] end.
    simpl in *. split; [rewrite A | rewrite B]; reflexivity.
Qed.

Lemma do_probe_same : forall c s, same s (do_probe c s).
Proof.
  intros. unfold do_probe. destruct (Nat.eqb (Datatypes.S (pcnt s)) (kth c)); [destruct (clr c) |]; split; reflexivity.
Qed.

Lemma recover_deferred_same : forall c s, same s (recover_deferred c s).
Proof. intros. unfold recover_deferred, pop_frame. destruct (unwind_u_same c s) as [A B]. split; simpl; assumption. Qed.

Lemma abrupt_epilogue_same : forall s, same s (abrupt_epilogue s).
Proof. intros. unfold abrupt_epilogue. destruct (Nat.eqb (cs s) 0); split; reflexivity. Qed.

Lemma gen_intr_same : forall c o s o' s', gen_intr c o s = (o', s') -> same s s'.
Proof.
  intros c o s o' s' H. unfold gen_intr in H. inversion H; subst. destruct (unwind_u_same c s) as [A B].
  split; simpl; assumption.
Qed.

Lemma gen_throw_same : forall c d s o' s', gen_throw c d s = (o', s') -> same s s'.
Proof.
  intros c d s o' s' H. unfold gen_throw in H. destruct (restore_to c d s) as [o1 s1] eqn:E.
  pose proof (restore_to_same c d s) as [A B]. rewrite E in A, B. simpl in A, B.
  destruct o1; inversion H; subst; try (destruct (unwind_u_same c s1) as [A' B']); split; simpl; congruence.
Qed.

Lemma gen_after_fin_same : forall c d pend o s o' s', gen_after_fin c d pend (o, s) = (o', s') -> same s s'.
Proof.
  intros c d pend o s o' s' H. unfold gen_after_fin in H. destruct o.
  - destruct pend.
    + apply gen_throw_same in H. destruct H as [A B]. split; simpl in *; assumption.
    + inversion H; subst. split; reflexivity.
  - eapply gen_throw_same; eassumption.
  - eapply gen_intr_same; eassumption.
Qed.

Lemma same_refl : forall s, same s s. Proof. split; reflexivity. Qed.
Lemma same_trans : forall a b d, same a b -> same b d -> same a d.
Proof. unfold same. intros a b d [A B] [C D]. split; congruence. Qed.

(* bring every state expression of the goal/hypotheses down to clock/late of named states *)
Ltac cl_simpl :=
  repeat match goal with
  | |- context [restore_to ?c ?d ?s] => fail
  | _ => idtac
  end;
  unfold R, same, recover_deferred, abrupt_epilogue, leave_abrupt, enqueue, push_ctx, pop_ctx, push_frame, pop_frame,
         set_cs, set_ts, set_its, set_jq, add_log, interrupt, clear_interrupt in *;
  simpl in *.

Ltac pose_same :=
  repeat match goal with
  | H : restore_to ?c ?d ?s = (_, ?s2) |- _ =>
      let A := fresh "A" in let B := fresh "B" in
      pose proof (restore_to_same c d s) as [A B]; rewrite H in A, B; simpl in A, B; revert H
  end; intros;
  repeat match goal with
  | |- context [unwind_u ?c ?s] =>
      let A := fresh "A" in let B := fresh "B" in let u := fresh "u" in
      pose proof (unwind_u_same c s) as [A B]; set (u := unwind_u c s) in *; clearbody u
  | H : context [unwind_u ?c ?s] |- _ =>
      let A := fresh "A" in let B := fresh "B" in let u := fresh "u" in
      pose proof (unwind_u_same c s) as [A B]; set (u := unwind_u c s) in *; clearbody u
  end.

Ltac brk :=
  match goal with
  | H : (let '(_, _) := ?e in _) = _ |- _ => destruct e as [? ?] eqn:?
  | H : match ?o with ONorm => _ | OThrow => _ | OIntr _ => _ end = _ |- _ => destruct o
  | H : (if ?b then _ else _) = (_, _) |- _ => destruct b eqn:?
  | H : match ?k with NCb => _ | NGet => _ | NGo _ => _ | NRun _ => _ end = _ |- _ => destruct k
  | H : (_, _) = (_, _) |- _ => inversion H; subst; clear H
  end.

Ltac fin_R :=
  unfold recover_deferred, abrupt_epilogue in *; pose_same; cl_simpl;
  repeat match goal with
  | H : context [if ?b then _ else _] |- _ => destruct b
  | |- context [if ?b then _ else _] => destruct b
  end; simpl in *;
  repeat match goal with
  | H : clock ?x = _ |- _ => rewrite H in *; clear H
  | H : late ?x = _ |- _ => rewrite H in *; clear H
  end; lia.

Scheme instr_mut := Induction for instr Sort Prop
  with code_mut := Induction for code Sort Prop
  with codes_mut := Induction for codes Sort Prop.
Combined Scheme tree_mutind from instr_mut, code_mut, codes_mut.

Section Potential.
  Variable c : cfg.

  Definition Pi (i : instr) := forall s o s', exec_i c i s = (o, s') -> R c s s'.
  Definition Pc (p : code) := forall s o s', exec_c c p s = (o, s') -> R c s s'.
  Definition Ps (l : codes) :=
    (forall s o s', exec_seq c l s = (o, s') -> R c s s') /\
    (forall k s o s', exec_cbs c k l s = (o, s') -> R c s s') /\
    (forall s o s', exec_gen c l s = (o, s') -> R c s s') /\
    (forall s o s', exec_async c l s = (o, s') -> R c s s').

  Lemma potential_all : (forall i, Pi i) /\ (forall p, Pc p) /\ (forall l, Ps l).
  Proof.
    apply tree_mutind; unfold Pi, Pc, Ps.
    - (* IEv *) intros e s o s' H. simpl in H. inversion H; subst. fin_R.
    - (* IProbe *) intros s o s' H. simpl in H. inversion H; subst. apply same_R, do_probe_same.
    - (* IProbeThrow *) intros s o s' H. simpl in H. inversion H; subst. apply same_R, do_probe_same.
    - (* IThrow *) intros s o s' H. simpl in H. inversion H; subst. apply R_refl.
    - (* ITry *) intros b IHb hc cb IHc hf fb IHf s o s' H. simpl in H.
      repeat brk;
        repeat match goal with
        | E : exec_c c b _ = _ |- _ => apply IHb in E
        | E : exec_c c cb _ = _ |- _ => apply IHc in E
        | E : exec_c c fb _ = _ |- _ => apply IHf in E
        end; fin_R.
    - (* ICall *) intros b IHb s o s' H. simpl in H. repeat brk;
        match goal with E : exec_c c b _ = _ |- _ => apply IHb in E end; fin_R.
    - (* INat *) intros k l [_ [IHl _]] s o s' H. simpl in H.
      destruct (exec_cbs c k l (match k with NGet => s | _ => push_ctx s end)) as [o1 s1] eqn:E.
      apply IHl in E. destruct k; repeat brk; fin_R.
    - (* IForOf *) intros r l [IHl _] s o s' H. simpl in H. repeat brk;
        match goal with E : exec_seq c l _ = _ |- _ => apply IHl in E end; fin_R.
    - (* IGen *) intros l [_ [_ [IHl _]]] s o s' H. simpl in H. eapply IHl; eauto.
    - (* IGenRet *) intros pre IHp fin IHf s o s' H. simpl in H.
      destruct (exec_c c pre _) as [o1 s3] eqn:E1. apply IHp in E1.
      assert (R0 : R c s s3).
      { eapply R_trans; [| exact E1]. apply same_R. split; reflexivity. }
      destruct o1.
      + destruct (exec_c c fin _) as [o2 s6] eqn:E2. apply IHf in E2.
        apply gen_after_fin_same in H.
        assert (Hre : same s3 (gen_reenter (leave_gen (pop_frame s3)))) by (split; reflexivity).
        eapply R_trans; [exact R0 |]. eapply R_trans; [apply same_R; exact Hre |].
        eapply R_trans; [exact E2 | apply same_R; exact H].
      + destruct (restore_to c _ s3) as [o' s4] eqn:E3.
        match type of E3 with restore_to c ?d s3 = _ => pose proof (restore_to_same c d s3) as Hs end.
        rewrite E3 in Hs. simpl in Hs.
        assert (R1 : R c s s4) by (eapply R_trans; [exact R0 | apply same_R; exact Hs]).
        destruct o'.
        * apply gen_intr_same in H. eapply R_trans; [exact R1 | apply same_R; exact H].
        * destruct (exec_c c fin s4) as [o2 s5] eqn:E2. apply IHf in E2. apply gen_after_fin_same in H.
          eapply R_trans; [exact R1 |]. eapply R_trans; [exact E2 | apply same_R; exact H].
        * apply gen_intr_same in H. eapply R_trans; [exact R1 | apply same_R; exact H].
      + apply gen_intr_same in H. eapply R_trans; [exact R0 | apply same_R; exact H].
    - (* IAsyncN *) intros pres [_ [_ [_ IH]]] posts _ s o s' H. simpl in H. repeat brk;
        match goal with E : exec_async c pres _ = _ |- _ => apply IH in E end; fin_R.
    - (* IJob *) intros b _ s o s' H. simpl in H. inversion H; subst. fin_R.
    - (* CNil *) intros s o s' H. simpl in H.
      destruct (flag (tick c s)) eqn:F; inversion H; subst.
      + apply R_tick.
      + eapply R_trans; [apply R_tick | apply R_bump_tick; assumption].
    - (* CCons *) intros i IHi p IHp s o s' H. simpl in H.
      destruct (flag (tick c s)) eqn:F.
      + inversion H; subst. apply R_tick.
      + destruct (exec_i c i (bump_late (tick c (tick c s)))) as [o1 s3] eqn:E.
        apply IHi in E.
        assert (R c s s3).
        { eapply R_trans; [apply R_tick |]. eapply R_trans; [apply R_bump_tick; assumption | exact E]. }
        destruct o1; try (inversion H; subst; assumption).
        apply IHp in H. eapply R_trans; eassumption.
    - (* SNil *) split; [| split; [| split]]; intros; simpl in *; inversion H; subst; apply R_refl.
    - (* SCons *) intros b IHb l [IH1 [IH2 [IH3 IH4]]]. split; [| split; [| split]].
      + intros s o s' H. simpl in H. repeat brk;
          repeat match goal with
          | E : exec_c c b _ = _ |- _ => apply IHb in E
          | E : exec_seq c l _ = _ |- _ => apply IH1 in E
          end; fin_R.
      + intros k s o s' H. simpl in H. destruct k; repeat brk;
          repeat match goal with
          | E : exec_c c b _ = _ |- _ => apply IHb in E
          | E : exec_cbs c _ l _ = _ |- _ => apply IH2 in E
          end; fin_R.
      + intros s o s' H. simpl in H. repeat brk;
          repeat match goal with
          | E : exec_c c b _ = _ |- _ => apply IHb in E
          | E : exec_gen c l _ = _ |- _ => apply IH3 in E
          end; fin_R.
      + intros s o s' H. simpl in H. repeat brk;
          repeat match goal with
          | E : exec_c c b _ = _ |- _ => apply IHb in E
          | E : exec_async c l _ = _ |- _ => apply IH4 in E
          end; fin_R.
  Qed.
End Potential.

Section PotentialTop.
  Variable c : cfg.
  Let Hc := proj1 (proj2 (potential_all c)).

  Lemma run_job_R : forall j s o s', run_job c j s = (o, s') -> R c s s'.
  Proof.
    intros j s o s' H. destruct j as [b | [| b rest]]; simpl in H; repeat brk;
      try match goal with E : exec_c c _ _ = _ |- _ => apply Hc in E end; fin_R.
  Qed.

  Lemma run_jobs_R : forall js s o s', run_jobs c js s = (o, s') -> R c s s'.
  Proof.
    induction js as [| j r IH]; intros s o s' H; simpl in H.
    - inversion H; subst. apply R_refl.
    - destruct (run_job c j s) as [o1 s1] eqn:E. apply run_job_R in E.
      destruct o1; try (inversion H; subst; assumption). apply IH in H. eapply R_trans; eassumption.
  Qed.

  Lemma leave_R : forall fuel s o s', leave c fuel s = (o, s') -> R c s s'.
  Proof.
    induction fuel as [| n IH]; intros s o s' H.
    - simpl in H. inversion H; subst. apply R_refl.
    - cbn [leave] in H. destruct (jq s) as [| j r] eqn:Q.
      + inversion H; subst. apply R_refl.
      + remember (j :: r) as js. destruct (run_jobs c js (set_jq [] s)) as [o1 s1] eqn:E. apply run_jobs_R in E.
        assert (R c s s1) by (unfold R, set_jq in *; simpl in *; lia).
        destruct o1; try (inversion H; subst; assumption). apply IH in H. eapply R_trans; eassumption.
  Qed.

  Lemma run_top_R : forall fuel e p s o s', run_top c fuel e p s = (o, s') -> R c s s'.
  Proof.
    intros fuel e p s o s' H. destruct e; simpl in H; repeat brk;
      repeat match goal with
      | E : exec_c c _ _ = _ |- _ => apply Hc in E
      | E : leave c _ _ = _ |- _ => apply leave_R in E
      end; fin_R.
  Qed.

  (* for every program, entry point, job fuel and firing time: at most one instruction starts with the flag set *)
  Lemma late_at_most_one : forall fuel e p o s',
    run_top c fuel e p idle0 = (o, s') -> late s' <= 1.
  Proof.
    intros. apply run_top_R in H. unfold R, ind in H. simpl in H.
    destruct (fire c) as [[t v]|]; simpl in *; [destruct (Nat.leb (clock s') t) |]; lia.
  Qed.

  (* an interrupt raised by the running goroutine itself (from a native call): none at all *)
  Lemma late_zero_sync : forall fuel e p o s',
    fire c = None -> run_top c fuel e p idle0 = (o, s') -> late s' = 0.
  Proof.
    intros fuel e p o s' F H. apply run_top_R in H. unfold R, ind in H. rewrite F in H. simpl in H. lia.
  Qed.
End PotentialTop.

(* =========================================================================================== *)
(* 6. Interrupt while idle                                                                      *)

Lemma idle_interrupt_next : forall k cl fuel e p v,
  let c := mkCfg k cl None in
  exists s', run_top c fuel e p (interrupt v idle0) = (OIntr v, s')
             /\ log s' = [] /\ pcnt s' = 0 /\ late s' = 0 /\ is_idle s' = true.
Proof.
  intros. destruct e; unfold run_top; simpl Nat.eqb; cbv iota;
    rewrite exec_c_flag_set by reflexivity; eexists; (split; [reflexivity |]); vm_compute; auto.
Qed.

Lemma idle_interrupt_cleared_runs : forall k cl fuel e p v,
  let c := mkCfg k cl None in
  run_top c fuel e p (clear_interrupt (interrupt v idle0))
  = run_top c fuel e p (mkSt 0 [] [] [] false v [] 0 0 0).
Proof. reflexivity. Qed.

(* =========================================================================================== *)
(* 7. no race for the protocol threads                                                          *)

Definition protocol_thread (l : list event) : Prop :=
  (exists vs, l = interrupter_calls vs) \/ (exists ps, l = runner_polls ps).

Lemma no_race_protocol : forall (tr : trace) (progs : nat -> list event),
  lock_ok None tr = true ->
  (forall t, protocol_thread (progs t)) ->
  (forall t, exists more, progs t = proj t tr ++ more) ->
  forall i j, i < j -> j < length tr ->
  fst (ev_at tr i) <> fst (ev_at tr j) ->
  conflicting (snd (ev_at tr i)) (snd (ev_at tr j)) = true ->
  hb hb1_lock tr i j /\ hb hb1 tr i j.
Proof.
  intros tr progs Hl Hp Hpre i j Hij Hj Hne Hc.
  assert (hb hb1_lock tr i j).
  { apply no_race_lock; auto. intro t. destruct (Hpre t) as [more E].
    apply bracketed_prefix with more. rewrite <- E.
    destruct (Hp t) as [[vs Ev] | [ps Ev]]; rewrite Ev; [apply interrupter_bracketed | apply runner_bracketed]. }
  split; [assumption | apply hb_mono; assumption].
Qed.
