(* C18 — proofs about the orderedMap model and the [[MapData]] specification model.
   No axioms; stdlib List Arith NArith Bool Lia only. *)
From Coq Require Import List Arith NArith Bool Lia.
Import ListNotations.
From Verif.C18 Require Import Model.

(* ================================================================== *)
(* Generic list lemmas                                                  *)

Fixpoint findi {A : Type} (f : A -> bool) (l : list A) : option nat :=
  match l with
  | [] => None
  | x :: r => if f x then Some 0 else option_map S (findi f r)
  end.

Section Gen.
Context {A : Type}.

Lemma upd_length : forall i (f : A -> A) l, length (upd i f l) = length l.
Proof.
  intros i f l; revert i; induction l as [|x r IH]; intros [|i]; simpl; auto.
Qed.

Lemma nth_error_upd : forall i (f : A -> A) l j,
  nth_error (upd i f l) j =
  if Nat.eqb j i then option_map f (nth_error l j) else nth_error l j.
Proof.
  intros i f l; revert i; induction l as [|x r IH]; intros [|i] [|j]; simpl;
    try reflexivity; try (destruct (Nat.eqb j i); reflexivity).
  apply IH.
Qed.

Lemma nth_error_snoc : forall (l : list A) e x,
  nth_error (l ++ [e]) x =
  if Nat.ltb x (length l) then nth_error l x
  else if Nat.eqb x (length l) then Some e else None.
Proof.
  intros l e x.
  destruct (Nat.ltb x (length l)) eqn:Hlt.
  - apply Nat.ltb_lt in Hlt. apply nth_error_app1; exact Hlt.
  - apply Nat.ltb_ge in Hlt. rewrite nth_error_app2 by exact Hlt.
    destruct (Nat.eqb x (length l)) eqn:He.
    + apply Nat.eqb_eq in He. subst x. rewrite Nat.sub_diag. reflexivity.
    + apply Nat.eqb_neq in He.
      destruct (x - length l) as [|q] eqn:Hq; [lia|]. simpl.
      destruct q; reflexivity.
Qed.

Lemma findi_some : forall (f : A -> bool) l i, findi f l = Some i ->
  exists x, nth_error l i = Some x /\ f x = true /\
            (forall j y, j < i -> nth_error l j = Some y -> f y = false).
Proof.
  intros f l; induction l as [|x r IH]; intros i Hf; simpl in Hf; [discriminate|].
  destruct (f x) eqn:Hx.
  - inversion Hf; subst. exists x. simpl. split; [reflexivity|]. split; [exact Hx|].
    intros j y Hj; lia.
  - destruct (findi f r) as [i'|] eqn:E; simpl in Hf; [|discriminate].
    inversion Hf; subst. destruct (IH _ eq_refl) as (x' & H1 & H2 & H3).
    exists x'. simpl. split; [exact H1|]. split; [exact H2|].
    intros [|j] y Hj Hy; simpl in Hy.
    + inversion Hy; subst; exact Hx.
    + apply (H3 j); [lia|exact Hy].
Qed.

Lemma findi_none : forall (f : A -> bool) l, findi f l = None ->
  forall j y, nth_error l j = Some y -> f y = false.
Proof.
  intros f l; induction l as [|x r IH]; intros Hf j y Hy.
  - destruct j; discriminate.
  - simpl in Hf. destruct (f x) eqn:Hx; [discriminate|].
    destruct (findi f r) as [i'|] eqn:E; simpl in Hf; [discriminate|].
    destruct j as [|j]; simpl in Hy.
    + inversion Hy; subst; exact Hx.
    + apply (IH eq_refl j); exact Hy.
Qed.

Lemma findi_ext : forall (f g : A -> bool) l,
  (forall j y, nth_error l j = Some y -> f y = g y) -> findi f l = findi g l.
Proof.
  intros f g l; induction l as [|x r IH]; intros Hfg; simpl; [reflexivity|].
  rewrite (Hfg 0 x eq_refl). rewrite IH; [reflexivity|].
  intros j y Hy. apply (Hfg (S j)); exact Hy.
Qed.

Lemma findi_map : forall {B} (g : B -> A) (f : A -> bool) l, findi f (map g l) = findi (fun b => f (g b)) l.
Proof.
  intros B g f l; induction l as [|x r IH]; simpl; [reflexivity|].
  rewrite IH; reflexivity.
Qed.

(* find over index list = findi *)
Lemma find_seq_shift : forall (f : nat -> bool) s n,
  find f (seq (S s) n) = option_map S (find (fun i => f (S i)) (seq s n)).
Proof.
  intros f s n; revert s; induction n as [|n IH]; intros s; simpl; [reflexivity|].
  destruct (f (S s)); simpl; [reflexivity|]. apply IH.
Qed.

Lemma find_seq_findi : forall (f : A -> bool) l,
  find (fun i => match nth_error l i with Some x => f x | None => false end) (seq 0 (length l))
  = findi f l.
Proof.
  intros f l; induction l as [|x r IH]; simpl; [reflexivity|].
  destruct (f x); [reflexivity|].
  rewrite find_seq_shift. simpl. rewrite IH. reflexivity.
Qed.

Lemma find_filter : forall {B} (f g : B -> bool) l,
  (forall x, f x = true -> g x = true) -> find f (filter g l) = find f l.
Proof.
  intros B f g l Hfg; induction l as [|x r IH]; simpl; [reflexivity|].
  destruct (g x) eqn:Hg; simpl.
  - destruct (f x); [reflexivity|exact IH].
  - destruct (f x) eqn:Hf; [|exact IH]. rewrite (Hfg _ Hf) in Hg; discriminate.
Qed.

Lemma filter_filter : forall {B} (f g : B -> bool) l,
  filter f (filter g l) = filter (fun x => g x && f x) l.
Proof.
  intros B f g l; induction l as [|x r IH]; simpl; [reflexivity|].
  destruct (g x); simpl; [|exact IH]. destruct (f x); [rewrite IH|]; auto.
Qed.

Lemma filter_ext_seq : forall (f g : nat -> bool) s n,
  (forall x, s <= x < s + n -> f x = g x) -> filter f (seq s n) = filter g (seq s n).
Proof.
  intros f g s n; revert s; induction n as [|n IH]; intros s Hfg; simpl; [reflexivity|].
  rewrite (Hfg s) by lia. rewrite IH; [reflexivity|]. intros x Hx; apply Hfg; lia.
Qed.

Lemma filter_none : forall {B} (f : B -> bool) l, (forall x, In x l -> f x = false) -> filter f l = [].
Proof.
  intros B f l; induction l as [|x r IH]; intros Hf; simpl; [reflexivity|].
  rewrite (Hf x) by (left; reflexivity). apply IH. intros y Hy; apply Hf; right; exact Hy.
Qed.

Lemma filter_upd_len : forall (p : A -> bool) (f : A -> A) i l,
  (forall x, p (f x) = p x) -> length (filter p (upd i f l)) = length (filter p l).
Proof.
  intros p f i l Hp; revert i; induction l as [|x r IH]; intros [|i]; simpl; try reflexivity.
  - rewrite Hp; destruct (p x); reflexivity.
  - destruct (p x); simpl; rewrite IH; reflexivity.
Qed.

Lemma filter_upd_kill : forall (p : A -> bool) (f : A -> A) i l e,
  nth_error l i = Some e -> p e = true -> p (f e) = false ->
  length (filter p (upd i f l)) = pred (length (filter p l)).
Proof.
  intros p f i l; revert i; induction l as [|x r IH]; intros [|i] e Hn Hp Hf; simpl in *;
    try discriminate.
  - inversion Hn; subst. rewrite Hp, Hf. reflexivity.
  - destruct (p x) eqn:Hx; simpl.
    + rewrite (IH _ _ Hn Hp Hf).
      assert (Hpos : length (filter p r) > 0).
      { clear -Hn Hp. revert i Hn; induction r as [|y r IH]; intros [|i] Hn; simpl in *; try discriminate.
        - inversion Hn; subst. rewrite Hp; simpl; lia.
        - destruct (p y); simpl; [lia|]. eapply IH; eauto. }
      lia.
    + eapply IH; eauto.
Qed.

Lemma Forall2_nth_error : forall {B} (R : A -> B -> Prop) l1 l2 n,
  Forall2 R l1 l2 ->
  match nth_error l1 n, nth_error l2 n with
  | Some a, Some b => R a b
  | None, None => True
  | _, _ => False
  end.
Proof.
  intros B R l1 l2 n HF; revert n; induction HF as [|a b l1 l2 Hab HF IH]; intros [|n]; simpl; auto.
  apply IH.
Qed.

Lemma Forall2_upd : forall {B} (R : A -> B -> Prop) l1 l2 n a b,
  Forall2 R l1 l2 -> R a b -> Forall2 R (upd n (fun _ => a) l1) (upd n (fun _ => b) l2).
Proof.
  intros B R l1 l2 n a b HF Hab; revert n; induction HF as [|a0 b0 l1 l2 H0 HF IH]; intros [|n]; simpl;
    constructor; auto.
Qed.

Lemma Forall2_len : forall {B} (R : A -> B -> Prop) l1 l2, Forall2 R l1 l2 -> length l1 = length l2.
Proof. intros B R l1 l2 HF; induction HF; simpl; auto. Qed.

Lemma Forall2_imp : forall {B} (R R' : A -> B -> Prop) l1 l2,
  (forall a b, R a b -> R' a b) -> Forall2 R l1 l2 -> Forall2 R' l1 l2.
Proof. intros B R R' l1 l2 HR HF; induction HF; constructor; auto. Qed.

End Gen.

(* ================================================================== *)
(* S-only lemmas                                                        *)

Section SOnly.
Context {K V : Type}.
Variable same : K -> K -> bool.
Variable norm : K -> K.

Local Notation sdata := (@sdata K V).
Local Notation smatch := (@smatch K V same norm).
Local Notation sset := (@sset K V same norm).
Local Notation sdel := (@sdel K V same norm).
Local Notation sget := (@sget K V same norm).
Local Notation shas := (@shas K V same norm).
Local Notation svz := (@svz K same norm).
Local Notation sstep := (@sstep K V same norm).

Lemma snext_from_some : forall (d : sdata) i j kv,
  snext_from d i = Some (j, kv) ->
  i <= j /\ nth_error d j = Some (Some kv) /\
  (forall x, i <= x < j -> nth_error d x = Some None).
Proof.
  induction d as [|y r IH]; intros i j kv Hs; simpl in Hs; [discriminate|].
  destruct i as [|i'].
  - destruct y as [kv0|].
    + inversion Hs; subst. split; [lia|]. split; [reflexivity|]. intros x Hx; lia.
    + destruct (snext_from r 0) as [[j' kv']|] eqn:E; simpl in Hs; [|discriminate].
      inversion Hs; subst. destruct (IH _ _ _ E) as (H1 & H2 & H3).
      split; [lia|]. split; [exact H2|].
      intros [|x] Hx; simpl; [reflexivity|]. apply H3; lia.
  - destruct (snext_from r i') as [[j' kv']|] eqn:E; simpl in Hs; [|discriminate].
    inversion Hs; subst. destruct (IH _ _ _ E) as (H1 & H2 & H3).
    split; [lia|]. split; [exact H2|].
    intros [|x] Hx; simpl; [lia|]. apply H3; lia.
Qed.

Lemma snext_from_none : forall (d : sdata) i,
  snext_from d i = None ->
  forall x, i <= x < length d -> nth_error d x = Some None.
Proof.
  induction d as [|y r IH]; intros i Hs x Hx; simpl in *; [lia|].
  destruct i as [|i'].
  - destruct y as [kv0|]; [discriminate|].
    destruct (snext_from r 0) as [[j' kv']|] eqn:E; simpl in Hs; [discriminate|].
    destruct x as [|x]; simpl; [reflexivity|]. apply (IH _ E); lia.
  - destruct (snext_from r i') as [[j' kv']|] eqn:E; simpl in Hs; [discriminate|].
    destruct x as [|x]; simpl; [lia|]. apply (IH _ E); lia.
Qed.

Lemma siter_next_some_l : forall (d : sdata) it it' kv,
  sdone it = false -> siter_next d it = (it', Some kv) ->
  exists j, sidx it <= j /\ nth_error d j = Some (Some kv) /\
            (forall i, sidx it <= i < j -> nth_error d i = Some None) /\
            sidx it' = S j /\ sdone it' = false.
Proof.
  intros d it it' kv Hd Hn. unfold siter_next in Hn. rewrite Hd in Hn.
  destruct (snext_from d (sidx it)) as [[j kv']|] eqn:E; inversion Hn; subst.
  destruct (snext_from_some _ _ _ _ E) as (H1 & H2 & H3).
  exists j. simpl. auto.
Qed.

Lemma siter_next_none_l : forall (d : sdata) it it',
  sdone it = false -> siter_next d it = (it', None) ->
  (forall i, sidx it <= i < length d -> nth_error d i = Some None) /\ sdone it' = true.
Proof.
  intros d it it' Hd Hn. unfold siter_next in Hn. rewrite Hd in Hn.
  destruct (snext_from d (sidx it)) as [[j kv']|] eqn:E; inversion Hn; subst.
  split; [|reflexivity]. apply snext_from_none; exact E.
Qed.

Lemma siter_done_stays_l : forall (d : sdata) it,
  sdone it = true -> siter_next d it = (it, None).
Proof. intros d it Hd. unfold siter_next. rewrite Hd. reflexivity. Qed.

(* --- characterisation of the S operations through [findi] --- *)

Definition setv (v : V) (x : option (K * V)) : option (K * V) :=
  match x with Some (k', _) => Some (k', v) | None => None end.

Lemma sset_findi : forall (d : sdata) k v,
  sset d k v = match findi (smatch k) d with
               | Some i => upd i (setv v) d
               | None => d ++ [Some (norm k, v)]
               end.
Proof.
  induction d as [|x r IH]; intros k v; simpl; [reflexivity|].
  destruct (smatch k x) eqn:Hx; [reflexivity|].
  rewrite IH. destruct (findi (smatch k) r); reflexivity.
Qed.

Lemma sdel_findi : forall (d : sdata) k,
  sdel d k = match findi (smatch k) d with
             | Some i => (upd i (fun _ => None) d, true)
             | None => (d, false)
             end.
Proof.
  induction d as [|x r IH]; intros k; simpl; [reflexivity|].
  destruct (smatch k x) eqn:Hx; [reflexivity|].
  rewrite IH. destruct (findi (smatch k) r); reflexivity.
Qed.

Lemma sget_findi : forall (d : sdata) k,
  sget d k = match findi (smatch k) d with
             | Some i => match nth_error d i with Some (Some (_, v)) => Some v | _ => None end
             | None => None
             end.
Proof.
  unfold Model.sget.
  induction d as [|x r IH]; intros k; simpl; [reflexivity|].
  destruct (smatch k x) eqn:Hx; [reflexivity|].
  rewrite IH. destruct (findi (smatch k) r); reflexivity.
Qed.

Lemma shas_findi : forall (d : sdata) k,
  shas d k = match findi (smatch k) d with Some _ => true | None => false end.
Proof.
  unfold Model.shas.
  induction d as [|x r IH]; intros k; simpl; [reflexivity|].
  destruct (smatch k x) eqn:Hx; [reflexivity|].
  simpl. rewrite IH. destruct (findi (smatch k) r); reflexivity.
Qed.

(* --- positions are stable --- *)

Definition stab (d d' : sdata) : Prop :=
  length d <= length d' /\
  forall i, i < length d ->
     match nth_error d i, nth_error d' i with
     | Some None, Some None => True
     | Some (Some (k, _)), Some (Some (k', _)) => k' = k
     | Some (Some _), Some None => True
     | _, _ => False
     end.

Lemma stab_refl : forall d, stab d d.
Proof.
  intros d; split; [lia|]. intros i Hi.
  destruct (nth_error d i) as [[[k v]|]|] eqn:E; auto.
  apply nth_error_None in E; lia.
Qed.

Lemma stab_sset : forall d k v, stab d (sset d k v).
Proof.
  intros d k v. rewrite sset_findi.
  destruct (findi (smatch k) d) as [i0|] eqn:E.
  - split; [rewrite upd_length; lia|]. intros i Hi. rewrite nth_error_upd.
    destruct (nth_error d i) as [[[k1 v1]|]|] eqn:E1.
    + destruct (Nat.eqb i i0); simpl; reflexivity.
    + destruct (Nat.eqb i i0); simpl; exact I.
    + apply nth_error_None in E1; lia.
  - split; [rewrite app_length; simpl; lia|]. intros i Hi.
    rewrite nth_error_app1 by exact Hi.
    destruct (nth_error d i) as [[[k1 v1]|]|] eqn:E1; auto.
    apply nth_error_None in E1; lia.
Qed.

Lemma stab_sdel : forall d k, stab d (fst (sdel d k)).
Proof.
  intros d k. rewrite sdel_findi.
  destruct (findi (smatch k) d) as [i0|] eqn:E; simpl; [|apply stab_refl].
  split; [rewrite upd_length; lia|]. intros i Hi. rewrite nth_error_upd.
  destruct (nth_error d i) as [[[k1 v1]|]|] eqn:E1.
  - destruct (Nat.eqb i i0); simpl; auto.
  - destruct (Nat.eqb i i0); simpl; exact I.
  - apply nth_error_None in E1; lia.
Qed.

Lemma stab_sclear : forall d, stab d (sclear d).
Proof.
  intros d. unfold sclear. split; [rewrite map_length; lia|]. intros i Hi.
  rewrite nth_error_map.
  destruct (nth_error d i) as [[[k1 v1]|]|] eqn:E1; simpl; auto.
  apply nth_error_None in E1; lia.
Qed.

Lemma sstep_stab : forall (s : @sstate K V) o, stab (fst s) (fst (fst (sstep s o))).
Proof.
  intros [d its] o. destruct o; simpl; try apply stab_refl.
  - apply stab_sset.
  - pose proof (stab_sdel d k) as Hs. destruct (sdel d k) as [d' b]; exact Hs.
  - apply stab_sclear.
  - destruct (nth_error its it) as [sit|]; simpl; [|apply stab_refl].
    destruct (siter_next d sit) as [it' r]; simpl. apply stab_refl.
Qed.

(* --- keys are unique --- *)

Definition uniq (d : sdata) : Prop :=
  forall i j ki vi kj vj,
    nth_error d i = Some (Some (ki, vi)) -> nth_error d j = Some (Some (kj, vj)) ->
    svz ki kj = true -> i = j.

Hypothesis norm_idem : forall k, norm (norm k) = norm k.
Hypothesis same_sym : forall a b, same a b = true -> same b a = true.

Lemma upd_setv_some : forall (d : sdata) i0 v i k1 v1,
  nth_error (upd i0 (setv v) d) i = Some (Some (k1, v1)) ->
  exists v0, nth_error d i = Some (Some (k1, v0)).
Proof.
  intros d i0 v i k1 v1 Hn. rewrite nth_error_upd in Hn.
  destruct (Nat.eqb i i0).
  - destruct (nth_error d i) as [[[k0 v0]|]|]; simpl in Hn; try discriminate.
    inversion Hn; subst. exists v0; reflexivity.
  - exists v1; exact Hn.
Qed.

Lemma upd_none_some : forall (d : sdata) i0 i kv,
  nth_error (upd i0 (fun _ => None) d) i = Some (Some kv) ->
  nth_error d i = Some (Some kv).
Proof.
  intros d i0 i kv Hn. rewrite nth_error_upd in Hn.
  destruct (Nat.eqb i i0); [|exact Hn].
  destruct (nth_error d i); simpl in Hn; discriminate.
Qed.

Lemma uniq_sset : forall d k v, uniq d -> uniq (sset d k v).
Proof.
  intros d k v Hu. rewrite sset_findi.
  destruct (findi (smatch k) d) as [i0|] eqn:E.
  - intros i j ki vi kj vj Hi Hj Hs.
    apply upd_setv_some in Hi. apply upd_setv_some in Hj.
    destruct Hi as [vi' Hi]. destruct Hj as [vj' Hj].
    eapply Hu; eauto.
  - pose proof (findi_none _ _ E) as Hnone.
    assert (Hnew : forall j kj vj, nth_error d j = Some (Some (kj, vj)) ->
                     svz (norm k) kj = true -> False).
    { intros j kj vj Hj Hs. pose proof (Hnone _ _ Hj) as Hm. simpl in Hm.
      unfold Model.svz in Hm, Hs. rewrite norm_idem in Hs. apply same_sym in Hs.
      rewrite Hs in Hm; discriminate. }
    assert (Hnew' : forall j kj vj, nth_error d j = Some (Some (kj, vj)) ->
                     svz kj (norm k) = true -> False).
    { intros j kj vj Hj Hs. apply (Hnew j kj vj Hj). unfold Model.svz in *.
      apply same_sym; exact Hs. }
    intros i j ki vi kj vj Hi Hj Hs.
    rewrite nth_error_snoc in Hi, Hj.
    destruct (Nat.ltb i (length d)) eqn:Li; destruct (Nat.ltb j (length d)) eqn:Lj.
    + eapply Hu; eauto.
    + destruct (Nat.eqb j (length d)) eqn:Ej; [|discriminate].
      inversion Hj; subst. exfalso; eapply Hnew'; eauto.
    + destruct (Nat.eqb i (length d)) eqn:Ei; [|discriminate].
      inversion Hi; subst. exfalso; eapply Hnew; eauto.
    + destruct (Nat.eqb i (length d)) eqn:Ei; [|discriminate].
      destruct (Nat.eqb j (length d)) eqn:Ej; [|discriminate].
      apply Nat.eqb_eq in Ei, Ej. lia.
Qed.

Lemma uniq_sdel : forall d k, uniq d -> uniq (fst (sdel d k)).
Proof.
  intros d k Hu. rewrite sdel_findi.
  destruct (findi (smatch k) d) as [i0|] eqn:E; simpl; [|exact Hu].
  intros i j ki vi kj vj Hi Hj Hs.
  apply upd_none_some in Hi. apply upd_none_some in Hj. eapply Hu; eauto.
Qed.

Lemma uniq_sclear : forall d, uniq (sclear d).
Proof.
  intros d i j ki vi kj vj Hi. unfold sclear in Hi. rewrite nth_error_map in Hi.
  destruct (nth_error d i); simpl in Hi; discriminate.
Qed.

Lemma sstep_uniq : forall (s : @sstate K V) o, uniq (fst s) -> uniq (fst (fst (sstep s o))).
Proof.
  intros [d its] o Hu. destruct o; simpl in *; try exact Hu.
  - apply uniq_sset; exact Hu.
  - pose proof (uniq_sdel d k Hu) as Hs. destruct (sdel d k) as [d' b]; exact Hs.
  - apply uniq_sclear.
  - destruct (nth_error its it) as [sit|]; simpl; [|exact Hu].
    destruct (siter_next d sit) as [it' r]; simpl. exact Hu.
Qed.

Lemma run_uniq : forall ops (s : @sstate K V), uniq (fst s) -> uniq (fst (fst (run sstep s ops))).
Proof.
  induction ops as [|o r IH]; intros s Hu; simpl; [exact Hu|].
  pose proof (sstep_uniq s o Hu) as H1.
  destruct (sstep s o) as [s1 x]. simpl in H1.
  pose proof (IH s1 H1) as H2.
  destruct (run sstep s1 r) as [s2 xs]. simpl in *. exact H2.
Qed.

End SOnly.

(* ================================================================== *)
(* More generic lemmas used on the implementation side                  *)

Definition updo {A} (o : option nat) (f : A -> A) (l : list A) : list A :=
  match o with Some p => upd p f l | None => l end.

Definition oeq (o : option nat) (x : nat) : bool :=
  match o with Some p => Nat.eqb x p | None => false end.

Section Gen2.
Context {A : Type}.

Lemma updo_length : forall o (f : A -> A) l, length (updo o f l) = length l.
Proof. intros [p|] f l; simpl; [apply upd_length|reflexivity]. Qed.

Lemma nth_error_updo : forall o (f : A -> A) l j,
  nth_error (updo o f l) j =
  if oeq o j then option_map f (nth_error l j) else nth_error l j.
Proof. intros [p|] f l j; simpl; [apply nth_error_upd|reflexivity]. Qed.

Lemma filter_updo_len : forall (p : A -> bool) (f : A -> A) o l,
  (forall x, p (f x) = p x) -> length (filter p (updo o f l)) = length (filter p l).
Proof. intros p f [i|] l Hp; simpl; [apply filter_upd_len; exact Hp|reflexivity]. Qed.

Lemma map_upd_gen : forall {B} (g : A -> B) (f : A -> A) (f' : B -> B) i l,
  (forall x, nth_error l i = Some x -> g (f x) = f' (g x)) ->
  map g (upd i f l) = upd i f' (map g l).
Proof.
  intros B g f f' i l; revert i; induction l as [|x r IH]; intros [|i] Hx; simpl; try reflexivity.
  - rewrite (Hx x eq_refl). reflexivity.
  - rewrite IH; [reflexivity|]. intros y Hy; apply Hx; exact Hy.
Qed.

Lemma map_upd_id : forall {B} (g : A -> B) (f : A -> A) i l,
  (forall x, g (f x) = g x) -> map g (upd i f l) = map g l.
Proof.
  intros B g f i l Hg; revert i; induction l as [|x r IH]; intros [|i]; simpl; try reflexivity.
  - rewrite Hg; reflexivity.
  - rewrite IH; reflexivity.
Qed.

Lemma map_updo_id : forall {B} (g : A -> B) (f : A -> A) o l,
  (forall x, g (f x) = g x) -> map g (updo o f l) = map g l.
Proof. intros B g f [i|] l Hg; simpl; [apply map_upd_id; exact Hg|reflexivity]. Qed.

Lemma nth_error_ext_eq : forall (l1 l2 : list A),
  (forall i, nth_error l1 i = nth_error l2 i) -> l1 = l2.
Proof.
  induction l1 as [|x r IH]; intros [|y s] He.
  - reflexivity.
  - specialize (He 0); discriminate.
  - specialize (He 0); discriminate.
  - pose proof (He 0) as H0; simpl in H0. inversion H0; subst. f_equal.
    apply IH. intros i. apply (He (S i)).
Qed.

End Gen2.

(* buckets *)
Lemma bget_bdel_same : forall h bs, bget h (bdel h bs) = [].
Proof.
  intros h bs; induction bs as [|[h0 c0] r IH]; simpl; [reflexivity|].
  destruct (N.eqb h h0) eqn:E; [exact IH|]. simpl. rewrite E. exact IH.
Qed.

Lemma bget_bdel_other : forall h h' bs, h' <> h -> bget h' (bdel h bs) = bget h' bs.
Proof.
  intros h h' bs Hne; induction bs as [|[h0 c0] r IH]; simpl; [reflexivity|].
  destruct (N.eqb_spec h h0) as [E|E].
  - subst h0. destruct (N.eqb_spec h' h) as [E'|E']; [contradiction|]. exact IH.
  - simpl. destruct (N.eqb h' h0); [reflexivity|exact IH].
Qed.

Lemma bget_bset : forall h' h c bs,
  bget h' (bset h c bs) = if N.eqb h' h then c else bget h' bs.
Proof.
  intros h' h c bs. unfold bset. destruct c as [|a c'].
  - destruct (N.eqb_spec h' h) as [E|E].
    + subst h'. apply bget_bdel_same.
    + apply bget_bdel_other; exact E.
  - simpl. destruct (N.eqb_spec h' h) as [E|E]; [reflexivity|].
    apply bget_bdel_other; exact E.
Qed.

(* ================================================================== *)
(* Implementation side: invariant, abstraction, simulation              *)

Section Impl.
Context {K V : Type}.
Variable same : K -> K -> bool.
Variable norm : K -> K.
Variable H : K -> N.
Hypothesis H_respects : forall a b, same a b = true -> H a = H b.
Hypothesis norm_idem : forall k, norm (norm k) = norm k.

Local Notation entry := (@entry K V).
Local Notation omap := (@omap K V).
Local Notation sdata := (@sdata K V).
Local Notation lookup := (@lookup K V same norm H).
Local Notation oset := (@oset K V same norm H).
Local Notation oget := (@oget K V same norm H).
Local Notation ohas := (@ohas K V same norm H).
Local Notation oremove := (@oremove K V same norm H).
Local Notation istep := (@istep K V same norm H).
Local Notation sstep := (@sstep K V same norm).
Local Notation smatch := (@smatch K V same norm).
Local Notation sset := (@sset K V same norm).
Local Notation sdel := (@sdel K V same norm).
Local Notation sget := (@sget K V same norm).
Local Notation shas := (@shas K V same norm).

Definition liveb (e : entry) : bool := match ekey e with Some _ => true | None => false end.

Definition al (es : list entry) (i : nat) : bool :=
  match nth_error es i with Some e => liveb e | None => false end.

Definition bound (c : option nat) : nat := match c with None => 0 | Some c => S c end.

Definition below (o : option nat) (y : nat) : Prop :=
  match o with Some j => y < j | None => True end.

(* [o] is the smallest alive index >= i (None: there is none) *)
Definition nexta (es : list entry) (i : nat) (o : option nat) : Prop :=
  (forall y, i <= y -> below o y -> al es y = false) /\
  match o with Some j => i <= j /\ al es j = true | None => True end.

(* everything in [bound o, i) is dead *)
Definition prevw (es : list entry) (i : nat) (o : option nat) : Prop :=
  bound o <= i /\ forall y, bound o <= y < i -> al es y = false.

Definition palive (es : list entry) (o : option nat) : Prop :=
  match o with Some p => al es p = true | None => True end.

Definition inb (es : list entry) (h : N) (i : nat) : bool :=
  match nth_error es i with
  | Some e => match ekey e with Some k => N.eqb (H k) h | None => false end
  | None => false
  end.

Definition ematch (k : K) (e : entry) : bool :=
  match ekey e with Some k' => same k' k | None => false end.

Definition kv (e : entry) : option (K * V) :=
  match ekey e, evalue e with Some k, Some v => Some (k, v) | _, _ => None end.

Definition abs (m : omap) : sdata := map kv (ents m).

Record Inv (m : omap) : Prop := mkInv {
  I_prev : forall i e, nth_error (ents m) i = Some e ->
             prevw (ents m) i (eprev e) /\ (liveb e = true -> palive (ents m) (eprev e));
  I_next : forall i e, nth_error (ents m) i = Some e -> liveb e = true ->
             nexta (ents m) (S i) (enext e);
  I_val : forall i e, nth_error (ents m) i = Some e -> liveb e = true -> evalue e <> None;
  I_norm : forall i e k, nth_error (ents m) i = Some e -> ekey e = Some k -> norm k = k;
  I_first : nexta (ents m) 0 (first m);
  I_last : prevw (ents m) (length (ents m)) (last m) /\ palive (ents m) (last m);
  I_bk : forall h, bget h (buckets m) = filter (inb (ents m) h) (seq 0 (length (ents m)));
  I_size : size m = length (filter liveb (ents m))
}.

(* --- basic facts about [al] --- *)

Lemma al_true : forall es x, al es x = true -> exists e, nth_error es x = Some e /\ liveb e = true.
Proof.
  intros es x Ha. unfold al in Ha. destruct (nth_error es x) as [e|]; [|discriminate].
  exists e; auto.
Qed.

Lemma al_of : forall es x e, nth_error es x = Some e -> al es x = liveb e.
Proof. intros es x e E. unfold al. rewrite E. reflexivity. Qed.

Lemma al_ge : forall es x, length es <= x -> al es x = false.
Proof. intros es x Hx. unfold al. apply nth_error_None in Hx. rewrite Hx. reflexivity. Qed.

Lemma al_lt : forall es x, al es x = true -> x < length es.
Proof.
  intros es x Ha. destruct (le_lt_dec (length es) x) as [L|L]; [|exact L].
  rewrite (al_ge _ _ L) in Ha; discriminate.
Qed.

Lemma inb_al : forall es h x, al es x = false -> inb es h x = false.
Proof.
  intros es h x Ha. unfold al, liveb in Ha. unfold inb.
  destruct (nth_error es x) as [e|]; [|reflexivity].
  destruct (ekey e); [discriminate|reflexivity].
Qed.

Lemma nexta_uniq : forall es i o1 o2, nexta es i o1 -> nexta es i o2 -> o1 = o2.
Proof.
  intros es i o1 o2 [A1 A2] [B1 B2].
  destruct o1 as [a|]; destruct o2 as [b|]; simpl in *.
  - destruct A2 as [A2 A3]. destruct B2 as [B2 B3]. f_equal.
    destruct (Nat.lt_trichotomy a b) as [L|[L|L]]; [|exact L|].
    + rewrite (B1 a A2 L) in A3; discriminate.
    + rewrite (A1 b B2 L) in B3; discriminate.
  - destruct A2 as [A2 A3]. rewrite (B1 a A2 I) in A3; discriminate.
  - destruct B2 as [B2 B3]. rewrite (A1 b B2 I) in B3; discriminate.
  - reflexivity.
Qed.

Lemma preva_uniq : forall es i o1 o2,
  prevw es i o1 -> palive es o1 -> prevw es i o2 -> palive es o2 -> o1 = o2.
Proof.
  intros es i o1 o2 [A1 A2] A3 [B1 B2] B3.
  destruct o1 as [a|]; destruct o2 as [b|]; simpl in *.
  - f_equal. destruct (Nat.lt_trichotomy a b) as [L|[L|L]]; [|exact L|].
    + rewrite (A2 b) in B3 by lia; discriminate.
    + rewrite (B2 a) in A3 by lia; discriminate.
  - rewrite (B2 a) in A3 by lia; discriminate.
  - rewrite (A2 b) in B3 by lia; discriminate.
  - reflexivity.
Qed.

Lemma nexta_shift : forall es i i' o,
  i <= i' -> (forall y, i <= y < i' -> al es y = false) -> nexta es i o -> nexta es i' o.
Proof.
  intros es i i' o Hle Hd [A1 A2]. split.
  - intros y Hy Hb. apply A1; [lia|exact Hb].
  - destruct o as [j|]; [|exact I]. destruct A2 as [A2 A3]. split; [|exact A3].
    destruct (le_lt_dec i' j) as [L|L]; [exact L|].
    rewrite (Hd j) in A3 by lia. discriminate.
Qed.

(* transfer along a change of the entry list *)
Lemma nexta_trans : forall es es' i o,
  (forall y, i <= y -> al es y = false -> al es' y = false) ->
  (forall j, o = Some j -> al es' j = true) ->
  nexta es i o -> nexta es' i o.
Proof.
  intros es es' i o Hd Ha [A1 A2]. split.
  - intros y Hy Hb. apply Hd; [exact Hy|]. apply A1; assumption.
  - destruct o as [j|]; [|exact I]. destruct A2 as [A2 A3]. split; [exact A2|].
    apply Ha; reflexivity.
Qed.

Lemma prevw_mono : forall es es' i o,
  (forall y, y < i -> al es y = false -> al es' y = false) ->
  prevw es i o -> prevw es' i o.
Proof.
  intros es es' i o Hd [A1 A2]. split; [exact A1|].
  intros y Hy. apply Hd; [lia|]. apply A2; exact Hy.
Qed.

Lemma palive_mono : forall es es' o,
  (forall y, al es y = true -> al es' y = true) -> palive es o -> palive es' o.
Proof. intros es es' [p|] Ha Hp; simpl in *; auto. Qed.

(* --- lookup --- *)

Lemma lookup_findi : forall m k, Inv m ->
  lookup m k = (H (norm k), findi (ematch (norm k)) (ents m)).
Proof.
  intros m k HI. unfold Model.lookup. f_equal. rewrite (I_bk _ HI). rewrite find_filter.
  - exact (find_seq_findi (ematch (norm k)) (ents m)).
  - intros x. unfold key_matches, getE, inb.
    destruct (nth_error (ents m) x) as [e|]; [|discriminate].
    destruct (ekey e) as [k0|]; [|discriminate].
    intros Hs. rewrite (H_respects _ _ Hs). apply N.eqb_refl.
Qed.

Lemma findi_abs : forall m k, Inv m ->
  findi (smatch k) (abs m) = findi (ematch (norm k)) (ents m).
Proof.
  intros m k HI. unfold abs. rewrite findi_map. apply findi_ext.
  intros j e Hj. unfold kv, ematch.
  destruct (ekey e) as [k0|] eqn:Ek; [|reflexivity].
  assert (Hl : liveb e = true) by (unfold liveb; rewrite Ek; reflexivity).
  pose proof (I_val _ HI _ _ Hj Hl) as Hv.
  destruct (evalue e) as [v0|]; [|congruence].
  simpl. unfold svz. rewrite (I_norm _ HI _ _ _ Hj Ek). reflexivity.
Qed.

Lemma findi_ematch_some : forall m k i, Inv m ->
  findi (ematch k) (ents m) = Some i ->
  exists e k0 v0, nth_error (ents m) i = Some e /\ ekey e = Some k0 /\ evalue e = Some v0 /\
                  same k0 k = true /\ liveb e = true.
Proof.
  intros m k i HI Hf. destruct (findi_some _ _ _ Hf) as (e & He & Hm & _).
  unfold ematch in Hm. destruct (ekey e) as [k0|] eqn:Ek; [|discriminate].
  assert (Hl : liveb e = true) by (unfold liveb; rewrite Ek; reflexivity).
  pose proof (I_val _ HI _ _ He Hl) as Hv.
  destruct (evalue e) as [v0|] eqn:Ev; [|congruence].
  exists e, k0, v0. auto.
Qed.

(* al / abs connection *)
Lemma abs_nth : forall m x, nth_error (abs m) x = option_map kv (nth_error (ents m) x).
Proof. intros m x. unfold abs. apply nth_error_map. Qed.

Lemma abs_some_al : forall m x p, nth_error (abs m) x = Some (Some p) ->
  al (ents m) x = true /\ entry_kv m x = Some p.
Proof.
  intros m x p Hx. rewrite abs_nth in Hx. unfold al, entry_kv, getE.
  destruct (nth_error (ents m) x) as [e|]; simpl in Hx; [|discriminate].
  inversion Hx as [Hk]. split; [|reflexivity].
  unfold kv in Hk. unfold liveb. destruct (ekey e); [reflexivity|discriminate].
Qed.

Lemma abs_none_al : forall m x, Inv m -> nth_error (abs m) x = Some None -> al (ents m) x = false.
Proof.
  intros m x HI Hx. rewrite abs_nth in Hx. unfold al.
  destruct (nth_error (ents m) x) as [e|] eqn:E; simpl in Hx; [|discriminate].
  destruct (liveb e) eqn:Hl; [|reflexivity].
  pose proof (I_val _ HI _ _ E Hl) as Hv. unfold liveb in Hl. unfold kv in Hx.
  destruct (ekey e); [|discriminate]. destruct (evalue e); [discriminate|congruence].
Qed.

Lemma abs_length : forall m, length (abs m) = length (ents m).
Proof. intros m. unfold abs. apply map_length. Qed.

(* --- get / has --- *)

Lemma oget_sim : forall m k, Inv m -> oget m k = sget (abs m) k.
Proof.
  intros m k HI. unfold Model.oget. rewrite (lookup_findi _ _ HI).
  rewrite sget_findi. rewrite (findi_abs _ _ HI).
  destruct (findi (ematch (norm k)) (ents m)) as [i|] eqn:E; [|reflexivity].
  destruct (findi_ematch_some _ _ _ HI E) as (e & k0 & v0 & He & Ek & Ev & _).
  unfold getE. rewrite abs_nth. rewrite He. simpl. unfold kv. rewrite Ek, Ev. reflexivity.
Qed.

Lemma ohas_sim : forall m k, Inv m -> ohas m k = shas (abs m) k.
Proof.
  intros m k HI. unfold Model.ohas. rewrite (lookup_findi _ _ HI).
  rewrite shas_findi. rewrite (findi_abs _ _ HI).
  destruct (findi (ematch (norm k)) (ents m)); reflexivity.
Qed.

(* --- set, existing key --- *)

Lemma al_upd_same : forall (es : list entry) i f x,
  (forall e, liveb (f e) = liveb e) -> al (upd i f es) x = al es x.
Proof.
  intros es i f x Hf. unfold al. rewrite nth_error_upd.
  destruct (Nat.eqb x i); [|reflexivity].
  destruct (nth_error es x); simpl; [apply Hf|reflexivity].
Qed.

Lemma inb_upd_same : forall (es : list entry) i f h x,
  (forall e, ekey (f e) = ekey e) -> inb (upd i f es) h x = inb es h x.
Proof.
  intros es i f h x Hf. unfold inb. rewrite nth_error_upd.
  destruct (Nat.eqb x i); [|reflexivity].
  destruct (nth_error es x); simpl; [rewrite Hf; reflexivity|reflexivity].
Qed.

Lemma nth_setval : forall (es : list entry) i v x e',
  nth_error (upd i (set_val (Some v)) es) x = Some e' ->
  exists e0, nth_error es x = Some e0 /\ ekey e' = ekey e0 /\ eprev e' = eprev e0 /\
             enext e' = enext e0 /\ (evalue e0 <> None -> evalue e' <> None).
Proof.
  intros es i v x e' Hx. rewrite nth_error_upd in Hx.
  destruct (nth_error es x) as [e0|]; [|destruct (Nat.eqb x i); discriminate].
  exists e0. split; [reflexivity|].
  destruct (Nat.eqb x i); simpl in Hx; inversion Hx; subst; simpl; repeat split; auto.
  intros _; discriminate.
Qed.

Lemma Inv_setval : forall m i v, Inv m ->
  Inv (mkM (upd i (set_val (Some v)) (ents m)) (buckets m) (first m) (last m) (size m)).
Proof.
  intros [es bs fi la sz] i v [Hprev Hnext Hval Hnorm Hfirst Hlast Hbk Hsize]; simpl in *.
  assert (Hal : forall x, al (upd i (set_val (Some v)) es) x = al es x)
    by (intros x; apply al_upd_same; intros e; reflexivity).
  constructor; simpl.
  - intros x e' Hx. destruct (nth_setval _ _ _ _ _ Hx) as (e0 & E0 & Ek & Ep & En & Ev).
    rewrite Ep. destruct (Hprev _ _ E0) as [Hw Hp]. split.
    + eapply prevw_mono; [|exact Hw]. intros y _ Hy. rewrite Hal; exact Hy.
    + intros Hl. unfold liveb in Hl; rewrite Ek in Hl.
      eapply palive_mono; [|exact (Hp Hl)]. intros y Hy. rewrite Hal; exact Hy.
  - intros x e' Hx Hl. destruct (nth_setval _ _ _ _ _ Hx) as (e0 & E0 & Ek & Ep & En & Ev).
    rewrite En. unfold liveb in Hl; rewrite Ek in Hl.
    eapply nexta_trans; [| |exact (Hnext _ _ E0 Hl)].
    + intros y _ Hy. rewrite Hal; exact Hy.
    + intros j Hj. rewrite Hal. destruct (Hnext _ _ E0 Hl) as [_ A2]. rewrite Hj in A2. apply A2.
  - intros x e' Hx Hl. destruct (nth_setval _ _ _ _ _ Hx) as (e0 & E0 & Ek & Ep & En & Ev).
    unfold liveb in Hl; rewrite Ek in Hl. apply Ev. exact (Hval _ _ E0 Hl).
  - intros x e' k Hx Hk. destruct (nth_setval _ _ _ _ _ Hx) as (e0 & E0 & Ek & Ep & En & Ev).
    rewrite Ek in Hk. exact (Hnorm _ _ _ E0 Hk).
  - eapply nexta_trans; [| |exact Hfirst].
    + intros y _ Hy. rewrite Hal; exact Hy.
    + intros j Hj. rewrite Hal. destruct Hfirst as [_ A2]. rewrite Hj in A2. apply A2.
  - rewrite upd_length. destruct Hlast as [Hw Hp]. split.
    + eapply prevw_mono; [|exact Hw]. intros y _ Hy. rewrite Hal; exact Hy.
    + eapply palive_mono; [|exact Hp]. intros y Hy. rewrite Hal; exact Hy.
  - intros h. rewrite upd_length. rewrite Hbk. apply filter_ext_seq.
    intros x _. symmetry. apply inb_upd_same. intros e; reflexivity.
  - rewrite Hsize. symmetry. apply filter_upd_len. intros e; reflexivity.
Qed.

Lemma abs_setval : forall m i v, Inv m ->
  abs (mkM (upd i (set_val (Some v)) (ents m)) (buckets m) (first m) (last m) (size m))
  = upd i (setv v) (abs m).
Proof.
  intros m i v HI. unfold abs; simpl. apply map_upd_gen.
  intros e He. unfold kv, setv; simpl.
  destruct (ekey e) as [k0|] eqn:Ek; [|reflexivity].
  assert (Hl : liveb e = true) by (unfold liveb; rewrite Ek; reflexivity).
  pose proof (I_val _ HI _ _ He Hl) as Hv.
  destruct (evalue e); [reflexivity|congruence].
Qed.

(* --- set, new key --- *)

Definition mk_new (m : omap) (k : K) (v : V) : omap :=
  mkM (updo (last m) (set_next (Some (length (ents m)))) (ents m)
         ++ [mkE (Some (norm k)) (Some v) (last m) None])
      (bset (H (norm k)) (bget (H (norm k)) (buckets m) ++ [length (ents m)]) (buckets m))
      (match last m with Some _ => first m | None => Some (length (ents m)) end)
      (Some (length (ents m))) (S (size m)).

Lemma nth_new : forall (es : list entry) lst enew x e',
  nth_error (updo lst (set_next (Some (length es))) es ++ [enew]) x = Some e' ->
  (x < length es /\ exists e0, nth_error es x = Some e0 /\ ekey e' = ekey e0 /\
      evalue e' = evalue e0 /\ eprev e' = eprev e0 /\
      enext e' = if oeq lst x then Some (length es) else enext e0)
  \/ (x = length es /\ e' = enew).
Proof.
  intros es lst enew x e' Hn. rewrite nth_error_snoc, updo_length in Hn.
  destruct (Nat.ltb x (length es)) eqn:L.
  - left. apply Nat.ltb_lt in L. split; [exact L|]. rewrite nth_error_updo in Hn.
    destruct (nth_error es x) as [e0|] eqn:E0.
    + exists e0. split; [reflexivity|].
      destruct (oeq lst x); simpl in Hn; inversion Hn; subst; simpl; repeat split; reflexivity.
    + destruct (oeq lst x); simpl in Hn; discriminate.
  - right. destruct (Nat.eqb x (length es)) eqn:E; [|discriminate].
    apply Nat.eqb_eq in E. inversion Hn. auto.
Qed.

Lemma al_new : forall (es : list entry) lst enew x, liveb enew = true ->
  al (updo lst (set_next (Some (length es))) es ++ [enew]) x
  = if Nat.eqb x (length es) then true else al es x.
Proof.
  intros es lst enew x Hl. unfold al. rewrite nth_error_snoc, updo_length, nth_error_updo.
  destruct (Nat.ltb x (length es)) eqn:L.
  - apply Nat.ltb_lt in L. destruct (Nat.eqb_spec x (length es)) as [E|E]; [lia|].
    destruct (oeq lst x); [|reflexivity]. destruct (nth_error es x); reflexivity.
  - apply Nat.ltb_ge in L. destruct (Nat.eqb_spec x (length es)) as [E|E]; [exact Hl|].
    assert (Hn : nth_error es x = None) by (apply nth_error_None; lia).
    rewrite Hn; reflexivity.
Qed.

Lemma inb_new : forall (es : list entry) lst enew knew h x, ekey enew = Some knew ->
  inb (updo lst (set_next (Some (length es))) es ++ [enew]) h x
  = if Nat.eqb x (length es) then N.eqb (H knew) h else inb es h x.
Proof.
  intros es lst enew knew h x Hk. unfold inb.
  rewrite nth_error_snoc, updo_length, nth_error_updo.
  destruct (Nat.ltb x (length es)) eqn:L.
  - apply Nat.ltb_lt in L. destruct (Nat.eqb_spec x (length es)) as [E|E]; [lia|].
    destruct (oeq lst x); [|reflexivity]. destruct (nth_error es x); reflexivity.
  - apply Nat.ltb_ge in L. destruct (Nat.eqb_spec x (length es)) as [E|E].
    + rewrite Hk; reflexivity.
    + assert (Hn : nth_error es x = None) by (apply nth_error_None; lia).
      rewrite Hn; reflexivity.
Qed.

Lemma Inv_new : forall m k v, Inv m -> Inv (mk_new m k v).
Proof.
  intros [es bs fi la sz] k v [Hprev Hnext Hval Hnorm Hfirst Hlast Hbk Hsize].
  unfold mk_new; simpl in *.
  pose proof (al_new es la (mkE (Some (norm k)) (Some v) la None)) as Hal.
  assert (Hal' : forall x, al (updo la (set_next (Some (length es))) es
                   ++ [mkE (Some (norm k)) (Some v) la None]) x
                 = if Nat.eqb x (length es) then true else al es x)
    by (intros x; apply Hal; reflexivity).
  clear Hal. rename Hal' into Hal.
  assert (Hdead : forall y, al es y = false -> y <> length es ->
            al (updo la (set_next (Some (length es))) es
                   ++ [mkE (Some (norm k)) (Some v) la None]) y = false).
  { intros y Hy Hne. rewrite Hal. destruct (Nat.eqb_spec y (length es)); [contradiction|exact Hy]. }
  assert (Halive : forall y, al es y = true ->
            al (updo la (set_next (Some (length es))) es
                   ++ [mkE (Some (norm k)) (Some v) la None]) y = true).
  { intros y Hy. rewrite Hal. destruct (Nat.eqb y (length es)); [reflexivity|exact Hy]. }
  destruct Hlast as [Hlw Hlp].
  constructor; simpl.
  - (* prev *)
    intros x e' Hx.
    destruct (nth_new _ _ _ _ _ Hx) as [(Lx & e0 & E0 & Ek & Ev & Ep & En) | (Ex & Ee)].
    + rewrite Ep. destruct (Hprev _ _ E0) as [Hw Hp]. split.
      * eapply prevw_mono; [|exact Hw]. intros y Hy Hd. apply Hdead; [exact Hd|lia].
      * intros Hl. unfold liveb in Hl; rewrite Ek in Hl.
        eapply palive_mono; [|exact (Hp Hl)]. exact Halive.
    + subst x e'. simpl. split.
      * eapply prevw_mono; [|exact Hlw]. intros y Hy Hd. apply Hdead; [exact Hd|lia].
      * intros _. eapply palive_mono; [|exact Hlp]. exact Halive.
  - (* next *)
    intros x e' Hx Hl.
    destruct (nth_new _ _ _ _ _ Hx) as [(Lx & e0 & E0 & Ek & Ev & Ep & En) | (Ex & Ee)].
    + rewrite En. unfold liveb in Hl; rewrite Ek in Hl. fold (liveb e0) in Hl.
      destruct (oeq la x) eqn:Ox.
      * destruct la as [l|]; [|discriminate]. simpl in Ox. apply Nat.eqb_eq in Ox. subst l.
        destruct Hlw as [Hl1 Hl2]. simpl in Hl1, Hl2. split.
        -- intros y Hy Hb. simpl in Hb. apply Hdead; [|lia]. apply Hl2; lia.
        -- split; [lia|]. rewrite Hal. rewrite Nat.eqb_refl. reflexivity.
      * destruct (Hnext _ _ E0 Hl) as [A1 A2]. destruct (enext e0) as [j|] eqn:Ej.
        -- destruct A2 as [A2 A3]. pose proof (al_lt _ _ A3) as Lj. split.
           ++ intros y Hy Hb. simpl in Hb. apply Hdead; [|lia]. apply A1; [exact Hy|exact Hb].
           ++ split; [exact A2|]. apply Halive; exact A3.
        -- exfalso. (* x is alive, so last = Some l with l > x alive; contradiction *)
           destruct la as [l|].
           ++ simpl in Ox. apply Nat.eqb_neq in Ox. simpl in Hlp.
              destruct Hlw as [Hl1 Hl2]. simpl in Hl1, Hl2.
              assert (Hax : al es x = true) by (rewrite (al_of _ _ _ E0); exact Hl).
              destruct (Nat.lt_trichotomy x l) as [L|[L|L]]; [|lia|].
              ** rewrite (A1 l) in Hlp; [discriminate|lia|exact I].
              ** rewrite (Hl2 x) in Hax; [discriminate|lia].
           ++ destruct Hlw as [Hl1 Hl2]. simpl in Hl2.
              assert (Hax : al es x = true) by (rewrite (al_of _ _ _ E0); exact Hl).
              rewrite (Hl2 x) in Hax; [discriminate|lia].
    + subst x e'. simpl. split; [|exact I].
      intros y Hy _. apply Hdead; [|lia]. apply al_ge; lia.
  - (* val *)
    intros x e' Hx Hl.
    destruct (nth_new _ _ _ _ _ Hx) as [(Lx & e0 & E0 & Ek & Ev & Ep & En) | (Ex & Ee)].
    + rewrite Ev. unfold liveb in Hl; rewrite Ek in Hl. exact (Hval _ _ E0 Hl).
    + subst e'. simpl. discriminate.
  - (* norm *)
    intros x e' k1 Hx Hk.
    destruct (nth_new _ _ _ _ _ Hx) as [(Lx & e0 & E0 & Ek & Ev & Ep & En) | (Ex & Ee)].
    + rewrite Ek in Hk. exact (Hnorm _ _ _ E0 Hk).
    + subst e'. simpl in Hk. inversion Hk; subst. apply norm_idem.
  - (* first *)
    destruct la as [l|].
    + simpl in Hlp. destruct Hfirst as [A1 A2]. destruct fi as [f|].
      * destruct A2 as [A2 A3]. pose proof (al_lt _ _ A3) as Lf. split.
        -- intros y Hy Hb. simpl in Hb. apply Hdead; [|lia]. apply A1; [exact Hy|exact Hb].
        -- split; [exact A2|]. apply Halive; exact A3.
      * rewrite (A1 l) in Hlp; [discriminate|lia|exact I].
    + destruct Hlw as [Hl1 Hl2]. simpl in Hl2. split.
      * intros y Hy Hb. simpl in Hb. apply Hdead; [|lia]. apply Hl2; lia.
      * split; [lia|]. rewrite Hal. rewrite Nat.eqb_refl. reflexivity.
  - (* last *)
    rewrite app_length, updo_length. simpl. split.
    + split; [simpl; lia|]. intros y Hy. simpl in Hy. lia.
    + simpl. rewrite Hal. rewrite Nat.eqb_refl. reflexivity.
  - (* buckets *)
    intros h'. rewrite bget_bset. rewrite app_length, updo_length. simpl.
    rewrite Nat.add_1_r. rewrite seq_S, filter_app. simpl.
    rewrite (inb_new es la (mkE (Some (norm k)) (Some v) la None) (norm k) h' (length es) eq_refl).
    rewrite Nat.eqb_refl.
    rewrite (filter_ext_seq (inb (updo la (set_next (Some (length es))) es
                   ++ [mkE (Some (norm k)) (Some v) la None]) h') (inb es h') 0 (length es)).
    2:{ intros x Hx. rewrite (inb_new es la (mkE (Some (norm k)) (Some v) la None) (norm k) h' x eq_refl).
        destruct (Nat.eqb_spec x (length es)); [lia|reflexivity]. }
    rewrite <- Hbk.
    destruct (N.eqb_spec h' (H (norm k))) as [E|E].
    + subst h'. rewrite N.eqb_refl. reflexivity.
    + destruct (N.eqb_spec (H (norm k)) h') as [E'|E']; [congruence|].
      rewrite app_nil_r. reflexivity.
  - (* size *)
    rewrite filter_app, app_length. simpl.
    rewrite filter_updo_len by (intros e; reflexivity). rewrite Hsize. lia.
Qed.

Lemma abs_new : forall m k v,
  abs (mk_new m k v) = abs m ++ [Some (norm k, v)].
Proof.
  intros m k v. unfold abs, mk_new; simpl. rewrite map_app. simpl.
  rewrite map_updo_id by (intros e; reflexivity). reflexivity.
Qed.

Lemma oset_sim : forall m k v, Inv m ->
  Inv (oset m k v) /\ abs (oset m k v) = sset (abs m) k v /\
  length (ents m) <= length (ents (oset m k v)).
Proof.
  intros m k v HI. unfold Model.oset. rewrite (lookup_findi _ _ HI).
  rewrite sset_findi. rewrite (findi_abs _ _ HI).
  destruct (findi (ematch (norm k)) (ents m)) as [i|] eqn:E.
  - split; [apply Inv_setval; exact HI|]. split; [apply abs_setval; exact HI|].
    simpl. rewrite upd_length. lia.
  - assert (Heq : (match last m with
       | Some l => mkM (upd l (set_next (Some (length (ents m)))) (ents m)
                         ++ [mkE (Some (norm k)) (Some v) (last m) None])
                       (bset (H (norm k)) (bget (H (norm k)) (buckets m) ++ [length (ents m)]) (buckets m))
                       (first m) (Some (length (ents m))) (S (size m))
       | None => mkM (ents m ++ [mkE (Some (norm k)) (Some v) (last m) None])
                       (bset (H (norm k)) (bget (H (norm k)) (buckets m) ++ [length (ents m)]) (buckets m))
                       (Some (length (ents m))) (Some (length (ents m))) (S (size m))
       end) = mk_new m k v).
    { unfold mk_new. destruct (last m); reflexivity. }
    rewrite Heq. split; [apply Inv_new; exact HI|]. split; [apply abs_new|].
    unfold mk_new; simpl. rewrite app_length, updo_length. lia.
Qed.

(* --- remove --- *)

Definition mk_rem (m : omap) (i : nat) (e : entry) (h : N) : omap :=
  mkM (updo (enext e) (set_prev (eprev e))
         (updo (eprev e) (set_next (enext e)) (upd i kill (ents m))))
      (bset h (remove_id i (bget h (buckets m))) (buckets m))
      (match eprev e with Some _ => first m | None => enext e end)
      (match enext e with Some _ => last m | None => eprev e end)
      (pred (size m)).

Lemma nth_rem : forall (es : list entry) i pe ne x e',
  nth_error (updo ne (set_prev pe) (updo pe (set_next ne) (upd i kill es))) x = Some e' ->
  exists e0, nth_error es x = Some e0 /\
    ekey e' = (if Nat.eqb x i then None else ekey e0) /\
    evalue e' = (if Nat.eqb x i then None else evalue e0) /\
    eprev e' = (if oeq ne x then pe else eprev e0) /\
    enext e' = (if oeq pe x then ne else enext e0).
Proof.
  intros es i pe ne x e' Hn. rewrite !nth_error_updo, nth_error_upd in Hn.
  destruct (nth_error es x) as [e0|].
  - exists e0. split; [reflexivity|].
    destruct (oeq ne x); destruct (oeq pe x); destruct (Nat.eqb x i); simpl in Hn;
      inversion Hn; subst; simpl; repeat split; reflexivity.
  - destruct (oeq ne x); destruct (oeq pe x); destruct (Nat.eqb x i); simpl in Hn; discriminate.
Qed.

Lemma al_rem : forall (es : list entry) i pe ne x,
  al (updo ne (set_prev pe) (updo pe (set_next ne) (upd i kill es))) x
  = if Nat.eqb x i then false else al es x.
Proof.
  intros es i pe ne x. unfold al. rewrite !nth_error_updo, nth_error_upd.
  destruct (nth_error es x) as [e0|];
    destruct (oeq ne x); destruct (oeq pe x); destruct (Nat.eqb x i); reflexivity.
Qed.

Lemma inb_rem : forall (es : list entry) i pe ne h x,
  inb (updo ne (set_prev pe) (updo pe (set_next ne) (upd i kill es))) h x
  = if Nat.eqb x i then false else inb es h x.
Proof.
  intros es i pe ne h x. unfold inb. rewrite !nth_error_updo, nth_error_upd.
  destruct (nth_error es x) as [e0|];
    destruct (oeq ne x); destruct (oeq pe x); destruct (Nat.eqb x i); reflexivity.
Qed.

Lemma Inv_rem : forall m i e k0, Inv m ->
  nth_error (ents m) i = Some e -> ekey e = Some k0 -> Inv (mk_rem m i e (H k0)).
Proof.
  intros [es bs fi la sz] i e k0 [Hprev Hnext Hval Hnorm Hfirst Hlast Hbk Hsize] Hi Hk0.
  unfold mk_rem; simpl in *.
  assert (Hle : liveb e = true) by (unfold liveb; rewrite Hk0; reflexivity).
  assert (Hai : al es i = true) by (rewrite (al_of _ _ _ Hi); exact Hle).
  pose proof (al_lt _ _ Hai) as Li.
  destruct (Hprev _ _ Hi) as [[Hp1 Hp2] Hp3]. specialize (Hp3 Hle).
  destruct (Hnext _ _ Hi Hle) as [Hn1 Hn2].
  destruct Hlast as [Hlw Hlp].
  pose proof (al_rem es i (eprev e) (enext e)) as Hal.
  remember (updo (enext e) (set_prev (eprev e))
              (updo (eprev e) (set_next (enext e)) (upd i kill es))) as es' eqn:Hes'.
  assert (Hlen : length es' = length es).
  { subst es'. rewrite !updo_length, upd_length. reflexivity. }
  assert (Hdead : forall y, al es y = false -> al es' y = false).
  { intros y Hy. rewrite Hal. destruct (Nat.eqb y i); [reflexivity|exact Hy]. }
  assert (Halive : forall y, al es y = true -> y <> i -> al es' y = true).
  { intros y Hy Hne. rewrite Hal. destruct (Nat.eqb_spec y i); [contradiction|exact Hy]. }
  assert (Hzone : forall y, bound (eprev e) <= y -> below (enext e) y -> al es' y = false).
  { intros y Hy Hb. rewrite Hal. destruct (Nat.eqb_spec y i) as [E|E]; [reflexivity|].
    destruct (le_lt_dec y i) as [L|L].
    - apply Hp2; lia.
    - apply Hn1; [lia|exact Hb]. }
  assert (Hnx : forall nx, enext e = Some nx -> i < nx /\ al es nx = true).
  { intros nx Hnx. rewrite Hnx in Hn2. destruct Hn2 as [A B]. split; [lia|exact B]. }
  assert (Hpp : forall p, eprev e = Some p -> p < i /\ al es p = true).
  { intros p Hpe. rewrite Hpe in Hp1, Hp3. simpl in Hp1, Hp3. split; [lia|exact Hp3]. }
  constructor; simpl.
  - (* prev *)
    intros x e' Hx. rewrite Hes' in Hx.
    destruct (nth_rem _ _ _ _ _ _ Hx) as (e0 & E0 & Ek & Ev & Ep & En).
    destruct (Hprev _ _ E0) as [Hw0 Hp0]. rewrite Ep.
    destruct (oeq (enext e) x) eqn:Ox.
    + destruct (enext e) as [nx|] eqn:Ene; [|discriminate]. simpl in Ox.
      apply Nat.eqb_eq in Ox. subst x. destruct (Hnx nx eq_refl) as [Lnx Anx]. split.
      * split; [lia|]. intros y Hy. apply Hzone; [lia|simpl; lia].
      * intros _. destruct (eprev e) as [p|] eqn:Epe; [|exact I]. simpl.
        destruct (Hpp p eq_refl) as [Lp Ap]. apply Halive; [exact Ap|lia].
    + split.
      * eapply prevw_mono; [|exact Hw0]. intros y _ Hy. apply Hdead; exact Hy.
      * intros Hl. unfold liveb in Hl. rewrite Ek in Hl.
        destruct (Nat.eqb_spec x i) as [Exi|Exi]; [discriminate|]. fold (liveb e0) in Hl.
        specialize (Hp0 Hl). destruct (eprev e0) as [q|] eqn:Eq; [|exact I]. simpl in *.
        apply Halive; [exact Hp0|]. intros Hqi. subst q.
        (* then x is the next alive after i, so enext e = Some x *)
        assert (Hax : al es x = true) by (rewrite (al_of _ _ _ E0); exact Hl).
        destruct Hw0 as [W1 W2]. simpl in W1, W2.
        assert (Hnn : nexta es (S i) (Some x)).
        { split; [|split; [lia|exact Hax]]. intros y Hy Hb. simpl in Hb. apply W2; lia. }
        pose proof (nexta_uniq _ _ _ _ (conj Hn1 Hn2) Hnn) as Heq.
        rewrite Heq in Ox. simpl in Ox. rewrite Nat.eqb_refl in Ox. discriminate.
  - (* next *)
    intros x e' Hx Hl. rewrite Hes' in Hx.
    destruct (nth_rem _ _ _ _ _ _ Hx) as (e0 & E0 & Ek & Ev & Ep & En).
    unfold liveb in Hl. rewrite Ek in Hl.
    destruct (Nat.eqb_spec x i) as [Exi|Exi]; [discriminate|]. fold (liveb e0) in Hl.
    assert (Hax : al es x = true) by (rewrite (al_of _ _ _ E0); exact Hl).
    rewrite En. destruct (oeq (eprev e) x) eqn:Ox.
    + destruct (eprev e) as [p|] eqn:Epe; [|discriminate]. simpl in Ox.
      apply Nat.eqb_eq in Ox. subst x. destruct (Hpp p eq_refl) as [Lp Ap]. split.
      * intros y Hy Hb. apply Hzone; [simpl; lia|exact Hb].
      * destruct (enext e) as [nx|] eqn:Ene; [|exact I].
        destruct (Hnx nx eq_refl) as [Lnx Anx]. split; [lia|]. apply Halive; [exact Anx|lia].
    + destruct (Hnext _ _ E0 Hl) as [A1 A2]. split.
      * intros y Hy Hb. apply Hdead. apply A1; assumption.
      * destruct (enext e0) as [j|] eqn:Ej; [|exact I]. destruct A2 as [A2 A3].
        split; [exact A2|]. apply Halive; [exact A3|]. intros Hji. subst j.
        (* then x is the previous alive of i, so eprev e = Some x *)
        assert (Hpw : prevw es i (Some x)).
        { split; [simpl; lia|]. intros y Hy. simpl in Hy. apply A1; [lia|simpl; lia]. }
        pose proof (preva_uniq _ _ _ _ (conj Hp1 Hp2) Hp3 Hpw Hax) as Heq.
        rewrite Heq in Ox. simpl in Ox. rewrite Nat.eqb_refl in Ox. discriminate.
  - (* val *)
    intros x e' Hx Hl. rewrite Hes' in Hx.
    destruct (nth_rem _ _ _ _ _ _ Hx) as (e0 & E0 & Ek & Ev & Ep & En).
    unfold liveb in Hl. rewrite Ek in Hl. rewrite Ev.
    destruct (Nat.eqb_spec x i) as [Exi|Exi]; [discriminate|]. exact (Hval _ _ E0 Hl).
  - (* norm *)
    intros x e' k1 Hx Hk. rewrite Hes' in Hx.
    destruct (nth_rem _ _ _ _ _ _ Hx) as (e0 & E0 & Ek & Ev & Ep & En).
    rewrite Ek in Hk. destruct (Nat.eqb_spec x i) as [Exi|Exi]; [discriminate|].
    exact (Hnorm _ _ _ E0 Hk).
  - (* first *)
    destruct (eprev e) as [p|] eqn:Epe.
    + destruct (Hpp p eq_refl) as [Lp Ap]. destruct Hfirst as [A1 A2]. split.
      * intros y Hy Hb. apply Hdead. apply A1; assumption.
      * destruct fi as [f|]; [|exact I]. destruct A2 as [A2 A3]. split; [exact A2|].
        apply Halive; [exact A3|]. intros Hf. subst f.
        rewrite (A1 p) in Ap; [discriminate|lia|simpl; lia].
    + split.
      * intros y Hy Hb. apply Hzone; [simpl; lia|exact Hb].
      * destruct (enext e) as [nx|] eqn:Ene; [|exact I].
        destruct (Hnx nx eq_refl) as [Lnx Anx]. split; [lia|]. apply Halive; [exact Anx|lia].
  - (* last *)
    rewrite Hlen. destruct (enext e) as [nx|] eqn:Ene.
    + destruct (Hnx nx eq_refl) as [Lnx Anx]. split.
      * eapply prevw_mono; [|exact Hlw]. intros y _ Hy. apply Hdead; exact Hy.
      * destruct la as [l|]; [|exact I]. simpl in *. apply Halive; [exact Hlp|].
        intros Hl. subst l. destruct Hlw as [W1 W2]. simpl in W1, W2.
        pose proof (al_lt _ _ Anx) as Lx.
        rewrite (W2 nx) in Anx; [discriminate|lia].
    + split.
      * split; [lia|]. intros y Hy. apply Hzone; [lia|exact I].
      * destruct (eprev e) as [p|] eqn:Epe; [|exact I]. simpl.
        destruct (Hpp p eq_refl) as [Lp Ap]. apply Halive; [exact Ap|lia].
  - (* buckets *)
    intros h'. rewrite bget_bset. rewrite Hlen.
    assert (Hinb : forall x, inb es' h' x = if Nat.eqb x i then false else inb es h' x).
    { intros x. rewrite Hes'. apply inb_rem. }
    destruct (N.eqb_spec h' (H k0)) as [E|E].
    + subst h'. rewrite Hbk. unfold remove_id. rewrite filter_filter.
      apply filter_ext_seq. intros x _. rewrite Hinb.
      destruct (Nat.eqb x i); [apply andb_false_r|apply andb_true_r].
    + rewrite Hbk. apply filter_ext_seq. intros x _. rewrite Hinb.
      destruct (Nat.eqb_spec x i) as [Exi|Exi]; [|reflexivity]. subst x.
      unfold inb. rewrite Hi, Hk0. destruct (N.eqb_spec (H k0) h'); [congruence|reflexivity].
  - (* size *)
    rewrite Hes'. rewrite !filter_updo_len by (intros e1; reflexivity).
    rewrite (filter_upd_kill liveb kill i es e Hi Hle eq_refl). rewrite Hsize. reflexivity.
Qed.

Lemma abs_rem : forall m i e h,
  abs (mk_rem m i e h) = upd i (fun _ => None) (abs m).
Proof.
  intros m i e h. unfold abs, mk_rem; simpl.
  rewrite !map_updo_id by (intros e1; reflexivity).
  apply map_upd_gen. intros e1 _. reflexivity.
Qed.

Lemma oremove_sim : forall m k, Inv m ->
  Inv (fst (oremove m k)) /\ abs (fst (oremove m k)) = fst (sdel (abs m) k) /\
  snd (oremove m k) = snd (sdel (abs m) k) /\
  length (ents m) <= length (ents (fst (oremove m k))).
Proof.
  intros m k HI. unfold Model.oremove. rewrite (lookup_findi _ _ HI).
  rewrite sdel_findi. rewrite (findi_abs _ _ HI).
  destruct (findi (ematch (norm k)) (ents m)) as [i|] eqn:E; simpl.
  2:{ split; [exact HI|]. split; [reflexivity|]. split; [reflexivity|lia]. }
  destruct (findi_ematch_some _ _ _ HI E) as (e & k0 & v0 & He & Ek & Ev & Hs & Hl).
  unfold getE. rewrite He.
  assert (Heq : (let '(es, fst0) := match eprev e with
                            | Some p => (upd p (set_next (enext e)) (upd i kill (ents m)), first m)
                            | None => (upd i kill (ents m), enext e) end in
          let '(es0, lst) := match enext e with
                            | Some nx => (upd nx (set_prev (eprev e)) es, last m)
                            | None => (es, eprev e) end in
          (mkM es0 (bset (H (norm k)) (remove_id i (bget (H (norm k)) (buckets m))) (buckets m))
               fst0 lst (pred (size m)), true)) = (mk_rem m i e (H k0), true)).
  { rewrite <- (H_respects _ _ Hs). unfold mk_rem.
    destruct (eprev e); destruct (enext e); reflexivity. }
  rewrite Heq. simpl.
  split; [apply Inv_rem; assumption|]. split; [apply abs_rem|]. split; [reflexivity|].
  rewrite !updo_length, upd_length. lia.
Qed.

(* --- clear --- *)

Lemma nth_clr : forall (es : list entry) i pe x e',
  nth_error (updo pe (set_next None) (upd i kill es)) x = Some e' ->
  exists e0, nth_error es x = Some e0 /\
    ekey e' = (if Nat.eqb x i then None else ekey e0) /\
    eprev e' = eprev e0 /\
    enext e' = (if oeq pe x then None else enext e0).
Proof.
  intros es i pe x e' Hn. rewrite nth_error_updo, nth_error_upd in Hn.
  destruct (nth_error es x) as [e0|].
  - exists e0. split; [reflexivity|].
    destruct (oeq pe x); destruct (Nat.eqb x i); simpl in Hn;
      inversion Hn; subst; simpl; repeat split; reflexivity.
  - destruct (oeq pe x); destruct (Nat.eqb x i); simpl in Hn; discriminate.
Qed.

Lemma al_clr : forall (es : list entry) i pe x,
  al (updo pe (set_next None) (upd i kill es)) x = if Nat.eqb x i then false else al es x.
Proof.
  intros es i pe x. unfold al. rewrite nth_error_updo, nth_error_upd.
  destruct (nth_error es x) as [e0|]; destruct (oeq pe x); destruct (Nat.eqb x i); reflexivity.
Qed.

Lemma eprev_clr : forall (es : list entry) i pe x,
  option_map eprev (nth_error (updo pe (set_next None) (upd i kill es)) x)
  = option_map eprev (nth_error es x).
Proof.
  intros es i pe x. rewrite nth_error_updo, nth_error_upd.
  destruct (nth_error es x) as [e0|]; destruct (oeq pe x); destruct (Nat.eqb x i); reflexivity.
Qed.

Lemma clear_loop_spec : forall fuel item (es : list entry) c,
  (forall x, x < c -> al es x = false) ->
  nexta es c item ->
  (forall x e, c <= x -> nth_error es x = Some e -> liveb e = true ->
      nexta es (S x) (enext e) /\ bound (eprev e) <= x) ->
  length es <= c + fuel ->
  length (clear_loop fuel item es) = length es /\
  (forall x, al (clear_loop fuel item es) x = false) /\
  (forall x, option_map eprev (nth_error (clear_loop fuel item es) x)
             = option_map eprev (nth_error es x)).
Proof.
  induction fuel as [|f IH]; intros item es c Hlow Hitem Hstr Hfuel.
  - simpl. split; [reflexivity|]. split; [|reflexivity].
    intros x. destruct (le_lt_dec c x) as [L|L]; [apply al_ge; lia|apply Hlow; exact L].
  - destruct item as [i|].
    + destruct Hitem as [Hz [Hci Hai]].
      destruct (al_true _ _ Hai) as (e & Ei & Hl).
      simpl. rewrite Ei.
      assert (Hes2 : (match eprev e with
                      | Some p => upd p (set_next None) (upd i kill es)
                      | None => upd i kill es end)
                     = updo (eprev e) (set_next None) (upd i kill es)) by reflexivity.
      rewrite Hes2. clear Hes2.
      destruct (Hstr _ _ Hci Ei Hl) as [Hni Hbi].
      pose proof (al_clr es i (eprev e)) as Hal.
      specialize (IH (enext e) (updo (eprev e) (set_next None) (upd i kill es)) (S i)).
      destruct IH as (R1 & R2 & R3).
      * intros x Hx. rewrite Hal. destruct (Nat.eqb_spec x i) as [E|E]; [reflexivity|].
        destruct (le_lt_dec c x) as [L|L]; [apply Hz; [exact L|simpl; lia]|apply Hlow; exact L].
      * eapply nexta_trans; [| |exact Hni].
        -- intros y Hy Hd. rewrite Hal. destruct (Nat.eqb y i); [reflexivity|exact Hd].
        -- intros j Hj. rewrite Hj in Hni. destruct Hni as [_ [A2 A3]].
           rewrite Hal. destruct (Nat.eqb_spec j i) as [E|E]; [lia|exact A3].
      * intros x e' Hx He' Hl'.
        destruct (nth_clr _ _ _ _ _ He') as (e0 & E0 & Ek & Ep & En).
        unfold liveb in Hl'. rewrite Ek in Hl'.
        destruct (Nat.eqb_spec x i) as [Exi|Exi]; [discriminate|]. fold (liveb e0) in Hl'.
        assert (Hcx : c <= x) by lia.
        destruct (Hstr _ _ Hcx E0 Hl') as [Hn0 Hb0].
        rewrite Ep, En. split; [|exact Hb0].
        assert (Ho : oeq (eprev e) x = false).
        { destruct (eprev e) as [p|]; [|reflexivity]. simpl in *.
          apply Nat.eqb_neq. lia. }
        rewrite Ho.
        eapply nexta_trans; [| |exact Hn0].
        -- intros y Hy Hd. rewrite Hal. destruct (Nat.eqb y i); [reflexivity|exact Hd].
        -- intros j Hj. rewrite Hj in Hn0. destruct Hn0 as [_ [A2 A3]].
           rewrite Hal. destruct (Nat.eqb_spec j i) as [E|E]; [lia|exact A3].
      * rewrite updo_length, upd_length. lia.
      * rewrite updo_length, upd_length in R1. split; [exact R1|]. split; [exact R2|].
        intros x. rewrite R3. apply eprev_clr.
    + simpl. split; [reflexivity|]. split; [|reflexivity].
      destruct Hitem as [Hz _]. intros x.
      destruct (le_lt_dec c x) as [L|L]; [apply Hz; [exact L|exact I]|apply Hlow; exact L].
Qed.

Lemma oclear_sim : forall m, Inv m ->
  Inv (oclear m) /\ abs (oclear m) = sclear (abs m) /\
  length (ents m) <= length (ents (oclear m)).
Proof.
  intros m HI.
  destruct (clear_loop_spec (length (ents m)) (first m) (ents m) 0) as (R1 & R2 & R3).
  - intros x Hx; lia.
  - exact (I_first _ HI).
  - intros x e _ Hx Hl. split; [exact (I_next _ HI _ _ Hx Hl)|].
    destruct (I_prev _ HI _ _ Hx) as [[A _] _]. exact A.
  - lia.
  - assert (Hdeadl : forall x e', nth_error (clear_loop (length (ents m)) (first m) (ents m)) x = Some e' ->
                       liveb e' = false).
    { intros x e' Hx. rewrite <- (al_of _ _ _ Hx). apply R2. }
    split; [|split].
    + unfold oclear. constructor; simpl.
      * intros x e' Hx. pose proof (R3 x) as Hp. rewrite Hx in Hp. simpl in Hp.
        destruct (nth_error (ents m) x) as [e0|] eqn:E0; simpl in Hp; [|discriminate].
        inversion Hp as [Hp']. rewrite Hp'.
        destruct (I_prev _ HI _ _ E0) as [Hw _]. split.
        -- eapply prevw_mono; [|exact Hw]. intros y _ _. apply R2.
        -- intros Hl. rewrite (Hdeadl _ _ Hx) in Hl; discriminate.
      * intros x e' Hx Hl. rewrite (Hdeadl _ _ Hx) in Hl; discriminate.
      * intros x e' Hx Hl. rewrite (Hdeadl _ _ Hx) in Hl; discriminate.
      * intros x e' k Hx Hk. pose proof (Hdeadl _ _ Hx) as Hd. unfold liveb in Hd.
        rewrite Hk in Hd; discriminate.
      * split; [|exact I]. intros y _ _. apply R2.
      * split; [|exact I]. split; [simpl; lia|]. intros y _. apply R2.
      * intros h. symmetry. apply filter_none. intros x _. apply inb_al. apply R2.
      * symmetry. rewrite filter_none; [reflexivity|].
        intros e' Hin. destruct (In_nth_error _ _ Hin) as [x Hx]. exact (Hdeadl _ _ Hx).
    + apply nth_error_ext_eq. intros x. unfold sclear. rewrite nth_error_map, !abs_nth.
      unfold oclear; simpl.
      destruct (nth_error (clear_loop (length (ents m)) (first m) (ents m)) x) as [e'|] eqn:Ex.
      * assert (Hlt : x < length (ents m)) by (rewrite <- R1; apply nth_error_Some; congruence).
        destruct (nth_error (ents m) x) as [e0|] eqn:E0; [|apply nth_error_None in E0; lia].
        simpl. pose proof (Hdeadl _ _ Ex) as Hd. unfold liveb in Hd. unfold kv.
        destruct (ekey e'); [discriminate|reflexivity].
      * apply nth_error_None in Ex. rewrite R1 in Ex. apply nth_error_None in Ex.
        rewrite Ex. reflexivity.
    + unfold oclear; simpl. rewrite R1. lia.
Qed.

(* --- iterators --- *)

Definition Rit (n : nat) (it : iter) (sit : siter) : Prop :=
  closed it = sdone sit /\
  (closed it = false -> sidx sit = bound (cur it) /\ bound (cur it) <= n).

Lemma walk_back_none : forall fuel (es : list entry), walk_back fuel es None = None.
Proof. intros [|f] es; reflexivity. Qed.

Lemma walk_back_spec : forall m, Inv m -> forall fuel c,
  bound c <= fuel -> bound c <= length (ents m) ->
  prevw (ents m) (bound c) (walk_back fuel (ents m) c) /\
  palive (ents m) (walk_back fuel (ents m) c).
Proof.
  intros m HI. induction fuel as [|f IH]; intros c Hf Hn.
  - destruct c as [i|]; simpl in Hf; [lia|]. simpl. split; [|exact I].
    split; [simpl; lia|]. intros y Hy. simpl in Hy. lia.
  - destruct c as [i|].
    + simpl in Hf, Hn.
      destruct (nth_error (ents m) i) as [e|] eqn:Ei; [|apply nth_error_None in Ei; lia].
      simpl. rewrite Ei.
      destruct (ekey e) as [k0|] eqn:Ek.
      * split.
        -- split; [simpl; lia|]. intros y Hy. simpl in Hy. lia.
        -- simpl. rewrite (al_of _ _ _ Ei). unfold liveb. rewrite Ek. reflexivity.
      * assert (Hdi : al (ents m) i = false).
        { rewrite (al_of _ _ _ Ei). unfold liveb. rewrite Ek. reflexivity. }
        destruct (I_prev _ HI _ _ Ei) as [[W1 W2] _].
        destruct (IH (eprev e)) as [[P1 P2] P3]; [lia|lia|].
        split; [|exact P3]. split; [lia|].
        intros y Hy.
        destruct (Nat.eq_dec y i) as [E|E]; [subst y; exact Hdi|].
        destruct (le_lt_dec (bound (eprev e)) y) as [L|L].
        -- apply W2; lia.
        -- apply P2; lia.
    + rewrite walk_back_none. split; [|exact I].
      split; [simpl; lia|]. intros y Hy. simpl in Hy. lia.
Qed.

Lemma iter_nx : forall m c, Inv m -> bound c <= length (ents m) ->
  nexta (ents m) (bound c)
    (match walk_back (S (length (ents m))) (ents m) c with
     | Some i => match getE m i with Some e => enext e | None => None end
     | None => first m
     end).
Proof.
  intros m c HI Hc.
  destruct (walk_back_spec m HI (S (length (ents m))) c) as [[P1 P2] P3]; [lia|exact Hc|].
  destruct (walk_back (S (length (ents m))) (ents m) c) as [j|].
  - simpl in P1, P2, P3. destruct (al_true _ _ P3) as (e & Ej & Hl).
    unfold getE. rewrite Ej.
    apply (nexta_shift _ (S j)); [lia| |exact (I_next _ HI _ _ Ej Hl)].
    intros y Hy. apply P2; lia.
  - simpl in P1, P2. apply (nexta_shift _ 0); [lia| |exact (I_first _ HI)].
    intros y Hy. apply P2; lia.
Qed.

Lemma snext_abs : forall m b nx, Inv m -> nexta (ents m) b nx ->
  (nx = None /\ snext_from (abs m) b = None) \/
  (exists j p, nx = Some j /\ snext_from (abs m) b = Some (j, p) /\
               entry_kv m j = Some p /\ j < length (ents m)).
Proof.
  intros m b nx HI Hnx.
  destruct (snext_from (abs m) b) as [[j p]|] eqn:E.
  - right. destruct (snext_from_some _ _ _ _ E) as (S1 & S2 & S3).
    destruct (abs_some_al _ _ _ S2) as [Aj Kj].
    assert (Hn : nexta (ents m) b (Some j)).
    { split; [|split; [exact S1|exact Aj]]. intros y Hy Hb. simpl in Hb.
      apply (abs_none_al _ _ HI). apply S3; lia. }
    exists j, p. split; [exact (nexta_uniq _ _ _ _ Hnx Hn)|]. split; [reflexivity|].
    split; [exact Kj|]. apply al_lt; exact Aj.
  - left. split; [|reflexivity].
    assert (Hn : nexta (ents m) b None).
    { split; [|exact I]. intros y Hy _.
      destruct (le_lt_dec (length (ents m)) y) as [L|L]; [apply al_ge; exact L|].
      apply (abs_none_al _ _ HI). apply (snext_from_none _ _ E). rewrite abs_length. lia. }
    exact (nexta_uniq _ _ _ _ Hnx Hn).
Qed.

Lemma iter_sim : forall m it sit, Inv m -> Rit (length (ents m)) it sit ->
  Rit (length (ents m)) (fst (iter_next m it)) (fst (siter_next (abs m) sit)) /\
  match snd (iter_next m it) with Some j => entry_kv m j | None => None end
  = snd (siter_next (abs m) sit).
Proof.
  intros m it sit HI [Hc Hr]. unfold iter_next, siter_next. rewrite <- Hc.
  destruct (closed it) eqn:Ec; cbv beta iota zeta.
  - simpl. split; [|reflexivity]. split; [rewrite Ec; exact Hc|]. intros Hf; congruence.
  - destruct (Hr eq_refl) as [Hidx Hb]. rewrite Hidx.
    pose proof (iter_nx m (cur it) HI Hb) as Hnx.
    destruct (snext_abs _ _ _ HI Hnx) as [[N1 N2] | (j & p & N1 & N2 & N3 & N4)].
    + rewrite N1, N2. simpl. split; [|reflexivity]. split; [reflexivity|].
      intros Hf; discriminate.
    + rewrite N1, N2. simpl. split; [|exact N3]. split; [reflexivity|].
      intros _. simpl. split; [reflexivity|lia].
Qed.

Lemma Rit_mono : forall n n' it sit, n <= n' -> Rit n it sit -> Rit n' it sit.
Proof.
  intros n n' it sit Hle [A B]. split; [exact A|]. intros Hf.
  destruct (B Hf) as [B1 B2]. split; [exact B1|lia].
Qed.

(* --- one step --- *)

Lemma filter_map_len : forall {A B} (g : A -> B) (p : B -> bool) (q : A -> bool) l,
  (forall x, In x l -> p (g x) = q x) -> length (filter p (map g l)) = length (filter q l).
Proof.
  intros A B g p q l; induction l as [|x r IH]; intros Hpq; simpl; [reflexivity|].
  rewrite (Hpq x) by (left; reflexivity).
  assert (IH' : length (filter p (map g r)) = length (filter q r))
    by (apply IH; intros y Hy; apply Hpq; right; exact Hy).
  destruct (q x); simpl; rewrite IH'; reflexivity.
Qed.

Lemma ssize_abs : forall m, Inv m -> ssize (abs m) = length (filter liveb (ents m)).
Proof.
  intros m HI. unfold ssize, abs. apply filter_map_len.
  intros e Hin. destruct (In_nth_error _ _ Hin) as [x Hx].
  unfold kv. destruct (ekey e) as [k0|] eqn:Ek.
  - assert (Hl : liveb e = true) by (unfold liveb; rewrite Ek; reflexivity).
    pose proof (I_val _ HI _ _ Hx Hl) as Hv. rewrite Hl.
    destruct (evalue e); [reflexivity|congruence].
  - unfold liveb. rewrite Ek. reflexivity.
Qed.

Definition Rst (s : @istate K V) (t : @sstate K V) : Prop :=
  Inv (fst s) /\ fst t = abs (fst s) /\ Forall2 (Rit (length (ents (fst s)))) (snd s) (snd t).

Lemma step_sim : forall s t o, Rst s t ->
  Rst (fst (istep s o)) (fst (sstep t o)) /\ snd (istep s o) = snd (sstep t o).
Proof.
  intros [m its] [d sits] o (HI & Hd & HF). simpl in HI, Hd, HF. subst d.
  destruct o as [k v|k|k|k| | |n|]; simpl.
  - destruct (oset_sim m k v HI) as (I1 & A1 & L1).
    split; [|reflexivity]. split; [exact I1|]. split; [simpl; symmetry; exact A1|]. simpl.
    eapply Forall2_imp; [|exact HF]. intros a b; apply Rit_mono; exact L1.
  - split; [|rewrite (oget_sim _ _ HI); reflexivity].
    split; [exact HI|]. split; [reflexivity|exact HF].
  - split; [|rewrite (ohas_sim _ _ HI); reflexivity].
    split; [exact HI|]. split; [reflexivity|exact HF].
  - destruct (oremove_sim m k HI) as (I1 & A1 & B1 & L1).
    destruct (oremove m k) as [m' b]. destruct (sdel (abs m) k) as [d' b']. simpl in *.
    split; [|rewrite B1; reflexivity]. split; [exact I1|]. split; [symmetry; exact A1|].
    eapply Forall2_imp; [|exact HF]. intros a c; apply Rit_mono; exact L1.
  - destruct (oclear_sim m HI) as (I1 & A1 & L1).
    split; [|reflexivity]. split; [exact I1|]. split; [simpl; symmetry; exact A1|]. simpl.
    eapply Forall2_imp; [|exact HF]. intros a c; apply Rit_mono; exact L1.
  - rewrite (Forall2_len _ _ _ HF). split; [|reflexivity].
    split; [exact HI|]. split; [reflexivity|]. simpl.
    apply Forall2_app; [exact HF|]. constructor; [|constructor].
    split; [reflexivity|]. intros _. simpl. split; [reflexivity|lia].
  - pose proof (Forall2_nth_error _ _ _ n HF) as Hn.
    destruct (nth_error its n) as [it|]; destruct (nth_error sits n) as [sit|]; try contradiction.
    + destruct (iter_sim m it sit HI Hn) as [R1 R2].
      destruct (iter_next m it) as [it' r]. destruct (siter_next (abs m) sit) as [sit' r'].
      simpl in *. split; [|rewrite R2; reflexivity].
      split; [exact HI|]. split; [reflexivity|]. simpl.
      apply Forall2_upd; assumption.
    + simpl. split; [|reflexivity]. split; [exact HI|]. split; [reflexivity|exact HF].
  - split.
    + split; [exact HI|]. split; [reflexivity|exact HF].
    + simpl. f_equal. rewrite (I_size _ HI). symmetry. apply ssize_abs; exact HI.
Qed.

(* --- histories --- *)

Lemma run_sim : forall ops s t, Rst s t ->
  Rst (fst (run istep s ops)) (fst (run sstep t ops)) /\
  snd (run istep s ops) = snd (run sstep t ops).
Proof.
  induction ops as [|o r IH]; intros s t HR; simpl.
  - split; [exact HR|reflexivity].
  - destruct (step_sim s t o HR) as [H1 H2].
    destruct (istep s o) as [s1 x]. destruct (sstep t o) as [t1 y]. simpl in H1, H2. subst y.
    destruct (IH s1 t1 H1) as [H3 H4].
    destruct (run istep s1 r) as [s2 xs]. destruct (run sstep t1 r) as [t2 ys].
    simpl in *. subst ys. split; [exact H3|reflexivity].
Qed.

Lemma Inv_empty : Inv (@empty K V).
Proof.
  constructor; simpl.
  - intros [|i] e Hi; discriminate.
  - intros [|i] e Hi; discriminate.
  - intros [|i] e Hi; discriminate.
  - intros [|i] e k Hi; discriminate.
  - split; [|exact I]. intros y _ _. apply al_ge. simpl; lia.
  - split; [|exact I]. split; [simpl; lia|]. intros y Hy. simpl in Hy. lia.
  - intros h; reflexivity.
  - reflexivity.
Qed.

Lemma Rst_init : Rst (@iinit K V) (@sinit K V).
Proof.
  split; [exact Inv_empty|]. split; [reflexivity|]. simpl. constructor.
Qed.

Lemma om_refines_l : forall ops : list (@op K V),
  snd (run istep iinit ops) = snd (run sstep sinit ops).
Proof. intros ops. exact (proj2 (run_sim ops _ _ Rst_init)). Qed.

Lemma om_size_live_l : forall ops : list (@op K V),
  let m := fst (fst (run istep iinit ops)) in
  size m = length (filter (fun e => match ekey e with Some _ => true | None => false end) (ents m)).
Proof.
  intros ops m. destruct (run_sim ops _ _ Rst_init) as [[HI _] _].
  exact (I_size _ HI).
Qed.

End Impl.

(* ================================================================== *)
(* Final statements, with the exact argument order of Properties/C18.v  *)

Lemma om_refines : forall {K V : Type} (same : K -> K -> bool) (norm : K -> K) (H : K -> N),
  (forall a b, same a b = true -> H a = H b) ->
  (forall k, norm (norm k) = norm k) ->
  forall ops : list (@op K V),
  snd (run (@istep K V same norm H) iinit ops) = snd (run (@sstep K V same norm) sinit ops).
Proof. intros K V same norm H Hr Hn. exact (om_refines_l same norm H Hr Hn). Qed.

Lemma om_size_live : forall {K V : Type} (same : K -> K -> bool) (norm : K -> K) (H : K -> N),
  (forall a b, same a b = true -> H a = H b) ->
  (forall k, norm (norm k) = norm k) ->
  forall ops : list (@op K V),
  let m := fst (fst (run (@istep K V same norm H) iinit ops)) in
  size m = length (filter (fun e => match ekey e with Some _ => true | None => false end) (ents m)).
Proof. intros K V same norm H Hr Hn. exact (om_size_live_l same norm H Hr Hn). Qed.

Lemma siter_next_some : forall {K V : Type} (d : @sdata K V) it it' kv,
  sdone it = false -> siter_next d it = (it', Some kv) ->
  exists j, sidx it <= j /\ nth_error d j = Some (Some kv) /\
            (forall i, sidx it <= i < j -> nth_error d i = Some None) /\
            sidx it' = S j /\ sdone it' = false.
Proof. intros K V. exact (@siter_next_some_l K V). Qed.

Lemma siter_next_none : forall {K V : Type} (d : @sdata K V) it it',
  sdone it = false -> siter_next d it = (it', None) ->
  (forall i, sidx it <= i < length d -> nth_error d i = Some None) /\ sdone it' = true.
Proof. intros K V. exact (@siter_next_none_l K V). Qed.

Lemma siter_done_stays : forall {K V : Type} (d : @sdata K V) it,
  sdone it = true -> siter_next d it = (it, None).
Proof. intros K V. exact (@siter_done_stays_l K V). Qed.

Lemma sdata_positions_stable : forall {K V : Type} (same : K -> K -> bool) (norm : K -> K)
  (s : @sstate K V) o i,
  let d := fst s in let d' := fst (fst (@sstep K V same norm s o)) in
  length d <= length d' /\
  (i < length d ->
     match nth_error d i, nth_error d' i with
     | Some None, Some None => True
     | Some (Some (k, _)), Some (Some (k', _)) => k' = k
     | Some (Some _), Some None => True
     | _, _ => False
     end).
Proof.
  intros K V same norm s o i d d'.
  destruct (sstep_stab same norm s o) as [H1 H2].
  split; [exact H1|]. intros Hi. exact (H2 i Hi).
Qed.

Lemma sdata_keys_unique : forall {K V : Type} (same : K -> K -> bool) (norm : K -> K),
  (forall k, norm (norm k) = norm k) ->
  (forall a, same a a = true) ->
  (forall a b, same a b = true -> same b a = true) ->
  (forall a b c, same a b = true -> same b c = true -> same a c = true) ->
  forall (ops : list (@op K V)) i j ki vi kj vj,
  let d := fst (fst (run (@sstep K V same norm) sinit ops)) in
  nth_error d i = Some (Some (ki, vi)) -> nth_error d j = Some (Some (kj, vj)) ->
  svz same norm ki kj = true -> i = j.
Proof.
  intros K V same norm Hn _ Hsym _ ops i j ki vi kj vj d Hi Hj Hs.
  assert (Hu : uniq same norm (@nil (option (K * V)))).
  { intros a b k1 v1 k2 v2 Ha. destruct a; discriminate. }
  exact (run_uniq same norm Hn Hsym ops sinit Hu i j ki vi kj vj Hi Hj Hs).
Qed.
