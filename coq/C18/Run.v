(* C18 — executable instantiation used by the correspondence check (no proofs). *)
From Coq Require Import List Arith ZArith NArith Bool.
Import ListNotations.
From Verif.Base Require Import F64.
From Verif.C18 Require Import Model HashModel.

(* keys are SameValue classes: 0 = +0, 1 = -0 (normalised to 0); values are small integers *)
Definition tsame (a b : N) : bool := N.eqb a b.
Definition tnorm (k : N) : N := if N.eqb k 1 then 0%N else k.
Definition thash (k : N) : N := N.modulo k 3.   (* collisions on purpose: chains are exercised *)

Definition top := @op N N.
Notation OSet := (@OSet N N).  Notation OGet := (@OGet N N).  Notation OHas := (@OHas N N).
Notation ODel := (@ODel N N).  Notation OClear := (@OClear N N). Notation ONewIter := (@ONewIter N N).
Notation ONext := (@ONext N N). Notation OSize := (@OSize N N).

(* observation of the implementation; in REnt a [None] part was not exposed by the iterator kind *)
Inductive obs := RU | RV (v : option N) | RB (b : bool) | RN (n : nat)
               | REnt (k : option N) (v : option N) | REnd.

(* hash-agreement observation on the pair (i, j) of the value table of the case:
   ho_raw  = a.SameAs(b) on the values as given,
   ho_same = na.SameAs(nb), ho_heq = (na.hash(h) == nb.hash(h)) where na, nb are the keys as stored by
             orderedMap.set (goja's own normalisation).
   The harness writes one row per i, one code 4*raw + 2*same + heq per j. *)
Record hobs := mkHO { ho_i : nat; ho_j : nat; ho_raw : bool; ho_same : bool; ho_heq : bool }.

Definition decode_obs (i j code : nat) : hobs :=
  mkHO i j (Nat.leb 4 code) (Nat.odd (Nat.div2 code)) (Nat.odd code).

Fixpoint decode_row (i j : nat) (row : list nat) : list hobs :=
  match row with [] => [] | c :: r => decode_obs i j c :: decode_row i (S j) r end.

Fixpoint decode_rows (i : nat) (rows : list (list nat)) : list hobs :=
  match rows with [] => [] | r :: rs => decode_row i 0 r ++ decode_rows (S i) rs end.

(* how the harness writes a value (from VerifRepr and the exported content) *)
Definition JUndef : jsval := VUndef.
Definition JNull : jsval := VNull.
Definition JBool (b : bool) : jsval := VBool b.
Definition JInt (z : Z) : jsval := VNum (M5.NInt z).                   (* valueInt *)
Definition JFlt (bits : Z) : jsval := VNum (M5.NFlt (of_bits bits)).   (* valueFloat, by Float64bits *)
Definition JAsc (bs : list N) : jsval := VStr (M6.SAscii bs).          (* asciiString: bytes *)
Definition JUni (us : list N) : jsval := VStr (M6.SUni us).            (* unicodeString: units after the marker *)
Definition JImp (bs : list N) (scanned : bool) : jsval := VStr (M6.SImp bs scanned).   (* importedString: UTF-8 bytes *)
Definition JSym (id : N) : jsval := VSym id.
Definition JObj (id : N) (host : option N) : jsval := VObj id host.
Definition JBig (z : Z) : jsval := VBig z.

Inductive tcase :=
| mkCase (c_ops : list top) (c_obs : list obs)
(* h_vals: the SameValueZero class of each value (as the harness built it) and its representation as
   reported by VerifRepr, as a [jsval] *)
| mkHash (h_vals : list (N * jsval)) (h_obs : list (list nat)).

Definition opt_match (o : option N) (x : N) : bool :=
  match o with None => true | Some y => N.eqb x y end.

Definition obs_match (o : obs) (r : @out N N) : bool :=
  match o, r with
  | RU, RUnit => true
  | RV None, RVal None => true
  | RV (Some a), RVal (Some b) => N.eqb a b
  | RB a, RBool b => Bool.eqb a b
  | RN a, RNat b => Nat.eqb a b
  | REnt k v, REntry (Some (k', v')) => opt_match k k' && opt_match v v'
  | REnd, REntry None => true
  | _, _ => false
  end.

Fixpoint all_match (os : list obs) (rs : list (@out N N)) : bool :=
  match os, rs with
  | [], [] => true
  | o :: os', r :: rs' => obs_match o r && all_match os' rs'
  | _, _ => false
  end.

Definition run_I (ops : list top) := snd (run (istep tsame tnorm thash) iinit ops).
Definition run_S (ops : list top) := snd (run (sstep tsame tnorm) sinit ops).

(* ---- the hash model, instantiated: an injective stand-in for maphash and for addresses, kept away from the
   64-bit words that number keys hash to, so that "model hashes equal" means "the hash inputs are equal" *)
Definition two64N : N := 18446744073709551616%N.
Definition enc_bytes (l : list N) : N := fold_left (fun acc b => (acc * 257 + (b + 1))%N) l 0%N.
Definition t_mh (l : list N) : N := (two64N + 8 * enc_bytes l)%N.
Definition t_ptr_sym (i : N) : N := (two64N + 8 * i + 1)%N.
Definition t_ptr_obj (i : N) : N := (two64N + 8 * i + 2)%N.
Definition t_host (g : N) : N := (two64N + 8 * g + 4)%N.
Definition t_hash : jsval -> N :=
  goja_hash (two64N + 3) (two64N + 11) (two64N + 19) (two64N + 27) t_mh t_ptr_sym t_ptr_obj t_host.

(* numbers and strings handed out by the runtime must satisfy the representation invariant *)
Definition repr_ok (v : jsval) : bool :=
  match v with VNum _ | VStr _ => key_wf v | _ => true end.

Record hexp := mkHX { x_cls : bool;    (* S on the classes of the harness *)
                      x_spec : bool;   (* S on the denotations: svz_spec *)
                      x_same : bool;   (* I: goja_same after goja_norm *)
                      x_raw : bool;    (* I: goja_same on the values as given *)
                      x_heq : bool;    (* I: the hash inputs coincide *)
                      x_wf : bool }.

Definition hexpect (vals : list (N * jsval)) (o : hobs) : option hexp :=
  match nth_error vals (ho_i o), nth_error vals (ho_j o) with
  | Some (ca, va), Some (cb, vb) =>
      let na := goja_norm va in let nb := goja_norm vb in
      Some (mkHX (svz tsame tnorm ca cb) (svz_spec va vb) (goja_same na nb) (goja_same va vb)
                 (N.eqb (t_hash na) (t_hash nb)) (repr_ok va && repr_ok vb))
  | _, _ => None
  end.

Definition hcheck (vals : list (N * jsval)) (o : hobs) : bool :=
  match hexpect vals o with
  | Some x =>
      x_wf x
      && Bool.eqb (ho_same o) (x_cls x)      (* observed SameValueZero = the oracle, on classes *)
      && Bool.eqb (ho_same o) (x_spec x)     (* ... and on the values' denotations *)
      && Bool.eqb (ho_same o) (x_same x)     (* ... and = the transcription *)
      && Bool.eqb (ho_raw o) (x_raw x)
      && implb (ho_same o) (ho_heq o)        (* hash_respects_svz, observed *)
      && implb (x_heq x) (ho_heq o)          (* equal hash inputs give equal hashes *)
  | None => false
  end.

Definition check_case (c : tcase) : bool :=
  match c with
  | mkCase ops os => all_match os (run_S ops) && all_match os (run_I ops)
  | mkHash vals rows => match decode_rows 0 rows with [] => false | os => forallb (hcheck vals) os end
  end.

Fixpoint mismatch_from (i : N) (cs : list tcase) : list N :=
  match cs with
  | [] => []
  | c :: r => if check_case c then mismatch_from (N.succ i) r else i :: mismatch_from (N.succ i) r
  end.
Definition mismatch_ids := mismatch_from 0%N.

(* for a hash case only the pairs that fail are printed *)
Definition expected (c : tcase) :=
  match c with
  | mkCase ops _ => inl (run_S ops, run_I ops)
  | mkHash vals rows =>
      inr (map (fun o => (ho_i o, ho_j o, hexpect vals o)) (filter (fun o => negb (hcheck vals o)) (decode_rows 0 rows)))
  end.
