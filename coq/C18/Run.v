(* C18 — executable instantiation used by the correspondence check (no proofs). *)
From Coq Require Import List Arith NArith Bool.
Import ListNotations.
From Verif.C18 Require Import Model.

(* keys are SameValue classes: 0 = +0, 1 = -0 (normalised to 0); values are small integers *)
Definition tsame (a b : N) : bool := N.eqb a b.
Definition tnorm (k : N) : N := if N.eqb k 1 then 0%N else k.
Definition thash (k : N) : N := N.modulo k 3.   (* collisions on purpose: chains are exercised *)

Definition top := @op N N.
Notation OSet := (@OSet N N).  Notation OGet := (@OGet N N).  Notation OHas := (@OHas N N).
Notation ODel := (@ODel N N).  Notation OClear := (@OClear N N). Notation ONewIter := (@ONewIter N N).
Notation ONext := (@ONext N N). Notation OSize := (@OSize N N).

(* observation of the implementation; in REnt a [None] part was not exposed by the iterator kind *)
Inductive obs := RU | RV (v : option N) | RB (b : bool) | RN (n : nat)
               | REnt (k : option N) (v : option N) | REnd.

Record tcase := mkCase { c_ops : list top; c_obs : list obs }.

Definition opt_match (o : option N) (x : N) : bool :=
  match o with None => true | Some y => N.eqb x y end.

Definition obs_match (o : obs) (r : @out N N) : bool :=
  match o, r with
  | RU, RUnit => true
  | RV None, RVal None => true
  | RV (Some a), RVal (Some b) => N.eqb a b
  | RB a, RBool b => Bool.eqb a b
  | RN a, RNat b => Nat.eqb a b
  | REnt k v, REntry (Some (k', v')) => opt_match k k' && opt_match v v'
  | REnd, REntry None => true
  | _, _ => false
  end.

Fixpoint all_match (os : list obs) (rs : list (@out N N)) : bool :=
  match os, rs with
  | [], [] => true
  | o :: os', r :: rs' => obs_match o r && all_match os' rs'
  | _, _ => false
  end.

Definition run_I (c : tcase) := snd (run (istep tsame tnorm thash) iinit (c_ops c)).
Definition run_S (c : tcase) := snd (run (sstep tsame tnorm) sinit (c_ops c)).

Definition check_case (c : tcase) : bool :=
  all_match (c_obs c) (run_S c) && all_match (c_obs c) (run_I c).

Fixpoint mismatch_from (i : N) (cs : list tcase) : list N :=
  match cs with
  | [] => []
  | c :: r => if check_case c then mismatch_from (N.succ i) r else i :: mismatch_from (N.succ i) r
  end.
Definition mismatch_ids := mismatch_from 0%N.

Definition expected (c : tcase) := (run_S c, run_I c).
