(* C18 — the concrete instance of the orderedMap model: JS values as keys, goja's REAL SameAs, the
   normalisation of map.go and the hash(hasher) methods, transcribed.  Definitions only; executable.
   Numbers are C05's [jsnum] (valueInt / valueFloat), strings are C06's [jsstr] (asciiString /
   unicodeString / importedString); nothing of those models is copied here. *)
From Coq Require Import List ZArith NArith Bool.
From Verif.Base Require Import F64.
From Verif.C05 Require Model.
From Verif.C06 Require Model.
Import ListNotations.

Module M5 := Verif.C05.Model.
Module M6 := Verif.C06.Model.

(* [VSym id]: id stands for the Go pointer of the Symbol.  [VObj id host]: the PAIR (id, host) stands for the Go
   pointer of the Object (one object wraps one thing: two values with equal id and different host are different
   pointers).
   host = Some g: the object is a wrapper whose objectImpl.equal compares the wrapped Go value g
   (objectGoReflect, objectGoSlice, dynamicObject, taggedTemplateArray; the kind is folded into g);
   host = None: every other object (baseObject.equal returns false; also a wrapper of a value of an uncomparable
   Go type: since dd55fb8 its equal is false and hashIdentity declines, so it behaves as an ordinary object). *)
Inductive jsval :=
| VUndef | VNull | VBool (b : bool) | VNum (n : M5.jsnum) | VStr (s : M6.jsstr)
| VSym (id : N) | VObj (id : N) (host : option N) | VBig (z : Z).

(* goja's representation invariants: numbers canonical (C05) with a valid binary64 payload, strings in
   normal form (C06) *)
Definition key_wf (v : jsval) : bool :=
  match v with
  | VNum n => M5.canon n && M5.wf n
  | VStr s => M6.nf s
  | _ => true
  end.

(* map.go lookup/set: "if key == _negativeZero { key = intToValue(0) }".  The comparison is Go's interface ==
   against valueFloat(-0): it holds for every valueFloat zero and for nothing else (C05 [norm_zero]). *)
Definition goja_norm (v : jsval) : jsval :=
  match v with VNum n => VNum (M5.norm_zero n) | _ => v end.

Definition host_eq (h g : option N) : bool :=
  match h, g with Some x, Some y => N.eqb x y | _, _ => false end.
Definition opt_eqb (h g : option N) : bool :=
  match h, g with Some x, Some y => N.eqb x y | None, None => true | _, _ => false end.
(* "o == other || o.self.equal(other.self)" *)
Definition obj_same (i : N) (h : option N) (j : N) (g : option N) : bool :=
  (N.eqb i j && opt_eqb h g) || host_eq h g.

(* Value.SameAs, receiver first.
   valueUndefined/valueNull: type assertion on the other side (value.go:403, 439);
   valueBool: same type and b == other (value.go:316);
   valueInt/valueFloat: C05 [sameAs] (value.go:215, 618);
   strings: SameAs = StrictEquals, C06 [same_as] (string_ascii.go:288, string_unicode.go:429, string_imported.go:116);
   *Symbol: pointer equality (value.go:1097);
   *Object: SameAs = StrictEquals = "o == other || o.self.equal(other.self)" (value.go:734, 753);
   *valueBigInt: Cmp == 0 (builtin_bigint.go:55).
   Different dynamic types: false. *)
Definition goja_same (a b : jsval) : bool :=
  match a, b with
  | VUndef, VUndef => true
  | VNull, VNull => true
  | VBool x, VBool y => Bool.eqb x y
  | VNum x, VNum y => M5.sameAs x y
  | VStr x, VStr y => M6.same_as x y
  | VSym i, VSym j => N.eqb i j
  | VObj i h, VObj j g => obj_same i h j g
  | VBig x, VBig y => Z.eqb x y
  | _, _ => false
  end.

(* big.Int.Bytes(): big-endian bytes of the absolute value, no leading zero byte *)
Fixpoint be_loop (fuel : nat) (n : N) (acc : list N) : list N :=
  match fuel with
  | O => acc
  | S f => if N.eqb n 0 then acc else be_loop f (N.div n 256) (N.modulo n 256 :: acc)
  end.
Definition be_bytes (n : N) : list N := be_loop (S (N.to_nat (N.size n))) n [].

Section Hash.
(* value.go:20: four package-level words drawn once from the package hasher *)
Variables hashTrue hashFalse hashNull hashUndef : N.
(* maphash with the seed of this map's hasher: Write(bytes); Sum64(); Reset() *)
Variable mh : list N -> N.
(* uint64(uintptr(unsafe.Pointer(p))) of a *Symbol / an *Object *)
Variables ptr_sym ptr_obj : N -> N.
(* what hashIdentity returns for the thing a wrapper wraps (813b109): the address of the struct / array / slice /
   template site, or maphash.Comparable of the value; fixed at first use *)
Variable host_hash : N -> N.

(* key.hash(m.hash):
   valueInt -> uint64(i); valueFloat -> 0 if it is a zero, else Float64bits (C05 [hash_words], value.go:261, 691);
   valueBool/Null/Undefined -> the package-level words (value.go:355, 417, 469);
   strings -> maphash of the bytes C06 calls [hash_bytes] (string_ascii.go:349, string_unicode.go:776,
              string_imported.go:171);
   *Symbol -> the pointer (value.go:1128); the hasher is not used, it may be nil;
   *Object -> hashIdentity of what it wraps if its objectImpl has one, else the pointer (value.go:800);
   *valueBigInt -> maphash of a sign byte followed by Bytes() (builtin_bigint.go:111). *)
Definition goja_hash (v : jsval) : N :=
  match v with
  | VUndef => hashUndef
  | VNull => hashNull
  | VBool b => if b then hashTrue else hashFalse
  | VNum n => Z.to_N (M5.hash_words n)
  | VStr s => mh (M6.hash_bytes s)
  | VSym i => ptr_sym i
  | VObj i h => match h with Some g => host_hash g | None => ptr_obj i end
  | VBig z => mh ((if Z.ltb z 0 then 1%N else 0%N) :: be_bytes (Z.abs_N z))
  end.
End Hash.

(* ECMAScript SameValueZero on the denotation of the values: numbers by mathematical value (C05 [num_sem]),
   strings by their UTF-16 units (C06 [units]), symbols and objects by identity, BigInts by value.
   Object identity as scripts can tell it (===, Object.is): the same Object, or two wrappers of one Go value,
   which goja presents as one object. *)
Definition svz_spec (a b : jsval) : bool :=
  match a, b with
  | VUndef, VUndef => true
  | VNull, VNull => true
  | VBool x, VBool y => Bool.eqb x y
  | VNum x, VNum y => M5.same_value_zero_spec (M5.num_sem x) (M5.num_sem y)
  | VStr x, VStr y => M6.list_eqb (M6.units x) (M6.units y)
  | VSym i, VSym j => N.eqb i j
  | VObj i h, VObj j g => obj_same i h j g
  | VBig x, VBig y => Z.eqb x y
  | _, _ => false
  end.

(* ---- the symbol-property table of baseObject (object.go: symValues = newOrderedMap(nil)) ----------------
   keys are *Symbol; lookup's "key == _negativeZero" is false for a *Symbol, so norm is the identity;
   SameAs is pointer equality; Symbol.hash ignores its (nil) hasher argument and returns the pointer. *)
Definition sym_same (a b : N) : bool := N.eqb a b.
Definition sym_norm (a : N) : N := a.
