(* C18 — goja's REAL hash and SameAs satisfy the hypotheses of [om_refines] on well-formed JS values.
   Imports (does not copy) C05 (numbers) and C06 (strings).  No axioms. *)
From Coq Require Import List Arith ZArith NArith Bool Lia Eqdep_dec.
Import ListNotations.
From Verif.Base Require Import F64.
From Verif.C05 Require Proofs3.
From Verif.C06 Require Proofs Proofs3.
From Verif.C18 Require Import Model HashModel.
From Verif.C18 Require Proofs Transfer.

Module P5 := Verif.C05.Proofs3.
Module P6 := Verif.C06.Proofs3.
Module PM := Verif.C18.Proofs.

(* ================================================================== *)
(* 1. the hash respects SameAs on well-formed keys                      *)

Lemma norm_wf : forall a, key_wf a = true -> key_wf (goja_norm a) = true.
Proof.
  intros [| |b|n|s|i|i h|z] Hw; try exact Hw.
  destruct n as [x|f]; [exact Hw|].
  unfold goja_norm, M5.norm_zero. destruct (is_zero f); [reflexivity|exact Hw].
Qed.

Lemma norm_idem : forall a, goja_norm (goja_norm a) = goja_norm a.
Proof.
  intros [| |b|n|s|i|i h|z]; try reflexivity.
  destruct n as [x|f]; [reflexivity|].
  unfold goja_norm, M5.norm_zero. destruct (is_zero f) eqn:Ez; [reflexivity|]. rewrite Ez. reflexivity.
Qed.

Section WithHash.
Variables hashTrue hashFalse hashNull hashUndef : N.
Variable mh : list N -> N.
Variables ptr_sym ptr_obj host_hash : N -> N.

Local Notation goja_hash := (goja_hash hashTrue hashFalse hashNull hashUndef mh ptr_sym ptr_obj host_hash).

(* stronger than asked: no normalisation needed *)
Lemma hash_respects_same : forall a b, key_wf a = true -> key_wf b = true ->
  goja_same a b = true -> goja_hash a = goja_hash b.
Proof.
  intros [| |x|x|x|i|i h|x] [| |y|y|y|j|j g|y] Wa Wb Hs; simpl in *; try discriminate; try reflexivity.
  - apply eqb_prop in Hs. subst; reflexivity.
  - apply andb_true_iff in Wa. apply andb_true_iff in Wb.
    apply (P5.sameAs_iff_eq x y (proj1 Wa) (proj1 Wb)) in Hs. subst; reflexivity.
  - destruct (P6.T_eq_hash_key_agree x y Wa Wb) as (_ & Q2 & _ & _ & Q5 & _).
    f_equal. apply Q5. apply Q2. exact Hs.
  - apply N.eqb_eq in Hs. subst; reflexivity.
  - unfold obj_same in Hs. destruct h as [x|]; destruct g as [y|]; simpl in Hs;
      rewrite ?andb_false_r, ?orb_false_r, ?andb_true_r in Hs; try discriminate.
    + assert (E : N.eqb x y = true) by (destruct (N.eqb x y); [reflexivity|rewrite andb_false_r in Hs; exact Hs]).
      apply N.eqb_eq in E. subst; reflexivity.
    + apply N.eqb_eq in Hs. subst; reflexivity.
  - apply Z.eqb_eq in Hs. subst; reflexivity.
Qed.

Lemma hash_respects_svz : forall a b, key_wf a = true -> key_wf b = true ->
  goja_same (goja_norm a) (goja_norm b) = true -> goja_hash (goja_norm a) = goja_hash (goja_norm b).
Proof.
  intros a b Wa Wb. apply hash_respects_same; apply norm_wf; assumption.
Qed.

(* the same conclusion for the hashes of the keys as given (this is where the "zero hashes to 0" branch of
   valueFloat.hash matters); the number case is C05's theorem *)
Lemma hash_respects_svz_raw : forall a b, key_wf a = true -> key_wf b = true ->
  goja_same (goja_norm a) (goja_norm b) = true -> goja_hash a = goja_hash b.
Proof.
  intros a b Wa Wb Hs.
  destruct a as [| |x|x|x|i|i h|x]; destruct b as [| |y|y|y|j|j g|y];
    try (exact (hash_respects_same _ _ Wa Wb Hs)); try (simpl in Hs; discriminate).
  simpl in *. apply andb_true_iff in Wa. apply andb_true_iff in Wb.
  f_equal. apply (P5.hash_respects_svz_num x y (proj1 Wa) (proj1 Wb)). exact Hs.
Qed.

(* why [key_wf] is there.  (a) a non-canonical number: the float 1.0 stored as valueFloat is SameAs the
   valueInt 1 (valueFloat.SameAs compares the float values) but hashes to its bit pattern *)
Lemma hash_respects_refuted_noncanonical :
  let a := VNum (M5.NFlt M5.fone) in let b := VNum (M5.NInt 1) in
  key_wf a = false /\ key_wf b = true /\
  goja_same (goja_norm a) (goja_norm b) = true /\
  goja_hash (goja_norm a) = 4607182418800017408%N /\ goja_hash (goja_norm b) = 1%N /\
  goja_hash (goja_norm a) <> goja_hash (goja_norm b).
Proof. vm_compute. repeat split; try reflexivity. discriminate. Qed.

(* (b) two wrapper objects around one Go value (distinct addresses) are SameAs through objectImpl.equal; since
   813b109 they hash by what they wrap (was open finding C18-H1: the hash was the wrapper's address) *)
Lemma hostwrapper_same_hash :
  let a := VObj 1 (Some 7%N) in let b := VObj 2 (Some 7%N) in let c := VObj 1 None in
  key_wf a = true /\ key_wf b = true /\ a <> b /\ goja_same (goja_norm a) (goja_norm b) = true /\
  goja_hash (goja_norm a) = goja_hash (goja_norm b) /\ goja_same a c = false.
Proof. repeat split; discriminate. Qed.

(* ================================================================== *)
(* 2. [om_refines] at the well-formed JS values                         *)

Definition wfkey := { k : jsval | key_wf k = true }.
Definition kval (k : wfkey) : jsval := proj1_sig k.
Definition wf_same (a b : wfkey) : bool := goja_same (kval a) (kval b).
Definition wf_norm (a : wfkey) : wfkey := exist _ (goja_norm (kval a)) (norm_wf _ (proj2_sig a)).
Definition wf_hash (a : wfkey) : N := goja_hash (kval a).

Lemma wfkey_ext : forall a b : wfkey, kval a = kval b -> a = b.
Proof.
  intros [a Ha] [b Hb] E. simpl in E. subst b. f_equal.
  apply (UIP_dec bool_dec).
Qed.

Lemma wf_norm_idem : forall k, wf_norm (wf_norm k) = wf_norm k.
Proof. intros k. apply wfkey_ext. simpl. apply norm_idem. Qed.

Lemma wf_hash_respects : forall a b, wf_same a b = true -> wf_hash a = wf_hash b.
Proof. intros [a Ha] [b Hb]. apply hash_respects_same; assumption. Qed.

Lemma om_refines_js : forall (V : Type) (ops : list (@op wfkey V)),
  snd (run (istep wf_same wf_norm wf_hash) iinit ops) = snd (run (sstep wf_same wf_norm) sinit ops).
Proof. intros V. exact (PM.om_refines wf_same wf_norm wf_hash wf_hash_respects wf_norm_idem). Qed.

Lemma om_size_live_js : forall (V : Type) (ops : list (@op wfkey V)),
  let m := fst (fst (run (istep wf_same wf_norm wf_hash) iinit ops)) in
  size m = length (filter (fun e => match ekey e with Some _ => true | None => false end) (ents m)).
Proof. intros V. exact (PM.om_size_live wf_same wf_norm wf_hash wf_hash_respects wf_norm_idem). Qed.

End WithHash.

(* ================================================================== *)
(* 3. SameAs after normalisation IS SameValueZero on well-formed keys   *)

Lemma bool_eq_iff : forall a b : bool, (a = true <-> b = true) -> a = b.
Proof. intros [|] [|] [H1 H2]; auto. symmetry; auto. Qed.

Lemma goja_same_is_svz : forall a b, key_wf a = true -> key_wf b = true ->
  goja_same (goja_norm a) (goja_norm b) = svz_spec a b.
Proof.
  intros [| |x|x|x|i|i h|x] [| |y|y|y|j|j g|y] Wa Wb; simpl in *; try reflexivity.
  - apply andb_true_iff in Wa. apply andb_true_iff in Wb.
    exact (proj2 (P5.sameValueZero_sound x y (proj1 Wa) (proj1 Wb) (proj2 Wa) (proj2 Wb))).
  - destruct (P6.T_eq_hash_key_agree x y Wa Wb) as (_ & Q2 & _).
    apply bool_eq_iff. rewrite Q2. symmetry. apply Verif.C06.Proofs.list_eqb_eq.
Qed.

(* SameValueZero as computed by goja is an equivalence on well-formed keys (needed by [sdata_keys_unique]):
   SameAs is equality of denotations *)
Inductive kden := DUndef | DNull | DBool (b : bool) | DNum (n : M5.jsnum) | DStr (u : list N)
                | DSym (i : N) | DObj (i : N) | DHost (g : N) | DBig (z : Z).
Definition den (v : jsval) : kden :=
  match v with
  | VUndef => DUndef | VNull => DNull | VBool b => DBool b | VNum n => DNum n | VStr s => DStr (M6.units s)
  | VSym i => DSym i | VObj i None => DObj i | VObj _ (Some g) => DHost g | VBig z => DBig z
  end.

Lemma same_iff_den : forall a b, key_wf a = true -> key_wf b = true ->
  (goja_same a b = true <-> den a = den b).
Proof.
  intros [| |x|x|x|i|i h|x] [| |y|y|y|j|j g|y] Wa Wb; simpl in *;
    try (split; [discriminate|]; try destruct h; try destruct g; discriminate);
    try (split; reflexivity).
  - split; [intros E; apply eqb_prop in E; subst; reflexivity|intros E; inversion E; apply eqb_reflx].
  - apply andb_true_iff in Wa. apply andb_true_iff in Wb.
    rewrite (P5.sameAs_iff_eq x y (proj1 Wa) (proj1 Wb)). split; [intros; subst; reflexivity|intros E; inversion E; reflexivity].
  - destruct (P6.T_eq_hash_key_agree x y Wa Wb) as (_ & Q2 & _). rewrite Q2.
    split; [intros E; rewrite E; reflexivity|intros E; inversion E; reflexivity].
  - rewrite N.eqb_eq. split; [intros; subst; reflexivity|intros E; inversion E; reflexivity].
  - unfold obj_same. destruct h as [x|]; destruct g as [y|]; simpl;
      rewrite ?andb_false_r, ?orb_false_r, ?andb_true_r; try (split; discriminate).
    + destruct (N.eqb x y) eqn:E; rewrite ?andb_true_r, ?andb_false_r, ?orb_true_r, ?orb_false_r.
      * apply N.eqb_eq in E. subst. split; reflexivity.
      * apply N.eqb_neq in E. split; [discriminate|intros E'; inversion E'; contradiction].
    + rewrite N.eqb_eq. split; [intros; subst; reflexivity|intros E; inversion E; reflexivity].
  - rewrite Z.eqb_eq. split; [intros; subst; reflexivity|intros E; inversion E; reflexivity].
Qed.

Lemma wf_same_equiv :
  (forall a : wfkey, wf_same a a = true) /\
  (forall a b : wfkey, wf_same a b = true -> wf_same b a = true) /\
  (forall a b c : wfkey, wf_same a b = true -> wf_same b c = true -> wf_same a c = true).
Proof.
  split; [|split].
  - intros [a Ha]. apply (same_iff_den a a Ha Ha). reflexivity.
  - intros [a Ha] [b Hb] E. apply (same_iff_den a b Ha Hb) in E. apply (same_iff_den b a Hb Ha). symmetry; exact E.
  - intros [a Ha] [b Hb] [c Hc] E1 E2. apply (same_iff_den a b Ha Hb) in E1. apply (same_iff_den b c Hb Hc) in E2.
    apply (same_iff_den a c Ha Hc). congruence.
Qed.

Section WfkeyFunctions.
Variables hashTrue hashFalse hashNull hashUndef : N.
Variable mh : list N -> N.
Variables ptr_sym ptr_obj host_hash : N -> N.
Lemma wfkey_functions : forall a b : wfkey,
  wf_same a b = goja_same (proj1_sig a) (proj1_sig b) /\
  proj1_sig (wf_norm a) = goja_norm (proj1_sig a) /\
  wf_hash hashTrue hashFalse hashNull hashUndef mh ptr_sym ptr_obj host_hash a =
    goja_hash hashTrue hashFalse hashNull hashUndef mh ptr_sym ptr_obj host_hash (proj1_sig a) /\
  svz wf_same wf_norm a b = svz_spec (proj1_sig a) (proj1_sig b).
Proof.
  intros a b. repeat split. exact (goja_same_is_svz _ _ (proj2_sig a) (proj2_sig b)).
Qed.
End WfkeyFunctions.

(* ================================================================== *)
(* 4. a fresh iterator, drained, lists the live entries in [[MapData]] order *)

Section Drain.
Context {K V : Type} (same : K -> K -> bool) (norm : K -> K) (H : K -> N).
Hypothesis H_respects : forall a b, same a b = true -> H a = H b.
Hypothesis norm_idem' : forall k, norm (norm k) = norm k.
Local Notation sstep := (@sstep K V same norm).
Local Notation istep := (@istep K V same norm H).
Local Notation sdata := (@sdata K V).

(* the entries that are present, in position (= insertion) order *)
Definition live (d : sdata) : list (K * V) :=
  flat_map (fun x => match x with Some kv => [kv] | None => [] end) d.

Lemma snext_live_some : forall (d : sdata) i j kv, snext_from d i = Some (j, kv) ->
  live (skipn i d) = kv :: live (skipn (S j) d).
Proof.
  induction d as [|y r IH]; intros i j kv Hs; simpl in Hs; [discriminate|].
  destruct i as [|i'].
  - destruct y as [kv0|].
    + inversion Hs; subst. reflexivity.
    + destruct (snext_from r 0) as [[j' kv']|] eqn:E; simpl in Hs; [|discriminate].
      inversion Hs; subst. exact (IH 0 _ _ E).
  - destruct (snext_from r i') as [[j' kv']|] eqn:E; simpl in Hs; [|discriminate].
    inversion Hs; subst. exact (IH _ _ _ E).
Qed.

Lemma snext_live_none : forall (d : sdata) i, snext_from d i = None -> live (skipn i d) = [].
Proof.
  induction d as [|y r IH]; intros i Hs; [destruct i; reflexivity|]. simpl in Hs.
  destruct i as [|i'].
  - destruct y as [kv0|]; [discriminate|].
    destruct (snext_from r 0) as [[j' kv']|] eqn:E; simpl in Hs; [discriminate|]. exact (IH 0 E).
  - destruct (snext_from r i') as [[j' kv']|] eqn:E; simpl in Hs; [discriminate|]. exact (IH _ E).
Qed.

Lemma run_snd_cons : forall {S} (step : S -> op -> S * out) s o (r : list (@op K V)),
  snd (run step s (o :: r)) = snd (step s o) :: snd (run step (fst (step s o)) r).
Proof. intros S step s o r. simpl. destruct (step s o) as [s1 x]. simpl. destruct (run step s1 r). reflexivity. Qed.

Lemma run_fst_cons : forall {S} (step : S -> op -> S * out) s o (r : list (@op K V)),
  fst (run step s (o :: r)) = fst (run step (fst (step s o)) r).
Proof. intros S step s o r. simpl. destruct (step s o) as [s1 x]. simpl. destruct (run step s1 r). reflexivity. Qed.

Lemma run_snd_app : forall {S} (step : S -> op -> S * out) (a b : list (@op K V)) s,
  snd (run step s (a ++ b)) = snd (run step s a) ++ snd (run step (fst (run step s a)) b).
Proof.
  intros S step a b. induction a as [|o r IH]; intros s; [reflexivity|].
  rewrite <- app_comm_cons, !run_snd_cons, run_fst_cons, IH. reflexivity.
Qed.

Lemma run_snd_length : forall {S} (step : S -> op -> S * out) (a : list (@op K V)) s,
  length (snd (run step s a)) = length a.
Proof.
  intros S step a. induction a as [|o r IH]; intros s; [reflexivity|].
  rewrite run_snd_cons. simpl. rewrite IH. reflexivity.
Qed.

Lemma sstep_next : forall (d : sdata) its n it, nth_error its n = Some it ->
  sstep (d, its) (ONext n) =
  ((d, upd n (fun _ => fst (siter_next d it)) its), REntry (snd (siter_next d it))).
Proof. intros d its n it Hn. simpl. rewrite Hn. destruct (siter_next d it). reflexivity. Qed.

Lemma nth_upd_same : forall {A} (l : list A) n x y, nth_error l n = Some x ->
  nth_error (upd n (fun _ => y) l) n = Some y.
Proof. intros A l n x y Hn. rewrite PM.nth_error_upd, Nat.eqb_refl, Hn. reflexivity. Qed.

Lemma drain_done : forall k (d : sdata) its n it, nth_error its n = Some it -> sdone it = true ->
  snd (run sstep (d, its) (repeat (ONext n) k)) = repeat (REntry None) k.
Proof.
  induction k as [|k IH]; intros d its n it Hn Hd; [reflexivity|].
  change (repeat (ONext n) (S k)) with (@ONext K V n :: repeat (ONext n) k).
  rewrite run_snd_cons, (sstep_next _ _ _ _ Hn), (PM.siter_done_stays d it Hd). cbn [fst snd].
  rewrite (IH d _ n it (nth_upd_same _ _ _ _ Hn) Hd). reflexivity.
Qed.

Lemma drain_live : forall k (d : sdata) its n it, nth_error its n = Some it -> sdone it = false ->
  let L := live (skipn (sidx it) d) in
  snd (run sstep (d, its) (repeat (ONext n) k)) =
  map (fun kv => REntry (Some kv)) (firstn k L) ++ repeat (REntry None) (k - length L).
Proof.
  induction k as [|k IH]; intros d its n it Hn Hd L; [reflexivity|].
  change (repeat (ONext n) (S k)) with (@ONext K V n :: repeat (ONext n) k).
  rewrite run_snd_cons, (sstep_next _ _ _ _ Hn). unfold L, siter_next. rewrite Hd.
  destruct (snext_from d (sidx it)) as [[j kv]|] eqn:E.
  - rewrite (snext_live_some _ _ _ _ E). cbn [fst snd].
    rewrite (IH d _ n (mkSI false (S j)) (nth_upd_same _ _ _ _ Hn) eq_refl). reflexivity.
  - rewrite (snext_live_none _ _ E). cbn [fst snd].
    rewrite (drain_done k d _ n (mkSI true 0) (nth_upd_same _ _ _ _ Hn) eq_refl). reflexivity.
Qed.

Lemma skipn_length_app : forall {A} (x y : list A), skipn (length x) (x ++ y) = y.
Proof. intros A x y. induction x; [reflexivity|exact IHx]. Qed.

(* goja's side: after ANY history, "newIter(); for { e := next(); if e == nil break; ... }" (k calls of next)
   returns the entries present in [[MapData]], in position order, then nil for ever *)
Lemma fresh_iter_lists_live : forall (ops : list (@op K V)) k,
  let d := fst (fst (run sstep sinit ops)) in
  let n := length (snd (fst (run sstep sinit ops))) in
  skipn (length ops) (snd (run istep iinit (ops ++ ONewIter :: repeat (ONext n) k))) =
  RNat n :: map (fun kv => REntry (Some kv)) (firstn k (live d)) ++ repeat (REntry None) (k - length (live d)).
Proof.
  intros ops k d n.
  rewrite (PM.om_refines same norm H H_respects norm_idem').
  rewrite run_snd_app. rewrite <- (run_snd_length sstep ops sinit) at 1. rewrite skipn_length_app.
  unfold d, n. destruct (fst (run sstep sinit ops)) as [d0 its]. cbn [fst snd].
  rewrite run_snd_cons. cbn [fst snd]. f_equal.
  assert (Hn : nth_error (its ++ [mkSI false 0]) (length its) = Some (mkSI false 0)).
  { rewrite nth_error_app2 by lia. rewrite Nat.sub_diag. reflexivity. }
  exact (drain_live k d0 _ _ _ Hn eq_refl).
Qed.

End Drain.

(* ================================================================== *)
(* 5. the symbol-property table is the same structure                   *)

Section SymTab.
Variable ptr_sym : N -> N.     (* the address of the Symbol; the hasher passed to hash() is nil and unused *)
Context {V : Type}.

Lemma sym_hash_respects : forall a b, sym_same a b = true -> ptr_sym a = ptr_sym b.
Proof. intros a b E. apply N.eqb_eq in E. subst; reflexivity. Qed.

Lemma symtab_same_structure : forall ops : list (@op N V),
  snd (run (istep sym_same sym_norm ptr_sym) iinit ops) = snd (run (sstep sym_same sym_norm) sinit ops).
Proof. exact (PM.om_refines sym_same sym_norm ptr_sym sym_hash_respects (fun k => eq_refl)). Qed.

(* on symbols SameValueZero is identity *)
Lemma symtab_svz_is_identity : forall a b, svz sym_same sym_norm a b = true <-> a = b.
Proof. intros a b. unfold svz, sym_same, sym_norm. apply N.eqb_eq. Qed.

(* baseObject.symbols(all=true) (Reflect.ownKeys, Object.getOwnPropertySymbols): a fresh iterator drained *)
Lemma symtab_ownkeys_order : forall (ops : list (@op N V)) k,
  let d := fst (fst (run (sstep sym_same sym_norm) sinit ops)) in
  let n := length (snd (fst (run (sstep sym_same sym_norm) sinit ops))) in
  skipn (length ops) (snd (run (istep sym_same sym_norm ptr_sym) iinit (ops ++ ONewIter :: repeat (ONext n) k))) =
  RNat n :: map (fun kv => REntry (Some kv)) (firstn k (live d)) ++ repeat (REntry None) (k - length (live d)).
Proof. exact (fresh_iter_lists_live sym_same sym_norm ptr_sym sym_hash_respects (fun k => eq_refl)). Qed.

End SymTab.

(* the same for Map/Set over JS values: [...map] is the live part of [[MapData]] in insertion order *)
Section JsOrder.
Variables hashTrue hashFalse hashNull hashUndef : N.
Variable mh : list N -> N.
Variables ptr_sym ptr_obj host_hash : N -> N.
Local Notation wf_hash := (wf_hash hashTrue hashFalse hashNull hashUndef mh ptr_sym ptr_obj host_hash).

Lemma map_iteration_order_js : forall (V : Type) (ops : list (@op wfkey V)) k,
  let d := fst (fst (run (sstep wf_same wf_norm) sinit ops)) in
  let n := length (snd (fst (run (sstep wf_same wf_norm) sinit ops))) in
  skipn (length ops) (snd (run (istep wf_same wf_norm wf_hash) iinit (ops ++ ONewIter :: repeat (ONext n) k))) =
  RNat n :: map (fun kv => REntry (Some kv)) (firstn k (live d)) ++ repeat (REntry None) (k - length (live d)).
Proof.
  intros V.
  exact (fresh_iter_lists_live wf_same wf_norm wf_hash
           (wf_hash_respects hashTrue hashFalse hashNull hashUndef mh ptr_sym ptr_obj host_hash) wf_norm_idem).
Qed.
End JsOrder.

(* ================================================================== *)
(* 6. the same over plain JS values: histories all of whose keys are well-formed *)

Definition op_wf {V : Type} (o : @op jsval V) : Prop :=
  match o with
  | OSet k _ | OGet k | OHas k | ODel k => key_wf k = true
  | _ => True
  end.

Lemma lift_ops : forall {V : Type} (ops : list (@op jsval V)), Forall op_wf ops ->
  exists ops' : list (@op wfkey V), ops = map (Transfer.mop kval) ops'.
Proof.
  intros V ops Hw. induction Hw as [|o r Ho _ IH]; [exists []; reflexivity|].
  destruct IH as [r' Er]. subst r.
  destruct o as [k v|k|k|k| | |n|]; simpl in Ho.
  - exists (OSet (exist _ k Ho) v :: r'). reflexivity.
  - exists (OGet (exist _ k Ho) :: r'). reflexivity.
  - exists (OHas (exist _ k Ho) :: r'). reflexivity.
  - exists (ODel (exist _ k Ho) :: r'). reflexivity.
  - exists (OClear :: r'). reflexivity.
  - exists (ONewIter :: r'). reflexivity.
  - exists (ONext n :: r'). reflexivity.
  - exists (OSize :: r'). reflexivity.
Qed.

Section Raw.
Variables hashTrue hashFalse hashNull hashUndef : N.
Variable mh : list N -> N.
Variables ptr_sym ptr_obj host_hash : N -> N.
Local Notation goja_hash := (goja_hash hashTrue hashFalse hashNull hashUndef mh ptr_sym ptr_obj host_hash).
Local Notation wf_hash := (wf_hash hashTrue hashFalse hashNull hashUndef mh ptr_sym ptr_obj host_hash).

Lemma om_refines_js_raw : forall (V : Type) (ops : list (@op jsval V)), Forall op_wf ops ->
  snd (run (istep goja_same goja_norm goja_hash) iinit ops) = snd (run (sstep goja_same goja_norm) sinit ops).
Proof.
  intros V ops Hw. destruct (lift_ops ops Hw) as [ops' E]. subst ops.
  exact (Transfer.refines_image kval wf_same wf_norm wf_hash goja_same goja_norm goja_hash
           (fun a b => eq_refl) (fun a => eq_refl) (fun a => eq_refl)
           (om_refines_js hashTrue hashFalse hashNull hashUndef mh ptr_sym ptr_obj host_hash V) ops').
Qed.
End Raw.
