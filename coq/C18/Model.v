(* C18 — orderedMap (map.go) transcribed, and the specification's [[MapData]] list.
   Definitions only; executable; no proofs in this file. *)
From Coq Require Import List Arith NArith Bool.
Import ListNotations.

Section OM.
Context {K V : Type}.
Variable same : K -> K -> bool.   (* Value.SameAs on stored keys (SameValue) *)
Variable norm : K -> K.           (* "if key == _negativeZero { key = intToValue(0) }" *)
Variable H : K -> N.              (* key.hash(m.hash) *)

(* ------------------------------------------------------------------ *)
(* I: the implementation-shaped model.  Entries are identified by their
   allocation number (index in [ents]); pointers are [option nat].      *)

Record entry := mkE { ekey : option K; evalue : option V;
                      eprev : option nat; enext : option nat }.

(* hashTable : map[uint64]*mapEntry with hNext chains.  A chain is modelled
   as the list of entry ids in chain order (head first). *)
Record omap := mkM { ents : list entry; buckets : list (N * list nat);
                     first : option nat; last : option nat; size : nat }.

Definition empty : omap := mkM [] [] None None 0.

Fixpoint upd {A} (i : nat) (f : A -> A) (l : list A) : list A :=
  match l, i with
  | [], _ => []
  | x :: r, O => f x :: r
  | x :: r, S j => x :: upd j f r
  end.

Definition getE (m : omap) (i : nat) : option entry := nth_error (ents m) i.

Fixpoint bget (h : N) (bs : list (N * list nat)) : list nat :=
  match bs with
  | [] => []
  | (h', c) :: r => if N.eqb h h' then c else bget h r
  end.

Fixpoint bdel (h : N) (bs : list (N * list nat)) : list (N * list nat) :=
  match bs with
  | [] => []
  | (h', c) :: r => if N.eqb h h' then bdel h r else (h', c) :: bdel h r
  end.

(* an empty chain is "delete(m.hashTable, h)" *)
Definition bset (h : N) (c : list nat) (bs : list (N * list nat)) :=
  match c with [] => bdel h bs | _ => (h, c) :: bdel h bs end.

Definition key_matches (m : omap) (k : K) (i : nat) : bool :=
  match getE m i with
  | Some e => match ekey e with Some k' => same k' k | None => false end
  | None => false
  end.

(* lookup: returns the hash and the entry found in the chain, if any *)
Definition lookup (m : omap) (k : K) : N * option nat :=
  let k' := norm k in
  let h := H k' in
  (h, find (key_matches m k') (bget h (buckets m))).

Definition set_next (nx : option nat) (e : entry) := mkE (ekey e) (evalue e) (eprev e) nx.
Definition set_prev (pv : option nat) (e : entry) := mkE (ekey e) (evalue e) pv (enext e).
Definition set_val (v : option V) (e : entry) := mkE (ekey e) v (eprev e) (enext e).
Definition kill (e : entry) := mkE None None (eprev e) (enext e).

Definition oset (m : omap) (k : K) (v : V) : omap :=
  match lookup m k with
  | (_, Some i) => mkM (upd i (set_val (Some v)) (ents m)) (buckets m) (first m) (last m) (size m)
  | (h, None) =>
      let n := length (ents m) in
      let e := mkE (Some (norm k)) (Some v) (last m) None in
      let bs := bset h (bget h (buckets m) ++ [n]) (buckets m) in
      match last m with
      | Some l => mkM (upd l (set_next (Some n)) (ents m) ++ [e]) bs (first m) (Some n) (S (size m))
      | None => mkM (ents m ++ [e]) bs (Some n) (Some n) (S (size m))
      end
  end.

Definition oget (m : omap) (k : K) : option V :=
  match lookup m k with
  | (_, Some i) => match getE m i with Some e => evalue e | None => None end
  | _ => None
  end.

Definition ohas (m : omap) (k : K) : bool :=
  match lookup m k with (_, Some _) => true | _ => false end.

Definition remove_id (i : nat) (c : list nat) := filter (fun j => negb (Nat.eqb j i)) c.

Definition oremove (m : omap) (k : K) : omap * bool :=
  match lookup m k with
  | (h, Some i) =>
      match getE m i with
      | Some e =>
          let es := upd i kill (ents m) in
          let '(es, fst) := match eprev e with
                            | Some p => (upd p (set_next (enext e)) es, first m)
                            | None => (es, enext e) end in
          let '(es, lst) := match enext e with
                            | Some nx => (upd nx (set_prev (eprev e)) es, last m)
                            | None => (es, eprev e) end in
          (mkM es (bset h (remove_id i (bget h (buckets m))) (buckets m)) fst lst (pred (size m)), true)
      | None => (m, false)
      end
  | _ => (m, false)
  end.

(* clear(): for item := iterFirst; item != nil; item = item.iterNext { kill; prev.next = nil } *)
Fixpoint clear_loop (fuel : nat) (item : option nat) (es : list entry) : list entry :=
  match fuel, item with
  | S f, Some i =>
      match nth_error es i with
      | Some e =>
          let es1 := upd i kill es in
          let es2 := match eprev e with Some p => upd p (set_next None) es1 | None => es1 end in
          clear_loop f (enext e) es2
      | None => es
      end
  | _, _ => es
  end.

Definition oclear (m : omap) : omap :=
  mkM (clear_loop (length (ents m)) (first m) (ents m)) [] None None 0.

(* iterators: {m *orderedMap; cur *mapEntry}; closed <=> m == nil *)
Record iter := mkI { closed : bool; cur : option nat }.

Fixpoint walk_back (fuel : nat) (es : list entry) (c : option nat) : option nat :=
  match fuel, c with
  | S f, Some i =>
      match nth_error es i with
      | Some e => match ekey e with
                  | None => walk_back f es (eprev e)
                  | Some _ => Some i
                  end
      | None => None
      end
  | _, _ => c
  end.

Definition iter_next (m : omap) (it : iter) : iter * option nat :=
  if closed it then (it, None) else
  let c := walk_back (S (length (ents m))) (ents m) (cur it) in
  let nx := match c with
            | Some i => match getE m i with Some e => enext e | None => None end
            | None => first m
            end in
  match nx with
  | None => (mkI true None, None)
  | Some j => (mkI false (Some j), Some j)
  end.

(* ------------------------------------------------------------------ *)
(* S: the specification.  [[MapData]] is an append-only list whose deleted
   entries become empty; an iterator is an index into it.               *)

Definition svz (a b : K) : bool := same (norm a) (norm b).

Definition sdata := list (option (K * V)).

Definition smatch (k : K) (x : option (K * V)) : bool :=
  match x with Some (k', _) => svz k' k | None => false end.

Fixpoint sset (d : sdata) (k : K) (v : V) : sdata :=
  match d with
  | [] => [Some (norm k, v)]
  | x :: r => if smatch k x then (match x with Some (k', _) => Some (k', v) | None => None end) :: r
              else x :: sset r k v
  end.

Definition sget (d : sdata) (k : K) : option V :=
  match find (smatch k) d with Some (Some (_, v)) => Some v | _ => None end.

Definition shas (d : sdata) (k : K) : bool := existsb (smatch k) d.

Fixpoint sdel (d : sdata) (k : K) : sdata * bool :=
  match d with
  | [] => ([], false)
  | x :: r => if smatch k x then (None :: r, true)
              else let '(r', b) := sdel r k in (x :: r', b)
  end.

Definition sclear (d : sdata) : sdata := map (fun _ => None) d.

Definition ssize (d : sdata) : nat := length (filter (fun x => match x with Some _ => true | None => false end) d).

Record siter := mkSI { sdone : bool; sidx : nat }.

(* first non-empty entry at position >= i *)
Fixpoint snext_from (d : sdata) (i : nat) : option (nat * (K * V)) :=
  match d with
  | [] => None
  | x :: r =>
      match i with
      | O => match x with
             | Some kv => Some (O, kv)
             | None => option_map (fun '(j, kv) => (S j, kv)) (snext_from r O)
             end
      | S i' => option_map (fun '(j, kv) => (S j, kv)) (snext_from r i')
      end
  end.

Definition siter_next (d : sdata) (it : siter) : siter * option (K * V) :=
  if sdone it then (it, None) else
  match snext_from d (sidx it) with
  | Some (j, kv) => (mkSI false (S j), Some kv)
  | None => (mkSI true 0, None)
  end.

(* ------------------------------------------------------------------ *)
(* Histories *)

Inductive op :=
| OSet (k : K) (v : V) | OGet (k : K) | OHas (k : K) | ODel (k : K)
| OClear | ONewIter | ONext (it : nat) | OSize.

Inductive out :=
| RUnit | RVal (v : option V) | RBool (b : bool) | REntry (e : option (K * V)) | RNat (n : nat).

Definition entry_kv (m : omap) (i : nat) : option (K * V) :=
  match getE m i with
  | Some e => match ekey e, evalue e with Some k, Some v => Some (k, v) | _, _ => None end
  | None => None
  end.

Definition istate := (omap * list iter)%type.
Definition sstate := (sdata * list siter)%type.

Definition istep (s : istate) (o : op) : istate * out :=
  let '(m, its) := s in
  match o with
  | OSet k v => ((oset m k v, its), RUnit)
  | OGet k => (s, RVal (oget m k))
  | OHas k => (s, RBool (ohas m k))
  | ODel k => let '(m', b) := oremove m k in ((m', its), RBool b)
  | OClear => ((oclear m, its), RUnit)
  | ONewIter => ((m, its ++ [mkI false None]), RNat (length its))
  | ONext n =>
      match nth_error its n with
      | Some it => let '(it', r) := iter_next m it in
                   ((m, upd n (fun _ => it') its),
                    REntry (match r with Some j => entry_kv m j | None => None end))
      | None => (s, RUnit)
      end
  | OSize => (s, RNat (size m))
  end.

Definition sstep (s : sstate) (o : op) : sstate * out :=
  let '(d, its) := s in
  match o with
  | OSet k v => ((sset d k v, its), RUnit)
  | OGet k => (s, RVal (sget d k))
  | OHas k => (s, RBool (shas d k))
  | ODel k => let '(d', b) := sdel d k in ((d', its), RBool b)
  | OClear => ((sclear d, its), RUnit)
  | ONewIter => ((d, its ++ [mkSI false 0]), RNat (length its))
  | ONext n =>
      match nth_error its n with
      | Some it => let '(it', r) := siter_next d it in
                   ((d, upd n (fun _ => it') its), REntry r)
      | None => (s, RUnit)
      end
  | OSize => (s, RNat (ssize d))
  end.

Fixpoint run {S} (step : S -> op -> S * out) (s : S) (ops : list op) : S * list out :=
  match ops with
  | [] => (s, [])
  | o :: r => let '(s1, x) := step s o in
              let '(s2, xs) := run step s1 r in (s2, x :: xs)
  end.

Definition iinit : istate := (empty, []).
Definition sinit : sstate := ([], []).

End OM.

Arguments mkE {K V}.
Arguments mkM {K V}.
Arguments empty {K V}.
