(* C18 — renaming of keys: if f : K' -> K commutes with same / norm / hash, running a history over K' and
   mapping f over what it returns is running the mapped history over K.  Used to restate [om_refines_js]
   (keys = the subset type of well-formed JS values) over plain JS values.  No axioms. *)
From Coq Require Import List Arith NArith Bool Lia.
Import ListNotations.
From Verif.C18 Require Import Model.
From Verif.C18 Require Proofs.
Module PM := Verif.C18.Proofs.

Section Transfer.
Context {K' K V : Type} (f : K' -> K).
Variables (same' : K' -> K' -> bool) (norm' : K' -> K') (H' : K' -> N).
Variables (same : K -> K -> bool) (norm : K -> K) (H : K -> N).
Hypothesis f_same : forall a b, same' a b = same (f a) (f b).
Hypothesis f_norm : forall a, f (norm' a) = norm (f a).
Hypothesis f_hash : forall a, H' a = H (f a).

Definition fkv (p : K' * V) : K * V := (f (fst p), snd p).
Definition mentry (e : @entry K' V) : @entry K V := mkE (option_map f (ekey e)) (evalue e) (eprev e) (enext e).
Definition mmap (m : @omap K' V) : @omap K V :=
  mkM (map mentry (ents m)) (buckets m) (first m) (last m) (size m).
Definition mop (o : @op K' V) : @op K V :=
  match o with
  | OSet k v => OSet (f k) v | OGet k => OGet (f k) | OHas k => OHas (f k) | ODel k => ODel (f k)
  | OClear => OClear | ONewIter => ONewIter | ONext n => ONext n | OSize => OSize
  end.
Definition mout (r : @out K' V) : @out K V :=
  match r with
  | RUnit => RUnit | RVal v => RVal v | RBool b => RBool b | RNat n => RNat n
  | REntry e => REntry (option_map fkv e)
  end.
Definition mist (s : @istate K' V) : @istate K V := (mmap (fst s), snd s).
Definition msd (d : @sdata K' V) : @sdata K V := map (option_map fkv) d.
Definition msst (s : @sstate K' V) : @sstate K V := (msd (fst s), snd s).

(* ---- implementation side ---- *)

Lemma getE_m : forall m i, getE (mmap m) i = option_map mentry (getE m i).
Proof. intros m i. unfold getE, mmap. simpl. apply nth_error_map. Qed.

Lemma key_matches_m : forall m k i, key_matches same (mmap m) (f k) i = key_matches same' m k i.
Proof.
  intros m k i. unfold key_matches. rewrite getE_m. destruct (getE m i) as [e|]; simpl; [|reflexivity].
  destruct (ekey e) as [k0|]; simpl; [|reflexivity]. symmetry. apply f_same.
Qed.

Lemma find_ext' : forall {A} (p q : A -> bool) l, (forall x, p x = q x) -> find p l = find q l.
Proof. intros A p q l E. induction l as [|x r IH]; simpl; [reflexivity|]. rewrite E, IH. reflexivity. Qed.

Lemma lookup_m : forall m k, lookup same norm H (mmap m) (f k) = lookup same' norm' H' m k.
Proof.
  intros m k. unfold lookup. rewrite <- f_norm, <- f_hash. f_equal.
  apply find_ext'. intros i. apply key_matches_m.
Qed.

Lemma map_upd_e : forall (g : forall {X}, @entry X V -> @entry X V) i (l : list (@entry K' V)),
  (forall x, mentry (g x) = g (mentry x)) ->
  map mentry (upd i g l) = upd i g (map mentry l).
Proof.
  intros g i l Hg. revert i. induction l as [|x r IH]; intros [|i]; simpl; try reflexivity.
  - rewrite Hg. reflexivity.
  - rewrite IH. reflexivity.
Qed.

Lemma upd_setnext_m : forall nx i (l : list (@entry K' V)),
  map mentry (upd i (set_next nx) l) = upd i (set_next nx) (map mentry l).
Proof. intros nx i l. revert i. induction l as [|x r IH]; intros [|i]; simpl; try reflexivity. rewrite IH. reflexivity. Qed.
Lemma upd_setprev_m : forall pv i (l : list (@entry K' V)),
  map mentry (upd i (set_prev pv) l) = upd i (set_prev pv) (map mentry l).
Proof. intros pv i l. revert i. induction l as [|x r IH]; intros [|i]; simpl; try reflexivity. rewrite IH. reflexivity. Qed.
Lemma upd_setval_m : forall v i (l : list (@entry K' V)),
  map mentry (upd i (set_val v) l) = upd i (set_val v) (map mentry l).
Proof. intros v i l. revert i. induction l as [|x r IH]; intros [|i]; simpl; try reflexivity. rewrite IH. reflexivity. Qed.
Lemma upd_kill_m : forall i (l : list (@entry K' V)),
  map mentry (upd i kill l) = upd i kill (map mentry l).
Proof. intros i l. revert i. induction l as [|x r IH]; intros [|i]; simpl; try reflexivity. rewrite IH. reflexivity. Qed.

Lemma oset_m : forall m k v, mmap (oset same' norm' H' m k v) = oset same norm H (mmap m) (f k) v.
Proof.
  intros m k v. unfold oset. rewrite lookup_m. destruct (lookup same' norm' H' m k) as [h [i|]].
  - unfold mmap. simpl. rewrite upd_setval_m. reflexivity.
  - unfold mmap at 2. simpl. rewrite map_length.
    destruct (last m) as [l|]; unfold mmap; simpl.
    + rewrite map_app, upd_setnext_m. simpl. unfold mentry at 2. simpl. rewrite f_norm. reflexivity.
    + rewrite map_app. simpl. unfold mentry at 2. simpl. rewrite f_norm. reflexivity.
Qed.

Lemma oget_m : forall m k, oget same norm H (mmap m) (f k) = oget same' norm' H' m k.
Proof.
  intros m k. unfold oget. rewrite lookup_m. destruct (lookup same' norm' H' m k) as [h [i|]]; [|reflexivity].
  rewrite getE_m. destruct (getE m i); reflexivity.
Qed.

Lemma ohas_m : forall m k, ohas same norm H (mmap m) (f k) = ohas same' norm' H' m k.
Proof. intros m k. unfold ohas. rewrite lookup_m. reflexivity. Qed.

Lemma oremove_m : forall m k,
  oremove same norm H (mmap m) (f k) =
  (mmap (fst (oremove same' norm' H' m k)), snd (oremove same' norm' H' m k)).
Proof.
  intros m k. unfold oremove. rewrite lookup_m. destruct (lookup same' norm' H' m k) as [h [i|]]; [|reflexivity].
  rewrite getE_m. destruct (getE m i) as [e|]; simpl; [|reflexivity].
  destruct (eprev e) as [p|]; destruct (enext e) as [nx|]; unfold mmap; simpl;
    rewrite ?upd_setprev_m, ?upd_setnext_m, ?upd_kill_m; reflexivity.
Qed.

Lemma clear_loop_m : forall fuel item (es : list (@entry K' V)),
  map mentry (clear_loop fuel item es) = clear_loop fuel item (map mentry es).
Proof.
  induction fuel as [|fu IH]; intros item es; simpl; [reflexivity|].
  destruct item as [i|]; [|reflexivity].
  rewrite nth_error_map. destruct (nth_error es i) as [e|]; simpl; [|reflexivity].
  rewrite IH. destruct (eprev e) as [p|]; rewrite ?upd_setnext_m, ?upd_kill_m; reflexivity.
Qed.

Lemma oclear_m : forall m, mmap (oclear m) = oclear (mmap m).
Proof. intros m. unfold oclear, mmap. simpl. rewrite clear_loop_m, map_length. reflexivity. Qed.

Lemma walk_back_m : forall fuel (es : list (@entry K' V)) c,
  walk_back fuel (map mentry es) c = walk_back fuel es c.
Proof.
  induction fuel as [|fu IH]; intros es c; simpl; [reflexivity|].
  destruct c as [i|]; [|reflexivity].
  rewrite nth_error_map. destruct (nth_error es i) as [e|]; simpl; [|reflexivity].
  destruct (ekey e); simpl; [reflexivity|apply IH].
Qed.

Lemma iter_next_m : forall m it, iter_next (mmap m) it = iter_next m it.
Proof.
  intros m it. unfold iter_next. destruct (closed it); [reflexivity|].
  change (ents (mmap m)) with (map mentry (ents m)). change (first (mmap m)) with (first m).
  rewrite map_length, walk_back_m.
  destruct (walk_back (S (length (ents m))) (ents m) (cur it)) as [i|]; [|reflexivity].
  rewrite getE_m. destruct (getE m i); reflexivity.
Qed.

Lemma entry_kv_m : forall m j, entry_kv (mmap m) j = option_map fkv (entry_kv m j).
Proof.
  intros m j. unfold entry_kv. rewrite getE_m. destruct (getE m j) as [e|]; simpl; [|reflexivity].
  destruct (ekey e); simpl; [|reflexivity]. destruct (evalue e); reflexivity.
Qed.

Lemma istep_m : forall s o,
  istep same norm H (mist s) (mop o) = (mist (fst (istep same' norm' H' s o)), mout (snd (istep same' norm' H' s o))).
Proof.
  intros [m its] o. unfold mist. destruct o as [k v|k|k|k| | |n|]; simpl.
  - rewrite oset_m. reflexivity.
  - rewrite oget_m. reflexivity.
  - rewrite ohas_m. reflexivity.
  - rewrite oremove_m. destruct (oremove same' norm' H' m k). reflexivity.
  - rewrite oclear_m. reflexivity.
  - reflexivity.
  - destruct (nth_error its n) as [it|]; [|reflexivity].
    rewrite iter_next_m. destruct (iter_next m it) as [it' r]. simpl.
    destruct r as [j|]; [rewrite entry_kv_m|]; reflexivity.
  - reflexivity.
Qed.

Lemma irun_m : forall ops s,
  run (istep same norm H) (mist s) (map mop ops) =
  (mist (fst (run (istep same' norm' H') s ops)), map mout (snd (run (istep same' norm' H') s ops))).
Proof.
  induction ops as [|o r IH]; intros s; [reflexivity|]. cbn [map run].
  rewrite istep_m. destruct (istep same' norm' H' s o) as [s1 x]. cbn [fst snd].
  rewrite IH. destruct (run (istep same' norm' H') s1 r). reflexivity.
Qed.

(* ---- specification side ---- *)

Lemma smatch_m : forall k x, smatch same norm (f k) (option_map fkv x) = smatch same' norm' k x.
Proof.
  intros k [[k0 v0]|]; simpl; [|reflexivity]. unfold svz. rewrite <- !f_norm. symmetry. apply f_same.
Qed.

Lemma sset_m : forall d k v, msd (sset same' norm' d k v) = sset same norm (msd d) (f k) v.
Proof.
  induction d as [|x r IH]; intros k v; simpl.
  - unfold fkv. simpl. rewrite f_norm. reflexivity.
  - rewrite smatch_m. destruct (smatch same' norm' k x).
    + destruct x as [[k0 v0]|]; reflexivity.
    + simpl. rewrite IH. reflexivity.
Qed.

Lemma sget_m : forall d k, sget same norm (msd d) (f k) = sget same' norm' d k.
Proof.
  intros d k. unfold sget. induction d as [|x r IH]; simpl; [reflexivity|].
  rewrite smatch_m. destruct (smatch same' norm' k x); [|exact IH].
  destruct x as [[k0 v0]|]; reflexivity.
Qed.

Lemma shas_m : forall d k, shas same norm (msd d) (f k) = shas same' norm' d k.
Proof.
  intros d k. unfold shas. induction d as [|x r IH]; simpl; [reflexivity|]. rewrite smatch_m, IH. reflexivity.
Qed.

Lemma sdel_m : forall d k,
  sdel same norm (msd d) (f k) = (msd (fst (sdel same' norm' d k)), snd (sdel same' norm' d k)).
Proof.
  induction d as [|x r IH]; intros k; simpl; [reflexivity|].
  rewrite smatch_m. destruct (smatch same' norm' k x); [reflexivity|].
  rewrite IH. destruct (sdel same' norm' r k). reflexivity.
Qed.

Lemma sclear_m : forall d, msd (sclear d) = sclear (msd d).
Proof. intros d. unfold sclear, msd. rewrite !map_map. reflexivity. Qed.

Lemma ssize_m : forall d, ssize (msd d) = ssize d.
Proof.
  intros d. unfold ssize. induction d as [|x r IH]; simpl; [reflexivity|].
  destruct x; simpl; rewrite IH; reflexivity.
Qed.

Lemma snext_from_m : forall d i,
  snext_from (msd d) i = option_map (fun p => (fst p, fkv (snd p))) (snext_from d i).
Proof.
  induction d as [|x r IH]; intros i; simpl; [reflexivity|].
  destruct i as [|i'].
  - destruct x as [kv|]; simpl; [reflexivity|]. rewrite IH. destruct (snext_from r 0) as [[j kv]|]; reflexivity.
  - rewrite IH. destruct (snext_from r i') as [[j kv]|]; reflexivity.
Qed.

Lemma siter_next_m : forall d it,
  siter_next (msd d) it = (fst (siter_next d it), option_map fkv (snd (siter_next d it))).
Proof.
  intros d it. unfold siter_next. destruct (sdone it); [reflexivity|].
  rewrite snext_from_m. destruct (snext_from d (sidx it)) as [[j kv]|]; reflexivity.
Qed.

Lemma sstep_m : forall s o,
  sstep same norm (msst s) (mop o) = (msst (fst (sstep same' norm' s o)), mout (snd (sstep same' norm' s o))).
Proof.
  intros [d its] o. unfold msst. destruct o as [k v|k|k|k| | |n|]; simpl.
  - rewrite sset_m. reflexivity.
  - rewrite sget_m. reflexivity.
  - rewrite shas_m. reflexivity.
  - rewrite sdel_m. destruct (sdel same' norm' d k). reflexivity.
  - rewrite sclear_m. reflexivity.
  - reflexivity.
  - destruct (nth_error its n) as [it|]; [|reflexivity].
    rewrite siter_next_m. destruct (siter_next d it) as [it' r]. reflexivity.
  - rewrite ssize_m. reflexivity.
Qed.

Lemma srun_m : forall ops s,
  run (sstep same norm) (msst s) (map mop ops) =
  (msst (fst (run (sstep same' norm' ) s ops)), map mout (snd (run (sstep same' norm') s ops))).
Proof.
  induction ops as [|o r IH]; intros s; [reflexivity|]. cbn [map run].
  rewrite sstep_m. destruct (sstep same' norm' s o) as [s1 x]. cbn [fst snd].
  rewrite IH. destruct (run (sstep same' norm') s1 r). reflexivity.
Qed.

(* refinement over K' carries over to every history over K that is the image of one over K' *)
Lemma refines_image :
  (forall ops : list (@op K' V),
     snd (run (istep same' norm' H') iinit ops) = snd (run (sstep same' norm') sinit ops)) ->
  forall ops : list (@op K' V),
     snd (run (istep same norm H) iinit (map mop ops)) = snd (run (sstep same norm) sinit (map mop ops)).
Proof.
  intros R ops.
  change (@iinit K V) with (mist (@iinit K' V)). change (@sinit K V) with (msst (@sinit K' V)).
  rewrite irun_m, srun_m. simpl. rewrite R. reflexivity.
Qed.

End Transfer.
