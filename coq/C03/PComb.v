(* C03 — the invariant of the bookkeeping algorithm and one lemma per combinator of the model. *)
From Coq Require Import List ZArith Bool Arith Lia.
Import ListNotations.
From Verif.C03 Require Import Model PBase.
Open Scope Z_scope.

(* when the call stack is empty the VM is in its top-level Go context: no program, sb = -1 *)
Definition TopOK (s : state) : Prop := cs s = [] -> prg s = false /\ sb s = -1.

(* an abrupt exit of a run-loop item started at s looks exactly like a throw raised in some state that only piled
   contexts / iterator records / references on top of s (with the lowest context saving s's frame registers) *)
Definition AsIf (s s' : state) (o : outcome) : Prop :=
  exists p s'', Ext s s'' /\ regs s' = regs (fst (handle_loop p (ts s) s'')) /\ o = snd (handle_loop p (ts s) s'').

Definition PostJ (s s' : state) (o : outcome) : Prop :=
  match o with
  | ONorm => regs s' = regs s
  | OCaught _ _ _ | OUnwound _ => AsIf s s' o
  | OPanic _ | OEscaped _ => False
  | OStuck => True
  end.
Definition PostG (s s' : state) (o : outcome) : Prop :=
  match o with
  | ONorm => regs s' = regs s
  | OPanic _ => same_but_sp s s'
  | OCaught _ _ _ | OUnwound _ | OEscaped _ => False
  | OStuck => True
  end.
Definition Post (s s' : state) (o : outcome) : Prop :=
  match o with
  | ONorm => regs s' = regs s
  | OPanic _ => same_but_sp s s'
  | OCaught _ _ _ | OUnwound _ => AsIf s s' o
  | OEscaped _ => False
  | OStuck => True
  end.
(* boundaries that restore everything *)
Definition PostR (s s' : state) (o : outcome) : Prop :=
  match o with OStuck => True | OEscaped _ => False | _ => regs s' = regs s end.

Lemma TopOK_regs : forall a b, regs a = regs b -> TopOK b -> TopOK a.
Proof.
  intros a b H T. apply regs_inv in H. destruct H as (h1 & h2 & h3 & h4 & h5 & h6 & h7 & h8 & h9).
  unfold TopOK in *. intros C. rewrite h6 in C. destruct (T C). split; congruence.
Qed.

Lemma AsIf_base : forall a b s' o, regs b = regs a -> AsIf b s' o -> AsIf a s' o.
Proof.
  intros a b s' o H (p & s'' & E & R & O). apply regs_inv in H.
  destruct H as (h1 & h2 & h3 & h4 & h5 & h6 & h7 & h8 & h9).
  exists p, s''. rewrite <- h7. split; [|split; auto].
  apply (Ext_base b a s''); auto.
Qed.

Lemma AsIf_ext : forall a b s' o, Ext a b -> ts b = ts a -> AsIf b s' o -> AsIf a s' o.
Proof.
  intros a b s' o E T (p & s'' & E' & R & O). exists p, s''. rewrite <- T. split; [|split; auto]. eapply Ext_trans; eauto.
Qed.

Lemma PostJ_base : forall a b s' o, regs b = regs a -> PostJ b s' o -> PostJ a s' o.
Proof. intros a b s' o H; destruct o; simpl; auto; try congruence; apply AsIf_base; auto. Qed.
Lemma same_but_sp_base : forall a b s', regs b = regs a -> same_but_sp b s' -> same_but_sp a s'.
Proof. intros a b s' H S. apply regs_inv in H. unfold same_but_sp in *. intuition congruence. Qed.
Lemma PostG_base : forall a b s' o, regs b = regs a -> PostG b s' o -> PostG a s' o.
Proof. intros a b s' o H; destruct o; simpl; auto; try congruence. apply same_but_sp_base; auto. Qed.
Lemma Post_base : forall a b s' o, regs b = regs a -> Post b s' o -> Post a s' o.
Proof. intros a b s' o H; destruct o; simpl; auto; try congruence; try (apply AsIf_base; auto). apply same_but_sp_base; auto. Qed.
Lemma PostR_base : forall a b s' o, regs b = regs a -> PostR b s' o -> PostR a s' o.
Proof. intros a b s' o H; destruct o; simpl; auto; congruence. Qed.

Lemma PostJ_Post : forall s s' o, PostJ s s' o -> Post s s' o.
Proof. intros s s' o; destruct o; simpl; auto; tauto. Qed.
Lemma PostG_Post : forall s s' o, PostG s s' o -> Post s s' o.
Proof. intros s s' o; destruct o; simpl; auto; tauto. Qed.
Lemma PostR_PostG : forall s s' o, (match o with OCaught _ _ _ | OUnwound _ | OEscaped _ => False | _ => True end) -> PostR s s' o -> PostG s s' o.
Proof. intros s s' o; destruct o; simpl; auto. intros _ H. apply regs_same_but_sp; auto. Qed.


Lemma TopOK_ne : forall s, cs s <> [] -> TopOK s.
Proof. unfold TopOK; intros; contradiction. Qed.

Lemma pop_ctx_eq : forall s c r, cs s = c :: r -> pop_ctx s = set_cs r (restore_ctx c s).
Proof. intros. unfold pop_ctx. rewrite H. reflexivity. Qed.

Lemma leaked_pop_ctx : forall s, leaked (pop_ctx s) = leaked s.
Proof. intros. unfold pop_ctx. destruct (cs s); reflexivity. Qed.
Lemma dv_pop_ctx : forall s, dv (pop_ctx s) = dv s.
Proof. intros. unfold dv. rewrite leaked_pop_ctx. reflexivity. Qed.

Lemma loop_out_cases : forall r, match snd (loop_out r) with ONorm | OPanic _ | OStuck => True | _ => False end.
Proof. intros [s o]. destruct o; simpl; auto. Qed.
Lemma loop_out_fst : forall r, fst (loop_out r) = fst r.
Proof. intros [s o]. destruct o; reflexivity. Qed.

Lemma triple_inv : forall (A B C : Type) (a a' : A) (b b' : B) (c c' : C),
  (a, b, c) = (a', b', c') -> a = a' /\ b = b' /\ c = c'.
Proof. intros. inversion H. auto. Qed.

Ltac rfin :=
  try congruence; try lia;
  try (progress (repeat match goal with H : ts ?x = _ |- context [ts ?x] => rewrite H end); cbn; reflexivity);
  try (progress (repeat match goal with H : cs ?x = _ |- context [cs ?x] => rewrite H end); cbn; reflexivity).
Ltac rsolve := apply regs_intro; cbn; rfin.

Section C.
Variable lim : option nat.
Variable faults : list (nat * fkind).
Variable fixed : bool.

Definition GInv (P : state -> state -> outcome -> Prop) (s : state) (r : state * outcome) : Prop :=
  (dv s <= dv (fst r))%nat /\ (fixed = true -> dv (fst r) = dv s) /\
  (dv (fst r) = dv s -> TopOK s -> P s (fst r) (snd r)).
Definition Inv := GInv Post.

Lemma GInv_weaken : forall (P Q : state -> state -> outcome -> Prop) s r,
  (forall s' o, P s s' o -> Q s s' o) -> GInv P s r -> GInv Q s r.
Proof. intros P Q s r H (A & B & C). split; [|split]; auto. Qed.

Lemma GInv_ret : forall (P : state -> state -> outcome -> Prop) s s' o,
  dv s' = dv s -> (TopOK s -> P s s' o) -> GInv P s (s', o).
Proof. intros. split; [|split]; simpl; auto; lia. Qed.

(* sequencing after a normal step *)
Lemma GInv_seq : forall (P : state -> state -> outcome -> Prop) s s1 r,
  (forall a b s' o, regs b = regs a -> P b s' o -> P a s' o) ->
  Inv s (s1, ONorm) -> GInv P s1 r -> GInv P s r.
Proof.
  intros P s s1 r Hb (A1 & A2 & A3) (B1 & B2 & B3). simpl in *.
  split; [lia|split]. { intros F. rewrite B2, A2; auto. }
  intros D T. assert (D1 : dv s1 = dv s) by lia. assert (D2 : dv (fst r) = dv s1) by lia.
  specialize (A3 D1 T). apply (Hb s s1); auto. apply B3; auto. eapply TopOK_regs; eauto.
Qed.

(* same, when the intermediate state is related to s by a known equation on registers *)
Lemma GInv_via : forall (P Q : state -> state -> outcome -> Prop) s s1 r,
  dv s1 = dv s -> (TopOK s -> TopOK s1) ->
  (forall s' o, P s1 s' o -> TopOK s -> Q s s' o) ->
  GInv P s1 r -> GInv Q s r.
Proof.
  intros P Q s s1 r D T H (B1 & B2 & B3). split; [lia|split]. { intros; rewrite B2; auto. }
  intros D' T'. apply H; auto. apply B3; auto. lia.
Qed.

Lemma raise_inv : forall p s s1, Ext s s1 -> ts s1 = ts s -> dv s1 = dv s -> GInv PostJ s (raise0 p s1).
Proof.
  intros p s s1 E T D. unfold raise0, handle_throw.
  assert (L := handle_loop_leaked p (ts s1) s1).
  pose proof (handle_loop_outcome p (ts s1) s1) as O.
  destruct (handle_loop p (ts s1) s1) as [s' o] eqn:Hh. simpl in *.
  apply GInv_ret. { unfold dv. rewrite L. exact D. }
  intros _. assert (A : AsIf s s' o).
  { exists p, s1. rewrite <- T, Hh. simpl. auto. }
  destruct o; simpl; auto; contradiction.
Qed.

(* post-processing the result of an inner computation started at s1 (dv s1 = dv s) *)
Lemma GInv_map : forall (Q : state -> state -> outcome -> Prop) s s1 s5 s' o' (K : Prop),
  dv s1 = dv s -> (dv s1 <= dv s5)%nat -> (fixed = true -> dv s5 = dv s1) -> (dv s5 = dv s1 -> K) ->
  dv s' = dv s5 -> (K -> TopOK s -> Q s s' o') -> GInv Q s (s', o').
Proof.
  intros Q s s1 s5 s' o' K D A B C D' H. split; [|split]; simpl.
  - lia.
  - intros F. rewrite D', B; auto.
  - intros E T. apply H; auto. apply C. lia.
Qed.

Lemma raise_inv' : forall p s s1 s3 (K : Prop),
  dv s1 = dv s -> (dv s1 <= dv s3)%nat -> (fixed = true -> dv s3 = dv s1) -> (dv s3 = dv s1 -> K) ->
  (K -> TopOK s -> Ext s s3 /\ ts s3 = ts s) -> GInv PostJ s (raise0 p s3).
Proof.
  intros p s s1 s3 K D A B C H. unfold raise0, handle_throw.
  assert (L := handle_loop_leaked p (ts s3) s3).
  pose proof (handle_loop_outcome p (ts s3) s3) as O.
  destruct (handle_loop p (ts s3) s3) as [s' o] eqn:Hh. simpl in *.
  eapply (GInv_map PostJ s s1 s3 s' o K); eauto. { unfold dv. rewrite L. reflexivity. }
  intros k T. destruct (H k T) as (E & Tt).
  assert (AI : AsIf s s' o). { exists p, s3. rewrite <- Tt, Hh. simpl. auto. }
  destruct o; simpl; auto; contradiction.
Qed.

Lemma TopOK_same : forall a b, cs b = cs a -> prg b = prg a -> sb b = sb a -> TopOK a -> TopOK b.
Proof. unfold TopOK. intros a b H1 H2 H3 T C. rewrite H1 in C. destruct (T C). split; congruence. Qed.

(* invariants that need no assumption on the start state *)
Definition GInvN (P : state -> state -> outcome -> Prop) (s : state) (r : state * outcome) : Prop :=
  (dv s <= dv (fst r))%nat /\ (fixed = true -> dv (fst r) = dv s) /\ (dv (fst r) = dv s -> P s (fst r) (snd r)).
Lemma GInvN_GInv : forall P s r, GInvN P s r -> GInv P s r.
Proof. intros P s r (A & B & C). split; [|split]; auto. Qed.

(* vm.try restores the caller's registers exactly, whatever ran inside and however it ended *)
Lemma vm_try_invN : forall (f : state -> state * outcome) s,
  (forall s1, GInvN PostG s1 (f s1)) -> GInvN PostR s (vm_try f s).
Proof.
  intros f s Hf. unfold vm_try. set (s1 := push_try true false false s).
  destruct (Hf s1) as (A & B & C).
  destruct (f s1) as [s2 o]. simpl in A, B, C.
  assert (Stuck : GInvN PostR s (s2, OStuck)) by (split; [|split]; simpl; auto).
  destruct o; try exact Stuck.
  - split; [|split]; simpl; auto. intros D. specialize (C D). simpl in C. apply regs_inv in C.
    destruct C as (c1 & c2 & c3 & c4 & c5 & c6 & c7 & c8 & c9).
    unfold s1 in *. cbn in c1, c2, c3, c4, c5, c6, c7, c8, c9. rsolve.
  - (* panic: handleThrow at our own marker *)
    assert (Hres : dv s2 = dv s1 -> regs (pop_try (fst (handle_throw p s2))) = regs s).
    { intros D. specialize (C D). simpl in C. destruct C as (c2 & c3 & c4 & c5 & c6 & c7 & c8 & c9).
      assert (Hx : extends s s2 [] [] 0) by (constructor; simpl; auto).
      unfold handle_throw. rewrite c7. unfold s1. cbn [ts push_try set_ts].
      pose proof (handle_loop_restores p _ s [] (ts s) s2 [] [] 0%nat (snap_new_frame _ _ _ s) (marker_not_skippable p s) eq_refl Hx) as W.
      cbv zeta in W. cbn [app] in W. destruct W as (w1 & w2 & w3 & w4 & w5 & w6 & w7 & _).
      cbn [t_marker new_frame negb andb] in w5. unfold bottom_regs in w6.
      unfold flagged in w7. cbn [t_marker new_frame] in w7.
      remember (fst (handle_loop p (new_frame true false false s :: ts s) s2)) as r eqn:Hr. clear Hr.
      apply triple_inv in w6. destruct w6 as (h1 & h2 & h3).
      unfold s1 in *. cbn in c2, c3, c4. rsolve. }
    assert (Hdv : dv (pop_try (fst (handle_throw p s2))) = dv s2).
    { unfold dv, handle_throw. cbn. rewrite handle_loop_leaked. reflexivity. }
    destruct (catchable p); (split; [|split]; simpl; rewrite ?Hdv; auto; intros D; apply Hres; auto).
Qed.

(* the same for a computation whose invariant needs the top-level convention *)
Lemma vm_try_inv : forall (f : state -> state * outcome) s,
  (forall s1, GInv PostG s1 (f s1)) -> GInv PostR s (vm_try f s).
Proof.
  intros f s Hf. unfold vm_try. set (s1 := push_try true false false s).
  destruct (Hf s1) as (A & B & C).
  assert (T1 : TopOK s -> TopOK s1) by (apply TopOK_same; reflexivity).
  destruct (f s1) as [s2 o]. simpl in A, B, C.
  destruct o.
  - eapply (GInv_map PostR s s1 s2 _ _ (TopOK s1 -> PostG s1 s2 ONorm)); eauto; try reflexivity.
    intros k T. specialize (k (T1 T)). simpl in k. apply regs_inv in k.
    destruct k as (c1 & c2 & c3 & c4 & c5 & c6 & c7 & c8 & c9). simpl.
    unfold s1 in *. cbn in c1, c2, c3, c4, c5, c6, c7, c8, c9.
    rsolve.
  - split; [|split]; simpl in *; auto.
  - split; [|split]; simpl in *; auto.
  - (* panic: handleThrow at our own marker *)
    assert (Hres : dv s2 = dv s1 -> TopOK s -> regs (pop_try (fst (handle_throw p s2))) = regs s).
    { intros D T. specialize (C D (T1 T)). simpl in C. destruct C as (c2 & c3 & c4 & c5 & c6 & c7 & c8 & c9).
      assert (Hx : extends s s2 [] [] 0) by (constructor; simpl; auto).
      unfold handle_throw. rewrite c7. unfold s1. cbn [ts push_try set_ts].
      pose proof (handle_loop_restores p _ s [] (ts s) s2 [] [] 0%nat (snap_new_frame _ _ _ s) (marker_not_skippable p s) eq_refl Hx) as W.
      cbv zeta in W. cbn [app] in W. destruct W as (w1 & w2 & w3 & w4 & w5 & w6 & w7 & _).
      cbn [t_marker new_frame negb andb] in w5. unfold bottom_regs in w6.
      unfold flagged in w7. cbn [t_marker new_frame] in w7.
      remember (fst (handle_loop p (new_frame true false false s :: ts s) s2)) as r eqn:Hr. clear Hr.
      apply triple_inv in w6. destruct w6 as (h1 & h2 & h3).
      unfold s1 in *. cbn in c2, c3, c4. rsolve. }
    assert (Hdv : dv (pop_try (fst (handle_throw p s2))) = dv s2).
    { unfold dv, handle_throw. cbn. rewrite handle_loop_leaked. reflexivity. }
    destruct (catchable p).
    + eapply (GInv_map PostR s s1 s2 _ _ (dv s2 = dv s1)); eauto; try reflexivity; intros; simpl; auto.
    + eapply (GInv_map PostR s s1 s2 _ _ (dv s2 = dv s1)); eauto; try reflexivity; intros; simpl; auto.
  - split; [|split]; simpl in *; auto.
  - split; [|split]; simpl in *; auto.
Qed.


(* ---- pass-through of an abrupt run-loop outcome from an inner start state s1 to the node's start state s ---- *)
Lemma PostJ_pass : forall s s1 s3 o,
  o <> ONorm -> Ext s s1 -> ts s1 = ts s -> dv s1 = dv s -> (TopOK s -> TopOK s1) ->
  GInv PostJ s1 (s3, o) -> GInv PostJ s (s3, o).
Proof.
  intros s s1 s3 o Hn E T D TT (A & B & C). simpl in *. split; [|split]; simpl; try lia.
  - intros F. rewrite B; auto.
  - intros D' T'. assert (D1 : dv s3 = dv s1) by lia. specialize (C D1 (TT T')).
    destruct o; simpl in *; auto; try contradiction; try congruence; try (eapply AsIf_ext; eauto).
Qed.

Lemma handle_loop_caught_lt : forall p fr s i h q, snd (handle_loop p fr s) = OCaught i h q -> (i < length fr)%nat.
Proof.
  induction fr as [|tf rest IH]; intros s i h q; simpl. { discriminate. }
  destruct (skippable p tf). { intros H. apply IH in H. lia. }
  destruct (t_marker tf); [discriminate|]. destruct (t_catch tf); cbn; intros H; inversion H; lia.
Qed.

Lemma AsIf_caught_lt : forall s s' i h q, AsIf s s' (OCaught i h q) -> (i < length (ts s))%nat.
Proof. intros s s' i h q (p & s'' & _ & _ & O). symmetry in O. eapply handle_loop_caught_lt; eauto. Qed.

(* the state sx is s with the (non-marker) frame tfx on top of the try stack; sp is free *)
Definition Framed (s : state) (tfx : tframe) (sx : state) : Prop :=
  sb sx = sb s /\ args sx = args s /\ prg sx = prg s /\ stash sx = stash s /\
  cs sx = cs s /\ its sx = its s /\ refs sx = refs s /\ ts sx = tfx :: ts s.

Lemma Framed_Ext : forall s tfx sx, Framed s tfx sx -> Ext s sx.
Proof. intros s tfx sx (h1 & h2 & h3 & h4 & h5 & h6 & h7 & h8). apply Ext_same; auto. Qed.

Lemma Framed_TopOK : forall s tfx sx, Framed s tfx sx -> TopOK s -> TopOK sx.
Proof. intros s tfx sx (h1 & h2 & h3 & h4 & h5 & h6 & h7 & h8). apply TopOK_same; auto. Qed.

(* an abrupt outcome raised under our own frame: either the frame was skipped (then it is as if raised at s),
   or it stopped at our frame: every register is s's *)
Lemma asif_own_frame : forall s tfx sx s2 o,
  Framed s tfx sx -> snap_of tfx s -> t_marker tfx = false -> AsIf sx s2 o ->
  AsIf s s2 o \/
  (exists p, skippable p tfx = false /\
     o = (if t_catch tfx then OCaught (length (ts s)) HCatch p else OCaught (length (ts s)) HFin p) /\
     Framed s (flagged tfx) s2 /\ sp s2 = (if t_catch tfx then sp s + 1 else sp s)).
Proof.
  intros s tfx sx s2 o F Sn Mk (p & s'' & E & R & O).
  pose proof F as (h1 & h2 & h3 & h4 & h5 & h6 & h7 & h8).
  assert (Es : Ext s s'') by (eapply Ext_trans; eauto using Framed_Ext).
  rewrite h8 in R, O.
  destruct (skippable p tfx) eqn:Sk.
  - left. exists p, s''. cbn [handle_loop] in R, O. rewrite Sk in R, O. auto.
  - right. exists p. split; auto.
    destruct Es as (xs & ys & k & Hx & Hb).
    change (tfx :: ts s) with ([] ++ tfx :: ts s) in R, O.
    pose proof (handle_loop_restores p tfx s [] (ts s) s'' xs ys k Sn Sk eq_refl Hx) as W.
    cbv zeta in W. destruct W as (w1 & w2 & w3 & w4 & w5 & w6 & w7 & _ & _ & _ & _ & _ & _ & w8).
    rewrite Mk in w5, w8. cbn [negb andb] in w5.
    unfold bottom_ok in Hb. rewrite Hb in w6. apply triple_inv in w6. destruct w6 as (v1 & v2 & v3).
    apply regs_inv in R. destruct R as (r1 & r2 & r3 & r4 & r5 & r6 & r7 & r8 & r9).
    split. { rewrite O. exact w8. }
    split. { unfold Framed. repeat split; congruence. }
    rewrite r1, w5. reflexivity.
Qed.

Lemma flagged_snap : forall tf s, snap_of tf s -> snap_of (flagged tf) s.
Proof. intros tf s H. unfold flagged. destruct (t_marker tf); auto. Qed.

Definition dead (tf : tframe) : Prop := t_marker tf = false /\ t_catch tf = false /\ t_fin tf = false.
Lemma dead_skippable : forall p tf, dead tf -> skippable p tf = true.
Proof. intros p tf (a & b & c). unfold skippable. rewrite a, b, c. reflexivity. Qed.

Lemma AsIf_dead : forall s d sx s2 o, Framed s d sx -> snap_of d s -> dead d -> AsIf sx s2 o -> AsIf s s2 o.
Proof.
  intros s d sx s2 o F Sn Dd A. destruct (asif_own_frame s d sx s2 o F Sn (proj1 Dd) A) as [H|(p & Sk & _)]; auto.
  rewrite (dead_skippable p d Dd) in Sk. discriminate.
Qed.

(* sequencing through an intermediate state that is not register-equal to s *)
Lemma GInv_bind : forall (P2 Q : state -> state -> outcome -> Prop) s s2 s2' r (K : Prop),
  (dv s <= dv s2)%nat -> (fixed = true -> dv s2 = dv s) -> (dv s2 = dv s -> TopOK s -> K) ->
  dv s2' = dv s2 ->
  GInv P2 s2' r ->
  (K -> TopOK s -> TopOK s2') ->
  (K -> TopOK s -> P2 s2' (fst r) (snd r) -> Q s (fst r) (snd r)) ->
  GInv Q s r.
Proof.
  intros P2 Q s s2 s2' r K A B C D (A2 & B2 & C2) HT HQ. split; [lia|split].
  - intros F. rewrite B2, D, B; auto.
  - intros E T. assert (E1 : dv s2 = dv s) by lia. assert (E2 : dv (fst r) = dv s2') by lia.
    specialize (C E1 T). apply HQ; auto.
Qed.

(* ---- chains: what is known about an intermediate state s2 of a computation started at s ---- *)
Definition Chain (s s2 : state) (K : Prop) : Prop :=
  (dv s <= dv s2)%nat /\ (fixed = true -> dv s2 = dv s) /\ (dv s2 = dv s -> TopOK s -> K).

Lemma Chain_start : forall s s1 (K : Prop), dv s1 = dv s -> (TopOK s -> K) -> Chain s s1 K.
Proof. intros. split; [lia|split]; auto. Qed.

Lemma Chain_GInv : forall (P : state -> state -> outcome -> Prop) s r, Chain s (fst r) (P s (fst r) (snd r)) -> GInv P s r.
Proof. intros P s r H. exact H. Qed.

Lemma Chain_bind : forall (P2 : state -> state -> outcome -> Prop) s s2 s2' r (K K' : Prop),
  Chain s s2 K -> dv s2' = dv s2 -> GInv P2 s2' r ->
  (K -> TopOK s -> TopOK s2') ->
  (K -> TopOK s -> P2 s2' (fst r) (snd r) -> K') ->
  Chain s (fst r) K'.
Proof.
  intros P2 s s2 s2' r K K' (A & B & C) D (A2 & B2 & C2) HT HK. split; [lia|split].
  - intros F. rewrite B2, D, B; auto.
  - intros E T. assert (E1 : dv s2 = dv s) by lia. assert (E2 : dv (fst r) = dv s2') by lia.
    specialize (C E1 T). apply HK; auto.
Qed.

Lemma Chain_state : forall s s2 s2' (K K' : Prop),
  Chain s s2 K -> dv s2' = dv s2 -> (K -> TopOK s -> K') -> Chain s s2' K'.
Proof. intros s s2 s2' K K' (A & B & C) D H. split; [lia|split]. intros; rewrite D; auto. intros E T. apply H; auto. apply C; auto; lia. Qed.

Lemma Chain_raise : forall p s s2 s3 (K : Prop),
  Chain s s2 K -> dv s3 = dv s2 -> (K -> TopOK s -> Ext s s3 /\ ts s3 = ts s) -> GInv PostJ s (raise0 p s3).
Proof.
  intros p s s2 s3 K (A & B & C) D H.
  eapply (raise_inv' p s s s3 (dv s2 = dv s)); try reflexivity; try lia.
  - intros F. rewrite D. auto.
  - intros E T. apply H; auto.
Qed.

Section WithEx.
Variable ex : node -> state -> state * outcome.
Hypothesis Hex : forall nd s, Inv s (ex nd s).

Lemma run_items_inv : forall ns s, GInv PostJ s (run_items ex ns s).
Proof.
  induction ns as [|n r IH]; intros s; simpl.
  - destruct (intr s). { apply raise_inv; auto using Ext_refl. }
    apply GInv_ret; simpl; auto.
  - destruct (intr s). { apply raise_inv; auto using Ext_refl. }
    pose proof (Hex n s) as H. destruct (ex n s) as [s1 o]. destruct o.
    + exact (GInv_seq PostJ s s1 _ PostJ_base H (IH s1)).
    + destruct H as (A & B & C). split; [|split]; simpl in *; auto.
    + destruct H as (A & B & C). split; [|split]; simpl in *; auto.
    + destruct H as (A & B & C). split; [|split]; simpl in *; auto.
    + destruct H as (A & B & C). split; [|split]; simpl in *; auto.
    + destruct H as (A & B & C). split; [|split]; simpl in *; auto.
Qed.

Lemma run_acts_inv : forall ns s, GInv PostG s (run_acts ex ns s).
Proof.
  induction ns as [|n r IH]; intros s; simpl.
  - apply GInv_ret; simpl; auto.
  - pose proof (Hex n s) as H. destruct (ex n s) as [s1 o]. destruct o.
    + exact (GInv_seq PostG s s1 _ PostG_base H (IH s1)).
    + destruct H as (A & B & C). split; [|split]; simpl in *; auto.
    + destruct H as (A & B & C). split; [|split]; simpl in *; auto.
    + destruct H as (A & B & C). split; [|split]; simpl in *; auto.
    + destruct H as (A & B & C). split; [|split]; simpl in *; auto.
    + destruct H as (A & B & C). split; [|split]; simpl in *; auto.
Qed.


(* a run loop whose panic marker was pushed at sm and that runs from an extension s4 of sm: either it returns with
   s4's registers, or it unwound to the marker: the stacks, scope and sp are sm's *)
Lemma loop_under_marker : forall sm s4 body,
  ts s4 = new_frame true false false sm :: ts sm -> Ext0 sm s4 ->
  let r := loop_out (run_items ex body s4) in
  (dv s4 <= dv (fst r))%nat /\ (fixed = true -> dv (fst r) = dv s4) /\
  (dv (fst r) = dv s4 -> TopOK s4 ->
     match snd r with
     | ONorm => regs (fst r) = regs s4
     | OPanic p =>
         cs (fst r) = cs sm /\ its (fst r) = its sm /\ refs (fst r) = refs sm /\ stash (fst r) = stash sm /\
         sp (fst r) = sp sm /\ ts (fst r) = ts s4 /\
         (Ext sm s4 -> prg (fst r) = prg sm /\ sb (fst r) = sb sm /\ args (fst r) = args sm)
     | _ => True
     end).
Proof.
  intros sm s4 body Hts E0 r. subst r.
  destruct (run_items_inv body s4) as (A & B & C).
  rewrite loop_out_fst. split; [auto|split; [auto|]]. intros D T. specialize (C D T).
  destruct (run_items ex body s4) as [s5 o]. simpl in *. destruct o; simpl in *; auto; try contradiction.
  destruct C as (p' & s'' & E & R & O). rewrite Hts in R, O.
  change (new_frame true false false sm :: ts sm) with ([] ++ new_frame true false false sm :: ts sm) in R, O.
  apply regs_inv in R. destruct R as (r1 & r2 & r3 & r4 & r5 & r6 & r7 & r8 & r9).
  assert (Hweak : Ext0 sm s'') by (eapply Ext0_trans; eauto using Ext_Ext0).
  destruct Hweak as (xs & ys & k & Hx).
  pose proof (handle_loop_restores p' _ sm [] (ts sm) s'' xs ys k (snap_new_frame _ _ _ sm) (marker_not_skippable p' sm) eq_refl Hx) as W.
  cbv zeta in W. destruct W as (w1 & w2 & w3 & w4 & w5 & w6 & w7 & _ & _ & _ & _ & _ & _ & w8).
  cbn [t_marker new_frame negb andb] in w5, w8.
  rewrite w8 in O. inversion O; subst p'.
  do 5 (split; [congruence|]). split.
  - rewrite r7, w7. unfold flagged. cbn. rewrite Hts. reflexivity.
  - intros Es. assert (Hs : Ext sm s'') by (eapply Ext_trans; eauto).
    destruct Hs as (xs' & ys' & k' & Hx' & Hb).
    pose proof (handle_loop_restores p _ sm [] (ts sm) s'' xs' ys' k' (snap_new_frame _ _ _ sm) (marker_not_skippable p sm) eq_refl Hx') as W.
    cbv zeta in W. destruct W as (_ & _ & _ & _ & _ & v6 & _).
    unfold bottom_ok in Hb. rewrite Hb in v6. inversion v6. repeat split; congruence.
Qed.

Lemma reentry_invN : forall n body s, GInvN PostG s (reentry lim ex n body s).
Proof.
  intros n body s. unfold reentry.
  set (sa := add_sp (2 + n) s). set (s1 := push_try true false false sa).
  destruct (over lim s1).
  { split; [|split]; simpl; auto. intros _. unfold same_but_sp. cbn. auto 10. }
  change (prg s1) with (prg s).
  set (s4 := set_sb (sp s + 1) (set_stash 0 (set_prg true (set_args n
              (if prg s then set_cs (halt_ctx :: cs (push_ctx s1)) (push_ctx s1) else push_ctx s1))))).
  assert (Hts : ts s4 = new_frame true false false sa :: ts sa) by (unfold s4; destruct (prg s); reflexivity).
  assert (Hcs : cs s4 = (if prg s then [halt_ctx; cur_ctx s1] else [cur_ctx s1]) ++ cs s).
  { unfold s4. destruct (prg s); reflexivity. }
  assert (Hits : its s4 = its s) by (unfold s4; destruct (prg s); reflexivity).
  assert (Hrefs : refs s4 = refs s) by (unfold s4; destruct (prg s); reflexivity).
  assert (Hsb : sb s4 = sp s + 1) by (unfold s4; destruct (prg s); reflexivity).
  assert (HE : Ext sa s4).
  { exists (if prg s then [halt_ctx; cur_ctx s1] else [cur_ctx s1]), [], 0%nat. split.
    - constructor; auto.
    - unfold bottom_ok, bottom_regs. destruct (prg s); reflexivity. }
  assert (Hdv : dv s4 = dv s) by (unfold s4; destruct (prg s); reflexivity).
  assert (HT : TopOK s4). { apply TopOK_ne. rewrite Hcs. destruct (prg s); discriminate. }
  clearbody s4.
  pose proof (loop_under_marker sa s4 body Hts (Ext_Ext0 _ _ HE)) as L. cbv zeta in L.
  pose proof (loop_out_cases (run_items ex body s4)) as Sh.
  destruct (loop_out (run_items ex body s4)) as [s5 o]. simpl in L, Sh. destruct L as (A & B & C).
  destruct o; try contradiction.
  - (* normal return *)
    assert (Dres : forall b : bool, dv (pop_try (add_sp (-1) (if b then pop_ctx (pop_ctx (set_sp (sb s5) s5)) else pop_ctx (set_sp (sb s5) s5)))) = dv s5).
    { intros b. unfold dv. destruct b; cbn; rewrite ?leaked_pop_ctx; reflexivity. }
    split; [|split]; simpl; rewrite Dres.
    + lia.
    + intros F. rewrite B; auto.
    + intros D. assert (D5 : dv s5 = dv s4) by lia.
      specialize (C D5 HT). apply regs_inv in C. destruct C as (c1 & c2 & c3 & c4 & c5 & c6 & c7 & c8 & c9).
      rewrite Hcs in c6. rewrite Hts in c7.
      destruct (prg s) eqn:Hp.
      * rewrite (pop_ctx_eq (set_sp (sb s5) s5) halt_ctx (cur_ctx s1 :: cs s)) by exact c6.
        rewrite (pop_ctx_eq _ (cur_ctx s1) (cs s)) by reflexivity.
        apply regs_intro; cbn; try congruence. lia. rewrite c7. reflexivity.
      * rewrite (pop_ctx_eq (set_sp (sb s5) s5) (cur_ctx s1) (cs s)) by exact c6.
        apply regs_intro; cbn; try congruence. lia. rewrite c7. reflexivity.
  - (* unwound to the marker *)
    split; [|split]; simpl.
    + unfold dv in *. cbn. lia.
    + intros F. specialize (B F). unfold dv in *. cbn. lia.
    + intros D. assert (D5 : dv s5 = dv s4) by (unfold dv in *; cbn in D; lia).
      destruct (C D5 HT) as (c1 & c2 & c3 & c4 & c5 & c6 & c7). destruct (c7 HE) as (c8 & c9 & c10).
      unfold same_but_sp. cbn. rewrite c6, Hts. cbn. repeat split; congruence.
  - split; [|split]; simpl; [unfold dv in *; cbn; lia | intros F; specialize (B F); unfold dv in *; cbn; lia | auto].
Qed.

Lemma reentry_inv : forall n body s, GInv PostG s (reentry lim ex n body s).
Proof. intros. apply GInvN_GInv. apply reentry_invN. Qed.

(* ---- restoreStacks' walk: every return() call restores the registers; the iterator stack is untouched ---- *)
Definition PostC (s s' : state) (o : outcome) : Prop :=
  match o with ONorm | OPanic _ => regs s' = regs s | OStuck => True | _ => False end.

Lemma close_items_inv : forall items s, GInvN PostC s (close_items lim ex items s).
Proof.
  induction items as [|[id [body|]] r IH]; intros s; simpl.
  - split; [|split]; simpl; auto.
  - pose proof (vm_try_invN (reentry lim ex 0 body) s (reentry_invN 0 body)) as (A & B & C).
    destruct (vm_try (reentry lim ex 0 body) s) as [s1 o]. simpl in A, B, C.
    destruct o.
    + destruct (IH s1) as (A' & B' & C'). split; [lia|split].
      * intros F. rewrite B', B; auto.
      * intros D. assert (D1 : dv s1 = dv s) by lia. assert (D2 : dv (fst (close_items lim ex r s1)) = dv s1) by lia.
        specialize (C D1). specialize (C' D2). simpl in C. destruct (snd (close_items lim ex r s1)); simpl in *; auto; congruence.
    + split; [|split]; simpl; auto.
    + destruct (IH s1) as (A' & B' & C'). split; [lia|split].
      * intros F. rewrite B', B; auto.
      * intros D. assert (D1 : dv s1 = dv s) by lia. assert (D2 : dv (fst (close_items lim ex r s1)) = dv s1) by lia.
        specialize (C D1). specialize (C' D2). simpl in C. destruct (snd (close_items lim ex r s1)); simpl in *; auto; congruence.
    + split; [|split]; simpl; auto.
    + split; [|split]; simpl; auto.
    + split; [|split]; simpl; auto.
  - destruct (IH (set_log (log s ++ [close_ev id]) s)) as (A & B & C). split; [|split]; auto.
Qed.

Lemma with_regs_of_regs : forall s s1, regs (with_regs_of s s1) = regs s.
Proof. reflexivity. Qed.

(* handleThrow with the walk: as if the exception had been raised (purely) in the same state *)
Lemma raiseE_inv' : forall inrec p s s1 s3 (K : Prop),
  dv s1 = dv s -> (dv s1 <= dv s3)%nat -> (fixed = true -> dv s3 = dv s1) -> (dv s3 = dv s1 -> K) ->
  (K -> TopOK s -> Ext s s3 /\ ts s3 = ts s) -> GInv PostJ s (raise lim ex inrec p s3).
Proof.
  intros inrec p s s1 s3 K D A B C H. unfold raise, close_phase.
  (* the pure handleThrow applied to a state with s3's registers *)
  assert (Pure : forall q sx, dv sx = dv s3 -> regs sx = regs s3 -> GInv PostJ s (handle_throw q sx)).
  { intros q sx Dx Rx. apply (raise_inv' q s s1 sx K); try lia.
    - intros F. rewrite Dx; auto.
    - intros E. apply C. lia.
    - intros k T. destruct (H k T) as (E & Tt). apply regs_inv in Rx.
      destruct Rx as (c1 & c2 & c3 & c4 & c5 & c6 & c7 & c8 & c9). split; [|congruence].
      destruct E as (xs & ys & kk & [e1 e2 e3] & Eb). exists xs, ys, kk. split. constructor; congruence.
      unfold bottom_ok, bottom_regs in *. destruct xs; congruence. }
  destruct (catchable p) eqn:Hc; [|apply Pure; reflexivity].
  destruct (target p (ts s3)) as [[tf rest]|] eqn:Ht; [|apply Pure; reflexivity].
  destruct (target_spec p (ts s3) tf rest Ht) as (above & Ets & Hab & Hns).
  set (sm := set_ts (tf :: rest) (restore_regs tf s3)).
  assert (Dm : dv sm = dv s3).
  { unfold sm, dv. cbn -[restore_regs]. destruct (restore_regs_fields tf s3) as (_ & _ & _ & _ & _ & _ & L & _). rewrite L. reflexivity. }
  destruct (close_items_inv (firstn (length (its sm) - t_iter tf) (its sm)) sm) as (A' & B' & C').
  destruct (close_items lim ex (firstn (length (its sm) - t_iter tf) (its sm)) sm) as [s4 o]. simpl in A', B', C'.
  destruct o.
  - (* all the return() calls came back: the pure part finishes *)
    unfold handle_throw.
    pose proof (handle_loop_leaked p (ts s4) s4) as L4.
    pose proof (handle_loop_outcome p (ts s4) s4) as O4.
    destruct (handle_loop p (ts s4) s4) as [s' o'] eqn:Hh. simpl in L4, O4.
    eapply (GInv_map PostJ s s1 s4 s' o' (K /\ regs s4 = regs sm)); try lia.
    + intros F. rewrite B', Dm, B; auto.
    + intros E. split. apply C. lia. apply C'. lia.
    + unfold dv. rewrite L4. reflexivity.
    + intros (k & R4) T. destruct (H k T) as (E & Tt).
      assert (Hts4 : ts s4 = tf :: rest). { apply regs_inv in R4. destruct R4 as (_ & _ & _ & _ & _ & _ & c7 & _). rewrite c7. reflexivity. }
      rewrite Hts4 in Hh.
      destruct (handle_after_regs p tf rest s3 s4 Hns R4) as (R & O). rewrite Hh in R, O. simpl in R, O.
      assert (AI : AsIf s s' o').
      { exists p, s3. rewrite <- Tt, Ets, (handle_loop_skip p above _ s3 Hab). auto. }
      destruct o'; simpl; auto; contradiction.
  - split; [|split]; simpl in *; [lia | intros F; rewrite B', Dm, B; auto | intros E; exfalso; apply C'; lia].
  - split; [|split]; simpl in *; [lia | intros F; rewrite B', Dm, B; auto | intros E; exfalso; apply C'; lia].
  - (* an uncatchable panic left a return() call *)
    assert (G : GInv PostJ s (handle_throw p0 (with_regs_of s3 s4))).
    { apply (raise_inv' p0 s s1 (with_regs_of s3 s4) K); try (unfold dv in *; cbn; lia).
      - intros F. unfold dv in *. cbn. rewrite B', Dm, B; auto.
      - intros E. apply C. unfold dv in *. cbn in E. lia.
      - intros k T. destruct (H k T) as (E & Tt). split; [|exact Tt].
        destruct E as (xs & ys & kk & [e1 e2 e3] & Eb). exists xs, ys, kk. split. constructor; auto. exact Eb. }
    exact G.
  - split; [|split]; simpl in *; [lia | intros F; rewrite B', Dm, B; auto | intros E; exfalso; apply C'; lia].
  - split; [|split]; simpl in *; [lia | intros F; rewrite B', Dm, B; auto | auto].
Qed.

Lemma raiseE_inv : forall inrec p s s1, Ext s s1 -> ts s1 = ts s -> dv s1 = dv s ->
  GInv PostJ s (raise lim ex inrec p s1).
Proof. intros. apply (raiseE_inv' inrec p s s1 s1 True); auto. Qed.

Lemma Chain_raiseE : forall inrec p s s2 s3 (K : Prop),
  Chain s s2 K -> dv s3 = dv s2 -> (K -> TopOK s -> Ext s s3 /\ ts s3 = ts s) ->
  GInv PostJ s (raise lim ex inrec p s3).
Proof.
  intros inrec p s s2 s3 K (A & B & C) D H.
  eapply (raiseE_inv' inrec p s s s3 (dv s2 = dv s)); try reflexivity; try lia.
  - intros F. rewrite D. auto.
  - intros E T. apply H; auto.
Qed.



(* a Go function called from a run loop *)
Lemma native_call_inv : forall n (f : state -> state * outcome) s,
  (forall s2, GInv PostG s2 (f s2)) -> GInv PostJ s (native_call lim ex n f s).
Proof.
  intros n f s Hf. unfold native_call. set (s1 := add_sp (2 + n) s).
  destruct (over lim s1).
  { apply raise_inv; auto. apply Ext_same; reflexivity. }
  set (s2 := set_sb (sp s1 - n) (set_prg false (push_ctx s1))).
  destruct (Hf s2) as (A & B & C).
  assert (T2 : TopOK s2) by (apply TopOK_ne; discriminate).
  destruct (f s2) as [s3 o]. simpl in A, B, C. destruct o.
  - eapply (GInv_map PostJ s s2 s3 _ _ (PostG s2 s3 ONorm)); eauto; try reflexivity.
    { unfold dv. cbn. rewrite leaked_pop_ctx. reflexivity. }
    intros k T. simpl in k. apply regs_inv in k. destruct k as (c1 & c2 & c3 & c4 & c5 & c6 & c7 & c8 & c9).
    simpl. unfold s2, s1 in *. cbn in c1, c2, c3, c4, c5, c6, c7, c8, c9.
    rewrite (pop_ctx_eq s3 _ _ c6). rsolve.
  - split; [|split]; simpl in *; auto.
  - split; [|split]; simpl in *; auto.
  - eapply (raiseE_inv' true p s s2 s3 (PostG s2 s3 (OPanic p))); eauto; try reflexivity.
    intros k T. simpl in k. destruct k as (c2 & c3 & c4 & c5 & c6 & c7 & c8 & c9). split; [|exact c7].
    exists [cur_ctx s1], [], 0%nat. split. constructor; simpl; auto. reflexivity.
  - split; [|split]; simpl in *; auto.
  - split; [|split]; simpl in *; auto.
Qed.




(*INSERT*)
(* ---- JS function called from a run loop ---- *)
Lemma call_node_inv : forall body s, GInv PostJ s (call_node lim ex body s).
Proof.
  intros body s. unfold call_node.
  destruct (over lim (add_sp 2 s)).
  { apply raise_inv; auto. apply Ext_same; reflexivity. }
  set (s1 := call_enter s).
  assert (E1 : Ext s s1).
  { exists [cur_ctx (add_sp 2 s)], [], 0%nat. split. constructor; reflexivity. reflexivity. }
  assert (T1 : TopOK s1) by (apply TopOK_ne; discriminate).
  pose proof (run_items_inv body s1) as H. destruct (run_items ex body s1) as [s3 o].
  destruct o; try (apply (PostJ_pass s s1); auto; discriminate).
  destruct H as (A & B & C). simpl in A, B, C.
  eapply (GInv_map PostJ s s1 s3 _ _ (regs s3 = regs s1)); eauto; try reflexivity.
  { unfold dv. cbn. rewrite leaked_pop_ctx. reflexivity. }
  intros k T. apply regs_inv in k. destruct k as (c1 & c2 & c3 & c4 & c5 & c6 & c7 & c8 & c9).
  unfold s1 in *. cbn in c1, c2, c3, c4, c5, c6, c7, c8, c9. simpl.
  rewrite (pop_ctx_eq s3 _ _ c6). rsolve.
Qed.

(* ---- try / catch / finally ---- *)
Lemma frame_pass : forall s tfx sx s2' s3 o (K : Prop),
  Chain s s2' K -> dv sx = dv s2' -> GInv PostJ sx (s3, o) ->
  (K -> Framed s tfx sx /\ snap_of tfx s /\ t_marker tfx = false) ->
  (forall p, o <> (if t_catch tfx then OCaught (length (ts s)) HCatch p else OCaught (length (ts s)) HFin p)) ->
  o <> ONorm -> GInv PostJ s (s3, o).
Proof.
  intros s tfx sx s2' s3 o K Ch D G HK Hne Hn.
  apply Chain_GInv. eapply (Chain_bind PostJ s s2' sx (s3, o) K); eauto.
  - intros k T. destruct (HK k) as (F & _). eapply Framed_TopOK; eauto.
  - intros k T Pj. simpl in *. destruct (HK k) as (F & Sn & Mk).
    destruct o; simpl in *; auto; try congruence.
    + destruct (asif_own_frame s tfx sx s3 _ F Sn Mk Pj) as [H|(q & _ & O & _)]; auto. exfalso. eapply Hne; eauto.
    + destruct (asif_own_frame s tfx sx s3 _ F Sn Mk Pj) as [H|(q & _ & O & _)]; auto. exfalso. eapply Hne; eauto.
Qed.

Lemma dead_pass : forall s d sx s2' s3 o (K : Prop),
  Chain s s2' K -> dv sx = dv s2' -> GInv PostJ sx (s3, o) ->
  (K -> Framed s d sx /\ snap_of d s /\ dead d) ->
  o <> ONorm -> GInv PostJ s (s3, o).
Proof.
  intros s d sx s2' s3 o K Ch D G HK Hn.
  apply Chain_GInv. eapply (Chain_bind PostJ s s2' sx (s3, o) K); eauto.
  - intros k T. destruct (HK k) as (F & _). eapply Framed_TopOK; eauto.
  - intros k T Pj. simpl in *. destruct (HK k) as (F & Sn & Dd).
    destruct o; simpl in *; auto; try congruence; try contradiction; eapply AsIf_dead; eauto.
Qed.

Lemma try_dofin_inv : forall fin s s2 sx d p (K : Prop),
  Chain s s2 K -> dv sx = dv s2 -> (K -> Framed s d sx /\ snap_of d s /\ dead d) ->
  GInv PostJ s (try_dofin lim ex fin sx p).
Proof.
  intros fin s s2 sx d p K Ch D HK. unfold try_dofin.
  pose proof (run_items_inv fin sx) as G. destruct (run_items ex fin sx) as [s3 o].
  destruct o; try (apply (dead_pass s d sx s2 s3 _ K Ch D G HK); discriminate).
  (* finally completed: leaveFinally pops the frame and re-throws *)
  eapply (Chain_raiseE false p s s3 (pop_try s3) (K /\ regs s3 = regs sx)); try reflexivity.
  + eapply (Chain_bind PostJ s s2 sx (s3, ONorm) K); eauto.
    intros k T. destruct (HK k) as (F & _). eapply Framed_TopOK; eauto.
  + intros (k & R) T. destruct (HK k) as ((h1 & h2 & h3 & h4 & h5 & h6 & h7 & h8) & _).
    apply regs_inv in R. destruct R as (c1 & c2 & c3 & c4 & c5 & c6 & c7 & c8 & c9).
    split. apply Ext_same; cbn; congruence. cbn. rewrite c7, h8. reflexivity.
Qed.

Definition dead_of (tf : tframe) : tframe := mkTf (t_csl tf) (t_iter tf) (t_ref tf) (t_sp tf) (t_stash tf) false false false.

Lemma try_finish_inv : forall fin s s2 sx tfx (K : Prop),
  Chain s s2 K -> dv sx = dv s2 ->
  (K -> Framed s tfx sx /\ snap_of tfx s /\ t_marker tfx = false /\ sp sx = sp s) ->
  GInv PostJ s (try_finish ex fin sx).
Proof.
  intros fin s s2 sx tfx K Ch D HK. unfold try_finish.
  destruct (ts sx) as [|tf rest] eqn:Hts.
  { apply Chain_GInv. simpl. eapply Chain_state; eauto. }
  assert (Heq : K -> tf = tfx /\ rest = ts s).
  { intros k. destruct (HK k) as ((_ & _ & _ & _ & _ & _ & _ & h8) & _). rewrite Hts in h8. inversion h8. auto. }
  destruct (t_fin tf) eqn:Hf.
  - set (s' := set_stash (t_stash tf) (set_sp (t_sp tf) (dead_top sx))).
    assert (Hs' : s' = set_stash (t_stash tf) (set_sp (t_sp tf) (set_ts (dead_of tf :: rest) sx))).
    { unfold s', dead_top. rewrite Hts. reflexivity. }
    assert (D' : dv s' = dv s2). { rewrite Hs'. exact D. }
    pose proof (run_items_inv fin s') as G. destruct (run_items ex fin s') as [s3 o].
    assert (HKd : K -> Framed s (dead_of tf) s' /\ snap_of (dead_of tf) s /\ dead (dead_of tf)).
    { intros k. destruct (HK k) as ((h1 & h2 & h3 & h4 & h5 & h6 & h7 & h8) & (n1 & n2 & n3 & n4 & n5) & Mk & Hsp).
      destruct (Heq k) as (E1 & E2). subst tfx rest. rewrite Hs'.
      split; [|split].
      - unfold Framed. cbn. repeat split; auto.
      - unfold snap_of, dead_of. cbn. auto.
      - unfold dead, dead_of. cbn. auto. }
    destruct o; try (apply (dead_pass s (dead_of tf) s' s2 s3 _ K Ch D' G HKd); discriminate).
    apply Chain_GInv. simpl.
    eapply (Chain_state s s3 (pop_try s3) (K /\ regs s3 = regs s')); try reflexivity.
    + eapply (Chain_bind PostJ s s2 s' (s3, ONorm) K); eauto.
      intros k T. destruct (HKd k) as (F & _). eapply Framed_TopOK; eauto.
    + intros (k & R) T. destruct (HKd k) as ((h1 & h2 & h3 & h4 & h5 & h6 & h7 & h8) & _).
      destruct (HK k) as (_ & (n1 & n2 & n3 & n4 & n5) & _). destruct (Heq k) as (E1 & E2). subst tfx.
      apply regs_inv in R. destruct R as (c1 & c2 & c3 & c4 & c5 & c6 & c7 & c8 & c9).
      assert (Hsp' : sp s' = sp s) by (rewrite Hs'; cbn; auto).
      rsolve.
  - apply Chain_GInv. simpl. eapply Chain_state; eauto.
    intros k T. destruct (HK k) as ((h1 & h2 & h3 & h4 & h5 & h6 & h7 & h8) & _ & _ & Hsp). rsolve.
Qed.

Lemma flagged_flagged_dead : forall tf, t_marker tf = false -> t_catch tf = false -> dead (flagged tf).
Proof. intros tf M C. unfold dead, flagged. rewrite M, C. cbn. auto. Qed.
Lemma flagged_marker : forall tf, t_marker tf = false -> t_marker (flagged tf) = false.
Proof. intros tf M. unfold flagged. rewrite M. reflexivity. Qed.
Lemma flagged_catch : forall tf, t_marker tf = false -> t_catch (flagged tf) = false.
Proof. intros tf M. unfold flagged. rewrite M. reflexivity. Qed.

Lemma try_node_inv : forall body cat fin hc hf s, GInv PostJ s (try_node lim ex body cat fin hc hf s).
Proof.
  intros body cat fin hc hf s. unfold try_node.
  set (tf := new_frame false hc hf s). set (s1 := push_try false hc hf s).
  assert (F1 : Framed s tf s1) by (unfold Framed; cbn; auto 10).
  assert (Sn : snap_of tf s) by apply snap_new_frame.
  assert (Mk : t_marker tf = false) by reflexivity.
  assert (Ch0 : Chain s s True) by (apply Chain_start; auto).
  pose proof (run_items_inv body s1) as Hb. destruct (run_items ex body s1) as [s2 o].
  assert (Hpass : forall o', o' <> ONorm ->
            (forall p, o' <> (if t_catch tf then OCaught (length (ts s)) HCatch p else OCaught (length (ts s)) HFin p)) ->
            GInv PostJ s1 (s2, o') -> GInv PostJ s (s2, o')).
  { intros o' Hn Hne G. eapply (frame_pass s tf s1 s s2 o' True); eauto. }
  destruct o.
  - (* body completed *)
    eapply (try_finish_inv fin s s2 s2 tf (regs s2 = regs s1)); try reflexivity.
    + eapply (Chain_bind PostJ s s s1 (s2, ONorm) True); eauto; intros _ T; eapply Framed_TopOK; eauto.
    + intros R. apply regs_inv in R. destruct R as (c1 & c2 & c3 & c4 & c5 & c6 & c7 & c8 & c9).
      unfold s1 in *. cbn in c1, c2, c3, c4, c5, c6, c7, c8, c9.
      split; [|auto]. unfold Framed. auto 10.
  - (* caught somewhere *)
    assert (Ch2 : Chain s s2 (AsIf s1 s2 (OCaught i h p))).
    { eapply (Chain_bind PostJ s s s1 (s2, OCaught i h p) True); eauto; intros _ T; eapply Framed_TopOK; eauto. }
    (* what being caught at our own frame means *)
    assert (Own : AsIf s1 s2 (OCaught i h p) -> Nat.eqb i (length (ts s)) = true ->
                  Framed s (flagged tf) s2 /\ sp s2 = (if hc then sp s + 1 else sp s) /\ h = (if hc then HCatch else HFin)).
    { intros A Hi. apply Nat.eqb_eq in Hi.
      destruct (asif_own_frame s tf s1 s2 _ F1 Sn Mk A) as [A'|(q & Sk & O & Fr & Hsp)].
      - apply AsIf_caught_lt in A'. lia.
      - change (t_catch tf) with hc in O, Hsp. destruct hc; inversion O; auto. }
    destruct (Nat.eqb i (length (ts s))) eqn:Hi.
    + destruct h.
      * (* catch block *)
        pose proof (run_items_inv cat (add_sp (-1) s2)) as Hc. destruct (run_items ex cat (add_sp (-1) s2)) as [s3 o'].
        assert (HKc : AsIf s1 s2 (OCaught i HCatch p) ->
                  Framed s (flagged tf) (add_sp (-1) s2) /\ snap_of (flagged tf) s /\ t_marker (flagged tf) = false /\ sp (add_sp (-1) s2) = sp s).
        { intros A. destruct (Own A eq_refl) as ((h1 & h2 & h3 & h4 & h5 & h6 & h7 & h8) & Hsp & Hh).
          destruct hc; [|discriminate].
          split; [|split; [|split]]. unfold Framed; cbn; auto 10. apply flagged_snap; auto. apply flagged_marker; auto. cbn. lia. }
        assert (Chc : Chain s s3 (AsIf s1 s2 (OCaught i HCatch p) /\ PostJ (add_sp (-1) s2) s3 o')).
        { eapply (Chain_bind PostJ s s2 (add_sp (-1) s2) (s3, o')); eauto.
          intros A T. destruct (HKc A) as (F & _). eapply Framed_TopOK; eauto. }
        destruct o'.
        -- (* catch block completed *)
           eapply (try_finish_inv fin s s3 s3 (flagged tf)); eauto.
           intros (A & R). simpl in R. destruct (HKc A) as ((h1 & h2 & h3 & h4 & h5 & h6 & h7 & h8) & Sn' & Mk' & Hsp).
           apply regs_inv in R. destruct R as (c1 & c2 & c3 & c4 & c5 & c6 & c7 & c8 & c9).
           split; [|split; [|split]]; auto. unfold Framed. repeat split; congruence. congruence.
        -- (* the catch block threw *)
           destruct (Nat.eqb i0 (length (ts s))) eqn:Hi0.
           ++ eapply (try_dofin_inv fin s s3 s3 (flagged (flagged tf))); eauto.
              intros (A & Pj). simpl in Pj. destruct (HKc A) as (F & Sn' & Mk' & Hsp).
              destruct (asif_own_frame s (flagged tf) (add_sp (-1) s2) s3 _ F Sn' Mk' Pj) as [A'|(q & Sk & O & Fr & Hsp')].
              ** apply AsIf_caught_lt in A'. apply Nat.eqb_eq in Hi0. lia.
              ** split; [exact Fr|]. split. apply flagged_snap; auto. apply flagged_flagged_dead; auto using flagged_catch.
           ++ apply (frame_pass s (flagged tf) (add_sp (-1) s2) s2 s3 _ _ Ch2 eq_refl Hc);
                [ intros A; destruct (HKc A) as (a1 & a2 & a3 & a4); auto
                | intros q Hq; rewrite flagged_catch in Hq by auto; inversion Hq; subst; rewrite Nat.eqb_refl in Hi0; discriminate
                | discriminate ].
        -- apply (frame_pass s (flagged tf) (add_sp (-1) s2) s2 s3 _ _ Ch2 eq_refl Hc);
             [ intros A; destruct (HKc A) as (a1 & a2 & a3 & a4); auto
             | intros q Hq; rewrite flagged_catch in Hq by auto; inversion Hq
             | discriminate ].
        -- apply (frame_pass s (flagged tf) (add_sp (-1) s2) s2 s3 _ _ Ch2 eq_refl Hc);
             [ intros A; destruct (HKc A) as (a1 & a2 & a3 & a4); auto
             | intros q Hq; rewrite flagged_catch in Hq by auto; inversion Hq
             | discriminate ].
        -- apply (frame_pass s (flagged tf) (add_sp (-1) s2) s2 s3 _ _ Ch2 eq_refl Hc);
             [ intros A; destruct (HKc A) as (a1 & a2 & a3 & a4); auto
             | intros q Hq; rewrite flagged_catch in Hq by auto; inversion Hq
             | discriminate ].
        -- apply (frame_pass s (flagged tf) (add_sp (-1) s2) s2 s3 _ _ Ch2 eq_refl Hc);
             [ intros A; destruct (HKc A) as (a1 & a2 & a3 & a4); auto
             | intros q Hq; rewrite flagged_catch in Hq by auto; inversion Hq
             | discriminate ].
      * (* finally block with the exception pending *)
        eapply (try_dofin_inv fin s s2 s2 (flagged tf)); eauto.
        intros A. destruct (Own A eq_refl) as (Fr & Hsp & Hh).
        destruct hc; [discriminate|].
        split; [exact Fr|]. split. apply flagged_snap; auto. apply flagged_flagged_dead; reflexivity.
    + apply Hpass; auto; try discriminate.
      intros q Hq. destruct (t_catch tf); inversion Hq; subst; rewrite Nat.eqb_refl in Hi; discriminate.
  - apply Hpass; auto; try discriminate. intros q Hq. destruct (t_catch tf); inversion Hq.
  - apply Hpass; auto; try discriminate. intros q Hq. destruct (t_catch tf); inversion Hq.
  - apply Hpass; auto; try discriminate. intros q Hq. destruct (t_catch tf); inversion Hq.
  - apply Hpass; auto; try discriminate. intros q Hq. destruct (t_catch tf); inversion Hq.
Qed.

(* ---- generic pass-through when the inner start state only extends s ---- *)
Lemma ext_pass : forall s sx s2' s3 o (K : Prop),
  Chain s s2' K -> dv sx = dv s2' -> GInv PostJ sx (s3, o) ->
  (K -> Ext s sx /\ ts sx = ts s /\ (TopOK s -> TopOK sx)) ->
  o <> ONorm -> GInv PostJ s (s3, o).
Proof.
  intros s sx s2' s3 o K Ch D G HK Hn.
  apply Chain_GInv. eapply (Chain_bind PostJ s s2' sx (s3, o) K); eauto.
  - intros k T. destruct (HK k) as (_ & _ & TT). auto.
  - intros k T Pj. simpl in *. destruct (HK k) as (E & Tt & _).
    destruct o; simpl in *; auto; try congruence; try contradiction; eapply AsIf_ext; eauto.
Qed.

Lemma GInv_regs_base : forall (P : state -> state -> outcome -> Prop) s sx r,
  (forall a b s' o, regs b = regs a -> P b s' o -> P a s' o) ->
  regs sx = regs s -> dv sx = dv s -> GInv P sx r -> GInv P s r.
Proof.
  intros P s sx r Hb R D (A & B & C). split; [lia|split]. intros; rewrite B; auto.
  intros E T. apply (Hb s sx); auto. apply C. lia. eapply TopOK_regs; eauto.
Qed.

Lemma rec_push_ext : forall k s, Ext s (rec_push k s) /\ ts (rec_push k s) = ts s /\ dv (rec_push k s) = dv s.
Proof.
  induction k as [|k IH]; intros s; simpl.
  - split; [|split]; try reflexivity. apply Ext_same; reflexivity.
  - destruct (IH (call_enter s)) as (E & T & D). split; [|split].
    + eapply Ext_trans; [|exact E]. exists [cur_ctx (add_sp 2 s)], [], 0%nat. split. constructor; reflexivity. reflexivity.
    + rewrite T. reflexivity.
    + rewrite D. reflexivity.
Qed.

(* ---- for-of ---- *)
Lemma forof_loop_inv : forall next body id k s s2 sx (K : Prop),
  Chain s s2 K -> dv sx = dv s2 -> (K -> regs sx = regs (set_its (id :: its s) s)) ->
  GInv PostJ s (forof_loop lim ex next body k sx).
Proof.
  intros next body id. induction k as [|k IH]; intros s s2 sx K Ch D HK.
  - (* last round: next() reports done *)
    simpl.
    assert (HE : K -> TopOK s -> Ext s sx /\ ts sx = ts s).
    { intros k0 T. apply regs_inv in HK; auto. destruct HK as (c1 & c2 & c3 & c4 & c5 & c6 & c7 & c8 & c9). cbn in *.
      split; auto. exists [], [id], 0%nat. split. constructor; simpl; auto. unfold bottom_ok, bottom_regs. congruence. }
    destruct (intr sx). { eapply Chain_raise; eauto. }
    pose proof (vm_try_inv (reentry lim ex 0 next) sx (reentry_inv 0 next)) as G.
    destruct (vm_try (reentry lim ex 0 next) sx) as [s3 o].
    assert (Ch3 : Chain s s3 (K /\ PostR sx s3 o)).
    { eapply (Chain_bind PostR s s2 sx (s3, o) K); eauto. intros k0 T. specialize (HK k0). apply regs_inv in HK.
      destruct HK as (c1 & c2 & c3 & c4 & c5 & c6 & c7 & c8 & c9). cbn in *. eapply TopOK_same; eauto. }
    assert (HE3 : K /\ PostR sx s3 o -> o <> OStuck -> regs s3 = regs (set_its (id :: its s) s)).
    { intros (k0 & R) Hs. rewrite <- (HK k0). destruct o; simpl in R; auto; try contradiction; congruence. }
    destruct o.
    + apply Chain_GInv. simpl. eapply Chain_state; eauto. intros kk T. apply HE3 in kk; [|discriminate].
      apply regs_inv in kk. destruct kk as (c1 & c2 & c3 & c4 & c5 & c6 & c7 & c8 & c9). cbn in *. rsolve. rewrite c8. reflexivity.
    + apply Chain_GInv. simpl. eapply Chain_state; eauto.
    + eapply (Chain_raiseE false p s s3); eauto. intros kk T. apply HE3 in kk; [|discriminate].
      apply regs_inv in kk. destruct kk as (c1 & c2 & c3 & c4 & c5 & c6 & c7 & c8 & c9). cbn in *.
      split; [|cbn; auto]. apply Ext_same; cbn; try congruence. rewrite c8. reflexivity.
    + eapply (Chain_raiseE true p s s3); eauto. intros kk T. apply HE3 in kk; [|discriminate].
      apply regs_inv in kk. destruct kk as (c1 & c2 & c3 & c4 & c5 & c6 & c7 & c8 & c9). cbn in *.
      split; auto. exists [], [id], 0%nat. split. constructor; simpl; auto. unfold bottom_ok, bottom_regs. congruence.
    + apply Chain_GInv. simpl. eapply Chain_state; eauto.
    + apply Chain_GInv. simpl. eapply Chain_state; eauto.
  - simpl.
    assert (HE : K -> TopOK s -> Ext s sx /\ ts sx = ts s).
    { intros k0 T. apply regs_inv in HK; auto. destruct HK as (c1 & c2 & c3 & c4 & c5 & c6 & c7 & c8 & c9). cbn in *.
      split; auto. exists [], [id], 0%nat. split. constructor; simpl; auto. unfold bottom_ok, bottom_regs. congruence. }
    destruct (intr sx). { eapply Chain_raise; eauto. }
    pose proof (vm_try_inv (reentry lim ex 0 next) sx (reentry_inv 0 next)) as G.
    destruct (vm_try (reentry lim ex 0 next) sx) as [s3 o].
    assert (Ch3 : Chain s s3 (K /\ PostR sx s3 o)).
    { eapply (Chain_bind PostR s s2 sx (s3, o) K); eauto. intros k0 T. specialize (HK k0). apply regs_inv in HK.
      destruct HK as (c1 & c2 & c3 & c4 & c5 & c6 & c7 & c8 & c9). cbn in *. eapply TopOK_same; eauto. }
    assert (HE3 : K /\ PostR sx s3 o -> o <> OStuck -> regs s3 = regs (set_its (id :: its s) s)).
    { intros (k0 & R) Hs. rewrite <- (HK k0). destruct o; simpl in R; auto; try contradiction; congruence. }
    destruct o.
    + (* one more element: the loop body *)
      pose proof (run_items_inv body s3) as Gb. destruct (run_items ex body s3) as [s4 o2].
      assert (HK3 : K /\ PostR sx s3 ONorm -> Ext s s3 /\ ts s3 = ts s /\ (TopOK s -> TopOK s3)).
      { intros kk. apply HE3 in kk; [|discriminate].
        apply regs_inv in kk. destruct kk as (c1 & c2 & c3 & c4 & c5 & c6 & c7 & c8 & c9). cbn in *.
        split; [|split]; auto. exists [], [id], 0%nat. split. constructor; simpl; auto. unfold bottom_ok, bottom_regs. congruence.
        apply TopOK_same; auto. }
      destruct o2; try (apply (ext_pass s s3 s3 s4 _ _ Ch3 eq_refl Gb HK3); discriminate).
      eapply (IH s s4 s4 ((K /\ PostR sx s3 ONorm) /\ regs s4 = regs s3)); try reflexivity.
      * eapply (Chain_bind PostJ s s3 s3 (s4, ONorm)); eauto. intros kk T. apply HK3; auto.
      * intros (kk & R). rewrite R. apply HE3; auto. discriminate.
    + apply Chain_GInv. simpl. eapply Chain_state; eauto.
    + eapply (Chain_raiseE false p s s3); eauto. intros kk T. apply HE3 in kk; [|discriminate].
      apply regs_inv in kk. destruct kk as (c1 & c2 & c3 & c4 & c5 & c6 & c7 & c8 & c9). cbn in *.
      split; [|cbn; auto]. apply Ext_same; cbn; try congruence. rewrite c8. reflexivity.
    + eapply (Chain_raiseE true p s s3); eauto. intros kk T. apply HE3 in kk; [|discriminate].
      apply regs_inv in kk. destruct kk as (c1 & c2 & c3 & c4 & c5 & c6 & c7 & c8 & c9). cbn in *.
      split; auto. exists [], [id], 0%nat. split. constructor; simpl; auto. unfold bottom_ok, bottom_regs. congruence.
    + apply Chain_GInv. simpl. eapply Chain_state; eauto.
    + apply Chain_GInv. simpl. eapply Chain_state; eauto.
Qed.

Lemma forof_node_inv : forall id next n body ret s, GInv PostJ s (forof_node lim ex id next n body ret s).
Proof.
  intros id next n body ret s. unfold forof_node.
  pose proof (reentry_inv 0 [] (add_sp 1 s)) as G. destruct (reentry lim ex 0 [] (add_sp 1 s)) as [s1 o].
  assert (Ch : Chain s s1 (PostG (add_sp 1 s) s1 o)).
  { eapply (Chain_bind PostG s s (add_sp 1 s) (s1, o) True);
      [apply Chain_start; auto | reflexivity | exact G | intros _ T; eapply TopOK_same; eauto; reflexivity | auto]. }
  destruct o.
  - apply (forof_loop_inv next body (id, ret) n s s1 (set_its ((id, ret) :: its s1) (add_sp (-1) s1)) _ Ch eq_refl).
    intros R. simpl in R. apply regs_inv in R. destruct R as (c1 & c2 & c3 & c4 & c5 & c6 & c7 & c8 & c9). cbn in *.
    rsolve. rewrite c8. reflexivity.
  - apply Chain_GInv. simpl. eapply Chain_state; eauto.
  - apply Chain_GInv. simpl. eapply Chain_state; eauto.
  - eapply (Chain_raiseE true p s s1); eauto. intros (c2 & c3 & c4 & c5 & c6 & c7 & c8 & c9) T. cbn in *.
    split; auto. apply Ext_same; auto.
  - apply Chain_GInv. simpl. eapply Chain_state; eauto.
  - apply Chain_GInv. simpl. eapply Chain_state; eauto.
Qed.

(* ---- generators and async functions ---- *)
Definition gns (extra : Z) (s : state) : state :=
  set_sp (sp s + 2 + extra) (set_sb (sp s + 1) (set_stash 0 (set_prg true (set_args 0
    (set_cs (halt_ctx :: cs (push_try true false false (push_ctx s))) (push_try true false false (push_ctx s))))))).
Definition ge1 (sa : state) : state := set_sb (-1) (set_prg false (push_try true false false (push_ctx sa))).
Definition ge2 (sa : state) : state := set_sb (sp sa - 1) (set_stash 0 (set_prg true (set_args 0 (push_ctx (ge1 sa))))).

Lemma gen_enter_next_eq : forall extra s,
  gen_enter_next lim extra s = if over lim s then (s, OPanic PSO) else (gns extra s, ONorm).
Proof. reflexivity. Qed.
Lemma gen_enter_eq : forall sa,
  gen_enter lim sa =
    if over lim sa then (sa, OPanic PSO)
    else if over lim (ge1 sa) then (pop_ctx (pop_try (ge1 sa)), OPanic PSO)
    else (ge2 sa, ONorm).
Proof. reflexivity. Qed.


(* the exit of a resumption whose run loop unwound to the resumption's marker (pushed at push_ctx s3) *)
Lemma gen_abort_inv : forall s3 s4 s5 p (K : Prop),
  dv s4 = dv s3 -> (dv s4 <= dv s5)%nat -> (fixed = true -> dv s5 = dv s4) ->
  (dv s5 = dv s4 -> K) ->
  (K -> cs s5 = cur_ctx s3 :: cs s3 /\ its s5 = its s3 /\ refs s5 = refs s3 /\ sp s5 = sp s3 /\
        ts s5 = new_frame true false false (push_ctx s3) :: ts s3) ->
  GInv PostG s3 (gen_abort s5 p, OPanic p).
Proof.
  intros s3 s4 s5 p K D A B C H. unfold gen_abort.
  eapply (GInv_map PostG s3 s4 s5 _ _ K); eauto.
  { unfold dv. rewrite leaked_pop_ctx. reflexivity. }
  intros k T. destruct (H k) as (c6 & c8 & c9 & c1 & c7). simpl. unfold same_but_sp.
  rewrite (pop_ctx_eq (pop_try s5) (cur_ctx s3) (cs s3)) by exact c6. cbn. rewrite c7. cbn. auto 10.
Qed.

Lemma gns_facts : forall extra s3,
  ts (add_sp (- extra) (gns extra s3)) = new_frame true false false (push_ctx s3) :: ts (push_ctx s3) /\
  Ext0 (push_ctx s3) (add_sp (- extra) (gns extra s3)) /\
  cs (add_sp (- extra) (gns extra s3)) = halt_ctx :: cur_ctx s3 :: cs s3 /\
  sb (add_sp (- extra) (gns extra s3)) = sp s3 + 1 /\
  dv (add_sp (- extra) (gns extra s3)) = dv s3 /\
  its (add_sp (- extra) (gns extra s3)) = its s3 /\ refs (add_sp (- extra) (gns extra s3)) = refs s3.
Proof.
  intros. split; [reflexivity|]. split. { exists [halt_ctx], [], 0%nat. constructor; reflexivity. }
  repeat split; reflexivity.
Qed.

Lemma gen_resume_inv : forall extra seg s3, GInv PostG s3 (gen_resume lim ex extra seg s3).
Proof.
  intros extra seg s3. unfold gen_resume. rewrite gen_enter_next_eq.
  destruct (over lim s3). { apply GInv_ret; auto. intros _. simpl. unfold same_but_sp; auto 10. }
  destruct (gns_facts extra s3) as (Hts & HE & Hcs & Hsb & Hdv & Hits & Hrefs).
  set (s4 := add_sp (- extra) (gns extra s3)) in *. clearbody s4.
  assert (HT : TopOK s4) by (apply TopOK_ne; rewrite Hcs; discriminate).
  pose proof (loop_under_marker (push_ctx s3) s4 seg Hts HE) as L. cbv zeta in L.
  pose proof (loop_out_cases (run_items ex seg s4)) as Sh.
  destruct (loop_out (run_items ex seg s4)) as [s5 o]. simpl in L, Sh. destruct L as (A & B & C).
  destruct o; try contradiction.
  - eapply (GInv_map PostG s3 s4 s5 _ _ (regs s5 = regs s4)); eauto.
    { unfold gen_leave, dv. rewrite leaked_pop_ctx. reflexivity. }
    intros R T. simpl. apply regs_inv in R. destruct R as (c1 & c2 & c3 & c4 & c5 & c6 & c7 & c8 & c9).
    rewrite Hcs in c6. rewrite Hts in c7. unfold gen_leave.
    rewrite (pop_ctx_eq _ (cur_ctx s3) (cs s3)) by (cbn; rewrite c6; reflexivity).
    rsolve.
  - eapply (gen_abort_inv s3 s4 s5 p _ Hdv A B); eauto.
    intros k. destruct (k HT) as (c1 & c2 & c3 & c4 & c5 & c6 & _). cbn in *. rewrite c6, Hts. auto.
  - split; [|split]; simpl in *; [lia | intros F; rewrite B; auto | auto].
Qed.

Lemma fixed_cases : fixed = true \/ fixed = false.
Proof. destruct fixed; auto. Qed.



Lemma ge2_facts : forall sa,
  ts (ge2 sa) = new_frame true false false (push_ctx sa) :: ts (push_ctx sa) /\
  Ext0 (push_ctx sa) (ge2 sa) /\
  cs (ge2 sa) = cur_ctx (ge1 sa) :: cur_ctx sa :: cs sa /\
  sb (ge2 sa) = sp sa - 1 /\ dv (ge2 sa) = dv sa /\ its (ge2 sa) = its sa /\ refs (ge2 sa) = refs sa.
Proof.
  intros. split; [reflexivity|]. split. { exists [cur_ctx (ge1 sa)], [], 0%nat. constructor; reflexivity. }
  repeat split; reflexivity.
Qed.

Lemma if_true : forall (A : Type) (b : bool) (x y : A), b = true -> (if b then x else y) = x.
Proof. intros. subst. reflexivity. Qed.
Lemma if_false : forall (A : Type) (b : bool) (x y : A), b = false -> (if b then x else y) = y.
Proof. intros. subst. reflexivity. Qed.

Lemma gen_node_inv : forall seg s, GInv PostJ s (gen_node lim ex seg s).
Proof.
  intros seg s. unfold gen_node. rewrite gen_enter_eq. set (sa := add_sp 2 s).
  assert (Ea : Ext s sa) by (apply Ext_same; reflexivity).
  destruct (over lim sa). { apply raiseE_inv; auto. }
  destruct (over lim (ge1 sa)).
  { apply raiseE_inv; try reflexivity. apply Ext_same; reflexivity. }
  cbv iota beta.
  set (sx := set_sp (sp s) (gen_leave (ge2 sa))).
  assert (R : regs sx = regs s) by reflexivity.
  apply (GInv_regs_base PostJ s sx _ PostJ_base R eq_refl).
  apply native_call_inv. intros. apply gen_resume_inv.
Qed.

Lemma async_node_inv : forall seg1 seg2 s, GInv PostJ s (async_node lim ex seg1 seg2 s).
Proof.
  intros seg1 seg2 s. unfold async_node. rewrite gen_enter_eq. set (sa := add_sp 2 s).
  assert (Ea : Ext s sa) by (apply Ext_same; reflexivity).
  destruct (over lim sa). { apply raiseE_inv; auto. }
  destruct (over lim (ge1 sa)).
  { apply raiseE_inv; try reflexivity. apply Ext_same; reflexivity. }
  cbv iota beta.
  destruct (ge2_facts sa) as (Hts & HE & Hcs & Hsb & Hdv & Hits & Hrefs).
  set (s4 := ge2 sa) in *. clearbody s4.
  assert (HT : TopOK s4) by (apply TopOK_ne; rewrite Hcs; discriminate).
  pose proof (loop_under_marker (push_ctx sa) s4 seg1 Hts HE) as L. cbv zeta in L.
  pose proof (loop_out_cases (run_items ex seg1 s4)) as Sh.
  destruct (loop_out (run_items ex seg1 s4)) as [s5 o]. simpl in L, Sh. destruct L as (A & B & C).
  assert (Hdv' : dv s4 = dv s) by (rewrite Hdv; reflexivity).
  destruct o; try contradiction.
  - (* reached the await: the continuation is queued *)
    eapply (GInv_map PostJ s s4 s5 _ _ (regs s5 = regs s4)); eauto.
    { unfold gen_leave, dv. cbn. rewrite leaked_pop_ctx. reflexivity. }
    intros R T. simpl. apply regs_inv in R. destruct R as (c1 & c2 & c3 & c4 & c5 & c6 & c7 & c8 & c9).
    rewrite Hcs in c6. rewrite Hts in c7. unfold gen_leave.
    rewrite (pop_ctx_eq _ (cur_ctx sa) (cs sa)) by (cbn; rewrite c6; reflexivity).
    unfold sa in *. cbn in *. rsolve.
  - destruct (catchable p) eqn:Hc.
    + (* the exception rejects the promise *)
      eapply (GInv_map PostJ s s4 s5 _ _ (dv s5 = dv s4)); eauto.
      { unfold dv. cbn. rewrite leaked_pop_ctx. reflexivity. }
      intros k T. destruct (C k HT) as (c1 & c2 & c3 & c4 & c5 & c6 & _). simpl.
      rewrite (pop_ctx_eq (pop_try s5) (cur_ctx sa) (cs sa)) by (cbn; rewrite c1; reflexivity).
      unfold sa in *. cbn in *. rewrite Hts in c6. rsolve.
    + unfold gen_abort.
      assert (Dp : dv (pop_ctx (pop_try s5)) = dv s5) by (unfold dv; rewrite leaked_pop_ctx; reflexivity).
      eapply (raiseE_inv' true p s s4 (pop_ctx (pop_try s5)) (dv s5 = dv s4)); eauto; try (rewrite Dp; auto).
      intros k T. destruct (C k HT) as (c1 & c2 & c3 & c4 & c5 & c6 & _).
      rewrite (pop_ctx_eq (pop_try s5) (cur_ctx sa) (cs sa)) by (cbn; rewrite c1; reflexivity).
      unfold sa in *. cbn in *. rewrite Hts in c6. split. apply Ext_same; cbn; congruence. cbn. rewrite c6. reflexivity.
  - split; [|split]; simpl in *; [lia | intros F; rewrite B; auto | auto].
Qed.

(* ---- Go-level loops and boundaries ---- *)
Lemma vm_try_cases : forall f s, match snd (vm_try f s) with OCaught _ _ _ | OEscaped _ => False | _ => True end.
Proof.
  intros f s. unfold vm_try. destruct (f (push_try true false false s)) as [s2 o]. destruct o; simpl; auto.
  destruct (catchable p); simpl; auto.
Qed.

(* restored registers, and a Go-level outcome *)
Definition PostL (s s' : state) (o : outcome) : Prop :=
  match o with OCaught _ _ _ | OUnwound _ | OEscaped _ => False | OStuck => True | _ => regs s' = regs s end.
Lemma PostL_base : forall a b s' o, regs b = regs a -> PostL b s' o -> PostL a s' o.
Proof. intros a b s' o H; destruct o; simpl; auto; congruence. Qed.
Lemma PostL_PostG : forall s s' o, PostL s s' o -> PostG s s' o.
Proof. intros s s' o; destruct o; simpl; auto. apply regs_same_but_sp. Qed.
Lemma PostL_PostR : forall s s' o, PostL s s' o -> PostR s s' o.
Proof. intros s s' o; destruct o; simpl; auto; tauto. Qed.

Lemma nforof_loop_inv : forall id next acts k sx, GInv PostL sx (nforof_loop lim ex id next acts k sx).
Proof.
  intros id next acts. induction k as [|k IH]; intros sx; simpl.
  - pose proof (vm_try_inv (reentry lim ex 0 next) sx (reentry_inv 0 next)) as G.
    pose proof (vm_try_cases (reentry lim ex 0 next) sx) as Sh.
    destruct (vm_try (reentry lim ex 0 next) sx) as [s2 o]. simpl in Sh.
    destruct o; try contradiction; exact G.
  - pose proof (vm_try_inv (reentry lim ex 0 next) sx (reentry_inv 0 next)) as G.
    pose proof (vm_try_cases (reentry lim ex 0 next) sx) as Sh.
    destruct (vm_try (reentry lim ex 0 next) sx) as [s2 o]. simpl in Sh.
    destruct o; try contradiction; try exact G.
    pose proof (vm_try_inv (run_acts ex acts) s2 (run_acts_inv acts)) as G2.
    pose proof (vm_try_cases (run_acts ex acts) s2) as Sh2.
    destruct (vm_try (run_acts ex acts) s2) as [s3 o2]. simpl in Sh2.
    assert (Ch : Chain sx s3 (regs s2 = regs sx /\ PostR s2 s3 o2)).
    { eapply (Chain_bind PostR sx s2 s2 (s3, o2) (regs s2 = regs sx)); [exact G | reflexivity | exact G2 | | auto].
      intros R T. eapply TopOK_regs; eauto. }
    destruct o2; try contradiction.
    + apply Chain_GInv. eapply (Chain_bind PostL sx s3 s3 _ _); [exact Ch | reflexivity | apply IH | | ].
      * intros (R1 & R2) T. simpl in R2. eapply TopOK_regs; [|exact T]. congruence.
      * intros (R1 & R2) T P. simpl in R2. eapply PostL_base; [|exact P]. congruence.
    + apply Chain_GInv. simpl. eapply Chain_state; eauto. intros (R1 & R2) T. simpl in R2. transitivity (regs s3); [reflexivity | congruence].
    + apply Chain_GInv. simpl. eapply Chain_state; eauto. intros (R1 & R2) T. simpl in R2. congruence.
    + apply Chain_GInv. simpl. eapply Chain_state; eauto.
Qed.

(* recursive RunProgram *)
Lemma nrun_rec_inv : forall sw body s, GInv PostL s (nrun_rec lim ex sw body s).
Proof.
  intros sw body s. unfold nrun_rec.
  destruct (over lim s).
  { unfold policy. cbn [catchable andb]. apply GInv_ret.
    + destruct (Nat.eqb (length (cs s)) 0); reflexivity.
    + intros _. simpl. destruct (Nat.eqb (length (cs s)) 0); reflexivity. }
  set (s1 := set_prg true (add_sp 2 (set_sb (sp s + 1) (set_args 0 (set_stash 0 (push_ctx s)))))).
  set (s4 := push_try true false false s1).
  assert (Hts : ts s4 = new_frame true false false s1 :: ts s1) by reflexivity.
  assert (HE : Ext s1 s4) by (apply Ext_same; reflexivity).
  assert (HT : TopOK s4) by (apply TopOK_ne; discriminate).
  pose proof (loop_under_marker s1 s4 body Hts (Ext_Ext0 _ _ HE)) as L. cbv zeta in L.
  pose proof (loop_out_cases (run_items ex body s4)) as Sh.
  destruct (loop_out (run_items ex body s4)) as [s5 o]. simpl in L, Sh. destruct L as (A & B & C).
  assert (Hdv : dv s4 = dv s) by reflexivity.
  assert (Dfin : dv (pop_ctx (add_sp (-2) (pop_try s5))) = dv s5).
  { unfold dv. rewrite leaked_pop_ctx. reflexivity. }
  destruct o; try contradiction.
  - eapply (GInv_map PostL s s4 s5 _ _ (regs s5 = regs s4)); eauto.
    intros R T. simpl. apply regs_inv in R. destruct R as (c1 & c2 & c3 & c4 & c5 & c6 & c7 & c8 & c9).
    unfold s4, s1 in *. cbn in c1, c2, c3, c4, c5, c6, c7, c8, c9.
    rewrite (pop_ctx_eq _ (cur_ctx s) (cs s)) by (cbn; rewrite c6; reflexivity). rsolve.
  - assert (Hres : dv s5 = dv s4 -> regs (pop_ctx (add_sp (-2) (pop_try s5))) = regs s).
    { intros D. destruct (C D HT) as (c1 & c2 & c3 & c4 & c5 & c6 & c7). destruct (c7 HE) as (c8 & c9 & c10).
      unfold s4, s1 in *. cbn in c1, c2, c3, c4, c5, c6, c8, c9, c10.
      rewrite (pop_ctx_eq _ (cur_ctx s) (cs s)) by (cbn; rewrite c1; reflexivity). rsolve. }
    set (s3 := pop_ctx (add_sp (-2) (pop_try s5))) in *. clearbody s3.
    unfold policy. destruct (catchable p).
    + destruct sw; cbn [andb].
      * eapply (GInv_map PostL s s4 s5 _ _ (dv s5 = dv s4)); eauto. intros D T. simpl. rewrite <- Hres; auto.
      * eapply (GInv_map PostL s s4 s5 _ _ (dv s5 = dv s4)); eauto. intros D T. simpl. rewrite <- Hres; auto.
    + cbn [andb]. destruct (uncatchable_err p).
      * eapply (GInv_map PostL s s4 s5 _ _ (dv s5 = dv s4)); eauto.
        { destruct (Nat.eqb (length (cs s3)) 0); exact Dfin. }
        intros D T. simpl. rewrite <- Hres; auto. destruct (Nat.eqb (length (cs s3)) 0); reflexivity.
      * eapply (GInv_map PostL s s4 s5 _ _ (dv s5 = dv s4)); eauto. intros D T. simpl. auto.
  - split; [|split]; simpl in *; [lia | intros F; rewrite B; auto | auto].
Qed.

Section WithLv.
Variable lv : state -> state * outcome.
Hypothesis Hlv : forall s, GInv PostL s (lv s).

Lemma host_panic_exit_facts : forall s,
  regs (host_panic_exit s) = regs s /\ (dv s <= dv (host_panic_exit s))%nat /\
  (fixed = true -> dv (host_panic_exit s) = dv s).
Proof.
  intros s. unfold host_panic_exit. destruct (Nat.eqb (length (cs s)) 0); auto.
Qed.

Lemma recover_wrapped_inv : forall s s2 p (K : Prop),
  Chain s s2 K -> (K -> TopOK s -> regs s2 = regs s) ->
  GInv PostL s (fst (recover_wrapped s2 p)).
Proof.
  intros s s2 p K Ch HK. unfold recover_wrapped. destruct (uncatchable_err p).
  - simpl. apply Chain_GInv. simpl. eapply Chain_state; eauto.
    { destruct (Nat.eqb (length (cs s2)) 0); reflexivity. }
    intros k T. rewrite <- (HK k T). destruct (Nat.eqb (length (cs s2)) 0); reflexivity.
  - simpl. destruct (host_panic_exit_facts s2) as (R & A & B). destruct Ch as (C1 & C2 & C3).
    split; [|split]; simpl.
    + lia.
    + intros F. rewrite B, C2; auto.
    + intros D T. rewrite R. apply HK; auto. apply C3; auto. lia.
Qed.

Lemma wrapped_tail_inv : forall s s1 err (K : Prop),
  Chain s s1 K -> (K -> TopOK s -> regs s1 = regs s) ->
  GInv PostL s (fst (wrapped_tail lv s1 err)).
Proof.
  intros s s1 err K Ch HK. unfold wrapped_tail.
  destruct (Nat.eqb (length (cs s1)) 0).
  - pose proof (Hlv s1) as G. destruct (lv s1) as [s2 o].
    assert (Ch2 : Chain s s2 (K /\ PostL s1 s2 o)).
    { eapply (Chain_bind PostL s s1 s1 (s2, o) K); [exact Ch | reflexivity | exact G | | auto].
      intros k T. eapply TopOK_regs; [apply HK; auto | exact T]. }
    destruct o; simpl.
    + apply Chain_GInv. simpl. eapply Chain_state; eauto. intros (k & R) T. simpl in R. rewrite R. auto.
    + apply Chain_GInv. simpl. eapply Chain_state; eauto. intros (k & R) T. simpl in R. contradiction.
    + apply Chain_GInv. simpl. eapply Chain_state; eauto. intros (k & R) T. simpl in R. contradiction.
    + eapply recover_wrapped_inv; eauto. intros (k & R) T. simpl in R. rewrite R. auto.
    + apply Chain_GInv. simpl. eapply Chain_state; eauto. intros (k & R) T. simpl in R. contradiction.
    + apply Chain_GInv. simpl. eapply Chain_state; eauto.
  - simpl. apply Chain_GInv. simpl. eapply Chain_state; eauto.
Qed.

Lemma run_wrapped_inv : forall body s, GInv PostL s (fst (run_wrapped lim ex lv body s)).
Proof.
  intros body s. unfold run_wrapped.
  pose proof (vm_try_inv (reentry lim ex 0 body) s (reentry_inv 0 body)) as G.
  pose proof (vm_try_cases (reentry lim ex 0 body) s) as Sh.
  destruct (vm_try (reentry lim ex 0 body) s) as [s1 o]. simpl in Sh.
  destruct o; try contradiction.
  - eapply wrapped_tail_inv; [exact G|]. simpl. auto.
  - eapply wrapped_tail_inv; [exact G|]. simpl. auto.
  - eapply recover_wrapped_inv; [exact G|]. simpl. auto.
  - simpl. exact (GInv_weaken _ _ _ _ (fun _ _ H => H) G) || (destruct G as (A & B & C); split; [|split]; simpl in *; auto).
Qed.

Lemma probe_act_inv : forall s2, GInv PostG s2 (probe_act lim faults ex lv s2).
Proof.
  intros s2. unfold probe_act.
  destruct (lookup_fault faults (pcount s2)) as [[| | |]|].
  - apply GInv_ret; auto. intros _. simpl. unfold same_but_sp. cbn. auto 10.
  - apply GInv_ret; auto. intros _. simpl. unfold same_but_sp. cbn. auto 10.
  - apply GInv_ret; auto. intros _. simpl. reflexivity.
  - set (s3 := snapshot (set_pcount (S (pcount s2)) s2)).
    pose proof (run_wrapped_inv [Rec] s3) as G.
    destruct (run_wrapped lim ex lv [Rec] s3) as [[s4 o] e]. simpl in G.
    assert (G' : GInv PostL s2 (s4, o)).
    { apply (GInv_regs_base PostL s2 s3 _ PostL_base); auto. }
    destruct o; try (eapply GInv_weaken; [|exact G']; intros; apply PostL_PostG; auto).
    destruct e.
    + destruct G' as (A & B & C). split; [|split]; simpl in *; auto. intros D T. apply regs_same_but_sp. auto.
    + eapply GInv_weaken; [|exact G']; intros; apply PostL_PostG; auto.
  - apply GInv_ret; auto. intros _. simpl. reflexivity.
Qed.

End WithLv.

(* ---- promise jobs ---- *)
Lemma async_job_inv : forall seg s1,
  GInv PostG s1
    (match gen_enter_next lim 1 s1 with
     | (s2, ONorm) =>
         match loop_out (run_items ex seg (add_sp (-1) s2)) with
         | (s3, ONorm) => (pop_ctx (pop_try (add_sp (-1) (pop_ctx (set_sp (sb s3) s3)))), ONorm)
         | (s3, OPanic p) => if catchable p then (pop_ctx (pop_try s3), ONorm) else (gen_abort s3 p, OPanic p)
         | r => r
         end
     | r => r
     end).
Proof.
  intros seg s3. rewrite gen_enter_next_eq.
  destruct (over lim s3). { apply GInv_ret; auto. intros _. simpl. unfold same_but_sp; auto 10. }
  destruct (gns_facts 1 s3) as (Hts & HE & Hcs & Hsb & Hdv & Hits & Hrefs).
  change (- (1)) with (-1) in *.
  set (s4 := add_sp (-1) (gns 1 s3)) in *. clearbody s4.
  assert (HT : TopOK s4) by (apply TopOK_ne; rewrite Hcs; discriminate).
  pose proof (loop_under_marker (push_ctx s3) s4 seg Hts HE) as L. cbv zeta in L.
  pose proof (loop_out_cases (run_items ex seg s4)) as Sh.
  destruct (loop_out (run_items ex seg s4)) as [s5 o]. simpl in L, Sh. destruct L as (A & B & C).
  destruct o; try contradiction.
  - eapply (GInv_map PostG s3 s4 s5 _ _ (regs s5 = regs s4)); eauto.
    { unfold dv. rewrite leaked_pop_ctx. cbn. rewrite leaked_pop_ctx. reflexivity. }
    intros R T. simpl. apply regs_inv in R. destruct R as (c1 & c2 & c3 & c4 & c5 & c6 & c7 & c8 & c9).
    rewrite Hcs in c6. rewrite Hts in c7.
    rewrite (pop_ctx_eq (set_sp (sb s5) s5) halt_ctx (cur_ctx s3 :: cs s3)) by exact c6.
    rewrite (pop_ctx_eq _ (cur_ctx s3) (cs s3)) by reflexivity.
    rsolve.
  - destruct (catchable p) eqn:Hc.
    + eapply (GInv_map PostG s3 s4 s5 _ _ (dv s5 = dv s4)); eauto.
      { unfold dv. rewrite leaked_pop_ctx. reflexivity. }
      intros k T. destruct (C k HT) as (c1 & c2 & c3 & c4 & c5 & c6 & _). simpl. cbn in c1, c2, c3, c4, c5.
      rewrite (pop_ctx_eq (pop_try s5) (cur_ctx s3) (cs s3)) by exact c1.
      rewrite Hts in c6. rsolve.
    + eapply (gen_abort_inv s3 s4 s5 p _ Hdv A B); eauto.
      intros k. destruct (k HT) as (c1 & c2 & c3 & c4 & c5 & c6 & _). cbn in *. rewrite c6, Hts. auto.
  - split; [|split]; simpl in *; [lia | intros F; rewrite B; auto | auto].
Qed.

Lemma run_job_inv : forall j s,
  GInv PostR s (run_job lim ex j s) /\
  match snd (run_job lim ex j s) with OCaught _ _ _ | OEscaped _ => False | _ => True end.
Proof.
  intros j s. unfold run_job. destruct j as [body|seg].
  - split. apply (vm_try_inv (reentry lim ex 1 body) s (reentry_inv 1 body)). apply vm_try_cases.
  - split. apply vm_try_inv. intros s1. apply (async_job_inv seg s1). apply vm_try_cases.
Qed.

Lemma run_batch_inv : forall js s, GInv PostL s (run_batch lim ex js s).
Proof.
  induction js as [|j rest IH]; intros s; simpl.
  - apply GInv_ret; simpl; auto.
  - destruct (run_job_inv j s) as (G & Sh). destruct (run_job lim ex j s) as [s1 o]. simpl in Sh.
    assert (Hnext : o <> OStuck -> GInv PostL s (run_batch lim ex rest s1)).
    { intros Hs. apply Chain_GInv.
      eapply (Chain_bind PostL s s1 s1 _ (PostR s s1 o)); [exact G | reflexivity | apply IH | | ].
      - intros R T. eapply TopOK_regs; [|exact T]. destruct o; simpl in R; auto; try contradiction; congruence.
      - intros R T P. eapply PostL_base; [|exact P]. destruct o; simpl in R; auto; try contradiction; congruence. }
    destruct o; try contradiction.
    + apply Hnext; discriminate.
    + apply Hnext; discriminate.
    + exact G.
    + destruct G as (A & B & C); split; [|split]; simpl in *; auto.
Qed.

(* ---- one node ---- *)
Definition PostT (s s' : state) (o : outcome) : Prop := cs s = [] -> PostL s s' o.

Lemma ltb0_false : forall (l : list ctx), Nat.ltb 0 (length l) = false -> l = [].
Proof. intros l H. destruct l; auto. simpl in H. discriminate. Qed.

Section WithLvRt.
Variable lv : state -> state * outcome.
Hypothesis Hlv : forall s, GInv PostL s (lv s).
Variable rt : list node -> state -> state * outcome * option payload.
Hypothesis Hrt : forall body s, GInv PostT s (fst (rt body s)).

Lemma PostL_Post : forall s s' o, PostL s s' o -> Post s s' o.
Proof. intros. apply PostG_Post. apply PostL_PostG. auto. Qed.

Lemma policy_inv : forall sw s s1 p (K : Prop),
  Chain s s1 K -> (K -> TopOK s -> regs s1 = regs s) -> Inv s (policy sw s1 p).
Proof.
  intros sw s s1 p K Ch HK. unfold policy. destruct (catchable p && sw).
  - apply Chain_GInv. simpl. eapply Chain_state; eauto.
  - apply Chain_GInv. simpl. eapply Chain_state; eauto. intros k T. apply regs_same_but_sp. apply HK; auto.
Qed.

Lemma js_norm : forall s s1 s3 (g : state -> state),
  dv s1 = dv s -> (TopOK s -> TopOK s1) -> GInv PostJ s1 (s3, ONorm) ->
  dv (g s3) = dv s3 -> (regs s3 = regs s1 -> regs (g s3) = regs s) -> GInv PostJ s (g s3, ONorm).
Proof.
  intros s s1 s3 g D TT (A & B & C) Dg R. simpl in *.
  eapply (GInv_map PostJ s s1 s3 _ _ (TopOK s1 -> regs s3 = regs s1)); eauto.
  intros k T. simpl. apply R. apply k. auto.
Qed.

Lemma node_step_inv : forall nd s, Inv s (node_step lim faults ex lv rt nd s).
Proof.
  intros nd s.
  assert (WJ : forall r, GInv PostJ s r -> Inv s r).
  { intros r H. eapply GInv_weaken; [|exact H]. intros; apply PostJ_Post; auto. }
  assert (WG : forall r, GInv PostG s r -> Inv s r).
  { intros r H. eapply GInv_weaken; [|exact H]. intros; apply PostG_Post; auto. }
  assert (WL : forall r, GInv PostL s r -> Inv s r).
  { intros r H. eapply GInv_weaken; [|exact H]. intros; apply PostL_Post; auto. }
  destruct nd; simpl.
  - (* Probe *) apply WJ. apply native_call_inv. intros. apply probe_act_inv; auto.
  - (* Effect *) apply GInv_ret; simpl; auto.
  - (* Throw *) apply WJ. apply raiseE_inv; auto using Ext_refl.
  - (* Rec *) destruct lim as [m|].
    + destruct (rec_push_ext (S m - length (cs s)) s) as (E & T & D). apply WJ. apply raise_inv; eauto.
    + apply GInv_ret; simpl; auto.
  - (* Call *) apply WJ. apply call_node_inv.
  - (* Try *) apply WJ. apply try_node_inv.
  - (* ForOf *) apply WJ. apply forof_node_inv.
  - (* Scope *)
    apply WJ. set (s1 := set_stash (S (stash s)) s).
    assert (E1 : Ext s s1) by (apply Ext_same; reflexivity).
    assert (T1 : TopOK s -> TopOK s1) by (apply TopOK_same; reflexivity).
    pose proof (run_items_inv body s1) as H. destruct (run_items ex body s1) as [s3 o].
    destruct o; try (apply (PostJ_pass s s1); auto; discriminate).
    apply (js_norm s s1 s3 (fun x => set_stash (Nat.pred (stash x)) x)); auto.
    intros R. apply regs_inv in R. destruct R as (c1 & c2 & c3 & c4 & c5 & c6 & c7 & c8 & c9).
    unfold s1 in *. cbn in c1, c2, c3, c4, c5, c6, c7, c8, c9. rsolve; try (rewrite c5; reflexivity).
  - (* RefCall *)
    apply WJ. set (s1 := set_refs (S (refs s)) s).
    assert (E1 : Ext s s1).
    { exists [], [], 1%nat. split. constructor; reflexivity. reflexivity. }
    assert (T1 : TopOK s -> TopOK s1) by (apply TopOK_same; reflexivity).
    pose proof (call_node_inv body s1) as H. destruct (call_node lim ex body s1) as [s3 o].
    destruct o; try (apply (PostJ_pass s s1); auto; discriminate).
    apply (js_norm s s1 s3 (fun x => set_refs (Nat.pred (refs x)) x)); auto.
    intros R. apply regs_inv in R. destruct R as (c1 & c2 & c3 & c4 & c5 & c6 & c7 & c8 & c9).
    unfold s1 in *. cbn in c1, c2, c3, c4, c5, c6, c7, c8, c9. rsolve; try (rewrite c9; reflexivity).
  - (* Getter *)
    apply WJ. pose proof (reentry_inv 0 body (add_sp 1 s)) as G.
    destruct (reentry lim ex 0 body (add_sp 1 s)) as [s1 o].
    assert (Ch : Chain s s1 (PostG (add_sp 1 s) s1 o)).
    { eapply (Chain_bind PostG s s (add_sp 1 s) (s1, o) True);
        [apply Chain_start; auto | reflexivity | exact G | intros _ T; eapply TopOK_same; eauto; reflexivity | auto]. }
    destruct o.
    + apply Chain_GInv. simpl. eapply Chain_state; eauto. intros R T. simpl in R.
      apply regs_inv in R. destruct R as (c1 & c2 & c3 & c4 & c5 & c6 & c7 & c8 & c9). cbn in *. rsolve.
    + apply Chain_GInv. simpl. eapply Chain_state; eauto.
    + apply Chain_GInv. simpl. eapply Chain_state; eauto.
    + eapply (Chain_raiseE true p s s1); eauto. intros (c2 & c3 & c4 & c5 & c6 & c7 & c8 & c9) T. cbn in *.
      split; auto. apply Ext_same; auto.
    + apply Chain_GInv. simpl. eapply Chain_state; eauto.
    + apply Chain_GInv. simpl. eapply Chain_state; eauto.
  - (* Native *) apply WJ. apply native_call_inv. intros. apply run_acts_inv.
  - (* Gen *) apply WJ. apply gen_node_inv.
  - (* Async *) apply WJ. apply async_node_inv.
  - (* Then *) apply WJ. apply native_call_inv. intros s2. apply GInv_ret; simpl; auto.
  - (* NCallable *)
    pose proof (run_wrapped_inv lv Hlv body s) as G.
    destruct (run_wrapped lim ex lv body s) as [[s1 o] e]. simpl in G.
    destruct o; try (apply WL; exact G).
    destruct e; [|apply WL; exact G].
    eapply policy_inv; [exact G|]. simpl. auto.
  - (* NDirect *) apply WG. apply reentry_inv.
  - (* NRun *)
    destruct (Nat.ltb 0 (length (cs s))) eqn:Hl.
    + apply WL. apply nrun_rec_inv.
    + apply ltb0_false in Hl. pose proof (Hrt body s) as G.
      destruct (rt body s) as [[s1 o] e]. simpl in G.
      assert (G' : GInv PostL s (s1, o)).
      { eapply GInv_weaken; [|exact G]. intros s' o' H. apply H. exact Hl. }
      destruct o; try (apply WL; exact G').
      destruct e; [|apply WL; exact G'].
      eapply policy_inv; [exact G'|]. simpl. auto.
  - (* NTry *)
    pose proof (vm_try_inv (run_acts ex acts) s (run_acts_inv acts)) as G.
    pose proof (vm_try_cases (run_acts ex acts) s) as Sh.
    destruct (vm_try (run_acts ex acts) s) as [s1 o]. simpl in Sh.
    destruct G as (A & B & C).
    destruct o; try contradiction; (split; [|split]; simpl in *; auto).
    intros D T. apply regs_same_but_sp. auto.
  - (* NForOf *)
    pose proof (reentry_inv 0 [] s) as G. destruct (reentry lim ex 0 [] s) as [s1 o].
    destruct o; try (apply WG; exact G).
    apply Chain_GInv.
    eapply (Chain_bind PostL s s1 s1 _ (PostG s s1 ONorm)); [exact G | reflexivity | apply nforof_loop_inv | | ].
    + intros R T. simpl in R. eapply TopOK_regs; eauto.
    + intros R T P. simpl in R. apply PostL_Post. eapply PostL_base; eauto.
Qed.

(* outermost RunProgram *)
Lemma top_recover_inv : forall inb s s3 p (K : Prop),
  Chain s s3 K ->
  (K -> TopOK s -> cs s = [] ->
     cs s3 = [halt_ctx] /\ its s3 = its s /\ refs s3 = refs s /\ stash s3 = stash s /\ sp s3 = sp s /\
     ts s3 = ts s /\ args s3 = args s /\ (inb = true -> prg s3 = true) /\ (inb = false -> prg s3 = false /\ sb s3 = -1)) ->
  GInv PostT s (fst (top_recover inb s3 p)).
Proof.
  intros inb s s3 p K Ch HK. unfold top_recover, top_fin.
  set (s0 := set_cs (tl (cs s3)) s3).
  assert (Hreset : K -> TopOK s -> cs s = [] -> regs (set_sb (-1) (set_prg false s0)) = regs s).
  { intros k T Cs. destruct (HK k T Cs) as (c6 & c8 & c9 & c5 & c1 & c7 & c3 & _). destruct (T Cs) as (t1 & t2).
    unfold s0. rsolve. }
  destruct (uncatchable_err p).
  - simpl. apply Chain_GInv. unfold PostT. simpl. eapply (Chain_state s s3 _ K); [exact Ch | | ].
    { destruct (Nat.eqb _ 0); reflexivity. }
    intros k T Cs. rewrite <- (Hreset k T Cs).
    destruct (HK k T Cs) as (c6 & _). rewrite c6. reflexivity.
  - simpl.
    set (s' := set_sb (-1) (set_prg false s0)).
    destruct (host_panic_exit_facts s') as (R & A & B). destruct Ch as (C1 & C2 & C3).
    assert (D' : (dv s3 <= dv s')%nat /\ (fixed = true -> dv s' = dv s3) /\
                 (dv s' = dv s3 -> K -> TopOK s -> cs s = [] -> regs s' = regs s)).
    { unfold s'. split; [reflexivity|]. split; [reflexivity|]. intros _. apply Hreset. }
    destruct D' as (D1 & D2 & D3).
    split; [|split]; unfold PostT.
    + change (dv s <= dv (host_panic_exit s'))%nat. lia.
    + change (fixed = true -> dv (host_panic_exit s') = dv s). intros F. rewrite B, D2, C2; auto.
    + change (dv (host_panic_exit s') = dv s -> TopOK s -> cs s = [] -> regs (host_panic_exit s') = regs s).
      intros D T Cs. rewrite R. apply D3; [reflexivity | apply C3; [lia | exact T] | exact T | exact Cs].
Qed.

Lemma top_leave_inv : forall s s2 err (K : Prop),
  Chain s s2 K ->
  (K -> TopOK s -> cs s = [] ->
     cs s2 = [halt_ctx] /\ its s2 = its s /\ refs s2 = refs s /\ stash s2 = stash s /\ sp s2 = sp s /\
     tl (ts s2) = ts s /\ args s2 = args s) ->
  GInv PostT s (fst (top_leave lv s2 err)).
Proof.
  intros s s2 err K Ch HK. unfold top_leave.
  set (sL := set_sb (-1) (set_prg false (pop_try s2))).
  assert (TL : TopOK sL) by (intros _; split; reflexivity).
  pose proof (Hlv sL) as G. destruct (lv sL) as [s3 o].
  assert (Ch3 : Chain s s3 (K /\ PostL sL s3 o)).
  { eapply (Chain_bind PostL s s2 sL (s3, o) K); [exact Ch | reflexivity | exact G | auto | auto]. }
  destruct o.
  - simpl. apply Chain_GInv. unfold PostT. simpl. eapply Chain_state; eauto.
    intros (k & R) T Cs. simpl in R. destruct (HK k T Cs) as (c6 & c8 & c9 & c5 & c1 & c7 & c3). destruct (T Cs) as (t1 & t2).
    apply regs_inv in R. destruct R as (r1 & r2 & r3 & r4 & r5 & r6 & r7 & r8 & r9). unfold sL in *. cbn in r1, r2, r3, r4, r5, r6, r7, r8, r9.
    unfold top_fin. rsolve.
  - simpl. apply Chain_GInv. unfold PostT. simpl. eapply Chain_state; eauto. intros (k & R) T Cs. simpl in R. contradiction.
  - simpl. apply Chain_GInv. unfold PostT. simpl. eapply Chain_state; eauto. intros (k & R) T Cs. simpl in R. contradiction.
  - eapply (top_recover_inv false s s3 p); [exact Ch3|].
    intros (k & R) T Cs. simpl in R. destruct (HK k T Cs) as (c6 & c8 & c9 & c5 & c1 & c7 & c3).
    apply regs_inv in R. destruct R as (r1 & r2 & r3 & r4 & r5 & r6 & r7 & r8 & r9). unfold sL in *. cbn in r1, r2, r3, r4, r5, r6, r7, r8, r9.
    do 7 (split; [congruence|]). split; [discriminate|]. intros _. split; try congruence.
  - simpl. apply Chain_GInv. unfold PostT. simpl. eapply Chain_state; eauto. intros (k & R) T Cs. simpl in R. contradiction.
  - simpl. apply Chain_GInv. unfold PostT. simpl. eapply Chain_state; eauto.
Qed.

Lemma run_top_step_inv : forall body s, GInv PostT s (fst (run_top_step ex lv body s)).
Proof.
  intros body s. unfold run_top_step.
  set (s1 := set_prg true (set_cs (halt_ctx :: cs s) s)).
  set (s4 := push_try true false false s1).
  assert (Hts : ts s4 = new_frame true false false s1 :: ts s1) by reflexivity.
  assert (HE : Ext s1 s4) by (apply Ext_same; reflexivity).
  assert (HT : TopOK s4) by (apply TopOK_ne; discriminate).
  assert (Hdv : dv s4 = dv s) by reflexivity.
  pose proof (loop_under_marker s1 s4 body Hts (Ext_Ext0 _ _ HE)) as L. cbv zeta in L.
  pose proof (loop_out_cases (run_items ex body s4)) as Sh.
  destruct (loop_out (run_items ex body s4)) as [s5 o]. simpl in L, Sh. destruct L as (A & B & C).
  assert (Ch5 : Chain s s5 (dv s5 = dv s4)).
  { split; [lia|split]. intros F; rewrite B; auto. intros D T. lia. }
  destruct o; try contradiction.
  - eapply top_leave_inv; [exact Ch5|].
    intros D T Cs. specialize (C D HT). apply regs_inv in C. destruct C as (c1 & c2 & c3 & c4 & c5 & c6 & c7 & c8 & c9).
    unfold s4, s1 in *. cbn in c1, c2, c3, c4, c5, c6, c7, c8, c9. rewrite Cs in c6.
    repeat split; try congruence. rewrite c7. reflexivity.
  - assert (Hf : dv s5 = dv s4 -> TopOK s -> cs s = [] ->
                 cs s5 = [halt_ctx] /\ its s5 = its s /\ refs s5 = refs s /\ stash s5 = stash s /\ sp s5 = sp s /\
                 tl (ts s5) = ts s /\ args s5 = args s /\ prg s5 = true).
    { intros D T Cs. destruct (C D HT) as (c1 & c2 & c3 & c4 & c5 & c6 & c7). destruct (c7 HE) as (c8 & c9 & c10).
      unfold s4, s1 in *. cbn in c1, c2, c3, c4, c5, c6, c8, c9, c10. rewrite Cs in c1.
      repeat split; try congruence. rewrite c6. reflexivity. }
    destruct (catchable p).
    + eapply top_leave_inv; [exact Ch5|]. intros D T Cs. destruct (Hf D T Cs) as (h1 & h2 & h3 & h4 & h5 & h6 & h7 & h8). auto 10.
    + eapply (top_recover_inv true s (pop_try s5) p (dv s5 = dv s4));
        [eapply (Chain_state s s5 (pop_try s5) (dv s5 = dv s4) (dv s5 = dv s4)); [exact Ch5 | reflexivity | auto]|].
      intros D T Cs. destruct (Hf D T Cs) as (h1 & h2 & h3 & h4 & h5 & h6 & h7 & h8). cbn.
      do 7 (split; [auto|]). split; [auto|discriminate].
  - simpl. split; [|split]; simpl in *; [lia | intros F; rewrite B; auto | intros _ _ _; exact I].
Qed.


(* the two error-returning conventions (Callable, RunProgram) restore sp as well, however they end *)
Lemma policy_invL : forall sw s s1 p (K : Prop),
  Chain s s1 K -> (K -> TopOK s -> regs s1 = regs s) -> GInv PostL s (policy sw s1 p).
Proof.
  intros sw s s1 p K Ch HK. unfold policy. destruct (catchable p && sw).
  - apply Chain_GInv. simpl. eapply Chain_state; eauto.
  - apply Chain_GInv. simpl. eapply Chain_state; eauto.
Qed.

Lemma node_step_api : forall nd s,
  (match nd with NCallable _ _ | NRun _ _ => True | _ => False end) ->
  GInv PostL s (node_step lim faults ex lv rt nd s).
Proof.
  intros nd s Hnd. destruct nd; try contradiction; simpl.
  - pose proof (run_wrapped_inv lv Hlv body s) as G.
    destruct (run_wrapped lim ex lv body s) as [[s1 o] e]. simpl in G.
    destruct o; try exact G. destruct e; [|exact G].
    eapply policy_invL; [exact G|]. simpl. auto.
  - destruct (Nat.ltb 0 (length (cs s))) eqn:Hl.
    + apply nrun_rec_inv.
    + apply ltb0_false in Hl. pose proof (Hrt body s) as G.
      destruct (rt body s) as [[s1 o] e]. simpl in G.
      assert (G' : GInv PostL s (s1, o)).
      { eapply GInv_weaken; [|exact G]. intros s' o' H. apply H. exact Hl. }
      destruct o; try exact G'. destruct e; [|exact G'].
      eapply policy_invL; [exact G'|]. simpl. auto.
Qed.

End WithLvRt.

End WithEx.
End C.
