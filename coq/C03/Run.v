(* C03 — executable instantiation used by the correspondence check (depends on Model.v only).
   A case is a history of API calls with a call-depth limit and a fault plan, together with what the
   implementation showed after EACH call: result class, the VerifIdle vector, the register vectors seen by
   every probe() during the call, and the effect log.  The case is checked against the repaired
   model, which is goja's algorithm on the current tree (every finding of this property is repaired in /repo). *)
From Coq Require Import List ZArith NArith Bool Arith.
Import ListNotations.
From Verif.C03 Require Export Model.

(* observations are packed: a register vector is one number (zig-zag of every component, 16 bits each) *)
Record obs_call := mkObs { o_res : N; o_idle : N; o_trace : list N; o_log : list nat }.
Record tcase := mkCase { c_lim : option nat; c_faults : list (nat * fkind); c_ops : list api; c_obs : list obs_call; c_twin : bool }.

Definition zz (z : Z) : N := match z with Z0 => 0%N | Zpos p => Npos (xO p) | Zneg p => Pos.pred_N (xO p) end.
Fixpoint pack (l : list Z) : N :=
  match l with
  | [] => 1%N
  | z :: r => (N.min (zz z) 65535 + 65536 * pack r)%N
  end.

Definition fuel0 : nat := 80.

Definition res_code (r : result) : N :=
  match r with
  | RNormal => 0 | RError PCatch => 1 | RError PSO => 2 | RError PIntr => 3 | RError PGo => 4
  | RHostPanic => 4 | RStuck => 9
  end%N.

Definition snap_vec (x : snap) : list Z :=
  match x with
  | (a, b, c, p, n1, n2, n3, n4, g) =>
      [a; b; c; if p then 0 else 1; Z.of_nat n1; Z.of_nat n2; Z.of_nat n3; Z.of_nat n4; if g then 1 else 0]%Z
  end.

Record mobs := mkM { m_res : N; m_idle : list Z; m_trace : list (list Z); m_log : list nat }.

Fixpoint run_hist (lim : option nat) (faults : list (nat * fkind)) (ops : list api) (s : state)
  : list mobs * state :=
  match ops with
  | [] => ([], s)
  | a :: r =>
      let (s1, res) := api_exec lim faults fuel0 a (set_trace [] s) in
      let (os, sf) := run_hist lim faults r s1 in
      (mkM (res_code res) (idle_vec s1) (map snap_vec (rev (trace s1))) (log s1) :: os, sf)
  end.

Definition run_model (c : tcase) : list mobs := fst (run_hist (c_lim c) (c_faults c) (c_ops c) init).
Definition final_state (c : tcase) : state := snd (run_hist (c_lim c) (c_faults c) (c_ops c) init).

Definition nl_eqb (a b : list nat) : bool := if list_eq_dec Nat.eq_dec a b then true else false.
Definition Nl_eqb (a b : list N) : bool := if list_eq_dec N.eq_dec a b then true else false.
Definition obs_eqb (a : obs_call) (b : mobs) : bool :=
  N.eqb (o_res a) (m_res b) && N.eqb (o_idle a) (pack (m_idle b)) && Nl_eqb (o_trace a) (map pack (m_trace b)) &&
  nl_eqb (o_log a) (m_log b).
Fixpoint obsl_eqb (a : list obs_call) (b : list mobs) : bool :=
  match a, b with
  | [], [] => true
  | x :: a', y :: b' => obs_eqb x y && obsl_eqb a' b'
  | _, _ => false
  end.

(* the behavioural probe: when the model's final state is idle (nothing pending, flag clear) the runtime must
   behave as the fresh twin that replayed only the completed effects *)
Definition check_run (c : tcase) (r : list mobs * state) : bool :=
  obsl_eqb (c_obs c) (fst r) && implb (idle_full (snd r)) (c_twin c).
Definition run_both (c : tcase) := run_hist (c_lim c) (c_faults c) (c_ops c) init.
Definition check (c : tcase) : bool := check_run c (run_both c).

Fixpoint mismatch_from (f : tcase -> bool) (i : N) (cs : list tcase) : list N :=
  match cs with
  | [] => []
  | c :: r => if f c then mismatch_from f (N.succ i) r else i :: mismatch_from f (N.succ i) r
  end.
Definition mismatch_ids := mismatch_from check 0%N.

(* verdict per case: 0 = the implementation agrees with the model (goja's algorithm on the current tree; every finding of
   this property is repaired in /repo, so I = S); 1 = it disagrees *)
Definition verdict (c : tcase) : N := if check c then 0%N else 1%N.
Definition verdicts (cs : list tcase) : list N := map verdict cs.

(* (S, I) *)
Definition expected (c : tcase) := (run_model c, idle_full (final_state c)).
