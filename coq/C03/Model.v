(* C03 — control skeleton of goja's VM bookkeeping (vm.go, runtime.go, func.go), executable definitions only.

   State = the registers sp/sb/args/prg(nil?)/stash depth, the four auxiliary stacks (callStack of saved
   contexts, tryStack of snapshot frames incl. the tryPanicMarker frames, iterStack, refStack), jobQueue,
   the interrupt flag, and an append-only effect log.  Lists have their TOP at the head.
   Control is dictated by an execution tree ([node]); every bookkeeping operation is goja's own
   (pushCtx/popCtx, pushTryFrame/popTryFrame, restoreStacks, handleThrow, vm.try, __call, RunProgram,
   runWrapped, leave/leaveAbrupt, generator enter/enterNext/resume/step).  A Go panic in flight is the
   outcome [OPanic]; inside a run loop handleThrow is applied where the VM applies it (at the raise point)
   and yields [OCaught] (control moves to the handler of try frame number i) or [OUnwound] (a panic-marker
   frame was reached: the owner of the run loop takes over). *)
From Coq Require Import List ZArith Bool Arith Lia.
Import ListNotations.
Open Scope Z_scope.

Inductive payload := PCatch | PSO | PIntr | PGo.
(* PCatch: a JS exception; PSO: *StackOverflowError; PIntr: *InterruptedError; PGo: any other Go panic value *)
Definition catchable (p : payload) : bool := match p with PCatch => true | _ => false end.
(* asUncatchableException(x) != nil *)
Definition uncatchable_err (p : payload) : bool := match p with PSO | PIntr => true | _ => false end.

Inductive fkind := FThrow | FGo | FIntr | FRec.

Inductive node :=
(* items of a JS run loop *)
| Probe | Effect (n : nat) | Throw | Rec
| Call (body : list node)
| Try (body cat fin : list node) (hc hf : bool)
| ForOf (id : nat) (next : list node) (n : nat) (body : list node) (ret : option (list node))
| Scope (body : list node)
| RefCall (body : list node)
| Getter (body : list node)
| Native (acts : list node)
| Gen (seg : list node)
| Async (seg1 seg2 : list node)
| Then (body : list node)
(* actions of a native (Go) function *)
| NCallable (swallow : bool) (body : list node)
| NDirect (body : list node)
| NRun (swallow : bool) (body : list node)
| NTry (acts : list node)
| NForOf (id : nat) (next : list node) (n : nat) (acts : list node).

(* an iterator record on the iterator stack: the iterator's identity and its return() method: [Some body] = a JS
   function (its body ends with the effect that logs the close), [None] = a Go function that only logs the close *)
Definition irec := (nat * option (list node))%type.

Inductive job := JThen (body : list node) | JAsync (seg : list node).

Inductive result := RNormal | RError (p : payload) | RHostPanic | RStuck.

(* [AScen r evs]: an API call running a scripted scenario outside the tree language (a generator suspended inside
   for-of inside try, closed by return()/throw() from a later call; an async function awaiting another one whose
   continuation fails); only its SPECIFICATION is modelled: result [r], effects [evs] (made before the pending jobs are
   drained, or after them when [late]), every register and stack as before the call; like every outermost call it is
   interrupted at once when the flag is set, drains the job queue when it ends normally or with a JS exception (inside
   RunProgram's bottom context when [run], as runWrapped does otherwise), and drops it otherwise *)
Inductive api := ARun (body : list node) | ACall (body : list node) | ATry (acts : list node) | AClear
               | AScen (run late : bool) (r : result) (evs : list nat).

Record ctx := mkCtx { c_prg : bool; c_stash : nat; c_sb : Z; c_args : Z }.

Record tframe := mkTf { t_csl : nat; t_iter : nat; t_ref : nat; t_sp : Z; t_stash : nat;
                        t_marker : bool; t_catch : bool; t_fin : bool }.

(* what the probe native sees: sp sb args prgNil |callStack| |tryStack| |iterStack| |refStack| stashGlobal *)
Definition snap := (Z * Z * Z * bool * nat * nat * nat * nat * bool)%type.

Record state := mkSt {
  sp : Z; sb : Z; args : Z; prg : bool; stash : nat;
  cs : list ctx; ts : list tframe; its : list irec; refs : nat;
  jq : list job; intr : bool; log : list nat; pcount : nat; trace : list snap; leaked : list nat }.

Definition init : state := mkSt 0 (-1) 0 false 0 [] [] [] 0%nat [] false [] 0 [] [].

Definition set_sp v s := mkSt v (sb s) (args s) (prg s) (stash s) (cs s) (ts s) (its s) (refs s) (jq s) (intr s) (log s) (pcount s) (trace s) (leaked s).
Definition set_sb v s := mkSt (sp s) v (args s) (prg s) (stash s) (cs s) (ts s) (its s) (refs s) (jq s) (intr s) (log s) (pcount s) (trace s) (leaked s).
Definition set_args v s := mkSt (sp s) (sb s) v (prg s) (stash s) (cs s) (ts s) (its s) (refs s) (jq s) (intr s) (log s) (pcount s) (trace s) (leaked s).
Definition set_prg v s := mkSt (sp s) (sb s) (args s) v (stash s) (cs s) (ts s) (its s) (refs s) (jq s) (intr s) (log s) (pcount s) (trace s) (leaked s).
Definition set_stash v s := mkSt (sp s) (sb s) (args s) (prg s) v (cs s) (ts s) (its s) (refs s) (jq s) (intr s) (log s) (pcount s) (trace s) (leaked s).
Definition set_cs v s := mkSt (sp s) (sb s) (args s) (prg s) (stash s) v (ts s) (its s) (refs s) (jq s) (intr s) (log s) (pcount s) (trace s) (leaked s).
Definition set_ts v s := mkSt (sp s) (sb s) (args s) (prg s) (stash s) (cs s) v (its s) (refs s) (jq s) (intr s) (log s) (pcount s) (trace s) (leaked s).
Definition set_its v s := mkSt (sp s) (sb s) (args s) (prg s) (stash s) (cs s) (ts s) v (refs s) (jq s) (intr s) (log s) (pcount s) (trace s) (leaked s).
Definition set_refs v s := mkSt (sp s) (sb s) (args s) (prg s) (stash s) (cs s) (ts s) (its s) v (jq s) (intr s) (log s) (pcount s) (trace s) (leaked s).
Definition set_jq v s := mkSt (sp s) (sb s) (args s) (prg s) (stash s) (cs s) (ts s) (its s) (refs s) v (intr s) (log s) (pcount s) (trace s) (leaked s).
Definition set_intr v s := mkSt (sp s) (sb s) (args s) (prg s) (stash s) (cs s) (ts s) (its s) (refs s) (jq s) v (log s) (pcount s) (trace s) (leaked s).
Definition set_log v s := mkSt (sp s) (sb s) (args s) (prg s) (stash s) (cs s) (ts s) (its s) (refs s) (jq s) (intr s) v (pcount s) (trace s) (leaked s).
Definition set_pcount v s := mkSt (sp s) (sb s) (args s) (prg s) (stash s) (cs s) (ts s) (its s) (refs s) (jq s) (intr s) (log s) v (trace s) (leaked s).
Definition set_trace v s := mkSt (sp s) (sb s) (args s) (prg s) (stash s) (cs s) (ts s) (its s) (refs s) (jq s) (intr s) (log s) (pcount s) v (leaked s).
Definition set_leaked v s := mkSt (sp s) (sb s) (args s) (prg s) (stash s) (cs s) (ts s) (its s) (refs s) (jq s) (intr s) (log s) (pcount s) (trace s) v.

Definition add_sp (d : Z) s := set_sp (sp s + d) s.

(* the bottom [n] elements of a stack whose top is the head *)
Definition low {A} (n : nat) (l : list A) : list A := skipn (length l - n) l.

(* ---- contexts (vm.go:906-937) ---- *)
Definition cur_ctx s := mkCtx (prg s) (stash s) (sb s) (args s).
Definition restore_ctx (c : ctx) s := set_args (c_args c) (set_sb (c_sb c) (set_stash (c_stash c) (set_prg (c_prg c) s))).
Definition halt_ctx : ctx := mkCtx false 0 0 0.         (* context{pc: -2} *)

Definition over (lim : option nat) s : bool :=
  match lim with Some m => Nat.ltb m (length (cs s)) | None => false end.
Definition push_ctx s := set_cs (cur_ctx s :: cs s) s.
Definition pop_ctx s := match cs s with c :: r => set_cs r (restore_ctx c s) | [] => s end.

(* ---- try frames (vm.go:759-775) ---- *)
Definition new_frame (m c f : bool) s : tframe :=
  mkTf (length (cs s)) (length (its s)) (refs s) (sp s) (stash s) m c f.
Definition push_try (m c f : bool) s := set_ts (new_frame m c f s :: ts s) s.
Definition pop_try s := set_ts (tl (ts s)) s.

(* ---- restoreStacks (vm.go:777) walks the tail of the iterator stack top first, calls return() on every record and only
   THEN truncates both stacks; dropStacks (uncatchable payload, ex == nil) only truncates.  The walk runs script code, so it
   is part of [raise] below ([close_phase]); the pure part here is the truncation and the register restore. *)
Definition close_ev (id : nat) : nat := (1000 + id)%nat.
Definition restore_stacks (iterLen refLen : nat) s :=
  set_refs (Nat.min refLen (refs s)) (set_its (low iterLen (its s)) s).

(* the register part of handleThrow's restore at frame [tf] (vm.go:809-818): call stack, frame registers, sp, scope *)
Definition restore_regs (tf : tframe) s :=
  let s1 := if Nat.ltb (t_csl tf) (length (cs s))
            then match nth_error (cs s) (length (cs s) - t_csl tf - 1) with
                 | Some c => set_cs (low (t_csl tf) (cs s)) (set_args (c_args c) (set_sb (c_sb c) (set_prg (c_prg c) s)))
                 | None => s end
            else s in
  set_stash (t_stash tf) (set_sp (t_sp tf) s1).
Definition restore_at (tf : tframe) s := restore_stacks (t_iter tf) (t_ref tf) (restore_regs tf s).

Inductive hres := HCatch | HFin.
Inductive outcome :=
| ONorm
| OCaught (i : nat) (h : hres) (p : payload)    (* JS level: handler of try frame number i (from the bottom) gets control *)
| OUnwound (p : payload)                        (* JS level: reached a marker frame (or the bottom) *)
| OPanic (p : payload)                          (* Go level: panic in flight *)
| OEscaped (p : payload)                        (* JS level: a panic left handleThrow itself (raised inside an iterator's
                                                   return()) and leaves the run loop without unwinding to its marker *)
| OStuck.                                       (* out of fuel / tree and stacks out of step *)

Definition skippable (p : payload) (tf : tframe) : bool :=
  (negb (t_catch tf) && negb (t_fin tf) && negb (t_marker tf)) || (negb (catchable p) && negb (t_marker tf)).

(* handleThrow (vm.go:800) on the flat try stack *)
Fixpoint handle_loop (p : payload) (fr : list tframe) (s : state) : state * outcome :=
  match fr with
  | [] => (set_ts [] s, OUnwound p)
  | tf :: rest =>
      if skippable p tf then handle_loop p rest s
      else
        let s1 := restore_at tf s in
        if t_marker tf then (set_ts (tf :: rest) s1, OUnwound p)
        else if t_catch tf then
          (set_ts (mkTf (t_csl tf) (t_iter tf) (t_ref tf) (t_sp tf) (t_stash tf) false false (t_fin tf) :: rest) (add_sp 1 s1),
           OCaught (length rest) HCatch p)
        else
          (set_ts (mkTf (t_csl tf) (t_iter tf) (t_ref tf) (t_sp tf) (t_stash tf) false false false :: rest) s1,
           OCaught (length rest) HFin p)
  end.
Definition handle_throw (p : payload) (s : state) : state * outcome := handle_loop p (ts s) s.

(* the frame handleThrow will stop at *)
Fixpoint target (p : payload) (fr : list tframe) : option (tframe * list tframe) :=
  match fr with
  | [] => None
  | tf :: rest => if skippable p tf then target p rest else Some (tf, rest)
  end.

Definition lookup_fault (faults : list (nat * fkind)) (k : nat) : option fkind :=
  match find (fun x => Nat.eqb (fst x) k) faults with Some x => Some (snd x) | None => None end.

Section Exec.
Variable lim : option nat.                    (* SetMaxCallStackSize; None = unlimited *)
Variable faults : list (nat * fkind).         (* the k-th probe() call (0-based) performs the fault *)
(* The model carries goja's algorithm as on the current tree; all findings of this property are repaired in /repo:
   F16 195c9cc (generator / async marker+context pops run on the panic path too), F17 60d9770, F21 82237e3 (a recursive
   RunProgram whose own pushCtx overflowed does not pop what it never pushed), F22 7d68b51 (a foreign Go panic leaving the
   outermost call resets prg and drops the pending jobs), F12 22853aa (no iterator.return() on uncatchable unwinding),
   F23 bd17f67 (handleRecovered: a panic that leaves handleThrow in a recover is handled again by the same loop).
   The ghost field [leaked] is kept in the state for the record; nothing writes it any more. *)
Definition host_panic_exit (s : state) : state :=
  if Nat.eqb (length (cs s)) 0 then
    set_jq [] s
  else s.

(* handleThrow for a payload that closes no iterator (uncatchable), or where no iterator record can be pending *)
Definition raise0 (p : payload) (s : state) := handle_throw p s.

(* a sequence of native actions: stops at the first panic *)
Fixpoint run_acts (ex : node -> state -> state * outcome) (ns : list node) (s : state) : state * outcome :=
  match ns with
  | [] => (s, ONorm)
  | n :: r =>
      let (s1, o) := ex n s in
      match o with
      | ONorm => run_acts ex r s1
      | OPanic p => (s1, OPanic p)
      | _ => (s1, OStuck)            (* a run-loop item among native actions: ill-formed tree *)
      end
  end.

(* the instructions of a run loop: vm.run() polls the interrupt flag before every instruction *)
Fixpoint run_items (ex : node -> state -> state * outcome) (ns : list node) (s : state) : state * outcome :=
  if intr s then raise0 PIntr s else
  match ns with
  | [] => (s, ONorm)
  | n :: r =>
      let (s1, o) := ex n s in
      match o with
      | ONorm => run_items ex r s1
      | OPanic _ => (s1, OStuck)     (* a native action among run-loop items: ill-formed tree *)
      | _ => (s1, o)
      end
  end.

(* what the owner of a run loop sees *)
Definition loop_out (r : state * outcome) : state * outcome :=
  match r with
  | (s, ONorm) => (s, ONorm)
  | (s, OUnwound p) => (s, OPanic p)
  | (s, OEscaped p) => (s, OPanic p)
  | (s, _) => (s, OStuck)
  end.

(* baseJsFuncObject.__call (func.go:397) with [nargs] argument values; [s] is the state of the native context
   that makes the call *)
Definition reentry (ex : node -> state -> state * outcome) (nargs : Z) (body : list node) (s : state) : state * outcome :=
  let s1 := push_try true false false (add_sp (2 + nargs) s) in
  if over lim s1 then (pop_try s1, OPanic PSO) else
  let needPop := prg s1 in
  let s2 := push_ctx s1 in
  let s3 := if needPop then set_cs (halt_ctx :: cs s2) s2 else s2 in
  let s4 := set_sb (sp s + 1) (set_stash 0 (set_prg true (set_args nargs s3))) in
  match loop_out (run_items ex body s4) with
  | (s5, ONorm) =>
      (* ret: sp = sb; popCtx *)
      let s6 := pop_ctx (set_sp (sb s5) s5) in
      let s7 := if needPop then pop_ctx s6 else s6 in
      (pop_try (add_sp (-1) s7), ONorm)
  | (s5, o) => (pop_try s5, o)
  end.

(* vm.try (vm.go:854): returns ONorm, OUnwound PCatch for "ex returned", or OPanic *)
Definition vm_try (f : state -> state * outcome) (s : state) : state * outcome :=
  let s1 := push_try true false false s in
  match f s1 with
  | (s2, ONorm) => (pop_try s2, ONorm)
  | (s2, OPanic p) =>
      let s3 := fst (handle_throw p s2) in
      if catchable p then (pop_try s3, OUnwound PCatch) else (pop_try s3, OPanic p)
  | (s2, _) => (s2, OStuck)
  end.

(* restoreStacks' walk: iterTail is captured once; every record's return() is called inside vm.try (a JS exception thrown
   by return() is dropped); the iterator stack is NOT yet truncated, so iteration inside return() pushes above the tail *)
Fixpoint close_items (ex : node -> state -> state * outcome) (items : list irec) (s : state) : state * outcome :=
  match items with
  | [] => (s, ONorm)
  | (id, None) :: r => close_items ex r (set_log (log s ++ [close_ev id]) s)
  | (id, Some body) :: r =>
      match vm_try (reentry ex 0 body) s with
      | (s1, ONorm) | (s1, OUnwound _) => close_items ex r s1
      | (s1, OPanic p') => (s1, OPanic p')
      | (s1, _) => (s1, OStuck)
      end
  end.

(* handleThrow up to and including restoreStacks' walk, for a JS exception: skipped frames popped, registers restored
   at the target frame, the dropped iterator records closed top first *)
Definition close_phase (ex : node -> state -> state * outcome) (p : payload) (s : state) : state * outcome :=
  if catchable p then
    match target p (ts s) with
    | None => (s, ONorm)
    | Some (tf, rest) =>
        let s1 := set_ts (tf :: rest) (restore_regs tf s) in
        match close_items ex (firstn (length (its s1) - t_iter tf) (its s1)) s1 with
        | (s2, OPanic p') => (restore_stacks (t_iter tf) (t_ref tf) s2, OPanic p')   (* deferred dropStacks (bf68b95) *)
        | r => r
        end
    end
  else (s, ONorm).

(* the effects of [s1] (log, queue, flag, counters) on the registers and stacks of [s] *)
Definition with_regs_of (s s1 : state) : state :=
  mkSt (sp s) (sb s) (args s) (prg s) (stash s) (cs s) (ts s) (its s) (refs s)
       (jq s1) (intr s1) (log s1) (pcount s1) (trace s1) (leaked s1).

(* handleThrow.  [inrec]: it runs in the deferred recover of runTryInner (the exception arrived as a Go panic) rather
   than inside an instruction (vm.throw).  An uncatchable panic raised inside a return() call leaves handleThrow: inside an
   instruction it is recovered by the same run loop; in a recover, vm.handleRecovered handles it again (bd17f67): in both
   cases handleThrow runs for the new payload.
   Modelling simplification: that second handleThrow starts from the partially unwound state; since try frames are
   ordered by call depth it lands where it would from the state before the partial unwinding, which is what the model
   applies it to (checked by the correspondence like everything else). *)
Definition raise (ex : node -> state -> state * outcome) (inrec : bool) (p : payload) (s : state) : state * outcome :=
  match close_phase ex p s with
  | (s1, ONorm) => handle_throw p s1
  | (s1, OPanic p') => handle_throw p' (with_regs_of s s1)
  | (s1, _) => (s1, OStuck)
  end.

Definition leave_abrupt s := set_intr false (set_jq [] s).

Definition take_snap (s : state) : snap :=
  (sp s, sb s, args s, prg s, length (cs s), length (ts s), length (its s), refs s, Nat.eqb (stash s) 0).
Definition snapshot (s : state) : state := set_trace (take_snap s :: trace s) s.

(* the caller's policy on an error value returned to it by Callable / RunProgram: the registers are recorded
   (the harness does the same), a JS exception may be swallowed, anything else is re-panicked *)
Definition policy (swallow : bool) (s : state) (p : payload) : state * outcome :=
  if catchable p && swallow then (snapshot s, ONorm) else (snapshot s, OPanic p).

(* one frame of a JS function called from JS: callee and this pushed, context saved, registers of the callee *)
Definition call_enter (s : state) : state :=
  set_sb (sp s + 1) (set_stash 0 (set_prg true (set_args 0 (push_ctx (add_sp 2 s))))).

(* infinite recursion function rec(){ rec() }: pushes frames until pushCtx overflows *)
Fixpoint rec_push (k : nat) (s : state) : state :=
  match k with
  | O => add_sp 2 s
  | S k' => rec_push k' (call_enter s)
  end.

(* native call of a Go function from JS with [n] arguments already pushed (nativeFuncObject.vmCall) *)
Definition native_call (ex : node -> state -> state * outcome) (n : Z) (f : state -> state * outcome) (s : state) : state * outcome :=
  let s1 := add_sp (2 + n) s in
  if over lim s1 then raise0 PSO s1 else
  let s2 := set_sb (sp s1 - n) (set_prg false (push_ctx s1)) in
  match f s2 with
  | (s3, ONorm) => (set_sp (sp s) (pop_ctx s3), ONorm)
  | (s3, OPanic p) => raise ex true p s3
  | (s3, _) => (s3, OStuck)
  end.

(* generator.enter + vmCall + first step up to the initial yield (generatorObject.init / asyncRunner.start) *)
Definition gen_enter (s : state) : state * outcome :=
  if over lim s then (s, OPanic PSO) else
  let s1 := set_sb (-1) (set_prg false (push_try true false false (push_ctx s))) in
  if over lim s1 then (pop_ctx (pop_try s1), OPanic PSO) else
  (set_sb (sp s - 1) (set_stash 0 (set_prg true (set_args 0 (push_ctx s1)))), ONorm).

(* generator.enterNext + resume of a context suspended with a 2-slot stack segment *)
Definition gen_enter_next (extra : Z) (s : state) : state * outcome :=
  if over lim s then (s, OPanic PSO) else
  let s1 := push_try true false false (push_ctx s) in
  let s2 := set_cs (halt_ctx :: cs s1) s1 in
  (set_sp (sp s + 2 + extra) (set_sb (sp s + 1) (set_stash 0 (set_prg true (set_args 0 s2)))), ONorm).

(* suspend at a yield/await, or function return: frame of the body goes away; then the caller pops marker+ctx *)
Definition gen_leave (s : state) : state :=
  pop_ctx (pop_try (set_cs (tl (cs s)) (set_sp (sb s - 1) s))).

(* the exit of a generator/async resumption whose body panicked (the body's run loop already unwound to the
   resumption's marker): popTryFrame + popCtx run only when the exception is a JS exception (F16) *)
Definition gen_abort (s : state) (p : payload) : state :=
  pop_ctx (pop_try s).

Section Nodes.
Variable ex : node -> state -> state * outcome.                                   (* nodes, one unit of fuel less *)
Variable lv : state -> state * outcome.                                           (* Runtime.leave *)
Variable rt : list node -> state -> state * outcome * option payload.             (* outermost RunProgram *)

(* recover path of runWrapped / RunProgram for a panic value p *)
Definition recover_wrapped (s : state) (p : payload) : state * outcome * option payload :=
  if uncatchable_err p then ((if Nat.eqb (length (cs s)) 0 then leave_abrupt s else s), ONorm, Some p)
  else (host_panic_exit s, OPanic p, None).

Definition wrapped_tail (s1 : state) (err : option payload) : state * outcome * option payload :=
  if Nat.eqb (length (cs s1)) 0 then
    match lv s1 with
    | (s2, ONorm) => (s2, ONorm, err)
    | (s2, OPanic p) => recover_wrapped s2 p
    | (s2, o) => (s2, o, None)
    end
  else (s1, ONorm, err).

(* Callable (runtime.go:2468) = runWrapped (2504) around vm.try(__call); third component: the error returned *)
Definition run_wrapped (body : list node) (s : state) : state * outcome * option payload :=
  match vm_try (reentry ex 0 body) s with
  | (s1, ONorm) => wrapped_tail s1 None
  | (s1, OUnwound p) => wrapped_tail s1 (Some p)
  | (s1, OPanic p) => recover_wrapped s1 p
  | (s1, o) => (s1, o, None)
  end.

(* what the Go function probe() does once it is entered *)
Definition probe_act (s2 : state) : state * outcome :=
  let k := pcount s2 in
  let s3 := snapshot (set_pcount (S k) s2) in
  match lookup_fault faults k with
  | None => (s3, ONorm)
  | Some FThrow => (s3, OPanic PCatch)
  | Some FGo => (s3, OPanic PGo)
  | Some FIntr => (set_intr true s3, ONorm)
  | Some FRec =>
      match run_wrapped [Rec] s3 with
      | (s4, ONorm, Some p) => (s4, OPanic p)
      | (s4, o, _) => (s4, o)
      end
  end.

Definition call_node (body : list node) (s : state) : state * outcome :=
  let s1 := add_sp 2 s in
  if over lim s1 then raise0 PSO s1 else
  match run_items ex body (call_enter s) with
  | (s3, ONorm) => (set_sp (sp s) (pop_ctx s3), ONorm)
  | r => r
  end.

Definition dead_top (s : state) : state :=
  match ts s with
  | tf :: rest => set_ts (mkTf (t_csl tf) (t_iter tf) (t_ref tf) (t_sp tf) (t_stash tf) false false false :: rest) s
  | [] => s
  end.

(* leaveTry / leaveFinally on the normal path *)
Definition try_finish (fin : list node) (s : state) : state * outcome :=
  match ts s with
  | tf :: rest =>
      if t_fin tf then
        match run_items ex fin (set_stash (t_stash tf) (set_sp (t_sp tf) (dead_top s))) with
        | (s2, ONorm) => (pop_try s2, ONorm)
        | r => r
        end
      else (pop_try s, ONorm)
  | [] => (s, OStuck)
  end.

(* the finally block entered with a pending exception: leaveFinally pops the frame and re-throws *)
Definition try_dofin (fin : list node) (s2 : state) (p : payload) : state * outcome :=
  match run_items ex fin s2 with
  | (s3, ONorm) => raise ex false p (pop_try s3)
  | r => r
  end.

Definition try_node (body cat fin : list node) (hc hf : bool) (s : state) : state * outcome :=
  let idx := length (ts s) in
  match run_items ex body (push_try false hc hf s) with
  | (s2, ONorm) => try_finish fin s2
  | (s2, OCaught i h p) =>
      if Nat.eqb i idx then
        match h with
        | HCatch =>
            match run_items ex cat (add_sp (-1) s2) with
            | (s3, ONorm) => try_finish fin s3
            | (s3, OCaught i' h' p') => if Nat.eqb i' idx then try_dofin fin s3 p' else (s3, OCaught i' h' p')
            | r => r
            end
        | HFin => try_dofin fin s2 p
        end
      else (s2, OCaught i h p)
  | r => r
  end.

(* iterNext: iteratorRecord.step = vm.try(next()) ; the loop of a for-of statement with k elements left *)
Fixpoint forof_loop (next body : list node) (k : nat) (s : state) : state * outcome :=
  if intr s then raise0 PIntr s else
  match vm_try (reentry ex 0 next) s with
  | (s3, ONorm) =>
      match k with
      | O => (set_its (tl (its s3)) s3, ONorm)        (* done: jump out, enumPop *)
      | S k' =>
          match run_items ex body s3 with
          | (s4, ONorm) => forof_loop next body k' s4
          | r => r
          end
      end
  | (s3, OUnwound p) => raise ex false p (set_its (tl (its s3)) s3)     (* next() threw: item dropped, not closed *)
  | (s3, OPanic p) => raise ex true p s3
  | (s3, _) => (s3, OStuck)
  end.

Definition forof_node (id : nat) (next : list node) (n : nat) (body : list node) (ret : option (list node)) (s : state) : state * outcome :=
  (* iterate: getIterator calls [Symbol.iterator]() (a JS function with an empty body) *)
  match reentry ex 0 [] (add_sp 1 s) with
  | (s1, OPanic p) => raise ex true p s1
  | (s1, ONorm) => forof_loop next body n (set_its ((id, ret) :: its s1) (add_sp (-1) s1))
  | (s1, _) => (s1, OStuck)
  end.

(* native next() of a generator object created by gen_k(): one resumption running [seg] up to a yield *)
Definition gen_resume (extra : Z) (seg : list node) (s3 : state) : state * outcome :=
  match gen_enter_next extra s3 with
  | (s4, ONorm) =>
      match loop_out (run_items ex seg (add_sp (- extra) s4)) with
      | (s5, ONorm) => (gen_leave s5, ONorm)
      | (s5, OPanic p) => (gen_abort s5 p, OPanic p)
      | r => r
      end
  | r => r
  end.

Definition gen_node (seg : list node) (s : state) : state * outcome :=
  (* gen_k().next(): creation ... *)
  match gen_enter (add_sp 2 s) with
  | (s1, OPanic p) => raise ex true p s1
  | (s1, ONorm) =>
      (* the prologue runs to the initial yield; suspend; popTryFrame; popCtx; the generator object replaces the callee;
         then the native next() *)
      native_call ex 0 (gen_resume 0 seg) (set_sp (sp s) (gen_leave s1))
  | (s1, _) => (s1, OStuck)
  end.

Definition async_node (seg1 seg2 : list node) (s : state) : state * outcome :=
  match gen_enter (add_sp 2 s) with
  | (s1, OPanic p) => raise ex true p s1
  | (s1, ONorm) =>
      match loop_out (run_items ex seg1 s1) with
      | (s2, ONorm) => (set_sp (sp s) (set_jq (jq s2 ++ [JAsync seg2]) (gen_leave s2)), ONorm)
      | (s2, OPanic p) =>
          if catchable p then (set_sp (sp s) (pop_ctx (pop_try s2)), ONorm)
          else raise ex true p (gen_abort s2 p)
      | r => r
      end
  | (s1, _) => (s1, OStuck)
  end.

Fixpoint nforof_loop (id : nat) (next acts : list node) (k : nat) (s : state) : state * outcome :=
  match vm_try (reentry ex 0 next) s with
  | (s2, ONorm) =>
      match k with
      | O => (s2, ONorm)
      | S k' =>
          match vm_try (run_acts ex acts) s2 with
          | (s3, ONorm) => nforof_loop id next acts k' s3
          | (s3, OUnwound p) => (set_log (log s3 ++ [close_ev id]) s3, OPanic p)
          | r => r
          end
      end
  | (s2, OUnwound p) => (s2, OPanic p)
  | r => r
  end.

(* recursive RunProgram (runtime.go:1434): the deferred function runs whatever happened *)
Definition nrun_rec (swallow : bool) (body : list node) (s : state) : state * outcome :=
  let fin (s : state) := pop_ctx (add_sp (-2) s) in
  if over lim s then
    (* pushCtx panicked before anything was pushed: nothing to pop (ctxPushed is false) *)
    policy swallow (if Nat.eqb (length (cs s)) 0 then leave_abrupt s else s) PSO
  else
  let s1 := set_prg true (add_sp 2 (set_sb (sp s + 1) (set_args 0 (set_stash 0 (push_ctx s))))) in
  match loop_out (run_items ex body (push_try true false false s1)) with
  | (s2, ONorm) => (fin (pop_try s2), ONorm)
  | (s2, OPanic p) =>
      let s3 := fin (pop_try s2) in
      if catchable p then policy swallow s3 p
      else if uncatchable_err p then
        policy swallow (if Nat.eqb (length (cs s3)) 0 then leave_abrupt s3 else s3) p
      else (s3, OPanic p)
  | r => r
  end.

Definition node_step (nd : node) (s : state) : state * outcome :=
  match nd with
  | Effect n => (set_log (log s ++ [n]) s, ONorm)
  | Throw => raise ex false PCatch s
  | Probe => native_call ex 0 probe_act s
  | Rec =>
      match lim with
      | None => (s, OStuck)
      | Some m => raise0 PSO (rec_push (S m - length (cs s)) s)
      end
  | Call body => call_node body s
  | Try body cat fin hc hf => try_node body cat fin hc hf s
  | Scope body =>
      match run_items ex body (set_stash (S (stash s)) s) with
      | (s1, ONorm) => (set_stash (Nat.pred (stash s1)) s1, ONorm)
      | r => r
      end
  | RefCall body =>
      match call_node body (set_refs (S (refs s)) s) with
      | (s1, ONorm) => (set_refs (Nat.pred (refs s1)) s1, ONorm)
      | r => r
      end
  | Getter body =>
      match reentry ex 0 body (add_sp 1 s) with
      | (s1, ONorm) => (add_sp (-1) s1, ONorm)
      | (s1, OPanic p) => raise ex true p s1
      | (s1, _) => (s1, OStuck)
      end
  | Native acts => native_call ex 0 (run_acts ex acts) s
  | ForOf id next n body ret => forof_node id next n body ret s
  | Gen seg => gen_node seg s
  | Async seg1 seg2 => async_node seg1 seg2 s
  | Then body => native_call ex 1 (fun s2 => (set_jq (jq s2 ++ [JThen body]) s2, ONorm)) s
  | NCallable swallow body =>
      match run_wrapped body s with
      | (s1, ONorm, None) => (s1, ONorm)
      | (s1, ONorm, Some p) => policy swallow s1 p
      | (s1, o, _) => (s1, o)
      end
  | NDirect body => reentry ex 0 body s
  | NTry acts =>
      match vm_try (run_acts ex acts) s with
      | (s1, OUnwound _) => (s1, ONorm)
      | r => r
      end
  | NForOf id next n acts =>
      match reentry ex 0 [] s with
      | (s1, ONorm) => nforof_loop id next acts n s1
      | r => r
      end
  | NRun swallow body =>
      if Nat.ltb 0 (length (cs s)) then nrun_rec swallow body s
      else
        match rt body s with
        | (s1, ONorm, Some p) => policy swallow s1 p
        | (s1, o, _) => (s1, o)
        end
  end.

(* one promise job: vm.try(callback) *)
Definition run_job (j : job) (s0 : state) : state * outcome :=
  match j with
  | JThen body => vm_try (reentry ex 1 body) s0
  | JAsync seg =>
      vm_try (fun s1 =>
        match gen_enter_next 1 s1 with
        | (s2, ONorm) =>
            match loop_out (run_items ex seg (add_sp (-1) s2)) with
            | (s3, ONorm) =>
                (* ret: sp = sb; popCtx (halt frame); res = pop; popTryFrame; popCtx *)
                (pop_ctx (pop_try (add_sp (-1) (pop_ctx (set_sp (sb s3) s3)))), ONorm)
            | (s3, OPanic p) =>
                if catchable p then (pop_ctx (pop_try s3), ONorm)
                else (gen_abort s3 p, OPanic p)
            | r => r
            end
        | r => r
        end) s0
  end.

(* one batch of Runtime.leave: a panic leaving a job drops the rest of the batch *)
Fixpoint run_batch (js : list job) (s : state) : state * outcome :=
  match js with
  | [] => (s, ONorm)
  | j :: rest =>
      match run_job j s with
      | (s1, ONorm) | (s1, OUnwound _) => run_batch rest s1
      | r => r
      end
  end.

(* outermost RunProgram (runtime.go:1434, not recursive); third component: the error returned.
   top_fin: the deferred function drops the bottom context; top_recover: its recover() branch *)
Definition top_fin (s : state) : state := set_cs (tl (cs s)) s.
Definition top_recover (inbody : bool) (s : state) (p : payload) : state * outcome * option payload :=
  let s0 := top_fin s in
  if uncatchable_err p then
    (* len(vm.callStack) == 0: vm.prg = nil; vm.sb = -1; leaveAbrupt *)
    ((if Nat.eqb (length (cs s0)) 0 then leave_abrupt (set_sb (-1) (set_prg false s0)) else s0), ONorm, Some p)
  else
    let s' := set_sb (-1) (set_prg false s0) in
    (host_panic_exit s', OPanic p, None).
(* vm.prg = nil; vm.sb = -1; r.leave() *)
Definition top_leave (s2 : state) (err : option payload) : state * outcome * option payload :=
  match lv (set_sb (-1) (set_prg false (pop_try s2))) with
  | (s3, ONorm) => (top_fin s3, ONorm, err)
  | (s3, OPanic p) => top_recover false s3 p
  | (s3, o) => (s3, o, None)
  end.
Definition run_top_step (body : list node) (s : state) : state * outcome * option payload :=
  let s1 := set_prg true (set_cs (halt_ctx :: cs s) s) in
  match loop_out (run_items ex body (push_try true false false s1)) with
  | (s2, ONorm) => top_leave s2 None
  | (s2, OPanic p) => if catchable p then top_leave s2 (Some p) else top_recover true (pop_try s2) p
  | (s2, o) => (s2, o, None)
  end.

End Nodes.

Fixpoint exec (fuel : nat) (nd : node) (s : state) {struct fuel} : state * outcome :=
  match fuel with O => (s, OStuck) | S f => node_step (exec f) (leave f) (run_top f) nd s end
(* Runtime.leave (runtime.go:2836): drain the job queue batch by batch (jobs, r.jobQueue = r.jobQueue, jobs[:0]) *)
with leave (fuel : nat) (s : state) {struct fuel} : state * outcome :=
  match fuel with O => (s, OStuck) | S f =>
  match jq s with
  | [] => (s, ONorm)
  | js =>
      match run_batch (exec f) js (set_jq [] s) with
      | (s1, ONorm) => leave f s1
      | r => r
      end
  end end
with run_top (fuel : nat) (body : list node) (s : state) {struct fuel} : state * outcome * option payload :=
  match fuel with O => (s, OStuck, None) | S f => run_top_step (exec f) (leave f) body s end.

End Exec.

(* ---- one outermost API call, histories, and the idle predicate ---- *)
Definition of_go (r : state * outcome) : state * result :=
  match r with
  | (s, ONorm) => (s, RNormal)
  | (s, OPanic p) => (s, if uncatchable_err p || catchable p then RError p else RHostPanic)
  | (s, _) => (s, RStuck)
  end.

Definition scen_finish (run late : bool) (r : result) (evs : list nat) (lr : state * outcome) : state * result :=
  let unw (x : state) := if run then top_fin x else x in
  match lr with
  | (s2, ONorm) => (unw (if late then set_log (log s2 ++ evs) s2 else s2), r)
  | (s2, OPanic p) => if uncatchable_err p then (leave_abrupt (unw s2), RError p) else (set_jq [] (unw s2), RHostPanic)
  | (s2, _) => (s2, RStuck)
  end.

Definition api_exec (lim : option nat) (faults : list (nat * fkind)) (fuel : nat) (a : api) (s : state) : state * result :=
  match a with
  | AClear => (set_intr false s, RNormal)
  | AScen run late r evs =>
      if intr s then (leave_abrupt s, RError PIntr) else
      let s1 := if late then s else set_log (log s ++ evs) s in
      match r with
      | RNormal | RError PCatch =>
          scen_finish run late r evs (leave lim faults fuel (if run then set_cs (halt_ctx :: cs s1) s1 else s1))
      | _ => (leave_abrupt s1, r)
      end
  | ARun body => of_go (exec lim faults fuel (NRun false body) s)
  | ACall body => of_go (exec lim faults fuel (NCallable false body) s)
  | ATry acts =>
      match vm_try (run_acts (exec lim faults fuel) acts) s with
      | (s', ONorm) => (s', RNormal)
      | (s', OUnwound p) => (s', RError p)
      | (s', OPanic p) => (s', RHostPanic)
      | (s', _) => (s', RStuck)
      end
  end.

(* the registers and stacks that must be back at their idle values when control is outside the runtime *)
Definition idle_regs (s : state) : bool :=
  Z.eqb (sp s) 0 && Z.eqb (sb s) (-1) && Z.eqb (args s) 0 && negb (prg s) && Nat.eqb (stash s) 0 &&
  Nat.eqb (length (cs s)) 0 && Nat.eqb (length (ts s)) 0 && Nat.eqb (length (its s)) 0 && Nat.eqb (refs s) 0.
Definition idle_full (s : state) : bool :=
  idle_regs s && Nat.eqb (length (jq s)) 0 && negb (intr s).

(* the vector VerifIdle reports: sp sb args prgNil callStack tryStack iterStack refStack stashGlobal jobQueue interrupted
   asyncNil (vm.curAsyncRunner is set only while an async continuation runs and is reset by a deferred function on
   every path: it is nil whenever control is outside the runtime) *)
Definition idle_vec (s : state) : list Z :=
  [sp s; sb s; args s; if prg s then 0 else 1; Z.of_nat (length (cs s)); Z.of_nat (length (ts s));
   Z.of_nat (length (its s)); Z.of_nat (refs s); if Nat.eqb (stash s) 0 then 1 else 0;
   Z.of_nat (length (jq s)); if intr s then 1 else 0; 1].
