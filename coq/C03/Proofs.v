(* C03 — the universal theorems: induction on fuel over the combinator lemmas of PComb.v. *)
From Coq Require Import List ZArith Bool Arith Lia.
Import ListNotations.
From Verif.C03 Require Import Model.
From Verif.C03 Require Export PBase PComb.
Open Scope Z_scope.

Section Main.
Variable lim : option nat.
Variable faults : list (nat * fkind).

Local Notation exec := (exec lim faults).
Local Notation leave := (leave lim faults).
Local Notation run_top := (run_top lim faults).

Lemma exec_S : forall f nd s, exec (S f) nd s = node_step lim faults (exec f) (leave f) (run_top f) nd s.
Proof. reflexivity. Qed.
Lemma run_top_S : forall f body s, run_top (S f) body s = run_top_step (exec f) (leave f) body s.
Proof. reflexivity. Qed.
Lemma leave_S : forall f s, leave (S f) s =
  match jq s with
  | [] => (s, ONorm)
  | js => match run_batch lim (exec f) js (set_jq [] s) with
          | (s1, ONorm) => leave f s1
          | r => r
          end
  end.
Proof. intros. cbn. destruct (jq s); reflexivity. Qed.

Lemma main_invariant : forall fuel,
  (forall nd s, Inv true s (exec fuel nd s)) /\
  (forall s, GInv true PostL s (leave fuel s)) /\
  (forall body s, GInv true PostT s (fst (run_top fuel body s))).
Proof.
  induction fuel as [|f (IHe & IHl & IHt)].
  - split; [|split]; intros; simpl; apply GInv_ret; simpl; auto; unfold PostT; simpl; auto.
  - split; [|split].
    + intros nd s. rewrite exec_S. apply node_step_inv; auto.
    + intros s. rewrite leave_S. destruct (jq s) as [|j js] eqn:Hj.
      { apply GInv_ret; [reflexivity | intros _; reflexivity]. }
      pose proof (run_batch_inv lim true (exec f) IHe (j :: js) (set_jq [] s)) as G.
      apply (GInv_regs_base true PostL s (set_jq [] s) _ PostL_base eq_refl eq_refl) in G.
      destruct (run_batch lim (exec f) (j :: js) (set_jq [] s)) as [s1 o].
      destruct o; try exact G.
      apply Chain_GInv.
      eapply (Chain_bind true PostL s s1 s1 _ (PostL s s1 ONorm)); [exact G | reflexivity | apply IHl | | ].
      * intros R T. simpl in R. eapply TopOK_regs; eauto.
      * intros R T P. simpl in R. eapply PostL_base; eauto.
    + intros body s. rewrite run_top_S. apply run_top_step_inv; auto.
Qed.

Lemma exec_inv : forall fuel nd s, Inv true s (exec fuel nd s).
Proof. intros. apply main_invariant. Qed.

(* Callable / RunProgram nodes: everything restored, sp included *)
Lemma exec_api_inv : forall fuel nd s,
  (match nd with NCallable _ _ | NRun _ _ => True | _ => False end) -> GInv true PostL s (exec fuel nd s).
Proof.
  intros fuel nd s H. destruct fuel as [|f].
  - simpl. apply GInv_ret; simpl; auto.
  - rewrite exec_S. destruct (main_invariant f) as (IHe & IHl & IHt). apply node_step_api; auto.
Qed.

End Main.

(* ---- the idle predicate ---- *)
Lemma idle_regs_spec : forall s, idle_regs s = true ->
  sp s = 0 /\ sb s = -1 /\ args s = 0 /\ prg s = false /\ stash s = 0%nat /\ cs s = [] /\ ts s = [] /\ its s = [] /\ refs s = 0%nat.
Proof.
  intros s H. unfold idle_regs in H. repeat (apply andb_prop in H; destruct H as [H ?]).
  apply Z.eqb_eq in H. apply Z.eqb_eq in H7. apply Z.eqb_eq in H6. apply negb_true_iff in H5.
  apply Nat.eqb_eq in H4. apply Nat.eqb_eq in H3. apply Nat.eqb_eq in H2. apply Nat.eqb_eq in H1. apply Nat.eqb_eq in H0.
  repeat split; auto; apply length_zero_iff_nil; auto.
Qed.

Lemma idle_regs_of_regs : forall s s', regs s' = regs s -> idle_regs s = true -> idle_regs s' = true.
Proof.
  intros s s' R H. apply regs_inv in R. destruct R as (c1 & c2 & c3 & c4 & c5 & c6 & c7 & c8 & c9).
  unfold idle_regs in *. rewrite c1, c2, c3, c4, c5, c6, c7, c8, c9. exact H.
Qed.

Lemma idle_TopOK : forall s, idle_regs s = true -> TopOK s.
Proof. intros s H. apply idle_regs_spec in H. intros _. tauto. Qed.

(* ---- idle_restored ---- *)
(* nothing deviates any more: the ghost counter never moves *)
Lemma api_exec_dv : forall lim faults fuel a st, dv (fst (api_exec lim faults fuel a st)) = dv st.
Proof.
  intros lim faults fuel a st. destruct a as [body|body|acts| |run late rr evs]; simpl.
  - pose proof (exec_api_inv lim faults fuel (NRun false body) st I) as (A & B & C).
    destruct (exec lim faults fuel (NRun false body) st) as [s' o]. destruct o; simpl in *; auto.
  - pose proof (exec_api_inv lim faults fuel (NCallable false body) st I) as (A & B & C).
    destruct (exec lim faults fuel (NCallable false body) st) as [s' o]. destruct o; simpl in *; auto.
  - pose proof (vm_try_inv true (run_acts (exec lim faults fuel) acts) st
                  (run_acts_inv true (exec lim faults fuel) (exec_inv lim faults fuel) acts)) as (A & B & C).
    destruct (vm_try (run_acts (exec lim faults fuel) acts) st) as [s' o]. destruct o; simpl in *; auto.
  - reflexivity.
  - destruct (intr st). { reflexivity. }
    set (s1 := if late then st else set_log (log st ++ evs) st).
    assert (D1 : dv s1 = dv st) by (unfold s1; destruct late; reflexivity).
    set (sw := if run then set_cs (halt_ctx :: cs s1) s1 else s1).
    assert (Dw : dv sw = dv st) by (unfold sw; destruct run; exact D1).
    destruct (proj1 (proj2 (main_invariant lim faults fuel)) sw) as (A & B & C). specialize (B eq_refl).
    assert (Hl : dv (fst (scen_finish run late rr evs (leave lim faults fuel sw))) = dv st).
    { unfold scen_finish. destruct (leave lim faults fuel sw) as [s2 o]. simpl in B.
      destruct o; try (destruct (uncatchable_err p)); destruct run; try destruct late; simpl; unfold dv in *; cbn; lia. }
    destruct rr as [|[| | |]| |]; try exact Hl; simpl; unfold dv in *; cbn; lia.
Qed.

Lemma api_exec_idle : forall lim faults fuel a st,
  idle_regs st = true ->
  snd (api_exec lim faults fuel a st) <> RStuck ->
  idle_regs (fst (api_exec lim faults fuel a st)) = true.
Proof.
  intros lim faults fuel a st Hi. pose proof (idle_TopOK st Hi) as T.
  destruct a as [body|body|acts| |run late rr evs]; simpl.
  - pose proof (exec_api_inv lim faults fuel (NRun false body) st I) as (A & B & C).
    destruct (exec lim faults fuel (NRun false body) st) as [s' o]. simpl in *. specialize (C (B eq_refl) T).
    destruct o; simpl; intros Hs; try congruence; simpl in C; try contradiction; eapply idle_regs_of_regs; eauto.
  - pose proof (exec_api_inv lim faults fuel (NCallable false body) st I) as (A & B & C).
    destruct (exec lim faults fuel (NCallable false body) st) as [s' o]. simpl in *. specialize (C (B eq_refl) T).
    destruct o; simpl; intros Hs; try congruence; simpl in C; try contradiction; eapply idle_regs_of_regs; eauto.
  - pose proof (vm_try_inv true (run_acts (exec lim faults fuel) acts) st
                  (run_acts_inv true (exec lim faults fuel) (exec_inv lim faults fuel) acts)) as (A & B & C).
    destruct (vm_try (run_acts (exec lim faults fuel) acts) st) as [s' o]. simpl in *. specialize (C (B eq_refl) T).
    destruct o; simpl; intros Hs; try congruence; simpl in C; try contradiction; eapply idle_regs_of_regs; eauto.
  - intros _. exact Hi.
  - destruct (intr st). { intros _. exact Hi. }
    set (s1 := if late then st else set_log (log st ++ evs) st).
    assert (R1 : regs s1 = regs st) by (unfold s1; destruct late; reflexivity).
    assert (I1 : idle_regs s1 = true) by (eapply idle_regs_of_regs; eauto).
    pose proof (idle_regs_spec s1 I1) as (_ & _ & _ & _ & _ & Hcs1 & _).
    set (sw := if run then set_cs (halt_ctx :: cs s1) s1 else s1).
    assert (Tw : TopOK sw).
    { unfold sw. destruct run. apply TopOK_ne. discriminate. apply idle_TopOK; auto. }
    destruct (proj1 (proj2 (main_invariant lim faults fuel)) sw) as (A & B & C). specialize (C (B eq_refl) Tw).
    assert (Hl : snd (scen_finish run late rr evs (leave lim faults fuel sw)) <> RStuck ->
                 idle_regs (fst (scen_finish run late rr evs (leave lim faults fuel sw))) = true).
    { unfold scen_finish. destruct (leave lim faults fuel sw) as [s2 o]. simpl in C.
      assert (Hr : o = ONorm \/ (exists p, o = OPanic p) -> idle_regs (if run then top_fin s2 else s2) = true).
      { intros Ho. assert (R2 : regs s2 = regs sw) by (destruct Ho as [Ho|(q & Ho)]; subst o; exact C).
        eapply idle_regs_of_regs; [|exact I1]. apply regs_inv in R2.
        destruct R2 as (c1 & c2 & c3 & c4 & c5 & c6 & c7 & c8 & c9).
        unfold sw in *. destruct run; [|apply regs_intro; auto].
        cbn in c1, c2, c3, c4, c5, c6, c7, c8, c9. unfold top_fin. apply regs_intro; cbn; try congruence.
        rewrite c6. reflexivity. }
      destruct o; simpl; intros Hs; try congruence.
      - specialize (Hr (or_introl eq_refl)). destruct run; destruct late; exact Hr.
      - destruct (uncatchable_err p); simpl in *; apply Hr; eauto. }
    destruct rr as [|[| | |]| |]; auto; intros _; unfold leave_abrupt; exact I1.
Qed.

(* idle after EVERY outermost API call *)
Theorem idle_restored : forall lim faults fuel a st,
  idle_regs st = true ->
  snd (api_exec lim faults fuel a st) <> RStuck ->
  idle_regs (fst (api_exec lim faults fuel a st)) = true.
Proof. exact api_exec_idle. Qed.

(* ---- histories of API calls ---- *)
Fixpoint run_calls (lim : option nat) (faults : list (nat * fkind)) (fuel : nat) (ops : list api) (s : state)
  : state * bool :=
  match ops with
  | [] => (s, true)
  | a :: r =>
      match snd (api_exec lim faults fuel a s) with
      | RStuck => (fst (api_exec lim faults fuel a s), false)
      | _ => run_calls lim faults fuel r (fst (api_exec lim faults fuel a s))
      end
  end.

Theorem history_idle : forall lim faults fuel ops st,
  idle_regs st = true ->
  snd (run_calls lim faults fuel ops st) = true ->
  idle_regs (fst (run_calls lim faults fuel ops st)) = true.
Proof.
  intros lim faults fuel. induction ops as [|a r IH]; intros st Hi; simpl. { auto. }
  pose proof (api_exec_idle lim faults fuel a st Hi) as C.
  destruct (snd (api_exec lim faults fuel a st)) eqn:E; simpl; intros Ok; try discriminate;
    (apply IH; [apply C; congruence | exact Ok]).
Qed.

(* ---- nested entry ---- *)
Theorem nested_entry_restored : forall lim faults fuel nd s,
  TopOK s ->
  match snd (exec lim faults fuel nd s) with
  | ONorm => regs (fst (exec lim faults fuel nd s)) = regs s
  | OPanic _ =>
      same_but_sp s (fst (exec lim faults fuel nd s)) /\
      (match nd with NCallable _ _ | NRun _ _ => regs (fst (exec lim faults fuel nd s)) = regs s | _ => True end)
  | _ => True
  end.
Proof.
  intros lim faults fuel nd s T.
  destruct (exec_inv lim faults fuel nd s) as (A & B & C). specialize (C (B eq_refl) T).
  assert (Hapi : match nd with NCallable _ _ | NRun _ _ => True | _ => False end ->
                 PostL s (fst (exec lim faults fuel nd s)) (snd (exec lim faults fuel nd s))).
  { intros Hn. destruct (exec_api_inv lim faults fuel nd s Hn) as (_ & B' & C'). apply C'; auto. }
  destruct (snd (exec lim faults fuel nd s)); simpl in *; auto.
  split; auto. destruct nd; auto; apply Hapi; exact I.
Qed.

(* ---- next run ---- *)
Definition fresh_with (l : list nat) (pc : nat) (i : bool) (tr : list snap) (lk : list nat) : state :=
  mkSt 0 (-1) 0 false 0 [] [] [] 0%nat [] i l pc tr lk.

Lemma idle_is_fresh : forall s, idle_regs s = true -> jq s = [] ->
  s = fresh_with (log s) (pcount s) (intr s) (trace s) (leaked s).
Proof.
  intros s H J. apply idle_regs_spec in H. destruct H as (h1 & h2 & h3 & h4 & h5 & h6 & h7 & h8 & h9).
  destruct s; simpl in *. unfold fresh_with. congruence.
Qed.

Theorem next_run_equivalent : forall lim faults fuel a s,
  idle_regs s = true -> jq s = [] ->
  api_exec lim faults fuel a s =
  api_exec lim faults fuel a (fresh_with (log s) (pcount s) (intr s) (trace s) (leaked s)).
Proof. intros. rewrite <- idle_is_fresh; auto. Qed.

(* ---- the snapshot/restore lemma in terms of handleThrow, and its corollaries ---- *)
Lemma handleThrow_restores : forall p tf s0 above below s xs ys k,
  snap_of tf s0 -> skippable p tf = false -> forallb (skippable p) above = true ->
  ts s = above ++ tf :: below -> extends s0 s xs ys k ->
  let r := handle_throw p s in
  let s' := fst r in
  cs s' = cs s0 /\ its s' = its s0 /\ refs s' = refs s0 /\ stash s' = stash s0 /\
  sp s' = (if negb (t_marker tf) && t_catch tf then sp s0 + 1 else sp s0) /\
  (prg s', sb s', args s') = bottom_regs xs s /\
  ts s' = flagged tf :: below /\
  log s' = log s /\
  leaked s' = leaked s /\ jq s' = jq s /\ intr s' = intr s /\ pcount s' = pcount s /\ trace s' = trace s /\
  snd r = (if t_marker tf then OUnwound p
           else if t_catch tf then OCaught (length below) HCatch p else OCaught (length below) HFin p).
Proof.
  intros p tf s0 above below s xs ys k Sn Ns Ab Hts Hx. unfold handle_throw. rewrite Hts.
  apply (handle_loop_restores p tf s0 above below s xs ys k); auto.
Qed.

Lemma handleThrow_idem : forall p tf s0 above below s xs ys k,
  snap_of tf s0 -> t_marker tf = true -> forallb (skippable p) above = true ->
  ts s = above ++ tf :: below -> extends s0 s xs ys k ->
  let s1 := fst (handle_throw p s) in
  regs (fst (handle_throw p s1)) = regs s1 /\ snd (handle_throw p s1) = snd (handle_throw p s) /\
  log (fst (handle_throw p s1)) = log s1.
Proof.
  intros p tf s0 above below s xs ys k Sn Mk Ab Hts Hx s1.
  assert (Ns : skippable p tf = false).
  { unfold skippable. rewrite Mk. simpl. rewrite !andb_false_r. reflexivity. }
  pose proof (handleThrow_restores p tf s0 above below s xs ys k Sn Ns Ab Hts Hx) as H.
  cbv zeta in H. fold s1 in H.
  destruct H as (a1 & a2 & a3 & a4 & a5 & a6 & a7 & a8 & _ & _ & _ & _ & _ & a9).
  assert (Hf : flagged tf = tf) by (unfold flagged; rewrite Mk; reflexivity). rewrite Hf in a7.
  assert (Hx1 : extends s0 s1 [] [] 0) by (constructor; simpl; auto).
  pose proof (handleThrow_restores p tf s0 [] below s1 [] [] 0%nat Sn Ns eq_refl a7 Hx1) as H.
  cbv zeta in H. destruct H as (b1 & b2 & b3 & b4 & b5 & b6 & b7 & b8 & _ & _ & _ & _ & _ & b9).
  rewrite Hf in b7. rewrite Mk in a5, b5, a9, b9. cbn [negb andb] in a5, b5.
  unfold bottom_regs in b6. apply triple_inv in b6. destruct b6 as (c1 & c2 & c3).
  split; [|split].
  - apply regs_intro; congruence.
  - congruence.
  - exact b8.
Qed.

Lemma uncatchable_never_caught : forall p s, catchable p = false -> snd (handle_throw p s) = OUnwound p.
Proof. intros. apply uncatchable_loop. auto. Qed.

Lemma handleThrow_shrinks : forall p s, (length (ts (fst (handle_throw p s))) <= length (ts s))%nat.
Proof. intros. apply handle_loop_shrinks. Qed.

(* ---- handleThrow with restoreStacks' walk: the iterators are closed BEFORE the stacks are truncated ---- *)
Lemma close_items_native_log : forall lim ex items s,
  Forall (fun it : irec => snd it = None) items ->
  close_items lim ex items s = (set_log (log s ++ map (fun it => close_ev (fst it)) items) s, ONorm).
Proof.
  intros lim ex. induction items as [|[id r] items IH]; intros s F; simpl.
  - rewrite app_nil_r. destruct s; reflexivity.
  - inversion F; subst. simpl in H1. subst r. rewrite IH by auto. cbn. rewrite <- app_assoc. reflexivity.
Qed.

Lemma raise_closes_then_truncates : forall lim faults fuel inrec p s tf rest,
  catchable p = true -> target p (ts s) = Some (tf, rest) ->
  let sm := set_ts (tf :: rest) (restore_regs tf s) in
  let dropped := firstn (length (its s) - t_iter tf) (its s) in
  let r := close_items lim (Model.exec lim faults fuel) dropped sm in
  (* the walk starts with the iterator stack untouched: whatever a return() call iterates is pushed above the tail *)
  its sm = its s /\
  raise lim (Model.exec lim faults fuel) inrec p s =
    match r with
    | (s1, ONorm) => handle_throw p s1
    | (s1, OPanic p') =>
        let s2 := restore_stacks (t_iter tf) (t_ref tf) s1 in     (* the deferred dropStacks *)
        handle_throw p' (with_regs_of s s2)
    | (s1, _) => (s1, OStuck)
    end /\
  (* every return() call that comes back restores every register and stack; only then the stacks are cut *)
  (snd r = ONorm -> dv (fst r) = dv s ->
     regs (fst r) = regs sm /\
     its (fst (handle_throw p (fst r))) = low (t_iter tf) (its s) /\
     refs (fst (handle_throw p (fst r))) = Nat.min (t_ref tf) (refs s)).
Proof.
  intros lim faults fuel inrec p s tf rest Hc Ht sm dropped r.
  destruct (restore_regs_fields tf s) as (f1 & f2 & f3 & f4 & f5 & f6 & f7 & _).
  assert (Hits : its sm = its s) by (unfold sm; cbn -[restore_regs]; exact f1).
  split; [exact Hits|]. split.
  - unfold raise, close_phase. rewrite Hc, Ht. fold sm. rewrite Hits. fold dropped. fold r. destruct r as [s1 o]. destruct o; reflexivity.
  - intros Hn D.
    destruct (close_items_inv lim true (Model.exec lim faults fuel) (exec_inv lim faults fuel) dropped sm) as (A & B & C).
    fold r in A, B, C. rewrite Hn in C.
    assert (Dm : dv sm = dv s) by (unfold sm, dv; cbn -[restore_regs]; rewrite f7; reflexivity).
    assert (R : regs (fst r) = regs sm) by (apply C; lia).
    split; [exact R|].
    destruct (target_spec p (ts s) tf rest Ht) as (above & _ & _ & Ns).
    apply regs_inv in R. destruct R as (c1 & c2 & c3 & c4 & c5 & c6 & c7 & c8 & c9).
    unfold handle_throw. rewrite c7. unfold sm. cbn [ts set_ts handle_loop]. rewrite Ns.
    assert (Hi : its (restore_at tf (fst r)) = low (t_iter tf) (its s) /\ refs (restore_at tf (fst r)) = Nat.min (t_ref tf) (refs s)).
    { unfold restore_at, restore_stacks. cbn -[low Nat.min restore_regs].
      destruct (restore_regs_fields tf (fst r)) as (g1 & g2 & _). rewrite g1, g2, c8, c9, Hits.
      unfold sm. cbn -[restore_regs]. rewrite f2. auto. }
    destruct Hi as (Hi1 & Hi2).
    destruct (t_marker tf); [|destruct (t_catch tf)]; cbn -[restore_at low Nat.min]; auto.
Qed.

(* ---- the former findings F16, F17, F21, F22, F23 (all repaired in /repo): their witnesses are idle ---- *)
Definition idle_after (lim : option nat) (faults : list (nat * fkind)) (a : api) : bool :=
  idle_full (fst (api_exec lim faults 80 a init)).

Definition w16 := ARun [Gen [Probe]].                        (* gen().next() interrupted inside the body *)
Definition w16b := ARun [Call [Gen [Probe]]].                (* limit 3: overflow inside the resumption *)
Definition w16c := ARun [Async [] [Probe]].                  (* async continuation interrupted *)
Definition w17 := ARun [Call []].                            (* limit 0: top-level stack overflow *)
Definition w21 := ARun [Call [Native [NRun false [Probe]]]]. (* limit 2: re-entrant RunString at the limit *)
Definition w22 := ARun [Then [Effect 7]; Probe].             (* foreign Go panic with a job pending *)
(* try { for (x of it) { probe() } } catch {}: the probe throws (a Go panic), it.return() calls probe() which interrupts *)
Definition w23 := ARun [Try [ForOf 1 [] 1 [Probe] (Some [Probe; Effect 1001])] [Effect 5] [] true false].

Lemma former_findings_repaired :
  idle_after None [(0%nat, FIntr)] w16 = true /\ idle_after (Some 3%nat) [] w16b = true /\
  idle_after None [(0%nat, FIntr)] w16c = true /\ idle_after (Some 0%nat) [] w17 = true /\
  idle_after (Some 2%nat) [] w21 = true /\ idle_after None [(0%nat, FGo)] w22 = true /\
  idle_after None [(0%nat, FThrow); (1%nat, FIntr)] w23 = true.
Proof. vm_compute. auto 10. Qed.

(* ---- the job queue after an outermost RunProgram / Callable (repaired algorithm) ---- *)
Lemma leave_norm_jq : forall lim faults fuel s s',
  leave lim faults fuel s = (s', ONorm) -> jq s' = [].
Proof.
  intros lim faults. induction fuel as [|f IH]; intros s s' H. { simpl in H. discriminate. }
  rewrite leave_S in H. destruct (jq s) eqn:J. { inversion H; subst. exact J. }
  destruct (run_batch lim (Model.exec lim faults f) (j :: l) (set_jq [] s)) as [s1 o].
  destruct o; try discriminate. eapply IH; eauto.
Qed.

Definition go_outcome (o : outcome) : Prop := o = ONorm \/ exists p, o = OPanic p.

Lemma top_recover_jq : forall inb s p,
  length (cs (fst (fst (top_recover inb s p)))) = 0%nat -> jq (fst (fst (top_recover inb s p))) = [].
Proof.
  intros inb s p. unfold top_recover. destruct (uncatchable_err p); cbn [fst].
  - destruct (Nat.eqb (length (cs (top_fin s))) 0) eqn:E; [reflexivity|]. intros H. apply Nat.eqb_neq in E. contradiction.
  - unfold host_panic_exit. cbn [cs set_sb set_prg].
    destruct (Nat.eqb (length (cs (top_fin s))) 0) eqn:E; [reflexivity|]. cbn. intros H. apply Nat.eqb_neq in E. contradiction.
Qed.

Lemma top_leave_jq : forall lim faults f s2 err,
  go_outcome (snd (fst (top_leave (Model.leave lim faults f) s2 err))) ->
  length (cs (fst (fst (top_leave (Model.leave lim faults f) s2 err)))) = 0%nat ->
  jq (fst (fst (top_leave (Model.leave lim faults f) s2 err))) = [].
Proof.
  intros lim faults f s2 err. unfold top_leave.
  destruct (Model.leave lim faults f (set_sb (-1) (set_prg false (pop_try s2)))) as [s3 o] eqn:E.
  destruct o; cbn [fst snd]; intros G; try (destruct G as [G|(q & G)]; discriminate).
  - intros _. unfold top_fin. cbn. eapply leave_norm_jq; eauto.
  - apply top_recover_jq.
Qed.

Lemma run_top_jq : forall lim faults fuel body s,
  go_outcome (snd (fst (Model.run_top lim faults fuel body s))) ->
  length (cs (fst (fst (Model.run_top lim faults fuel body s)))) = 0%nat ->
  jq (fst (fst (Model.run_top lim faults fuel body s))) = [].
Proof.
  intros lim faults fuel body s. destruct fuel as [|f]. { simpl. intros [G|(q & G)]; discriminate. }
  change (Model.run_top lim faults (S f) body s)
    with (run_top_step (Model.exec lim faults f) (Model.leave lim faults f) body s).
  unfold run_top_step.
  destruct (loop_out (run_items (Model.exec lim faults f) body
              (push_try true false false (set_prg true (set_cs (halt_ctx :: cs s) s))))) as [s2 o].
  destruct o; try (cbn [fst snd]; intros [G|(q & G)]; discriminate).
  - apply top_leave_jq.
  - destruct (catchable p). apply top_leave_jq. intros _. apply top_recover_jq.
Qed.

Lemma run_wrapped_jq : forall lim faults f body s,
  go_outcome (snd (fst (run_wrapped lim (Model.exec lim faults f) (Model.leave lim faults f) body s))) ->
  length (cs (fst (fst (run_wrapped lim (Model.exec lim faults f) (Model.leave lim faults f) body s)))) = 0%nat ->
  jq (fst (fst (run_wrapped lim (Model.exec lim faults f) (Model.leave lim faults f) body s))) = [].
Proof.
  intros lim faults f body s. unfold run_wrapped.
  assert (Hrec : forall s1 p, length (cs (fst (fst (recover_wrapped s1 p)))) = 0%nat ->
                              jq (fst (fst (recover_wrapped s1 p))) = []).
  { intros s1 p. unfold recover_wrapped. destruct (uncatchable_err p); cbn [fst].
    - destruct (Nat.eqb (length (cs s1)) 0) eqn:E; [reflexivity|]. intros H. apply Nat.eqb_neq in E. contradiction.
    - unfold host_panic_exit. destruct (Nat.eqb (length (cs s1)) 0) eqn:E; [reflexivity|]. intros H. apply Nat.eqb_neq in E. contradiction. }
  assert (Htail : forall s1 err,
            go_outcome (snd (fst (wrapped_tail (Model.leave lim faults f) s1 err))) ->
            length (cs (fst (fst (wrapped_tail (Model.leave lim faults f) s1 err)))) = 0%nat ->
            jq (fst (fst (wrapped_tail (Model.leave lim faults f) s1 err))) = []).
  { intros s1 err. unfold wrapped_tail. destruct (Nat.eqb (length (cs s1)) 0) eqn:E.
    - destruct (Model.leave lim faults f s1) as [s2 o] eqn:El.
      destruct o; cbn [fst snd]; intros G; try (destruct G as [G|(q & G)]; discriminate).
      + intros _. eapply leave_norm_jq; eauto.
      + apply Hrec.
    - cbn [fst snd]. intros _ H. apply Nat.eqb_neq in E. contradiction. }
  destruct (vm_try (reentry lim (Model.exec lim faults f) 0 body) s) as [s1 o].
  destruct o; try (cbn [fst snd]; intros [G|(q & G)]; discriminate).
  - apply Htail.
  - apply Htail.
  - intros _. apply Hrec.
Qed.

(* idle, and the job queue empty, after EVERY outermost RunProgram / Callable *)
Theorem idle_restored_jobs : forall lim faults fuel body st,
  idle_regs st = true ->
  (snd (api_exec lim faults fuel (ARun body) st) <> RStuck ->
   idle_regs (fst (api_exec lim faults fuel (ARun body) st)) = true /\
   jq (fst (api_exec lim faults fuel (ARun body) st)) = []) /\
  (snd (api_exec lim faults fuel (ACall body) st) <> RStuck ->
   idle_regs (fst (api_exec lim faults fuel (ACall body) st)) = true /\
   jq (fst (api_exec lim faults fuel (ACall body) st)) = []).
Proof.
  intros lim faults fuel body st Hi.
  pose proof (idle_regs_spec st Hi) as (_ & _ & _ & _ & _ & Hcs & _).
  split; intros Hs.
  - pose proof (idle_restored lim faults fuel (ARun body) st Hi Hs) as I1. split; [exact I1|].
    apply idle_regs_spec in I1. destruct I1 as (_ & _ & _ & _ & _ & Hcs' & _).
    simpl in *. destruct fuel as [|f]. { simpl in Hs. congruence. }
    rewrite exec_S in *. simpl in *. rewrite Hcs in *. simpl in *.
    pose proof (run_top_jq lim faults f body st) as J.
    destruct (Model.run_top lim faults f body st) as [[s1 o] e]. simpl in J.
    destruct o; simpl in *; try congruence.
    + destruct e as [p|]; simpl in *.
      * unfold policy in *. rewrite andb_false_r in *. simpl in *. apply J; [left; reflexivity | rewrite Hcs'; reflexivity].
      * apply J; [left; reflexivity | rewrite Hcs'; reflexivity].
    + apply J. right; eauto. rewrite Hcs'. reflexivity.
  - pose proof (idle_restored lim faults fuel (ACall body) st Hi Hs) as I1. split; [exact I1|].
    apply idle_regs_spec in I1. destruct I1 as (_ & _ & _ & _ & _ & Hcs' & _).
    simpl in *. destruct fuel as [|f]. { simpl in Hs. congruence. }
    rewrite exec_S in *. simpl in *.
    pose proof (run_wrapped_jq lim faults f body st) as J.
    destruct (run_wrapped lim (Model.exec lim faults f) (Model.leave lim faults f) body st) as [[s1 o] e]. simpl in J.
    destruct o; simpl in *; try congruence.
    + destruct e as [p|]; simpl in *.
      * unfold policy in *. rewrite andb_false_r in *. simpl in *. apply J; [left; reflexivity | rewrite Hcs'; reflexivity].
      * apply J; [left; reflexivity | rewrite Hcs'; reflexivity].
    + apply J. right; eauto. rewrite Hcs'. reflexivity.
Qed.
