(* C03 — the universal theorems: induction on fuel over the combinator lemmas of PComb.v. *)
From Coq Require Import List ZArith Bool Arith Lia.
Import ListNotations.
From Verif.C03 Require Import Model.
From Verif.C03 Require Export PBase PComb.
Open Scope Z_scope.

Section Main.
Variable lim : option nat.
Variable faults : list (nat * fkind).
Variable fixed : bool.

Local Notation exec := (exec lim faults fixed).
Local Notation leave := (leave lim faults fixed).
Local Notation run_top := (run_top lim faults fixed).

Lemma main_invariant : forall fuel,
  (forall nd s, Inv fixed s (exec fuel nd s)) /\
  (forall s, GInv fixed PostL s (leave fuel s)) /\
  (forall body s, GInv fixed PostT s (fst (run_top fuel body s))).
Proof.
  induction fuel as [|f (IHe & IHl & IHt)].
  - split; [|split]; intros; simpl; apply GInv_ret; simpl; auto; unfold PostT; simpl; auto.
  - split; [|split].
    + intros nd s. simpl. apply node_step_inv; auto.
    + intros s. simpl. destruct (jq s) as [|j js] eqn:Hj.
      { apply GInv_ret; simpl; auto. }
      pose proof (run_batch_inv lim fixed (exec f) IHe (j :: js) (set_jq [] s)) as G.
      apply (GInv_regs_base fixed PostL s (set_jq [] s) _ PostL_base eq_refl eq_refl) in G.
      destruct (run_batch lim fixed (exec f) (j :: js) (set_jq [] s)) as [s1 o].
      destruct o; try exact G.
      apply Chain_GInv.
      eapply (Chain_bind fixed PostL s s1 s1 _ (PostL s s1 ONorm)); [exact G | reflexivity | apply IHl | | ].
      * intros R T. simpl in R. eapply TopOK_regs; eauto.
      * intros R T P. simpl in R. eapply PostL_base; eauto.
    + intros body s. simpl. apply run_top_step_inv; auto.
Qed.

Lemma exec_inv : forall fuel nd s, Inv fixed s (exec fuel nd s).
Proof. intros. apply main_invariant. Qed.

(* Callable / RunProgram nodes: everything restored, sp included *)
Lemma exec_api_inv : forall fuel nd s,
  (match nd with NCallable _ _ | NRun _ _ => True | _ => False end) -> GInv fixed PostL s (exec fuel nd s).
Proof.
  intros fuel nd s H. destruct fuel as [|f].
  - simpl. apply GInv_ret; simpl; auto.
  - simpl. destruct (main_invariant f) as (IHe & IHl & IHt). apply node_step_api; auto.
Qed.

End Main.
