(* C03 — lemmas over the control-skeleton model. *)
From Coq Require Import List ZArith Bool Arith Lia.
Import ListNotations.
From Verif.C03 Require Import Model.
Open Scope Z_scope.

Definition regs (s : state) := (sp s, sb s, args s, prg s, stash s, cs s, ts s, its s, refs s).

(* ---- list facts about [low] ---- *)
Lemma low_app_exact : forall A (xs l : list A), low (length l) (xs ++ l) = l.
Proof.
  intros. unfold low. rewrite app_length.
  replace (length xs + length l - length l)%nat with (length xs) by lia.
  rewrite skipn_app, skipn_all, Nat.sub_diag. reflexivity.
Qed.

Lemma firstn_app_exact : forall A (xs l : list A), firstn (length (xs ++ l) - length l) (xs ++ l) = xs.
Proof.
  intros. rewrite app_length.
  replace (length xs + length l - length l)%nat with (length xs) by lia.
  rewrite firstn_app, firstn_all, Nat.sub_diag. simpl. apply app_nil_r.
Qed.

Lemma nth_error_bottom : forall (xs : list ctx) (c : ctx) (l : list ctx),
  nth_error ((xs ++ [c]) ++ l) (length ((xs ++ [c]) ++ l) - length l - 1) = Some c.
Proof.
  intros. rewrite !app_length. simpl.
  replace (length xs + 1 + length l - length l - 1)%nat with (length xs) by lia.
  rewrite <- app_assoc. rewrite nth_error_app2 by lia. rewrite Nat.sub_diag. reflexivity.
Qed.

(* "s extends s0": what a computation started at s0 may have piled on top of s0's stacks *)
Definition bottom_ok (s0 : state) (xs : list ctx) (s : state) : Prop :=
  match xs with
  | [] => prg s = prg s0 /\ sb s = sb s0 /\ args s = args s0
  | _ => c_prg (last xs halt_ctx) = prg s0 /\ c_sb (last xs halt_ctx) = sb s0 /\ c_args (last xs halt_ctx) = args s0
  end.

Record extends (s0 s : state) (xs : list ctx) (ys : list nat) (k : nat) : Prop := {
  ext_cs : cs s = xs ++ cs s0;
  ext_bottom : bottom_ok s0 xs s;
  ext_its : its s = ys ++ its s0;
  ext_refs : refs s = (k + refs s0)%nat }.

(* the register restore of handleThrow at a frame pushed at s0, applied to any extension of s0 *)
Lemma restore_at_frame : forall m c f s0 s xs ys k,
  extends s0 s xs ys k ->
  let s' := restore_at (new_frame m c f s0) s in
  cs s' = cs s0 /\ its s' = its s0 /\ refs s' = refs s0 /\ stash s' = stash s0 /\
  prg s' = prg s0 /\ sb s' = sb s0 /\ args s' = args s0 /\ sp s' = sp s0 /\
  ts s' = ts s /\ log s' = log s ++ map close_ev ys /\
  jq s' = jq s /\ intr s' = intr s /\ pcount s' = pcount s /\ trace s' = trace s /\ leaked s' = leaked s.
Proof.
  intros m c f s0 s xs ys k [Hcs Hb Hits Hrefs]. unfold restore_at, new_frame. cbn [t_csl t_iter t_ref t_sp t_stash].
  assert (Hlow_its : low (length (its s0)) (its s) = its s0) by (rewrite Hits; apply low_app_exact).
  assert (Hdrop : firstn (length (its s) - length (its s0)) (its s) = ys) by (rewrite Hits; apply firstn_app_exact).
  assert (Hmin : Nat.min (refs s0) (refs s) = refs s0) by lia.
  destruct xs as [|x xs'].
  - (* same call depth: nothing to pop *)
    simpl in Hcs. destruct Hb as (Hp & Hsb & Ha).
    rewrite Hcs, Nat.ltb_irrefl. unfold restore_stacks. cbn -[low firstn Nat.min Nat.sub].
    rewrite Hlow_its, Hdrop, Hmin. repeat split; auto.
  - destruct (@exists_last _ (x :: xs') ltac:(discriminate)) as (xs'' & c0 & Hx).
    unfold bottom_ok in Hb. rewrite Hx in Hb, Hcs. rewrite last_last in Hb. destruct Hb as (Hp & Hsb & Ha).
    assert (Hlt : Nat.ltb (length (cs s0)) (length (cs s)) = true).
    { apply Nat.ltb_lt. rewrite Hcs, !app_length. simpl. lia. }
    rewrite Hlt.
    assert (Hn : nth_error (cs s) (length (cs s) - length (cs s0) - 1) = Some c0).
    { rewrite Hcs. apply nth_error_bottom. }
    rewrite Hn. unfold restore_stacks. cbn -[low firstn Nat.min Nat.sub].
    rewrite Hlow_its, Hdrop, Hmin.
    assert (Hlow_cs : low (length (cs s0)) (cs s) = cs s0) by (rewrite Hcs; apply low_app_exact).
    rewrite Hlow_cs. repeat split; auto.
Qed.

(* handle_loop skips skippable frames *)
Lemma handle_loop_skip : forall p above rest s,
  forallb (skippable p) above = true -> handle_loop p (above ++ rest) s = handle_loop p rest s.
Proof.
  induction above as [|a ab IH]; intros; simpl in *; auto.
  apply andb_prop in H. destruct H as [Ha Hab]. rewrite Ha. auto.
Qed.

(* THE SNAPSHOT/RESTORE LEMMA: after unwinding to a try frame (pushed at s0) from any extension of s0, the
   call stack, iterator stack, reference stack, stash, frame registers and sp are exactly those at the try *)
Lemma handleThrow_restores : forall p m c f s0 above s xs ys k,
  let tf := new_frame m c f s0 in
  skippable p tf = false ->
  forallb (skippable p) above = true ->
  ts s = above ++ tf :: ts s0 ->
  extends s0 s xs ys k ->
  let s' := fst (handle_throw p s) in
  cs s' = cs s0 /\ its s' = its s0 /\ refs s' = refs s0 /\ stash s' = stash s0 /\
  prg s' = prg s0 /\ sb s' = sb s0 /\ args s' = args s0 /\
  sp s' = (if negb m && c then sp s0 + 1 else sp s0) /\
  tl (ts s') = ts s0 /\ length (ts s') = S (length (ts s0)) /\
  log s' = log s ++ map close_ev ys /\
  snd (handle_throw p s) =
    (if m then OUnwound p else if c then OCaught (length (ts s0)) HCatch p else OCaught (length (ts s0)) HFin p).
Proof.
  intros p m c f s0 above s xs ys k tf Hns Hab Hts Hext.
  unfold handle_throw. rewrite Hts, (handle_loop_skip p above _ s Hab).
  cbn [handle_loop]. fold tf. rewrite Hns.
  pose proof (restore_at_frame m c f s0 s xs ys k Hext) as R. cbv zeta in R. fold tf in R.
  destruct R as (R1 & R2 & R3 & R4 & R5 & R6 & R7 & R8 & R9 & R10 & _).
  replace (t_marker tf) with m by reflexivity. replace (t_catch tf) with c by reflexivity.
  generalize dependent (restore_at tf s). intros r R1 R2 R3 R4 R5 R6 R7 R8 R9 R10.
  destruct m; [|destruct c]; cbn; rewrite ?R8; repeat split; auto.
Qed.

(* ---- consequences ---- *)

Lemma marker_not_skippable : forall p s, skippable p (new_frame true false false s) = false.
Proof. intros. unfold skippable, new_frame. cbn. destruct (catchable p); reflexivity. Qed.

Lemma extends_refl : forall s, extends s s [] [] 0.
Proof. intros. constructor; simpl; auto. Qed.

(* handleThrow is idempotent at a marker frame: the second application (the one made by runTryInner's recover
   after vm.throw already unwound) changes no register and gives the same verdict *)
Lemma handleThrow_idem : forall p s0 above s xs ys k,
  let tf := new_frame true false false s0 in
  forallb (skippable p) above = true ->
  ts s = above ++ tf :: ts s0 ->
  extends s0 s xs ys k ->
  let s1 := fst (handle_throw p s) in
  regs (fst (handle_throw p s1)) = regs s1 /\ snd (handle_throw p s1) = snd (handle_throw p s) /\
  log (fst (handle_throw p s1)) = log s1.
Proof.
  intros p s0 above s xs ys k tf Hab Hts Hext s1.
  pose proof (marker_not_skippable p s0) as Hm. fold tf in Hm.
  pose proof (handleThrow_restores p true false false s0 above s xs ys k (marker_not_skippable p s0) Hab Hts Hext) as H.
  cbv zeta in H. fold s1 in H. destruct H as (A1 & A2 & A3 & A4 & A5 & A6 & A7 & A8 & A9 & A10 & A11 & A12).
  assert (Hts1 : ts s1 = [] ++ tf :: ts s0).
  { unfold s1, handle_throw. rewrite Hts, (handle_loop_skip p above _ s Hab). cbn [handle_loop].
    fold tf. rewrite Hm. reflexivity. }
  assert (Hext1 : extends s0 s1 [] [] 0) by (constructor; simpl; auto).
  pose proof (handleThrow_restores p true false false s0 [] s1 [] [] 0%nat (marker_not_skippable p s0) eq_refl Hts1 Hext1) as H.
  cbv zeta in H. destruct H as (B1 & B2 & B3 & B4 & B5 & B6 & B7 & B8 & B9 & B10 & B11 & B12).
  split; [|split].
  - unfold regs. rewrite B1, B2, B3, B4, B5, B6, B7, B8, A1, A2, A3, A4, A5, A6, A7, A8. simpl.
    assert (ts (fst (handle_throw p s1)) = ts s1).
    { unfold handle_throw at 1. rewrite Hts1. cbn [app handle_loop]. fold tf. rewrite Hm. reflexivity. }
    rewrite H. reflexivity.
  - rewrite B12, A12. reflexivity.
  - rewrite B11. simpl. apply app_nil_r.
Qed.

(* an uncatchable payload is never delivered to a JS handler, whatever the try stack looks like *)
Lemma uncatchable_loop : forall p fr s, catchable p = false -> snd (handle_loop p fr s) = OUnwound p.
Proof.
  induction fr as [|tf rest IH]; intros s Hp; simpl; auto.
  destruct (skippable p tf) eqn:Hs; auto.
  destruct (t_marker tf) eqn:Hm; auto.
  unfold skippable in Hs. rewrite Hp, Hm in Hs. simpl in Hs. rewrite orb_true_r in Hs. discriminate.
Qed.
Lemma uncatchable_never_caught : forall p s, catchable p = false -> snd (handle_throw p s) = OUnwound p.
Proof. intros. apply uncatchable_loop. auto. Qed.

(* handleThrow never grows the try stack *)
Lemma handle_loop_shrinks : forall p fr s, (length (ts (fst (handle_loop p fr s))) <= length fr)%nat.
Proof.
  induction fr as [|tf rest IH]; intros s; simpl; auto.
  destruct (skippable p tf). { specialize (IH s). lia. }
  destruct (t_marker tf); [|destruct (t_catch tf)]; cbn; lia.
Qed.
Lemma handleThrow_shrinks : forall p s, (length (ts (fst (handle_throw p s))) <= length (ts s))%nat.
Proof. intros. apply handle_loop_shrinks. Qed.

(* vm.try: whatever ran inside, if it returned normally with the registers it was entered with, or panicked
   leaving the try stack balanced above the marker (and only piled contexts/iterators/refs on top of the
   caller's), the caller's registers are restored EXACTLY *)
Definition balanced_panic (s1 s2 : state) : Prop :=
  ts s2 = ts s1 /\ exists xs ys k, extends s1 s2 xs ys k.

Lemma vm_try_restores : forall (f : state -> state * outcome) s,
  let s1 := push_try true false false s in
  (snd (f s1) = ONorm -> regs (fst (f s1)) = regs s1) ->
  (forall p, snd (f s1) = OPanic p -> balanced_panic s1 (fst (f s1))) ->
  (snd (f s1) = ONorm \/ exists p, snd (f s1) = OPanic p) ->
  regs (fst (vm_try f s)) = regs s.
Proof.
  intros f s s1 Hn Hp Ho. unfold vm_try. fold s1. destruct (f s1) as [s2 o] eqn:Hf. simpl in *.
  destruct Ho as [Ho | [p Ho]]; subst o.
  - specialize (Hn eq_refl). unfold regs in *. simpl. inversion Hn. unfold s1, push_try in *. simpl in *.
    rewrite H6. simpl. congruence.
  - destruct (Hp p eq_refl) as (Hts & xs & ys & k & Hext).
    assert (Hext' : extends s s2 xs ys k).
    { destruct Hext as [E1 E2 E3 E4]. constructor; auto. }
    assert (Hts' : ts s2 = [] ++ new_frame true false false s :: ts s) by (rewrite Hts; reflexivity).
    pose proof (handleThrow_restores p true false false s [] s2 xs ys k (marker_not_skippable p s) eq_refl Hts' Hext') as H.
    cbv zeta in H. destruct H as (B1 & B2 & B3 & B4 & B5 & B6 & B7 & B8 & B9 & _).
    destruct (handle_throw p s2) as [s3 o3]. simpl in *.
    destruct (catchable p); unfold regs, pop_try; simpl; rewrite B1, B2, B3, B4, B5, B6, B7, B8, B9; reflexivity.
Qed.

(* ---- the recorded deviations, exhibited by the faithful model (vm_compute witnesses) ---- *)
Definition idle_after (lim : option nat) (faults : list (nat * fkind)) (fixed : bool) (a : api) : bool :=
  idle_full (fst (api_exec lim faults fixed 80 a init)).

Definition w16 := ARun [Gen [Probe]].                        (* gen().next() interrupted inside the body *)
Definition w16b := ARun [Call [Gen [Probe]]].                (* limit 3: overflow inside the resumption *)
Definition w17 := ARun [Call []].                            (* limit 0: top-level stack overflow *)
Definition w21 := ARun [Call [Native [NRun false [Probe]]]]. (* limit 2: re-entrant RunString at the limit *)
Definition w22 := ARun [Then [Effect 7]; Probe].             (* foreign Go panic with a job pending *)

Lemma idle_refuted_F16 : exists lim faults a, idle_after lim faults false a = false /\ idle_after lim faults true a = true.
Proof. exists None, [(0%nat, FIntr)], w16. vm_compute. auto. Qed.
Lemma idle_refuted_F16_overflow : exists lim faults a, idle_after lim faults false a = false /\ idle_after lim faults true a = true.
Proof. exists (Some 3%nat), [], w16b. vm_compute. auto. Qed.
Lemma idle_refuted_F17 : exists lim faults a, idle_after lim faults false a = false /\ idle_after lim faults true a = true.
Proof. exists (Some 0%nat), [], w17. vm_compute. auto. Qed.
Lemma idle_refuted_F22 : exists lim faults a, idle_after lim faults false a = false /\ idle_after lim faults true a = true.
Proof. exists None, [(0%nat, FGo)], w22. vm_compute. auto. Qed.

(* F21: the registers the native function sees after the re-entrant RunString returned differ from those before *)
Definition nested_regs (fixed : bool) : list snap := trace (fst (api_exec (Some 2%nat) [] fixed 80 w21 init)).
Lemma nested_refuted_F21 : nested_regs false <> nested_regs true.
Proof. vm_compute. discriminate. Qed.
