(* C03 — basic facts: registers, extensions, the snapshot/restore lemma of handleThrow. *)
From Coq Require Import List ZArith Bool Arith Lia.
Import ListNotations.
From Verif.C03 Require Import Model.
Open Scope Z_scope.

Definition regs (s : state) := (sp s, sb s, args s, prg s, stash s, cs s, ts s, its s, refs s).

Lemma regs_inv : forall a b, regs a = regs b ->
  sp a = sp b /\ sb a = sb b /\ args a = args b /\ prg a = prg b /\ stash a = stash b /\
  cs a = cs b /\ ts a = ts b /\ its a = its b /\ refs a = refs b.
Proof. unfold regs; intros a b H; inversion H; auto 10. Qed.

Lemma regs_intro : forall a b,
  sp a = sp b -> sb a = sb b -> args a = args b -> prg a = prg b -> stash a = stash b ->
  cs a = cs b -> ts a = ts b -> its a = its b -> refs a = refs b -> regs a = regs b.
Proof. unfold regs; intros; congruence. Qed.

(* everything but sp: what a Go-level panic leaves of the registers it started with *)
Definition same_but_sp (a b : state) : Prop :=
  sb b = sb a /\ args b = args a /\ prg b = prg a /\ stash b = stash a /\
  cs b = cs a /\ ts b = ts a /\ its b = its a /\ refs b = refs a.

Lemma regs_same_but_sp : forall a b, regs b = regs a -> same_but_sp a b.
Proof. intros a b H. apply regs_inv in H. unfold same_but_sp. intuition. Qed.

(* ghost counter *)
Definition dv (s : state) : nat := length (leaked s).

(* ---- list facts about [low] ---- *)
Lemma low_app_exact : forall A (xs l : list A), low (length l) (xs ++ l) = l.
Proof.
  intros. unfold low. rewrite app_length.
  replace (length xs + length l - length l)%nat with (length xs) by lia.
  rewrite skipn_app, skipn_all, Nat.sub_diag. reflexivity.
Qed.

Lemma firstn_app_exact : forall A (xs l : list A), firstn (length (xs ++ l) - length l) (xs ++ l) = xs.
Proof.
  intros. rewrite app_length.
  replace (length xs + length l - length l)%nat with (length xs) by lia.
  rewrite firstn_app, firstn_all, Nat.sub_diag. simpl. apply app_nil_r.
Qed.

Lemma nth_error_bottom : forall (xs : list ctx) (c : ctx) (l : list ctx),
  nth_error ((xs ++ [c]) ++ l) (length ((xs ++ [c]) ++ l) - length l - 1) = Some c.
Proof.
  intros. rewrite !app_length. simpl.
  replace (length xs + 1 + length l - length l - 1)%nat with (length xs) by lia.
  rewrite <- app_assoc. rewrite nth_error_app2 by lia. rewrite Nat.sub_diag. reflexivity.
Qed.

(* ---- "s extends s0": what a computation started at s0 may have piled on top of s0's stacks ---- *)
Record extends (s0 s : state) (xs : list ctx) (ys : list irec) (k : nat) : Prop := {
  ext_cs : cs s = xs ++ cs s0;
  ext_its : its s = ys ++ its s0;
  ext_refs : refs s = (k + refs s0)%nat }.

(* the lowest piled context saved s0's frame registers (or nothing was piled and they are unchanged) *)
Definition bottom_regs (xs : list ctx) (s : state) : bool * Z * Z :=
  match xs with
  | [] => (prg s, sb s, args s)
  | _ => (c_prg (last xs halt_ctx), c_sb (last xs halt_ctx), c_args (last xs halt_ctx))
  end.
Definition bottom_ok (s0 : state) (xs : list ctx) (s : state) : Prop :=
  bottom_regs xs s = (prg s0, sb s0, args s0).

Definition Ext0 (s0 s : state) : Prop := exists xs ys k, extends s0 s xs ys k.
Definition Ext (s0 s : state) : Prop := exists xs ys k, extends s0 s xs ys k /\ bottom_ok s0 xs s.

Lemma Ext_Ext0 : forall a b, Ext a b -> Ext0 a b.
Proof. intros a b (xs & ys & k & H & _). exists xs, ys, k. auto. Qed.

Lemma Ext0_trans : forall a b c, Ext0 a b -> Ext0 b c -> Ext0 a c.
Proof.
  intros a b c (xs & ys & k & [A1 A2 A3]) (xs' & ys' & k' & [B1 B2 B3]).
  exists (xs' ++ xs), (ys' ++ ys), (k' + k)%nat. constructor.
  - rewrite B1, A1. apply app_assoc.
  - rewrite B2, A2. apply app_assoc.
  - lia.
Qed.

Lemma last_app_ne : forall (xs' xs : list ctx) d, xs <> [] -> last (xs' ++ xs) d = last xs d.
Proof.
  induction xs' as [|x xs' IH]; intros; simpl; auto.
  rewrite IH by auto. destruct (xs' ++ xs) eqn:E; auto.
  apply app_eq_nil in E. destruct E. contradiction.
Qed.

Lemma Ext_trans : forall a b c, Ext a b -> Ext b c -> Ext a c.
Proof.
  intros a b c (xs & ys & k & [A1 A2 A3] & Ab) (xs' & ys' & k' & [B1 B2 B3] & Bb).
  exists (xs' ++ xs), (ys' ++ ys), (k' + k)%nat. split.
  - constructor.
    + rewrite B1, A1. apply app_assoc.
    + rewrite B2, A2. apply app_assoc.
    + lia.
  - unfold bottom_ok, bottom_regs in *.
    destruct xs as [|x xr].
    + rewrite app_nil_r. destruct xs' as [|x' xr']; congruence.
    + assert (Hne : x :: xr <> []) by discriminate.
      destruct (xs' ++ x :: xr) eqn:E.
      { apply app_eq_nil in E. destruct E. discriminate. }
      rewrite <- E. rewrite last_app_ne by auto. exact Ab.
Qed.

Lemma Ext_same : forall a b, cs b = cs a -> its b = its a -> refs b = refs a ->
  prg b = prg a -> sb b = sb a -> args b = args a -> Ext a b.
Proof.
  intros. exists [], [], 0%nat. split. constructor; simpl; auto.
  unfold bottom_ok, bottom_regs. congruence.
Qed.

Lemma Ext_refl : forall a, Ext a a.
Proof. intros. apply Ext_same; auto. Qed.

(* changing the base to a state with the same registers *)
Lemma Ext_base : forall a a' b, cs a' = cs a -> its a' = its a -> refs a' = refs a ->
  prg a' = prg a -> sb a' = sb a -> args a' = args a -> Ext a b -> Ext a' b.
Proof.
  intros a a' b H1 H2 H3 H4 H5 H6 (xs & ys & k & [A1 A2 A3] & Ab).
  exists xs, ys, k. split. constructor; congruence. unfold bottom_ok in *. congruence.
Qed.
Lemma Ext0_base : forall a a' b, cs a' = cs a -> its a' = its a -> refs a' = refs a -> Ext0 a b -> Ext0 a' b.
Proof.
  intros a a' b H1 H2 H3 (xs & ys & k & [A1 A2 A3]). exists xs, ys, k. constructor; congruence.
Qed.

(* ---- the register restore of handleThrow at a frame whose snapshot was taken at s0 ---- *)
Definition snap_of (tf : tframe) (s0 : state) : Prop :=
  t_csl tf = length (cs s0) /\ t_iter tf = length (its s0) /\ t_ref tf = refs s0 /\
  t_sp tf = sp s0 /\ t_stash tf = stash s0.

Lemma snap_new_frame : forall m c f s0, snap_of (new_frame m c f s0) s0.
Proof. intros. unfold snap_of, new_frame. simpl. auto. Qed.

Lemma restore_regs_frame : forall tf s0 s xs ys k,
  snap_of tf s0 -> extends s0 s xs ys k ->
  let s' := restore_regs tf s in
  cs s' = cs s0 /\ stash s' = stash s0 /\ sp s' = sp s0 /\
  (prg s', sb s', args s') = bottom_regs xs s /\
  its s' = its s /\ refs s' = refs s /\ ts s' = ts s /\ log s' = log s /\
  jq s' = jq s /\ intr s' = intr s /\ pcount s' = pcount s /\ trace s' = trace s /\ leaked s' = leaked s.
Proof.
  intros tf s0 s xs ys k (S1 & S2 & S3 & S4 & S5) [Hcs Hits Hrefs]. unfold restore_regs. rewrite S1, S4, S5.
  destruct xs as [|x xs'].
  - simpl in Hcs. rewrite Hcs, Nat.ltb_irrefl. cbn. repeat split; auto.
  - destruct (@exists_last _ (x :: xs') ltac:(discriminate)) as (xs'' & c0 & Hx).
    unfold bottom_regs. rewrite Hx in Hcs |- *. rewrite last_last.
    assert (Hlt : Nat.ltb (length (cs s0)) (length (cs s)) = true).
    { apply Nat.ltb_lt. rewrite Hcs, !app_length. simpl. lia. }
    rewrite Hlt.
    assert (Hn : nth_error (cs s) (length (cs s) - length (cs s0) - 1) = Some c0).
    { rewrite Hcs. apply nth_error_bottom. }
    rewrite Hn. cbn -[low].
    assert (Hlow_cs : low (length (cs s0)) (cs s) = cs s0) by (rewrite Hcs; apply low_app_exact).
    rewrite Hlow_cs. destruct (xs'' ++ [c0]) eqn:E. { apply app_eq_nil in E. destruct E. discriminate. }
    repeat split; auto.
Qed.

Lemma restore_at_frame : forall tf s0 s xs ys k,
  snap_of tf s0 -> extends s0 s xs ys k ->
  let s' := restore_at tf s in
  cs s' = cs s0 /\ its s' = its s0 /\ refs s' = refs s0 /\ stash s' = stash s0 /\ sp s' = sp s0 /\
  (prg s', sb s', args s') = bottom_regs xs s /\
  ts s' = ts s /\ log s' = log s /\
  jq s' = jq s /\ intr s' = intr s /\ pcount s' = pcount s /\ trace s' = trace s /\ leaked s' = leaked s.
Proof.
  intros tf s0 s xs ys k Sn Hx.
  pose proof (restore_regs_frame tf s0 s xs ys k Sn Hx) as R. cbv zeta in R.
  destruct R as (r1 & r2 & r3 & r4 & r5 & r6 & r7 & r8 & r9 & r10 & r11 & r12 & r13).
  destruct Sn as (S1 & S2 & S3 & S4 & S5). destruct Hx as [Hcs Hits Hrefs].
  unfold restore_at, restore_stacks. rewrite S2, S3.
  remember (restore_regs tf s) as r eqn:Hr. clear Hr.
  cbn -[low Nat.min]. rewrite r5, r6.
  assert (Hlow_its : low (length (its s0)) (its s) = its s0) by (rewrite Hits; apply low_app_exact).
  assert (Hmin : Nat.min (refs s0) (refs s) = refs s0) by lia.
  rewrite Hlow_its, Hmin. repeat split; auto.
Qed.

(* handle_loop skips skippable frames *)
Lemma handle_loop_skip : forall p above rest s,
  forallb (skippable p) above = true -> handle_loop p (above ++ rest) s = handle_loop p rest s.
Proof.
  induction above as [|a ab IH]; intros; simpl in *; auto.
  apply andb_prop in H. destruct H as [Ha Hab]. rewrite Ha. auto.
Qed.

Definition flagged (tf : tframe) : tframe :=
  if t_marker tf then tf
  else mkTf (t_csl tf) (t_iter tf) (t_ref tf) (t_sp tf) (t_stash tf) false false (t_catch tf && t_fin tf).

(* THE SNAPSHOT/RESTORE LEMMA (general form): unwinding to a frame whose snapshot was taken at s0, from any
   state s that extends s0, whatever the try stack above it (skipped frames) *)
Lemma handle_loop_restores : forall p tf s0 above below s xs ys k,
  snap_of tf s0 ->
  skippable p tf = false ->
  forallb (skippable p) above = true ->
  extends s0 s xs ys k ->
  let r := handle_loop p (above ++ tf :: below) s in
  let s' := fst r in
  cs s' = cs s0 /\ its s' = its s0 /\ refs s' = refs s0 /\ stash s' = stash s0 /\
  sp s' = (if negb (t_marker tf) && t_catch tf then sp s0 + 1 else sp s0) /\
  (prg s', sb s', args s') = bottom_regs xs s /\
  ts s' = flagged tf :: below /\
  log s' = log s /\
  leaked s' = leaked s /\ jq s' = jq s /\ intr s' = intr s /\ pcount s' = pcount s /\ trace s' = trace s /\
  snd r = (if t_marker tf then OUnwound p
           else if t_catch tf then OCaught (length below) HCatch p else OCaught (length below) HFin p).
Proof.
  intros p tf s0 above below s xs ys k Hsn Hns Hab Hext.
  rewrite (handle_loop_skip p above _ s Hab). cbn [handle_loop]. rewrite Hns.
  pose proof (restore_at_frame tf s0 s xs ys k Hsn Hext) as R. cbv zeta in R.
  destruct R as (R1 & R2 & R3 & R4 & R5 & R6 & R7 & R8 & R9 & R10 & R11 & R12 & R13).
  generalize dependent (restore_at tf s). intros r R1 R2 R3 R4 R5 R6 R7 R8 R9 R10 R11 R12 R13.
  unfold flagged.
  destruct (t_marker tf); [|destruct (t_catch tf)]; cbn; rewrite ?R5; repeat split; auto.
Qed.

Lemma handle_loop_leaked : forall p fr s, leaked (fst (handle_loop p fr s)) = leaked s.
Proof.
  induction fr as [|tf rest IH]; intros s; simpl; auto.
  destruct (skippable p tf); auto.
  assert (L : leaked (restore_at tf s) = leaked s).
  { unfold restore_at, restore_stacks, restore_regs.
    destruct (Nat.ltb (t_csl tf) (length (cs s))); [destruct (nth_error (cs s) _)|]; reflexivity. }
  destruct (t_marker tf); [|destruct (t_catch tf)]; cbn; auto.
Qed.

Lemma handle_loop_outcome : forall p fr s,
  match snd (handle_loop p fr s) with OCaught _ _ _ | OUnwound _ => True | _ => False end.
Proof.
  induction fr as [|tf rest IH]; intros s; simpl; auto.
  destruct (skippable p tf). { apply IH. }
  destruct (t_marker tf); [|destruct (t_catch tf)]; cbn; exact I.
Qed.

(* an uncatchable payload is never delivered to a JS handler, whatever the try stack looks like *)
Lemma uncatchable_loop : forall p fr s, catchable p = false -> snd (handle_loop p fr s) = OUnwound p.
Proof.
  induction fr as [|tf rest IH]; intros s Hp; simpl; auto.
  destruct (skippable p tf) eqn:Hs; auto.
  destruct (t_marker tf) eqn:Hm; auto.
  unfold skippable in Hs. rewrite Hp, Hm in Hs. simpl in Hs. rewrite orb_true_r in Hs. discriminate.
Qed.

Lemma handle_loop_shrinks : forall p fr s, (length (ts (fst (handle_loop p fr s))) <= length fr)%nat.
Proof.
  induction fr as [|tf rest IH]; intros s; simpl; auto.
  destruct (skippable p tf). { specialize (IH s). lia. }
  destruct (t_marker tf); [|destruct (t_catch tf)]; cbn; lia.
Qed.

Lemma marker_not_skippable : forall p s, skippable p (new_frame true false false s) = false.
Proof. intros. unfold skippable, new_frame. cbn. destruct (catchable p); reflexivity. Qed.

(* ---- the target frame, and handleThrow after the registers have already been restored at it ---- *)
Lemma target_spec : forall p fr tf rest, target p fr = Some (tf, rest) ->
  exists above, fr = above ++ tf :: rest /\ forallb (skippable p) above = true /\ skippable p tf = false.
Proof.
  induction fr as [|a fr IH]; intros tf rest H; simpl in H. { discriminate. }
  destruct (skippable p a) eqn:Sk.
  - destruct (IH tf rest H) as (ab & E & F & N). exists (a :: ab). simpl. rewrite Sk, E. auto.
  - inversion H; subst. exists []. auto.
Qed.

Lemma target_none : forall p fr s, target p fr = None -> handle_loop p fr s = (set_ts [] s, OUnwound p).
Proof.
  induction fr as [|a fr IH]; intros s H; simpl in *; auto.
  destruct (skippable p a); [auto|discriminate].
Qed.

Lemma length_low : forall A n (l : list A), (n <= length l)%nat -> length (low n l) = n.
Proof. intros. unfold low. rewrite skipn_length. lia. Qed.

Lemma restore_regs_fields : forall tf s,
  its (restore_regs tf s) = its s /\ refs (restore_regs tf s) = refs s /\ ts (restore_regs tf s) = ts s /\
  sp (restore_regs tf s) = t_sp tf /\ stash (restore_regs tf s) = t_stash tf /\
  log (restore_regs tf s) = log s /\ leaked (restore_regs tf s) = leaked s /\ jq (restore_regs tf s) = jq s /\
  intr (restore_regs tf s) = intr s /\ pcount (restore_regs tf s) = pcount s /\ trace (restore_regs tf s) = trace s.
Proof.
  intros. unfold restore_regs.
  destruct (Nat.ltb (t_csl tf) (length (cs s))); [destruct (nth_error (cs s) _)|]; cbn; auto 20.
Qed.

Lemma restore_regs_idem : forall tf s sm,
  cs sm = cs (restore_regs tf s) -> prg sm = prg (restore_regs tf s) ->
  sb sm = sb (restore_regs tf s) -> args sm = args (restore_regs tf s) ->
  cs (restore_regs tf sm) = cs sm /\ prg (restore_regs tf sm) = prg sm /\
  sb (restore_regs tf sm) = sb sm /\ args (restore_regs tf sm) = args sm.
Proof.
  intros tf s sm Hc Hp Hs Ha. unfold restore_regs in *.
  destruct (Nat.ltb (t_csl tf) (length (cs s))) eqn:L.
  - destruct (nth_error (cs s) (length (cs s) - t_csl tf - 1)) eqn:N.
    + cbn -[low] in Hc. apply Nat.ltb_lt in L.
      assert (Hl : length (cs sm) = t_csl tf) by (rewrite Hc; apply length_low; lia).
      rewrite Hl, Nat.ltb_irrefl. cbn. auto.
    + cbn in Hc. rewrite Hc, L, N. cbn. auto.
  - cbn in Hc. rewrite Hc, L. cbn. auto.
Qed.

Lemma handle_after_regs : forall p tf rest s sm,
  skippable p tf = false ->
  regs sm = regs (set_ts (tf :: rest) (restore_regs tf s)) ->
  regs (fst (handle_loop p (tf :: rest) sm)) = regs (fst (handle_loop p (tf :: rest) s)) /\
  snd (handle_loop p (tf :: rest) sm) = snd (handle_loop p (tf :: rest) s).
Proof.
  intros p tf rest s sm Ns R. cbn [handle_loop]. rewrite Ns.
  apply regs_inv in R. cbn -[restore_regs] in R. destruct R as (c1 & c2 & c3 & c4 & c5 & c6 & c7 & c8 & c9).
  destruct (restore_regs_idem tf s sm c6 c4 c2 c3) as (i1 & i2 & i3 & i4).
  destruct (restore_regs_fields tf s) as (f1 & f2 & _ & f4 & f5 & _).
  destruct (restore_regs_fields tf sm) as (g1 & g2 & _ & g4 & g5 & _).
  assert (E : sp (restore_at tf sm) = sp (restore_at tf s) /\ sb (restore_at tf sm) = sb (restore_at tf s) /\
              args (restore_at tf sm) = args (restore_at tf s) /\ prg (restore_at tf sm) = prg (restore_at tf s) /\
              stash (restore_at tf sm) = stash (restore_at tf s) /\ cs (restore_at tf sm) = cs (restore_at tf s) /\
              its (restore_at tf sm) = its (restore_at tf s) /\ refs (restore_at tf sm) = refs (restore_at tf s)).
  { unfold restore_at, restore_stacks. cbn -[low Nat.min restore_regs]. rewrite g1, g2, c8, c9, f1, f2. repeat split; congruence. }
  destruct E as (e1 & e2 & e3 & e4 & e5 & e6 & e7 & e8).
  destruct (t_marker tf); [|destruct (t_catch tf)]; cbn -[restore_at]; (split; [|reflexivity]); unfold regs; cbn -[restore_at]; congruence.
Qed.
