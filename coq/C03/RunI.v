(* C03 — I = S (every finding of this property is repaired in /repo): the same check as Run.v, kept so that the
   run-module list stays stable. *)
From Coq Require Import List ZArith NArith Bool.
Import ListNotations.
From Verif.C03 Require Export Run.
Definition mismatch_ids := Run.mismatch_ids.
