(* C03 — the same correspondence against I (goja's current algorithm, [fixed = false]). *)
From Coq Require Import List ZArith NArith Bool.
Import ListNotations.
From Verif.C03 Require Export Model.
From Verif.C03 Require Export Run.
Definition mismatch_ids := mismatch_from (check_with false) 0%N.
