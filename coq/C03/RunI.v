(* C03 — I = S since the fixes of F16/F17/F21/F22: the same check (kept so that the run-module list is stable). *)
From Coq Require Import List ZArith NArith Bool.
Import ListNotations.
From Verif.C03 Require Export Model.
From Verif.C03 Require Export Run.
Definition mismatch_ids := mismatch_from (check_with false) 0%N.
