(* C09 — proofs about the generator object (Model.v part 1): goja's generatorObject refines the spec machine. *)
From Coq Require Import List ZArith Bool Lia.
Import ListNotations.
From Verif.C09 Require Import Model.

Section GenProofs.
Context {V B It Ev : Type}.
Variable tyerr undef : V.
Variable bstep : B -> binput V -> btree V B It Ev.
Variable istep : It -> imeth -> V -> icall V It Ev.
Variable has_meth : It -> imeth -> bool.

Notation gobj := (gobj B It).
Notation sobj := (sobj B It).
Notation res3 := (@res3 V B It Ev).
Notation sres3 := (@sres3 V B It Ev).
Notation g_call := (@g_call V B It Ev tyerr undef bstep istep has_meth).
Notation s_call := (@s_call V B It Ev tyerr undef bstep istep has_meth).
Notation g_resume := (@g_resume V B It Ev tyerr undef bstep istep).
Notation s_body := (@s_body V B It Ev tyerr undef bstep istep has_meth).
Notation g_reenter := (@g_reenter V B It tyerr undef).
Notation s_reenter := (@s_reenter V tyerr).
Notation run_icall := (@run_icall V It Ev tyerr).

(* a body state that does not look at the value it is resumed with *)
Definition ignores (b : B) : Prop := forall x y, bstep b (BNext x) = bstep b (BNext y).

(* H1: the compiler marks a yield / yield* as "value unused" (resultYield / resultYieldDelegate rather than the
   ...Res variants) only where the body indeed ignores the value sent by next() *)
Definition unused_is_ignored : Prop :=
  forall b i lf, leaf_of (bstep b i) lf ->
    match lf with
    | LYield _ false b' => ignores b'
    | LYieldStar _ false b' => ignores b'
    | _ => True
    end.
Hypothesis Hunused : unused_is_ignored.

(* ---------- the simulation relation ---------- *)
Definition R (g : gobj) (s : sobj) : Prop :=
  gbody g = sbody s /\
  match gstate g, sstate s with
  | GSuspendedStart, SSuspendedStart => gdeleg g = None /\ sdeleg s = None
  | GSuspendedYield, SSuspendedYield => gdeleg g = sdeleg s /\ ignores (gbody g)
  | GSuspendedYieldRes, SSuspendedYield => gdeleg g = sdeleg s
  | GExecuting, SExecuting => True
  | GCompleted, SCompleted => True
  | _, _ => False
  end.

Definition sim3 (a : res3) (b : sres3) : Prop :=
  let '(l, g, o) := a in let '(l', s, o') := b in l = l' /\ o = o' /\ (o <> ODiverge -> R g s).

Lemma pre_sim l a b : sim3 a b -> sim3 (pre l a) (spre l b).
Proof.
  destruct a as [[la g] o], b as [[lb s] o']. simpl. intros (-> & -> & H). auto.
Qed.

Lemma run_tree_ext (a1 a2 : cmd V -> callres V) (t : btree V B It Ev) :
  (forall c, a1 c = a2 c) -> run_tree a1 t = run_tree a2 t.
Proof.
  intros E. induction t; simpl; auto.
  - rewrite IHt. reflexivity.
  - rewrite E. apply H.
Qed.
Lemma run_tree_reent_free (a1 a2 : cmd V -> callres V) (t : btree V B It Ev) :
  reent_free t -> run_tree a1 t = run_tree a2 t.
Proof.
  induction t; simpl; auto.
  - intros F. rewrite (IHt F). reflexivity.
  - intros [].
Qed.
Lemma run_tree_leaf_of (a : cmd V -> callres V) (t : btree V B It Ev) l lf : run_tree a t = (l, lf) -> leaf_of t lf.
Proof.
  revert l lf. induction t; simpl; intros l lf E.
  - inversion E; subst; constructor.
  - inversion E; subst; constructor.
  - inversion E; subst; constructor.
  - inversion E; subst; constructor.
  - destruct (run_tree a t) as [l0 r0] eqn:E0. inversion E; subst. apply lo_emit. eapply IHt; eauto.
  - eapply lo_reent. eapply H; eauto.
Qed.

(* what the recursive knot must provide *)
Definition RB (resume : gobj -> binput V -> res3) (body : sobj -> binput V -> sres3) : Prop :=
  (forall g s i,
      gstate g = GExecuting ->
      gdeleg g = None -> gbody g = sbody s -> sstate s = SExecuting -> sdeleg s = None ->
      sim3 (resume g i) (body s i)) /\
  (forall g i i', bstep (gbody g) i = bstep (gbody g) i' -> resume g i = resume g i').

Section Knot.
Variable resume : gobj -> binput V -> res3.
Variable body : sobj -> binput V -> sres3.
Hypothesis HRB : RB resume body.

Notation g_next := (@g_next V B It Ev tyerr undef istep resume).
Notation g_throw := (@g_throw V B It Ev tyerr undef istep has_meth resume).
Notation g_return := (@g_return V B It Ev tyerr istep has_meth resume).
Notation g_step := (@g_step V B It Ev tyerr undef istep resume).
Notation s_yieldstar := (@s_yieldstar V B It Ev tyerr undef istep has_meth body).
Notation s_call_with := (@s_call_with V B It Ev tyerr undef istep has_meth body).
Notation s_leaf := (@s_leaf V B It Ev tyerr undef istep has_meth body).

Definition susp (w : bool) : gst := if w then GSuspendedYieldRes else GSuspendedYield.

Lemma resume_exec g s i :
  gstate g = GExecuting -> gdeleg g = None -> gbody g = sbody s -> sstate s = SExecuting -> sdeleg s = None ->
  sim3 (resume g i) (body s i).
Proof. intros. apply (proj1 HRB); auto. Qed.

(* resuming the body with a value it may not look at *)
Lemma resume_next_w (w : bool) g s v :
  gstate g = GExecuting -> gdeleg g = None -> gbody g = sbody s -> sstate s = SExecuting -> sdeleg s = None ->
  (w = false -> ignores (gbody g)) ->
  sim3 (resume g (if w then BNext v else BNext undef)) (body s (BNext v)).
Proof.
  intros. destruct w.
  - apply resume_exec; auto.
  - rewrite (proj2 HRB g (BNext undef) (BNext v)) by (apply H4; reflexivity). apply resume_exec; auto.
Qed.

Ltac simp_g := cbn [gstate gdeleg gbody g_set_state g_set_deleg g_set_body sstate sdeleg sbody] in *.
Ltac sim_done := split; [reflexivity | split; [reflexivity | intros _; unfold R; simp_g]].

(* the generator is suspended inside a yield* whose iterator is d; I: the state is SuspendedYield(Res) with
   delegated = d, S: the generator is executing the loop of 14.4.14 *)
Lemma next_deleg_sim w g s d v :
  gstate g = susp w -> gdeleg g = Some d -> gbody g = sbody s -> (w = false -> ignores (gbody g)) ->
  sim3 (g_next g v) (s_yieldstar s d (KNormal v)).
Proof.
  intros Hs Hd Hb Hig. unfold Model.g_next, Model.g_next_with, Model.s_yieldstar.
  rewrite Hs, Hd. replace (gst_eqb (susp w) GExecuting) with false by (destruct w; reflexivity).
  replace (gst_eqb (susp w) GCompleted) with false by (destruct w; reflexivity).
  destruct (run_icall (istep d INext v)) as [l r]. destruct r as [[|] v' d'|e].
  - (* done *) apply pre_sim. unfold Model.g_next_tail. simp_g. rewrite Hs.
    replace (match susp w with GSuspendedStart => BStart | GSuspendedYieldRes => BNext v' | _ => BNext undef end)
      with (if w then BNext v' else @BNext V undef) by (destruct w; reflexivity).
    apply resume_next_w; simp_g; auto.
  - (* yielded on *) simpl. sim_done. split; auto. rewrite Hs.
    destruct w; simpl; auto.
  - (* threw *) apply pre_sim. apply resume_exec; simp_g; auto.
Qed.

Lemma throw_deleg_sim w g s d v :
  gstate g = susp w -> gdeleg g = Some d -> gbody g = sbody s -> (w = false -> ignores (gbody g)) ->
  sim3 (g_throw g v) (s_yieldstar s d (KThrow v)).
Proof.
  intros Hs Hd Hb Hig. unfold Model.g_throw, Model.s_yieldstar.
  rewrite Hs. replace (gst_eqb (susp w) GExecuting) with false by (destruct w; reflexivity).
  replace (gst_eqb (susp w) GSuspendedStart) with false by (destruct w; reflexivity).
  rewrite Hs. replace (gst_eqb (susp w) GCompleted) with false by (destruct w; reflexivity).
  rewrite Hd. destruct (has_meth d IThrow).
  - destruct (run_icall (istep d IThrow v)) as [l r]. destruct r as [[|] v' d'|e].
    + apply pre_sim. simp_g. rewrite Hs.
      replace (match susp w with GSuspendedYieldRes => BNext v' | _ => BNext undef end)
        with (if w then BNext v' else @BNext V undef) by (destruct w; reflexivity).
      apply resume_next_w; simp_g; auto.
    + simpl. sim_done. split; auto. rewrite Hs. destruct w; simpl; auto.
    + apply pre_sim. apply resume_exec; simp_g; auto.
  - unfold Model.g_return_iter, Model.s_iterator_close. destruct (has_meth d IReturn).
    + destruct (run_icall (istep d IReturn undef)) as [l r]. destruct r as [dn v' d'|e];
        apply pre_sim; apply resume_exec; simp_g; auto.
    + apply pre_sim. apply resume_exec; simp_g; auto.
Qed.

Lemma return_deleg_sim w g s d v :
  gstate g = susp w -> gdeleg g = Some d -> gbody g = sbody s -> (w = false -> ignores (gbody g)) ->
  sim3 (g_return g v) (s_yieldstar s d (KReturn v)).
Proof.
  intros Hs Hd Hb Hig. unfold Model.g_return, Model.s_yieldstar.
  rewrite Hs. replace (gst_eqb (susp w) GExecuting) with false by (destruct w; reflexivity).
  replace (gst_eqb (susp w) GSuspendedStart) with false by (destruct w; reflexivity).
  rewrite Hs. replace (gst_eqb (susp w) GCompleted) with false by (destruct w; reflexivity).
  rewrite Hd. destruct (has_meth d IReturn).
  - destruct (run_icall (istep d IReturn v)) as [l r]. destruct r as [[|] v' d'|e].
    + apply pre_sim. apply resume_exec; simp_g; auto.
    + simpl. sim_done. split; auto. rewrite Hs. destruct w; simpl; auto.
    + apply pre_sim. apply resume_exec; simp_g; auto.
  - apply resume_exec; simp_g; auto.
Qed.

(* every driver call preserves the relation and answers the same *)
Lemma call_sim g s c :
  R g s ->
  sim3 (match c with RNext v => g_next g v | RThrow e => g_throw g e | RReturn v => g_return g v end)
       (s_call_with s c).
Proof.
  intros [Hb Hst]. unfold Model.s_call_with.
  destruct (gstate g) eqn:Eg; destruct (sstate s) eqn:Es; try contradiction.
  - (* suspended start *)
    destruct Hst as [Hd Hd']. destruct c.
    + unfold Model.g_next, Model.g_next_with, Model.s_resume. rewrite Eg, Hd, Hd'. simpl.
      unfold Model.g_next_tail. rewrite Eg. apply resume_exec; simp_g; auto.
    + unfold Model.g_throw. rewrite Eg. simpl. sim_done. auto.
    + unfold Model.g_return. rewrite Eg. simpl. sim_done. auto.
  - (* executing *)
    destruct c; unfold Model.g_next, Model.g_throw, Model.g_return; rewrite Eg; simpl;
      (sim_done; rewrite Eg, Es; auto).
  - (* suspended at a yield whose value is unused *)
    destruct Hst as [Hd Hig]. unfold Model.s_resume. destruct (sdeleg s) as [d|] eqn:Ed.
    + destruct c.
      * apply (next_deleg_sim false g (mkS SExecuting (Some d) (sbody s))); simp_g; auto.
      * apply (throw_deleg_sim false g (mkS SExecuting (Some d) (sbody s))); simp_g; auto.
      * apply (return_deleg_sim false g (mkS SExecuting (Some d) (sbody s))); simp_g; auto.
    + destruct c.
      * unfold Model.g_next, Model.g_next_with, Model.g_next_tail. rewrite Eg, Hd. simpl.
        apply (resume_next_w false); simp_g; auto.
      * unfold Model.g_throw. rewrite Eg. simpl. rewrite Eg. simpl. rewrite Hd. apply resume_exec; simp_g; auto.
      * unfold Model.g_return. rewrite Eg. simpl. rewrite Eg. simpl. rewrite Hd. apply resume_exec; simp_g; auto.
  - (* suspended at a yield whose value is used *)
    unfold Model.s_resume. destruct (sdeleg s) as [d|] eqn:Ed.
    + destruct c.
      * apply (next_deleg_sim true g (mkS SExecuting (Some d) (sbody s))); simp_g; auto; discriminate.
      * apply (throw_deleg_sim true g (mkS SExecuting (Some d) (sbody s))); simp_g; auto; discriminate.
      * apply (return_deleg_sim true g (mkS SExecuting (Some d) (sbody s))); simp_g; auto; discriminate.
    + destruct c.
      * unfold Model.g_next, Model.g_next_with, Model.g_next_tail. rewrite Eg, Hst. simpl.
        apply resume_exec; simp_g; auto.
      * unfold Model.g_throw. rewrite Eg. simpl. rewrite Eg. simpl. rewrite Hst. apply resume_exec; simp_g; auto.
      * unfold Model.g_return. rewrite Eg. simpl. rewrite Eg. simpl. rewrite Hst. apply resume_exec; simp_g; auto.
  - (* completed *)
    destruct c; unfold Model.g_next, Model.g_throw, Model.g_return; rewrite Eg; simpl; try rewrite Eg; simpl;
      (sim_done; try rewrite Eg, Es; simp_g; auto).
Qed.

(* how an activation ends: generatorObject.step + delegate vs the spec *)
Lemma leaf_sim g s lf :
  gdeleg g = None ->
  (match lf with
   | LYield _ false b' => ignores b'
   | LYieldStar _ false b' => ignores b'
   | _ => True
   end) ->
  sim3 (g_step g lf) (s_leaf s lf).
Proof.
  intros Hd Hig. destruct lf as [v w b|src w b|v b|e b].
  - simpl. sim_done. split; auto. rewrite Hd. destruct w; simpl; auto.
  - destruct src as [it|e].
    + change (sim3 (g_next (g_set_deleg (mkG (susp w) (gdeleg g) b) (Some it)) undef)
                   (s_yieldstar (mkS SExecuting (Some it) b) it (KNormal undef))).
      apply (next_deleg_sim w); simp_g; auto. intros ->. exact Hig.
    + change (sim3 (resume (g_set_state (g_set_deleg (mkG (susp w) (gdeleg g) b) None) GExecuting) (BIterFail e))
                   (body (mkS SExecuting None b) (BIterFail e))).
      apply (proj1 HRB); simp_g; auto.
  - simpl. sim_done. auto.
  - simpl. sim_done. auto.
Qed.
End Knot.

Lemma RB_fuel : forall n, RB (g_resume n) (s_body n).
Proof.
  induction n as [|n IH].
  - split.
    + intros g s i Hst Hd Hb Hs Hsd. simpl. split; [reflexivity | split; [reflexivity | intros F; contradiction F; reflexivity]].
    + reflexivity.
  - split.
    + intros g s i Hst Hd Hb Hs Hsd. simpl. rewrite <- Hb.
      assert (Et : run_tree (g_reenter g) (bstep (gbody g) i) = run_tree s_reenter (bstep (gbody g) i)).
      { apply run_tree_ext. intros c. unfold Model.g_reenter. rewrite Hst. reflexivity. }
      rewrite Et. destruct (run_tree s_reenter (bstep (gbody g) i)) as [l lf] eqn:E.
      apply pre_sim. apply leaf_sim; auto.
      apply run_tree_leaf_of in E. specialize (Hunused _ _ _ E).
      destruct lf as [v [|] b|src [|] b|v b|e b]; auto.
    + intros g i i' E. simpl. rewrite E. reflexivity.
Qed.

Theorem genobj_refines_spec : forall n b hist,
  outs (run (g_call n) (@ginit B It b) hist) = outs (run (s_call n) (@sinit B It b) hist).
Proof.
  intros n b hist.
  assert (HR : R (@ginit B It b) (@sinit B It b)) by (unfold R; simpl; auto).
  revert HR. generalize (@ginit B It b) (@sinit B It b). induction hist as [|c h IH]; intros g s HR; simpl; auto.
  assert (Hs : sim3 (g_call n g c) (s_call n s c)).
  { pose proof (call_sim _ _ (RB_fuel n) g s c HR) as Hs. destruct c; exact Hs. }
  destruct (g_call n g c) as [[l g'] o]. destruct (s_call n s c) as [[l' s'] o'].
  destruct Hs as (-> & -> & HR').
  destruct o' as [v d|e|]; simpl; auto.
  - specialize (IH g' s' (HR' ltac:(discriminate))). unfold outs in IH.
    destruct (run (g_call n) g' h) as [os1 f1], (run (s_call n) s' h) as [os2 f2]. simpl in *. subst. reflexivity.
  - specialize (IH g' s' (HR' ltac:(discriminate))). unfold outs in IH.
    destruct (run (g_call n) g' h) as [os1 f1], (run (s_call n) s' h) as [os2 f2]. simpl in *. subst. reflexivity.
Qed.

(* ---------- Completed is absorbing; Executing rejects re-entry; abrupt resumption at start ---------- *)
Definition completed_answer (c : cmd V) : result V :=
  match c with RNext _ => ORes undef true | RThrow e => OThrow e | RReturn v => ORes v true end.

Lemma g_completed_absorbing n (g : gobj) c :
  gstate g = GCompleted -> g_call n g c = ([], g, completed_answer c).
Proof.
  intros E. destruct c; simpl; unfold Model.g_next, Model.g_throw, Model.g_return; rewrite E; simpl;
    try rewrite E; reflexivity.
Qed.
Lemma s_completed_absorbing n (s : sobj) c :
  sstate s = SCompleted -> s_call n s c = ([], s, completed_answer c).
Proof. intros E. unfold Model.s_call, Model.s_call_with. rewrite E. destruct c; reflexivity. Qed.

Lemma g_executing_rejects n (g : gobj) c :
  gstate g = GExecuting -> g_call n g c = ([], g, OThrow tyerr).
Proof.
  intros E. destruct c; simpl; unfold Model.g_next, Model.g_throw, Model.g_return; rewrite E; reflexivity.
Qed.
Lemma s_executing_rejects n (s : sobj) c :
  sstate s = SExecuting -> s_call n s c = ([], s, OThrow tyerr).
Proof. intros E. unfold Model.s_call, Model.s_call_with. rewrite E. reflexivity. Qed.

(* return()/throw() on a generator that has not started complete it WITHOUT running the body *)
Lemma g_start_abrupt n (g : gobj) :
  gstate g = GSuspendedStart ->
  (forall v, g_call n g (RReturn v) = ([], g_set_state g GCompleted, ORes v true)) /\
  (forall e, g_call n g (RThrow e) = ([], g_set_state g GCompleted, OThrow e)).
Proof.
  intros E. split; intros x; simpl; unfold Model.g_throw, Model.g_return; rewrite E; reflexivity.
Qed.

(* once completed, always completed: every later answer is the completed answer *)
Lemma g_completed_forever n (g : gobj) h :
  gstate g = GCompleted ->
  outs (run (g_call n) g h) = map (fun c => ([], completed_answer c)) h.
Proof.
  revert g. induction h as [|c h IH]; intros g E; simpl; auto.
  rewrite g_completed_absorbing by auto.
  specialize (IH g E). unfold outs in IH.
  destruct (completed_answer c) eqn:Ec.
  - destruct (run (g_call n) g h). simpl in *. congruence.
  - destruct (run (g_call n) g h). simpl in *. congruence.
  - destruct c; discriminate.
Qed.

(* ---------- async functions: asyncRunner = the spec generator machine driven by the settlements ---------- *)
Definition star_free : Prop :=
  forall b i lf, leaf_of (bstep b i) lf -> match lf with LYieldStar _ _ _ => False | _ => True end.
Definition no_return (h : list (cmd V)) : Prop := Forall (fun c => match c with RReturn _ => False | _ => True end) h.

Notation ar_run := (@ar_run V B It Ev tyerr bstep).

Lemma run_cons {St} (step : St -> cmd V -> list Ev * St * result V) st c h :
  run step st (c :: h) =
  let '(l, st', o) := step st c in
  match o with
  | ODiverge => ([(l, o)], st')
  | _ => let (os, stf) := run step st' h in ((l, o) :: os, stf)
  end.
Proof. reflexivity. Qed.

Lemma ar_sim (Hsf : star_free) n : forall h (s : sobj) c,
  no_return (c :: h) -> sdeleg s = None ->
  (sstate s = SSuspendedYield \/ (sstate s = SSuspendedStart /\ exists v, c = RNext v)) ->
  ar_run (sbody s)
         (match sstate s, c with
          | SSuspendedStart, _ => BStart
          | _, RNext x => BNext x
          | _, RThrow e => BThrow e
          | _, RReturn x => BReturn x
          end) h
  = until_done (outs (run (s_call (S n)) s (c :: h))).
Proof.
  induction h as [|c' h IH]; intros s c Hnr Hd Hst.
  - (* last call *)
    assert (E : exists i, s_call (S n) s c = s_body (S n) (mkS SExecuting None (sbody s)) i /\
                i = match sstate s, c with
                    | SSuspendedStart, _ => BStart | _, RNext x => BNext x | _, RThrow e => BThrow e | _, RReturn x => BReturn x end).
    { unfold Model.s_call, Model.s_call_with, Model.s_resume. rewrite Hd.
      destruct Hst as [Hy|[Hs [v ->]]]; [rewrite Hy | rewrite Hs].
      - destruct c; eexists; split; reflexivity.
      - eexists; split; reflexivity. }
    destruct E as (i & E & Ei). rewrite <- Ei. simpl. rewrite E. simpl.
    destruct (run_tree s_reenter (bstep (sbody s) i)) as [l lf] eqn:Et.
    change (run_tree (fun _ : cmd V => CErr tyerr) (bstep (sbody s) i)) with (run_tree s_reenter (bstep (sbody s) i)).
    rewrite Et. pose proof (Hsf _ _ _ (run_tree_leaf_of _ _ _ _ Et)) as Hl.
    destruct lf as [v w b'|src w b'|v b'|e b']; simpl; try contradiction; rewrite ?app_nil_r; reflexivity.
  - assert (E : exists i, s_call (S n) s c = s_body (S n) (mkS SExecuting None (sbody s)) i /\
                i = match sstate s, c with
                    | SSuspendedStart, _ => BStart | _, RNext x => BNext x | _, RThrow e => BThrow e | _, RReturn x => BReturn x end).
    { unfold Model.s_call, Model.s_call_with, Model.s_resume. rewrite Hd.
      destruct Hst as [Hy|[Hs [v ->]]]; [rewrite Hy | rewrite Hs].
      - destruct c; eexists; split; reflexivity.
      - eexists; split; reflexivity. }
    destruct E as (i & E & Ei). rewrite <- Ei.
    assert (Hnr' : no_return (c' :: h)) by (inversion Hnr; auto).
    rewrite run_cons. rewrite E. cbn [Model.s_body sbody]. cbn [Model.ar_run].
    change (run_tree (fun _ : cmd V => CErr tyerr) (bstep (sbody s) i)) with (run_tree s_reenter (bstep (sbody s) i)).
    destruct (run_tree s_reenter (bstep (sbody s) i)) as [l lf] eqn:Et.
    pose proof (Hsf _ _ _ (run_tree_leaf_of _ _ _ _ Et)) as Hl.
    destruct lf as [v w b'|src w b'|v b'|e b']; try contradiction.
    + (* await: the next settlement resumes the body *)
      cbn [Model.s_leaf Model.spre]. rewrite app_nil_r.
      specialize (IH (mkS SSuspendedYield None b') c' Hnr' eq_refl (or_introl eq_refl)).
      cbn [sstate sbody] in IH.
      destruct (run (s_call (S n)) (mkS SSuspendedYield None b') (c' :: h)) as [os stf] eqn:Er.
      cbn [outs fst until_done]. f_equal.
      unfold outs in IH. cbn [fst] in IH. rewrite <- IH.
      destruct c'; try reflexivity. inversion Hnr'; subst. contradiction.
    + (* completed: the runner resolves; later settlements are never looked at *)
      cbn [Model.s_leaf Model.spre]. rewrite app_nil_r.
      destruct (run (s_call (S n)) (mkS SCompleted None b') (c' :: h)) as [os stf]. reflexivity.
    + cbn [Model.s_leaf Model.spre]. rewrite app_nil_r.
      destruct (run (s_call (S n)) (mkS SCompleted None b') (c' :: h)) as [os stf]. reflexivity.
Qed.

Theorem async_is_generator_plus_promises : star_free -> forall n b h,
  no_return h ->
  ar_run b BStart h = until_done (outs (run (s_call (S n)) (@sinit B It b) (RNext undef :: h))).
Proof.
  intros Hsf n b h Hnr.
  apply (ar_sim Hsf n h (@sinit B It b) (RNext undef)).
  - constructor; auto.
  - reflexivity.
  - right. split; [reflexivity | eauto].
Qed.

End GenProofs.

(* non-vacuity of genobj_refines_spec: a body that yields, delegates to an iterator without throw, and is driven
   by next / throw / return: both sides give the same non-trivial answers *)
Definition ex_bstep (b : nat) (i : binput nat) : btree nat nat nat nat :=
  match b, i with
  | 0, BStart => BEmit 1 (BYield 10 true 1)
  | 1, BNext v => BEmit v (BYieldStar (inl 0) true 2)
  | 2, BThrow e => BReent (RNext 5) (fun r => match r with CErr t => BYield (e + t) false 3 | _ => BDone 0 9 end)
  | 3, BReturn v => BEmit 77 (BDone (v + 1) 9)
  | _, _ => BDone 0 9
  end.
Definition ex_istep (it : nat) (m : imeth) (v : nat) : icall nat nat nat :=
  match m with
  | INext => IEmit (100 + it) (IRes false (20 + it) (S it))
  | IReturn => IEmit 300 (IRes true v it)
  | IThrow => INonObj
  end.
Definition ex_has (_ : nat) (m : imeth) : bool := match m with IThrow => false | _ => true end.

Example genobj_example :
  outs (run (g_call 999 0 ex_bstep ex_istep ex_has 9) (ginit 0) [RNext 1; RNext 2; RNext 3; RThrow 4; RReturn 6; RNext 7])
  = [([1], ORes 10 false); ([2; 100], ORes 20 false); ([101], ORes 21 false);
     ([300], ORes 1998 false); ([77], ORes 7 true); ([], ORes 0 true)]
  /\ outs (run (s_call 999 0 ex_bstep ex_istep ex_has 9) (sinit 0) [RNext 1; RNext 2; RNext 3; RThrow 4; RReturn 6; RNext 7])
  = [([1], ORes 10 false); ([2; 100], ORes 20 false); ([101], ORes 21 false);
     ([300], ORes 1998 false); ([77], ORes 7 true); ([], ORes 0 true)].
Proof. split; vm_compute; reflexivity. Qed.
