(* C09 — Generators resume faithfully under any driver call sequence.
   Executable definitions only.

   Part 1  generator OBJECT state machine over an abstract body and abstract inner iterators:
           I = goja's generatorObject (func.go), S = ECMA-262 27.5.3 + 14.4.14.
   Part 2  stack-segment suspend/resume with offset rebasing (vm.go suspend/resume, func.go generator methods).
   Part 3  a generator-body language: direct (denotational, continuation-passing) semantics into finite
           interaction trees — the oracle of the correspondence check — and a resumable small-step machine
           with an explicit continuation stack. *)
From Coq Require Import List ZArith Bool Lia.
Import ListNotations.

(* ================================================================================================ *)
(* Part 1.  Generator object                                                                         *)
(* ================================================================================================ *)

Section GenObj.
Context {V B It Ev : Type}.
Variable tyerr : V.      (* a TypeError instance *)
Variable undef : V.

(* what a driver (or the body itself) calls on the generator object *)
Inductive cmd := RNext (v : V) | RThrow (e : V) | RReturn (v : V).

(* how a suspended body is resumed *)
Inductive binput :=
| BStart                 (* first resumption: the value passed to next() is discarded *)
| BNext (v : V)          (* normal completion v as the value of the yield / yield* expression *)
| BThrow (e : V)         (* throw completion at the suspension point *)
| BReturn (v : V)        (* return completion at the suspension point: runs pending finally blocks *)
| BIterFail (e : V).     (* GetIterator of a yield* operand threw e (a throw at the yield* point) *)

(* what a call on the generator object answers *)
Inductive callres := CRes (v : V) (done : bool) | CErr (e : V).

(* One activation of the body: a finite tree.  Inner nodes: emitted side effects, and calls the running body
   makes on ITS OWN generator object (the answer is fed back).  Leaves: how the activation ends, with the
   body state to resume from. *)
Inductive btree :=
| BYield (v : V) (wants : bool) (b : B)          (* yield v; wants = the value of the yield expression is used *)
| BYieldStar (src : It + V) (wants : bool) (b : B) (* yield* operand: an acquired iterator, or GetIterator threw *)
| BDone (v : V) (b : B)
| BThrew (e : V) (b : B)
| BEmit (ev : Ev) (t : btree)
| BReent (c : cmd) (k : callres -> btree).

Variable bstep : B -> binput -> btree.

(* inner iterators (operands of yield* ): abstract objects with a next method and optional throw/return *)
Inductive imeth := INext | IThrow | IReturn.
Inductive icall :=
| IRes (done : bool) (v : V) (it : It)      (* returned an object {done, value}; it = iterator state afterwards *)
| IErr (e : V)                              (* the method threw e *)
| INonObj                                   (* returned a non-object *)
| IEmit (ev : Ev) (t : icall).
Variable istep : It -> imeth -> V -> icall.
Variable has_meth : It -> imeth -> bool.     (* GetMethod(iterator, "throw"/"return") is not undefined *)

Inductive result := ORes (v : V) (done : bool) | OThrow (e : V) | ODiverge.

Inductive leaf :=
| LYield (v : V) (wants : bool) (b : B) | LYieldStar (src : It + V) (wants : bool) (b : B)
| LDone (v : V) (b : B) | LThrew (e : V) (b : B).

(* run one activation; [answer] is what a re-entrant call on the generator returns at this moment *)
Fixpoint run_tree (answer : cmd -> callres) (t : btree) : list Ev * leaf :=
  match t with
  | BYield v w b => ([], LYield v w b)
  | BYieldStar s w b => ([], LYieldStar s w b)
  | BDone v b => ([], LDone v b)
  | BThrew e b => ([], LThrew e b)
  | BEmit ev t' => let (l, r) := run_tree answer t' in (ev :: l, r)
  | BReent c k => run_tree answer (k (answer c))
  end.

Inductive icres := ICRes (done : bool) (v : V) (it : It) | ICErr (e : V).
(* call a method of the inner iterator; a non-object result is the TypeError that toObject / the spec raises *)
Fixpoint run_icall (t : icall) : list Ev * icres :=
  match t with
  | IRes d v it => ([], ICRes d v it)
  | IErr e => ([], ICErr e)
  | INonObj => ([], ICErr tyerr)
  | IEmit ev t' => let (l, r) := run_icall t' in (ev :: l, r)
  end.

(* ---------------------------------------------------------------------------------------------- *)
(* I: goja's generatorObject, func.go                                                              *)

Inductive gst := GUndefined | GSuspendedStart | GExecuting | GSuspendedYield | GSuspendedYieldRes | GCompleted.
Definition gst_eqb (a b : gst) : bool :=
  match a, b with
  | GUndefined, GUndefined | GSuspendedStart, GSuspendedStart | GExecuting, GExecuting
  | GSuspendedYield, GSuspendedYield | GSuspendedYieldRes, GSuspendedYieldRes | GCompleted, GCompleted => true
  | _, _ => false
  end.

Record gobj := mkG { gstate : gst; gdeleg : option It; gbody : B }.
Definition g_set_state (g : gobj) (s : gst) := mkG s (gdeleg g) (gbody g).
Definition g_set_deleg (g : gobj) (d : option It) := mkG (gstate g) d (gbody g).
Definition g_set_body (g : gobj) (b : B) := mkG (gstate g) (gdeleg g) b.

Definition res3 := (list Ev * gobj * result)%type.
Definition pre (l : list Ev) (r : res3) : res3 := let '(l', g, o) := r in (l ++ l', g, o).

(* What a call made by the running body on its own generator object answers: the first lines of
   next/throw/_return, evaluated at the object's current state (the call changes nothing).  The body always runs with
   state = genStateExecuting (validate panics); since d6dd1c9 this also holds while a GetIterator failure of a yield*
   operand is thrown into the body (delegate() used to set genStateCompleted there: finding C09-N2, repaired). *)
Definition g_reenter (g : gobj) (c : cmd) : callres :=
  match gstate g with
  | GCompleted =>
      match c with
      | RNext _ => CRes undef true          (* next: createIterResultObject(_undefined, true) *)
      | RThrow e => CErr e                  (* throw: panic(v) *)
      | RReturn v => CRes v true            (* _return: createIterResultObject(v, true) *)
      end
  | _ => CErr tyerr                         (* validate(): "Illegal generator state" *)
  end.

Section GojaCalls.
(* generator.next / generator.nextThrow / the return path: resume the body (supplied recursively, with fuel) *)
Variable resume : gobj -> binput -> res3.

(* generatorObject.step (res, resType, ex) *)
Definition g_next_with (g : gobj) (v : V) (after : gobj -> V -> res3) : res3 :=
  (* the delegated prefix shared by next: tryCallDelegated(callDelegated(g.delegated.next, v)) *)
  match gdeleg g with
  | Some d =>
      let (l, r) := run_icall (istep d INext v) in
      match r with
      | ICErr e =>   (* tryCallDelegated (state = executing during the call): delegated = nil; step(gen.nextThrow(ex)) *)
          pre l (resume (g_set_state (g_set_deleg g None) GExecuting) (BThrow e))
      | ICRes false v' d' => (l, g_set_deleg g (Some d'), ORes v' false)
      | ICRes true v' _ => pre l (after (g_set_deleg g None) v')
      end
  | None => after g v
  end.

(* the tail of next(): `if state != SuspendedYieldRes { v = nil }; state = executing; step(gen.next(v))` *)
Definition g_next_tail (g : gobj) (v : V) : res3 :=
  let i := match gstate g with
           | GSuspendedStart => BStart
           | GSuspendedYieldRes => BNext v
           | _ => BNext undef            (* v = nil: nothing is pushed *)
           end in
  resume (g_set_state g GExecuting) i.

Definition g_next (g : gobj) (v : V) : res3 :=
  if gst_eqb (gstate g) GExecuting then ([], g, OThrow tyerr)
  else if gst_eqb (gstate g) GCompleted then ([], g, ORes undef true)
  else g_next_with g v g_next_tail.

(* d.returnIter() on a missing throw method: call return() if present; its result must be an object *)
Definition g_return_iter (d : It) : list Ev * option V :=
  if has_meth d IReturn then
    let (l, r) := run_icall (istep d IReturn undef) in
    match r with ICErr e => (l, Some e) | ICRes _ _ _ => (l, None) end
  else ([], None).

Definition g_throw (g : gobj) (v : V) : res3 :=
  if gst_eqb (gstate g) GExecuting then ([], g, OThrow tyerr)
  else
    let g := if gst_eqb (gstate g) GSuspendedStart then g_set_state g GCompleted else g in
    if gst_eqb (gstate g) GCompleted then ([], g, OThrow v)
    else match gdeleg g with
    | Some d =>
        if has_meth d IThrow then
          let (l, r) := run_icall (istep d IThrow v) in
          match r with
          | ICErr e => pre l (resume (g_set_state (g_set_deleg g None) GExecuting) (BThrow e))
          | ICRes false v' d' => (l, g_set_deleg g (Some d'), ORes v' false)
          | ICRes true v' _ =>
              let g1 := g_set_deleg g None in
              let i := match gstate g1 with GSuspendedYieldRes => BNext v' | _ => BNext undef end in
              pre l (resume (g_set_state g1 GExecuting) i)
          end
        else
          (* g.delegated = nil; d.returnIter(); panic(TypeError) — all inside tryCallDelegated *)
          let (l, ex) := g_return_iter d in
          let e := match ex with Some e => e | None => tyerr end in
          pre l (resume (g_set_state (g_set_deleg g None) GExecuting) (BThrow e))
    | None => resume (g_set_state g GExecuting) (BThrow v)
    end.

Definition g_return (g : gobj) (v : V) : res3 :=
  if gst_eqb (gstate g) GExecuting then ([], g, OThrow tyerr)
  else
    let g := if gst_eqb (gstate g) GSuspendedStart then g_set_state g GCompleted else g in
    if gst_eqb (gstate g) GCompleted then ([], g, ORes v true)
    else
      (* g.gen.returning = v; state = executing; enterNext; enterNextFinallyFrame; ... : the body is resumed with
         a return completion (it completes at once when no finally block is pending) *)
      let fin (g : gobj) (v : V) := resume (g_set_state g GExecuting) (BReturn v) in
      match gdeleg g with
      | Some d =>
          if has_meth d IReturn then
            let (l, r) := run_icall (istep d IReturn v) in
            match r with
            | ICErr e => pre l (resume (g_set_state (g_set_deleg g None) GExecuting) (BThrow e))
            | ICRes false v' d' => (l, g_set_deleg g (Some d'), ORes v' false)
            | ICRes true v' _ => pre l (fin (g_set_deleg g None) v')
            end
          else fin (g_set_deleg g None) v
      | None => fin g v
      end.

(* generatorObject.step + delegate, applied to how the activation ended *)
Definition g_step (g : gobj) (lf : leaf) : res3 :=
  match lf with
  | LThrew e b => ([], mkG GCompleted None b, OThrow e)
  | LYield v w b => ([], mkG (if w then GSuspendedYieldRes else GSuspendedYield) (gdeleg g) b, ORes v false)
  | LYieldStar src w b =>
      let g1 := mkG (if w then GSuspendedYieldRes else GSuspendedYield) (gdeleg g) b in
      match src with
      | inr e =>   (* delegate(): state = executing; getIterator threw: delegated = nil; step(gen.nextThrow(ex)) *)
          resume (g_set_state (g_set_deleg g1 None) GExecuting) (BIterFail e)
      | inl it =>  (* state = executing during getIterator, then restored; delegated = it; return g.next(_undefined) *)
          g_next (g_set_deleg g1 (Some it)) undef
      end
  | LDone v b => ([], mkG GCompleted (gdeleg g) b, ORes v true)
  end.
End GojaCalls.

(* generator.next/nextThrow + generatorObject.step: run the body once, then interpret how it ended *)
Fixpoint g_resume (n : nat) (g : gobj) (i : binput) : res3 :=
  match n with
  | 0 => ([], g, ODiverge)
  | S n' =>
      let (l, lf) := run_tree (g_reenter g) (bstep (gbody g) i) in
      pre l (g_step (g_resume n') g lf)
  end.

Definition g_call (n : nat) (g : gobj) (c : cmd) : res3 :=
  match c with
  | RNext v => g_next (g_resume n) g v
  | RThrow e => g_throw (g_resume n) g e
  | RReturn v => g_return (g_resume n) g v
  end.

Definition ginit (b : B) : gobj := mkG GSuspendedStart None b.

(* ---------------------------------------------------------------------------------------------- *)
(* S: ECMA-262 27.5.3 (GeneratorValidate / GeneratorResume / GeneratorResumeAbrupt) and 14.4.14 (yield* ) *)

Inductive sst := SSuspendedStart | SSuspendedYield | SExecuting | SCompleted.
(* sdeleg = Some it: the body is suspended inside the loop of a yield* whose iterator is it *)
Record sobj := mkS { sstate : sst; sdeleg : option It; sbody : B }.
Definition sres3 := (list Ev * sobj * result)%type.
Definition spre (l : list Ev) (r : sres3) : sres3 := let '(l', g, o) := r in (l ++ l', g, o).

(* completion with which a suspended generator is resumed *)
Inductive compl := KNormal (v : V) | KThrow (e : V) | KReturn (v : V).

(* GeneratorValidate for a call made while the generator is running: state is executing => TypeError *)
Definition s_reenter (c : cmd) : callres := CErr tyerr.

Section SpecCalls.
Variable body : sobj -> binput -> sres3.     (* continue the evaluation of the body; state is executing *)

(* IteratorClose(iteratorRecord, NormalCompletion) as used by yield* when the iterator has no throw method *)
Definition s_iterator_close (it : It) : list Ev * option V :=
  if has_meth it IReturn then
    let (l, r) := run_icall (istep it IReturn undef) in
    match r with ICErr e => (l, Some e) | ICRes _ _ _ => (l, None) end
  else ([], None).

(* one iteration of the loop of 14.4.14 step 7 with the completion [received]; the generator is executing *)
Definition s_yieldstar (s : sobj) (it : It) (received : compl) : sres3 :=
  let inner (m : imeth) (v : V) (ondone : V -> binput) : sres3 :=
    let (l, r) := run_icall (istep it m v) in
    match r with
    | ICErr e => spre l (body (mkS SExecuting None (sbody s)) (BThrow e))
    | ICRes true v' _ => spre l (body (mkS SExecuting None (sbody s)) (ondone v'))
    | ICRes false v' it' => (l, mkS SSuspendedYield (Some it') (sbody s), ORes v' false)   (* GeneratorYield(innerResult) *)
    end in
  match received with
  | KNormal v => inner INext v BNext
  | KThrow e =>
      if has_meth it IThrow then inner IThrow e BNext
      else
        let (l, ex) := s_iterator_close it in
        let e' := match ex with Some e' => e' | None => tyerr end in
        spre l (body (mkS SExecuting None (sbody s)) (BThrow e'))
  | KReturn v =>
      if has_meth it IReturn then inner IReturn v BReturn
      else body (mkS SExecuting None (sbody s)) (BReturn v)
  end.

(* resume the suspended evaluation with a completion *)
Definition s_resume (s : sobj) (first : bool) (received : compl) : sres3 :=
  match sdeleg s with
  | Some it => s_yieldstar (mkS SExecuting (sdeleg s) (sbody s)) it received
  | None =>
      body (mkS SExecuting None (sbody s))
        (match received with
         | KNormal v => if first then BStart else BNext v
         | KThrow e => BThrow e
         | KReturn v => BReturn v
         end)
  end.

Definition s_call_with (s : sobj) (c : cmd) : sres3 :=
  match sstate s with
  | SExecuting => ([], s, OThrow tyerr)                              (* GeneratorValidate *)
  | SCompleted =>
      match c with
      | RNext _ => ([], s, ORes undef true)                          (* GeneratorResume step 2 *)
      | RThrow e => ([], s, OThrow e)                                (* GeneratorResumeAbrupt step 3 *)
      | RReturn v => ([], s, ORes v true)
      end
  | SSuspendedStart =>
      match c with
      | RNext v => s_resume s true (KNormal v)
      | RThrow e => ([], mkS SCompleted None (sbody s), OThrow e)    (* GeneratorResumeAbrupt step 2 *)
      | RReturn v => ([], mkS SCompleted None (sbody s), ORes v true)
      end
  | SSuspendedYield =>
      match c with
      | RNext v => s_resume s false (KNormal v)
      | RThrow e => s_resume s false (KThrow e)
      | RReturn v => s_resume s false (KReturn v)
      end
  end.

(* how an activation of the body ends *)
Definition s_leaf (s : sobj) (lf : leaf) : sres3 :=
  match lf with
  | LThrew e b => ([], mkS SCompleted None b, OThrow e)
  | LDone v b => ([], mkS SCompleted None b, ORes v true)
  | LYield v _ b => ([], mkS SSuspendedYield None b, ORes v false)
  | LYieldStar (inr e) _ b => body (mkS SExecuting None b) (BIterFail e)
  | LYieldStar (inl it) _ b => s_yieldstar (mkS SExecuting (Some it) b) it (KNormal undef)
  end.
End SpecCalls.

Fixpoint s_body (n : nat) (s : sobj) (i : binput) : sres3 :=
  match n with
  | 0 => ([], s, ODiverge)
  | S n' =>
      let (l, lf) := run_tree s_reenter (bstep (sbody s) i) in
      spre l (s_leaf (s_body n') s lf)
  end.

Definition s_call (n : nat) (s : sobj) (c : cmd) : sres3 := s_call_with (s_body n) s c.
Definition sinit (b : B) : sobj := mkS SSuspendedStart None b.

(* driver histories *)
Fixpoint run {St : Type} (step : St -> cmd -> list Ev * St * result) (st : St) (h : list cmd)
  : list (list Ev * result) * St :=
  match h with
  | [] => ([], st)
  | c :: h' => let '(l, st', o) := step st c in
               match o with
               | ODiverge => ([(l, o)], st')      (* the call never returns: no further driver call happens *)
               | _ => let (os, stf) := run step st' h' in ((l, o) :: os, stf)
               end
  end.
Definition outs {St : Type} (r : list (list Ev * result) * St) := fst r.

(* ---------------------------------------------------------------------------------------------- *)
(* asyncRunner (func.go start / step / onFulfilled / onRejected): the body of an async function is run by a bare
   `generator`; each await suspends it, and the reaction job of the awaited promise resumes it with gen.next(x)
   (fulfilled with x) or gen.nextThrow(e) (rejected with e); completion settles the function's own promise.
   The settlements of the awaited promises are given as a list: RNext x = fulfilled with x, RThrow e = rejected with e.
   One entry per activation: the side effects and what the runner did (ORes v false = await v; ORes v true =
   promiseCap.resolve(v); OThrow e = promiseCap.reject(e)). *)
Fixpoint ar_run (b : B) (i : binput) (h : list cmd) : list (list Ev * result) :=
  let (l, lf) := run_tree (fun _ => CErr tyerr) (bstep b i) in
  match lf with
  | LYield v _ b' =>
      (l, ORes v false) ::
      match h with
      | RNext x :: h' => ar_run b' (BNext x) h'         (* onFulfilled: ar.gen.next(arg) *)
      | RThrow e :: h' => ar_run b' (BThrow e) h'       (* onRejected: ar.gen.nextThrow(reason) *)
      | _ => []
      end
  | LDone v _ => [(l, ORes v true)]
  | LThrew e _ => [(l, OThrow e)]
  | LYieldStar _ _ _ => [(l, ODiverge)]                 (* an async body has no yield* *)
  end.

(* a driver that stops calling once the generator has completed *)
Fixpoint until_done (os : list (list Ev * result)) : list (list Ev * result) :=
  match os with
  | [] => []
  | (l, ORes v false) :: r => (l, ORes v false) :: until_done r
  | o :: _ => [o]
  end.

(* trees without calls of the body on its own generator *)
Fixpoint reent_free (t : btree) : Prop :=
  match t with
  | BEmit _ t' => reent_free t'
  | BReent _ _ => False
  | _ => True
  end.

(* the leaves an activation tree can end in *)
Inductive leaf_of : btree -> leaf -> Prop :=
| lo_yield v w b : leaf_of (BYield v w b) (LYield v w b)
| lo_star s w b : leaf_of (BYieldStar s w b) (LYieldStar s w b)
| lo_done v b : leaf_of (BDone v b) (LDone v b)
| lo_threw e b : leaf_of (BThrew e b) (LThrew e b)
| lo_emit ev t l : leaf_of t l -> leaf_of (BEmit ev t) l
| lo_reent c k r l : leaf_of (k r) l -> leaf_of (BReent c k) l.

End GenObj.

Arguments cmd : clear implicits.
Arguments binput : clear implicits.
Arguments callres : clear implicits.
Arguments btree : clear implicits.
Arguments icall : clear implicits.
Arguments result : clear implicits.
Arguments leaf : clear implicits.
Arguments gobj : clear implicits.
Arguments sobj : clear implicits.
Arguments compl : clear implicits.
Arguments icres : clear implicits.

(* ================================================================================================ *)
(* Part 2.  Stack-segment suspend / resume (vm.go suspend/resume; func.go generator.step/enterNext)   *)
(* ================================================================================================ *)

Section Segments.
Context {Val IterItem RefItem Payload : Type}.
Local Open Scope Z_scope.

(* a try frame: the four saved offsets and everything else (stash, catch/finally positions, ...) *)
Record tframe := mkTF { tf_call : Z; tf_iter : Z; tf_ref : Z; tf_sp : Z; tf_pay : Payload }.

(* the VM registers and stacks that suspension touches; the operand stack is stack[0..sp) *)
Record vmst := mkVM { stack : list Val; sb : Z; tryS : list tframe; iterS : list IterItem;
                      refS : list RefItem; callD : Z (* len(vm.callStack) *) }.
Definition sp (st : vmst) : Z := Z.of_nat (length (stack st)).
Definition zlen {A} (l : list A) : Z := Z.of_nat (length l).

(* generator.tryStackLen / iterStackLen / refStackLen *)
Record marks := mkMarks { m_try : nat; m_iter : nat; m_ref : nat }.

Record ectx := mkCtx { c_stack : list Val; c_try : list tframe; c_iter : list IterItem; c_ref : list RefItem }.

(* vm.suspend(&g.ctx, tryStackLen, iterStackLen, refStackLen) *)
Definition vm_suspend (st : vmst) (m : marks) : vmst * ectx :=
  let base := Z.to_nat (sb st - 1) in
  let cst := skipn base (stack st) in
  let spz := sb st - 1 in
  let '(ctry, vtry) :=
    if Nat.ltb (m_try m) (length (tryS st)) then
      (map (fun tf => mkTF (tf_call tf) (tf_iter tf - Z.of_nat (m_iter m)) (tf_ref tf - Z.of_nat (m_ref m))
                           (tf_sp tf - spz) (tf_pay tf))
           (skipn (m_try m) (tryS st)),
       firstn (m_try m) (tryS st))
    else ([], tryS st) in
  let '(citer, viter) :=
    if Nat.ltb (m_iter m) (length (iterS st)) then (skipn (m_iter m) (iterS st), firstn (m_iter m) (iterS st))
    else ([], iterS st) in
  let '(cref, vref) :=
    if Nat.ltb (m_ref m) (length (refS st)) then (skipn (m_ref m) (refS st), firstn (m_ref m) (refS st))
    else ([], refS st) in
  (mkVM (stack st) (sb st) vtry viter vref (callD st), mkCtx cst ctry citer cref).

(* generator.step at a yield: suspend; vm.sp = vm.sb - 1; vm.callStack = vm.callStack[:len-1] *)
Definition gen_suspend (st : vmst) (m : marks) : vmst * ectx :=
  let (st1, c) := vm_suspend st m in
  (mkVM (firstn (Z.to_nat (sb st1 - 1)) (stack st1)) (sb st1) (tryS st1) (iterS st1) (refS st1) (callD st1 - 1), c).

(* vm.resume(&g.ctx) *)
Definition vm_resume (st : vmst) (c : ectx) : vmst :=
  let spz := sp st in
  mkVM (stack st ++ c_stack c) (spz + 1)
       (tryS st ++ map (fun tf => mkTF (callD st) (tf_iter tf + zlen (iterS st)) (tf_ref tf + zlen (refS st))
                                       (tf_sp tf + spz) (tf_pay tf)) (c_try c))
       (iterS st ++ c_iter c) (refS st ++ c_ref c) (callD st).

(* generator.enterNext: pushCtx; pushTryFrame(tryPanicMarker, -1); callStack = append(callStack, context{pc:-2});
   storeLengths; vm.resume(&g.ctx).  [marker] is the payload of the panic-marker frame. *)
Definition gen_enter_next (marker : Payload) (st : vmst) (c : ectx) : vmst * marks :=
  let st1 := mkVM (stack st) (sb st)
                  (tryS st ++ [mkTF (callD st + 1) (zlen (iterS st)) (zlen (refS st)) (sp st) marker])
                  (iterS st) (refS st) (callD st + 2) in
  (vm_resume st1 c, mkMarks (length (tryS st1)) (length (iterS st1)) (length (refS st1))).

(* the generator's segment: what lives above its base *)
Definition segment (st : vmst) (m : marks) :=
  (skipn (Z.to_nat (sb st - 1)) (stack st), skipn (m_try m) (tryS st), skipn (m_iter m) (iterS st), skipn (m_ref m) (refS st)).
(* the base: operand-stack base, iter/ref marks, call depth *)
Definition shift_frame (dsp diter dref dcall : Z) (tf : tframe) :=
  mkTF (tf_call tf + dcall) (tf_iter tf + diter) (tf_ref tf + dref) (tf_sp tf + dsp) (tf_pay tf).
Definition shift_segment (dsp diter dref dcall : Z) (s : list Val * list tframe * list IterItem * list RefItem) :=
  let '(a, t, i, r) := s in (a, map (shift_frame dsp diter dref dcall) t, i, r).

(* the shape of a VM state in which a generator body is about to yield *)
Definition SegWf (st : vmst) (m : marks) : Prop :=
  1 <= sb st /\ sb st - 1 <= sp st /\
  (m_try m <= length (tryS st))%nat /\ (m_iter m <= length (iterS st))%nat /\ (m_ref m <= length (refS st))%nat /\
  Forall (fun tf => tf_call tf = callD st) (skipn (m_try m) (tryS st)).
End Segments.
Arguments tframe : clear implicits.
Arguments vmst : clear implicits.
Arguments ectx : clear implicits.

(* ================================================================================================ *)
(* Part 3.  A generator-body language                                                               *)
(* ================================================================================================ *)

Inductive val := VUndef | VInt (z : Z) | VArr (l : list val) | VObj (l : list val) | VTpl (l : list val) | VTypeErr.

(* locals: slots 0..2 hold integers, slot 3 ("ev") holds whatever a catch clause caught *)
Definition env := list val.
Definition env0 : env := [VInt 0; VInt 0; VInt 0; VUndef].
Definition getv (r : env) (x : nat) : val := nth x r VUndef.
Fixpoint upd (x : nat) (v : val) (r : env) : env :=
  match r, x with
  | [], _ => []
  | _ :: t, O => v :: t
  | h :: t, S x' => h :: upd x' v t
  end.

(* hand-written iterators: yield h_base, h_base+1, ... (h_n values), then {value: h_ret, done: true};
   every call of any method advances the position; optional throw/return methods with a fixed behaviour *)
Inductive hbeh := HDone | HCont | HThrows | HNonObj.
Record hand := mkHand { h_n : nat; h_base : Z; h_ret : Z; h_throw : option hbeh; h_return : option hbeh;
                        h_next_bad : option (nat * hbeh) }.

Inductive exp :=
| EConst (z : Z) | EVar (x : nat)
| EAdd (a b : exp)                     (* a + b *)
| ECall (a b : exp)                    (* F(a, b): logs its arguments, returns a*2+b *)
| ECallSpread (a b : exp)              (* F(...[a, b]) *)
| EArr (a b : exp) | EObj (a b : exp) | ETpl (a b : exp)     (* [a, b]   {a: a, b: b}   T`${a}|${b}` *)
| EYield (a : exp)                     (* (yield a) in operand position *)
| EAwaitBad (z : Z)                    (* async bodies only: await of a promise whose `constructor` getter throws z *)
| EYieldStar (s : src)                 (* (yield* s) *)
with src :=
| SrcGen (arg : exp) (body : stmt)     (* a fresh generator of the same language, its x0 = arg *)
| SrcHand (h : hand)
| SrcBad                               (* not iterable *)
with stmt :=
| SSkip
| SExpr (e : exp)
| SYield (a : exp)                     (* yield a;  — the value sent by next() is unused *)
| SYieldStar (s : src)                 (* yield* s; *)
| SAssign (x : nat) (e : exp)
| SDestr (x : nat) (e : exp)           (* [x = e] = [];   destructuring default *)
| SLog (e : exp)
| SLogLocals                           (* a closure capturing the locals logs them *)
| SSeq (a b : stmt)
| SIf (c : exp) (a b : stmt)
| SRepeat (n : nat) (x : nat) (body : stmt)      (* for (let i = 0; i < n; i++) { x = i; body } *)
| STryCatch (b c : stmt)
| STryFinally (b f : stmt)
| STryCF (b c f : stmt)
| SReturn (e : exp) | SThrow (e : exp) | SBreak | SContinue
| SForOf (x : nat) (s : src) (body : stmt)
| SReenter (c : cmd val).              (* try { r = G.next(v); log(r) } catch (e) { log(e) } on the TOP generator *)

Definition tin := binput val.

(* finite interaction trees: the meaning of one generator body *)
Inductive itree :=
| TDone (v : val) (r : env)
| TThrew (e : val) (r : env)
| TYield (v : val) (wants : bool) (r : env) (k : tin -> itree)
| TYieldStar (s : iobj + val) (wants : bool) (r : env) (k : tin -> itree)   (* only in the top-level body *)
| TEmit (ev : val) (t : itree)
| TReent (c : cmd val) (k : callres val -> itree)
with iobj :=
| IHand (h : hand) (pos : nat)
| IGenStart (k : tin -> itree) | IGenSusp (k : tin -> itree) | IGenDone.

Record handlers := mkH { kt : val -> env -> itree; kr : val -> env -> itree; kb : env -> itree; kc : env -> itree }.

Definition vadd (a b : val) : val := match a, b with VInt x, VInt y => VInt (x + y) | _, _ => VUndef end.
Definition vcall (a b : val) : val := match a, b with VInt x, VInt y => VInt (x * 2 + y) | _, _ => VUndef end.
Definition voff (a : val) (n : Z) : val := match a with VInt x => VInt (x + n) | _ => VInt n end.
Definition truthy (v : val) : bool := match v with VInt z => negb (Z.eqb z 0) | VUndef => false | _ => true end.
Definition b2v (b : bool) : val := VInt (if b then 1 else 0).

(* how a suspended yield continues *)
Definition resume_in (i : tin) (k : val -> itree) (H : handlers) (r : env) : itree :=
  match i with
  | BStart => k VUndef
  | BNext x => k x
  | BThrow x => kt H x r
  | BReturn x => kr H x r
  | BIterFail x => kt H x r
  end.

(* --- hand-written iterators --- *)
Inductive hres := HRes (done : bool) (v : val) | HErr (e : val) | HNon.
Definition hbeh_res (h : hand) (pos : nat) (b : hbeh) (arg : val) : hres :=
  match b with
  | HDone => HRes true arg
  | HCont => if Nat.ltb pos (h_n h) then HRes false (voff arg 1000) else HRes true arg
  | HThrows => HErr (voff arg 2000)
  | HNonObj => HNon
  end.
Definition hand_call (h : hand) (pos : nat) (m : imeth) (arg : val) : val * hres :=
  match m with
  | INext =>
      (VArr [VInt 50; arg],
       match h_next_bad h with
       | Some (p, b) =>
           if Nat.eqb p pos then
             match b with HThrows => HErr (VInt (h_base h + 700)) | HNonObj => HNon | _ => HRes true VUndef end
           else if Nat.ltb pos (h_n h) then HRes false (VInt (h_base h + Z.of_nat pos)) else HRes true (VInt (h_ret h))
       | None => if Nat.ltb pos (h_n h) then HRes false (VInt (h_base h + Z.of_nat pos)) else HRes true (VInt (h_ret h))
       end)
  | IThrow => (VArr [VInt 51; arg], match h_throw h with Some b => hbeh_res h pos b arg | None => HNon end)
  | IReturn => (VArr [VInt 52; arg], match h_return h with Some b => hbeh_res h pos b arg | None => HNon end)
  end.
Definition opt_some {A} (o : option A) : bool := match o with Some _ => true | None => false end.

(* IteratorClose on an inner activation tree of a generator: run return(undefined) *)
Fixpoint close_tree (t : itree) (ok : itree) (err : val -> itree) : itree :=
  match t with
  | TDone _ _ => ok
  | TThrew e _ => err e
  | TYield _ _ _ _ => ok          (* return() answered {done:false}: an object; ignored *)
  | TYieldStar _ _ _ _ => ok
  | TEmit ev t' => TEmit ev (close_tree t' ok err)
  | TReent c kk => TReent c (fun r => close_tree (kk r) ok err)
  end.

Definition gen_handlers : handlers :=
  mkH (fun e r => TThrew e r) (fun v r => TDone v r) (fun r => TDone VUndef r) (fun r => TDone VUndef r).

(* for-of over an inner generator whose current activation unfolds to t; db = the meaning of the loop body *)
Fixpoint forof_tree (x : nat) (db : env -> handlers -> (env -> itree) -> itree) (H : handlers) (k : env -> itree)
         (t : itree) (r : env) {struct t} : itree :=
  match t with
  | TDone _ _ => k r
  | TThrew e _ => kt H e r
  | TYield v _ _ kin =>
      db (upd x v r)
         (mkH (fun e r' => close_tree (kin (BReturn VUndef)) (kt H e r') (fun _ => kt H e r'))
              (fun v' r' => close_tree (kin (BReturn VUndef)) (kr H v' r') (fun e => kt H e r'))
              (fun r' => close_tree (kin (BReturn VUndef)) (k r') (fun e => kt H e r'))
              (fun r' => forof_tree x db H k (kin (BNext VUndef)) r'))
         (fun r' => forof_tree x db H k (kin (BNext VUndef)) r')
  | TYieldStar _ _ _ _ => kt H VTypeErr r
  | TEmit ev t' => TEmit ev (forof_tree x db H k t' r)
  | TReent c kk => TReent c (fun a' => forof_tree x db H k (kk a') r)
  end.

(* yield* whose delegate is an inner generator with current activation t (14.4.14, inlined) *)
Fixpoint deleg_tree (wants : bool) (r : env) (H : handlers) (k : val -> itree) (retmode : bool) (t : itree)
         {struct t} : itree :=
  match t with
  | TDone v _ => if retmode then kr H v r else k v
  | TThrew e _ => kt H e r
  | TYield v _ _ kin =>
      TYield v wants r (fun i =>
        match i with
        | BStart => deleg_tree wants r H k false (kin (BNext VUndef))
        | BNext x => deleg_tree wants r H k false (kin (BNext x))
        | BThrow x | BIterFail x => deleg_tree wants r H k false (kin (BThrow x))
        | BReturn x => deleg_tree wants r H k true (kin (BReturn x))
        end)
  | TYieldStar _ _ _ _ => kt H VTypeErr r
  | TEmit ev t' => TEmit ev (deleg_tree wants r H k retmode t')
  | TReent c kk => TReent c (fun a' => deleg_tree wants r H k retmode (kk a'))
  end.

Section Denote.
(* [top] = the body of the top-level generator: its yield* is surfaced to the generator object (Part 1);
   bodies of inner generators are given their meaning directly, with yield* inlined per 14.4.14 *)
Fixpoint dE (top : bool) (e : exp) (r : env) (H : handlers) (k : val -> itree) {struct e} : itree :=
  match e with
  | EConst z => k (VInt z)
  | EVar x => k (getv r x)
  | EAdd a b => dE top a r H (fun va => dE top b r H (fun vb => k (vadd va vb)))
  | ECall a b | ECallSpread a b =>
      dE top a r H (fun va => dE top b r H (fun vb => TEmit (VArr [VInt 77; va; vb]) (k (vcall va vb))))
  | EArr a b => dE top a r H (fun va => dE top b r H (fun vb => k (VArr [va; vb])))
  | EObj a b => dE top a r H (fun va => dE top b r H (fun vb => k (VObj [va; vb])))
  | ETpl a b => dE top a r H (fun va => dE top b r H (fun vb => k (VTpl [va; vb])))
  | EYield a => dE top a r H (fun v => TYield v true r (fun i => resume_in i k H r))
  | EYieldStar s => dStar top true s r H k
  | EAwaitBad z =>   (* Await: PromiseResolve(%Promise%, v) is abrupt => thrown at the await, no suspension *)
      TEmit (VArr [VInt 61; VInt z]) (kt H (VInt z) r)
  end
with dStar (top : bool) (wants : bool) (s : src) (r : env) (H : handlers) (k : val -> itree) {struct s} : itree :=
  match s with
  | SrcBad =>
      if top then TYieldStar (inr VTypeErr) wants r (fun i => resume_in i k H r) else kt H VTypeErr r
  | SrcHand h =>
      if top then TYieldStar (inl (IHand h 0)) wants r (fun i => resume_in i k H r)
      else
        (fix deleg (fuel : nat) (pos : nat) (i : tin) : itree :=
           match fuel with
           | O => kt H VTypeErr r
           | S fuel' =>
               let after (m : imeth) (arg : val) (ondone : val -> itree) : itree :=
                 let (ev, hr) := hand_call h pos m arg in
                 TEmit ev match hr with
                          | HErr e => kt H e r
                          | HNon => kt H VTypeErr r
                          | HRes true v => ondone v
                          | HRes false v => TYield v wants r (fun i' => deleg fuel' (S pos) i')
                          end in
               match i with
               | BStart => after INext VUndef k
               | BNext x => after INext x k
               | BThrow x | BIterFail x =>
                   if opt_some (h_throw h) then after IThrow x k
                   else if opt_some (h_return h) then
                     let (ev, hr) := hand_call h pos IReturn VUndef in
                     TEmit ev match hr with HErr e => kt H e r | _ => kt H VTypeErr r end
                   else kt H VTypeErr r
               | BReturn x =>
                   if opt_some (h_return h) then after IReturn x (fun v => kr H v r) else kr H x r
               end
           end) (S (S (h_n h))) 0%nat (BNext VUndef)
  | SrcGen arg body =>
      dE top arg r H (fun a =>
        let g : tin -> itree := fun _ => dS false body (upd 0 a env0) gen_handlers (fun r' => TDone VUndef r') in
        if top then TYieldStar (inl (IGenStart g)) wants r (fun i => resume_in i k H r)
        else
          deleg_tree wants r H k false (g BStart))
  end
with dS (top : bool) (s : stmt) (r : env) (H : handlers) (k : env -> itree) {struct s} : itree :=
  match s with
  | SSkip => k r
  | SExpr e => dE top e r H (fun _ => k r)
  | SYield a => dE top a r H (fun v => TYield v false r (fun i => resume_in i (fun _ => k r) H r))
  | SYieldStar s' => dStar top false s' r H (fun _ => k r)
  | SAssign x e | SDestr x e => dE top e r H (fun v => k (upd x v r))
  | SLog e => dE top e r H (fun v => TEmit v (k r))
  | SLogLocals => TEmit (VArr [VInt 80; getv r 0; getv r 1; getv r 2]) (k r)
  | SSeq a b => dS top a r H (fun r' => dS top b r' H k)
  | SIf c a b => dE top c r H (fun v => if truthy v then dS top a r H k else dS top b r H k)
  | SRepeat n x body =>
      (fix loop (m : nat) (r : env) : itree :=
         match m with
         | O => k r
         | S m' =>
             dS top body (upd x (VInt (Z.of_nat (n - m))) r)
                (mkH (kt H) (kr H) k (fun r' => loop m' r')) (fun r' => loop m' r')
         end) n r
  | STryCatch b c =>
      dS top b r (mkH (fun e r' => dS top c (upd 3 e r') H k) (kr H) (kb H) (kc H)) k
  | STryFinally b f =>
      dS top b r
         (mkH (fun e r' => dS top f r' H (fun r'' => kt H e r''))
              (fun v r' => dS top f r' H (fun r'' => kr H v r''))
              (fun r' => dS top f r' H (fun r'' => kb H r''))
              (fun r' => dS top f r' H (fun r'' => kc H r'')))
         (fun r' => dS top f r' H k)
  | STryCF b c f =>
      let Hf := mkH (fun e r' => dS top f r' H (fun r'' => kt H e r''))
                    (fun v r' => dS top f r' H (fun r'' => kr H v r''))
                    (fun r' => dS top f r' H (fun r'' => kb H r''))
                    (fun r' => dS top f r' H (fun r'' => kc H r'')) in
      let kf := fun r' => dS top f r' H k in
      dS top b r (mkH (fun e r' => dS top c (upd 3 e r') Hf kf) (kr Hf) (kb Hf) (kc Hf)) kf
  | SReturn e => dE top e r H (fun v => kr H v r)
  | SThrow e => dE top e r H (fun v => kt H v r)
  | SBreak => kb H r
  | SContinue => kc H r
  | SReenter c =>
      TReent c (fun a => TEmit (match a with
                                | CRes v d => VArr [VInt 90; v; b2v d]
                                | CErr e => VArr [VInt 91; e]
                                end) (k r))
  | SForOf x s' body =>
      match s' with
      | SrcBad => kt H VTypeErr r
      | SrcHand h =>
          (fix forof (fuel : nat) (pos : nat) (r : env) : itree :=
             match fuel with
             | O => kt H VTypeErr r
             | S fuel' =>
                 let (ev, hr) := hand_call h pos INext VUndef in
                 TEmit ev
                   match hr with
                   | HErr e => kt H e r
                   | HNon => kt H VTypeErr r
                   | HRes true _ => k r
                   | HRes false v =>
                       (* IteratorClose: return() if present, no arguments *)
                       let close (ok : itree) (err : val -> itree) : itree :=
                         if opt_some (h_return h) then
                           let (ev', hr') := hand_call h (S pos) IReturn VUndef in
                           TEmit ev' match hr' with HErr e => err e | HNon => err VTypeErr | HRes _ _ => ok end
                         else ok in
                       dS top body (upd x v r)
                          (mkH (fun e r' => close (kt H e r') (fun _ => kt H e r'))
                               (fun v' r' => close (kr H v' r') (fun e => kt H e r'))
                               (fun r' => close (k r') (fun e => kt H e r'))
                               (fun r' => forof fuel' (S pos) r'))
                          (fun r' => forof fuel' (S pos) r')
                   end
             end) (S (S (h_n h))) 0%nat r
      | SrcGen arg gbody =>
          dE top arg r H (fun a =>
            let g : tin -> itree := fun _ => dS false gbody (upd 0 a env0) gen_handlers (fun r' => TDone VUndef r') in
            forof_tree x (fun r0 H0 k0 => dS top body r0 H0 k0) H k (g BStart) r)
      end
  end.
End Denote.

Definition top_handlers : handlers := gen_handlers.
Definition denote_top (body : stmt) : tin -> itree :=
  fun _ => dS true body env0 top_handlers (fun r => TDone VUndef r).

(* ---------------------------------------------------------------------------------------------- *)
(* The body language as an instance of Part 1: body states are (locals snapshot, continuation)      *)

Record cbody := mkCB { cb_snap : env; cb_k : tin -> itree }.
Definition dead_k : tin -> itree := fun _ => TDone VUndef [].

Fixpoint conv (t : itree) : btree val cbody iobj val :=
  match t with
  | TDone v r => BDone v (mkCB r dead_k)
  | TThrew e r => BThrew e (mkCB r dead_k)
  | TYield v w r k => BYield v w (mkCB r k)
  | TYieldStar s w r k => BYieldStar s w (mkCB r k)
  | TEmit ev t' => BEmit ev (conv t')
  | TReent c kk => BReent c (fun a => conv (kk a))
  end.
Definition c_bstep (b : cbody) (i : tin) : btree val cbody iobj val := conv (cb_k b i).

(* one method call on an inner iterator object.  An inner generator is running during the call, and so is the
   top-level generator that delegates to it: a call it makes on the top generator is answered per
   GeneratorValidate with a TypeError. *)
Fixpoint conv_i (t : itree) : icall val iobj val :=
  match t with
  | TDone v _ => IRes true v IGenDone
  | TThrew e _ => IErr e
  | TYield v _ _ k => IRes false v (IGenSusp k)
  | TYieldStar _ _ _ _ => IErr VTypeErr
  | TEmit ev t' => IEmit ev (conv_i t')
  | TReent c kk => conv_i (kk (CErr VTypeErr))
  end.
Definition c_istep (o : iobj) (m : imeth) (arg : val) : icall val iobj val :=
  match o with
  | IHand h pos =>
      let (ev, hr) := hand_call h pos m arg in
      IEmit ev match hr with
               | HRes d v => IRes d v (IHand h (S pos))
               | HErr e => IErr e
               | HNon => INonObj
               end
  | IGenStart k =>
      match m with
      | INext => conv_i (k BStart)
      | IThrow => IErr arg
      | IReturn => IRes true arg IGenDone
      end
  | IGenSusp k =>
      match m with
      | INext => conv_i (k (BNext arg))
      | IThrow => conv_i (k (BThrow arg))
      | IReturn => conv_i (k (BReturn arg))
      end
  | IGenDone =>
      match m with
      | INext => IRes true VUndef IGenDone
      | IThrow => IErr arg
      | IReturn => IRes true arg IGenDone
      end
  end.
Definition c_has_meth (o : iobj) (m : imeth) : bool :=
  match o, m with
  | _, INext => true
  | IHand h _, IThrow => opt_some (h_throw h)
  | IHand h _, IReturn => opt_some (h_return h)
  | _, _ => true
  end.

Definition c_fuel : nat := 400.
Definition cg_call := @g_call val cbody iobj val VTypeErr VUndef c_bstep c_istep c_has_meth c_fuel.
Definition cs_call := @s_call val cbody iobj val VTypeErr VUndef c_bstep c_istep c_has_meth c_fuel.
Definition cg_init (body : stmt) := @ginit cbody iobj (mkCB env0 (denote_top body)).
Definition cs_init (body : stmt) := @sinit cbody iobj (mkCB env0 (denote_top body)).

(* --- async functions: the same body with await in place of yield; the i-th awaited promise is already settled
       as the i-th history element says (next v: fulfilled with v, throw e: rejected with e); afterwards
       fulfilled with 0.  Result: the log segments between awaits, and the final state of the promise. --- *)
Inductive afinal := AFulfilled (v : val) | ARejected (e : val).
Fixpoint arun (t : itree) (h : list (cmd val)) (cur : list val) : list (list val) * afinal :=
  match t with
  | TDone v _ => ([rev cur], AFulfilled v)
  | TThrew e _ => ([rev cur], ARejected e)
  | TEmit ev t' => arun t' h (ev :: cur)
  | TReent c kk => arun (kk (CErr VTypeErr)) h cur
  | TYieldStar _ _ _ k => arun (k (BThrow VTypeErr)) h cur
  | TYield v _ _ k =>
      let seg := rev (VArr [VInt 60; v] :: cur) in
      let '(i, h') := match h with
                      | RNext x :: h' => (BNext x, h')
                      | RThrow e :: h' => (BThrow e, h')
                      | RReturn x :: h' => (BNext x, h')
                      | [] => (BNext (VInt 0), [])
                      end in
      let (segs, f) := arun (k i) h' [] in (seg :: segs, f)
  end.
(* two async activations started one after the other; every await of a settled promise takes one job:
   the log is the round-robin interleaving of the segments *)
Fixpoint interleave (a b : list (list val)) (n : nat) : list val :=
  match n with
  | O => []
  | S n' =>
      match a, b with
      | [], [] => []
      | x :: a', [] => x ++ interleave a' [] n'
      | [], y :: b' => y ++ interleave [] b' n'
      | x :: a', y :: b' => x ++ y ++ interleave a' b' n'
      end
  end.

(* ---------------------------------------------------------------------------------------------- *)
(* A resumable small-step machine with an EXPLICIT continuation stack for the core of the body language
   (everything except for-of / yield*, whose inner generators are separate objects).  A suspended body is plain data:
   the locals and the list of frames; resumption pushes a value / a throw / a return into that data. *)

Inductive bop := BAdd | BCall | BArr | BObj | BTpl.
Definition bop_apply (o : bop) (a b : val) : option val * val :=
  match o with
  | BAdd => (None, vadd a b)
  | BCall => (Some (VArr [VInt 77; a; b]), vcall a b)
  | BArr => (None, VArr [a; b])
  | BObj => (None, VObj [a; b])
  | BTpl => (None, VTpl [a; b])
  end.

Inductive abrupt := AThrow (v : val) | AReturn (v : val) | ABreak | AContinue.

(* how suspended data is resumed: after a plain yield (value wanted or not), or inside a yield* (forward to the delegate) *)
Inductive rkind := RPlain (w : bool) | RStar.

Inductive frame :=
| FBinL (o : bop) (b : exp)          (* evaluating the left operand; b is still to be evaluated *)
| FBinR (o : bop) (va : val)         (* left operand evaluated to va (a partially evaluated expression) *)
| FYieldE | FYieldS                  (* the operand of a yield expression / yield statement is being evaluated *)
| FExprStmt | FAssign (x : nat) | FLog | FIf (a b : stmt) | FRet | FThrow
| FSeq (b : stmt)
| FLoop (n m x : nat) (body : stmt)  (* counted loop: m iterations remain *)
| FCatch (c : stmt)                  (* pending catch clause *)
| FFinally (f : stmt)                (* pending finally block *)
| FFinCompl (a : option abrupt)      (* a finally block is running; afterwards the saved completion continues *)
(* inner generators: a running inner generator occupies the frames ABOVE a boundary frame (its stack segment);
   when it suspends, its segment is cut off and stored inside a frame of the generator below *)
| FArgForOf (x : nat) (gbody body : stmt)      (* the argument of the inner generator of a for-of is being evaluated *)
| FArgStar (wants : bool) (gbody : stmt)       (* ... of a yield* *)
| FForOfB (x : nat) (body : stmt) (ro : env)   (* BOUNDARY: next() of a for-of runs the inner generator; ro = outer locals *)
| FCloseB (a : abrupt) (ro : env)              (* BOUNDARY: IteratorClose runs return() of the inner generator *)
| FStarB (retmode wants : bool) (ro : env)     (* BOUNDARY: yield* runs next/throw/return of the delegate *)
| FForOfS (x : nat) (body : stmt) (rk : rkind) (ri : env) (Ki : list frame)   (* loop body runs; (rk, ri, Ki) = suspended inner generator *)
| FStarS (wants : bool) (rk : rkind) (ri : env) (Ki : list frame).            (* suspended inside yield*; the suspended delegate *)

Inductive control :=
| CE (e : exp) | CS (s : stmt) | CVal (v : val) | CNorm | CAbr (a : abrupt) | CEmitThen (ev : val)
| CYielding (v : val) (w : bool) (rk : rkind)       (* a yield is looking for its consumer *)
| CResume (rk : rkind) (i : tin).                   (* suspended data is being resumed with input i *)
Definition config := (control * env * list frame)%type.

Inductive mout :=
| OTau (c : config) | OEmit (ev : val) (c : config)
| OYield (v : val) (w : bool) (rk : rkind) (r : env) (K : list frame)   (* SUSPENDED: (rk, r, K) is all that is kept *)
| OReent (c : cmd val) (k : callres val -> config)
| OFinDone (v : val) (r : env) | OFinThrew (e : val) (r : env)
| OStuck.                                                              (* ill-formed configuration / outside the fragment *)

Definition enc_callres (a : callres val) : val :=
  match a with CRes v d => VArr [VInt 90; v; b2v d] | CErr e => VArr [VInt 91; e] end.

Definition is_boundary (f : frame) : bool :=
  match f with FForOfB _ _ _ | FCloseB _ _ | FStarB _ _ _ => true | _ => false end.
(* the segment of the running generator: the frames above the first boundary *)
Fixpoint split_b (K : list frame) : option (list frame * frame * list frame) :=
  match K with
  | [] => None
  | f :: K' =>
      if is_boundary f then Some ([], f, K')
      else match split_b K' with Some (a, b, c) => Some (f :: a, b, c) | None => None end
  end.

(* how IteratorClose of a for-of continues: the loop's own completion a, unless return() threw *)
Definition close_ok (a : abrupt) : control := match a with ABreak => CNorm | _ => CAbr a end.
Definition close_err (a : abrupt) (e : val) : control :=
  match a with AThrow e0 => CAbr (AThrow e0) | _ => CAbr (AThrow e) end.

Definition mstep (c : config) : mout :=
  let '(ctl, r, K) := c in
  match ctl with
  | CE e =>
      match e with
      | EConst z => OTau (CVal (VInt z), r, K)
      | EVar x => OTau (CVal (getv r x), r, K)
      | EAdd a b => OTau (CE a, r, FBinL BAdd b :: K)
      | ECall a b | ECallSpread a b => OTau (CE a, r, FBinL BCall b :: K)
      | EArr a b => OTau (CE a, r, FBinL BArr b :: K)
      | EObj a b => OTau (CE a, r, FBinL BObj b :: K)
      | ETpl a b => OTau (CE a, r, FBinL BTpl b :: K)
      | EYield a => OTau (CE a, r, FYieldE :: K)
      | EAwaitBad z => OEmit (VArr [VInt 61; VInt z]) (CAbr (AThrow (VInt z)), r, K)
      | EYieldStar SrcBad => OTau (CAbr (AThrow VTypeErr), r, K)
      | EYieldStar (SrcGen arg gbody) => OTau (CE arg, r, FArgStar true gbody :: K)
      | EYieldStar (SrcHand _) => OStuck
      end
  | CS s =>
      match s with
      | SSkip => OTau (CNorm, r, K)
      | SExpr e => OTau (CE e, r, FExprStmt :: K)
      | SYield a => OTau (CE a, r, FYieldS :: K)
      | SAssign x e | SDestr x e => OTau (CE e, r, FAssign x :: K)
      | SLog e => OTau (CE e, r, FLog :: K)
      | SLogLocals => OEmit (VArr [VInt 80; getv r 0; getv r 1; getv r 2]) (CNorm, r, K)
      | SSeq a b => OTau (CS a, r, FSeq b :: K)
      | SIf c a b => OTau (CE c, r, FIf a b :: K)
      | SRepeat n x body => OTau (CNorm, r, FLoop n n x body :: K)
      | STryCatch b c => OTau (CS b, r, FCatch c :: K)
      | STryFinally b f => OTau (CS b, r, FFinally f :: K)
      | STryCF b c f => OTau (CS b, r, FCatch c :: FFinally f :: K)
      | SReturn e => OTau (CE e, r, FRet :: K)
      | SThrow e => OTau (CE e, r, FThrow :: K)
      | SBreak => OTau (CAbr ABreak, r, K)
      | SContinue => OTau (CAbr AContinue, r, K)
      | SReenter c => OReent c (fun a => (CEmitThen (enc_callres a), r, K))
      | SYieldStar SrcBad => OTau (CAbr (AThrow VTypeErr), r, K)
      | SYieldStar (SrcGen arg gbody) => OTau (CE arg, r, FArgStar false gbody :: FExprStmt :: K)
      | SYieldStar (SrcHand _) => OStuck
      | SForOf x SrcBad body => OTau (CAbr (AThrow VTypeErr), r, K)
      | SForOf x (SrcGen arg gbody) body => OTau (CE arg, r, FArgForOf x gbody body :: K)
      | SForOf x (SrcHand _) body => OStuck
      end
  | CEmitThen ev => OEmit ev (CNorm, r, K)
  | CResume rk i =>
      match rk with
      | RPlain w =>
          match i with
          | BStart => OTau ((if w then CVal VUndef else CNorm), r, K)
          | BNext x => OTau ((if w then CVal x else CNorm), r, K)
          | BThrow x | BIterFail x => OTau (CAbr (AThrow x), r, K)
          | BReturn x => OTau (CAbr (AReturn x), r, K)
          end
      | RStar =>     (* 14.4.14: forward the completion to the delegate *)
          match K with
          | FStarS wants rk' ri Ki :: K' =>
              match i with
              | BStart => OTau (CResume rk' (BNext VUndef), ri, Ki ++ FStarB false wants r :: K')
              | BNext x => OTau (CResume rk' (BNext x), ri, Ki ++ FStarB false wants r :: K')
              | BThrow x | BIterFail x => OTau (CResume rk' (BThrow x), ri, Ki ++ FStarB false wants r :: K')
              | BReturn x => OTau (CResume rk' (BReturn x), ri, Ki ++ FStarB true wants r :: K')
              end
          | _ => OStuck
          end
      end
  | CYielding v w rk =>
      match split_b K with
      | None => OYield v w rk r K                              (* the top-level generator: to the driver *)
      | Some (Ki, B, K') =>                                    (* an inner generator: cut its segment Ki off *)
          match B with
          | FForOfB x body ro => OTau (CS body, upd x v ro, FForOfS x body rk r Ki :: K')
          | FCloseB a ro => OTau (close_ok a, ro, K')          (* return() answered {done:false}: an object; ignored *)
          | FStarB _ wants ro => OTau (CYielding v wants RStar, ro, FStarS wants rk r Ki :: K')
          | _ => OStuck
          end
      end
  | CVal v =>
      match K with
      | [] => OStuck
      | f :: K' =>
          match f with
          | FBinL o b => OTau (CE b, r, FBinR o v :: K')
          | FBinR o va =>
              match bop_apply o va v with
              | (Some ev, res) => OEmit ev (CVal res, r, K')
              | (None, res) => OTau (CVal res, r, K')
              end
          | FYieldE => OTau (CYielding v true (RPlain true), r, K')
          | FYieldS => OTau (CYielding v false (RPlain false), r, K')
          | FExprStmt => OTau (CNorm, r, K')
          | FAssign x => OTau (CNorm, upd x v r, K')
          | FLog => OEmit v (CNorm, r, K')
          | FIf a b => OTau (CS (if truthy v then a else b), r, K')
          | FRet => OTau (CAbr (AReturn v), r, K')
          | FThrow => OTau (CAbr (AThrow v), r, K')
          | FArgForOf x gbody body => OTau (CS gbody, upd 0 v env0, FForOfB x body r :: K')
          | FArgStar wants gbody => OTau (CS gbody, upd 0 v env0, FStarB false wants r :: K')
          | _ => OStuck
          end
      end
  | CNorm =>
      match K with
      | [] => OFinDone VUndef r
      | f :: K' =>
          match f with
          | FSeq b => OTau (CS b, r, K')
          | FLoop n m x body =>
              match m with
              | O => OTau (CNorm, r, K')
              | S m' => OTau (CS body, upd x (VInt (Z.of_nat (n - m))) r, FLoop n m' x body :: K')
              end
          | FCatch _ => OTau (CNorm, r, K')
          | FFinally f' => OTau (CS f', r, FFinCompl None :: K')
          | FFinCompl None => OTau (CNorm, r, K')
          | FFinCompl (Some a) => OTau (CAbr a, r, K')
          (* the inner generator fell off its end: {value: undefined, done: true} *)
          | FForOfB _ _ ro => OTau (CNorm, ro, K')
          | FCloseB a ro => OTau (close_ok a, ro, K')
          | FStarB retmode _ ro => OTau ((if retmode then CAbr (AReturn VUndef) else CVal VUndef), ro, K')
          (* the loop body completed: next() on the suspended inner generator *)
          | FForOfS x body rk ri Ki => OTau (CResume rk (BNext VUndef), ri, Ki ++ FForOfB x body r :: K')
          | _ => OStuck
          end
      end
  | CAbr a =>
      match K with
      | [] =>
          match a with
          | AThrow e => OFinThrew e r
          | AReturn v => OFinDone v r
          | _ => OFinDone VUndef r
          end
      | f :: K' =>
          match f with
          | FCatch c => match a with AThrow e => OTau (CS c, upd 3 e r, K') | _ => OTau (CAbr a, r, K') end
          | FFinally f' => OTau (CS f', r, FFinCompl (Some a) :: K')
          | FLoop n m x body =>
              match a with
              | ABreak => OTau (CNorm, r, K')
              | AContinue => OTau (CNorm, r, FLoop n m x body :: K')
              | _ => OTau (CAbr a, r, K')
              end
          (* the inner generator completed abruptly: threw, or returned a value *)
          | FForOfB _ _ ro => match a with AThrow e => OTau (CAbr (AThrow e), ro, K') | _ => OTau (CNorm, ro, K') end
          | FCloseB a0 ro => match a with AThrow e => OTau (close_err a0 e, ro, K') | _ => OTau (close_ok a0, ro, K') end
          | FStarB retmode _ ro =>
              match a with
              | AThrow e => OTau (CAbr (AThrow e), ro, K')
              | AReturn v => OTau ((if retmode then CAbr (AReturn v) else CVal v), ro, K')
              | _ => OTau ((if retmode then CAbr (AReturn VUndef) else CVal VUndef), ro, K')
              end
          (* the loop body completed abruptly: continue = next(); otherwise IteratorClose *)
          | FForOfS x body rk ri Ki =>
              match a with
              | AContinue => OTau (CResume rk (BNext VUndef), ri, Ki ++ FForOfB x body r :: K')
              | _ => OTau (CResume rk (BReturn VUndef), ri, Ki ++ FCloseB a r :: K')
              end
          | FStarS _ _ _ _ => OStuck
          | _ => OTau (CAbr a, r, K')
          end
      end
  end.

(* resuming suspended data (rk, r, K) with input i *)
Definition resume_cfg (rk : rkind) (r : env) (K : list frame) (i : tin) : config := (CResume rk i, r, K).

Definition mload (s : stmt) : config := (CS s, env0, []).

(* the fragment covered by the machine: everything except hand-written iterators as for-of / yield* operands *)
Fixpoint coreE (e : exp) : bool :=
  match e with
  | EConst _ | EVar _ | EAwaitBad _ => true
  | EAdd a b | ECall a b | ECallSpread a b | EArr a b | EObj a b | ETpl a b => coreE a && coreE b
  | EYield a => coreE a
  | EYieldStar s => coreSrc s
  end
with coreSrc (s : src) : bool :=
  match s with
  | SrcGen arg body => coreE arg && coreS body
  | SrcHand _ => false
  | SrcBad => true
  end
with coreS (s : stmt) : bool :=
  match s with
  | SSkip | SLogLocals | SBreak | SContinue | SReenter _ => true
  | SExpr e | SYield e | SAssign _ e | SDestr _ e | SLog e | SReturn e | SThrow e => coreE e
  | SSeq a b | STryCatch a b | STryFinally a b => coreS a && coreS b
  | SIf c a b => coreE c && coreS a && coreS b
  | SRepeat _ _ b => coreS b
  | STryCF a b c => coreS a && coreS b && coreS c
  | SYieldStar s' => coreSrc s'
  | SForOf _ s' b => coreSrc s' && coreS b
  end.

(* driving: one activation up to the next suspension / completion; a call of the body on its own generator is
   answered with a TypeError (the generator is executing) *)
Inductive mleaf := MLYield (v : val) (w : bool) (rk : rkind) (r : env) (K : list frame) | MLDone (v : val) (r : env) | MLThrew (e : val) (r : env).
Fixpoint mrun (fuel : nat) (c : config) : option (list val * mleaf) :=
  match fuel with
  | O => None
  | S fuel' =>
      match mstep c with
      | OTau c' => mrun fuel' c'
      | OEmit ev c' => match mrun fuel' c' with Some (l, lf) => Some (ev :: l, lf) | None => None end
      | OYield v w rk r K => Some ([], MLYield v w rk r K)
      | OReent _ k => mrun fuel' (k (CErr VTypeErr))
      | OFinDone v r => Some ([], MLDone v r)
      | OFinThrew e r => Some ([], MLThrew e r)
      | OStuck => None
      end
  end.

Inductive tleaf := TLYield (v : val) (w : bool) (r : env) (k : tin -> itree) | TLDone (v : val) (r : env) | TLThrew (e : val) (r : env).
Fixpoint trun (t : itree) : list val * tleaf :=
  match t with
  | TDone v r => ([], TLDone v r)
  | TThrew e r => ([], TLThrew e r)
  | TYield v w r k => ([], TLYield v w r k)
  | TYieldStar _ _ r _ => ([], TLThrew VTypeErr r)
  | TEmit ev t' => let (l, lf) := trun t' in (ev :: l, lf)
  | TReent _ k => trun (k (CErr VTypeErr))
  end.

(* what a driver sees of one activation: the log, how it ended, the locals *)
Inductive wobs := WYield (l : list val) (v : val) (r : env) | WDone (l : list val) (v : val) (r : env) | WThrew (l : list val) (e : val) (r : env).

(* direct evaluation: each yield of the tree is answered by the next element of h *)
Fixpoint twalk (h : list tin) (t : itree) : list wobs :=
  let (l, lf) := trun t in
  match lf with
  | TLDone v r => [WDone l v r]
  | TLThrew e r => [WThrew l e r]
  | TLYield v w r k =>
      WYield l v r :: match h with [] => [] | i :: h' => twalk h' (k i) end
  end.
(* the machine: suspend to data at each yield, resume the data with the next element of h *)
Fixpoint mwalk (fuel : nat) (h : list tin) (c : config) : option (list wobs) :=
  match mrun fuel c with
  | None => None
  | Some (l, MLDone v r) => Some [WDone l v r]
  | Some (l, MLThrew e r) => Some [WThrew l e r]
  | Some (l, MLYield v w rk r K) =>
      match h with
      | [] => Some [WYield l v r]
      | i :: h' => match mwalk fuel h' (resume_cfg rk r K i) with Some os => Some (WYield l v r :: os) | None => None end
      end
  end.
