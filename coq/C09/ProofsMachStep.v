From Coq Require Import List ZArith Bool Lia.
Import ListNotations.
From Verif.C09 Require Import Model.

Definition app_tail (T : list frame) (c : config) : config := let '(ctl, r, K) := c in (ctl, r, K ++ T).

Lemma split_b_app K T Ki B K' : split_b K = Some (Ki, B, K') -> split_b (K ++ T) = Some (Ki, B, K' ++ T).
Proof.
  revert Ki B K'. induction K as [|f K IH]; simpl; intros Ki B K' E; [discriminate|].
  destruct (is_boundary f).
  - inversion E; subst. reflexivity.
  - destruct (split_b K) as [[[a b] c]|] eqn:E0; [|discriminate]. inversion E; subst.
    rewrite (IH _ _ _ eq_refl). reflexivity.
Qed.
Lemma split_b_none_app K B T : split_b K = None -> is_boundary B = true -> split_b (K ++ B :: T) = Some (K, B, T).
Proof.
  induction K as [|f K IH]; simpl; intros E HB.
  - rewrite HB. reflexivity.
  - destruct (is_boundary f); [discriminate|]. destruct (split_b K) as [[[a b] c]|]; [discriminate|].
    rewrite IH; auto.
Qed.

Ltac brk :=
  repeat match goal with
  | H : match ?x with _ => _ end = _ |- _ => destruct x eqn:?; simpl in *; try discriminate
  | H : (let (_, _) := ?x in _) = _ |- _ => destruct x eqn:?; simpl in *; try discriminate
  end.

Lemma step_ext_tau ctl r K T c' :
  mstep (ctl, r, K) = OTau c' -> mstep (ctl, r, K ++ T) = OTau (app_tail T c').
Proof.
  intros E. destruct ctl.
  - simpl in *. brk; inversion E; subst; reflexivity.
  - simpl in *. brk; inversion E; subst; reflexivity.
  - destruct K as [|f K']; simpl in *; [discriminate|]. destruct f; simpl in *; try discriminate; brk;
      inversion E; subst; try reflexivity.
  - destruct K as [|f K']; simpl in *; [discriminate|]. destruct f; simpl in *; try discriminate; brk;
      inversion E; subst; simpl; rewrite <- ?app_assoc; try reflexivity.
  - destruct K as [|f K']; simpl in *; [brk|]. destruct f; simpl in *; try discriminate; brk;
      inversion E; subst; simpl; rewrite <- ?app_assoc; try reflexivity.
  - simpl in *. discriminate.
  - simpl in *. destruct (split_b K) as [[[Ki B] K']|] eqn:Es; [|discriminate].
    rewrite (split_b_app _ T _ _ _ Es). destruct B; try discriminate; inversion E; subst; reflexivity.
  - simpl in *. destruct rk.
    + brk; inversion E; subst; reflexivity.
    + destruct K as [|f K']; [discriminate|]. destruct f; try discriminate. simpl.
      brk; inversion E; subst; simpl; rewrite <- app_assoc; reflexivity.
Qed.

Lemma step_ext_emit ctl r K T ev c' :
  mstep (ctl, r, K) = OEmit ev c' -> mstep (ctl, r, K ++ T) = OEmit ev (app_tail T c').
Proof.
  intros E. destruct ctl.
  - simpl in *. brk; inversion E; subst; reflexivity.
  - simpl in *. brk; inversion E; subst; reflexivity.
  - destruct K as [|f K']; simpl in *; [discriminate|]. destruct f; simpl in *; try discriminate; brk;
      inversion E; subst; try reflexivity.
  - destruct K as [|f K']; simpl in *; [discriminate|]. destruct f; simpl in *; try discriminate; brk.
  - destruct K as [|f K']; simpl in *; [brk|]. destruct f; simpl in *; try discriminate; brk.
  - simpl in *. inversion E; subst. reflexivity.
  - simpl in *. destruct (split_b K) as [[[Ki B] K']|] eqn:Es; [|discriminate]. destruct B; discriminate.
  - simpl in *. destruct rk; brk.
Qed.

Lemma step_ext_reent ctl r K T cm kc :
  mstep (ctl, r, K) = OReent cm kc ->
  exists kc', mstep (ctl, r, K ++ T) = OReent cm kc' /\ forall a, kc' a = app_tail T (kc a).
Proof.
  intros E. destruct ctl.
  - simpl in *. brk.
  - simpl in *. brk; try discriminate E; injection E as E1 E2; subst; eexists; (split; [reflexivity|]); intros a; reflexivity.
  - destruct K as [|f K']; simpl in *; [discriminate|]. destruct f; simpl in *; try discriminate; brk.
  - destruct K as [|f K']; simpl in *; [discriminate|]. destruct f; simpl in *; try discriminate; brk.
  - destruct K as [|f K']; simpl in *; [brk|]. destruct f; simpl in *; try discriminate; brk.
  - simpl in *. discriminate.
  - simpl in *. destruct (split_b K) as [[[Ki B] K']|] eqn:Es; [|discriminate]. destruct B; discriminate.
  - simpl in *. destruct rk; brk.
Qed.

(* which configurations end an activation *)
Lemma step_done_inv ctl r K v r' :
  mstep (ctl, r, K) = OFinDone v r' ->
  K = [] /\ r' = r /\ ((ctl = CNorm /\ v = VUndef) \/ ctl = CAbr (AReturn v) \/
                      (ctl = CAbr ABreak /\ v = VUndef) \/ (ctl = CAbr AContinue /\ v = VUndef)).
Proof.
  intros E. destruct ctl.
  - simpl in *. brk; try discriminate E.
  - simpl in *. brk; try discriminate E.
  - destruct K as [|f K']; simpl in *; [discriminate E|]. destruct f; brk; try discriminate E.
  - destruct K as [|f K']; simpl in *.
    + inversion E; subst. intuition auto.
    + destruct f; brk; try discriminate E.
  - destruct K as [|f K']; simpl in *.
    + destruct a; inversion E; subst; intuition auto.
    + destruct f; brk; try discriminate E.
  - simpl in *. discriminate E.
  - simpl in *. destruct (split_b K) as [[[Ki B] K']|]; [destruct B|]; discriminate E.
  - simpl in *. destruct rk; brk; try discriminate E.
Qed.
Lemma step_threw_inv ctl r K e r' :
  mstep (ctl, r, K) = OFinThrew e r' -> K = [] /\ r' = r /\ ctl = CAbr (AThrow e).
Proof.
  intros E. destruct ctl.
  - simpl in *. brk; try discriminate E.
  - simpl in *. brk; try discriminate E.
  - destruct K as [|f K']; simpl in *; [discriminate E|]. destruct f; brk; try discriminate E.
  - destruct K as [|f K']; simpl in *; [discriminate E|]. destruct f; brk; try discriminate E.
  - destruct K as [|f K']; simpl in *.
    + destruct a; inversion E; subst; intuition auto.
    + destruct f; brk; try discriminate E.
  - simpl in *. discriminate E.
  - simpl in *. destruct (split_b K) as [[[Ki B] K']|]; [destruct B|]; discriminate E.
  - simpl in *. destruct rk; brk; try discriminate E.
Qed.
Lemma step_yield_inv ctl r K v w rk r' K' :
  mstep (ctl, r, K) = OYield v w rk r' K' -> ctl = CYielding v w rk /\ r' = r /\ K' = K /\ split_b K = None.
Proof.
  intros E. destruct ctl.
  - simpl in *. brk; try discriminate E.
  - simpl in *. brk; try discriminate E.
  - destruct K as [|f K0]; simpl in *; [discriminate E|]. destruct f; brk; try discriminate E.
  - destruct K as [|f K0]; simpl in *; [discriminate E|]. destruct f; brk; try discriminate E.
  - destruct K as [|f K0]; simpl in *; [brk; try discriminate E|]. destruct f; brk; try discriminate E.
  - simpl in *. discriminate E.
  - simpl in *. destruct (split_b K) as [[[Ki B] K0]|] eqn:Es; [destruct B; discriminate E|]. inversion E; subst. intuition auto.
  - simpl in *. destruct rk; brk; try discriminate E.
Qed.
