(* C09 — proofs about the stack-segment suspend/resume model (Model.v part 2). *)
From Coq Require Import List ZArith Bool Lia Arith.
Import ListNotations.
From Verif.C09 Require Import Model.

Section SegProofs.
Context {Val IterItem RefItem Payload : Type}.
Local Open Scope Z_scope.
Notation vmst := (vmst Val IterItem RefItem Payload).
Notation ectx := (ectx Val IterItem RefItem Payload).
Notation tframe := (tframe Payload).

Lemma skipn_app_exact {A} (l1 l2 : list A) : skipn (length l1) (l1 ++ l2) = l2.
Proof. induction l1; simpl; auto. Qed.
Lemma firstn_app_exact {A} (l1 l2 : list A) : firstn (length l1) (l1 ++ l2) = l1.
Proof. induction l1; simpl; auto. f_equal; auto. Qed.
Lemma skipn_ge_nil {A} (l : list A) n : (length l <= n)%nat -> skipn n l = [].
Proof. intros. apply skipn_all2; auto. Qed.
Lemma firstn_ge_all {A} (l : list A) n : (length l <= n)%nat -> firstn n l = l.
Proof. intros. apply firstn_all2; auto. Qed.

(* the three auxiliary slices, whichever branch of the `if len(...) > mark` guards is taken *)
Lemma cut_eq {A} (l : list A) n :
  (n <= length l)%nat ->
  (if Nat.ltb n (length l) then (skipn n l, firstn n l) else ([], l)) = (skipn n l, firstn n l).
Proof.
  intros. destruct (Nat.ltb n (length l)) eqn:E; auto.
  apply Nat.ltb_ge in E. rewrite skipn_ge_nil, firstn_ge_all by lia. reflexivity.
Qed.

Lemma vm_suspend_eq (st : vmst) m :
  (m_try m <= length (tryS st))%nat -> (m_iter m <= length (iterS st))%nat -> (m_ref m <= length (refS st))%nat ->
  vm_suspend st m =
  (mkVM (stack st) (sb st) (firstn (m_try m) (tryS st)) (firstn (m_iter m) (iterS st)) (firstn (m_ref m) (refS st)) (callD st),
   mkCtx (skipn (Z.to_nat (sb st - 1)) (stack st))
         (map (fun tf => mkTF (tf_call tf) (tf_iter tf - Z.of_nat (m_iter m)) (tf_ref tf - Z.of_nat (m_ref m))
                              (tf_sp tf - (sb st - 1)) (tf_pay tf)) (skipn (m_try m) (tryS st)))
         (skipn (m_iter m) (iterS st)) (skipn (m_ref m) (refS st))).
Proof.
  intros Ht Hi Hr. unfold vm_suspend.
  rewrite (cut_eq (iterS st)), (cut_eq (refS st)) by auto.
  destruct (Nat.ltb (m_try m) (length (tryS st))) eqn:E; auto.
  apply Nat.ltb_ge in E. rewrite (skipn_ge_nil (tryS st)), (firstn_ge_all (tryS st)) by lia. reflexivity.
Qed.

Definition marker_frame (marker : Payload) (st : vmst) : tframe :=
  mkTF (callD st + 1) (zlen (iterS st)) (zlen (refS st)) (sp st) marker.

Theorem suspend_resume_roundtrip : forall (marker : Payload) (st : vmst) (m : marks) (st' : vmst),
  SegWf st m ->
  let '(st1, c) := gen_suspend st m in
  let '(st2, m2) := gen_enter_next marker st' c in
  (* the segment reappears at the new base, every saved offset shifted by exactly the base difference *)
  segment st2 m2 =
    shift_segment ((sb st2 - 1) - (sb st - 1)) (Z.of_nat (m_iter m2) - Z.of_nat (m_iter m))
                  (Z.of_nat (m_ref m2) - Z.of_nat (m_ref m)) (callD st2 - callD st) (segment st m)
  (* nothing below the new base changed (the caller's state, plus the panic-marker frame of enterNext) *)
  /\ firstn (Z.to_nat (sb st2 - 1)) (stack st2) = stack st'
  /\ firstn (m_try m2) (tryS st2) = tryS st' ++ [marker_frame marker st']
  /\ firstn (m_iter m2) (iterS st2) = iterS st'
  /\ firstn (m_ref m2) (refS st2) = refS st'
  /\ callD st2 = callD st' + 2
  (* and what the suspension left behind is exactly what was below the old base *)
  /\ stack st1 = firstn (Z.to_nat (sb st - 1)) (stack st)
  /\ tryS st1 = firstn (m_try m) (tryS st) /\ iterS st1 = firstn (m_iter m) (iterS st)
  /\ refS st1 = firstn (m_ref m) (refS st) /\ callD st1 = callD st - 1.
Proof.
  intros marker st m st' (Hsb & Hsp & Ht & Hi & Hr & Hcall).
  unfold gen_suspend. rewrite vm_suspend_eq by auto. unfold gen_enter_next, vm_resume, sp. cbn [gen_enter_next vm_resume stack sb tryS iterS refS callD
    c_stack c_try c_iter c_ref sp].
  unfold segment, shift_segment. cbn [stack sb tryS iterS refS callD m_try m_iter m_ref].
  assert (Hb : Z.to_nat (Z.of_nat (length (stack st')) + 1 - 1) = length (stack st')) by lia.
  rewrite Hb.
  repeat split.
  - rewrite skipn_app_exact.
    replace (length (tryS st' ++ [mkTF (callD st' + 1) (zlen (iterS st')) (zlen (refS st')) (Z.of_nat (length (stack st'))) marker]))
      with (length (tryS st' ++ [marker_frame marker st'])) by (rewrite !app_length; reflexivity).
    rewrite (skipn_app_exact (tryS st' ++ [marker_frame marker st'])).
    rewrite (skipn_app_exact (iterS st')), (skipn_app_exact (refS st')).
    f_equal. f_equal. f_equal.
    rewrite map_map. apply map_ext_in. intros tf Hin.
    rewrite Forall_forall in Hcall. specialize (Hcall tf Hin).
    unfold shift_frame, zlen. cbn [tf_call tf_iter tf_ref tf_sp tf_pay]. f_equal; lia.
  - apply firstn_app_exact.
  - apply (firstn_app_exact (tryS st' ++ [marker_frame marker st'])).
  - apply firstn_app_exact.
  - apply firstn_app_exact.
Qed.

(* Suspending right after resuming gives the saved context back (its offsets are base-independent):
   everything except the call depth recorded in the frames, which resume overwrites. *)
Definition forget_call (c : ectx) : ectx :=
  mkCtx (c_stack c) (map (fun tf => mkTF 0 (tf_iter tf) (tf_ref tf) (tf_sp tf) (tf_pay tf)) (c_try c)) (c_iter c) (c_ref c).

Theorem resume_suspend_is_identity : forall (marker : Payload) (st' : vmst) (c : ectx),
  let '(st2, m2) := gen_enter_next marker st' c in
  forget_call (snd (gen_suspend st2 m2)) = forget_call c.
Proof.
  intros marker st' c. unfold gen_enter_next, vm_resume, sp. unfold gen_suspend.
  rewrite vm_suspend_eq; cbn [vm_resume stack sb tryS iterS refS callD m_try m_iter m_ref sp];
    try (rewrite !app_length; lia).
  cbn [snd]. unfold forget_call. cbn [c_stack c_try c_iter c_ref].
  assert (Hb : Z.to_nat (Z.of_nat (length (stack st')) + 1 - 1) = length (stack st')) by lia.
  rewrite Hb, skipn_app_exact.
  rewrite (skipn_app_exact (tryS st' ++ [_])), (skipn_app_exact (iterS st')), (skipn_app_exact (refS st')).
  f_equal. rewrite !map_map. apply map_ext. intros tf. unfold zlen. cbn. f_equal; lia.
Qed.

End SegProofs.

(* non-vacuity: a suspended body with one pending try frame (above the marker frame), one live iterator and three
   operands, resumed 5 slots higher, with 2 more iterators and 1 more reference below it, 3 calls deeper *)
Example roundtrip_example :
  let st := mkVM [10; 11; 12; 13; 14]%nat 3 [mkTF 2 0 0 1 0%nat; mkTF 2 1 0 4 7%nat] [20; 21]%nat (@nil nat) 2 in
  let m := mkMarks 1 1 0 in
  let st' := mkVM [0; 1; 2; 3; 4; 5; 6]%nat 2 (@nil (tframe nat)) [30; 31; 32]%nat [40]%nat 5 in
  SegWf st m /\
  let '(_, c) := gen_suspend st m in
  let '(st2, m2) := gen_enter_next 0%nat st' c in
  segment st2 m2 = ([12; 13; 14]%nat, [mkTF 7 3 1 9 7%nat], [21]%nat, @nil nat).
Proof.
  split.
  - unfold SegWf; cbn. repeat split; try lia. repeat constructor.
  - vm_compute. reflexivity.
Qed.
