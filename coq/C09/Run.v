(* C09 — executable instantiation used by the correspondence check (no proofs). *)
From Coq Require Import List ZArith Bool.
Import ListNotations.
From Verif.C09 Require Export Model.

(* numerals of the generated case terms are read in the right scope without annotations *)
Arguments VInt z%Z_scope.
Arguments EConst z%Z_scope.
Arguments EAwaitBad z%Z_scope.
Arguments mkHand h_n%nat_scope h_base%Z_scope h_ret%Z_scope h_throw h_return h_next_bad.

Fixpoint val_eqb (a b : val) : bool :=
  match a, b with
  | VUndef, VUndef => true
  | VTypeErr, VTypeErr => true
  | VInt x, VInt y => Z.eqb x y
  | VArr l, VArr m | VObj l, VObj m | VTpl l, VTpl m =>
      (fix go (l m : list val) : bool :=
         match l, m with
         | [], [] => true
         | x :: l', y :: m' => val_eqb x y && go l' m'
         | _, _ => false
         end) l m
  | _, _ => false
  end.
Fixpoint vals_eqb (l m : list val) : bool :=
  match l, m with
  | [], [] => true
  | x :: l', y :: m' => val_eqb x y && vals_eqb l' m'
  | _, _ => false
  end.

(* one driver call as observed: the side-effect log during the call, the answer, the locals afterwards
   (peek = [] when the case does not observe locals) *)
Inductive obs1 := Obs (evs : list val) (res : result val) (peek : list val).

Inductive tcase :=
| CGen (body : stmt) (hist : list (cmd val)) (o : list obs1)
| CAsync (bodyA bodyB : stmt) (hA hB : list (cmd val)) (log : list val) (fA fB : afinal)
| CFail.

Definition res_eqb (a b : result val) : bool :=
  match a, b with
  | ORes v d, ORes v' d' => val_eqb v v' && Bool.eqb d d'
  | OThrow e, OThrow e' => val_eqb e e'
  | _, _ => false
  end.
Definition obs_eqb (a b : obs1) : bool :=
  match a, b with
  | Obs l r p, Obs l' r' p' =>
      vals_eqb l l' && res_eqb r r' && (match p with [] => true | _ => vals_eqb p p' end)
  end.
Fixpoint obss_eqb (a b : list obs1) : bool :=
  match a, b with
  | [], [] => true
  | x :: a', y :: b' => obs_eqb x y && obss_eqb a' b'
  | _, _ => false
  end.

Fixpoint grun (g : gobj cbody iobj) (h : list (cmd val)) : list obs1 :=
  match h with
  | [] => []
  | c :: h' => let '(l, g', o) := cg_call g c in Obs l o (cb_snap (gbody g')) :: grun g' h'
  end.
Fixpoint srun (s : sobj cbody iobj) (h : list (cmd val)) : list obs1 :=
  match h with
  | [] => []
  | c :: h' => let '(l, s', o) := cs_call s c in Obs l o (cb_snap (sbody s')) :: srun s' h'
  end.

Definition run_I (body : stmt) (h : list (cmd val)) := grun (cg_init body) h.
Definition run_S (body : stmt) (h : list (cmd val)) := srun (cs_init body) h.

Definition denote_async (body : stmt) : itree := dS false body env0 gen_handlers (fun r => TDone VUndef r).
Definition afinal_eqb (a b : afinal) : bool :=
  match a, b with
  | AFulfilled v, AFulfilled v' => val_eqb v v'
  | ARejected v, ARejected v' => val_eqb v v'
  | _, _ => false
  end.
Definition run_async (bA bB : stmt) (hA hB : list (cmd val)) : list val * afinal * afinal :=
  let (sa, fa) := arun (denote_async bA) hA [] in
  let (sb, fb) := arun (denote_async bB) hB [] in
  (interleave sa sb (length sa + length sb), fa, fb).

Definition check_case (c : tcase) : bool :=
  match c with
  | CGen body h o => obss_eqb o (run_S body h) && obss_eqb o (run_I body h)
  | CAsync bA bB hA hB log fA fB =>
      let '(l, a, b) := run_async bA bB hA hB in vals_eqb log l && afinal_eqb fA a && afinal_eqb fB b
  | CFail => false
  end.

Fixpoint mismatch_from (i : N) (cs : list tcase) : list N :=
  match cs with
  | [] => []
  | c :: r => if check_case c then mismatch_from (N.succ i) r else i :: mismatch_from (N.succ i) r
  end.
Definition mismatch_ids := mismatch_from 0%N.

Inductive expect :=
| XGen (spec : list obs1) (impl_model : list obs1)
| XAsync (log : list val) (fA fB : afinal)
| XNone.
Definition expected (c : tcase) : expect :=
  match c with
  | CGen body h _ => XGen (run_S body h) (run_I body h)
  | CAsync bA bB hA hB _ _ _ => let '(l, a, b) := run_async bA bB hA hB in XAsync l a b
  | CFail => XNone
  end.
