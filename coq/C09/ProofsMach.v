(* C09 — the explicit-stack machine of Model.v (suspended body = locals + frame list) agrees with the direct
   continuation-passing semantics, for every core body, every continuation stack, every resumption. *)
From Coq Require Import List ZArith Bool Lia.
Import ListNotations.
From Verif.C09 Require Import Model ProofsMachStep.

(* "the machine started in configuration c unfolds to the interaction tree t" *)
Inductive mtree : config -> itree -> Prop :=
| mt_tau c c' t : mstep c = OTau c' -> mtree c' t -> mtree c t
| mt_emit c ev c' t : mstep c = OEmit ev c' -> mtree c' t -> mtree c (TEmit ev t)
| mt_yield c v w rk r K k :
    mstep c = OYield v w rk r K -> (forall i, mtree (resume_cfg rk r K i) (k i)) -> mtree c (TYield v w r k)
| mt_reent c cm kc k : mstep c = OReent cm kc -> (forall a, mtree (kc a) (k a)) -> mtree c (TReent cm k)
| mt_done c v r : mstep c = OFinDone v r -> mtree c (TDone v r)
| mt_threw c e r : mstep c = OFinThrew e r -> mtree c (TThrew e r).

(* the frame stack K realises the abrupt-completion handlers H *)
Definition ARel (K : list frame) (H : handlers) : Prop :=
  forall r,
    (forall e, mtree (CAbr (AThrow e), r, K) (kt H e r)) /\
    (forall v, mtree (CAbr (AReturn v), r, K) (kr H v r)) /\
    mtree (CAbr ABreak, r, K) (kb H r) /\
    mtree (CAbr AContinue, r, K) (kc H r).

(* frames that every abrupt completion simply discards *)
Definition discardable (f : frame) : bool :=
  match f with
  | FCatch _ | FFinally _ | FLoop _ _ _ _ => false
  | FForOfB _ _ _ | FCloseB _ _ | FStarB _ _ _ | FForOfS _ _ _ _ _ | FStarS _ _ _ _ => false
  | _ => true
  end.

(* no boundary: the stack of a generator that is not an inner generator of a running for-of / yield* *)
Definition nb (K : list frame) : Prop := split_b K = None.
Lemma nb_push f K : is_boundary f = false -> nb K -> nb (f :: K).
Proof. unfold nb. intros Hf HK. simpl. rewrite Hf, HK. reflexivity. Qed.
Lemma nb_nil : nb []. Proof. reflexivity. Qed.
Local Hint Extern 1 (nb (_ :: _)) => apply nb_push; [reflexivity|] : core.
Local Hint Resolve nb_nil : core.

Lemma arel_push f K H : discardable f = true -> ARel K H -> ARel (f :: K) H.
Proof.
  intros D A r. destruct (A r) as (At & Ar & Ab & Ac).
  repeat split; intros; (eapply mt_tau; [ destruct f; simpl in *; try discriminate; reflexivity | auto ]).
Qed.

Lemma arel_nil : ARel [] gen_handlers.
Proof.
  intros r. repeat split; intros; try (apply mt_threw; reflexivity); apply mt_done; reflexivity.
Qed.


(* ---------- embedding: an inner generator's segment on top of a boundary ---------- *)
Definition kdone : env -> itree := fun r => TDone VUndef r.

Definition PSb (body : stmt) : Prop :=
  forall K H k, nb K -> ARel K H -> (forall r, mtree (CNorm, r, K) (k r)) ->
  forall r, mtree (CS body, r, K) (dS false body r H k).

(* if the machine with segment Kin alone unfolds to t (the inner generator's own tree), then the same segment placed
   on a boundary frame of an outer generator unfolds to what the outer generator makes of t *)
Definition EmbAll (ctl : control) (r : env) (Kin : list frame) (t : itree) : Prop :=
  (forall x body ro Kout H k, PSb body -> nb Kout -> ARel Kout H -> (forall r', mtree (CNorm, r', Kout) (k r')) ->
     mtree (ctl, r, Kin ++ FForOfB x body ro :: Kout)
           (forof_tree x (fun r0 H0 k0 => dS false body r0 H0 k0) H k t ro)) /\
  (forall a ro Kout ok err, mtree (close_ok a, ro, Kout) ok -> (forall e, mtree (close_err a e, ro, Kout) (err e)) ->
     mtree (ctl, r, Kin ++ FCloseB a ro :: Kout) (close_tree t ok err)) /\
  (forall retmode wants ro Kout H k, nb Kout -> ARel Kout H -> (forall v, mtree (CVal v, ro, Kout) (k v)) ->
     mtree (ctl, r, Kin ++ FStarB retmode wants ro :: Kout) (deleg_tree wants ro H k retmode t)).

Lemma embed_all : forall c t, mtree c t -> forall ctl r Kin, c = (ctl, r, Kin) -> EmbAll ctl r Kin t.
Proof.
  induction 1; intros ctl r0 Kin Ec; subst.
  - (* tau *)
    destruct c' as [[ctl' r'] K']. destruct (IHmtree _ _ _ eq_refl) as (I1 & I2 & I3).
    repeat split; intros.
    + eapply mt_tau; [apply step_ext_tau; eauto|]. simpl. apply I1; auto.
    + eapply mt_tau; [apply step_ext_tau; eauto|]. simpl. apply I2; auto.
    + eapply mt_tau; [apply step_ext_tau; eauto|]. simpl. apply I3; auto.
  - (* emit *)
    destruct c' as [[ctl' r'] K']. destruct (IHmtree _ _ _ eq_refl) as (I1 & I2 & I3).
    repeat split; intros; simpl.
    + eapply mt_emit; [apply step_ext_emit; eauto|]. simpl. apply I1; auto.
    + eapply mt_emit; [apply step_ext_emit; eauto|]. simpl. apply I2; auto.
    + eapply mt_emit; [apply step_ext_emit; eauto|]. simpl. apply I3; auto.
  - (* yield: the segment is cut off and stored in the outer generator *)
    apply step_yield_inv in H as (-> & -> & -> & Hnb).
    assert (IH : forall i, EmbAll (CResume rk i) r0 Kin (k i)) by (intros i; apply (H1 i); reflexivity).
    split; [|split].
    + (* for-of: run the loop body with the yielded value *)
      intros x body ro Kout Hh k0 HPS HN HA Hk0.
      eapply mt_tau. { simpl. rewrite (split_b_none_app Kin (FForOfB x body ro) Kout Hnb eq_refl). reflexivity. }
      simpl. apply HPS; auto.
      * intros r'. repeat split; intros; simpl.
        -- eapply mt_tau; [reflexivity|]. apply (proj1 (proj2 (IH (BReturn VUndef)))).
           ++ simpl. apply (HA r').
           ++ intros e0. simpl. apply (HA r').
        -- eapply mt_tau; [reflexivity|]. apply (proj1 (proj2 (IH (BReturn VUndef)))).
           ++ simpl. apply (HA r').
           ++ intros e0. simpl. apply (HA r').
        -- eapply mt_tau; [reflexivity|]. apply (proj1 (proj2 (IH (BReturn VUndef)))).
           ++ simpl. apply Hk0.
           ++ intros e0. simpl. apply (HA r').
        -- eapply mt_tau; [reflexivity|]. apply (proj1 (IH (BNext VUndef))); auto.
      * intros r'. eapply mt_tau; [reflexivity|]. apply (proj1 (IH (BNext VUndef))); auto.
    + (* IteratorClose: return() answered an object that is not done *)
      intros a ro Kout ok err Hok Herr.
      eapply mt_tau. { simpl. rewrite (split_b_none_app Kin (FCloseB a ro) Kout Hnb eq_refl). reflexivity. }
      simpl. assumption.
    + (* yield*: the outer generator yields the same value; its resumption is forwarded *)
      intros retmode wants ro Kout Hh k0 HN HA Hk0.
      eapply mt_tau. { simpl. rewrite (split_b_none_app Kin (FStarB retmode wants ro) Kout Hnb eq_refl). reflexivity. }
      simpl. eapply mt_yield.
      { simpl. unfold nb in HN. rewrite HN. reflexivity. }
      intros i. unfold resume_cfg.
      destruct i; (eapply mt_tau; [reflexivity|]); apply (proj2 (proj2 (IH _))); auto.
  - (* re-entrant call *)
    split; [|split].
    + intros x body ro Kout Hh k0 HPS HN HA Hk0. simpl.
      destruct (step_ext_reent _ _ _ (FForOfB x body ro :: Kout) _ _ H) as (kc' & E & Ek).
      eapply mt_reent; [exact E|]. intros a. rewrite Ek. destruct (kc a) as [[ctl' r'] K'] eqn:Ea.
      simpl. apply (proj1 (H1 a _ _ _ Ea)); auto.
    + intros a ro Kout ok err Hok Herr. simpl.
      destruct (step_ext_reent _ _ _ (FCloseB a ro :: Kout) _ _ H) as (kc' & E & Ek).
      eapply mt_reent; [exact E|]. intros a0. rewrite Ek. destruct (kc a0) as [[ctl' r'] K'] eqn:Ea.
      simpl. apply (proj1 (proj2 (H1 a0 _ _ _ Ea))); auto.
    + intros retmode wants ro Kout Hh k0 HN HA Hk0. simpl.
      destruct (step_ext_reent _ _ _ (FStarB retmode wants ro :: Kout) _ _ H) as (kc' & E & Ek).
      eapply mt_reent; [exact E|]. intros a. rewrite Ek. destruct (kc a) as [[ctl' r'] K'] eqn:Ea.
      simpl. apply (proj2 (proj2 (H1 a _ _ _ Ea))); auto.
  - (* the inner generator completed *)
    apply step_done_inv in H as (-> & -> & Hc).
    split; [|split].
    + intros x body ro Kout Hh k0 HPS HN HA Hk0. simpl.
      destruct Hc as [[-> ->]|[->|[[-> ->]|[-> ->]]]]; (eapply mt_tau; [reflexivity|]); auto.
    + intros a ro Kout ok err Hok Herr. simpl.
      destruct Hc as [[-> ->]|[->|[[-> ->]|[-> ->]]]]; (eapply mt_tau; [reflexivity|]); auto.
    + intros retmode wants ro Kout Hh k0 HN HA Hk0. simpl.
      destruct Hc as [[-> ->]|[->|[[-> ->]|[-> ->]]]]; (eapply mt_tau; [reflexivity|]);
        destruct retmode; simpl; auto; apply (HA ro).
  - (* the inner generator threw *)
    apply step_threw_inv in H as (-> & -> & ->).
    split; [|split].
    + intros x body ro Kout Hh k0 HPS HN HA Hk0. simpl. eapply mt_tau; [reflexivity|]. apply (HA ro).
    + intros a ro Kout ok err Hok Herr. simpl. eapply mt_tau; [reflexivity|]. auto.
    + intros retmode wants ro Kout Hh k0 HN HA Hk0. simpl. eapply mt_tau; [reflexivity|]. apply (HA ro).
Qed.

Scheme exp_mind := Induction for exp Sort Prop
  with src_mind := Induction for src Sort Prop
  with stmt_mind := Induction for stmt Sort Prop.
Combined Scheme lang_mutind from exp_mind, src_mind, stmt_mind.

Definition PE (e : exp) : Prop :=
  coreE e = true -> forall r K H k,
    nb K -> ARel K H -> (forall v, mtree (CVal v, r, K) (k v)) -> mtree (CE e, r, K) (dE false e r H k).
Definition PS (s : stmt) : Prop :=
  coreS s = true -> forall K H k,
    nb K -> ARel K H -> (forall r, mtree (CNorm, r, K) (k r)) -> forall r, mtree (CS s, r, K) (dS false s r H k).
Definition PSrc (s : src) : Prop :=
  match s with SrcGen arg body => PE arg /\ PS body | _ => True end.

Lemma binop_case (o : bop) (a b : exp) r K H (k : val -> itree) (kk : val -> val -> itree) :
  PE a -> PE b -> coreE a = true -> coreE b = true ->
  nb K -> ARel K H ->
  (forall va vb, mtree (CVal vb, r, FBinR o va :: K) (kk va vb)) ->
  mtree (CE a, r, FBinL o b :: K) (dE false a r H (fun va => dE false b r H (fun vb => kk va vb))).
Proof.
  intros IHa IHb Ca Cb N A Hk.
  apply IHa; auto. { apply arel_push; auto. }
  intros va. eapply mt_tau; [reflexivity|].
  apply IHb; auto. apply arel_push; auto.
Qed.

(* a plain yield of the generator whose stack is K (no boundary: it is not an inner generator here) *)
Lemma plain_yield (v : val) (w : bool) (r : env) (K : list frame) (H : handlers) (k : val -> itree) :
  nb K -> ARel K H -> (forall x : val, mtree ((if w then CVal x else CNorm), r, K) (k x)) ->
  mtree (CYielding v w (RPlain w), r, K) (TYield v w r (fun i => resume_in i k H r)).
Proof.
  intros N A Hk. eapply mt_yield. { simpl. unfold nb in N. rewrite N. reflexivity. }
  intros i. unfold resume_cfg. destruct (A r) as (At & Ar & _).
  destruct i; simpl; (eapply mt_tau; [reflexivity|]); auto.
Qed.

(* starting an inner generator on a boundary *)
Lemma start_inner gbody a :
  PS gbody -> coreS gbody = true ->
  EmbAll (CS gbody) (upd 0 a env0) [] (dS false gbody (upd 0 a env0) gen_handlers kdone).
Proof.
  intros IH C. eapply embed_all; [|reflexivity].
  apply IH; auto. { apply arel_nil. } intros r. apply mt_done. reflexivity.
Qed.

Theorem machine_lang : (forall e, PE e) /\ (forall s, PSrc s) /\ (forall s, PS s).
Proof.
  apply lang_mutind; unfold PE, PS, PSrc; try (intros; exact I).
  - (* EConst *) intros z _ r K H k N A Hk. simpl. eapply mt_tau; [reflexivity|]. apply Hk.
  - (* EVar *) intros x _ r K H k N A Hk. simpl. eapply mt_tau; [reflexivity|]. apply Hk.
  - (* EAdd *) intros a IHa b IHb C r K H k N A Hk. simpl in C. apply andb_prop in C as [Ca Cb]. simpl.
    eapply mt_tau; [reflexivity|].
    apply (binop_case BAdd a b r K H k (fun va vb => k (vadd va vb))); auto.
    intros va vb. eapply mt_tau; [reflexivity|]. apply Hk.
  - (* ECall *) intros a IHa b IHb C r K H k N A Hk. simpl in C. apply andb_prop in C as [Ca Cb]. simpl.
    eapply mt_tau; [reflexivity|].
    apply (binop_case BCall a b r K H k (fun va vb => TEmit (VArr [VInt 77; va; vb]) (k (vcall va vb)))); auto.
    intros va vb. eapply mt_emit; [reflexivity|]. apply Hk.
  - (* ECallSpread *) intros a IHa b IHb C r K H k N A Hk. simpl in C. apply andb_prop in C as [Ca Cb]. simpl.
    eapply mt_tau; [reflexivity|].
    apply (binop_case BCall a b r K H k (fun va vb => TEmit (VArr [VInt 77; va; vb]) (k (vcall va vb)))); auto.
    intros va vb. eapply mt_emit; [reflexivity|]. apply Hk.
  - (* EArr *) intros a IHa b IHb C r K H k N A Hk. simpl in C. apply andb_prop in C as [Ca Cb]. simpl.
    eapply mt_tau; [reflexivity|].
    apply (binop_case BArr a b r K H k (fun va vb => k (VArr [va; vb]))); auto.
    intros va vb. eapply mt_tau; [reflexivity|]. apply Hk.
  - (* EObj *) intros a IHa b IHb C r K H k N A Hk. simpl in C. apply andb_prop in C as [Ca Cb]. simpl.
    eapply mt_tau; [reflexivity|].
    apply (binop_case BObj a b r K H k (fun va vb => k (VObj [va; vb]))); auto.
    intros va vb. eapply mt_tau; [reflexivity|]. apply Hk.
  - (* ETpl *) intros a IHa b IHb C r K H k N A Hk. simpl in C. apply andb_prop in C as [Ca Cb]. simpl.
    eapply mt_tau; [reflexivity|].
    apply (binop_case BTpl a b r K H k (fun va vb => k (VTpl [va; vb]))); auto.
    intros va vb. eapply mt_tau; [reflexivity|]. apply Hk.
  - (* EYield *) intros a IHa C r K H k N A Hk. simpl in C. simpl.
    eapply mt_tau; [reflexivity|].
    apply IHa; auto. { apply arel_push; auto. }
    intros v. eapply mt_tau; [reflexivity|]. apply (plain_yield v true r K H k); auto.
  - (* EAwaitBad *) intros z _ r K H k N A Hk. simpl. eapply mt_emit; [reflexivity|]. apply (A r).
  - (* EYieldStar *) intros s IHs C r K H k N A Hk. simpl in C. destruct s as [arg gbody|h|]; try discriminate.
    + destruct IHs as [IHarg IHg]. simpl in C. apply andb_prop in C as [Ca Cg]. simpl.
      eapply mt_tau; [reflexivity|].
      apply IHarg; auto. { apply arel_push; auto. }
      intros a. eapply mt_tau; [reflexivity|].
      apply (proj2 (proj2 (start_inner gbody a IHg Cg))); auto.
    + simpl. eapply mt_tau; [reflexivity|]. apply (A r).
  - (* SrcGen *) intros arg IHarg body IHb. split; auto.
  - (* SSkip *) intros _ K H k N A Hk r. simpl. eapply mt_tau; [reflexivity|]. apply Hk.
  - (* SExpr *) intros e IHe C K H k N A Hk r. simpl in *. eapply mt_tau; [reflexivity|].
    apply IHe; auto. { apply arel_push; auto. } intros v. eapply mt_tau; [reflexivity|]. apply Hk.
  - (* SYield *) intros e IHe C K H k N A Hk r. simpl in *. eapply mt_tau; [reflexivity|].
    apply IHe; auto. { apply arel_push; auto. }
    intros v. eapply mt_tau; [reflexivity|]. apply (plain_yield v false r K H (fun _ => k r)); auto.
  - (* SYieldStar *) intros s IHs C K H k N A Hk r. simpl in C. destruct s as [arg gbody|h|]; try discriminate.
    + destruct IHs as [IHarg IHg]. simpl in C. apply andb_prop in C as [Ca Cg]. simpl.
      eapply mt_tau; [reflexivity|].
      apply IHarg; auto. { apply arel_push; auto. apply arel_push; auto. }
      intros a. eapply mt_tau; [reflexivity|].
      apply (proj2 (proj2 (start_inner gbody a IHg Cg))); auto.
      * apply arel_push; auto.
      * intros v. eapply mt_tau; [reflexivity|]. apply Hk.
    + simpl. eapply mt_tau; [reflexivity|]. apply (A r).
  - (* SAssign *) intros x e IHe C K H k N A Hk r. simpl in *. eapply mt_tau; [reflexivity|].
    apply IHe; auto. { apply arel_push; auto. } intros v. eapply mt_tau; [reflexivity|]. apply Hk.
  - (* SDestr *) intros x e IHe C K H k N A Hk r. simpl in *. eapply mt_tau; [reflexivity|].
    apply IHe; auto. { apply arel_push; auto. } intros v. eapply mt_tau; [reflexivity|]. apply Hk.
  - (* SLog *) intros e IHe C K H k N A Hk r. simpl in *. eapply mt_tau; [reflexivity|].
    apply IHe; auto. { apply arel_push; auto. } intros v. eapply mt_emit; [reflexivity|]. apply Hk.
  - (* SLogLocals *) intros _ K H k N A Hk r. simpl. eapply mt_emit; [reflexivity|]. apply Hk.
  - (* SSeq *) intros a IHa b IHb C K H k N A Hk r. simpl in C. apply andb_prop in C as [Ca Cb]. simpl.
    eapply mt_tau; [reflexivity|].
    apply IHa; auto. { apply arel_push; auto. }
    intros r'. eapply mt_tau; [reflexivity|]. apply IHb; auto.
  - (* SIf *) intros c IHc a IHa b IHb C K H k N A Hk r. simpl in C.
    apply andb_prop in C as [C Cb]. apply andb_prop in C as [Cc Ca]. simpl.
    eapply mt_tau; [reflexivity|].
    apply IHc; auto. { apply arel_push; auto. }
    intros v. eapply mt_tau; [reflexivity|]. destruct (truthy v); [apply IHa | apply IHb]; auto.
  - (* SRepeat *) intros n x body IHb C K H k N A Hk r. simpl in C. simpl.
    eapply mt_tau; [reflexivity|].
    match goal with
    | |- mtree _ (?f n r) =>
        assert (L : forall m r', mtree (CNorm, r', FLoop n m x body :: K) (f m r')); [|apply L]
    end.
    induction m as [|m IHm]; intros r'.
    + eapply mt_tau; [reflexivity|]. apply Hk.
    + eapply mt_tau; [reflexivity|].
      apply IHb; auto.
      intros r''. destruct (A r'') as (At & Ar & Ab & Ac). repeat split; intros; simpl.
      * eapply mt_tau; [reflexivity|]. apply At.
      * eapply mt_tau; [reflexivity|]. apply Ar.
      * eapply mt_tau; [reflexivity|]. apply Hk.
      * eapply mt_tau; [reflexivity|]. apply IHm.
  - (* STryCatch *) intros b IHb c IHc C K H k N A Hk r. simpl in C. apply andb_prop in C as [Cb Cc]. simpl.
    eapply mt_tau; [reflexivity|].
    apply IHb; auto.
    + intros r'. destruct (A r') as (At & Ar & Ab & Ac). repeat split; intros; simpl.
      * eapply mt_tau; [reflexivity|]. apply IHc; auto.
      * eapply mt_tau; [reflexivity|]. apply Ar.
      * eapply mt_tau; [reflexivity|]. apply Ab.
      * eapply mt_tau; [reflexivity|]. apply Ac.
    + intros r'. eapply mt_tau; [reflexivity|]. apply Hk.
  - (* STryFinally *) intros b IHb f IHf C K H k N A Hk r. simpl in C. apply andb_prop in C as [Cb Cf]. simpl.
    eapply mt_tau; [reflexivity|].
    assert (Afin : forall a, ARel (FFinCompl a :: K) H) by (intros a; apply arel_push; auto).
    apply IHb; auto.
    + intros r'. repeat split; intros; simpl.
      * eapply mt_tau; [reflexivity|]. apply IHf; auto. intros r''. eapply mt_tau; [reflexivity|]. apply (A r'').
      * eapply mt_tau; [reflexivity|]. apply IHf; auto. intros r''. eapply mt_tau; [reflexivity|]. apply (A r'').
      * eapply mt_tau; [reflexivity|]. apply IHf; auto. intros r''. eapply mt_tau; [reflexivity|]. apply (A r'').
      * eapply mt_tau; [reflexivity|]. apply IHf; auto. intros r''. eapply mt_tau; [reflexivity|]. apply (A r'').
    + intros r'. eapply mt_tau; [reflexivity|]. apply IHf; auto. intros r''. eapply mt_tau; [reflexivity|]. apply Hk.
  - (* STryCF *) intros b IHb c IHc f IHf C K H k N A Hk r. simpl in C.
    apply andb_prop in C as [C Cf]. apply andb_prop in C as [Cb Cc]. simpl.
    eapply mt_tau; [reflexivity|].
    assert (Afin : forall a, ARel (FFinCompl a :: K) H) by (intros a; apply arel_push; auto).
    set (Hf := mkH (fun e r' => dS false f r' H (fun r'' => kt H e r''))
                   (fun v r' => dS false f r' H (fun r'' => kr H v r''))
                   (fun r' => dS false f r' H (fun r'' => kb H r''))
                   (fun r' => dS false f r' H (fun r'' => kc H r''))).
    assert (AF : ARel (FFinally f :: K) Hf).
    { intros r'. repeat split; intros; simpl;
        (eapply mt_tau; [reflexivity|]; apply IHf; auto; intros r''; eapply mt_tau; [reflexivity|]; apply (A r'')). }
    assert (KF : forall r', mtree (CNorm, r', FFinally f :: K) (dS false f r' H k)).
    { intros r'. eapply mt_tau; [reflexivity|]. apply IHf; auto. intros r''. eapply mt_tau; [reflexivity|]. apply Hk. }
    apply IHb; auto.
    + intros r'. destruct (AF r') as (At & Ar & Ab & Ac). repeat split; intros; simpl.
      * eapply mt_tau; [reflexivity|]. apply IHc; auto.
      * eapply mt_tau; [reflexivity|]. apply Ar.
      * eapply mt_tau; [reflexivity|]. apply Ab.
      * eapply mt_tau; [reflexivity|]. apply Ac.
    + intros r'. eapply mt_tau; [reflexivity|]. apply KF.
  - (* SReturn *) intros e IHe C K H k N A Hk r. simpl in *. eapply mt_tau; [reflexivity|].
    apply IHe; auto. { apply arel_push; auto. } intros v. eapply mt_tau; [reflexivity|]. apply (A r).
  - (* SThrow *) intros e IHe C K H k N A Hk r. simpl in *. eapply mt_tau; [reflexivity|].
    apply IHe; auto. { apply arel_push; auto. } intros v. eapply mt_tau; [reflexivity|]. apply (A r).
  - (* SBreak *) intros _ K H k N A Hk r. simpl. eapply mt_tau; [reflexivity|]. apply (A r).
  - (* SContinue *) intros _ K H k N A Hk r. simpl. eapply mt_tau; [reflexivity|]. apply (A r).
  - (* SForOf *) intros x s IHs body IHb C K H k N A Hk r. simpl in C. apply andb_prop in C as [Cs Cb].
    destruct s as [arg gbody|h|]; try discriminate.
    + destruct IHs as [IHarg IHg]. simpl in Cs. apply andb_prop in Cs as [Ca Cg]. simpl.
      eapply mt_tau; [reflexivity|].
      apply IHarg; auto. { apply arel_push; auto. }
      intros a. eapply mt_tau; [reflexivity|].
      apply (proj1 (start_inner gbody a IHg Cg)); auto.
      intros K0 H0 k0 N0 A0 Hk0 r0. apply IHb; auto.
    + simpl. eapply mt_tau; [reflexivity|]. apply (A r).
  - (* SReenter *) intros c _ K H k N A Hk r. simpl. eapply mt_reent; [reflexivity|].
    intros a. eapply mt_emit; [reflexivity|]. destruct a; apply Hk.
Qed.

(* the whole body: the machine loaded with s unfolds to the direct semantics of s *)
Theorem machine_matches_direct : forall s, coreS s = true ->
  mtree (mload s) (dS false s env0 gen_handlers (fun r => TDone VUndef r)).
Proof.
  intros s C. apply (proj2 (proj2 machine_lang) s C [] gen_handlers); auto.
  - apply arel_nil.
  - intros r. apply mt_done. reflexivity.
Qed.

(* ---------- from the unfolding relation to driver histories ---------- *)
Definition leaf_rel (m : mleaf) (t : tleaf) : Prop :=
  match m, t with
  | MLYield v w rk r K, TLYield v' w' r' k => v = v' /\ w = w' /\ r = r' /\ forall i, mtree (resume_cfg rk r K i) (k i)
  | MLDone v r, TLDone v' r' => v = v' /\ r = r'
  | MLThrew e r, TLThrew e' r' => e = e' /\ r = r'
  | _, _ => False
  end.

Lemma mrun_mono fuel c res : mrun fuel c = Some res -> forall fuel', fuel <= fuel' -> mrun fuel' c = Some res.
Proof.
  revert c res. induction fuel as [|n IH]; intros c res E fuel' L; [discriminate|].
  destruct fuel' as [|n']; [lia|]. simpl in *.
  destruct (mstep c); auto.
  - apply IH; auto. lia.
  - destruct (mrun n c0) as [[l lf]|] eqn:E0; [|discriminate].
    rewrite (IH _ _ E0 n') by lia. exact E.
  - apply IH; auto. lia.
Qed.

Lemma mtree_run c t : mtree c t ->
  exists n l ml, mrun n c = Some (l, ml) /\ fst (trun t) = l /\ leaf_rel ml (snd (trun t)).
Proof.
  induction 1.
  - destruct IHmtree as (n & l & ml & E & E1 & E2). exists (S n), l, ml. simpl. rewrite H. auto.
  - destruct IHmtree as (n & l & ml & E & E1 & E2). exists (S n), (ev :: l), ml. simpl. rewrite H, E.
    destruct (trun t) as [l' lf']. simpl in *. subst. auto.
  - exists 1, [], (MLYield v w rk r K). simpl. rewrite H. repeat split; auto.
  - destruct (H1 (CErr VTypeErr)) as (n & l & ml & E & E1 & E2). exists (S n), l, ml. simpl. rewrite H. auto.
  - exists 1, [], (MLDone v r). simpl. rewrite H. repeat split; auto.
  - exists 1, [], (MLThrew e r). simpl. rewrite H. repeat split; auto.
Qed.

Lemma mwalk_mono h : forall fuel c res, mwalk fuel h c = Some res -> forall fuel', fuel <= fuel' -> mwalk fuel' h c = Some res.
Proof.
  induction h as [|i h IH]; intros fuel c res E fuel' L; simpl in *.
  - destruct (mrun fuel c) as [[l lf]|] eqn:E0; [|discriminate]. rewrite (mrun_mono _ _ _ E0 fuel' L). exact E.
  - destruct (mrun fuel c) as [[l lf]|] eqn:E0; [|discriminate]. rewrite (mrun_mono _ _ _ E0 fuel' L).
    destruct lf; auto.
    destruct (mwalk fuel h (resume_cfg rk r K i)) eqn:E1; [|discriminate].
    rewrite (IH _ _ _ E1 fuel' L). exact E.
Qed.

(* resume_deterministic / locals_survive: for EVERY history of resumptions (values, throws, returns), running the
   machine — suspending to (locals, frames) at each yield and resuming that data — observes exactly what the direct
   evaluation observes when each yield is answered by the next element of the history *)
Theorem mtree_walk : forall h c t, mtree c t -> exists n, forall fuel, n <= fuel -> mwalk fuel h c = Some (twalk h t).
Proof.
  induction h as [|i h IH]; intros c t M.
  - destruct (mtree_run c t M) as (n & l & ml & E & E1 & E2). exists n. intros fuel L.
    simpl. rewrite (mrun_mono _ _ _ E fuel L). destruct (trun t) as [l' lf']. simpl in *. subst l'.
    destruct ml, lf'; simpl in E2; try contradiction.
    + destruct E2 as (-> & -> & -> & _). reflexivity.
    + destruct E2 as (-> & ->). reflexivity.
    + destruct E2 as (-> & ->). reflexivity.
  - destruct (mtree_run c t M) as (n & l & ml & E & E1 & E2).
    destruct (trun t) as [l' lf'] eqn:Et. simpl in *. subst l'.
    destruct ml, lf'; simpl in E2; try contradiction.
    + destruct E2 as (-> & -> & -> & Hk). destruct (IH _ _ (Hk i)) as (n2 & H2).
      exists (Nat.max n n2). intros fuel L. rewrite (mrun_mono _ _ _ E fuel) by lia. rewrite Et.
      rewrite H2 by lia. reflexivity.
    + destruct E2 as (-> & ->). exists n. intros fuel L. rewrite (mrun_mono _ _ _ E fuel L). rewrite Et. reflexivity.
    + destruct E2 as (-> & ->). exists n. intros fuel L. rewrite (mrun_mono _ _ _ E fuel L). rewrite Et. reflexivity.
Qed.

Theorem resume_deterministic : forall s h, coreS s = true ->
  exists n, forall fuel, n <= fuel ->
    mwalk fuel h (mload s) = Some (twalk h (dS false s env0 gen_handlers (fun r => TDone VUndef r))).
Proof. intros s h C. apply mtree_walk. apply machine_matches_direct; auto. Qed.

(* non-vacuity: a partially evaluated sum, a loop counter, a pending finally and a local survive two suspensions *)
Definition ex_body : stmt :=
  SSeq (SAssign 0 (EConst 5))
       (STryFinally
          (SRepeat 2 1 (SAssign 2 (EAdd (EAdd (EVar 0) (EVar 1)) (EYield (EVar 2)))))
          (SLogLocals)).
Example resume_example :
  mwalk 200 [BNext (VInt 10); BNext (VInt 20)] (mload ex_body)
  = Some [WYield [] (VInt 0) [VInt 5; VInt 0; VInt 0; VUndef];
          WYield [] (VInt 15) [VInt 5; VInt 1; VInt 15; VUndef];
          WDone [VArr [VInt 80; VInt 5; VInt 1; VInt 26]] VUndef [VInt 5; VInt 1; VInt 26; VUndef]]
  /\ mwalk 200 [BReturn (VInt 7)] (mload ex_body)
  = Some [WYield [] (VInt 0) [VInt 5; VInt 0; VInt 0; VUndef];
          WDone [VArr [VInt 80; VInt 5; VInt 0; VInt 0]] (VInt 7) [VInt 5; VInt 0; VInt 0; VUndef]].
Proof. split; vm_compute; reflexivity. Qed.

(* non-vacuity with inner generators: a for-of over a generator that delegates (yield* ) to another generator holding a
   pending finally; the loop is left by break (IteratorClose runs return() through both inner generators), and the
   outer generator then delegates itself.  The machine (segments cut off at boundaries and stored in frames) and the
   direct semantics agree on the whole history, including a throw() forwarded through the yield*. *)
Definition ex_inner2 : stmt := STryFinally (SSeq (SYield (EConst 1)) (SYield (EConst 2))) (SLog (EConst 99)).
Definition ex_inner1 : stmt := SSeq (SYieldStar (SrcGen (EConst 0) ex_inner2)) (SYield (EConst 3)).
Definition ex_body2 : stmt :=
  SSeq (SForOf 1 (SrcGen (EConst 0) ex_inner1) (SSeq (SYield (EVar 1)) (SIf (EVar 2) SBreak (SAssign 2 (EConst 1)))))
       (STryCatch (SAssign 0 (EYieldStar (SrcGen (EConst 7) (SSeq (SYield (EVar 0)) (SReturn (EConst 5))))))
                  (SLog (EVar 3))).
Example resume_example_inner :
  coreS ex_body2 = true /\
  forall h, In h [[BNext (VInt 10); BNext (VInt 11); BNext (VInt 12); BNext (VInt 13)];
                  [BNext (VInt 10); BNext (VInt 11); BThrow (VInt 900); BNext (VInt 13)];
                  [BNext (VInt 10); BReturn (VInt 800)]] ->
    mwalk 400 h (mload ex_body2) = Some (twalk h (dS false ex_body2 env0 gen_handlers (fun r => TDone VUndef r))).
Proof.
  split; [reflexivity|]. intros h [<-|[<-|[<-|[]]]]; vm_compute; reflexivity.
Qed.
Example resume_example_inner_value :
  mwalk 400 [BNext (VInt 10); BNext (VInt 11); BThrow (VInt 900); BNext (VInt 13)] (mload ex_body2)
  = Some [WYield [] (VInt 1) [VInt 0; VInt 1; VInt 0; VUndef];
          WYield [] (VInt 2) [VInt 0; VInt 2; VInt 1; VUndef];
          WYield [VInt 99] (VInt 7) [VInt 0; VInt 2; VInt 1; VUndef];
          WDone [VInt 900] VUndef [VInt 0; VInt 2; VInt 1; VInt 900]].
Proof. vm_compute. reflexivity. Qed.
