(* C10 — proofs, part 2: job accounting.  Every enqueued job has a unique id; at any time
   executed ++ discarded ++ still-queued is a permutation of enqueued. *)
From Coq Require Import List Arith Bool Lia Permutation.
Import ListNotations.
From Verif.C10 Require Import Model Proofs.
Local Notation idc := (fun s0 : state => s0).

Definition Acc (s : state) : Prop :=
  NoDup (enq s) /\ (forall x, In x (enq s) -> x < fresh s) /\
  Permutation (ran s ++ dropped s ++ jids (queue s)) (enq s).

Ltac ds := intros; match goal with s : state |- _ => destruct s end; simpl in *; auto.

Lemma Acc_set_proms x s : Acc s -> Acc (set_proms x s). Proof. ds. Qed.
Lemma Acc_set_pairs x s : Acc s -> Acc (set_pairs x s). Proof. ds. Qed.
Lemma Acc_set_combs x s : Acc s -> Acc (set_combs x s). Proof. ds. Qed.
Lemma Acc_set_log x s : Acc s -> Acc (set_log x s). Proof. ds. Qed.
Lemma Acc_set_tlog x s : Acc s -> Acc (set_tlog x s). Proof. ds. Qed.
Lemma Acc_set_next_pn x s : Acc s -> Acc (set_next_pn x s). Proof. ds. Qed.
Lemma Acc_set_settles x s : Acc s -> Acc (set_settles x s). Proof. ds. Qed.
Lemma Acc_set_jobbed x s : Acc s -> Acc (set_jobbed x s). Proof. ds. Qed.
Lemma Acc_set_intr x s : Acc s -> Acc (set_intr x s). Proof. ds. Qed.
Lemma Acc_set_exhausted x s : Acc s -> Acc (set_exhausted x s). Proof. ds. Qed.
Lemma Acc_set_outs x s : Acc s -> Acc (set_outs x s). Proof. ds. Qed.

Lemma Acc_bump1 s : Acc s -> Acc (set_fresh (S (fresh s)) s).
Proof. destruct s; unfold Acc; simpl. intros (A & B & C); repeat split; auto. intros x H; apply B in H; lia. Qed.
Lemma Acc_bump2 s : Acc s -> Acc (set_fresh (S (S (fresh s))) s).
Proof. destruct s; unfold Acc; simpl. intros (A & B & C); repeat split; auto. intros x H; apply B in H; lia. Qed.


Lemma NoDup_snoc {A} (l : list A) x : NoDup l -> ~ In x l -> NoDup (l ++ [x]).
Proof.
  intros H N. apply NoDup_rev in H. rewrite <- (rev_involutive (l ++ [x])). apply NoDup_rev.
  rewrite rev_app_distr. simpl. constructor; auto. rewrite <- in_rev. auto.
Qed.

Lemma Acc_enqueue k s : Acc s -> Acc (enqueue k s).
Proof.
  destruct s; unfold Acc, enqueue; destruct k; simpl; intros (A & B & C);
  (repeat split;
   [ apply NoDup_snoc; auto; intro H; apply B in H; lia
   | intros y H; apply in_app_or in H; destruct H as [H|[H|[]]]; [apply B in H; lia | lia]
   | unfold jids; rewrite map_app; simpl; rewrite !app_assoc; apply Permutation_app_tail; rewrite <- !app_assoc; exact C ]).
Qed.

#[export] Hint Resolve Acc_set_proms Acc_set_pairs Acc_set_combs Acc_set_log Acc_set_tlog Acc_set_next_pn Acc_set_settles
  Acc_set_jobbed Acc_set_intr Acc_set_exhausted Acc_set_outs Acc_bump1 Acc_bump2 Acc_enqueue : acc.

Lemma fold_left_inv {A B} (P : A -> Prop) (f : A -> B -> A) :
  (forall a b, P a -> P (f a b)) -> forall l a, P a -> P (fold_left f l a).
Proof. intros H l. induction l; simpl; auto. Qed.

Ltac acc :=
  intros;
  repeat (try solve [auto 60 with acc];
          match goal with
          | |- context[match ?x with _ => _ end] => destruct x eqn:?
          end);
  try solve [auto 60 with acc].

Lemma Acc_trigger rs a s : Acc s -> Acc (trigger rs a s).
Proof. unfold trigger. apply fold_left_inv. acc. Qed.
Lemma Acc_track p k s : Acc s -> Acc (track p k s). Proof. unfold track. acc. Qed.
Lemma Acc_upd_prom p f s : Acc s -> Acc (upd_prom p f s). Proof. unfold upd_prom. acc. Qed.
Lemma Acc_latch r s : Acc s -> Acc (latch r s). Proof. unfold latch. acc. Qed.
Lemma Acc_new_prom p s : Acc s -> Acc (new_prom p s). Proof. unfold new_prom. acc. Qed.
Lemma Acc_new_pair r o s : Acc s -> Acc (new_pair r o s). Proof. unfold new_pair. acc. Qed.
Lemma Acc_upd_comb c f s : Acc s -> Acc (upd_comb c f s). Proof. unfold upd_comb. acc. Qed.
#[export] Hint Resolve Acc_trigger Acc_track Acc_upd_prom Acc_latch Acc_new_prom Acc_new_pair Acc_upd_comb : acc.

Lemma Acc_fulfill_p p v s : Acc s -> Acc (fulfill_p p v s). Proof. unfold fulfill_p. acc. Qed.
Lemma Acc_reject_p p v s : Acc s -> Acc (reject_p p v s). Proof. unfold reject_p. acc. Qed.
#[export] Hint Resolve Acc_fulfill_p Acc_reject_p : acc.

Section T.
Variable T : list thenable.

Lemma Acc_resolve_fn r x s : Acc s -> Acc (resolve_fn T r x s). Proof. unfold resolve_fn. acc. Qed.
Lemma Acc_reject_fn r x s : Acc s -> Acc (reject_fn r x s). Proof. unfold reject_fn. acc. Qed.
Hint Resolve Acc_resolve_fn Acc_reject_fn : acc.

Lemma fresh_upd_prom p f s : fresh (upd_prom p f s) = fresh s. Proof. destruct s; reflexivity. Qed.

Lemma Acc_perform_then p a b c s : Acc s -> Acc (perform_then p a b c s).
Proof. unfold perform_then. acc. Qed.
Hint Resolve Acc_perform_then : acc.

Lemma Acc_comb_dec c s : Acc s -> Acc (comb_dec T c s). Proof. unfold comb_dec. acc. Qed.
Hint Resolve Acc_comb_dec : acc.
Lemma Acc_elem_fn c i b a s : Acc s -> Acc (elem_fn T c i b a s). Proof. unfold elem_fn. acc. Qed.
Hint Resolve Acc_elem_fn : acc.

Lemma Acc_exec_act s a : Acc s -> Acc (exec_act T idc s a). Proof. unfold exec_act. acc. Qed.
Lemma Acc_exec_acts l s : Acc s -> Acc (fold_left (exec_act T idc) l s).
Proof. apply fold_left_inv. intros; apply Acc_exec_act; auto. Qed.
Hint Resolve Acc_exec_acts : acc.

Lemma Acc_exec_tsteps r l : forall s, Acc s -> Acc (exec_tsteps T r l s).
Proof. induction l as [|a l IH]; simpl; intros; auto. destruct a; acc. Qed.
Hint Resolve Acc_exec_tsteps : acc.

Lemma Acc_promise_resolve x s : Acc s -> Acc (snd (promise_resolve T x s)).
Proof. unfold promise_resolve, new_cap_int. cbv beta iota zeta. destruct x; simpl; acc. Qed.
Lemma Acc_new_cap_int s : Acc s -> Acc (snd (new_cap_int s)).
Proof. unfold new_cap_int. cbv beta iota zeta. simpl. acc. Qed.

Ltac split_pr :=
  match goal with
  | |- context[promise_resolve T ?x ?s0] =>
      let HP := fresh "HP" in
      assert (HP : Acc (snd (promise_resolve T x s0))) by (apply Acc_promise_resolve; acc);
      destruct (promise_resolve T x s0) as [? ?]; simpl in HP
  end.
Ltac split_nc :=
  match goal with
  | |- context[new_cap_int ?s0] =>
      let HP := fresh "HP" in
      assert (HP : Acc (snd (new_cap_int s0))) by (apply Acc_new_cap_int; acc);
      destruct (new_cap_int s0) as [[? ?] ?]; simpl in HP
  end.

Lemma Acc_cres c v s : Acc s -> Acc (cres T c v s). Proof. unfold cres. acc. Qed.
Lemma Acc_crej c v s : Acc s -> Acc (crej c v s). Proof. unfold crej. acc. Qed.
Hint Resolve Acc_cres Acc_crej : acc.
Lemma Acc_async_throw b e s : Acc s -> Acc (async_throw T b e s). Proof. unfold async_throw. acc. Qed.
Hint Resolve Acc_async_throw : acc.
Lemma Acc_async_step b s : Acc s -> Acc (async_step T b s).
Proof. intros H. unfold async_step. destruct (ab_rest b); [acc|]. split_pr. acc. Qed.
Hint Resolve Acc_async_step : acc.
Lemma Acc_exec_finally sc ful arg cap s : Acc s -> Acc (exec_finally T idc sc ful arg cap s).
Proof.
  intros H. unfold exec_finally. cbv beta zeta.
  destruct (s_ret sc); try solve [acc]; split_pr; split_nc; acc.
Qed.
Hint Resolve Acc_exec_finally : acc.

Lemma Acc_exec_job j s : Acc s -> Acc (exec_job T idc j s).
Proof. unfold exec_job, new_pair_for, new_cap_int. cbv beta iota zeta. acc. Qed.

Lemma Acc_comb_elem k cap c s x : Acc s -> Acc (comb_elem T k cap c s x).
Proof.
  intros H. unfold comb_elem.
  destruct k; try (destruct (get_comb c s); auto); split_pr; split_nc; acc.
Qed.

Lemma Acc_exec_comb k elems s : Acc s -> Acc (exec_comb T k elems s).
Proof.
  unfold exec_comb, new_cap_named. cbv beta iota zeta. intros.
  assert (forall s0, Acc s0 -> Acc (fold_left (comb_elem T k (RI (fresh (set_next_pn (S (next_pn s)) s))) (length (combs (new_pair (RI (fresh (set_next_pn (S (next_pn s)) s))) (PN (next_pn s)) (new_prom (PN (next_pn s)) (set_fresh (S (fresh (set_next_pn (S (next_pn s)) s))) (set_next_pn (S (next_pn s)) s))))))) elems s0)).
  { intros. apply fold_left_inv; auto. intros. apply Acc_comb_elem; auto. }
  destruct k; try apply Acc_comb_dec; apply H0; acc.
Qed.

Lemma Acc_exec_op s o : Acc s -> Acc (exec_op T s o).
Proof.
  destruct o; cbn [exec_op]; try apply Acc_exec_comb; auto with acc;
    unfold new_cap_named; cbv beta iota zeta; acc.
Qed.

Lemma Acc_run_ops ops s : Acc s -> Acc (run_ops T ops s).
Proof. apply fold_left_inv. intros; apply Acc_exec_op; auto. Qed.

Lemma Acc_pop j rest s : Acc s -> queue s = j :: rest -> Acc (mark_ran j (set_queue rest s)).
Proof.
  destruct s; unfold Acc; simpl. intros (A & B & C) ->. repeat split; auto.
  eapply Permutation_trans; [|exact C]. simpl.
  rewrite <- app_assoc. apply Permutation_app_head. simpl.
  apply Permutation_middle.
Qed.

Lemma Acc_drop_all s : Acc s -> Acc (drop_all [] s).
Proof.
  destruct s; unfold Acc; simpl. intros (A & B & C). repeat split; auto.
  rewrite app_nil_r. exact C.
Qed.

Lemma Acc_drainS fuel : forall s, Acc s -> Acc (drainS T fuel s).
Proof.
  induction fuel; intros s H; cbn [drainS].
  - destruct (queue s); auto. apply Acc_set_exhausted, Acc_drop_all, H.
  - destruct (queue s) as [|j rest] eqn:E; auto.
    pose proof (Acc_exec_job j _ (Acc_pop j rest s H E)) as H1.
    destruct (intr _); auto. apply Acc_drop_all, H1.
Qed.

Lemma Acc_end_run s : Acc s -> Acc (end_run s).
Proof. unfold end_run. acc. Qed.

Lemma Acc_init : Acc init.
Proof. unfold Acc; simpl. repeat split; auto. constructor. intros x []. Qed.

Lemma Acc_runS fuel runs : Acc (runS T fuel runs).
Proof.
  unfold runS. apply fold_left_inv; [|apply Acc_init].
  intros. unfold runS1. apply Acc_end_run, Acc_drainS, Acc_run_ops, H.
Qed.

Lemma NoDup_app_l {A} (l1 l2 : list A) : NoDup (l1 ++ l2) -> NoDup l1.
Proof. induction l1; simpl; intros H. constructor. inversion H; subst. constructor; auto. intro; apply H2; apply in_or_app; auto. Qed.
Lemma NoDup_app_r {A} (l1 l2 : list A) : NoDup (l1 ++ l2) -> NoDup l2.
Proof. induction l1; simpl; intros H; auto. inversion H; auto. Qed.

(* consequences at return (queue = []) *)
Lemma accounting fuel runs :
  let s := runI T fuel runs in
  NoDup (enq s) /\ NoDup (ran s) /\ NoDup (dropped s) /\ Permutation (ran s ++ dropped s) (enq s) /\
  (forall x, In x (dropped s) -> ~ In x (ran s)).
Proof.
  intros s. unfold s. rewrite runI_runS.
  destruct (Acc_runS fuel runs) as (A & B & C). rewrite runS_queue in C. simpl in C. rewrite app_nil_r in C.
  assert (N : NoDup (ran (runS T fuel runs) ++ dropped (runS T fuel runs))).
  { eapply Permutation_NoDup; [apply Permutation_sym, C | exact A]. }
  repeat split; auto.
  - eapply NoDup_app_l; eauto.
  - eapply NoDup_app_r; eauto.
  - intros x Hd Hr. apply in_split in Hr. destruct Hr as (l1 & l2 & Hr). rewrite Hr in N.
    rewrite <- app_assoc in N. simpl in N. apply NoDup_remove_2 in N. apply N.
    apply in_or_app. right. apply in_or_app. right. exact Hd.
Qed.

End T.
