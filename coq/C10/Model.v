(* C10 — promise-operation language; builtin_promise.go + runtime.go leave/leaveAbrupt transcribed (I)
   and ECMA-262 27.2 with a plain FIFO job queue (S).  Definitions only; executable; no proofs here.

   The promise-record algorithms of builtin_promise.go (createResolvingFunctions, fulfill, reject,
   addReactions, newPromiseReactionJob, newPromiseResolveThenableJob, the combinators) follow 27.2
   step by step, so ONE transcription of them ([exec_op], [exec_job]) serves both machines.  The two
   machines differ in the job queue: I = goja's double-buffered drain loop over [jobQueue]
   ([leaveI]) and [leaveAbrupt]; S = HostEnqueuePromiseJob's plain FIFO ([drainS]). *)
From Coq Require Import List Arith Bool.
Import ListNotations.

(* ---------------------------------------------------------------------------------------------- *)
(* identities *)

(* promises: PN k = the k-th promise the program can name (created by ONew / OThen / OComb);
   PI k = internal promise (derived promises inside combinators and thenable jobs, Promise.resolve) *)
Inductive pid := PN (n : nat) | PI (n : nat).
(* resolving pairs: RU k = the pair handed to the program by ONew for promise PN k; RI k = internal *)
Inductive prid := RU (n : nat) | RI (n : nat).

Definition pid_eqb (a b : pid) : bool :=
  match a, b with PN x, PN y => Nat.eqb x y | PI x, PI y => Nat.eqb x y | _, _ => false end.
Definition prid_eqb (a b : prid) : bool :=
  match a, b with RU x, RU y => Nat.eqb x y | RI x, RI y => Nat.eqb x y | _, _ => false end.

Inductive val :=
| VUndef | VInt (n : nat) | VProm (p : pid) | VThen (t : nat)
| VTypeErr                               (* the TypeError of a self-resolution *)
| VArr (l : list val)                    (* result array of all / allSettled *)
| VSettled (ok : bool) (v : val)         (* {status, value|reason} *)
| VAggr (l : list val).                  (* AggregateError.errors *)

(* ---------------------------------------------------------------------------------------------- *)
(* program syntax *)

(* inside a handler: call a resolving function of a program-visible pair *)
(* AResN / ARejN: the same call made by a NATIVE (Go) handler through an outermost entry point of the
   Runtime — a NewPromise() resolver, a Callable, or RunString("resK(v)") — so that the entry point's
   exit path (runWrapped / RunProgram -> leave()) is reached from inside the running job *)
Inductive act := ARes (pr : nat) (v : val) | ARej (pr : nat) (v : val)
               | AResN (pr : nat) (v : val) | ARejN (pr : nat) (v : val).
Inductive ret := RetVal (v : val) | RetArg | Throw (v : val) | Intr.
(* function(a){ log(id,a); acts; ret } *)
Record script := mkScript { s_id : nat; s_acts : list act; s_ret : ret }.

Inductive tstep := TRes (v : val) | TRej (v : val) | TThrow (v : val).
Inductive thenable :=
| TFun (id : nat) (steps : list tstep)   (* {then(res,rej){ log(id); steps }} *)
| TGetThrow (v : val)                    (* {get then(){ throw v }} *)
| TNoThen.                               (* {then: 5} : not callable *)

Inductive ckind := CAll | CAllSettled | CRace | CAny.

(* async function(){ log(id); [try {] x = await v1; log(id,x); x = await v2; log(id,x); ...; return v | throw v
                     [} catch(e) { log(id+500, e) }] } *)
Inductive aend := ARet (v : val) | AThrow (v : val).

Inductive op :=
| ONew                                              (* new Promise / r.NewPromise(): PN k with pair RU k *)
| ORes (pr : nat) (v : val) | ORej (pr : nat) (v : val)
| OThen (p : nat) (onF onR : option script)         (* PN p .then(onF,onR); derived promise gets the next name *)
| OComb (k : ckind) (elems : list val)              (* Promise.k([elems]); result gets the next name *)
| OAsync (id : nat) (catch : bool) (awaits : list val) (e : aend)   (* call an async function; its promise gets the next name *)
| OFinally (p : nat) (fin : script).                (* PN p .finally(fin); derived promise gets the next name *)

(* ---------------------------------------------------------------------------------------------- *)
(* machine state *)

Inductive pstate := Pending | Fulfilled | Rejected.

(* the suspended rest of an async function body = the state of goja's asyncRunner (promiseCap + the
   generator context) = the continuation closures of the spec's Await *)
Record abody := mkA { ab_cap : prid; ab_id : nat; ab_catch : bool; ab_rest : list val; ab_end : aend }.

Inductive handler :=
| HNone | HUser (s : script)
| HCapRes (pr : prid) | HCapRej (pr : prid)         (* a resolving function used directly as handler *)
| HElemF (c i : nat) | HElemR (c i : nat)           (* per-element functions of all/allSettled/any *)
| HAsyncF (b : abody) | HAsyncR (b : abody)         (* asyncRunner.onFulfilled / onRejected *)
| HFinF (s : script) | HFinR (s : script)           (* thenFinally / catchFinally of Promise.prototype.finally *)
| HThunkVal (v : val) | HThunkThrow (v : val).      (* valueThunk / thrower *)

(* r_cap = None: a reaction without result capability (await) *)
Record reaction := mkR { r_id : nat; r_cap : option prid; r_ful : bool; r_handler : handler }.

Inductive jobk := JReact (r : reaction) (arg : val) | JThenable (p : pid) (x : val).
Record job := mkJ { j_id : nat; j_kind : jobk }.

Record prom := mkP { p_state : pstate; p_result : val; p_fr : list reaction; p_rr : list reaction;
                     p_handled : bool }.
Record pair := mkPair { pr_owner : pid; pr_latched : bool }.       (* alreadyResolved *)
Record comb := mkC { c_kind : ckind; c_cap : prid; c_vals : list val; c_rem : nat; c_called : list bool }.

Inductive tkind := TReject | THandle.

Record state := mkS {
  proms : list (pid * prom);
  pairs : list (prid * pair);
  combs : list comb;
  queue : list job;                    (* Runtime.jobQueue *)
  log : list (nat * val);              (* global event log *)
  tlog : list (pid * tkind);           (* rejection-tracker log *)
  next_pn : nat;
  fresh : nat;                         (* supply of internal ids, reaction ids, job ids *)
  (* ghost history *)
  enq : list nat;                      (* ids of all jobs ever enqueued, in order *)
  ran : list nat;                      (* ids of all jobs executed, in order *)
  dropped : list nat;                  (* ids of jobs discarded by leaveAbrupt / fuel exhaustion *)
  settles : list pid;                  (* every call of fulfill/reject *)
  jobbed : list nat;                   (* reaction ids turned into jobs *)
  intr : bool;                         (* vm.interrupted *)
  exhausted : bool;
  outs : list (bool * nat * nat)       (* per run: interrupted?, len(jobQueue) at return, len(log) *)
}.

Definition init : state := mkS [] [] [] [] [] [] 0 0 [] [] [] [] [] false false [].

Definition set_proms x s := mkS x (pairs s) (combs s) (queue s) (log s) (tlog s) (next_pn s) (fresh s) (enq s) (ran s) (dropped s) (settles s) (jobbed s) (intr s) (exhausted s) (outs s).
Definition set_pairs x s := mkS (proms s) x (combs s) (queue s) (log s) (tlog s) (next_pn s) (fresh s) (enq s) (ran s) (dropped s) (settles s) (jobbed s) (intr s) (exhausted s) (outs s).
Definition set_combs x s := mkS (proms s) (pairs s) x (queue s) (log s) (tlog s) (next_pn s) (fresh s) (enq s) (ran s) (dropped s) (settles s) (jobbed s) (intr s) (exhausted s) (outs s).
Definition set_queue x s := mkS (proms s) (pairs s) (combs s) x (log s) (tlog s) (next_pn s) (fresh s) (enq s) (ran s) (dropped s) (settles s) (jobbed s) (intr s) (exhausted s) (outs s).
Definition set_log x s := mkS (proms s) (pairs s) (combs s) (queue s) x (tlog s) (next_pn s) (fresh s) (enq s) (ran s) (dropped s) (settles s) (jobbed s) (intr s) (exhausted s) (outs s).
Definition set_tlog x s := mkS (proms s) (pairs s) (combs s) (queue s) (log s) x (next_pn s) (fresh s) (enq s) (ran s) (dropped s) (settles s) (jobbed s) (intr s) (exhausted s) (outs s).
Definition set_next_pn x s := mkS (proms s) (pairs s) (combs s) (queue s) (log s) (tlog s) x (fresh s) (enq s) (ran s) (dropped s) (settles s) (jobbed s) (intr s) (exhausted s) (outs s).
Definition set_fresh x s := mkS (proms s) (pairs s) (combs s) (queue s) (log s) (tlog s) (next_pn s) x (enq s) (ran s) (dropped s) (settles s) (jobbed s) (intr s) (exhausted s) (outs s).
Definition set_enq x s := mkS (proms s) (pairs s) (combs s) (queue s) (log s) (tlog s) (next_pn s) (fresh s) x (ran s) (dropped s) (settles s) (jobbed s) (intr s) (exhausted s) (outs s).
Definition set_ran x s := mkS (proms s) (pairs s) (combs s) (queue s) (log s) (tlog s) (next_pn s) (fresh s) (enq s) x (dropped s) (settles s) (jobbed s) (intr s) (exhausted s) (outs s).
Definition set_dropped x s := mkS (proms s) (pairs s) (combs s) (queue s) (log s) (tlog s) (next_pn s) (fresh s) (enq s) (ran s) x (settles s) (jobbed s) (intr s) (exhausted s) (outs s).
Definition set_settles x s := mkS (proms s) (pairs s) (combs s) (queue s) (log s) (tlog s) (next_pn s) (fresh s) (enq s) (ran s) (dropped s) x (jobbed s) (intr s) (exhausted s) (outs s).
Definition set_jobbed x s := mkS (proms s) (pairs s) (combs s) (queue s) (log s) (tlog s) (next_pn s) (fresh s) (enq s) (ran s) (dropped s) (settles s) x (intr s) (exhausted s) (outs s).
Definition set_intr x s := mkS (proms s) (pairs s) (combs s) (queue s) (log s) (tlog s) (next_pn s) (fresh s) (enq s) (ran s) (dropped s) (settles s) (jobbed s) x (exhausted s) (outs s).
Definition set_exhausted x s := mkS (proms s) (pairs s) (combs s) (queue s) (log s) (tlog s) (next_pn s) (fresh s) (enq s) (ran s) (dropped s) (settles s) (jobbed s) (intr s) x (outs s).
Definition set_outs x s := mkS (proms s) (pairs s) (combs s) (queue s) (log s) (tlog s) (next_pn s) (fresh s) (enq s) (ran s) (dropped s) (settles s) (jobbed s) (intr s) (exhausted s) x.

(* ---------------------------------------------------------------------------------------------- *)
(* finite maps as association lists *)

Fixpoint aget {K V} (eqb : K -> K -> bool) (k : K) (l : list (K * V)) : option V :=
  match l with [] => None | (k', v) :: r => if eqb k k' then Some v else aget eqb k r end.
Fixpoint aupd {K V} (eqb : K -> K -> bool) (k : K) (f : V -> V) (l : list (K * V)) : list (K * V) :=
  match l with [] => [] | (k', v) :: r => if eqb k k' then (k', f v) :: r else (k', v) :: aupd eqb k f r end.

Definition get_prom (p : pid) (s : state) : option prom := aget pid_eqb p (proms s).
Definition upd_prom (p : pid) (f : prom -> prom) (s : state) : state := set_proms (aupd pid_eqb p f (proms s)) s.
Definition get_pair (r : prid) (s : state) : option pair := aget prid_eqb r (pairs s).

Fixpoint lupd {A} (i : nat) (f : A -> A) (l : list A) : list A :=
  match l, i with [], _ => [] | x :: r, O => f x :: r | x :: r, S j => x :: lupd j f r end.

(* ---------------------------------------------------------------------------------------------- *)
(* primitives *)

Definition jids (q : list job) : list nat := map j_id q.

(* enqueuePromiseJob / HostEnqueuePromiseJob: append; the job gets a unique id (ghost) *)
Definition enqueue (k : jobk) (s : state) : state :=
  let id := fresh s in
  let s := set_fresh (S id) s in
  let s := set_enq (enq s ++ [id]) s in
  let s := match k with JReact r _ => set_jobbed (jobbed s ++ [r_id r]) s | _ => s end in
  set_queue (queue s ++ [mkJ id k]) s.

(* triggerPromiseReactions *)
Definition trigger (rs : list reaction) (arg : val) (s : state) : state :=
  fold_left (fun s r => enqueue (JReact r arg) s) rs s.

Definition track (p : pid) (k : tkind) (s : state) : state := set_tlog (tlog s ++ [(p, k)]) s.

(* Promise.fulfill / FulfillPromise.  As in goja there is no state test here: that the promise is
   pending is a consequence of the alreadyResolved latches (theorem settle_once). *)
Definition fulfill_p (p : pid) (v : val) (s : state) : state :=
  match get_prom p s with
  | None => s
  | Some pr =>
      let reactions := p_fr pr in
      let s := upd_prom p (fun _ => mkP Fulfilled v [] [] (p_handled pr)) s in
      let s := set_settles (settles s ++ [p]) s in
      trigger reactions v s
  end.

(* Promise.reject / RejectPromise *)
Definition reject_p (p : pid) (v : val) (s : state) : state :=
  match get_prom p s with
  | None => s
  | Some pr =>
      let reactions := p_rr pr in
      let s := upd_prom p (fun _ => mkP Rejected v [] [] (p_handled pr)) s in
      let s := set_settles (settles s ++ [p]) s in
      let s := if p_handled pr then s else track p TReject s in
      trigger reactions v s
  end.

Definition latch (r : prid) (s : state) : state :=
  set_pairs (aupd prid_eqb r (fun pa => mkPair (pr_owner pa) true) (pairs s)) s.

Section WithThenables.
Variable T : list thenable.      (* the thenable objects of the program *)

(* the resolve function of a pair (createResolvingFunctions, first closure) *)
Definition resolve_fn (r : prid) (x : val) (s : state) : state :=
  match get_pair r s with
  | None => s
  | Some pa =>
      if pr_latched pa then s else
      let s := latch r s in
      let p := pr_owner pa in
      match x with
      | VProm q => if pid_eqb q p then reject_p p VTypeErr s
                   else enqueue (JThenable p x) s          (* a promise's then is callable *)
      | VThen t =>
          match nth_error T t with
          | Some (TFun _ _) => enqueue (JThenable p x) s
          | Some (TGetThrow e) => reject_p p e s           (* Get(resolution,"then") abrupt *)
          | _ => fulfill_p p x s                           (* then not callable *)
          end
      | _ => fulfill_p p x s
      end
  end.

(* the reject function of a pair *)
Definition reject_fn (r : prid) (x : val) (s : state) : state :=
  match get_pair r s with
  | None => s
  | Some pa => if pr_latched pa then s else reject_p (pr_owner pa) x (latch r s)
  end.

(* allocation *)
Definition new_prom (p : pid) (s : state) : state :=
  set_proms (proms s ++ [(p, mkP Pending VUndef [] [] false)]) s.
Definition new_pair (r : prid) (owner : pid) (s : state) : state :=
  set_pairs (pairs s ++ [(r, mkPair owner false)]) s.

(* newPromiseCapability(%Promise%) for an internal promise *)
Definition new_cap_int (s : state) : pid * prid * state :=
  let n := fresh s in
  let s := set_fresh (S n) s in
  (PI n, RI n, new_pair (RI n) (PI n) (new_prom (PI n) s)).

(* the same for a promise the program can name; [user] = the program also holds the pair *)
Definition new_cap_named (user : bool) (s : state) : pid * prid * state :=
  let k := next_pn s in
  let s := set_next_pn (S k) s in
  if user then (PN k, RU k, new_pair (RU k) (PN k) (new_prom (PN k) s))
  else let n := fresh s in
       let s := set_fresh (S n) s in
       (PN k, RI n, new_pair (RI n) (PN k) (new_prom (PN k) s)).

(* a fresh pair for an existing promise (thenable job) *)
Definition new_pair_for (p : pid) (s : state) : prid * state :=
  let n := fresh s in
  let s := set_fresh (S n) s in
  (RI n, new_pair (RI n) p s).

(* performPromiseThen + addReactions *)
Definition perform_then (p : pid) (onF onR : handler) (cap : option prid) (s : state) : state :=
  match get_prom p s with
  | None => s
  | Some pr =>
      let n := fresh s in
      let s := set_fresh (S (S n)) s in
      let fr := mkR n cap true onF in
      let rr := mkR (S n) cap false onR in
      let s :=
        match p_state pr with
        | Pending => upd_prom p (fun q => mkP (p_state q) (p_result q) (p_fr q ++ [fr]) (p_rr q ++ [rr]) (p_handled q)) s
        | Fulfilled => enqueue (JReact fr (p_result pr)) s
        | Rejected =>
            let s := if p_handled pr then s else track p THandle s in
            enqueue (JReact rr (p_result pr)) s
        end in
      upd_prom p (fun q => mkP (p_state q) (p_result q) (p_fr q) (p_rr q) true) s
  end.

(* Promise.resolve(x) with C = %Promise% *)
Definition promise_resolve (x : val) (s : state) : pid * state :=
  match x with
  | VProm q => (q, s)
  | _ => let '(p, cap, s) := new_cap_int s in (p, resolve_fn cap x s)
  end.

(* ---------------------------------------------------------------------------------------------- *)
(* combinators *)

Definition get_comb (c : nat) (s : state) : option comb := nth_error (combs s) c.
Definition upd_comb (c : nat) (f : comb -> comb) (s : state) : state := set_combs (lupd c f (combs s)) s.

(* remainingElementsCount-- ; if 0 settle the capability *)
Definition comb_dec (c : nat) (s : state) : state :=
  let s := upd_comb c (fun cb => mkC (c_kind cb) (c_cap cb) (c_vals cb) (pred (c_rem cb)) (c_called cb)) s in
  match get_comb c s with
  | None => s
  | Some cb =>
      if Nat.eqb (c_rem cb) 0 then
        match c_kind cb with
        | CAny => reject_fn (c_cap cb) (VAggr (c_vals cb)) s
        | _ => resolve_fn (c_cap cb) (VArr (c_vals cb)) s
        end
      else s
  end.

(* the per-element closure: alreadyCalled latch, store, count down *)
Definition elem_fn (c i : nat) (ful : bool) (arg : val) (s : state) : state :=
  match get_comb c s with
  | None => s
  | Some cb =>
      if nth i (c_called cb) true then s else
      let v := match c_kind cb with CAllSettled => VSettled ful arg | _ => arg end in
      let s := upd_comb c (fun cb => mkC (c_kind cb) (c_cap cb) (lupd i (fun _ => v) (c_vals cb)) (c_rem cb)
                                        (lupd i (fun _ => true) (c_called cb))) s in
      comb_dec c s
  end.

Definition comb_elem (k : ckind) (cap : prid) (c : nat) (s : state) (x : val) : state :=
  match k with
  | CRace =>
      let '(np, s) := promise_resolve x s in
      let '(_, dcap, s) := new_cap_int s in
      perform_then np (HCapRes cap) (HCapRej cap) (Some dcap) s
  | _ =>
      match get_comb c s with
      | None => s
      | Some cb =>
          let i := length (c_vals cb) in
          let s := upd_comb c (fun cb => mkC (c_kind cb) (c_cap cb) (c_vals cb ++ [VUndef]) (c_rem cb) (c_called cb ++ [false])) s in
          let '(np, s) := promise_resolve x s in
          let s := upd_comb c (fun cb => mkC (c_kind cb) (c_cap cb) (c_vals cb) (S (c_rem cb)) (c_called cb)) s in
          let '(_, dcap, s) := new_cap_int s in
          match k with
          | CAll => perform_then np (HElemF c i) (HCapRej cap) (Some dcap) s
          | CAllSettled => perform_then np (HElemF c i) (HElemR c i) (Some dcap) s
          | _ => perform_then np (HCapRes cap) (HElemR c i) (Some dcap) s
          end
      end
  end.

Definition exec_comb (k : ckind) (elems : list val) (s : state) : state :=
  let '(_, cap, s) := new_cap_named false s in
  let c := length (combs s) in
  let s := set_combs (combs s ++ [mkC k cap [] 1 []]) s in
  let s := fold_left (comb_elem k cap c) elems s in
  match k with CRace => s | _ => comb_dec c s end.

(* ---------------------------------------------------------------------------------------------- *)
(* async functions.  asyncRunner.step (func.go) / AsyncFunctionStart + Await (27.7.5):
   run the body up to the next await or to its end.
   await v : promise := PromiseResolve(%Promise%, v); PerformPromiseThen(promise, onFulfilled, onRejected)
             with NO result capability; the continuation runs as the reaction job.
   end     : promiseCap.resolve(result) — through the resolve function, so returning a promise costs
             the thenable job and its then job — or promiseCap.reject(exception). *)

(* an exception inside the body: caught by the body's own try/catch (logs, then the function
   completes normally with undefined) or it rejects the function's promise *)
Definition async_throw (b : abody) (e : val) (s : state) : state :=
  if ab_catch b then resolve_fn (ab_cap b) VUndef (set_log (log s ++ [(500 + ab_id b, e)]) s)
  else reject_fn (ab_cap b) e s.

Definition async_step (b : abody) (s : state) : state :=
  match ab_rest b with
  | v :: rest =>
      let '(p, s) := promise_resolve v s in
      let b' := mkA (ab_cap b) (ab_id b) (ab_catch b) rest (ab_end b) in
      perform_then p (HAsyncF b') (HAsyncR b') None s
  | [] =>
      match ab_end b with
      | ARet v => resolve_fn (ab_cap b) v s
      | AThrow v => async_throw b v s
      end
  end.

(* ---------------------------------------------------------------------------------------------- *)
(* top-level operations of a run *)

Definition opt_handler (o : option script) : handler :=
  match o with Some sc => HUser sc | None => HNone end.

Definition exec_op (s : state) (o : op) : state :=
  match o with
  | ONew => let '(_, _, s) := new_cap_named true s in s
  | ORes pr v => resolve_fn (RU pr) v s
  | ORej pr v => reject_fn (RU pr) v s
  | OThen p onF onR =>
      match get_prom (PN p) s with
      | None => s
      | Some _ =>
          let '(_, cap, s) := new_cap_named false s in
          perform_then (PN p) (opt_handler onF) (opt_handler onR) (Some cap) s
      end
  | OComb k elems => exec_comb k elems s
  | OAsync id catch awaits e =>                       (* asyncRunner.start *)
      let '(_, cap, s) := new_cap_named false s in
      async_step (mkA cap id catch awaits e) (set_log (log s ++ [(id, VUndef)]) s)
  | OFinally p fin =>
      match get_prom (PN p) s with
      | None => s
      | Some _ =>
          let '(_, cap, s) := new_cap_named false s in
          perform_then (PN p) (HFinF fin) (HFinR fin) (Some cap) s
      end
  end.

Definition run_ops (ops : list op) (s : state) : state := fold_left exec_op ops s.

(* ---------------------------------------------------------------------------------------------- *)
(* jobs *)

(* [cb] = what the exit path of a nested outermost call does to the state (the nested leave()).
   S: nothing (the specification has no re-entrant host drain); I: [leave_nested], below. *)
Definition exec_act (cb : state -> state) (s : state) (a : act) : state :=
  match a with
  | ARes pr v => resolve_fn (RU pr) v s
  | ARej pr v => reject_fn (RU pr) v s
  | AResN pr v => cb (resolve_fn (RU pr) v s)
  | ARejN pr v => cb (reject_fn (RU pr) v s)
  end.

(* the steps of a thenable's then(res,rej); a throw ends it and is passed to rej *)
Fixpoint exec_tsteps (pr : prid) (steps : list tstep) (s : state) : state :=
  match steps with
  | [] => s
  | TRes v :: r => exec_tsteps pr r (resolve_fn pr v s)
  | TRej v :: r => exec_tsteps pr r (reject_fn pr v s)
  | TThrow v :: _ => reject_fn pr v s
  end.

(* reaction.capability.resolve / reject; nothing if there is no capability *)
Definition cres (c : option prid) (v : val) (s : state) : state :=
  match c with Some r => resolve_fn r v s | None => s end.
Definition crej (c : option prid) (v : val) (s : state) : state :=
  match c with Some r => reject_fn r v s | None => s end.

(* thenFinally / catchFinally: result := onFinally(); promise := PromiseResolve(C, result);
   return promise.then(valueThunk | thrower) *)
Definition exec_finally (cb : state -> state) (sc : script) (ful : bool) (arg : val) (cap : option prid) (s : state) : state :=
  let s := set_log (log s ++ [(s_id sc, VUndef)]) s in
  let s := fold_left (exec_act cb) (s_acts sc) s in
  let continue (v : val) (s : state) : state :=
    let '(np, s) := promise_resolve v s in
    let '(d, dcap, s) := new_cap_int s in
    let s := perform_then np (if ful then HThunkVal arg else HThunkThrow arg) HNone (Some dcap) s in
    cres cap (VProm d) s in
  match s_ret sc with
  | RetVal v => continue v s
  | RetArg => continue VUndef s                      (* onFinally is called without arguments *)
  | Throw v => crej cap v s
  | Intr => set_intr true s
  end.

Definition exec_job (cb : state -> state) (j : job) (s : state) : state :=
  match j_kind j with
  | JReact r arg =>                                  (* newPromiseReactionJob *)
      let cap := r_cap r in
      match r_handler r with
      | HNone => if r_ful r then cres cap arg s else crej cap arg s
      | HUser sc =>
          let s := set_log (log s ++ [(s_id sc, arg)]) s in
          let s := fold_left (exec_act cb) (s_acts sc) s in
          match s_ret sc with
          | RetVal v => cres cap v s
          | RetArg => cres cap arg s
          | Throw v => crej cap v s
          | Intr => set_intr true s                  (* uncatchable: unwinds through the job and leave() *)
          end
      | HCapRes pr => cres cap VUndef (resolve_fn pr arg s)
      | HCapRej pr => cres cap VUndef (reject_fn pr arg s)
      | HElemF c i => cres cap VUndef (elem_fn c i true arg s)
      | HElemR c i => cres cap VUndef (elem_fn c i false arg s)
      (* onFulfilled: gen.next(arg) resumes the body after the await; onRejected: gen.nextThrow(arg) *)
      | HAsyncF b => cres cap VUndef (async_step b (set_log (log s ++ [(ab_id b, arg)]) s))
      | HAsyncR b => cres cap VUndef (async_throw b arg s)
      | HFinF sc => exec_finally cb sc true arg cap s
      | HFinR sc => exec_finally cb sc false arg cap s
      | HThunkVal v => cres cap v s
      | HThunkThrow v => crej cap v s
      end
  | JThenable p x =>                                 (* newPromiseResolveThenableJob *)
      let '(pr, s) := new_pair_for p s in
      match x with
      | VProm q =>                                   (* q.then(resolve, reject), builtin then *)
          let '(_, dcap, s) := new_cap_int s in
          perform_then q (HCapRes pr) (HCapRej pr) (Some dcap) s
      | VThen t =>
          match nth_error T t with
          | Some (TFun id steps) => exec_tsteps pr steps (set_log (log s ++ [(id, VUndef)]) s)
          | _ => s
          end
      | _ => s
      end
  end.

Definition mark_ran (j : job) (s : state) : state := set_ran (ran s ++ [j_id j]) s.

(* ---------------------------------------------------------------------------------------------- *)
(* S: plain FIFO job queue.  Fuel counts executed jobs; running out of fuel is recorded in
   [exhausted] (the remaining jobs are accounted as dropped). *)

Definition drop_all (more : list job) (s : state) : state :=
  set_queue [] (set_dropped (dropped s ++ jids more ++ jids (queue s)) s).

Fixpoint drainS (fuel : nat) (s : state) : state :=
  match fuel with
  | O => match queue s with [] => s | _ => set_exhausted true (drop_all [] s) end
  | S f =>
      match queue s with
      | [] => s
      | j :: rest =>
          let s1 := exec_job (fun s0 => s0) j (mark_ran j (set_queue rest s)) in
          if intr s1 then drop_all [] s1       (* the host discards the queue on termination *)
          else drainS f s1
      end
  end.

(* I: Runtime.leave():   if r.draining { return }                       (since f7b1efa)
                         r.draining = true; defer func() { r.draining = false }()
                         var jobs []func()
                         for len(r.jobQueue) > 0 { jobs, r.jobQueue = r.jobQueue, jobs[:0]
                                                   for _, job := range jobs { job() } }
                         r.jobQueue = nil
   [jobs] is the batch being ranged over; enqueuePromiseJob appends to [queue].  An interrupt inside
   a job unwinds out of both loops to RunProgram/runWrapped, which calls leaveAbrupt
   (r.jobQueue = nil): the rest of the batch and the queue are never run.

   A native reaction handler running in a drain that was started with an empty call stack (a Go-side
   resolver / Callable through runWrapped) may call another outermost entry point; that call ends in
   leave() again.  [r.draining] is true for exactly the dynamic extent of the outer leave(), so it is
   rendered as the parameter [flagged] of the loop rather than as a field: with the flag the nested
   leave() returns at once ([leave_nested true]); [flagged = false] is the code before f7b1efa, where
   the nested leave() ran a complete drain of its own from inside the job. *)
Definition leave_nested (draining : bool) (drain : state -> state) (s : state) : state :=
  if draining then s else drain s.

Fixpoint leaveI_gen (flagged : bool) (fuel : nat) (jobs : list job) (s : state) : state :=
  match fuel with
  | O => match jobs, queue s with [], [] => s | _, _ => set_exhausted true (drop_all jobs s) end
  | S f =>
      let cb := leave_nested flagged (leaveI_gen flagged f []) in
      match jobs with
      | j :: rest =>
          let s1 := exec_job cb j (mark_ran j s) in
          if intr s1 then drop_all rest s1 else leaveI_gen flagged f rest s1
      | [] =>
          match queue s with
          | [] => s
          | j :: rest =>                              (* swap the buffers, start the next batch *)
              let s1 := exec_job cb j (mark_ran j (set_queue [] s)) in
              if intr s1 then drop_all rest s1 else leaveI_gen flagged f rest s1
          end
      end
  end.

Definition leaveI := leaveI_gen true.            (* the current code *)
Definition leaveI_old := leaveI_gen false.       (* before f7b1efa: re-entrant *)

(* one run = one outermost call into the runtime (RunString / a Go-side resolver through
   runWrapped): execute the ops, drain, record what the embedder sees at return.
   Clearing [intr] is leaveAbrupt's ClearInterrupt. *)
Definition end_run (s : state) : state :=
  set_intr false (set_outs (outs s ++ [(intr s, length (queue s), length (log s))]) s).

Definition runS1 (fuel : nat) (s : state) (ops : list op) : state := end_run (drainS fuel (run_ops ops s)).
Definition runI1 (fuel : nat) (s : state) (ops : list op) : state := end_run (leaveI fuel [] (run_ops ops s)).

Definition runS (fuel : nat) (runs : list (list op)) : state := fold_left (runS1 fuel) runs init.
Definition runI (fuel : nat) (runs : list (list op)) : state := fold_left (runI1 fuel) runs init.
Definition runI_old (fuel : nat) (runs : list (list op)) : state :=
  fold_left (fun s ops => end_run (leaveI_old fuel [] (run_ops ops s))) runs init.

End WithThenables.
