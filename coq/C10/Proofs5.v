(* C10 — proofs, part 5: fuel is only a bound.  A history that did not exhaust its fuel is the same
   with any larger fuel: the states the correspondence check compares (it requires exhausted = false)
   are the fuel-free semantics of the program. *)
From Coq Require Import List Arith Bool Lia.
Import ListNotations.
From Verif.C10 Require Import Model Proofs.
Local Notation idc := (fun s0 : state => s0).

Ltac ds := intros; match goal with s : state |- _ => destruct s end; try reflexivity.

Lemma x_proms x s : exhausted (set_proms x s) = exhausted s. Proof. ds. Qed.
Lemma x_pairs x s : exhausted (set_pairs x s) = exhausted s. Proof. ds. Qed.
Lemma x_combs x s : exhausted (set_combs x s) = exhausted s. Proof. ds. Qed.
Lemma x_queue x s : exhausted (set_queue x s) = exhausted s. Proof. ds. Qed.
Lemma x_log x s : exhausted (set_log x s) = exhausted s. Proof. ds. Qed.
Lemma x_tlog x s : exhausted (set_tlog x s) = exhausted s. Proof. ds. Qed.
Lemma x_next_pn x s : exhausted (set_next_pn x s) = exhausted s. Proof. ds. Qed.
Lemma x_fresh x s : exhausted (set_fresh x s) = exhausted s. Proof. ds. Qed.
Lemma x_enq x s : exhausted (set_enq x s) = exhausted s. Proof. ds. Qed.
Lemma x_ran x s : exhausted (set_ran x s) = exhausted s. Proof. ds. Qed.
Lemma x_dropped x s : exhausted (set_dropped x s) = exhausted s. Proof. ds. Qed.
Lemma x_settles x s : exhausted (set_settles x s) = exhausted s. Proof. ds. Qed.
Lemma x_jobbed x s : exhausted (set_jobbed x s) = exhausted s. Proof. ds. Qed.
Lemma x_intr x s : exhausted (set_intr x s) = exhausted s. Proof. ds. Qed.
Lemma x_outs x s : exhausted (set_outs x s) = exhausted s. Proof. ds. Qed.
Lemma x_enqueue k s : exhausted (enqueue k s) = exhausted s. Proof. destruct s, k; reflexivity. Qed.
#[export] Hint Rewrite x_proms x_pairs x_combs x_queue x_log x_tlog x_next_pn x_fresh x_enq x_ran x_dropped x_settles
  x_jobbed x_intr x_outs x_enqueue : xh.

Ltac xh :=
  intros; autorewrite with xh; try reflexivity;
  repeat (match goal with
          | |- context[match ?x with _ => _ end] => destruct x eqn:?
          end; autorewrite with xh; try reflexivity).

Lemma fold_left_pres {A B} (g : A -> bool) (f : A -> B -> A) :
  (forall a b, g (f a b) = g a) -> forall l a, g (fold_left f l a) = g a.
Proof. intros H l. induction l; simpl; intros; auto. rewrite IHl. apply H. Qed.

Lemma x_trigger rs a s : exhausted (trigger rs a s) = exhausted s.
Proof. unfold trigger. apply fold_left_pres. intros; apply x_enqueue. Qed.
Lemma x_track p k s : exhausted (track p k s) = exhausted s. Proof. unfold track. xh. Qed.
Lemma x_upd_prom p f s : exhausted (upd_prom p f s) = exhausted s. Proof. unfold upd_prom. xh. Qed.
Lemma x_latch r s : exhausted (latch r s) = exhausted s. Proof. unfold latch. xh. Qed.
Lemma x_new_prom p s : exhausted (new_prom p s) = exhausted s. Proof. unfold new_prom. xh. Qed.
Lemma x_new_pair r o s : exhausted (new_pair r o s) = exhausted s. Proof. unfold new_pair. xh. Qed.
Lemma x_upd_comb c f s : exhausted (upd_comb c f s) = exhausted s. Proof. unfold upd_comb. xh. Qed.
#[export] Hint Rewrite x_trigger x_track x_upd_prom x_latch x_new_prom x_new_pair x_upd_comb : xh.
Lemma x_fulfill_p p v s : exhausted (fulfill_p p v s) = exhausted s. Proof. unfold fulfill_p. xh. Qed.
Lemma x_reject_p p v s : exhausted (reject_p p v s) = exhausted s. Proof. unfold reject_p. xh. Qed.
#[export] Hint Rewrite x_fulfill_p x_reject_p : xh.
Lemma x_perform_then p a b c s : exhausted (perform_then p a b c s) = exhausted s.
Proof. unfold perform_then. xh. Qed.
#[export] Hint Rewrite x_perform_then : xh.

Section T.
Variable T : list thenable.

Lemma x_resolve_fn r x s : exhausted (resolve_fn T r x s) = exhausted s. Proof. unfold resolve_fn. xh. Qed.
Lemma x_reject_fn r x s : exhausted (reject_fn r x s) = exhausted s. Proof. unfold reject_fn. xh. Qed.
Hint Rewrite x_resolve_fn x_reject_fn : xh.
Lemma x_cres c v s : exhausted (cres T c v s) = exhausted s. Proof. unfold cres. xh. Qed.
Lemma x_crej c v s : exhausted (crej c v s) = exhausted s. Proof. unfold crej. xh. Qed.
Hint Rewrite x_cres x_crej : xh.
Lemma x_comb_dec c s : exhausted (comb_dec T c s) = exhausted s. Proof. unfold comb_dec. xh. Qed.
Hint Rewrite x_comb_dec : xh.
Lemma x_elem_fn c i b a s : exhausted (elem_fn T c i b a s) = exhausted s. Proof. unfold elem_fn. xh. Qed.
Hint Rewrite x_elem_fn : xh.
Lemma x_exec_act s a : exhausted (exec_act T idc s a) = exhausted s. Proof. unfold exec_act. xh. Qed.
Lemma x_exec_acts l s : exhausted (fold_left (exec_act T idc) l s) = exhausted s.
Proof. apply fold_left_pres. intros; apply x_exec_act. Qed.
Hint Rewrite x_exec_acts : xh.
Lemma x_exec_tsteps r l : forall s, exhausted (exec_tsteps T r l s) = exhausted s.
Proof. induction l as [|a l IH]; simpl; intros; auto. destruct a; rewrite ?IH; xh. Qed.
Hint Rewrite x_exec_tsteps : xh.

Lemma x_new_cap_int s : exhausted (snd (new_cap_int s)) = exhausted s.
Proof. unfold new_cap_int. cbv beta iota zeta. simpl. xh. Qed.
Lemma x_new_cap_named u s : exhausted (snd (new_cap_named u s)) = exhausted s.
Proof. unfold new_cap_named. cbv beta iota zeta. destruct u; cbn [snd]; xh. Qed.
Lemma x_promise_resolve x s : exhausted (snd (promise_resolve T x s)) = exhausted s.
Proof. unfold promise_resolve, new_cap_int. cbv beta iota zeta. destruct x; simpl; xh. Qed.

Ltac split_pr :=
  match goal with
  | |- context[promise_resolve T ?x ?s0] =>
      let HP := fresh "HP" in
      pose proof (x_promise_resolve x s0) as HP;
      destruct (promise_resolve T x s0) as [? ?]; simpl in HP
  end.
Ltac split_nc :=
  match goal with
  | |- context[new_cap_int ?s0] =>
      let HP := fresh "HP" in
      pose proof (x_new_cap_int s0) as HP;
      destruct (new_cap_int s0) as [[? ?] ?]; simpl in HP
  end.
Ltac split_nn :=
  match goal with
  | |- context[new_cap_named ?u ?s0] =>
      let HP := fresh "HP" in
      pose proof (x_new_cap_named u s0) as HP;
      destruct (new_cap_named u s0) as [[? ?] ?]; simpl in HP
  end.
Ltac fin := autorewrite with xh; repeat match goal with H : exhausted _ = _ |- _ => rewrite H; clear H end; autorewrite with xh; try reflexivity.

Lemma x_async_throw b e s : exhausted (async_throw T b e s) = exhausted s. Proof. unfold async_throw. xh. Qed.
Hint Rewrite x_async_throw : xh.
Lemma x_async_step b s : exhausted (async_step T b s) = exhausted s.
Proof. unfold async_step. destruct (ab_rest b); [xh|]. split_pr. fin. Qed.
Hint Rewrite x_async_step : xh.
Lemma x_exec_finally sc ful arg cap s : exhausted (exec_finally T idc sc ful arg cap s) = exhausted s.
Proof.
  unfold exec_finally. cbv beta zeta.
  destruct (s_ret sc); try solve [xh]; split_pr; split_nc; fin.
Qed.
Hint Rewrite x_exec_finally : xh.

Lemma x_exec_job j s : exhausted (exec_job T idc j s) = exhausted s.
Proof.
  unfold exec_job. destruct (j_kind j) as [r a|p x]; [xh|].
  unfold new_pair_for. cbv beta iota zeta. destruct x; try solve [xh]. split_nc. fin.
Qed.

Lemma x_comb_elem k cap c s x : exhausted (comb_elem T k cap c s x) = exhausted s.
Proof.
  unfold comb_elem.
  destruct k; try (destruct (get_comb c s); auto); split_pr; split_nc; fin.
Qed.

Lemma x_exec_comb k elems s : exhausted (exec_comb T k elems s) = exhausted s.
Proof.
  unfold exec_comb. split_nn.
  match goal with |- exhausted (match k with CRace => ?f | _ => _ end) = _ => assert (F : exhausted f = exhausted s) end.
  { rewrite fold_left_pres by (intros; apply x_comb_elem). fin. }
  destruct k; auto; rewrite x_comb_dec; auto.
Qed.

Lemma x_exec_op s o : exhausted (exec_op T s o) = exhausted s.
Proof.
  destruct o; cbn [exec_op]; try solve [xh]; try apply x_exec_comb;
    try (destruct (get_prom (PN p) s); auto); try split_nn; fin.
Qed.

Lemma x_run_ops ops s : exhausted (run_ops T ops s) = exhausted s.
Proof. apply fold_left_pres. intros; apply x_exec_op. Qed.

Lemma x_end_run s : exhausted (end_run s) = exhausted s. Proof. destruct s; reflexivity. Qed.
Lemma x_drop_all m s : exhausted (drop_all m s) = exhausted s. Proof. destruct s; reflexivity. Qed.
Lemma x_mark_ran j s : exhausted (mark_ran j s) = exhausted s. Proof. destruct s; reflexivity. Qed.

(* the flag is sticky *)
Lemma drainS_sticky fuel : forall s, exhausted s = true -> exhausted (drainS T fuel s) = true.
Proof.
  induction fuel; intros s H; cbn [drainS].
  - destruct (queue s); auto.
  - destruct (queue s) as [|j rest]; auto.
    assert (H1 : exhausted (exec_job T idc j (mark_ran j (set_queue rest s))) = true)
      by (rewrite x_exec_job, x_mark_ran, x_queue; auto).
    destruct (intr _); auto; rewrite x_drop_all; auto.
Qed.

Lemma runS1_sticky fuel s ops : exhausted s = true -> exhausted (runS1 T fuel s ops) = true.
Proof. intros H. unfold runS1. rewrite x_end_run. apply drainS_sticky. rewrite x_run_ops. auto. Qed.

Lemma fold_sticky fuel runs : forall s, exhausted s = true -> exhausted (fold_left (runS1 T fuel) runs s) = true.
Proof. induction runs; simpl; intros; auto. apply IHruns, runS1_sticky; auto. Qed.

(* a drain that did not exhaust its fuel is unchanged by more fuel *)
Lemma drainS_more fuel k : forall s, exhausted (drainS T fuel s) = false -> drainS T (fuel + k) s = drainS T fuel s.
Proof.
  induction fuel; intros s H.
  - cbn [drainS] in *. destruct (queue s) eqn:Q.
    + destruct k; cbn [plus drainS]; rewrite Q; reflexivity.
    + destruct s; discriminate.
  - cbn [plus drainS] in *. destruct (queue s) as [|j rest]; auto.
    destruct (intr _); auto.
Qed.

Lemma runS_more fuel k runs : forall s,
  exhausted (fold_left (runS1 T fuel) runs s) = false ->
  fold_left (runS1 T (fuel + k)) runs s = fold_left (runS1 T fuel) runs s.
Proof.
  induction runs as [|r runs IH]; simpl; intros s H; auto.
  assert (E : exhausted (runS1 T fuel s r) = false).
  { destruct (exhausted (runS1 T fuel s r)) eqn:X; auto. rewrite fold_sticky in H; auto. }
  assert (R : runS1 T (fuel + k) s r = runS1 T fuel s r).
  { unfold runS1 in *. rewrite x_end_run in E. rewrite drainS_more; auto. }
  rewrite R. apply IH, H.
Qed.

Theorem fuel_irrelevant fuel k runs :
  exhausted (runI T fuel runs) = false -> runI T (fuel + k) runs = runI T fuel runs.
Proof. rewrite !runI_runS. unfold runS. apply runS_more. Qed.

End T.
