(* C10 — proofs, part 3: the alreadyResolved latches make every promise settle at most once, and the
   rejection tracker is told "reject" then "handle" as HostPromiseRejectionTracker prescribes.

   Tokens: a promise can be settled only through an unlatched resolving pair, or after a pending
   thenable job has created a new pair for it.  Invariant: the multiset of (owners of unlatched pairs)
   ++ (targets of queued thenable jobs) has no duplicates and consists of pending promises. *)
From Coq Require Import List Arith Bool Lia Permutation.
Import ListNotations.
From Verif.C10 Require Import Model Proofs Proofs2.
Local Notation idc := (fun s0 : state => s0).

Definition tok_pairs (l : list (prid * pair)) : list pid :=
  flat_map (fun e => if pr_latched (snd e) then [] else [pr_owner (snd e)]) l.
Definition tok_jobs (q : list job) : list pid :=
  flat_map (fun j => match j_kind j with JThenable p _ => [p] | _ => [] end) q.
Definition tokens (s : state) : list pid := tok_pairs (pairs s) ++ tok_jobs (queue s).

Definition pget (p : pid) (s : state) := aget pid_eqb p (proms s).
Definition pend (s : state) (p : pid) : Prop :=
  match pget p s with Some pr => p_state pr = Pending | None => False end.
Definition bounded (s : state) : Prop :=
  forall p pr, pget p s = Some pr -> match p with PN k => k < next_pn s | PI n => n < fresh s end.

Definition tf (p : pid) (tl : list (pid * tkind)) : list tkind :=
  map snd (filter (fun e => pid_eqb (fst e) p) tl).

(* the tracker language, tied to state and handled flag *)
Definition tl_ok (s : state) (p : pid) : Prop :=
  match pget p s with
  | None => tf p (tlog s) = []
  | Some pr =>
      match p_state pr, p_handled pr with
      | Rejected, false => tf p (tlog s) = [TReject]                    (* rejected, no handler yet *)
      | Rejected, true => tf p (tlog s) = [] \/ tf p (tlog s) = [TReject; THandle]
      | _, _ => tf p (tlog s) = []
      end
  end.

Record LI (s : state) : Prop := mkLI {
  li_nodup : NoDup (tokens s);
  li_pend : forall p, In p (tokens s) -> pend s p;
  li_bnd : bounded s;
  li_snd : NoDup (settles s);
  li_sett : forall p, In p (settles s) -> exists pr, pget p s = Some pr /\ p_state pr <> Pending;
  li_tl : forall p, tl_ok s p
}.

(* ---------------------------------------------------------------------------------------------- *)
(* association lists *)

Lemma pid_eqb_eq a b : pid_eqb a b = true <-> a = b.
Proof. destruct a, b; simpl; try (split; congruence); rewrite Nat.eqb_eq; split; congruence. Qed.
Lemma pid_eqb_refl a : pid_eqb a a = true. Proof. apply pid_eqb_eq; auto. Qed.
Lemma pid_eqb_neq a b : pid_eqb a b = false <-> a <> b.
Proof. rewrite <- pid_eqb_eq. destruct (pid_eqb a b); split; congruence. Qed.
Lemma prid_eqb_eq a b : prid_eqb a b = true <-> a = b.
Proof. destruct a, b; simpl; try (split; congruence); rewrite Nat.eqb_eq; split; congruence. Qed.

Lemma aget_aupd_same {V} k (f : V -> V) l : aget pid_eqb k (aupd pid_eqb k f l) = option_map f (aget pid_eqb k l).
Proof.
  induction l as [|[k' v] l IH]; simpl; auto.
  destruct (pid_eqb k k') eqn:E; simpl; rewrite E; auto.
Qed.
Lemma aget_aupd_other {V} k k' (f : V -> V) l : k' <> k -> aget pid_eqb k' (aupd pid_eqb k f l) = aget pid_eqb k' l.
Proof.
  intros N. induction l as [|[k2 v] l IH]; simpl; auto.
  destruct (pid_eqb k k2) eqn:E; simpl.
  - apply pid_eqb_eq in E. subst k2. apply pid_eqb_neq in N. rewrite N. auto.
  - destruct (pid_eqb k' k2); auto.
Qed.
Lemma aget_snoc {V} k k' (v : V) l :
  aget pid_eqb k' (l ++ [(k, v)]) = match aget pid_eqb k' l with Some x => Some x | None => if pid_eqb k' k then Some v else None end.
Proof. induction l as [|[k2 v2] l IH]; simpl; auto. destruct (pid_eqb k' k2); auto. Qed.

(* latching the pair found by get_pair removes exactly one token: its owner *)
Lemma latch_tokens r l pa :
  aget prid_eqb r l = Some pa -> pr_latched pa = false ->
  exists l1 l2, tok_pairs l = l1 ++ pr_owner pa :: l2 /\
                tok_pairs (aupd prid_eqb r (fun pa => mkPair (pr_owner pa) true) l) = l1 ++ l2.
Proof.
  induction l as [|[k v] l IH]; simpl; intros H U; try discriminate.
  destruct (prid_eqb r k) eqn:E.
  - inversion H; subst v. simpl. rewrite U. exists [], (tok_pairs l). simpl. auto.
  - destruct (IH H U) as (l1 & l2 & A & B). simpl.
    exists ((if pr_latched v then [] else [pr_owner v]) ++ l1), l2.
    rewrite A, B, <- !app_assoc. auto.
Qed.

Lemma tok_pairs_snoc l r o : tok_pairs (l ++ [(r, mkPair o false)]) = tok_pairs l ++ [o].
Proof. unfold tok_pairs. rewrite flat_map_app. reflexivity. Qed.
Lemma tok_jobs_snoc_t q id p x : tok_jobs (q ++ [mkJ id (JThenable p x)]) = tok_jobs q ++ [p].
Proof. unfold tok_jobs. rewrite flat_map_app. reflexivity. Qed.
Lemma tok_jobs_snoc_r q id r a : tok_jobs (q ++ [mkJ id (JReact r a)]) = tok_jobs q.
Proof. unfold tok_jobs. rewrite flat_map_app. simpl. apply app_nil_r. Qed.

(* ---------------------------------------------------------------------------------------------- *)
(* a transfer lemma for everything that leaves promise states, handled flags, tokens, tracker log and
   settles alone *)

Definition same_core (s s' : state) : Prop :=
  proms s' = proms s /\ tlog s' = tlog s /\ settles s' = settles s /\
  next_pn s <= next_pn s' /\ fresh s <= fresh s'.

Lemma LI_transfer s s' :
  LI s -> same_core s s' -> NoDup (tokens s') -> (forall p, In p (tokens s') -> In p (tokens s)) -> LI s'.
Proof.
  intros [A B C D E F] (P & TL & ST & N1 & N2) ND SUB.
  assert (PG : forall p, pget p s' = pget p s) by (intros; unfold pget; rewrite P; auto).
  constructor; auto.
  - intros p H. apply SUB, B in H. unfold pend in *. rewrite PG. auto.
  - intros p pr H. rewrite PG in H. apply C in H. destruct p; lia.
  - rewrite ST; auto.
  - intros p H. rewrite ST in H. rewrite PG. auto.
  - intros p. unfold tl_ok. rewrite PG, TL. apply F.
Qed.

Ltac ds := intros; match goal with s : state |- _ => destruct s end; simpl in *; auto.

Lemma same_core_refl s : same_core s s.
Proof. unfold same_core; auto. Qed.

(* setters that touch nothing the invariant mentions *)
Ltac triv_setter := intros H; destruct H; match goal with s : state |- _ => destruct s end; constructor; auto.
Lemma LI_set_combs x s : LI s -> LI (set_combs x s). Proof. triv_setter. Qed.
Lemma LI_set_log x s : LI s -> LI (set_log x s). Proof. triv_setter. Qed.
Lemma LI_set_enq x s : LI s -> LI (set_enq x s). Proof. triv_setter. Qed.
Lemma LI_set_ran x s : LI s -> LI (set_ran x s). Proof. triv_setter. Qed.
Lemma LI_set_dropped x s : LI s -> LI (set_dropped x s). Proof. triv_setter. Qed.
Lemma LI_set_jobbed x s : LI s -> LI (set_jobbed x s). Proof. triv_setter. Qed.
Lemma LI_set_intr x s : LI s -> LI (set_intr x s). Proof. triv_setter. Qed.
Lemma LI_set_exhausted x s : LI s -> LI (set_exhausted x s). Proof. triv_setter. Qed.
Lemma LI_set_outs x s : LI s -> LI (set_outs x s). Proof. triv_setter. Qed.

Lemma LI_bump n s : fresh s <= n -> LI s -> LI (set_fresh n s).
Proof.
  intros L H. apply (LI_transfer s); auto; destruct s; try (apply H); unfold same_core, tokens in *; simpl in *; rewrite ?tok_jobs_snoc_r; try apply H; repeat split; auto; try lia.
Qed.
Lemma LI_bump1 s : LI s -> LI (set_fresh (S (fresh s)) s). Proof. apply LI_bump; lia. Qed.
Lemma LI_bump2 s : LI s -> LI (set_fresh (S (S (fresh s))) s). Proof. apply LI_bump; lia. Qed.
Lemma LI_bump_pn s : LI s -> LI (set_next_pn (S (next_pn s)) s).
Proof.
  intros H. apply (LI_transfer s); auto; destruct s; try (apply H); unfold same_core, tokens in *; simpl in *; rewrite ?tok_jobs_snoc_r; try apply H; repeat split; auto; try lia.
Qed.

Lemma LI_enqueue_react r a s : LI s -> LI (enqueue (JReact r a) s).
Proof.
  intros H. apply (LI_transfer s); auto; destruct s; try (apply H); unfold same_core, tokens in *; simpl in *; rewrite ?tok_jobs_snoc_r; try apply H; repeat split; auto; try lia.
Qed.

#[export] Hint Resolve LI_set_combs LI_set_log LI_set_enq LI_set_ran LI_set_dropped LI_set_jobbed LI_set_intr
  LI_set_exhausted LI_set_outs LI_bump1 LI_bump2 LI_bump_pn LI_enqueue_react : li.

Ltac li :=
  intros;
  repeat (try solve [auto 60 with li];
          match goal with
          | |- context[match ?x with _ => _ end] => destruct x eqn:?
          end);
  try solve [auto 60 with li].

Lemma LI_trigger rs a s : LI s -> LI (trigger rs a s).
Proof. unfold trigger. apply fold_left_inv. li. Qed.
Lemma LI_upd_comb c f s : LI s -> LI (upd_comb c f s). Proof. unfold upd_comb. li. Qed.
#[export] Hint Resolve LI_trigger LI_upd_comb : li.

(* ---------------------------------------------------------------------------------------------- *)
(* settling a pending promise that holds no token *)

Lemma tf_snoc p q k tl : tf p (tl ++ [(q, k)]) = tf p tl ++ (if pid_eqb q p then [k] else []).
Proof. unfold tf. rewrite filter_app, map_app. simpl. destruct (pid_eqb q p); reflexivity. Qed.

(* the common part of fulfill_p / reject_p before triggering *)
Definition settle_core (p : pid) (st : pstate) (v : val) (h : bool) (s : state) : state :=
  set_settles (settles s ++ [p]) (upd_prom p (fun _ => mkP st v [] [] h) s).

Lemma tokens_settle_core p st v h s : tokens (settle_core p st v h s) = tokens s.
Proof. destruct s; reflexivity. Qed.

Lemma pget_settle_core_same p st v h s pr :
  pget p s = Some pr -> pget p (settle_core p st v h s) = Some (mkP st v [] [] h).
Proof. unfold pget. destruct s; simpl. intros H. rewrite aget_aupd_same, H. reflexivity. Qed.
Lemma pget_settle_core_other p st v h s q :
  q <> p -> pget q (settle_core p st v h s) = pget q s.
Proof. unfold pget. destruct s; simpl. intros H. apply aget_aupd_other; auto. Qed.

Lemma LI_settle p st v s pr :
  LI s -> pget p s = Some pr -> p_state pr = Pending -> ~ In p (tokens s) -> st <> Pending ->
  let s1 := settle_core p st v (p_handled pr) s in
  let s2 := match st, p_handled pr with Rejected, false => track p TReject s1 | _, _ => s1 end in
  LI s2.
Proof.
  intros [A B C D E F] G PS NT NP s1 s2.
  assert (TK : tokens s2 = tokens s).
  { unfold s2. destruct st, (p_handled pr); unfold track; try apply tokens_settle_core;
    destruct s; reflexivity. }
  assert (PGs : pget p s2 = Some (mkP st v [] [] (p_handled pr))).
  { unfold s2. destruct st, (p_handled pr); unfold track; try (eapply pget_settle_core_same; eauto);
    destruct s; unfold pget in *; simpl; rewrite aget_aupd_same, G; reflexivity. }
  assert (PGo : forall q, q <> p -> pget q s2 = pget q s).
  { intros q N. unfold s2. destruct st, (p_handled pr); unfold track; try (apply pget_settle_core_other; auto);
    destruct s; unfold pget in *; simpl; apply aget_aupd_other; auto. }
  assert (ST : settles s2 = settles s ++ [p]).
  { unfold s2. destruct st, (p_handled pr); destruct s; reflexivity. }
  assert (BD : next_pn s2 = next_pn s /\ fresh s2 = fresh s).
  { unfold s2. destruct st, (p_handled pr); destruct s; auto. }
  constructor.
  - rewrite TK; auto.
  - intros q H. rewrite TK in H. assert (q <> p) by (intro; subst; auto).
    unfold pend. rewrite PGo; auto. apply B; auto.
  - intros q pr' H. destruct BD as [-> ->]. destruct (pid_eqb q p) eqn:EQ.
    + apply pid_eqb_eq in EQ. subst q. eapply C; eauto.
    + apply pid_eqb_neq in EQ. rewrite PGo in H; auto. eapply C; eauto.
  - rewrite ST. apply NoDup_snoc; auto. intros H. apply E in H. destruct H as (pr' & H1 & H2).
    rewrite G in H1. inversion H1; subst. auto.
  - intros q H. rewrite ST in H. apply in_app_or in H. destruct H as [H|[H|[]]].
    + destruct (pid_eqb q p) eqn:EQ.
      * apply pid_eqb_eq in EQ. subst q. eexists; split; eauto.
      * apply pid_eqb_neq in EQ. rewrite PGo; auto.
    + subst q. eexists; split; eauto.
  - intros q. unfold tl_ok. destruct (pid_eqb q p) eqn:EQ.
    + apply pid_eqb_eq in EQ. subst q. rewrite PGs. simpl.
      pose proof (F p) as Fp. unfold tl_ok in Fp. rewrite G, PS in Fp.
      assert (TL0 : tf p (tlog s) = []) by (destruct (p_handled pr); auto).
      unfold s2. destruct st; try congruence; destruct (p_handled pr) eqn:HH; unfold track;
        try (destruct s; simpl in *; auto; fail).
      destruct s; simpl in *. rewrite tf_snoc, TL0, pid_eqb_refl. reflexivity.
    + apply pid_eqb_neq in EQ. rewrite PGo; auto.
      assert (TLq : tf q (tlog s2) = tf q (tlog s)).
      { unfold s2. destruct st, (p_handled pr); unfold track; try (destruct s; reflexivity).
        destruct s; simpl. rewrite tf_snoc. assert (pid_eqb p q = false) by (apply pid_eqb_neq; auto).
        rewrite H. apply app_nil_r. }
      rewrite TLq. apply F.
Qed.

Lemma LI_fulfill_p p v s pr :
  LI s -> pget p s = Some pr -> p_state pr = Pending -> ~ In p (tokens s) -> LI (fulfill_p p v s).
Proof.
  intros H G PS NT. unfold fulfill_p, get_prom. fold (pget p s). rewrite G.
  apply LI_trigger. pose proof (LI_settle p Fulfilled v s pr H G PS NT) as L. simpl in L.
  apply L. congruence.
Qed.

Lemma LI_reject_p p v s pr :
  LI s -> pget p s = Some pr -> p_state pr = Pending -> ~ In p (tokens s) -> LI (reject_p p v s).
Proof.
  intros H G PS NT. unfold reject_p, get_prom. fold (pget p s). rewrite G.
  apply LI_trigger. pose proof (LI_settle p Rejected v s pr H G PS NT) as L. simpl in L.
  destruct (p_handled pr); apply L; congruence.
Qed.

(* ---------------------------------------------------------------------------------------------- *)
(* the resolving functions *)

Lemma NoDup_remove_mid {A} (l1 l2 : list A) x : NoDup (l1 ++ x :: l2) -> NoDup (l1 ++ l2) /\ ~ In x (l1 ++ l2).
Proof. apply NoDup_remove. Qed.

(* after latching an unlatched pair: invariant holds, owner is pending and holds no token *)
Lemma LI_latch r s pa :
  LI s -> get_pair r s = Some pa -> pr_latched pa = false ->
  LI (latch r s) /\ pend (latch r s) (pr_owner pa) /\ ~ In (pr_owner pa) (tokens (latch r s)) /\
  pget (pr_owner pa) (latch r s) = pget (pr_owner pa) s.
Proof.
  intros H G U. unfold get_pair in G.
  destruct (latch_tokens r (pairs s) pa G U) as (l1 & l2 & T1 & T2).
  assert (TK : tokens s = l1 ++ pr_owner pa :: l2 ++ tok_jobs (queue s)).
  { unfold tokens. rewrite T1, <- app_assoc. reflexivity. }
  assert (TK' : tokens (latch r s) = l1 ++ l2 ++ tok_jobs (queue s)).
  { unfold tokens, latch. destruct s; simpl in *. rewrite T2, <- app_assoc. reflexivity. }
  pose proof (li_nodup s H) as ND. rewrite TK in ND. apply NoDup_remove in ND. destruct ND as [ND NI].
  assert (SUB : forall p, In p (tokens (latch r s)) -> In p (tokens s)).
  { intros p. rewrite TK, TK'. intros I. apply in_app_or in I. apply in_or_app. destruct I; auto. right; right; auto. }
  assert (L' : LI (latch r s)).
  { apply (LI_transfer s); auto.
    - unfold latch; destruct s; unfold same_core; simpl; auto.
    - rewrite TK'. auto. }
  split; [exact L'|]. split; [|split].
  - assert (P : pend s (pr_owner pa)).
    { apply (li_pend s H). rewrite TK. apply in_or_app. right. left. auto. }
    clear - P. unfold pend, pget, latch in *. destruct s; simpl in *. exact P.
  - rewrite TK'. auto.
  - unfold pget, latch. destruct s; reflexivity.
Qed.

Lemma LI_enqueue_thenable p x s :
  LI s -> pend s p -> ~ In p (tokens s) -> LI (enqueue (JThenable p x) s).
Proof.
  intros H P NT.
  assert (TK : tokens (enqueue (JThenable p x) s) = tokens s ++ [p]).
  { unfold tokens, enqueue. destruct s; simpl. rewrite tok_jobs_snoc_t, app_assoc. reflexivity. }
  assert (PG : forall q, pget q (enqueue (JThenable p x) s) = pget q s) by (intros; destruct s; reflexivity).
  destruct H as [A B C D E F]. constructor.
  - rewrite TK. apply NoDup_snoc; auto.
  - intros q I. rewrite TK in I. unfold pend. rewrite PG. apply in_app_or in I. destruct I as [I|[I|[]]].
    + apply B; auto.
    + subst q. apply P.
  - intros q pr I. rewrite PG in I. apply C in I. destruct s; simpl in *. destruct q; lia.
  - destruct s; auto.
  - intros q I. rewrite PG. apply E. destruct s; auto.
  - intros q. unfold tl_ok. rewrite PG. specialize (F q). unfold tl_ok in F. destruct s; auto.
Qed.

Section T.
Variable T : list thenable.

Lemma LI_resolve_fn r x s : LI s -> LI (resolve_fn T r x s).
Proof.
  intros H. unfold resolve_fn. destruct (get_pair r s) as [pa|] eqn:G; auto.
  destruct (pr_latched pa) eqn:U; auto.
  destruct (LI_latch r s pa H G U) as (L & P & NT & PG).
  set (s1 := latch r s) in *. set (p := pr_owner pa) in *.
  unfold pend in P. destruct (pget p s1) as [pr|] eqn:G1; [|contradiction].
  assert (FUL : forall v, LI (fulfill_p p v s1)) by (intros; eapply LI_fulfill_p; eauto).
  assert (REJ : forall v, LI (reject_p p v s1)) by (intros; eapply LI_reject_p; eauto).
  assert (ENQ : LI (enqueue (JThenable p x) s1)).
  { apply LI_enqueue_thenable; auto. unfold pend. rewrite G1. auto. }
  destruct x; auto.
  - destruct (pid_eqb p0 p); auto.
  - destruct (nth_error T t) as [[| |]|]; auto.
Qed.

Lemma LI_reject_fn r x s : LI s -> LI (reject_fn r x s).
Proof.
  intros H. unfold reject_fn. destruct (get_pair r s) as [pa|] eqn:G; auto.
  destruct (pr_latched pa) eqn:U; auto.
  destruct (LI_latch r s pa H G U) as (L & P & NT & PG).
  unfold pend in P. destruct (pget (pr_owner pa) (latch r s)) as [pr|] eqn:G1; [|contradiction].
  eapply LI_reject_p; eauto.
Qed.
Hint Resolve LI_resolve_fn LI_reject_fn : li.

(* allocation of a fresh promise with its pair *)
Lemma LI_new_cap p r s :
  LI s -> pget p s = None -> match p with PN k => k < next_pn s | PI n => n < fresh s end ->
  LI (new_pair r p (new_prom p s)).
Proof.
  intros [A B C D E F] G BD.
  set (s' := new_pair r p (new_prom p s)).
  assert (TK : tokens s' = tok_pairs (pairs s) ++ [p] ++ tok_jobs (queue s)).
  { unfold s', tokens, new_pair, new_prom. destruct s; simpl. rewrite tok_pairs_snoc, <- app_assoc. reflexivity. }
  assert (PG : forall q, pget q s' = match pget q s with Some x => Some x | None => if pid_eqb q p then Some (mkP Pending VUndef [] [] false) else None end).
  { intros q. unfold s', pget, new_pair, new_prom. destruct s; simpl. apply aget_snoc. }
  assert (NI : ~ In p (tokens s)).
  { intros I. apply B in I. unfold pend in I. rewrite G in I. auto. }
  assert (OTH : next_pn s' = next_pn s /\ fresh s' = fresh s /\ settles s' = settles s /\ tlog s' = tlog s)
    by (unfold s', new_pair, new_prom; destruct s; auto).
  destruct OTH as (O1 & O2 & O3 & O4).
  constructor.
  - rewrite TK. unfold tokens in A, NI. apply NoDup_Add with (a := p) (l := tok_pairs (pairs s) ++ tok_jobs (queue s)); auto.
    simpl. apply Add_app.
  - intros q I. rewrite TK in I. unfold pend. rewrite PG.
    apply in_app_or in I. destruct I as [I|[I|I]].
    + assert (I' : In q (tokens s)) by (apply in_or_app; auto). apply B in I'. unfold pend in I'.
      destruct (pget q s); auto. contradiction.
    + subst q. rewrite G, pid_eqb_refl. reflexivity.
    + assert (I' : In q (tokens s)) by (apply in_or_app; auto). apply B in I'. unfold pend in I'.
      destruct (pget q s); auto. contradiction.
  - intros q pr I. rewrite PG in I. rewrite O1, O2. destruct (pget q s) eqn:GQ.
    + inversion I; subst. eapply C; eauto.
    + destruct (pid_eqb q p) eqn:EQ; try discriminate. apply pid_eqb_eq in EQ. subst q. auto.
  - rewrite O3; auto.
  - intros q I. rewrite O3 in I. apply E in I. destruct I as (pr & I1 & I2). exists pr. rewrite PG, I1. auto.
  - intros q. unfold tl_ok. rewrite PG, O4. pose proof (F q) as Fq. unfold tl_ok in Fq.
    destruct (pget q s) eqn:GQ; auto.
    destruct (pid_eqb q p) eqn:EQ; auto.
Qed.

Lemma bounded_fresh_none n s : LI s -> fresh s <= n -> pget (PI n) s = None.
Proof. intros H L. destruct (pget (PI n) s) eqn:G; auto. apply (li_bnd s H) in G. lia. Qed.
Lemma bounded_pn_none n s : LI s -> next_pn s <= n -> pget (PN n) s = None.
Proof. intros H L. destruct (pget (PN n) s) eqn:G; auto. apply (li_bnd s H) in G. lia. Qed.

Lemma pget_bump n q s : pget q (set_fresh n s) = pget q s. Proof. destruct s; reflexivity. Qed.
Lemma pget_bump_pn n q s : pget q (set_next_pn n s) = pget q s. Proof. destruct s; reflexivity. Qed.

Lemma LI_new_cap_int s : LI s -> LI (snd (new_cap_int s)).
Proof.
  intros H. unfold new_cap_int. cbv beta iota zeta. simpl.
  apply LI_new_cap; [apply LI_bump1; auto| |destruct s; simpl; lia].
  rewrite pget_bump. apply bounded_fresh_none; auto.
Qed.

Lemma LI_new_cap_named u s : LI s -> LI (snd (new_cap_named u s)).
Proof.
  intros H. unfold new_cap_named. cbv beta iota zeta. destruct u; cbn [snd].
  - apply LI_new_cap; [apply LI_bump_pn; auto| |destruct s; simpl; lia].
    rewrite pget_bump_pn. apply bounded_pn_none; auto.
  - apply LI_new_cap; [apply LI_bump1, LI_bump_pn; auto| |destruct s; simpl; lia].
    rewrite pget_bump, pget_bump_pn. apply bounded_pn_none; auto.
Qed.


(* ---------------------------------------------------------------------------------------------- *)
(* updates of one promise record that keep its state *)

Lemma LI_upd_general p pr pr' s s' :
  LI s -> pget p s = Some pr -> pget p s' = Some pr' -> p_state pr' = p_state pr ->
  tokens s' = tokens s -> settles s' = settles s -> next_pn s' = next_pn s -> fresh s' = fresh s ->
  (forall q, q <> p -> pget q s' = pget q s /\ tf q (tlog s') = tf q (tlog s)) ->
  tl_ok s' p -> LI s'.
Proof.
  intros [A B C D E F] G G' ST TK SE N1 N2 OTH TLP. constructor.
  - rewrite TK; auto.
  - intros q I. rewrite TK in I. apply B in I. unfold pend in *. destruct (pid_eqb q p) eqn:EQ.
    + apply pid_eqb_eq in EQ. subst q. rewrite G'. rewrite G in I. congruence.
    + apply pid_eqb_neq in EQ. destruct (OTH q EQ) as [-> _]. auto.
  - intros q prq I. rewrite N1, N2. destruct (pid_eqb q p) eqn:EQ.
    + apply pid_eqb_eq in EQ. subst q. eapply C; eauto.
    + apply pid_eqb_neq in EQ. destruct (OTH q EQ) as [O _]. rewrite O in I. eapply C; eauto.
  - rewrite SE; auto.
  - intros q I. rewrite SE in I. apply E in I. destruct I as (prq & I1 & I2). destruct (pid_eqb q p) eqn:EQ.
    + apply pid_eqb_eq in EQ. subst q. exists pr'. split; auto. rewrite G in I1. inversion I1; subst. congruence.
    + apply pid_eqb_neq in EQ. destruct (OTH q EQ) as [O _]. rewrite O. eauto.
  - intros q. destruct (pid_eqb q p) eqn:EQ.
    + apply pid_eqb_eq in EQ. subst q. auto.
    + apply pid_eqb_neq in EQ. destruct (OTH q EQ) as [O1 O2]. unfold tl_ok. rewrite O1, O2. apply F.
Qed.

Lemma aupd_none {V} p (f : V -> V) l : aget pid_eqb p l = None -> aupd pid_eqb p f l = l.
Proof. induction l as [|[k v] l IH]; simpl; auto. destruct (pid_eqb p k); try discriminate. intros; f_equal; auto. Qed.

Lemma pget_upd_same p f s : pget p (upd_prom p f s) = option_map f (pget p s).
Proof. unfold pget, upd_prom. destruct s; simpl. apply aget_aupd_same. Qed.
Lemma pget_upd_other p q f s : q <> p -> pget q (upd_prom p f s) = pget q s.
Proof. unfold pget, upd_prom. destruct s; simpl. apply aget_aupd_other. Qed.

Lemma LI_upd_same p f s :
  (forall q, p_state (f q) = p_state q /\ p_handled (f q) = p_handled q) -> LI s -> LI (upd_prom p f s).
Proof.
  intros Hf H. destruct (pget p s) as [pr|] eqn:G.
  - apply (LI_upd_general p pr (f pr) s); auto; try (destruct s; reflexivity).
    + rewrite pget_upd_same, G; auto.
    + apply Hf.
    + intros q N. split. apply pget_upd_other; auto. destruct s; reflexivity.
    + unfold tl_ok. rewrite pget_upd_same, G. simpl. destruct (Hf pr) as [-> ->].
      pose proof (li_tl s H p) as F. unfold tl_ok in F. rewrite G in F. destruct s; exact F.
  - assert (E : upd_prom p f s = s).
    { unfold upd_prom, pget in *. rewrite aupd_none; auto. destruct s; reflexivity. }
    rewrite E; auto.
Qed.

Definition set_handled (q : prom) : prom := mkP (p_state q) (p_result q) (p_fr q) (p_rr q) true.

Lemma LI_mark_handled p pr s :
  LI s -> pget p s = Some pr ->
  LI (upd_prom p set_handled
        (match p_state pr with Rejected => if p_handled pr then s else track p THandle s | _ => s end)).
Proof.
  intros H G.
  set (s1 := match p_state pr with Rejected => if p_handled pr then s else track p THandle s | _ => s end).
  assert (P1 : proms s1 = proms s /\ pairs s1 = pairs s /\ queue s1 = queue s /\ settles s1 = settles s /\
               next_pn s1 = next_pn s /\ fresh s1 = fresh s).
  { unfold s1. destruct (p_state pr); try (repeat split; reflexivity). destruct (p_handled pr); try (repeat split; reflexivity). }
  destruct P1 as (Q1 & Q2 & Q3 & Q4 & Q5 & Q6).
  assert (G1 : pget p s1 = Some pr) by (unfold pget; rewrite Q1; exact G).
  apply (LI_upd_general p pr (set_handled pr) s); auto.
  - rewrite pget_upd_same, G1. reflexivity.
  - unfold tokens, upd_prom. destruct s1; simpl in *. rewrite Q2, Q3. reflexivity.
  - intros q N. split.
    + rewrite pget_upd_other; auto. unfold pget. rewrite Q1. reflexivity.
    + assert (TL : tf q (tlog s1) = tf q (tlog s)).
      { unfold s1. destruct (p_state pr); auto. destruct (p_handled pr); auto.
        unfold track. destruct s; simpl. rewrite tf_snoc.
        assert (X : pid_eqb p q = false) by (apply pid_eqb_neq; auto). rewrite X. apply app_nil_r. }
      rewrite <- TL. unfold upd_prom. destruct s1; reflexivity.
  - unfold tl_ok. rewrite pget_upd_same, G1. simpl.
    pose proof (li_tl s H p) as F. unfold tl_ok in F. rewrite G in F.
    assert (TLU : tlog (upd_prom p set_handled s1) = tlog s1) by (destruct s1; reflexivity). rewrite ?TLU.
    unfold s1. destruct (p_state pr) eqn:ST; destruct (p_handled pr) eqn:HH; auto.
    right. unfold track. destruct s; simpl in *. rewrite tf_snoc, F, pid_eqb_refl. reflexivity.
Qed.

Lemma upd_prom_enqueue p f k s : upd_prom p f (enqueue k s) = enqueue k (upd_prom p f s).
Proof. destruct s, k; reflexivity. Qed.

Lemma LI_perform_then p a b c s : LI s -> LI (perform_then p a b c s).
Proof.
  intros H. unfold perform_then, get_prom. fold (pget p s). destruct (pget p s) as [pr|] eqn:G; auto.
  set (s1 := set_fresh (S (S (fresh s))) s).
  assert (H1 : LI s1) by (apply LI_bump2; auto).
  assert (G1 : pget p s1 = Some pr) by (unfold s1; rewrite pget_bump; auto).
  fold (set_handled). change (fun q : prom => mkP (p_state q) (p_result q) (p_fr q) (p_rr q) true) with set_handled.
  destruct (p_state pr) eqn:ST.
  - set (g := fun q : prom => mkP (p_state q) (p_result q) (p_fr q ++ [mkR (fresh s) c true a]) (p_rr q ++ [mkR (S (fresh s)) c false b]) (p_handled q)).
    assert (H2 : LI (upd_prom p g s1)) by (apply LI_upd_same; auto; intros; split; reflexivity).
    assert (G2 : pget p (upd_prom p g s1) = Some (g pr)) by (rewrite pget_upd_same, G1; reflexivity).
    pose proof (LI_mark_handled p (g pr) _ H2 G2) as M. simpl in M. rewrite ST in M. exact M.
  - rewrite upd_prom_enqueue. apply LI_enqueue_react.
    pose proof (LI_mark_handled p pr _ H1 G1) as M. rewrite ST in M. exact M.
  - rewrite upd_prom_enqueue. apply LI_enqueue_react.
    pose proof (LI_mark_handled p pr _ H1 G1) as M. rewrite ST in M. exact M.
Qed.
Hint Resolve LI_perform_then : li.

(* ---------------------------------------------------------------------------------------------- *)
(* composite operations *)

Lemma LI_comb_dec c s : LI s -> LI (comb_dec T c s). Proof. unfold comb_dec. li. Qed.
Hint Resolve LI_comb_dec : li.
Lemma LI_elem_fn c i b a s : LI s -> LI (elem_fn T c i b a s). Proof. unfold elem_fn. li. Qed.
Hint Resolve LI_elem_fn : li.
Lemma LI_exec_act s a : LI s -> LI (exec_act T idc s a). Proof. unfold exec_act. li. Qed.
Lemma LI_exec_acts l s : LI s -> LI (fold_left (exec_act T idc) l s).
Proof. apply fold_left_inv. intros; apply LI_exec_act; auto. Qed.
Hint Resolve LI_exec_acts : li.
Lemma LI_exec_tsteps r l : forall s, LI s -> LI (exec_tsteps T r l s).
Proof. induction l as [|a l IH]; simpl; intros; auto. destruct a; li. Qed.
Hint Resolve LI_exec_tsteps : li.

Lemma LI_promise_resolve x s : LI s -> LI (snd (promise_resolve T x s)).
Proof.
  intros H. unfold promise_resolve. destruct x; auto;
    pose proof (LI_new_cap_int s H) as N; destruct (new_cap_int s) as [[? ?] ?]; simpl in *; li.
Qed.

Ltac split_pr :=
  match goal with
  | |- context[promise_resolve T ?x ?s0] =>
      let HP := fresh "HP" in
      assert (HP : LI (snd (promise_resolve T x s0))) by (apply LI_promise_resolve; li);
      destruct (promise_resolve T x s0) as [? ?]; simpl in HP
  end.
Ltac split_nc :=
  match goal with
  | |- context[new_cap_int ?s0] =>
      let HP := fresh "HP" in
      assert (HP : LI (snd (new_cap_int s0))) by (apply LI_new_cap_int; li);
      destruct (new_cap_int s0) as [[? ?] ?]; simpl in HP
  end.

Lemma LI_cres c v s : LI s -> LI (cres T c v s). Proof. unfold cres. li. Qed.
Lemma LI_crej c v s : LI s -> LI (crej c v s). Proof. unfold crej. li. Qed.
Hint Resolve LI_cres LI_crej : li.
Lemma LI_async_throw b e s : LI s -> LI (async_throw T b e s). Proof. unfold async_throw. li. Qed.
Hint Resolve LI_async_throw : li.
Lemma LI_async_step b s : LI s -> LI (async_step T b s).
Proof. intros H. unfold async_step. destruct (ab_rest b); [li|]. split_pr. li. Qed.
Hint Resolve LI_async_step : li.
Lemma LI_exec_finally sc ful arg cap s : LI s -> LI (exec_finally T idc sc ful arg cap s).
Proof.
  intros H. unfold exec_finally. cbv beta zeta.
  destruct (s_ret sc); try solve [li]; split_pr; split_nc; li.
Qed.
Hint Resolve LI_exec_finally : li.

Lemma LI_comb_elem k cap c s x : LI s -> LI (comb_elem T k cap c s x).
Proof.
  intros H. unfold comb_elem.
  destruct k; try (destruct (get_comb c s); auto); split_pr; split_nc; li.
Qed.

Lemma LI_exec_comb k elems s : LI s -> LI (exec_comb T k elems s).
Proof.
  intros H. unfold exec_comb.
  pose proof (LI_new_cap_named false s H) as N. destruct (new_cap_named false s) as [[? cap] s1]. simpl in N.
  assert (F : LI (fold_left (comb_elem T k cap (length (combs s1))) elems (set_combs (combs s1 ++ [mkC k cap [] 1 []]) s1))).
  { apply fold_left_inv; [|li]. intros. apply LI_comb_elem; auto. }
  destruct k; auto; apply LI_comb_dec; auto.
Qed.

Lemma LI_exec_op s o : LI s -> LI (exec_op T s o).
Proof.
  intros H. destruct o; cbn [exec_op]; auto with li.
  - pose proof (LI_new_cap_named true s H) as N. destruct (new_cap_named true s) as [[? ?] ?]. auto.
  - destruct (get_prom (PN p) s); auto.
    pose proof (LI_new_cap_named false s H) as N. destruct (new_cap_named false s) as [[? ?] ?]. simpl in N. li.
  - apply LI_exec_comb; auto.
  - pose proof (LI_new_cap_named false s H) as N. destruct (new_cap_named false s) as [[? ?] ?]. simpl in N. li.
  - destruct (get_prom (PN p) s); auto.
    pose proof (LI_new_cap_named false s H) as N. destruct (new_cap_named false s) as [[? ?] ?]. simpl in N. li.
Qed.

Lemma LI_run_ops ops s : LI s -> LI (run_ops T ops s).
Proof. apply fold_left_inv. intros; apply LI_exec_op; auto. Qed.

(* ---------------------------------------------------------------------------------------------- *)
(* jobs *)

Lemma LI_transfer2 s s' :
  LI s -> same_core s s' -> NoDup (tokens s') -> (forall p, In p (tokens s') -> pend s p) -> LI s'.
Proof.
  intros [A B C D E F] (P & TL & ST & N1 & N2) ND SUB.
  assert (PG : forall p, pget p s' = pget p s) by (intros; unfold pget; rewrite P; auto).
  constructor; auto.
  - intros p H. apply SUB in H. unfold pend in *. rewrite PG. auto.
  - intros p pr H. rewrite PG in H. apply C in H. destruct p; lia.
  - rewrite ST; auto.
  - intros p H. rewrite ST in H. rewrite PG. auto.
  - intros p. unfold tl_ok. rewrite PG, TL. apply F.
Qed.

Lemma LI_pop j rest s :
  LI s -> queue s = j :: rest ->
  LI (set_queue rest s) /\
  (forall p x, j_kind j = JThenable p x -> pend (set_queue rest s) p /\ ~ In p (tokens (set_queue rest s))).
Proof.
  intros H Q.
  assert (TK : tokens s = tok_pairs (pairs s) ++ match j_kind j with JThenable p _ => [p] | _ => [] end ++ tok_jobs rest).
  { unfold tokens. rewrite Q. reflexivity. }
  assert (TK' : tokens (set_queue rest s) = tok_pairs (pairs s) ++ tok_jobs rest) by (destruct s; reflexivity).
  assert (PE : forall p, pend (set_queue rest s) p <-> pend s p) by (intros; destruct s; reflexivity).
  pose proof (li_nodup s H) as ND. rewrite TK in ND.
  destruct (j_kind j) as [r a|p x] eqn:K; rewrite ?K in TK, ND; simpl in *.
  - split; [|intros; discriminate].
    apply (LI_transfer s); auto; try (destruct s; unfold same_core; simpl; auto; fail); rewrite ?TK, ?TK'; auto.
  - apply NoDup_remove in ND. destruct ND as [ND NI]. split.
    + apply (LI_transfer s); auto; try (destruct s; unfold same_core; simpl; auto; fail); rewrite ?TK, ?TK'; auto.
      intros q I. apply in_app_or in I. apply in_or_app. destruct I; auto. right; right; auto.
    + intros p0 x0 E. inversion E; subst. split.
      * apply PE. apply (li_pend s H). rewrite TK. apply in_or_app. right. left. auto.
      * rewrite TK'. auto.
Qed.

Lemma LI_new_pair_for r p s : LI s -> pend s p -> ~ In p (tokens s) -> LI (new_pair r p s).
Proof.
  intros H P NI.
  assert (TK : tokens (new_pair r p s) = tok_pairs (pairs s) ++ [p] ++ tok_jobs (queue s)).
  { unfold tokens, new_pair. destruct s; simpl. rewrite tok_pairs_snoc, <- app_assoc. reflexivity. }
  apply (LI_transfer2 s); auto.
  - destruct s; unfold same_core; simpl; auto.
  - rewrite TK. pose proof (li_nodup s H) as ND. unfold tokens in ND, NI.
    apply NoDup_Add with (a := p) (l := tok_pairs (pairs s) ++ tok_jobs (queue s)); auto. simpl. apply Add_app.
  - intros q. rewrite TK. intros I. apply in_app_or in I. destruct I as [I|[I|I]].
    + apply (li_pend s H). apply in_or_app; auto.
    + subst; auto.
    + apply (li_pend s H). apply in_or_app; auto.
Qed.

Lemma LI_exec_job_popped j rest s :
  LI s -> queue s = j :: rest -> LI (exec_job T idc j (mark_ran j (set_queue rest s))).
Proof.
  intros H Q. destruct (LI_pop j rest s H Q) as [H1 TH].
  set (s0 := mark_ran j (set_queue rest s)).
  assert (H0 : LI s0) by (apply LI_set_ran; auto).
  unfold exec_job. destruct (j_kind j) as [r a|p x] eqn:K.
  - li.
  - destruct (TH p x eq_refl) as [P NI].
    unfold new_pair_for. cbv beta iota zeta.
    assert (H2 : LI (new_pair (RI (fresh s0)) p (set_fresh (S (fresh s0)) s0))).
    { apply LI_new_pair_for.
      - apply LI_bump1; auto.
      - unfold s0. destruct s; exact P.
      - unfold s0. destruct s; exact NI. }
    destruct x; auto.
    + split_nc. li.
    + li.
Qed.

Lemma LI_drop_all s : LI s -> LI (drop_all [] s).
Proof.
  intros H. unfold drop_all. apply (LI_transfer s); auto.
  - destruct s; unfold same_core; simpl; auto.
  - pose proof (li_nodup s H) as ND. unfold tokens in *. destruct s; simpl in *. rewrite app_nil_r.
    eapply NoDup_app_l; eauto.
  - intros p. unfold tokens. destruct s; simpl. rewrite app_nil_r. intros; apply in_or_app; auto.
Qed.

Lemma LI_drainS fuel : forall s, LI s -> LI (drainS T fuel s).
Proof.
  induction fuel; intros s H; cbn [drainS].
  - destruct (queue s); auto. apply LI_set_exhausted, LI_drop_all, H.
  - destruct (queue s) as [|j rest] eqn:E; auto.
    pose proof (LI_exec_job_popped j rest s H E) as H1.
    destruct (intr _); auto. apply LI_drop_all, H1.
Qed.

Lemma LI_end_run s : LI s -> LI (end_run s).
Proof. unfold end_run. li. Qed.

Lemma LI_init : LI init.
Proof.
  constructor; simpl.
  - constructor.
  - intros ? [].
  - intros q pr H. discriminate.
  - constructor.
  - intros ? [].
  - intros q. reflexivity.
Qed.

Lemma LI_runS fuel runs : LI (runS T fuel runs).
Proof.
  unfold runS. apply fold_left_inv; [|apply LI_init].
  intros. unfold runS1. apply LI_end_run, LI_drainS, LI_run_ops, H.
Qed.

Lemma LI_runI fuel runs : LI (runI T fuel runs).
Proof. rewrite runI_runS. apply LI_runS. Qed.

Lemma settle_once fuel runs : NoDup (settles (runI T fuel runs)).
Proof. apply li_snd, LI_runI. Qed.

Lemma settled_are_settled fuel runs p :
  In p (settles (runI T fuel runs)) ->
  exists pr, get_prom p (runI T fuel runs) = Some pr /\ p_state pr <> Pending.
Proof. apply li_sett, LI_runI. Qed.

Lemma tracker_language fuel runs p : tl_ok (runI T fuel runs) p.
Proof. apply li_tl, LI_runI. Qed.

Lemma tracker_prefix fuel runs p :
  exists rest, tf p (tlog (runI T fuel runs)) ++ rest = [TReject; THandle].
Proof.
  pose proof (tracker_language fuel runs p) as H. unfold tl_ok in H.
  destruct (pget p _) as [pr|].
  - destruct (p_state pr), (p_handled pr); try (rewrite H; eexists; reflexivity).
    destruct H as [H|H]; rewrite H; eexists; reflexivity.
  - rewrite H. eexists; reflexivity.
Qed.

(* a latched pair is dead: calling its functions changes nothing *)
Lemma latched_noop r x s pa :
  get_pair r s = Some pa -> pr_latched pa = true -> resolve_fn T r x s = s /\ reject_fn r x s = s.
Proof. intros G L. unfold resolve_fn, reject_fn. rewrite G, L. auto. Qed.

End T.
