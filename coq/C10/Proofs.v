(* C10 — proofs, part 1: goja's double-buffered drain loop refines the plain FIFO queue;
   queue empty at return. *)
From Coq Require Import List Arith Bool Lia.
Import ListNotations.
From Verif.C10 Require Import Model.
Local Notation idc := (fun s0 : state => s0).

(* ---------------------------------------------------------------------------------------------- *)
(* framing: nothing executed by a job reads the job queue; jobs only append to it *)

Definition pre (q : list job) (s : state) : state := set_queue (q ++ queue s) s.

Lemma pre_nil s : pre [] s = s.
Proof. destruct s; reflexivity. Qed.

Ltac ds := intros; match goal with s : state |- _ => destruct s end; try reflexivity.

Lemma g_proms q s : proms (pre q s) = proms s. Proof. ds. Qed.
Lemma g_pairs q s : pairs (pre q s) = pairs s. Proof. ds. Qed.
Lemma g_combs q s : combs (pre q s) = combs s. Proof. ds. Qed.
Lemma g_queue q s : queue (pre q s) = q ++ queue s. Proof. ds. Qed.
Lemma g_log q s : log (pre q s) = log s. Proof. ds. Qed.
Lemma g_tlog q s : tlog (pre q s) = tlog s. Proof. ds. Qed.
Lemma g_next_pn q s : next_pn (pre q s) = next_pn s. Proof. ds. Qed.
Lemma g_fresh q s : fresh (pre q s) = fresh s. Proof. ds. Qed.
Lemma g_enq q s : enq (pre q s) = enq s. Proof. ds. Qed.
Lemma g_ran q s : ran (pre q s) = ran s. Proof. ds. Qed.
Lemma g_dropped q s : dropped (pre q s) = dropped s. Proof. ds. Qed.
Lemma g_settles q s : settles (pre q s) = settles s. Proof. ds. Qed.
Lemma g_jobbed q s : jobbed (pre q s) = jobbed s. Proof. ds. Qed.
Lemma g_intr q s : intr (pre q s) = intr s. Proof. ds. Qed.
Lemma g_exhausted q s : exhausted (pre q s) = exhausted s. Proof. ds. Qed.
Lemma g_outs q s : outs (pre q s) = outs s. Proof. ds. Qed.

Lemma s_proms q x s : set_proms x (pre q s) = pre q (set_proms x s). Proof. ds. Qed.
Lemma s_pairs q x s : set_pairs x (pre q s) = pre q (set_pairs x s). Proof. ds. Qed.
Lemma s_combs q x s : set_combs x (pre q s) = pre q (set_combs x s). Proof. ds. Qed.
Lemma s_log q x s : set_log x (pre q s) = pre q (set_log x s). Proof. ds. Qed.
Lemma s_tlog q x s : set_tlog x (pre q s) = pre q (set_tlog x s). Proof. ds. Qed.
Lemma s_next_pn q x s : set_next_pn x (pre q s) = pre q (set_next_pn x s). Proof. ds. Qed.
Lemma s_fresh q x s : set_fresh x (pre q s) = pre q (set_fresh x s). Proof. ds. Qed.
Lemma s_enq q x s : set_enq x (pre q s) = pre q (set_enq x s). Proof. ds. Qed.
Lemma s_ran q x s : set_ran x (pre q s) = pre q (set_ran x s). Proof. ds. Qed.
Lemma s_dropped q x s : set_dropped x (pre q s) = pre q (set_dropped x s). Proof. ds. Qed.
Lemma s_settles q x s : set_settles x (pre q s) = pre q (set_settles x s). Proof. ds. Qed.
Lemma s_jobbed q x s : set_jobbed x (pre q s) = pre q (set_jobbed x s). Proof. ds. Qed.
Lemma s_intr q x s : set_intr x (pre q s) = pre q (set_intr x s). Proof. ds. Qed.
Lemma s_exhausted q x s : set_exhausted x (pre q s) = pre q (set_exhausted x s). Proof. ds. Qed.
Lemma s_outs q x s : set_outs x (pre q s) = pre q (set_outs x s). Proof. ds. Qed.
Lemma s_queue q x s : set_queue x (pre q s) = set_queue x s. Proof. ds. Qed.

Lemma g_get_prom q p s : get_prom p (pre q s) = get_prom p s. Proof. ds. Qed.
Lemma g_get_pair q p s : get_pair p (pre q s) = get_pair p s. Proof. ds. Qed.
Lemma g_get_comb q c s : get_comb c (pre q s) = get_comb c s. Proof. ds. Qed.

#[export] Hint Rewrite g_proms g_pairs g_combs g_queue g_log g_tlog g_next_pn g_fresh g_enq g_ran g_dropped g_settles
  g_jobbed g_intr g_exhausted g_outs s_proms s_pairs s_combs s_log s_tlog s_next_pn s_fresh s_enq s_ran s_dropped
  s_settles s_jobbed s_intr s_exhausted s_outs s_queue g_get_prom g_get_pair g_get_comb : fr.

Lemma f_enqueue q k s : enqueue k (pre q s) = pre q (enqueue k s).
Proof. destruct s, k; unfold enqueue, pre; simpl; rewrite app_assoc; reflexivity. Qed.
#[export] Hint Rewrite f_enqueue : fr.

Lemma f_trigger q rs a s : trigger rs a (pre q s) = pre q (trigger rs a s).
Proof. unfold trigger. revert s. induction rs; simpl; intros; auto. rewrite f_enqueue. apply IHrs. Qed.
#[export] Hint Rewrite f_trigger : fr.

Ltac frame :=
  intros; autorewrite with fr; try reflexivity;
  repeat (match goal with
          | |- context[match ?x with _ => _ end] => destruct x eqn:?
          end; autorewrite with fr; try reflexivity).

Lemma f_track q p k s : track p k (pre q s) = pre q (track p k s).
Proof. unfold track. frame. Qed.
Lemma f_upd_prom q p f s : upd_prom p f (pre q s) = pre q (upd_prom p f s).
Proof. unfold upd_prom. frame. Qed.
Lemma f_latch q r s : latch r (pre q s) = pre q (latch r s).
Proof. unfold latch. frame. Qed.
Lemma f_new_prom q p s : new_prom p (pre q s) = pre q (new_prom p s).
Proof. unfold new_prom. frame. Qed.
Lemma f_new_pair q r o s : new_pair r o (pre q s) = pre q (new_pair r o s).
Proof. unfold new_pair. frame. Qed.
Lemma f_upd_comb q c f s : upd_comb c f (pre q s) = pre q (upd_comb c f s).
Proof. unfold upd_comb. frame. Qed.
#[export] Hint Rewrite f_track f_upd_prom f_latch f_new_prom f_new_pair f_upd_comb : fr.

Lemma f_fulfill_p q p v s : fulfill_p p v (pre q s) = pre q (fulfill_p p v s).
Proof. unfold fulfill_p. frame. Qed.
Lemma f_reject_p q p v s : reject_p p v (pre q s) = pre q (reject_p p v s).
Proof. unfold reject_p. frame. Qed.
#[export] Hint Rewrite f_fulfill_p f_reject_p : fr.

Section T.
Variable T : list thenable.

Lemma f_resolve_fn q r x s : resolve_fn T r x (pre q s) = pre q (resolve_fn T r x s).
Proof. unfold resolve_fn. frame. Qed.
Lemma f_reject_fn q r x s : reject_fn r x (pre q s) = pre q (reject_fn r x s).
Proof. unfold reject_fn. frame. Qed.
Hint Rewrite f_resolve_fn f_reject_fn : fr.

Lemma f_perform_then q p a b c s : perform_then p a b c (pre q s) = pre q (perform_then p a b c s).
Proof. unfold perform_then. frame. Qed.
Hint Rewrite f_perform_then : fr.

Lemma f_comb_dec q c s : comb_dec T c (pre q s) = pre q (comb_dec T c s).
Proof. unfold comb_dec. frame. Qed.
Hint Rewrite f_comb_dec : fr.

Lemma f_elem_fn q c i b a s : elem_fn T c i b a (pre q s) = pre q (elem_fn T c i b a s).
Proof. unfold elem_fn. frame. Qed.
Hint Rewrite f_elem_fn : fr.

Lemma f_exec_act q a s : exec_act T idc (pre q s) a = pre q (exec_act T idc s a).
Proof. unfold exec_act. frame. Qed.

Lemma f_exec_acts q l s : fold_left (exec_act T idc) l (pre q s) = pre q (fold_left (exec_act T idc) l s).
Proof. revert s. induction l; simpl; intros; auto. rewrite f_exec_act. apply IHl. Qed.
Hint Rewrite f_exec_acts : fr.

Lemma f_exec_tsteps q r l s : exec_tsteps T r l (pre q s) = pre q (exec_tsteps T r l s).
Proof. revert s. induction l as [|a l IH]; simpl; intros; auto. destruct a; autorewrite with fr; auto. Qed.
Hint Rewrite f_exec_tsteps : fr.

Lemma f_cres q c v s : cres T c v (pre q s) = pre q (cres T c v s).
Proof. unfold cres. frame. Qed.
Lemma f_crej q c v s : crej c v (pre q s) = pre q (crej c v s).
Proof. unfold crej. frame. Qed.
Hint Rewrite f_cres f_crej : fr.

Lemma f_promise_resolve q x s :
  promise_resolve T x (pre q s) = (fst (promise_resolve T x s), pre q (snd (promise_resolve T x s))).
Proof. unfold promise_resolve, new_cap_int. cbv beta iota zeta. destruct x; simpl; autorewrite with fr; reflexivity. Qed.
Lemma f_new_cap_int q s :
  new_cap_int (pre q s) = (fst (new_cap_int s), pre q (snd (new_cap_int s))).
Proof. unfold new_cap_int. cbv beta iota zeta. simpl. autorewrite with fr. reflexivity. Qed.

Lemma f_async_throw q b e s : async_throw T b e (pre q s) = pre q (async_throw T b e s).
Proof. unfold async_throw. frame. Qed.
Hint Rewrite f_async_throw : fr.

Lemma f_async_step q b s : async_step T b (pre q s) = pre q (async_step T b s).
Proof.
  unfold async_step. destruct (ab_rest b); [destruct (ab_end b); autorewrite with fr; reflexivity|].
  rewrite f_promise_resolve. destruct (promise_resolve T v s) as [p s1]. cbn [fst snd]. autorewrite with fr. reflexivity.
Qed.
Hint Rewrite f_async_step : fr.

Lemma f_exec_finally q sc ful arg cap s : exec_finally T idc sc ful arg cap (pre q s) = pre q (exec_finally T idc sc ful arg cap s).
Proof.
  unfold exec_finally. cbv beta zeta. autorewrite with fr.
  set (s1 := fold_left (exec_act T idc) (s_acts sc) (set_log (log s ++ [(s_id sc, VUndef)]) s)).
  assert (K : forall v, (let '(np, s0) := promise_resolve T v (pre q s1) in
                         let '(d, dcap, s2) := new_cap_int s0 in
                         cres T cap (VProm d) (perform_then np (if ful then HThunkVal arg else HThunkThrow arg) HNone (Some dcap) s2))
                      = pre q (let '(np, s0) := promise_resolve T v s1 in
                               let '(d, dcap, s2) := new_cap_int s0 in
                               cres T cap (VProm d) (perform_then np (if ful then HThunkVal arg else HThunkThrow arg) HNone (Some dcap) s2))).
  { intros v. rewrite f_promise_resolve. destruct (promise_resolve T v s1) as [np s0]. cbn [fst snd].
    rewrite f_new_cap_int. destruct (new_cap_int s0) as [[d dcap] s2]. cbn [fst snd]. autorewrite with fr. reflexivity. }
  destruct (s_ret sc); autorewrite with fr; try reflexivity; apply K.
Qed.
Hint Rewrite f_exec_finally : fr.

Lemma f_exec_job q j s : exec_job T idc j (pre q s) = pre q (exec_job T idc j s).
Proof.
  unfold exec_job, new_pair_for, new_cap_int. cbv beta iota zeta. frame.
Qed.

Lemma f_mark_ran q j s : mark_ran j (pre q s) = pre q (mark_ran j s).
Proof. unfold mark_ran. frame. Qed.

Lemma jids_app a b : jids (a ++ b) = jids a ++ jids b.
Proof. apply map_app. Qed.

Lemma drop_all_pre q s : drop_all [] (pre q s) = drop_all q s.
Proof. unfold drop_all. autorewrite with fr. rewrite jids_app. destruct s; reflexivity. Qed.

(* goja's leave() = FIFO drain of (rest of the current batch ++ jobQueue) *)
Lemma leaveI_drainS : forall fuel jobs s, leaveI T fuel jobs s = drainS T fuel (pre jobs s).
Proof.
  unfold leaveI. induction fuel; intros jobs s; cbn [leaveI_gen drainS];
    try change (leave_nested true (leaveI_gen T true fuel [])) with (fun s0 : state => s0).
  - rewrite g_queue. destruct jobs as [|j rest]; cbn [app].
    + destruct (queue s) eqn:E.
      * rewrite pre_nil. reflexivity.
      * rewrite drop_all_pre. reflexivity.
    + rewrite drop_all_pre. reflexivity.
  - rewrite g_queue. destruct jobs as [|j rest]; cbn [app].
    + destruct (queue s) as [|j rest] eqn:E.
      * symmetry; apply pre_nil.
      * rewrite pre_nil.
        assert (H : set_queue rest s = pre rest (set_queue [] s)).
        { unfold pre. destruct s; simpl. rewrite app_nil_r. reflexivity. }
        rewrite H, f_mark_ran, f_exec_job, g_intr.
        destruct (intr _).
        -- rewrite drop_all_pre. reflexivity.
        -- apply IHfuel.
    + rewrite s_queue.
      assert (H : set_queue (rest ++ queue s) s = pre rest s) by reflexivity.
      rewrite H, f_mark_ran, f_exec_job, g_intr.
      destruct (intr _).
      * rewrite drop_all_pre. reflexivity.
      * apply IHfuel.
Qed.

Lemma runI1_runS1 fuel s ops : runI1 T fuel s ops = runS1 T fuel s ops.
Proof. unfold runI1, runS1. rewrite leaveI_drainS, pre_nil. reflexivity. Qed.

Lemma fold_left_ext {A B} (f g : A -> B -> A) : (forall a b, f a b = g a b) -> forall l a, fold_left f l a = fold_left g l a.
Proof. intros H l. induction l; simpl; intros; auto. rewrite H. apply IHl. Qed.

Theorem runI_runS fuel runs : runI T fuel runs = runS T fuel runs.
Proof. unfold runI, runS. apply fold_left_ext. intros. apply runI1_runS1. Qed.

(* ---------------------------------------------------------------------------------------------- *)
(* queue empty at return *)

Lemma drainS_queue fuel : forall s, queue (drainS T fuel s) = [].
Proof.
  induction fuel; intros s; cbn [drainS].
  - destruct (queue s) eqn:E; auto.
  - destruct (queue s) eqn:E; auto.
    destruct (intr _); auto.
Qed.

Lemma end_run_queue s : queue (end_run s) = queue s.
Proof. destruct s; reflexivity. Qed.

Lemma fold_left_snoc {A B} (f : A -> B -> A) l x a : fold_left f (l ++ [x]) a = f (fold_left f l a) x.
Proof. rewrite fold_left_app. reflexivity. Qed.

Lemma runS_queue fuel runs : queue (runS T fuel runs) = [].
Proof.
  unfold runS. destruct runs as [|r l] using rev_ind; auto.
  rewrite fold_left_snoc. unfold runS1 at 1. rewrite end_run_queue. apply drainS_queue.
Qed.

End T.
