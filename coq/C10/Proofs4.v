(* C10 — proofs, part 4: a stored reaction record is turned into a job at most once.
   [jobbed] lists the ids of all reaction records that ever became a job; the ids of the records
   stored in promises ([prids]) and [jobbed] together never contain an id twice. *)
From Coq Require Import List Arith Bool Lia.
Import ListNotations.
From Verif.C10 Require Import Model Proofs Proofs2 Proofs3.
Local Notation idc := (fun s0 : state => s0).

Notation cnt := (count_occ Nat.eq_dec).
#[local] Opaque Nat.eq_dec.

Definition ids (pr : prom) : list nat := map r_id (p_fr pr) ++ map r_id (p_rr pr).
Definition prids (l : list (pid * prom)) : list nat := flat_map (fun e => ids (snd e)) l.

Definition RI (s : state) : Prop :=
  forall x, cnt (jobbed s) x + cnt (prids (proms s)) x <= 1 /\
            (fresh s <= x -> cnt (jobbed s) x + cnt (prids (proms s)) x = 0).

Lemma cnt_app l1 l2 x : cnt (l1 ++ l2) x = cnt l1 x + cnt l2 x.
Proof. apply count_occ_app. Qed.

Lemma prids_app l1 l2 : prids (l1 ++ l2) = prids l1 ++ prids l2.
Proof. apply flat_map_app. Qed.

Lemma prids_aupd p l pr :
  aget pid_eqb p l = Some pr ->
  exists l1 l2, prids l = l1 ++ ids pr ++ l2 /\ forall f, prids (aupd pid_eqb p f l) = l1 ++ ids (f pr) ++ l2.
Proof.
  induction l as [|[k v] l IH]; simpl; intros H; try discriminate.
  destruct (pid_eqb p k) eqn:E.
  - inversion H; subst v. exists [], (prids l). split; auto.
  - destruct (IH H) as (l1 & l2 & A & B). exists (ids v ++ l1), l2. split.
    + rewrite A, <- app_assoc. reflexivity.
    + intros f. simpl. rewrite B, <- app_assoc. reflexivity.
Qed.

(* setters that touch nothing the invariant mentions *)
Ltac triv := intros H; match goal with s : state |- _ => destruct s end; exact H.
Lemma RI_set_pairs x s : RI s -> RI (set_pairs x s). Proof. triv. Qed.
Lemma RI_set_combs x s : RI s -> RI (set_combs x s). Proof. triv. Qed.
Lemma RI_set_queue x s : RI s -> RI (set_queue x s). Proof. triv. Qed.
Lemma RI_set_log x s : RI s -> RI (set_log x s). Proof. triv. Qed.
Lemma RI_set_tlog x s : RI s -> RI (set_tlog x s). Proof. triv. Qed.
Lemma RI_set_next_pn x s : RI s -> RI (set_next_pn x s). Proof. triv. Qed.
Lemma RI_set_enq x s : RI s -> RI (set_enq x s). Proof. triv. Qed.
Lemma RI_set_ran x s : RI s -> RI (set_ran x s). Proof. triv. Qed.
Lemma RI_set_dropped x s : RI s -> RI (set_dropped x s). Proof. triv. Qed.
Lemma RI_set_settles x s : RI s -> RI (set_settles x s). Proof. triv. Qed.
Lemma RI_set_intr x s : RI s -> RI (set_intr x s). Proof. triv. Qed.
Lemma RI_set_exhausted x s : RI s -> RI (set_exhausted x s). Proof. triv. Qed.
Lemma RI_set_outs x s : RI s -> RI (set_outs x s). Proof. triv. Qed.

Lemma RI_bump n s : fresh s <= n -> RI s -> RI (set_fresh n s).
Proof.
  intros L H x. destruct (H x) as [A B]. destruct s; simpl in *. split; auto. intros; apply B; lia.
Qed.
Lemma RI_bump1 s : RI s -> RI (set_fresh (S (fresh s)) s). Proof. apply RI_bump; lia. Qed.
Lemma RI_bump2 s : RI s -> RI (set_fresh (S (S (fresh s))) s). Proof. apply RI_bump; lia. Qed.

Lemma RI_enqueue_thenable p x s : RI s -> RI (enqueue (JThenable p x) s).
Proof.
  intros H y. destruct (H y) as [A B]. destruct s; unfold enqueue; simpl in *. split; auto. intros; apply B; lia.
Qed.


Lemma RI_new_prom p s : RI s -> RI (new_prom p s).
Proof.
  intros H x. destruct (H x) as [A B]. destruct s; unfold new_prom; simpl in *.
  rewrite prids_app. simpl. rewrite app_nil_r. auto.
Qed.

#[export] Hint Resolve RI_set_pairs RI_set_combs RI_set_queue RI_set_log RI_set_tlog RI_set_next_pn RI_set_enq RI_set_ran
  RI_set_dropped RI_set_settles RI_set_intr RI_set_exhausted RI_set_outs RI_bump1 RI_bump2 RI_enqueue_thenable RI_new_prom : ri.

Ltac ri :=
  intros;
  repeat (try solve [auto 60 with ri];
          match goal with
          | |- context[match ?x with _ => _ end] => destruct x eqn:?
          end);
  try solve [auto 60 with ri].

Lemma RI_track p k s : RI s -> RI (track p k s). Proof. unfold track. ri. Qed.
Lemma RI_latch r s : RI s -> RI (latch r s). Proof. unfold latch. ri. Qed.
Lemma RI_new_pair r o s : RI s -> RI (new_pair r o s). Proof. unfold new_pair. ri. Qed.
Lemma RI_upd_comb c f s : RI s -> RI (upd_comb c f s). Proof. unfold upd_comb. ri. Qed.
#[export] Hint Resolve RI_track RI_latch RI_new_pair RI_upd_comb : ri.

(* effect of triggerPromiseReactions on the fields the invariant mentions *)
Lemma trigger_effect rs a : forall s,
  jobbed (trigger rs a s) = jobbed s ++ map r_id rs /\ proms (trigger rs a s) = proms s /\
  fresh s <= fresh (trigger rs a s).
Proof.
  unfold trigger. induction rs as [|r rs IH]; simpl; intros s.
  - rewrite app_nil_r. auto.
  - destruct (IH (enqueue (JReact r a) s)) as (A & B & C). rewrite A, B. destruct s; simpl in *.
    rewrite <- app_assoc. repeat split; auto. lia.
Qed.

(* settling: the promise's stored records leave the store; those of the triggered list become jobs *)
Lemma RI_settle p st v (ful : bool) s pr :
  RI s -> get_prom p s = Some pr ->
  forall s1, proms s1 = aupd pid_eqb p (fun _ => mkP st v [] [] (p_handled pr)) (proms s) ->
             jobbed s1 = jobbed s -> fresh s1 = fresh s ->
  RI (trigger (if ful then p_fr pr else p_rr pr) v s1).
Proof.
  intros H G s1 P J F x.
  destruct (trigger_effect (if ful then p_fr pr else p_rr pr) v s1) as (A & B & C).
  rewrite A, B, P, J. unfold get_prom in G.
  destruct (prids_aupd p (proms s) pr G) as (l1 & l2 & E1 & E2). rewrite E2.
  destruct (H x) as [H1 H2]. rewrite E1 in H1, H2. unfold ids in *. simpl in *.
  rewrite !cnt_app in *. simpl.
  assert (cnt (map r_id (if ful then p_fr pr else p_rr pr)) x <= cnt (map r_id (p_fr pr)) x + cnt (map r_id (p_rr pr)) x)
    by (destruct ful; lia).
  split; [lia|]. intros L. assert (fresh s <= x) by lia. specialize (H2 H3). lia.
Qed.

Lemma RI_fulfill_p p v s : RI s -> RI (fulfill_p p v s).
Proof.
  intros H. unfold fulfill_p. destruct (get_prom p s) as [pr|] eqn:G; auto.
  apply (RI_settle p Fulfilled v true s pr H G); destruct s; reflexivity.
Qed.
Lemma RI_reject_p p v s : RI s -> RI (reject_p p v s).
Proof.
  intros H. unfold reject_p. destruct (get_prom p s) as [pr|] eqn:G; auto.
  apply (RI_settle p Rejected v false s pr H G); destruct (p_handled pr); destruct s; reflexivity.
Qed.
#[export] Hint Resolve RI_fulfill_p RI_reject_p : ri.

Lemma RI_upd_same_lists p f s :
  (forall q, p_fr (f q) = p_fr q /\ p_rr (f q) = p_rr q) -> RI s -> RI (upd_prom p f s).
Proof.
  intros Hf H x. destruct (H x) as [A B].
  destruct (get_prom p s) as [pr|] eqn:G; unfold get_prom in G.
  - destruct (prids_aupd p (proms s) pr G) as (l1 & l2 & E1 & E2).
    assert (E : prids (proms (upd_prom p f s)) = prids (proms s)).
    { destruct s; simpl in *. rewrite E2, E1. unfold ids. destruct (Hf pr) as [-> ->]. reflexivity. }
    rewrite E. destruct s; simpl in *. auto.
  - unfold upd_prom. rewrite aupd_none; auto; destruct s; simpl in *; auto.
Qed.

Ltac fin B :=
  repeat match goal with |- context[Nat.eq_dec ?a ?b] => destruct (Nat.eq_dec a b) end;
  (split; [lia | let L := fresh "L" in intros L; try (specialize (B ltac:(lia))); lia]).

Lemma RI_perform_then p a b c s : RI s -> RI (perform_then p a b c s).
Proof.
  intros H. unfold perform_then. destruct (get_prom p s) as [pr|] eqn:G; auto.
  assert (FR : forall y, fresh s <= y -> cnt (jobbed s) y + cnt (prids (proms s)) y = 0) by (intros; apply H; auto).
  apply RI_upd_same_lists; [intros; split; reflexivity|].
  destruct (p_state pr).
  - (* pending: both records are stored *)
    intros x. unfold get_prom in G.
    destruct (prids_aupd p (proms s) pr G) as (l1 & l2 & E1 & E2).
    destruct (H x) as [A B].
    assert (F1 := FR (fresh s) ltac:(lia)). assert (F2 := FR (S (fresh s)) ltac:(lia)).
    destruct s; simpl in *. rewrite E2. rewrite E1 in *. unfold ids in *. simpl in *.
    rewrite ?map_app, ?cnt_app in *. simpl in *. fin B.
  - (* fulfilled: the fulfil record becomes a job at once; the other one is never stored *)
    intros x. destruct (H x) as [A B]. assert (F1 := FR (fresh s) ltac:(lia)).
    destruct s; unfold enqueue; simpl in *. rewrite cnt_app. simpl. fin B.
  - intros x. destruct (H x) as [A B]. assert (F1 := FR (S (fresh s)) ltac:(lia)).
    destruct (p_handled pr); destruct s; unfold enqueue, track; simpl in *; rewrite cnt_app; simpl; fin B.
Qed.
#[export] Hint Resolve RI_perform_then : ri.

Section T.
Variable T : list thenable.

Lemma RI_resolve_fn r x s : RI s -> RI (resolve_fn T r x s). Proof. unfold resolve_fn. ri. Qed.
Lemma RI_reject_fn r x s : RI s -> RI (reject_fn r x s). Proof. unfold reject_fn. ri. Qed.
Hint Resolve RI_resolve_fn RI_reject_fn : ri.
Lemma RI_cres c v s : RI s -> RI (cres T c v s). Proof. unfold cres. ri. Qed.
Lemma RI_crej c v s : RI s -> RI (crej c v s). Proof. unfold crej. ri. Qed.
Hint Resolve RI_cres RI_crej : ri.
Lemma RI_comb_dec c s : RI s -> RI (comb_dec T c s). Proof. unfold comb_dec. ri. Qed.
Hint Resolve RI_comb_dec : ri.
Lemma RI_elem_fn c i b a s : RI s -> RI (elem_fn T c i b a s). Proof. unfold elem_fn. ri. Qed.
Hint Resolve RI_elem_fn : ri.
Lemma RI_exec_act s a : RI s -> RI (exec_act T idc s a). Proof. unfold exec_act. ri. Qed.
Lemma RI_exec_acts l s : RI s -> RI (fold_left (exec_act T idc) l s).
Proof. apply fold_left_inv. intros; apply RI_exec_act; auto. Qed.
Hint Resolve RI_exec_acts : ri.
Lemma RI_exec_tsteps r l : forall s, RI s -> RI (exec_tsteps T r l s).
Proof. induction l as [|a l IH]; simpl; intros; auto. destruct a; ri. Qed.
Hint Resolve RI_exec_tsteps : ri.

Lemma RI_new_cap_int s : RI s -> RI (snd (new_cap_int s)).
Proof. unfold new_cap_int. cbv beta iota zeta. simpl. ri. Qed.
Lemma RI_new_cap_named u s : RI s -> RI (snd (new_cap_named u s)).
Proof. unfold new_cap_named. cbv beta iota zeta. destruct u; cbn [snd]; ri. Qed.
Lemma RI_promise_resolve x s : RI s -> RI (snd (promise_resolve T x s)).
Proof. unfold promise_resolve, new_cap_int. cbv beta iota zeta. destruct x; simpl; ri. Qed.

Ltac split_pr :=
  match goal with
  | |- context[promise_resolve T ?x ?s0] =>
      let HP := fresh "HP" in
      assert (HP : RI (snd (promise_resolve T x s0))) by (apply RI_promise_resolve; ri);
      destruct (promise_resolve T x s0) as [? ?]; simpl in HP
  end.
Ltac split_nc :=
  match goal with
  | |- context[new_cap_int ?s0] =>
      let HP := fresh "HP" in
      assert (HP : RI (snd (new_cap_int s0))) by (apply RI_new_cap_int; ri);
      destruct (new_cap_int s0) as [[? ?] ?]; simpl in HP
  end.
Ltac split_nn :=
  match goal with
  | |- context[new_cap_named ?u ?s0] =>
      let HP := fresh "HP" in
      assert (HP : RI (snd (new_cap_named u s0))) by (apply RI_new_cap_named; ri);
      destruct (new_cap_named u s0) as [[? ?] ?]; simpl in HP
  end.

Lemma RI_async_throw b e s : RI s -> RI (async_throw T b e s). Proof. unfold async_throw. ri. Qed.
Hint Resolve RI_async_throw : ri.
Lemma RI_async_step b s : RI s -> RI (async_step T b s).
Proof. intros H. unfold async_step. destruct (ab_rest b); [ri|]. split_pr. ri. Qed.
Hint Resolve RI_async_step : ri.
Lemma RI_exec_finally sc ful arg cap s : RI s -> RI (exec_finally T idc sc ful arg cap s).
Proof.
  intros H. unfold exec_finally. cbv beta zeta.
  destruct (s_ret sc); try solve [ri]; split_pr; split_nc; ri.
Qed.
Hint Resolve RI_exec_finally : ri.

Lemma RI_exec_job j s : RI s -> RI (exec_job T idc j s).
Proof.
  intros H. unfold exec_job. destruct (j_kind j) as [r a|p x]; [ri|].
  unfold new_pair_for. cbv beta iota zeta. destruct x; try solve [ri]. split_nc. ri.
Qed.

Lemma RI_comb_elem k cap c s x : RI s -> RI (comb_elem T k cap c s x).
Proof.
  intros H. unfold comb_elem.
  destruct k; try (destruct (get_comb c s); auto); split_pr; split_nc; ri.
Qed.

Lemma RI_exec_comb k elems s : RI s -> RI (exec_comb T k elems s).
Proof.
  intros H. unfold exec_comb. split_nn.
  match goal with |- RI (match k with CRace => ?f | _ => _ end) => assert (F : RI f) end.
  { apply fold_left_inv; [|ri]. intros. apply RI_comb_elem; auto. }
  destruct k; auto; apply RI_comb_dec; auto.
Qed.

Lemma RI_exec_op s o : RI s -> RI (exec_op T s o).
Proof.
  intros H. destruct o; cbn [exec_op]; auto with ri.
  - split_nn. auto.
  - destruct (get_prom (PN p) s); auto. split_nn. ri.
  - apply RI_exec_comb; auto.
  - split_nn. ri.
  - destruct (get_prom (PN p) s); auto. split_nn. ri.
Qed.

Lemma RI_run_ops ops s : RI s -> RI (run_ops T ops s).
Proof. apply fold_left_inv. intros; apply RI_exec_op; auto. Qed.

Lemma RI_drop_all s : RI s -> RI (drop_all [] s). Proof. unfold drop_all. ri. Qed.
Lemma RI_mark_ran j s : RI s -> RI (mark_ran j s). Proof. unfold mark_ran. ri. Qed.

Lemma RI_drainS fuel : forall s, RI s -> RI (drainS T fuel s).
Proof.
  induction fuel; intros s H; cbn [drainS].
  - destruct (queue s); auto; try (apply RI_set_exhausted, RI_drop_all, H).
  - destruct (queue s) as [|j rest] eqn:E; auto.
    assert (H1 : RI (exec_job T idc j (mark_ran j (set_queue rest s)))) by (apply RI_exec_job, RI_mark_ran, RI_set_queue, H).
    destruct (intr _); auto; try (apply RI_drop_all, H1).
Qed.

Lemma RI_end_run s : RI s -> RI (end_run s). Proof. unfold end_run. ri. Qed.
Lemma RI_init : RI init. Proof. intros x. simpl. split; auto. Qed.

Lemma RI_runS fuel runs : RI (runS T fuel runs).
Proof.
  unfold runS. apply fold_left_inv; [|apply RI_init].
  intros. unfold runS1. apply RI_end_run, RI_drainS, RI_run_ops, H.
Qed.

Lemma jobbed_nodup fuel runs : NoDup (jobbed (runI T fuel runs)).
Proof.
  rewrite runI_runS. apply (NoDup_count_occ Nat.eq_dec). intros x.
  destruct (RI_runS fuel runs x) as [A _]. lia.
Qed.

(* a record that is still stored in a promise has not been a job *)
Lemma stored_not_jobbed fuel runs x :
  In x (prids (proms (runI T fuel runs))) -> ~ In x (jobbed (runI T fuel runs)).
Proof.
  rewrite runI_runS. intros I J. destruct (RI_runS fuel runs x) as [A _].
  apply (count_occ_In Nat.eq_dec) in I. apply (count_occ_In Nat.eq_dec) in J. lia.
Qed.

End T.
