(* C10 — executable instantiation used by the correspondence check (no proofs). *)
From Coq Require Import List Arith Bool.
Import ListNotations.
From Verif.C10 Require Export Model.

(* what the harness saw.  Promises the program cannot name (internal ones) are reported as PI 0. *)
Record obs := mkObs {
  o_log : list (nat * val);
  o_tlog : list (pid * tkind);
  o_final : list (pstate * val);             (* State()/Result() of PN 0, PN 1, ... *)
  o_outs : list (bool * nat * nat)           (* per run: interrupted?, jobQueue length, log length at return *)
}.

Record tcase := mkCase { c_then : list thenable; c_runs : list (list op); c_obs : obs }.

Definition anon_pid (p : pid) : pid := match p with PN k => PN k | PI _ => PI 0 end.
Fixpoint anon (v : val) : val :=
  match v with
  | VProm p => VProm (anon_pid p)
  | VArr l => VArr (map anon l)
  | VSettled ok x => VSettled ok (anon x)
  | VAggr l => VAggr (map anon l)
  | _ => v
  end.

Fixpoint val_eqb (a b : val) : bool :=
  let fix go (l1 l2 : list val) : bool :=
    match l1, l2 with
    | [], [] => true
    | x :: r, y :: s => val_eqb x y && go r s
    | _, _ => false
    end in
  match a, b with
  | VUndef, VUndef => true
  | VInt x, VInt y => Nat.eqb x y
  | VProm p, VProm q => pid_eqb p q
  | VThen x, VThen y => Nat.eqb x y
  | VTypeErr, VTypeErr => true
  | VArr l1, VArr l2 => go l1 l2
  | VSettled o1 x, VSettled o2 y => Bool.eqb o1 o2 && val_eqb x y
  | VAggr l1, VAggr l2 => go l1 l2
  | _, _ => false
  end.

Fixpoint list_eqb {A} (eqb : A -> A -> bool) (l1 l2 : list A) : bool :=
  match l1, l2 with
  | [], [] => true
  | x :: r, y :: s => eqb x y && list_eqb eqb r s
  | _, _ => false
  end.

Definition tkind_eqb (a b : tkind) : bool :=
  match a, b with TReject, TReject => true | THandle, THandle => true | _, _ => false end.
Definition pstate_eqb (a b : pstate) : bool :=
  match a, b with Pending, Pending => true | Fulfilled, Fulfilled => true | Rejected, Rejected => true | _, _ => false end.

Definition fuel := 3000.

Fixpoint finals (n k : nat) (s : state) : list (pstate * val) :=
  match n with
  | O => []
  | S n' => match get_prom (PN k) s with
            | Some p => (p_state p, anon (p_result p))
            | None => (Pending, VTypeErr)
            end :: finals n' (S k) s
  end.

Definition observe (s : state) : obs :=
  mkObs (map (fun e => (fst e, anon (snd e))) (log s))
        (map (fun e => (anon_pid (fst e), snd e)) (tlog s))
        (finals (next_pn s) 0 s)
        (outs s).

Definition obs_eqb (a b : obs) : bool :=
  list_eqb (fun x y => Nat.eqb (fst x) (fst y) && val_eqb (snd x) (snd y)) (o_log a) (o_log b)
  && list_eqb (fun x y => pid_eqb (fst x) (fst y) && tkind_eqb (snd x) (snd y)) (o_tlog a) (o_tlog b)
  && list_eqb (fun x y => pstate_eqb (fst x) (fst y) && val_eqb (snd x) (snd y)) (o_final a) (o_final b)
  && list_eqb (fun x y => Bool.eqb (fst (fst x)) (fst (fst y)) && Nat.eqb (snd (fst x)) (snd (fst y))
                          && Nat.eqb (snd x) (snd y)) (o_outs a) (o_outs b).

Definition run_S (c : tcase) : state := runS (c_then c) fuel (c_runs c).
Definition run_I (c : tcase) : state := runI (c_then c) fuel (c_runs c).

Definition check_case (c : tcase) : bool :=
  let s := run_S c in let i := run_I c in
  negb (exhausted s) && obs_eqb (c_obs c) (observe s)
  && negb (exhausted i) && obs_eqb (c_obs c) (observe i).

Fixpoint mismatch_from (i : nat) (cs : list tcase) : list nat :=
  match cs with
  | [] => []
  | c :: r => if check_case c then mismatch_from (S i) r else i :: mismatch_from (S i) r
  end.
From Coq Require Import NArith.
Definition mismatch_ids (cs : list tcase) : list N := map N.of_nat (mismatch_from 0 cs).

Definition expected (c : tcase) := (observe (run_S c), observe (run_I c), exhausted (run_S c)).

(* a term that can never match (host panic / hang) *)
Definition fail_case : tcase := mkCase [] [] (mkObs [] [] [] [(true, 999, 999)]).
