import concurrent.futures as cf
import json
import os
import re
import time

import vcheck

# ---------------------------------------------------------------------------------------------------
# narrow recognisers of the recorded findings: input shape + observed shape.  They are applied only to cases
# on which the implementation disagrees with S, agrees with I (the faithful model), and I itself reports that it
# ran into that deviation (Run.v: verdict = 100 + mask).


def _nodes(ns):
    for n in ns or []:
        yield n
        for k in ("b", "c", "f"):
            yield from _nodes(n.get(k))


def _all_nodes(case):
    for op in case.get("ops", []):
        yield from _nodes(op.get("b"))
        yield from _nodes(op.get("c"))


def _calls(record):
    try:
        return json.loads(record.get("obs", "{}")).get("calls", [])
    except Exception:
        return None   # observation truncated: shape of the observation cannot be inspected


def _uncatchable_possible(case):
    return case.get("lim", -1) >= 0 or any(f["kind"] in ("intr", "go", "rec") for f in case.get("faults", []))


def pred_f16(case, record, exp=None):
    """an uncatchable error (interrupt / stack overflow / foreign panic) crosses a generator or async resumption"""
    if not any(n["t"] in ("gen", "async") for n in _all_nodes(case)):
        return False
    if not _uncatchable_possible(case):
        return False
    calls = _calls(record)
    if calls is None:
        return True
    return any(c["res"] in (2, 3, 4) for c in calls) and any(
        c["idle"][4] > 0 or c["idle"][5] > 0 or c["idle"][10] > 0 or c["idle"][0] != 0 for c in calls)


def pred_f17(case, record, exp=None):
    """an outermost RunProgram/RunString (API call, or RunString from inside Try while idle) ends with
    StackOverflowError/InterruptedError: vm.prg stays set"""
    has_run = any(op["api"] == "run" for op in case.get("ops", [])) or any(n["t"] == "nrun" for n in _all_nodes(case))
    if not has_run or not _uncatchable_possible(case):
        return False
    calls = _calls(record)
    if calls is None:
        return True
    return any(c["res"] in (2, 3, 4) and c["idle"][3] == 0 for c in calls)


def pred_f21(case, record, exp=None):
    """a re-entrant RunString from a native function exactly at the call-depth limit"""
    if case.get("lim", -1) < 0 or not any(n["t"] == "nrun" for n in _all_nodes(case)):
        return False
    calls = _calls(record)
    if calls is None:
        return True
    # the StackOverflowError is returned by the call (2) or leaves a Try-style API as a Go panic (4)
    return any(c["res"] in (2, 4) for c in calls)


def pred_f22(case, record, exp=None):
    """a foreign Go panic leaves the outermost call: pending jobs stay queued / vm.prg stays set"""
    if not any(f["kind"] == "go" for f in case.get("faults", [])):
        return False
    calls = _calls(record)
    if calls is None:
        return True
    return any(c["res"] == 4 for c in calls)


BITS = []   # every finding of this property is fixed in /repo: every disagreement is a violation
PRED_BY_ID = {}


# ---------------------------------------------------------------------------------------------------
# evaluation of verdicts inside Coq

def _verdict_shard(args):
    work, idx, terms, timeout = args
    path = os.path.join(work, "vd_%s.v" % idx)
    with open(path, "w") as f:
        f.write("From Coq Require Import List ZArith NArith.\nImport ListNotations.\nRequire Import Verif.C03.Run.\n")
        f.write("Set Printing Width 1000000. Set Printing Depth 1000000.\n")
        f.write("Definition cases : list tcase := [\n" + ";\n".join("(" + t + ")" for t in terms) + "\n].\n")
        f.write("Definition V := Eval vm_compute in verdicts cases.\nPrint V.\n")
    rc, out = vcheck.sh(["coqc", "-Q", vcheck.COQ, "Verif", "-o", os.path.join(work, "vd_%s.vo" % idx), path], timeout=timeout)
    if rc != 0:
        return idx, None, out[-2000:]
    m = re.search(r"V\s*=\s*(\[.*?\])\s*:\s*list N", out, re.S)
    if not m:
        return idx, None, "unparseable: " + out[-800:]
    return idx, [int(x) for x in re.findall(r"(\d+)%N", m.group(1))], ""


def verdicts(ctx, recs, tag):
    shard = ctx.cfg.get("shard", 100)
    jobs = [(ctx.work, "%s%d" % (tag, i // shard), [r["coq"] for r in recs[i:i + shard]], ctx.cfg.get("eval_timeout", 900))
            for i in range(0, len(recs), shard)]
    res = []
    with cf.ThreadPoolExecutor(max_workers=vcheck.NCPU) as ex:
        for (idx, vs, err), job in zip(ex.map(_verdict_shard, jobs), jobs):
            if vs is None or len(vs) != len(job[2]):
                ctx.log("coq eval error: " + (err or "length mismatch")[-600:])
                ctx.eval_errors = True
                res += [None] * len(job[2])
            else:
                res += vs
    return res


def candidates(case):
    out = []
    ops = case.get("ops", [])
    for i in range(len(ops)):
        if len(ops) > 1:
            out.append(dict(case, ops=ops[:i] + ops[i + 1:]))
    fs = case.get("faults", [])
    for i in range(len(fs)):
        out.append(dict(case, faults=fs[:i] + fs[i + 1:]))
    # drop one child item somewhere (first level of every op)
    for i, op in enumerate(ops):
        for key in ("b", "c"):
            items = op.get(key) or []
            for j in range(len(items)):
                op2 = dict(op)
                op2[key] = items[:j] + items[j + 1:]
                out.append(dict(case, ops=ops[:i] + [op2] + ops[i + 1:]))
            for j, it in enumerate(items):
                for k2 in ("b", "c", "f"):
                    sub = it.get(k2) or []
                    for l in range(len(sub)):
                        it2 = dict(it)
                        it2[k2] = sub[:l] + sub[l + 1:]
                        op2 = dict(op)
                        op2[key] = items[:j] + [it2] + items[j + 1:]
                        out.append(dict(case, ops=ops[:i] + [op2] + ops[i + 1:]))
    return out


def shrink_violation(ctx, binp, case, budget_s=20):
    t0 = time.time()
    cur = case
    for _ in range(30):
        if time.time() - t0 > budget_s:
            break
        cands = candidates(cur)[:60]
        if not cands:
            break
        recs = vcheck.harness_replay(ctx, binp, cands, tag="shrink")
        if len(recs) != len(cands):
            break
        vs = verdicts(ctx, recs, "k")
        hit = [i for i, v in enumerate(vs) if v == 1]
        if not hit:
            break
        cur = cands[hit[0]]
    return cur


def classify(ctx, binp, recs, vs, source, known_open):
    """returns number of violations reported"""
    open_ids = {k["id"]: k for k in known_open}
    nviol = 0
    counts = {}
    for i, v in enumerate(vs):
        if v == 0:
            continue
        if v is None:
            continue
        explained = False
        if v >= 100:
            mask = v - 100
            ids = [fid for bit, fid in BITS if mask & bit]
            if ids and all(fid in open_ids and PRED_BY_ID[fid](recs[i]["case"], recs[i]) for fid in ids):
                explained = True
                for fid in ids:
                    counts[fid] = counts.get(fid, 0) + 1
        if explained:
            continue
        if nviol >= ctx.cfg.get("max_report", 3):
            nviol += 1
            continue
        small = shrink_violation(ctx, binp, recs[i]["case"])
        rr = vcheck.harness_replay(ctx, binp, [small], tag="final")
        _, _, exp = vcheck.coq_eval(ctx, rr, want_expected=True, tag="f") if rr else ([], [], "")
        ctx.violation({
            "property": ctx.pid, "seed": ctx.seed, "source": source, "case": small,
            "original_case": recs[i]["case"] if small != recs[i]["case"] else None,
            "verdict_code": v,
            "implementation_observation": rr[0].get("obs") if rr else None,
            "model_expected_S_then_I": exp[:6000],
            "coq_term": rr[0].get("coq") if rr else None,
            "contradicts": ctx.cfg.get("theorem_names", []),
            "how_to_replay": "bin/check %s --replay <this file>" % ctx.pid,
        })
        nviol += 1
    for fid, n in sorted(counts.items()):
        k = open_ids[fid]
        line = "KNOWN-FINDING: property=%s %s [%s] (%d case(s), %s)" % (ctx.pid, k["what"], fid, n, source)
        if not any(("[%s]" % fid) in l for l in ctx.known_lines):
            print(line, flush=True)
            ctx.known_lines.append(line)
        ctx.cov.setdefault("known_finding_cases", {})
        ctx.cov["known_finding_cases"][fid] = ctx.cov["known_finding_cases"].get(fid, 0) + n
    return nviol


def stage(ctx):
    cfg = ctx.cfg
    binp = vcheck.build_harness(ctx)
    if not binp or not getattr(ctx, "model_ok", True):
        return
    ctx.binp = binp
    known_open = [k for k in vcheck.load_known()["open"] if k["property"] == ctx.pid]
    all_recs = []
    nbad = 0
    corpus_dir = os.path.join(vcheck.ROOT, "corpus", ctx.pid)
    corpus_cases = []
    if os.path.isdir(corpus_dir):
        for fn in sorted(os.listdir(corpus_dir)):
            if fn.endswith(".jsonl"):
                corpus_cases += [r["case"] for r in vcheck.read_jsonl(os.path.join(corpus_dir, fn))]
    if corpus_cases:
        recs = vcheck.harness_replay(ctx, binp, corpus_cases, tag="corpus")
        vs = verdicts(ctx, recs, "c")
        ctx.cov["corpus_cases"] = len(recs)
        ctx.cov["corpus_verdicts"] = vs
        nbad += sum(1 for v in vs if v)
        classify(ctx, binp, recs, vs, "corpus", known_open)
        all_recs += recs
    n = cfg["n"][ctx.tier]
    recs = vcheck.harness_gen(ctx, binp, n, ctx.seed, extra=cfg.get("gen_extra"))
    ctx.log("generated %d cases" % len(recs))
    vs = verdicts(ctx, recs, "g")
    dis = sum(1 for v in vs if v)
    ctx.log("evaluated in Coq: %d disagree with S (%d of them not explained by I)" % (dis, sum(1 for v in vs if v == 1)))
    nbad += dis
    classify(ctx, binp, recs, vs, "generated", known_open)
    all_recs += recs
    vcheck.summarize(ctx, all_recs, nbad)


CFG = {
    "id": "C03",
    "harness": "c03",
    "prop_file": "Properties/C03.v",
    "run_modules": ["Verif.C03.Run", "Verif.C03.RunI"],
    "coq_dirs": ["C03"],
    "n": {"quick": int(os.environ.get("C03_N", "1500")), "thorough": 100000},
    "shard": 100,
    "level": "proof",
    "stages": [stage],
    "rule": ("histories of 1..6 API calls (RunString, Callable, Runtime.New, ExportTo'd func, Try+ForOf, Try+Object.Get, Try, "
             "ClearInterrupt) over generated programs nesting JS calls, try/catch/finally, for-of over instrumented iterators, "
             "(half of them with a JS return() method whose body itself runs for-of loops / try-finally / generators / probe(), "
             "often two iteration regions nested and left by one throw), "
             "block scopes, reference assignments, getters, generators, async functions, promise jobs and native functions "
             "calling back (Callable, accessor Get, re-entrant RunString, Try, ForOf), plus (22% of the histories) a scripted "
             "scenario with a specification-level expectation (a generator suspended at a yield inside for-of inside try, closed "
             "from a LATER call by return()/throw() while iterator.return() throws / interrupts / overflows; an async function "
             "awaiting another whose continuation fails), call-depth limit none or 0..64, up to "
             "2 faults (JS throw, GoError, foreign Go panic, Interrupt, deep recursion) at the k-th probe(); after EACH call "
             "VerifIdle, the register vector at every probe(), the effect log and the result class are compared with the "
             "model; non-trivial = some call ended abruptly; distinct = by hash of the case"),
    "theorem_names": ["idle_restored", "idle_restored_jobs", "history_idle", "nested_entry_restored",
                      "next_run_equivalent", "handleThrow_restores", "handleThrow_idem", "uncatchable_never_caught",
                      "handleThrow_shrinks", "raise_closes_then_truncates", "close_items_native_log",
                      "former_findings_repaired"],
    "allowed_axioms": [],
    "trusted_base": [
        "Coq 8.16.1 kernel + vm_compute (no native_compute); theorems closed under the global context (no axioms)",
        "hand-written Gallina transcription of the control skeleton of vm.go/runtime.go/func.go (coq/C03/Model.v): registers, "
        "callStack/tryStack/iterStack/refStack, pushCtx/popCtx, handleThrow/restoreStacks, vm.try, __call, RunProgram, "
        "runWrapped, leave/leaveAbrupt, generator enter/enterNext/step; control flow is dictated by an execution tree",
        "correspondence harness harness/cmd/c03 + /repo/verif_hooks.go (VerifIdle)",
    ],
    "assumptions": [
        "values, pc and privEnv are not modelled; programs are the generated fragment (no break/continue/return across "
        "finally, no yield inside try, generators resumed once); the scripted scenarios (AScen) are modelled by their "
        "specification only (result, effects, idle registers; validated against node), not by the algorithm",
        "a native function always re-panics an uncatchable error returned to it by Callable/RunString",
        "the implementation is tied to the model only on the generated histories (correspondence), not by proof",
    ],
    "predicates": {},
    "manifest": {
        "text": ("proof: for every execution tree (JS frames, native frames calling back through Callable / accessor Get / "
                 "re-entrant RunProgram / Try / ForOf, try regions, iterator regions, generator and async resumptions, promise "
                 "jobs), every call-depth limit and every fault plan, the repaired bookkeeping algorithm returns to the idle "
                 "state after the outermost API call (idle_restored), and the algorithm of the current tree does so whenever "
                 "it does not run into one of four recorded deviations (idle_restored_partial; refuted witnesses for F16 "
                 "and F17). The model is tied to /repo on every run: 1500 (quick) / 100000 (thorough) histories with injected "
                 "faults; VerifIdle after each call, the registers at every probe point, the effect log and a behavioural "
                 "probe against a fresh twin runtime are compared with the model evaluated by vm_compute."),
        "note": ("trusted: Coq kernel + vm_compute; the hand transcription coq/C03/Model.v (values, pc, privEnv not "
                 "modelled); the Go harness and VerifIdle; the implementation itself is covered by correspondence on "
                 "generated histories, not by proof"),
        "technique": "Rocq proof over an executable model of the VM's control skeleton (induction on fuel/trees, snapshot-restore lemma of handleThrow) + differential correspondence against /repo via vm_compute",
    },
}
