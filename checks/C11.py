import concurrent.futures as cf
import json
import os
import re

import vcheck


# ------------------------------------------------------------------------------------------------
# known-finding recognisers (narrow: input shape + observed/expected pair)

def _lat(case):
    return isinstance(case, dict) and case.get("kind") == "lat"


def _prop_at(case):
    k = case["call"].get("k")
    for p in case["target"].get("props", []):
        if p.get("k") == k:
            return p
    return None


def _desc_of(case):
    c = case["call"]
    if c["trap"] == "getOwnPropertyDescriptor" and c.get("rkind") == "desc":
        return c.get("rdesc") or {}
    if c["trap"] == "defineProperty" and c.get("rb"):
        return c.get("desc") or {}
    return None


def _is_acc(d):
    return "get" in d or "set" in d


def _is_data(d):
    return "value" in d or "writable" in d


def _threw(rec):
    return '"err":"TypeError"' in rec.get("obs", "")


def _exp_ok(exp, want_spec_typeerror):
    """exp is the printed `ELat spec goja impl_is_goja` (None while pre-classifying).  The finding is the
    recorded one only if the implementation still behaves as the transcribed goja algorithm."""
    if exp is None:
        return True
    m = re.search(r"ELat\s+(\(.*\)|RTypeError)\s+(\(.*\)|RTypeError)\s+(true|false)", exp, re.S)
    if not m or m.group(3) != "true":
        return False
    spec_te = m.group(1).strip() == "RTypeError"
    return want_spec_typeerror is None or spec_te == want_spec_typeerror


def pred_f6_accessor(case, rec, exp):
    """F6: non-configurable ACCESSOR in the target, trap result / defined descriptor is an accessor descriptor;
    goja's SameAs tests are inverted: either the implementation threw where the spec accepts or vice versa."""
    if not _lat(case):
        return _hist_f6(case, rec)
    d = _desc_of(case)
    p = _prop_at(case)
    if d is None or p is None or not p.get("acc") or p.get("c"):
        return False
    if not _is_acc(d) or _is_data(d):
        return False
    return _exp_ok(exp, not _threw(rec))


def pred_f6_kind(case, rec, exp):
    """F6 (second half): defineProperty trap returned true for a descriptor of the other kind (data vs accessor)
    without [[Configurable]] on a non-configurable target property: accepted, spec demands TypeError."""
    if not _lat(case):
        return False
    c = case["call"]
    d = _desc_of(case)
    p = _prop_at(case)
    if c["trap"] != "defineProperty" or d is None or p is None or p.get("c"):
        return False
    if "configurable" in d or _is_acc(d) == _is_data(d):
        return False
    if _is_acc(d) == bool(p.get("acc")):
        return False
    return (not _threw(rec)) and _exp_ok(exp, True)


def pred_undef_accessor(case, rec, exp):
    """getOwnPropertyDescriptor trap returned an accessor descriptor whose get and set are both undefined:
    the proxy reports a DATA descriptor {value: undefined, writable: false}."""
    if not _lat(case):
        return False
    c = case["call"]
    d = _desc_of(case)
    if c["trap"] != "getOwnPropertyDescriptor" or d is None or not _is_acc(d) or _is_data(d):
        return False
    if d.get("get", 0) != 0 or d.get("set", 0) != 0:
        return False
    return '"acc":false' in rec.get("obs", "") and _exp_ok(exp, None)


def _hist_f6(case, rec):
    return isinstance(case, dict) and case.get("kind") == "hist" and "F6:" in rec.get("obs", "")


def _hist_op(case, rec):
    m = re.search(r"^DIFF: first difference at op (\d+): direct=(.*?)\| proxied=(.*?)\|", rec.get("obs", ""))
    if not (isinstance(case, dict) and case.get("kind") == "hist" and m):
        return None, None, None
    i = int(m.group(1))
    ops = case.get("ops", [])
    return (ops[i] if i < len(ops) else None), m.group(2), m.group(3)


def pred_sym_setter(case, rec, exp):
    """direct object: [[Set]] on an own getter-only accessor that was converted from a data property by defineProperty
    reports success (Reflect.set true, strict assignment does not throw); through the forwarding proxy it correctly fails."""
    op, d, p = _hist_op(case, rec)
    if not op or op.get("o") != "set":
        return False
    return (d, p) in (("set:T", "set:F"), ("set:ok", "set:TypeError"))


def pred_keys_drop_index(case, rec, exp):
    """Object.keys/entries/for-in style enumeration through the proxy lacks exactly one array-index key that the direct
    object lists (root cause not analysed yet)."""
    op, d, p = _hist_op(case, rec)
    if not op or op.get("o") != "keys" or not d.startswith("keys:[") or not p.startswith("keys:["):
        return False
    dl = re.findall(r'"((?:[^"\\]|\\.)*)"', d)
    pl = re.findall(r'"((?:[^"\\]|\\.)*)"', p)
    missing = [x for x in dl if x not in pl]
    return len(dl) == len(pl) + 1 and len(missing) == 1 and re.match(r"^\d+(=|$)", missing[0]) is not None


def _hist_raw(case, rec):
    m = re.search(r"^DIFF: first difference at op (\d+): direct=(.*) proxied=(.*)$", rec.get("obs", ""), re.S)
    if not (isinstance(case, dict) and case.get("kind") == "hist" and m):
        return None, "", ""
    i = int(m.group(1))
    ops = case.get("ops", [])
    return (ops[i] if i < len(ops) else None), m.group(2), m.group(3)


def pred_frozen_arguments(case, rec, exp):
    """Object.isFrozen/isSealed on a proxy over a non-extensible arguments object answers true where the arguments object
    itself answers false (root cause not analysed yet)."""
    op, d, p = _hist_raw(case, rec)
    return bool(op) and op.get("o") == "isext" and case.get("target") == "arguments" and \
        d.startswith("isext:F|") and p.startswith("isext:T|")


def pred_delete_calls_getter(case, rec, exp):
    """a failing strict-mode delete of a non-configurable accessor invokes the getter (for the error message); through a
    trap-less proxy the getter then sees the raw target as `this`."""
    op, d, p = _hist_raw(case, rec)
    return bool(op) and op.get("o") == "delete" and d.startswith("delete:TypeError|get@SELF") and \
        p.startswith("delete:TypeError|get@TARGET")


PREDICATES = {
    "C11.isfrozen_true_on_proxy_of_arguments": pred_frozen_arguments,
    "C11.strict_delete_failure_calls_getter": pred_delete_calls_getter,
    "C11.getter_only_set_reports_success": pred_sym_setter,
    "C11.proxy_enumeration_drops_index_key": pred_keys_drop_index,
    "C11.f6_accessor_sameas_inverted": pred_f6_accessor,
    "C11.f6_kind_change_accepted": pred_f6_kind,
    "C11.gopd_undefined_accessor_reported_as_data": pred_undef_accessor,
}


# ------------------------------------------------------------------------------------------------
# the exhaustive lattice stage

def _impl_is_I(ctx, recs):
    """ask the model, in one coqc run, which observations coincide with the goja-shaped model I"""
    path = os.path.join(ctx.work, "cls.v")
    with open(path, "w") as f:
        f.write("From Coq Require Import List ZArith NArith String Ascii.\nImport ListNotations.\n")
        f.write("Require Import Verif.C11.Run.\nSet Printing Width 1000000. Set Printing Depth 1000000.\n")
        f.write("Definition cases : list tcase := [\n" + ";\n".join("(" + r["coq"] + ")" for r in recs) + "\n].\n")
        f.write("Definition B := Eval vm_compute in map impl_is_I cases.\nPrint B.\n")
    rc, out = vcheck.sh(["coqc", "-Q", vcheck.COQ, "Verif", "-o", os.path.join(ctx.work, "cls.vo"), path], timeout=900)
    m = re.search(r"B\s*=\s*(\[.*?\])\s*:\s*list bool", out, re.S)
    if rc != 0 or not m:
        return [False] * len(recs)
    flags = [x == "true" for x in re.findall(r"\b(true|false)\b", m.group(1))]
    return flags if len(flags) == len(recs) else [False] * len(recs)


def preclassify(ctx, recs, bad):
    """impl <> S on these.  Those with impl = I inside the region of an open finding are instances of that
    finding: keep one representative per finding (reported by the generic handler), everything else first."""
    known = [k for k in vcheck.load_known()["open"] if k["property"] == ctx.pid]
    sub = [recs[i] for i in bad]
    flags = _impl_is_I(ctx, sub)
    rest, reps, counts = [], {}, {}
    for i, (r, f) in zip(bad, zip(sub, flags)):
        fid = None
        if f:
            for k in known:
                fn = PREDICATES.get(k["predicate"])
                if fn and fn(r["case"], r, None):
                    fid = k["id"]
                    break
        if fid is None:
            rest.append(i)
        else:
            counts[fid] = counts.get(fid, 0) + 1
            reps.setdefault(fid, i)
    already = " ".join(ctx.known_lines)
    order = rest + [i for fid, i in reps.items() if "[%s]" % fid not in already]
    return order, counts


def lattice_stage(ctx):
    if not getattr(ctx, "model_ok", True):
        return
    binp = getattr(ctx, "binp", None) or vcheck.build_harness(ctx)
    if not binp:
        return
    parts = vcheck.NCPU
    jobs = []
    for j in range(parts):
        outp = os.path.join(ctx.work, "lat_%d.jsonl" % j)
        jobs.append(([binp, "gen", "-seed", str(ctx.seed), "-n", "0", "-o", outp, "-tier", ctx.tier,
                      "-x", "mode=lattice,part=%d,parts=%d" % (j, parts)], outp))
    recs = []
    with cf.ThreadPoolExecutor(max_workers=parts) as ex:
        futs = [ex.submit(vcheck.sh, c, None, vcheck.GOENV, 1200) for c, _ in jobs]
        for (c, outp), fu in zip(jobs, futs):
            rc, out = fu.result()
            if rc != 0:
                ctx.log("lattice gen rc=%d: %s" % (rc, out[-1500:]))
                ctx.harness_crash = (c, rc, out[-4000:])
            recs += vcheck.read_jsonl(outp)
    ctx.log("lattice: %d cells" % len(recs))
    bad, errs, _ = vcheck.coq_eval(ctx, recs, tag="l")
    for e in errs:
        ctx.log("coq eval error (lattice): " + e[-800:])
        ctx.eval_errors = True
    ctx.log("lattice evaluated in Coq: %d cells differ from the spec model" % len(bad))
    counts = {}
    if bad:
        order, counts = preclassify(ctx, recs, bad)
        ctx.log("lattice: cells inside open findings (impl = goja model I): %s; unexplained: %d" % (
            counts, len(bad) - sum(counts.values())))
        vcheck.handle_mismatches(ctx, binp, recs, order, "lattice")
    # merge into the coverage summary written by the history stage
    prev = dict(ctx.cov)
    vcheck.summarize(ctx, recs, len(bad))
    dist = dict(prev.get("input_distribution", {}))
    for k, v in ctx.cov["input_distribution"].items():
        dist[k] = dist.get(k, 0) + v
    ctx.cov["input_distribution"] = dist
    ctx.cov["mismatching_cases"] = prev.get("mismatching_cases", 0) + len(bad)
    ctx.cov["samples"] = (prev.get("samples", []) + ctx.cov["samples"])[:4]
    ctx.cov["lattice_cells"] = len(recs)
    ctx.cov["lattice_cells_in_open_findings"] = counts


def hist_stage(ctx):
    """corpus + random forwarding histories + revoked proxies.  Like vcheck.correspondence, but disagreements that are
    instances of an open finding (recognised on the unshrunk case) are not shrunk one by one: one representative per
    finding goes to the generic handler, everything unexplained goes first (and is shrunk)."""
    cfg = ctx.cfg
    binp = vcheck.build_harness(ctx)
    if not binp or not getattr(ctx, "model_ok", True):
        return
    ctx.binp = binp
    known = [k for k in vcheck.load_known()["open"] if k["property"] == ctx.pid]

    def split(recs, bad):
        rest, reps, counts = [], {}, {}
        for i in bad:
            r = recs[i]
            fid = None
            if r["case"].get("kind") == "hist":
                for k in known:
                    fn = PREDICATES.get(k["predicate"])
                    if fn and fn(r["case"], r, None):
                        fid = k["id"]
                        break
            if fid is None:
                rest.append(i)
            else:
                counts[fid] = counts.get(fid, 0) + 1
                reps.setdefault(fid, i)
        return rest, reps, counts

    def handle(recs, bad, source):
        lat = [i for i in bad if recs[i]["case"].get("kind") != "hist"]
        rest, reps, counts = split(recs, [i for i in bad if i not in lat])
        if lat:
            order, c2 = preclassify(ctx, recs, lat)
            vcheck.handle_mismatches(ctx, binp, recs, order, source)
        if rest:
            vcheck.handle_mismatches(ctx, binp, recs, rest, source)
        already = " ".join(ctx.known_lines)
        todo = [i for fid, i in reps.items() if "[%s]" % fid not in already]
        if todo:
            cfg["shrink"] = False
            try:
                vcheck.handle_mismatches(ctx, binp, recs, todo, source)
            finally:
                cfg["shrink"] = True
        return counts

    all_recs = []
    corpus_dir = os.path.join(vcheck.ROOT, "corpus", ctx.pid)
    corpus_cases = []
    if os.path.isdir(corpus_dir):
        for fn in sorted(os.listdir(corpus_dir)):
            if fn.endswith(".jsonl"):
                corpus_cases += [r["case"] for r in vcheck.read_jsonl(os.path.join(corpus_dir, fn))]
    if corpus_cases:
        recs = vcheck.harness_replay(ctx, binp, corpus_cases, tag="corpus")
        bad, errs, _ = vcheck.coq_eval(ctx, recs, tag="c")
        for e in errs:
            ctx.log("coq eval error on corpus: " + e[-500:])
            ctx.eval_errors = True
        ctx.cov["corpus_cases"] = len(recs)
        if bad:
            handle(recs, bad, "corpus")
        all_recs += recs
    recs = vcheck.harness_gen(ctx, binp, cfg["n"][ctx.tier], ctx.seed, extra=cfg.get("gen_extra"))
    ctx.log("generated %d history/revocation cases" % len(recs))
    bad, errs, _ = vcheck.coq_eval(ctx, recs, tag="g")
    for e in errs:
        ctx.log("coq eval error: " + e[-800:])
        ctx.eval_errors = True
    counts = handle(recs, bad, "generated") if bad else {}
    ctx.log("histories: %d differ between target and forwarding proxy; inside open findings: %s" % (len(bad), counts))
    ctx.cov["history_cases_in_open_findings"] = counts
    all_recs += recs
    vcheck.summarize(ctx, all_recs, len(bad))


def candidates(case):
    if isinstance(case, dict) and case.get("kind") == "hist":
        out = vcheck.default_candidates(case)
        if case.get("layers", 1) > 1:
            out.insert(0, dict(case, layers=1))
        return out
    return []


CFG = {
    "id": "C11",
    "harness": "c11",
    "prop_file": "Properties/C11.v",
    "run_modules": ["Verif.C11.Run"],
    "coq_dirs": ["C11"],
    "n": {"quick": 520, "thorough": 50000},
    "shard": 700,
    "max_report": 8,
    "level": "proof",
    "rule": ("(a) lattice, enumerated exhaustively: for each of the 13 traps, post-trap target states {key absent | data "
             "(writable x enumerable x configurable) | accessor (getter? x setter? x enumerable x configurable)} x "
             "{extensible, non-extensible} x key kind {string, index, symbol} (ownKeys: 3 keys each absent/configurable/"
             "non-configurable; prototype traps: proto null/object) x trap result {honest | one descriptor field changed or "
             "dropped | kind change | single-field partial descriptor | key removed/added/duplicated/non-key | flipped boolean "
             "| wrong prototype | non-object}, handler as JS object and as Go ProxyTrapConfig, Reflect.* and syntax/Object.* "
             "surfaces; non-trivial = the trap result is not the honest one; (b) random histories of 5..40 operations applied "
             "in lock-step to a target and to a 1-3 layer forwarding proxy over a clone (plain object, array, function, "
             "arguments, String object; JS Reflect handler, empty handler, Go handler); non-trivial = some mutation succeeded; "
             "(c) revoked proxies; distinct = by hash of the case"),
    "theorem_names": ["checks_eq_spec", "checks_eq_spec_other_traps", "ownkeys_eq", "honest_accepted", "forwarding_transparent",
                      "goja_forwarding_transparent", "lying_has", "lying_delete", "lying_get", "lying_set", "lying_extensibility",
                      "lying_prototype", "lying_ownkeys", "lying_gopd", "lying_define", "lying_construct", "revoked_throws"],
    "allowed_axioms": [],
    "trusted_base": [
        "Coq 8.16.1 kernel + vm_compute (no native_compute); theorems closed under the global context (no axioms)",
        "hand-written Gallina transcription of the post-trap checks of proxy.go and of ECMA-262 10.5.1-10.5.13 (coq/C11/Model.v)",
        "correspondence harness harness/cmd/c11 (JS prelude building targets/handlers; Go ProxyTrapConfig handlers)",
        "values, keys, functions and objects are identified by SameValue class codes assigned by the harness",
    ],
    "assumptions": [
        "targets of the lattice are ordinary objects (and plain functions for apply/construct); exotic targets are covered "
        "only by the impl-vs-impl forwarding histories",
        "the trap result is taken as given (post-trap target state is the model's input); re-entrant mutation by traps is "
        "exercised only through forwarding handlers",
        "the implementation is tied to the model on the enumerated lattice and generated histories (correspondence), not by proof",
    ],
    "predicates": PREDICATES,
    "candidates": candidates,
    "stages": [hist_stage, lattice_stage],
    "manifest": {
        "text": ("Proxy invariant enforcement: goja's post-trap checks (transcribed) are proved equal to the ECMA-262 10.5 "
                 "post-conditions for all trap results and all target states (except the recorded F6 region), honest "
                 "handlers are always accepted, each class of lying result is rejected, n-layer forwarding is transparent; "
                 "the transcription is tied to /repo by an exhaustive honest/lying lattice and forwarding histories"),
        "note": ("trusted: Coq kernel, the hand transcription of proxy.go and of the spec, the Go/JS harness; the "
                 "implementation is covered by correspondence, not by proof"),
        "technique": "Rocq proof of equality of decision functions + exhaustive differential lattice against /repo via vm_compute",
    },
}
