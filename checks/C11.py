import concurrent.futures as cf
import json
import os
import re

import vcheck


# ------------------------------------------------------------------------------------------------
# known-finding recognisers (narrow: input shape + observed/expected pair)

def _lat(case):
    return isinstance(case, dict) and case.get("kind") == "lat"


def _prop_at(case):
    k = case["call"].get("k")
    for p in case["target"].get("props", []):
        if p.get("k") == k:
            return p
    return None


def _desc_of(case):
    c = case["call"]
    if c["trap"] == "getOwnPropertyDescriptor" and c.get("rkind") == "desc":
        return c.get("rdesc") or {}
    if c["trap"] == "defineProperty" and c.get("rb"):
        return c.get("desc") or {}
    return None


def _is_acc(d):
    return "get" in d or "set" in d


def _is_data(d):
    return "value" in d or "writable" in d


def _threw(rec):
    return '"err":"TypeError"' in rec.get("obs", "")


def _exp_ok(exp, want_spec_typeerror):
    """exp is the printed `ELat spec goja impl_is_goja` (None while pre-classifying).  The finding is the
    recorded one only if the implementation still behaves as the transcribed goja algorithm."""
    if exp is None:
        return True
    m = re.search(r"ELat\s+(\(.*\)|RTypeError)\s+(\(.*\)|RTypeError)\s+(true|false)", exp, re.S)
    if not m or m.group(3) != "true":
        return False
    spec_te = m.group(1).strip() == "RTypeError"
    return want_spec_typeerror is None or spec_te == want_spec_typeerror


def pred_undef_accessor(case, rec, exp):
    """getOwnPropertyDescriptor trap returned an accessor descriptor whose get and set are both undefined:
    the proxy reports a DATA descriptor {value: undefined, writable: false}."""
    if not _lat(case):
        return False
    c = case["call"]
    d = _desc_of(case)
    if c["trap"] != "getOwnPropertyDescriptor" or d is None or not _is_acc(d) or _is_data(d):
        return False
    if d.get("get", 0) != 0 or d.get("set", 0) != 0:
        return False
    return '"acc":false' in rec.get("obs", "") and _exp_ok(exp, None)


def _hist_diff(case, rec):
    """(op at the first difference, direct result, direct log, proxied result, proxied log) of a history case"""
    m = re.search(r"^DIFF: first difference at op (\d+): direct=(.*?) proxied=(.*)$", rec.get("obs", ""), re.S)
    if not (isinstance(case, dict) and case.get("kind") == "hist" and m):
        return None
    i = int(m.group(1))
    ops = case.get("ops", [])
    if i >= len(ops):
        return None
    d, p = m.group(2), m.group(3)
    if "|" not in d or "|" not in p:
        return None
    dr, dl = d.rsplit("|", 1)
    pr, pl = p.rsplit("|", 1)
    return ops[i], dr, dl, pr, pl, ops[:i]


def pred_stale_writable(case, rec, exp):
    """direct object: [[Set]] on an own getter-only accessor that was converted from a data property by defineProperty
    reports success (Reflect.set true, strict assignment does not throw, with a foreign receiver the property is even
    created there); through the forwarding proxy it fails (false / TypeError) as the spec says."""
    h = _hist_diff(case, rec)
    if not h:
        return False
    op, dr, dl, pr, pl, before = h
    if op.get("o") != "set":
        return False
    conv = any(o.get("o") == "define" and o.get("k", 0) == op.get("k", 0) and o.get("d") and "get" in o["d"] and
               not o["d"].get("set") for o in before)
    return conv and (dr.startswith("set:T") or dr == "set:ok") and pr in ("set:F", "set:TypeError")


def pred_stale_getter(case, rec, exp):
    """direct object: defineProperty {writable: ...} without value on a configurable accessor turns the descriptor into a
    data descriptor but reads still invoke the old getter; the proxy (which trusts the descriptor) then differs."""
    h = _hist_diff(case, rec)
    if not h:
        return False
    op, dr, dl, pr, pl, before = h
    if op.get("o") not in ("get", "keys", "set"):
        return False
    same_key = lambda o: op.get("o") == "keys" or o.get("k", 0) == op.get("k", 0)
    conv = any(o.get("o") == "define" and same_key(o) and o.get("d") and "writable" in o["d"] and
               not any(f in o["d"] for f in ("value", "get", "set")) for o in before)
    return conv and "get@" in dl


def pred_keys_drop_index(case, rec, exp):
    """arguments object: a mapped index redefined non-enumerable is still listed by Object.keys/entries/for-in on the
    object itself; the proxy (which filters by getOwnPropertyDescriptor) omits it as the spec says."""
    h = _hist_diff(case, rec)
    if not h:
        return False
    op, dr, dl, pr, pl, before = h
    if op.get("o") != "keys" or case.get("target") != "arguments" or not dr.startswith("keys:[") or not pr.startswith("keys:["):
        return False
    dk = re.findall(r'"((?:[^"\\\\]|\\\\.)*)"', dr)
    pk = re.findall(r'"((?:[^"\\\\]|\\\\.)*)"', pr)
    missing = [x for x in dk if x not in pk]
    return len(dk) == len(pk) + len(missing) and 1 <= len(missing) <= 2 and all(re.match(r"^[01](\\?=|$)", x) for x in missing)


def pred_frozen_arguments(case, rec, exp):
    """Object.isSealed/isFrozen on a sealed/frozen arguments object answer false on the object itself (mapped arguments are
    not valueProperty values in the type switch); through the proxy the answer is true as the spec says."""
    h = _hist_diff(case, rec)
    if not h:
        return False
    op, dr, dl, pr, pl, before = h
    return op.get("o") == "isext" and case.get("target") == "arguments" and dr == "isext:F" and pr == "isext:T"


def pred_error_path_getter(case, rec, exp):
    """a failing delete / setPrototypeOf / ... builds its TypeError message (even when it then only returns false) by
    stringifying the object or the property value, which runs user getters; target and proxy agree on the result and
    differ only in these spurious getter calls."""
    h = _hist_diff(case, rec)
    if not h:
        return False
    op, dr, dl, pr, pl, before = h
    if dr != pr or not (dr.endswith(":TypeError") or dr.endswith(":F")) or op.get("o") not in ("delete", "setproto", "prevext", "define", "set"):
        return False
    ents = [e for e in dl.split(",") if e]
    return dl != pl and len(ents) > 0 and all(e.startswith("get@") for e in ents) and all(e.startswith("get@") for e in pl.split(",") if e)


def pred_length_rangeerror(case, rec, exp):
    """array whose length is non-writable (frozen): assigning an invalid length throws RangeError on the array itself (the
    value is validated before writability); spec and the proxy path: false / TypeError in strict code."""
    h = _hist_diff(case, rec)
    if not h:
        return False
    op, dr, dl, pr, pl, before = h
    return op.get("o") == "set" and op.get("k", 0) == 2 and case.get("target") == "array" and dr == "set:RangeError" and \
        pr in ("set:F", "set:TypeError", "set:0")


def pred_stale_writable_model(case, rec, exp):
    """model history: data -> accessor -> data (value given, writable not given) on one key: the property ends up
    writable:true (stale flag of its first data incarnation), the spec and the model say writable:false."""
    if not (isinstance(case, dict) and case.get("kind") == "model"):
        return False
    m = re.search(r"^final=(\{.*?\}) all=", rec.get("obs", ""))
    if not m:
        return False
    try:
        fin = json.loads(m.group(1))
    except ValueError:
        return False
    for p in fin.get("props", []):
        d = p.get("d") or {}
        if d.get("acc") or not d.get("w"):
            continue
        defs = [o for o in case.get("ops", []) if o.get("o") == "define" and o.get("k", 0) == p.get("k") and o.get("d")]
        acc_seen = False
        for o in defs:
            dd = o["d"]
            if "get" in dd or "set" in dd:
                if "value" not in dd and "writable" not in dd:
                    acc_seen = True
            elif acc_seen and "value" in dd and "writable" not in dd:
                return True
    return False


PREDICATES = {
    "C11.data_accessor_data_keeps_writable": pred_stale_writable_model,
    "C11.gopd_undefined_accessor_reported_as_data": pred_undef_accessor,
    "C11.getter_only_set_reports_success": pred_stale_writable,
    "C11.accessor_to_data_keeps_getter": pred_stale_getter,
    "C11.arguments_enumeration_ignores_enumerable": pred_keys_drop_index,
    "C11.issealed_false_on_sealed_arguments": pred_frozen_arguments,
    "C11.error_path_calls_getter": pred_error_path_getter,
    "C11.array_length_rangeerror_before_writable": pred_length_rangeerror,
}


# ------------------------------------------------------------------------------------------------
# the exhaustive lattice stage

def _impl_is_I(ctx, recs):
    """ask the model, in one coqc run, which observations coincide with the goja-shaped model I"""
    path = os.path.join(ctx.work, "cls.v")
    with open(path, "w") as f:
        f.write("From Coq Require Import List ZArith NArith String Ascii.\nImport ListNotations.\n")
        f.write("Require Import Verif.C11.Run.\nSet Printing Width 1000000. Set Printing Depth 1000000.\n")
        f.write("Definition cases : list tcase := [\n" + ";\n".join("(" + r["coq"] + ")" for r in recs) + "\n].\n")
        f.write("Definition B := Eval vm_compute in map impl_is_I cases.\nPrint B.\n")
    rc, out = vcheck.sh(["coqc", "-Q", vcheck.COQ, "Verif", "-o", os.path.join(ctx.work, "cls.vo"), path], timeout=900)
    m = re.search(r"B\s*=\s*(\[.*?\])\s*:\s*list bool", out, re.S)
    if rc != 0 or not m:
        return [False] * len(recs)
    flags = [x == "true" for x in re.findall(r"\b(true|false)\b", m.group(1))]
    return flags if len(flags) == len(recs) else [False] * len(recs)


def preclassify(ctx, recs, bad):
    """impl <> S on these.  Those with impl = I inside the region of an open finding are instances of that
    finding: keep one representative per finding (reported by the generic handler), everything else first."""
    known = [k for k in vcheck.load_known()["open"] if k["property"] == ctx.pid]
    sub = [recs[i] for i in bad]
    flags = _impl_is_I(ctx, sub)
    rest, reps, counts = [], {}, {}
    for i, (r, f) in zip(bad, zip(sub, flags)):
        fid = None
        if f:
            for k in known:
                fn = PREDICATES.get(k["predicate"])
                if fn and fn(r["case"], r, None):
                    fid = k["id"]
                    break
        if fid is None:
            rest.append(i)
        else:
            counts[fid] = counts.get(fid, 0) + 1
            reps.setdefault(fid, i)
    already = " ".join(ctx.known_lines)
    order = rest + [i for fid, i in reps.items() if "[%s]" % fid not in already]
    return order, counts


def _lattice_compute(ctx, binp):
    """generate the exhaustive lattice and evaluate it in Coq (no reporting): runs concurrently with the history stage"""
    parts = vcheck.NCPU
    jobs = []
    for j in range(parts):
        outp = os.path.join(ctx.work, "lat_%d.jsonl" % j)
        jobs.append(([binp, "gen", "-seed", str(ctx.seed), "-n", "0", "-o", outp, "-tier", ctx.tier,
                      "-x", "mode=lattice,part=%d,parts=%d" % (j, parts)], outp))
    recs, crash = [], None
    with cf.ThreadPoolExecutor(max_workers=parts) as ex:
        futs = [ex.submit(vcheck.sh, c, None, vcheck.GOENV, 1200) for c, _ in jobs]
        for (c, outp), fu in zip(jobs, futs):
            rc, out = fu.result()
            if rc != 0:
                crash = (c, rc, out[-4000:])
            recs += vcheck.read_jsonl(outp)
    bad, errs, _ = vcheck.coq_eval(ctx, recs, tag="l")
    return recs, bad, errs, crash


def lattice_stage(ctx):
    if not getattr(ctx, "model_ok", True):
        return
    binp = getattr(ctx, "binp", None) or vcheck.build_harness(ctx)
    if not binp:
        return
    fut = getattr(ctx, "lat_future", None)
    recs, bad, errs, crash = fut.result() if fut else _lattice_compute(ctx, binp)
    if crash:
        ctx.log("lattice gen rc=%d: %s" % (crash[1], crash[2][-1500:]))
        ctx.harness_crash = crash
    ctx.log("lattice: %d cells" % len(recs))
    for e in errs:
        ctx.log("coq eval error (lattice): " + e[-800:])
        ctx.eval_errors = True
    ctx.log("lattice evaluated in Coq: %d cells differ from the spec model" % len(bad))
    counts = {}
    if bad:
        order, counts = preclassify(ctx, recs, bad)
        ctx.log("lattice: cells inside open findings (impl = goja model I): %s; unexplained: %d" % (
            counts, len(bad) - sum(counts.values())))
        vcheck.handle_mismatches(ctx, binp, recs, order, "lattice")
    # merge into the coverage summary written by the history stage
    prev = dict(ctx.cov)
    vcheck.summarize(ctx, recs, len(bad))
    dist = dict(prev.get("input_distribution", {}))
    for k, v in ctx.cov["input_distribution"].items():
        dist[k] = dist.get(k, 0) + v
    ctx.cov["input_distribution"] = dist
    ctx.cov["mismatching_cases"] = prev.get("mismatching_cases", 0) + len(bad)
    ctx.cov["samples"] = (prev.get("samples", []) + ctx.cov["samples"])[:4]
    ctx.cov["lattice_cells"] = len(recs)
    ctx.cov["lattice_cells_in_open_findings"] = counts


def hist_stage(ctx):
    """corpus + random forwarding histories + revoked proxies.  Like vcheck.correspondence, but disagreements that are
    instances of an open finding (recognised on the unshrunk case) are not shrunk one by one: one representative per
    finding goes to the generic handler, everything unexplained goes first (and is shrunk)."""
    cfg = ctx.cfg
    binp = vcheck.build_harness(ctx)
    if not binp or not getattr(ctx, "model_ok", True):
        return
    ctx.binp = binp
    ctx.log("harness built")
    ctx.lat_pool = cf.ThreadPoolExecutor(max_workers=1)
    ctx.lat_future = ctx.lat_pool.submit(_lattice_compute, ctx, binp)
    known = [k for k in vcheck.load_known()["open"] if k["property"] == ctx.pid]

    def split(recs, bad):
        rest, reps, counts = [], {}, {}
        for i in bad:
            r = recs[i]
            fid = None
            if r["case"].get("kind") == "hist":
                for k in known:
                    fn = PREDICATES.get(k["predicate"])
                    if fn and fn(r["case"], r, None):
                        fid = k["id"]
                        break
            if fid is None:
                rest.append(i)
            else:
                counts[fid] = counts.get(fid, 0) + 1
                reps.setdefault(fid, i)
        return rest, reps, counts

    def handle(recs, bad, source):
        lat = [i for i in bad if recs[i]["case"].get("kind") != "hist"]
        rest, reps, counts = split(recs, [i for i in bad if i not in lat])
        if lat:
            order, c2 = preclassify(ctx, recs, lat)
            vcheck.handle_mismatches(ctx, binp, recs, order, source)
        if rest:
            vcheck.handle_mismatches(ctx, binp, recs, rest, source)
        already = " ".join(ctx.known_lines)
        todo = [i for fid, i in reps.items() if "[%s]" % fid not in already]
        if todo:
            cfg["shrink"] = False
            try:
                vcheck.handle_mismatches(ctx, binp, recs, todo, source)
            finally:
                cfg["shrink"] = True
        return counts

    all_recs = []
    corpus_dir = os.path.join(vcheck.ROOT, "corpus", ctx.pid)
    corpus_cases = []
    if os.path.isdir(corpus_dir):
        for fn in sorted(os.listdir(corpus_dir)):
            if fn.endswith(".jsonl"):
                corpus_cases += [r["case"] for r in vcheck.read_jsonl(os.path.join(corpus_dir, fn))]
    if corpus_cases:
        recs = vcheck.harness_replay(ctx, binp, corpus_cases, tag="corpus")
        bad, errs, _ = vcheck.coq_eval(ctx, recs, tag="c")
        for e in errs:
            ctx.log("coq eval error on corpus: " + e[-500:])
            ctx.eval_errors = True
        ctx.cov["corpus_cases"] = len(recs)
        ctx.log("corpus: %d cases, %d differ" % (len(recs), len(bad)))
        if bad:
            handle(recs, bad, "corpus")
        ctx.log("corpus handled")
        all_recs += recs
    recs = vcheck.harness_gen(ctx, binp, cfg["n"][ctx.tier], ctx.seed, extra=cfg.get("gen_extra"))
    ctx.log("generated %d history/revocation cases" % len(recs))
    bad, errs, _ = vcheck.coq_eval(ctx, recs, tag="g")
    for e in errs:
        ctx.log("coq eval error: " + e[-800:])
        ctx.eval_errors = True
    counts = handle(recs, bad, "generated") if bad else {}
    ctx.log("histories: %d differ between target and forwarding proxy; inside open findings: %s" % (len(bad), counts))
    ctx.cov["history_cases_in_open_findings"] = counts
    all_recs += recs
    vcheck.summarize(ctx, all_recs, len(bad))


def candidates(case):
    if isinstance(case, dict) and case.get("kind") == "hist":
        out = vcheck.default_candidates(case)
        if case.get("layers", 1) > 1:
            out.insert(0, dict(case, layers=1))
        return out
    if isinstance(case, dict) and case.get("kind") == "model":
        out = vcheck.default_candidates(case)
        if case.get("layers", 1) > 1:
            out.insert(0, dict(case, layers=1))
        return out
    return []


CFG = {
    "id": "C11",
    "harness": "c11",
    "prop_file": "Properties/C11.v",
    "run_modules": ["Verif.C11.Run"],
    "coq_dirs": ["C11"],
    "n": {"quick": 330, "thorough": 50000},
    "shard": 250,
    "max_report": 8,
    "level": "proof",
    "rule": ("(a) lattice, enumerated exhaustively: for each of the 13 traps, post-trap target states {key absent | data "
             "(writable x enumerable x configurable) | accessor (getter? x setter? x enumerable x configurable)} x "
             "{extensible, non-extensible} x key kind {string, index, symbol} (ownKeys: 3 keys each absent/configurable/"
             "non-configurable; prototype traps: proto null/object) x trap result {honest | one descriptor field changed or "
             "dropped | kind change | single-field partial descriptor | key removed/added/duplicated/non-key | flipped boolean "
             "| wrong prototype | non-object}, handler as JS object and as Go ProxyTrapConfig, Reflect.* and syntax/Object.* "
             "surfaces; non-trivial = the trap result is not the honest one; (b) random histories of 5..40 operations applied "
             "in lock-step to a target and to a 1-3 layer forwarding proxy over a clone (plain object, array, function, "
             "arguments, String object; JS Reflect handler, empty handler, Go handler), observations compared between the two; "
             "(b') every third case: a history on a modelled plain object (string keys) through 1-3 forwarding layers, results "
             "and final target state checked against the target model ord_step; non-trivial = some mutation succeeded; "
             "(c) revoked proxies; distinct = by hash of the case"),
    "theorem_names": ["checks_eq_spec", "checks_eq_spec_other_traps", "ownkeys_eq", "honest_accepted", "forwarding_transparent",
                      "goja_forwarding_transparent", "compat_eq", "define_eq", "lying_has", "lying_delete", "lying_get", "lying_set", "lying_extensibility",
                      "lying_prototype", "lying_ownkeys", "lying_gopd", "lying_define", "lying_construct", "revoked_throws"],
    "allowed_axioms": [],
    "trusted_base": [
        "Coq 8.16.1 kernel + vm_compute (no native_compute); theorems closed under the global context (no axioms)",
        "hand-written Gallina transcription of the post-trap checks of proxy.go and of ECMA-262 10.5.1-10.5.13 (coq/C11/Model.v)",
        "correspondence harness harness/cmd/c11 (JS prelude building targets/handlers; Go ProxyTrapConfig handlers)",
        "values, keys, functions and objects are identified by SameValue class codes assigned by the harness",
    ],
    "assumptions": [
        "targets of the lattice are ordinary objects (and plain functions for apply/construct); exotic targets are covered "
        "only by the impl-vs-impl forwarding histories",
        "the trap result is taken as given (post-trap target state is the model's input); re-entrant mutation by traps is "
        "exercised only through forwarding handlers",
        "the implementation is tied to the model on the enumerated lattice and generated histories (correspondence), not by proof",
    ],
    "predicates": PREDICATES,
    "candidates": candidates,
    "stages": [hist_stage, lattice_stage],
    "manifest": {
        "text": ("Proxy invariant enforcement: goja's post-trap checks (transcribed) are proved equal to the ECMA-262 10.5 "
                 "post-conditions for all trap results and all target states (only guard left: open finding F6c), honest "
                 "handlers are always accepted, each class of lying result is rejected, n-layer forwarding is transparent; "
                 "the transcription is tied to /repo by an exhaustive honest/lying lattice and forwarding histories"),
        "note": ("trusted: Coq kernel, the hand transcription of proxy.go and of the spec, the Go/JS harness; the "
                 "implementation is covered by correspondence, not by proof"),
        "technique": "Rocq proof of equality of decision functions + exhaustive differential lattice against /repo via vm_compute",
    },
}
