import concurrent.futures as cf
import json
import os
import re

import vcheck


# ------------------------------------------------------------------------------------------------
# known-finding recognisers (narrow: input shape + observed/expected pair)

def _lat(case):
    return isinstance(case, dict) and case.get("kind") == "lat"


def _prop_at(case):
    k = case["call"].get("k")
    for p in case["target"].get("props", []):
        if p.get("k") == k:
            return p
    return None


# no open finding: no predicate
PREDICATES = {}


# ------------------------------------------------------------------------------------------------
# the exhaustive lattice stage

def preclassify(ctx, recs, bad):
    """impl <> S on these.  Those recognised by the narrow predicate of an open finding are instances of it: keep one
    representative per finding (reported by the generic handler), everything unexplained first."""
    known = [k for k in vcheck.load_known()["open"] if k["property"] == ctx.pid]
    rest, reps, counts = [], {}, {}
    for i in bad:
        r = recs[i]
        fid = None
        for k in known:
            fn = PREDICATES.get(k["predicate"])
            if fn and fn(r["case"], r, None):
                fid = k["id"]
                break
        if fid is None:
            rest.append(i)
        else:
            counts[fid] = counts.get(fid, 0) + 1
            reps.setdefault(fid, i)
    already = " ".join(ctx.known_lines)
    order = rest + [i for fid, i in reps.items() if "[%s]" % fid not in already]
    return order, counts


def _lattice_compute(ctx, binp):
    """generate the exhaustive lattice and evaluate it in Coq (no reporting): runs concurrently with the history stage"""
    parts = vcheck.NCPU
    jobs = []
    for j in range(parts):
        outp = os.path.join(ctx.work, "lat_%d.jsonl" % j)
        jobs.append(([binp, "gen", "-seed", str(ctx.seed), "-n", "0", "-o", outp, "-tier", ctx.tier,
                      "-x", "mode=lattice,part=%d,parts=%d" % (j, parts)], outp))
    recs, crash = [], None
    with cf.ThreadPoolExecutor(max_workers=parts) as ex:
        futs = [ex.submit(vcheck.sh, c, None, vcheck.GOENV, 1200) for c, _ in jobs]
        for (c, outp), fu in zip(jobs, futs):
            rc, out = fu.result()
            if rc != 0:
                crash = (c, rc, out[-4000:])
            recs += vcheck.read_jsonl(outp)
    bad, errs, _ = vcheck.coq_eval(ctx, recs, tag="l")
    return recs, bad, errs, crash


def lattice_stage(ctx):
    if not getattr(ctx, "model_ok", True):
        return
    binp = getattr(ctx, "binp", None) or vcheck.build_harness(ctx)
    if not binp:
        return
    fut = getattr(ctx, "lat_future", None)
    recs, bad, errs, crash = fut.result() if fut else _lattice_compute(ctx, binp)
    if crash:
        ctx.log("lattice gen rc=%d: %s" % (crash[1], crash[2][-1500:]))
        ctx.harness_crash = crash
    ctx.log("lattice: %d cells" % len(recs))
    for e in errs:
        ctx.log("coq eval error (lattice): " + e[-800:])
        ctx.eval_errors = True
    ctx.log("lattice evaluated in Coq: %d cells differ from the spec model" % len(bad))
    counts = {}
    if bad:
        order, counts = preclassify(ctx, recs, bad)
        ctx.log("lattice: cells inside open findings: %s; unexplained: %d" % (
            counts, len(bad) - sum(counts.values())))
        vcheck.handle_mismatches(ctx, binp, recs, order, "lattice")
    # merge into the coverage summary written by the history stage
    prev = dict(ctx.cov)
    vcheck.summarize(ctx, recs, len(bad))
    dist = dict(prev.get("input_distribution", {}))
    for k, v in ctx.cov["input_distribution"].items():
        dist[k] = dist.get(k, 0) + v
    ctx.cov["input_distribution"] = dist
    ctx.cov["mismatching_cases"] = prev.get("mismatching_cases", 0) + len(bad)
    ctx.cov["samples"] = (prev.get("samples", []) + ctx.cov["samples"])[:4]
    ctx.cov["lattice_cells"] = len(recs)
    ctx.cov["lattice_cells_in_open_findings"] = counts


def hist_stage(ctx):
    """corpus + random forwarding histories + revoked proxies.  Like vcheck.correspondence, but disagreements that are
    instances of an open finding (recognised on the unshrunk case) are not shrunk one by one: one representative per
    finding goes to the generic handler, everything unexplained goes first (and is shrunk)."""
    cfg = ctx.cfg
    binp = vcheck.build_harness(ctx)
    if not binp or not getattr(ctx, "model_ok", True):
        return
    ctx.binp = binp
    ctx.log("harness built")
    ctx.lat_pool = cf.ThreadPoolExecutor(max_workers=1)
    ctx.lat_future = ctx.lat_pool.submit(_lattice_compute, ctx, binp)
    known = [k for k in vcheck.load_known()["open"] if k["property"] == ctx.pid]

    def split(recs, bad):
        rest, reps, counts = [], {}, {}
        for i in bad:
            r = recs[i]
            fid = None
            if r["case"].get("kind") == "hist":
                for k in known:
                    fn = PREDICATES.get(k["predicate"])
                    if fn and fn(r["case"], r, None):
                        fid = k["id"]
                        break
            if fid is None:
                rest.append(i)
            else:
                counts[fid] = counts.get(fid, 0) + 1
                reps.setdefault(fid, i)
        return rest, reps, counts

    def handle(recs, bad, source):
        lat = [i for i in bad if recs[i]["case"].get("kind") != "hist"]
        rest, reps, counts = split(recs, [i for i in bad if i not in lat])
        if lat:
            order, c2 = preclassify(ctx, recs, lat)
            vcheck.handle_mismatches(ctx, binp, recs, order, source)
        if rest:
            vcheck.handle_mismatches(ctx, binp, recs, rest, source)
        already = " ".join(ctx.known_lines)
        todo = [i for fid, i in reps.items() if "[%s]" % fid not in already]
        if todo:
            cfg["shrink"] = False
            try:
                vcheck.handle_mismatches(ctx, binp, recs, todo, source)
            finally:
                cfg["shrink"] = True
        return counts

    all_recs = []
    corpus_dir = os.path.join(vcheck.ROOT, "corpus", ctx.pid)
    corpus_cases = []
    if os.path.isdir(corpus_dir):
        for fn in sorted(os.listdir(corpus_dir)):
            if fn.endswith(".jsonl"):
                corpus_cases += [r["case"] for r in vcheck.read_jsonl(os.path.join(corpus_dir, fn))]
    if corpus_cases:
        recs = vcheck.harness_replay(ctx, binp, corpus_cases, tag="corpus")
        bad, errs, _ = vcheck.coq_eval(ctx, recs, tag="c")
        for e in errs:
            ctx.log("coq eval error on corpus: " + e[-500:])
            ctx.eval_errors = True
        ctx.cov["corpus_cases"] = len(recs)
        ctx.log("corpus: %d cases, %d differ" % (len(recs), len(bad)))
        if bad:
            handle(recs, bad, "corpus")
        ctx.log("corpus handled")
        all_recs += recs
    recs = vcheck.harness_gen(ctx, binp, cfg["n"][ctx.tier], ctx.seed, extra=cfg.get("gen_extra"))
    ctx.log("generated %d history/revocation cases" % len(recs))
    bad, errs, _ = vcheck.coq_eval(ctx, recs, tag="g")
    for e in errs:
        ctx.log("coq eval error: " + e[-800:])
        ctx.eval_errors = True
    counts = handle(recs, bad, "generated") if bad else {}
    ctx.log("histories: %d differ between target and forwarding proxy; inside open findings: %s" % (len(bad), counts))
    ctx.cov["history_cases_in_open_findings"] = counts
    all_recs += recs
    vcheck.summarize(ctx, all_recs, len(bad))


def candidates(case):
    if isinstance(case, dict) and case.get("kind") == "hist":
        out = vcheck.default_candidates(case)
        if case.get("layers", 1) > 1:
            out.insert(0, dict(case, layers=1))
        return out
    if isinstance(case, dict) and case.get("kind") == "model":
        out = vcheck.default_candidates(case)
        if case.get("layers", 1) > 1:
            out.insert(0, dict(case, layers=1))
        return out
    return []


CFG = {
    "id": "C11",
    "harness": "c11",
    "prop_file": "Properties/C11.v",
    "run_modules": ["Verif.C11.Run"],
    "coq_dirs": ["C11"],
    "n": {"quick": 300, "thorough": 50000},
    "shard": 150,
    "max_report": 8,
    "level": "proof",
    "rule": ("(a) lattice, enumerated exhaustively: for each of the 13 traps, post-trap target states {key absent | data "
             "(writable x enumerable x configurable) | accessor (getter? x setter? x enumerable x configurable)} x "
             "{extensible, non-extensible} x key kind {string, index, symbol} (ownKeys: 3 keys each absent/configurable/"
             "non-configurable; prototype traps: proto null/object) x trap result {honest | one descriptor field changed or "
             "dropped | kind change | single-field partial descriptor | key removed/added/duplicated/non-key | flipped boolean "
             "| wrong prototype | non-object}, handler as JS object and as Go ProxyTrapConfig, Reflect.* and syntax/Object.* "
             "surfaces; non-trivial = the trap result is not the honest one; (b) random histories of 5..40 operations applied "
             "in lock-step to a target and to a 1-3 layer forwarding proxy over a clone (plain object, array, function, "
             "arguments, String object; JS Reflect handler, empty handler, Go handler), observations compared between the two; "
             "(b') every third case: a history on a modelled plain object (string keys) through 1-3 forwarding layers, results "
             "and final target state checked against the target model ord_step; non-trivial = some mutation succeeded; "
             "(c) revoked proxies; distinct = by hash of the case"),
    "theorem_names": ["checks_eq_spec", "checks_eq_spec_other_traps", "ownkeys_eq", "honest_accepted", "forwarding_transparent",
                      "goja_forwarding_transparent", "compat_eq", "define_eq", "lying_has", "lying_delete", "lying_get", "lying_set", "lying_extensibility",
                      "lying_prototype", "lying_ownkeys", "lying_gopd", "lying_define", "lying_construct", "revoked_throws"],
    "allowed_axioms": [],
    "trusted_base": [
        "Coq 8.16.1 kernel + vm_compute (no native_compute); theorems closed under the global context (no axioms)",
        "hand-written Gallina transcription of the post-trap checks of proxy.go and of ECMA-262 10.5.1-10.5.13 (coq/C11/Model.v)",
        "correspondence harness harness/cmd/c11 (JS prelude building targets/handlers; Go ProxyTrapConfig handlers)",
        "values, keys, functions and objects are identified by SameValue class codes assigned by the harness",
    ],
    "assumptions": [
        "forwarding transparency is claimed for ordinary targets (theorem) and checked impl-vs-impl on exotic ones, with ONE "
        "spec-sanctioned exemption (a property of ECMA-262, not a finding): defineProperty(proxy over Array, 'length', {value: v}) "
        "where the length ends up non-writable and v is not SameValue to ToUint32(v) (-0, '3'): ArraySetLength stores "
        "ToUint32(v), the proxy's 10.5.6 post-trap check compares the original v and must throw TypeError while the target "
        "itself accepts; such steps are tagged spec-exempt=array-length-normalised and both sides stay in the same state",
        "targets of the lattice are ordinary objects (and plain functions for apply/construct); exotic targets are covered "
        "only by the impl-vs-impl forwarding histories",
        "the trap result is taken as given (post-trap target state is the model's input); re-entrant mutation by traps is "
        "exercised only through forwarding handlers",
        "the implementation is tied to the model on the enumerated lattice and generated histories (correspondence), not by proof",
    ],
    "predicates": PREDICATES,
    "candidates": candidates,
    "stages": [hist_stage, lattice_stage],
    "manifest": {
        "text": ("Proxy invariant enforcement: goja's post-trap checks (transcribed) are proved equal to the ECMA-262 10.5 "
                 "post-conditions for all trap results and all target states (only guard left: open finding F6c), honest "
                 "handlers are always accepted, each class of lying result is rejected, n-layer forwarding is transparent; "
                 "the transcription is tied to /repo by an exhaustive honest/lying lattice and forwarding histories"),
        "note": ("trusted: Coq kernel, the hand transcription of proxy.go and of the spec, the Go/JS harness; the "
                 "implementation is covered by correspondence, not by proof"),
        "technique": "Rocq proof of equality of decision functions + exhaustive differential lattice against /repo via vm_compute",
    },
}
