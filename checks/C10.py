CFG = {
    "id": "C10",
    "harness": "c10",
    "prop_file": "Properties/C10.v",
    "run_modules": ["Verif.C10.Run"],
    "coq_dirs": ["C10"],
    "n": {"quick": 2000, "thorough": 150000},
    "shard": 500,
    "max_report": 3,
    "level": "proof",
    "rule": ("promise-operation programs of <= 12 ops after 1..4 leading NewPromise, <= 10 named promises, 0..3 thenable objects "
             "(callable then scripts calling resolve/reject 0..3 times and/or throwing; throwing then-getter; non-callable then), "
             "ops = new / resolve / reject through a pair (any number of times; value = int, promise, thenable, the promise itself) / "
             "then with optional handlers (handler = log, 0..2 resolver calls, then return int | return arg | throw | return promise | "
             "return thenable | interrupt; .catch sugar; ~10% of handlers are NATIVE Go functions whose resolver calls go through an "
             "outermost entry point of the Runtime: NewPromise resolver / Callable / RunString) / finally(script) / async functions (0..3 awaits of int, promise, thenable, "
             "then return int | promise | thenable or throw, optional try/catch) / all, allSettled, race, any over promises, ints "
             "and thenables; 20% of cases are 'tick races' (then-chains of length 2..4 shuffled with async functions awaiting or "
             "returning an already settled promise, a logging then on every async result, finally); 12% are 'go resolver' cases (NewPromise() resolve/reject closures called from plain Go, mostly before anything "
             "subscribed, with a promise / thenable / plain value, then unrelated runs); 13% are 'native re-entry' cases (several reactions of one promise, one of them native and "
             "settling other promises, drained by a Go-side resolver call, i.e. from an empty call stack); split into 1..3 runs, "
             "with Go-side NewPromise()/resolver calls as runs of their own; non-trivial = at least two log entries and one of "
             "(resolution with promise/thenable, handler returning promise/thenable, combinator, several runs, repeated resolver "
             "call, async function, finally); distinct = by hash of the case"),
    "theorem_names": ["promise_refines", "each_reaction_once", "queue_empty_on_return", "interrupt_discards",
                      "settle_once", "latched_pair_is_noop", "tracker_language", "reaction_record_jobbed_once", "fuel_irrelevant", "nested_leave_returns_at_once",
                      "old_reentrant_drain_breaks_fifo"],
    "allowed_axioms": [],
    "trusted_base": [
        "Coq 8.16.1 kernel + vm_compute (no native_compute); theorems closed under the global context (no axioms)",
        "hand-written Gallina transcription of builtin_promise.go and Runtime.leave/leaveAbrupt (coq/C10/Model.v)",
        "correspondence harness harness/cmd/c10 (JS compilation of the op language, Go-side log/tracker/interrupt callbacks, "
        "value encoding by object identity) + /repo/verif_hooks.go (VerifIdle: len(jobQueue))",
        "node 20 was used during development to validate the model's job order; it takes no part in a verdict",
    ],
    "assumptions": [
        "the drain loops take fuel (one unit per executed job); a run that exhausts it is marked `exhausted` and its remaining "
        "jobs are accounted as dropped, so every theorem holds unconditionally; the correspondence check requires exhausted = false",
        "user handlers cannot create promises or reactions themselves (they log, call resolving functions, return/throw/interrupt); finally and async continuations do, internally",
        "async function bodies are straight-line (awaits, then return/throw, optionally wrapped in one try/catch); the suspended "
        "body is data carried by the reaction (asyncRunner + generator context are not modelled as VM state, see C09)",
        "termination of the drain for stratified programs is not proved; each generated case is shown to finish within fuel by evaluation",
        "species/subclass constructors, async generators, for-await are not modelled",
        "the implementation is tied to the model only on the generated programs (correspondence), not by proof",
    ],
    "predicates": {},
    "manifest": {
        "text": ("proof: a Gallina transcription of goja's promise machinery (Promise records with reaction lists and the handled flag, "
                 "resolving-function pairs with the alreadyResolved latch, thenable jobs, reaction jobs, all/allSettled/race/any, finally, "
                 "async functions (asyncRunner.start/step/onFulfilled/onRejected = AsyncFunctionStart/Await: await = PromiseResolve + "
                 "PerformPromiseThen without capability, return through the capability's resolve function), the "
                 "double-buffered drain loop of Runtime.leave with its draining flag (a nested leave() reached from a native handler returns at "
                 "once; the re-entrant loop before f7b1efa is shown NOT to refine the FIFO queue) and leaveAbrupt) is proved, for every program, every split into runs and "
                 "every fuel, to produce exactly the state (event log, tracker log, promise states) of ECMA-262 27.2 over a plain FIFO "
                 "queue; every enqueued job gets a unique id and is executed at most once, executed + discarded = enqueued, the queue is "
                 "empty at every return, jobs discarded by an interrupt never run, a promise is settled at most once (latch invariant), "
                 "a stored reaction record becomes a job at most once, "
                 "and per promise the tracker log is a prefix of [reject; handle] determined by the handled flag. The model is tied to "
                 "/repo on every run by compiling generated programs to JS, running them on goja with Go-side log, tracker, interrupt "
                 "and NewPromise resolvers, and comparing log, tracker log, State()/Result() and len(jobQueue) after every run with the "
                 "model evaluated by vm_compute."),
        "note": ("trusted: Coq kernel + vm_compute; the hand transcription coq/C10/Model.v (one transcription of the promise-record "
                 "algorithms shared by I and S, which differ in the queue discipline); the Go harness and VerifIdle; the implementation "
                 "itself is covered by correspondence on generated programs, not by proof; species/async generators not modelled"),
        "technique": "Rocq refinement + invariant proofs over an executable promise/job-queue model; differential correspondence against /repo via vm_compute",
    },
}
