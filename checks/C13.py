def _probe(names, signature):
    """narrow recogniser: the named minimal probe of the finding, failing with the recorded signature"""
    def pred(case, record, expected_text):
        return (isinstance(case, dict) and case.get("kind") == "probe" and case.get("name") in names
                and signature in (record.get("obs") or "") and "false" in (record.get("coq") or ""))
    return pred


CFG = {
    "id": "C13",
    "harness": "c13",
    "prop_file": "Properties/C13.v",
    "run_modules": ["Verif.C13.Run"],
    "coq_dirs": ["C13"],
    "n": {"quick": 1000, "thorough": 100000},
    "shard": 64,
    "max_report": 12,
    "level": "proof",
    "rule": ("45% rt: a random Go type (nesting <= 4 of reflect.StructOf/PtrTo/SliceOf/ArrayOf/MapOf[string|int*|uint*|float*]/FuncOf "
             "incl. variadic and (T, error), interface{}, all numeric kinds, string, bool, *big.Int, time.Time, hand-written structs with "
             "embedded/unexported/tagged/shadowing fields and methods) and a random value of it under one of the 3 FieldNameMappers: "
             "Export identity (deep equality + same pointer for ptr/map/slice/func), ExportTo own type, 11 read-only script operations "
             "without host panic; 10% graph: script-built object graph of 1..6 nodes with sharing/cycles exported once, canonical shape by "
             "pointer identity vs the model's export-with-cache; 35% hist: 1..20 ops (get/put/defineProperty/putHandle/delete/sort/length=/"
             "push/pop/splice/reverse, Go-side element and pointee writes, read/get/set/delete/keys through earlier handles) on a *[]Elem "
             "wrapper, Go-visible and script-visible state compared with the model after every op; 10% map: 1..20 ops on map[string]int / "
             "map[string]interface{} wrappers with Object.keys/for-in/JSON/spread/entries dumps. non-trivial = rt depth>0, graph with a "
             "shared/cyclic node, hist with sort/shrink/splice after a handle was taken, map with >3 ops; distinct = by hash of the case. "
             "The generator stays out of the regions of the open findings C13-F20..F26 (those are replayed from the corpus)."),
    "theorem_names": ["export_toValue_norm", "export_toValue_id", "live_view_write_then_read", "live_view_frame",
                      "live_view_fields", "inv_preserved", "handed_out_wrappers_stable", "write_through_live"],
    "allowed_axioms": [],
    "trusted_base": [
        "Coq 8.16.1 kernel + vm_compute (no native_compute); theorems closed under the global context (no axioms)",
        "hand-written Gallina model coq/C13/Model.v of runtime.go toValue / Export dispatch, objectExportCtx, buildFieldInfo, "
        "objectGoArrayReflect.valueCache (Live/Detached element wrappers); reflect itself is opaque",
        "correspondence harness harness/cmd/c13 (Go's reflect.DeepEqual-style equality and pointer identity are the oracle of the rt cases)",
    ],
    "assumptions": [
        "PARTIAL: reflect addressability rules, reflect panics, method sets, named scalar types, time.Time/big.Int special cases and the "
        "numeric width conversions of every kind pair are exercised by the harness only; the model carries the dispatch/aliasing logic",
        "the per-field valueCache of objectGoReflect for nested struct/array fields is not in the model (finding C13-F20 lives there)",
        "the implementation is tied to the model only on the generated values/histories (correspondence), not by proof",
    ],
    "predicates": {
        "C13.pointer_to_func_export_loses_pointer": _probe({"ptr_to_func_export"}, "STATE-MISMATCH"),
    },
    "manifest": {
        "text": ("proof (partial): over a Gallina model of the bridge, for ALL values/histories of the model: Export(ToValue g) = normalize g and "
                 "= g on export-normal values (same address for pointer/map/slice/func kinds); wrapper locations obey the lens laws (script "
                 "write -> Go read, Go write -> script read, disjoint paths unaffected) incl. promoted fields under any FieldNameMapper; the "
                 "element-wrapper cache invariant (Live wrappers = cached wrappers) holds along every swap-free history of get/put/delete/"
                 "length=/Go-write/handle-write and a handed-out wrapper keeps its denotation under every operation that is not a write to it "
                 "(8 theorems, no axioms). Modelled and checked by correspondence only, no theorem yet: the swap step of sort, the export "
                 "identity cache on script-built graphs (sharing/cycles), ExportTo. Not expressible in Gallina and therefore only tested: "
                 "reflect addressability and panics (7 findings C13-F20..F26 found there). Tied to /repo on every run by 1000 (quick) / "
                 "100000 (thorough) generated values, graphs and histories."),
        "note": ("trusted: Coq kernel + vm_compute; the hand transcription coq/C13/Model.v; the Go harness (its deep-equality and pointer "
                 "identity oracle); reflect, unsafe and the Go runtime are opaque; implementation covered by correspondence, not by proof"),
        "technique": "Rocq proofs over an executable heap/wrapper model (lens laws, cache invariant by induction over histories, fuelled graph export) + differential correspondence against /repo via vm_compute",
    },
}
