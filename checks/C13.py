def _probe(names, signature):
    """narrow recogniser: the named minimal probe of the finding, failing with the recorded signature"""
    def pred(case, record, expected_text):
        return (isinstance(case, dict) and case.get("kind") == "probe" and case.get("name") in names
                and signature in (record.get("obs") or "") and "false" in (record.get("coq") or ""))
    return pred


CFG = {
    "id": "C13",
    "harness": "c13",
    "prop_file": "Properties/C13.v",
    "run_modules": ["Verif.C13.Run"],
    "coq_dirs": ["C13"],
    "n": {"quick": 2400, "thorough": 60000},
    "shard": 150,
    "max_report": 4,
    "level": "proof",
    "rule": ("34% rt: a random Go type (nesting <= 4 of reflect.StructOf/PtrTo/SliceOf/ArrayOf/MapOf[string|int*|uint*|float*]/FuncOf "
             "incl. variadic and (T, error), interface{}, all numeric kinds, string, bool, *big.Int, time.Time, hand-written structs with "
             "embedded (also nil) pointers/unexported/tagged/shadowing fields and methods, nil funcs/maps/slices) and a random value under one "
             "of the 3 FieldNameMappers: Export identity (deep equality + same pointer for ptr/map/slice/func), ExportTo own type, 11 script "
             "operations without host panic; 8% graph: script-built object graph (1..6 nodes, sharing/cycles) exported once, canonical shape "
             "by pointer identity vs the model's export-with-cache; 7% xto: ONE ExportTo into a random Go struct whose 2..7 fields mix "
             "interface{} and typed map/slice/struct destinations reaching 4 shared script objects in random order: same object + same (or "
             "generic) destination type => same Go reference, different objects => different references; 30% hist: 1..20 ops on a *[]Elem "
             "wrapper (get/put/defineProperty with and without value/putHandle/delete/sort/length=/push/pop/splice/reverse, FAILING "
             "assignments arr[i]=5 and h.In=5 in strict and sloppy mode, Go-side element and pointee writes, element handles and nested-FIELD "
             "handles: read/write/reassign/identity) plus an epilogue re-checking identity and liveness of up to 3 field and 3 element "
             "wrappers handed out earlier; Go-visible and script-visible state compared with the model after every op; 9% map: 1..20 ops on "
             "map[string]int (also nil) / map[string]interface{} wrappers; 12% gs: 1..20 ops on *[]interface{} / *[]int / *[N]int wrappers "
             "with Go-side truncation/append/set interleaved with script-side growth (length=, gap-leaving index writes, push), "
             "defineProperty without value, out-of-range writes on arrays. non-trivial = rt depth>0, graph with a shared/cyclic node, xto with "
             "a shared pair, hist with sort/shrink/splice after a handle was taken, map with >3 ops, gs with script growth after a Go "
             "truncation; distinct = by hash of the case. The generator avoids only the region of the open finding C13-F25 (pointer to func)."),
    "theorem_names": ["export_toValue_norm", "export_toValue_id", "export_records_result", "export_preserves_sharing",
                      "export_terminates", "live_view_write_then_read", "live_view_frame", "live_view_fields", "inv_preserved",
                      "handed_out_wrappers_stable", "sort_swap_invisible", "write_through_live", "nested_inv_preserved",
                      "handed_out_field_wrappers_stable", "field_write_through", "failing_assignment_noop"],
    "allowed_axioms": [],
    "trusted_base": [
        "Coq 8.16.1 kernel + vm_compute (no native_compute); theorems closed under the global context (no axioms)",
        "hand-written Gallina model coq/C13/Model.v of runtime.go toValue / Export dispatch, objectExportCtx, buildFieldInfo, "
        "objectGoArrayReflect.valueCache (Live/Detached element wrappers); reflect itself is opaque",
        "correspondence harness harness/cmd/c13 (Go's reflect.DeepEqual-style equality and pointer identity are the oracle of the rt cases)",
    ],
    "assumptions": [
        "PARTIAL: reflect addressability rules, reflect panics, method sets, named scalar types, time.Time/big.Int special cases and the "
        "numeric width conversions of every kind pair are exercised by the harness only; the model carries the dispatch/aliasing logic",
        "the recursion of setReflectValue over cached nested wrappers is abstracted: a field wrapper is modelled as a reference to its owner",
        "ExportTo's typed cache (getTyped/putTyped) is not modelled: the xto cases use Go pointer identity as the oracle",
        "the implementation is tied to the model only on the generated values/histories (correspondence), not by proof",
    ],
    "predicates": {
        "C13.pointer_to_func_export_loses_pointer": _probe({"ptr_to_func_export"}, "STATE-MISMATCH"),
    },
    "manifest": {
        "text": ("proof (partial): over a Gallina model of the bridge, for ALL values/histories of the model: Export(ToValue g) = normalize g and "
                 "= g on export-normal values (same address for pointer/map/slice/func kinds); the cached export of a script-built graph "
                 "records one result per object, returns that same reference at every later occurrence (sharing, cycles) and terminates on "
                 "every closed graph; wrapper locations obey the lens laws (script write -> Go read, Go write -> script read, disjoint paths "
                 "unaffected) incl. promoted fields under any FieldNameMapper; the element-wrapper cache invariant holds along every history "
                 "of get/put/delete/sort swaps/length=/Go-write/handle-write, a sort swap never changes what any wrapper denotes, a handed-out "
                 "element wrapper and a handed-out nested-field wrapper keep their denotation under every operation that is not a write to "
                 "them, writes through them reach the Go value, a failing field assignment is a no-op (16 theorems, no axioms). Modelled and "
                 "checked by correspondence only: ExportTo's typed cache. Not expressible in Gallina and therefore only tested: reflect "
                 "addressability and panics (7 findings found there, 6 repaired, C13-F25 open). Tied to /repo on every run by 2400 (quick) / "
                 "60000 (thorough) generated values, graphs, export targets and histories."),
        "note": ("trusted: Coq kernel + vm_compute; the hand transcription coq/C13/Model.v; the Go harness (its deep-equality and pointer "
                 "identity oracle); reflect, unsafe and the Go runtime are opaque; implementation covered by correspondence, not by proof"),
        "technique": "Rocq proofs over an executable heap/wrapper model (lens laws, cache invariant by induction over histories, fuelled graph export) + differential correspondence against /repo via vm_compute",
    },
}
