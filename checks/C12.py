import os
import re
import struct

import vcheck

# ---------------------------------------------------------------------------------------------
# helpers for the known-finding recognisers (each is deliberately narrow: input shape AND the
# observed/expected pair)

NAN = 0x7FF8000000000000
NEG0 = 0x8000000000000000
WS = {9, 10, 11, 12, 13, 32, 160, 5760, 8232, 8233, 8239, 8287, 12288, 65279} | set(range(8192, 8203))


def _s(case):
    return "".join(chr(u) for u in case.get("s", []))


def _trim(units):
    a, b = 0, len(units)
    while a < b and units[a] in WS:
        a += 1
    while b > a and units[b - 1] in WS:
        b -= 1
    return units[a:b]


def _obs_int(rec):
    m = re.search(r"\(?(-?\d+)\)?%Z$", rec["coq"].strip())
    return int(m.group(1)) if m else None


def _obs_str(rec):
    m = re.search(r"(\[[\d;]*\](?:%Z)?)$", rec["coq"].strip())
    if not m:
        return None
    return "".join(chr(int(x)) for x in re.findall(r"\d+", m.group(1).replace("%Z", "")))


def _exp_int(exp):
    m = re.search(r"ABits\s+\(?(-?\d+)\)?", exp or "")
    return int(m.group(1)) if m else None


def _exp_str(exp):
    m = re.search(r"AStr\s+\[([\d;\s]*)\]", (exp or "").replace("%Z", ""))
    if not m:
        return None
    return "".join(chr(int(x)) for x in re.findall(r"\d+", m.group(1)))


def _bits(f):
    return struct.unpack("<Q", struct.pack("<d", f))[0]


def _x(case):
    b = int(case.get("b", "0"))
    return b, struct.unpack("<d", struct.pack("<Q", b))[0]


def _digit(c):
    if "0" <= c <= "9":
        return ord(c) - 48
    if "a" <= c <= "z":
        return ord(c) - 87
    if "A" <= c <= "Z":
        return ord(c) - 55
    return 99










def p_nonoctal_decimal_rejected(case, rec, exp):
    if case.get("k") != "lit":
        return False
    t = _s(case)
    if not re.fullmatch(r"0[0-9]*[89][0-9]*(\.[0-9]*)?([eE][+-]?[0-9]+)?", t):
        return False
    e = _exp_int(exp)
    return _obs_int(rec) == -1 and e is not None and e >= 0




















PREDICATES = {
    "C12.nonoctal_decimal_literal_rejected": p_nonoctal_decimal_rejected,
}

# ---------------------------------------------------------------------------------------------
# stage: the standard correspondence, but every mismatch is classified (the open findings of this
# property are hit by several per cent of the generated cases, so the first-six rule of the default
# handler would hide a new violation behind known ones)


def _split_top(s):
    out, depth, cur = [], 0, []
    for ch in s:
        if ch in "[(":
            depth += 1
        elif ch in "])":
            depth -= 1
        if ch == ";" and depth == 0:
            out.append("".join(cur).strip())
            cur = []
        else:
            cur.append(ch)
    if "".join(cur).strip():
        out.append("".join(cur).strip())
    return out


def _expected_of(ctx, recs, tag):
    exps = []
    for i in range(0, len(recs), 100):
        chunk = recs[i:i + 100]
        _, rc, out = vcheck.coq_eval_shard((ctx.work, "%s%d" % (tag, i // 100), ctx.cfg["run_modules"][0],
                                            [r["coq"] for r in chunk], True, 900))
        m = re.search(r"E\s*=\s*\[(.*)\]\s*:\s*list answer", out, re.S) if rc == 0 else None
        items = _split_top(m.group(1)) if m else []
        if len(items) != len(chunk):
            items = [""] * len(chunk)
        exps += items
    return exps


def _classify(ctx, binp, recs, source):
    bad, errs, _ = vcheck.coq_eval(ctx, recs, tag="g" if source == "generated" else "c")
    for e in errs:
        ctx.log("coq eval error (%s): %s" % (source, e[-800:]))
        ctx.eval_errors = True
    ctx.log("%s: %d cases, %d differ from the model" % (source, len(recs), len(bad)))
    if not bad:
        return 0
    known = [k for k in vcheck.load_known()["open"] if k["property"] == ctx.pid]
    exps = _expected_of(ctx, [recs[i] for i in bad], "e" + source[:1])
    hits = ctx.cov.setdefault("known_finding_hits", {})
    unmatched = []
    for i, exp in zip(bad, exps):
        case = recs[i]["case"]
        matched = None
        for k in known:
            fn = PREDICATES.get(k["predicate"])
            try:
                if fn and fn(case, recs[i], exp):
                    matched = k
                    break
            except Exception:
                pass
        if matched:
            if matched["id"] not in hits:
                line = "KNOWN-FINDING: property=%s %s [%s]" % (ctx.pid, matched["what"], matched["id"])
                print(line, flush=True)
                ctx.known_lines.append(line)
            hits[matched["id"]] = hits.get(matched["id"], 0) + 1
        else:
            unmatched.append(i)
    if unmatched:
        # history-dependent failures only reproduce as a whole sequence: examine `seq` cases first
        unmatched.sort(key=lambda i: 0 if recs[i]["case"].get("k") == "seq" else 1)
        vcheck.handle_mismatches(ctx, binp, recs, unmatched, source)
    return len(unmatched)


def stage(ctx):
    cfg = ctx.cfg
    binp = vcheck.build_harness(ctx)
    if not binp or not getattr(ctx, "model_ok", True):
        return
    ctx.binp = binp
    all_recs = []
    nbad = 0
    corpus_dir = os.path.join(vcheck.ROOT, "corpus", ctx.pid)
    cases = []
    if os.path.isdir(corpus_dir):
        for fn in sorted(os.listdir(corpus_dir)):
            if fn.endswith(".jsonl"):
                cases += [r["case"] for r in vcheck.read_jsonl(os.path.join(corpus_dir, fn))]
    if cases:
        recs = vcheck.harness_replay(ctx, binp, cases, tag="corpus")
        ctx.cov["corpus_cases"] = len(recs)
        nbad += _classify(ctx, binp, recs, "corpus")
        all_recs += recs
    recs = vcheck.harness_gen(ctx, binp, cfg["n"][ctx.tier], ctx.seed, extra=cfg.get("gen_extra"))
    nbad += _classify(ctx, binp, recs, "generated")
    all_recs += recs
    vcheck.summarize(ctx, all_recs, nbad)


CFG = {
    "id": "C12",
    "harness": "c12",
    "prop_file": "Properties/C12.v",
    "run_modules": ["Verif.C12.Run"],
    "coq_dirs": ["C12"],
    "n": {"quick": 5000, "thorough": 200000},
    "shard": 320, "max_report": 8,
    "level": "proof",
    "stages": [stage],
    "predicates": PREDICATES,
    "rule": ("one conversion per case: String(x)/x+''/template/toString()/ftoa.FToStr, toExponential(), toFixed(f), toExponential(f), "
             "toPrecision(p) (f,p in 0..100 and out of range), toString(r) r in 2..36, Number(String(x)), Number(s)/+s/s*1/s-0/Math.max(s), "
             "parseFloat(s), parseInt(s,r), numeric literals through RunString; x from: uniform bit patterns, 2^i and 10^j +-3 ulp, "
             "subnormals/min/max normals, 2^53 neighbourhood, 1e21 neighbourhood, short decimals, dyadic rationals placed on exact "
             "toFixed/toPrecision ties; s from: re-formatted doubles, exact midpoints between adjacent doubles (math/big, all digits, "
             "+-1 in the last place, up to 1200 digits), long digit strings with exponents, grammar edge cases and mutations, "
             "radix-prefixed strings of 1..80 digits, integers that force a rounding decision at 53 bits; plus `seq` cases: 6 big-number-path "
             "conversions (decimal exponent +-(20..308), 17-100 digits) run in order in ONE process -- every conversion is a pure "
             "function, so the model answers each step independently of the history; non-trivial = x finite "
             "non-zero (formatting) / input contains a digit (parsing); distinct = by hash of the case"),
    "theorem_names": ["parse_decimal_nearest_even", "parse_decimal_wellformed", "parse_decimal_pack", "divmod_spec",
                      "fixed_correct", "shortest_correct", "shortest_total", "of_bits_canonical", "neighbours_suffice",
                      "shortest_closest_of_neighbours", "dec_pt_sound", "radix_check_sound", "digs_length",
                      "parse_decimal_unique", "parse_decimal_monotone", "rounding_interval_convex", "round_ratio_exact",
                      "parse_decimal_overflow_iff", "round_up_side", "round_down_side", "dec_pt_total",
                      "tostring_layout_steps", "fixed_body_steps", "prec_layout_steps"],
    "allowed_axioms": [],
    "trusted_base": [
        "Coq 8.16.1 kernel + vm_compute (no native_compute); theorems closed under the global context (no axioms)",
        "the specification functions of coq/C12/Model.v are hand-written from ECMA-262 (7.1.4.1.1, 6.1.6.1.20, 21.1.3.2-.6, 19.2.4-.5, 12.9.3); "
        "the layout functions (placement of point/exponent) and the grammar front ends are executable definitions validated against node 20 "
        "by hand, not proved against a second formalisation",
        "correspondence harness harness/cmd/c12 (Go, math/big generators) and the python recognisers of known findings",
        "coq/Base/F64.v of_bits/to_bits (bit pattern <-> SpecFloat datum)",
    ],
    "assumptions": [
        "the implementation is compared with the proved specification functions on generated samples only; the claim for every double "
        "is proved of the model, not of goja's dtoa/Grisu port",
        "the grammar front ends (StringToNumber, parseFloat, parseInt, numeric literals) and the assembly of the layout branches into "
        "toFixed/toExponential/toPrecision are executable definitions, not theorems (the branch equations of the layouts are)",
        "toString(radix) is validated (the emitted digits, read exactly, round to x; lower case; no superfluous zeros), not recomputed",
    ],
    "manifest": {
        "text": ("proof: the specification is executable and proved on exact integers (24 theorems, no axioms). Rounding of any rational "
                 "N/D (every string->number path) is proved nearest among ALL doubles with ties to the even significand, value-determined, "
                 "monotone, exact on doubles, and infinite exactly from 2^1024-2^970; toFixed/toExponential/toPrecision digit selection is "
                 "proved to minimise the error and take the larger n on ties for every digit count; shortest(x) is proved total (17 digits "
                 "suffice), to parse back to x, and minimal: no decimal with fewer digits, whatever its digits and exponent, parses to x; the "
                 "toString(radix) validator is proved sound; the layout branches are proved equal to the ECMA-262 steps. goja is tied to these "
                 "functions on every run: 5000 (quick) / 200000 (thorough) generated conversions incl. big-integer halfway cases up to 1200 "
                 "digits are executed on /repo and recomputed by vm_compute."),
        "note": ("trusted: Coq kernel + vm_compute; the hand-written specification functions (layouts and grammars are definitions, not "
                 "theorems); the Go harness; goja's dtoa/Grisu code itself is covered by correspondence on samples, not by proof"),
        "technique": "Rocq proofs about an executable exact-arithmetic specification + differential correspondence against /repo via vm_compute; verified validator for radix output",
    },
}
